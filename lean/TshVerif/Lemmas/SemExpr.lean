/-
  Expressions of the scalar fragment: the lines the bash converter emits for an expression compute, in the
  bash model, the value the source semantics gives, into an operand text that stays valid while later
  helper variables are written.
-/
import TshVerif.Lemmas.SemScan
import TshVerif.Lemmas.BashStmt
namespace Tsh.Sem
open Tsh Tsh.Tr Tsh.Bash

/-- environment and store agree on the program's variables -/
def Agree (env : Src.Env) (ρ : Store) : Prop := ∀ x v, env x = some v → goodName x = true ∧ ρ x = v.render

/-- `ρ'` differs from `ρ` at most on the helper variables `_h<k>`, `lo ≤ k < hi` -/
def FrameH (lo hi : Nat) (ρ ρ' : Store) : Prop := ∀ x, (∀ k, lo ≤ k → k < hi → x ≠ helperName k) → ρ' x = ρ x

/-- the operand text `t` reads as `v` in `ρ` and in every store that differs from it only on helpers `≥ k` -/
def Holds (t v : String) (k : Nat) (ρ : Store) : Prop :=
  ∀ ρ', (∀ x, (∀ j, k ≤ j → x ≠ helperName j) → ρ' x = ρ x) → Complete ρ' t.toList v.toList

/-- simple commands one after the other, none of which prints or leaves the block -/
def runLines : List Line → Cfg → Option Cfg
  | [], c => some c
  | l :: ls, c =>
      match stepSimple l c with
      | some (.normal, c') => runLines ls c'
      | _ => none

theorem runLines_append (a b : List Line) (c : Cfg) :
    runLines (a ++ b) c = (runLines a c).bind (runLines b) := by
  induction a generalizing c with
  | nil => simp [runLines]
  | cons l ls ih =>
    simp only [List.cons_append, runLines]
    cases h : stepSimple l c with
    | none => simp
    | some p =>
      obtain ⟨o, c'⟩ := p
      cases o <;> simp [ih]

/-- new lines (latest first) and `n` new helper variables -/
def adv (s : St) (new : List Line) (n : Nat) : St := { s with code := new ++ s.code, varCounter := s.varCounter + n }

theorem adv_zero (s : St) : adv s [] 0 = s := rfl
theorem adv_adv (s : St) (a b : List Line) (m n : Nat) : adv (adv s a m) b n = adv s (b ++ a) (m + n) := by
  simp [adv, Nat.add_assoc]
theorem adv_funcs (s : St) (a : List Line) (n : Nat) : (adv s a n).funcs = s.funcs := rfl
theorem adv_varCounter (s : St) (a : List Line) (n : Nat) : (adv s a n).varCounter = s.varCounter + n := rfl

theorem FrameH.refl (lo hi : Nat) (ρ : Store) : FrameH lo hi ρ ρ := fun _ _ => rfl

theorem FrameH.trans {a b c : Nat} {ρ ρ1 ρ2 : Store} (h1 : FrameH a b ρ ρ1) (h2 : FrameH b c ρ1 ρ2) (hab : a ≤ b) (hbc : b ≤ c) :
    FrameH a c ρ ρ2 := by
  intro x hx
  rw [h2 x (fun k h1' h2' => hx k (by omega) h2'), h1 x (fun k h1' h2' => hx k h1' (by omega))]

theorem FrameH.agree {lo hi : Nat} {ρ ρ' : Store} {env : Src.Env} (h : FrameH lo hi ρ ρ') (ha : Agree env ρ) : Agree env ρ' := by
  intro x v hx
  obtain ⟨hg, hv⟩ := ha x v hx
  exact ⟨hg, by rw [h x (fun k _ _ => good_ne_helper x k hg)]; exact hv⟩

theorem Holds.mono {t v : String} {k k' : Nat} {ρ ρ' : Store} (h : Holds t v k ρ) (hk : k ≤ k')
    (hf : ∀ x, (∀ j, k ≤ j → x ≠ helperName j) → ρ' x = ρ x) : Holds t v k' ρ' := by
  intro ρ'' h''
  apply h
  intro x hx
  rw [h'' x (fun j hj => hx j (by omega)), hf x hx]

theorem Holds.frame {t v : String} {k k' : Nat} {ρ ρ' : Store} (h : Holds t v k ρ) (hk : k ≤ k') (hf : FrameH k k' ρ ρ') :
    Holds t v k' ρ' :=
  h.mono hk (fun x hx => hf x (fun j h1 _ => hx j h1))

theorem Holds.here {t v : String} {k : Nat} {ρ : Store} (h : Holds t v k ρ) : Complete ρ t.toList v.toList :=
  h ρ (fun _ _ => rfl)

theorem Holds.expand {t v : String} {k : Nat} {ρ : Store} (h : Holds t v k ρ) : expand ρ t = some v := h.here.toExpand

theorem holds_helper (k : Nat) (ρ : Store) (v : String) (h : ρ (helperName k) = v) :
    Holds ("${" ++ helperName k ++ "}") v (k + 1) ρ := by
  intro ρ' h'
  have : ρ' (helperName k) = v := by
    rw [h' _ (fun j hj e => by have := helperName_inj e; omega)]; exact h
  rw [← this]
  exact complete_var ρ' _ (helperName_valid k)

/-! ### what the converter operations do, as equations -/

theorem varName_top (s : St) (h : s.funcs = []) (n : String) (g : Bool) : varName s n g = n := by
  simp [varName, inFunction, h]

theorem toString_str (x : String) : toString x = x := rfl

theorem helperVar_eq (k : Nat) : (s!"_h{k}" : String) = helperName k := rfl

theorem unaryOp_spec (e : String) (s : St) (h0 : s.funcs = []) :
    unaryOp e "!" s = .ok ("${" ++ helperName s.varCounter ++ "}",
      adv s [.assignTest (helperName s.varCounter) (.cmp e "-eq" "1") "0" "1"] 1) := by
  simp [unaryOp, bind, nextHelperVar, varAssignTest, varEvaluation, Tr.get, addLine, Tr.modify, pure,
    varEvalString, varName, inFunction, h0, adv, helperName, toString_str]

theorem arithOp_spec (l op r : String) (vt : ValueType) (s : St) (h0 : s.funcs = []) (hs : vt.isSlice = false) (hd : vt.dt = .int)
    (ho : (op == "*" || op == "/" || op == "%" || op == "+" || op == "-") = true) :
    binaryOp l op r vt s = .ok ("${" ++ helperName s.varCounter ++ "}",
      adv s [.assignArith (helperName s.varCounter) l op r] 1) := by
  simp [binaryOp, bind, nextHelperVar, varAssignArith, varEvaluation, Tr.get, addLine, Tr.modify, pure,
    varEvalString, varName, inFunction, h0, adv, helperName, toString_str, hs, hd, ho]

theorem concatOp_spec (l r : String) (vt : ValueType) (s : St) (h0 : s.funcs = []) (hs : vt.isSlice = false) (hd : vt.dt = .string) :
    binaryOp l "+" r vt s = .ok ("${" ++ helperName s.varCounter ++ "}",
      adv s [.assign (helperName s.varCounter) (l ++ r)] 1) := by
  simp [binaryOp, bind, nextHelperVar, varAssignment, varEvaluation, Tr.get, addLine, Tr.modify, pure,
    varEvalString, varName, inFunction, h0, adv, helperName, toString_str, hs, hd]

theorem compareOp_spec (os l op r : String) (vt : ValueType) (s : St) (h0 : s.funcs = []) (hos : (os.length == 0) = false) :
    comparisonOpWith os l op r vt s = .ok ("${" ++ helperName s.varCounter ++ "}",
      adv s [.assignTest (helperName s.varCounter) (.cmp l os r) "1" "0"] 1) := by
  simp [comparisonOpWith, bind, nextHelperVar, varAssignTest, varEvaluation, Tr.get, addLine, Tr.modify, pure,
    varEvalString, varName, inFunction, h0, adv, helperName, toString_str, hos]

theorem logicalOp_spec (l op r : String) (s : St) (h0 : s.funcs = []) (ho : (op == "&&" || op == "||") = true) :
    logicalOp l op r s = .ok ("${" ++ helperName s.varCounter ++ "}",
      adv s [.assignTest (helperName s.varCounter) (.log l op r) "1" "0"] 1) := by
  simp [logicalOp, bind, nextHelperVar, varAssignTest, varEvaluation, Tr.get, addLine, Tr.modify, pure,
    varEvalString, varName, inFunction, h0, adv, helperName, toString_str, ho]

/-! ### the shape of the claim, and how it composes -/

/-- Evaluating an expression from converter state `s` returned the operand texts `r` and state `s'`:
    exactly one text, only new lines and helper variables, and running the new lines from any store that
    agrees with the environment makes the text read as `v`, touching nothing but the new helpers. -/
def ExprSem (env : Src.Env) (v : String) (s : St) (r : List String) (s' : St) : Prop :=
  ∃ t new n, r = [t] ∧ s' = adv s new n ∧
    ∀ ρ out, Agree env ρ → ∃ ρ', runLines new.reverse ⟨ρ, out⟩ = some ⟨ρ', out⟩ ∧
      FrameH s.varCounter (s.varCounter + n) ρ ρ' ∧ Holds t v (s.varCounter + n) ρ'

theorem sem_leaf (env : Src.Env) (t v : String) (s : St) (h : ∀ ρ, Agree env ρ → ∀ k, Holds t v k ρ) :
    ExprSem env v s [t] s :=
  ⟨t, [], 0, rfl, rfl, fun ρ out ha => ⟨ρ, rfl, FrameH.refl _ _ ρ, h ρ ha _⟩⟩

theorem set_other (ρ : Store) (x y v : String) (h : y ≠ x) : ρ.set x v y = ρ y := by
  simp [Store.set, h]
theorem set_same (ρ : Store) (x v : String) : ρ.set x v x = v := by
  simp [Store.set]

theorem sem_unary {env : Src.Env} {vx v : String} {s s1 : St} {a : List String}
    (hx : ExprSem env vx s a s1) (mk : String → Line)
    (hstep : ∀ (ρ : Store) out k tx, Holds tx vx k ρ →
      stepSimple (mk tx) ⟨ρ, out⟩ = some (.normal, ⟨ρ.set (helperName s1.varCounter) v, out⟩)) :
    ExprSem env v s ["${" ++ helperName s1.varCounter ++ "}"] (adv s1 [mk (firstValue a)] 1) := by
  obtain ⟨tx, newx, nx, rfl, rfl, semx⟩ := hx
  refine ⟨_, [mk tx] ++ newx, nx + 1, rfl, by rw [adv_adv]; rfl, ?_⟩
  intro ρ out ha
  obtain ⟨ρ1, run1, fr1, hold1⟩ := semx ρ out ha
  refine ⟨ρ1.set (helperName (s.varCounter + nx)) v, ?_, ?_, ?_⟩
  · rw [List.reverse_append, runLines_append, run1]
    rw [show (adv s newx nx).varCounter = s.varCounter + nx from rfl] at hstep
    have e := hstep ρ1 out (s.varCounter + nx) tx hold1
    simp only [Option.bind, List.reverse_cons, List.reverse_nil, List.nil_append, runLines, e]
  · intro x hx
    rw [set_other _ _ _ _ (hx _ (by omega) (by omega))]
    exact fr1 x (fun k h1 h2 => hx k h1 (by omega))
  · have := holds_helper (s.varCounter + nx) (ρ1.set (helperName (s.varCounter + nx)) v) v
      (set_same ρ1 (helperName (s.varCounter + nx)) v)
    have e : s.varCounter + (nx + 1) = s.varCounter + nx + 1 := by omega
    rw [e]
    exact this

theorem sem_binary {env : Src.Env} {vl vr v : String} {s s1 s2 : St} {a b : List String}
    (hl : ExprSem env vl s a s1) (hr : ExprSem env vr s1 b s2) (mk : String → String → Line)
    (hstep : ∀ (ρ : Store) out k tl tr, Holds tl vl k ρ → Holds tr vr k ρ →
      stepSimple (mk tl tr) ⟨ρ, out⟩ = some (.normal, ⟨ρ.set (helperName s2.varCounter) v, out⟩)) :
    ExprSem env v s ["${" ++ helperName s2.varCounter ++ "}"] (adv s2 [mk (firstValue a) (firstValue b)] 1) := by
  obtain ⟨tl, newl, nl, rfl, rfl, seml⟩ := hl
  obtain ⟨tr, newr, nr, rfl, rfl, semr⟩ := hr
  refine ⟨_, [mk tl tr] ++ (newr ++ newl), nl + nr + 1, rfl, by rw [adv_adv, adv_adv]; rfl, ?_⟩
  intro ρ out ha
  obtain ⟨ρ1, run1, fr1, hold1⟩ := seml ρ out ha
  obtain ⟨ρ2, run2, fr2, hold2⟩ := semr ρ1 out (fr1.agree ha)
  simp only [adv_varCounter] at fr2 hold2 hstep
  have hold1' : Holds tl vl (s.varCounter + nl + nr) ρ2 := hold1.frame (by omega) fr2
  refine ⟨ρ2.set (helperName (s.varCounter + nl + nr)) v, ?_, ?_, ?_⟩
  · rw [List.reverse_append, List.reverse_append, runLines_append, runLines_append, run1]
    simp only [Option.bind]
    rw [run2]
    have e := hstep ρ2 out (s.varCounter + nl + nr) tl tr hold1' hold2
    simp only [List.reverse_cons, List.reverse_nil, List.nil_append, runLines, e]
  · intro x hx
    rw [set_other _ _ _ _ (hx _ (by omega) (by omega))]
    rw [fr2 x (fun k h1 h2 => hx k (by omega) (by omega)), fr1 x (fun k h1 h2 => hx k h1 (by omega))]
  · have := holds_helper (s.varCounter + nl + nr) (ρ2.set (helperName (s.varCounter + nl + nr)) v) v
      (set_same ρ2 (helperName (s.varCounter + nl + nr)) v)
    have e : s.varCounter + (nl + nr + 1) = s.varCounter + nl + nr + 1 := by omega
    rw [e]
    exact this

/-! ### one step of each operation in the bash model -/

theorem expandInt_of_holds {t : String} {n : Int} {k : Nat} {ρ : Store} (h : Holds t (toString n) k ρ) : expandInt ρ t = some n := by
  simp only [expandInt, h.expand, Option.bind]
  exact asInt_toString n

theorem expandInt_bool {t : String} {b : Bool} {k : Nat} {ρ : Store} (h : Holds t (boolStr b) k ρ) :
    expandInt ρ t = some (if b then 1 else 0) := by
  simp only [expandInt, h.expand, Option.bind]
  exact asInt_boolStr b

theorem expandInt_one (ρ : Store) : expandInt ρ "1" = some 1 := by
  have h : Complete ρ ("1" : String).toList ("1" : String).toList := complete_bool ρ true
  have e : asInt "1" = some 1 := asInt_boolStr true
  simp only [expandInt, h.toExpand, Option.bind]
  exact e

theorem step_not {tx : String} {b : Bool} {k : Nat} {ρ : Store} (out : List String) (h : String) (hx : Holds tx (boolStr b) k ρ) :
    stepSimple (.assignTest h (.cmp tx "-eq" "1") "0" "1") ⟨ρ, out⟩ = some (.normal, ⟨ρ.set h (boolStr (!b)), out⟩) := by
  simp only [stepSimple, evalTest, expandInt_bool hx, expandInt_one, numTest, bit]
  cases b <;> simp [boolStr]

theorem step_arith {tl tr op : String} {x y z : Int} {k : Nat} {ρ : Store} (out : List String) (h : String)
    (hl : Holds tl (toString x) k ρ) (hr : Holds tr (toString y) k ρ) (hz : arith op x y = some z) :
    stepSimple (.assignArith h tl op tr) ⟨ρ, out⟩ = some (.normal, ⟨ρ.set h (toString z), out⟩) := by
  simp only [stepSimple, expandInt_of_holds hl, expandInt_of_holds hr, hz]

theorem step_concat {tl tr x y : String} {k : Nat} {ρ : Store} (out : List String) (h : String)
    (hl : Holds tl x k ρ) (hr : Holds tr y k ρ) :
    stepSimple (.assign h (tl ++ tr)) ⟨ρ, out⟩ = some (.normal, ⟨ρ.set h (x ++ y), out⟩) := by
  have hc : Complete ρ (tl ++ tr).toList (x ++ y).toList := by
    rw [String.toList_append, String.toList_append]
    exact hl.here.append hr.here
  simp only [stepSimple, hc.toExpand]

theorem step_cmp_num {tl tr os : String} {x y : Int} {v : Bool} {k : Nat} {ρ : Store} (out : List String) (h : String)
    (hl : Holds tl (toString x) k ρ) (hr : Holds tr (toString y) k ρ) (h1 : (os == "==") = false) (h2 : (os == "!=") = false)
    (hv : numTest os x y = some v) :
    stepSimple (.assignTest h (.cmp tl os tr) "1" "0") ⟨ρ, out⟩ = some (.normal, ⟨ρ.set h (boolStr v), out⟩) := by
  simp only [stepSimple, evalTest, h1, h2, expandInt_of_holds hl, expandInt_of_holds hr, hv, bit]
  cases v <;> simp [boolStr]

theorem step_cmp_bool {tl tr os : String} {x y : Bool} {v : Bool} {k : Nat} {ρ : Store} (out : List String) (h : String)
    (hl : Holds tl (boolStr x) k ρ) (hr : Holds tr (boolStr y) k ρ) (h1 : (os == "==") = false) (h2 : (os == "!=") = false)
    (hv : numTest os (if x then 1 else 0) (if y then 1 else 0) = some v) :
    stepSimple (.assignTest h (.cmp tl os tr) "1" "0") ⟨ρ, out⟩ = some (.normal, ⟨ρ.set h (boolStr v), out⟩) := by
  simp only [stepSimple, evalTest, h1, h2, expandInt_bool hl, expandInt_bool hr, hv, bit]
  cases v <;> simp [boolStr]

theorem step_cmp_streq {tl tr x y : String} {k : Nat} {ρ : Store} (out : List String) (h : String)
    (hl : Holds tl x k ρ) (hr : Holds tr y k ρ) :
    stepSimple (.assignTest h (.cmp tl "==" tr) "1" "0") ⟨ρ, out⟩ = some (.normal, ⟨ρ.set h (boolStr (x == y)), out⟩) := by
  simp only [stepSimple, evalTest, hl.expand, hr.expand, bit]
  cases (x == y) <;> simp [boolStr]

theorem step_cmp_strne {tl tr x y : String} {k : Nat} {ρ : Store} (out : List String) (h : String)
    (hl : Holds tl x k ρ) (hr : Holds tr y k ρ) :
    stepSimple (.assignTest h (.cmp tl "!=" tr) "1" "0") ⟨ρ, out⟩ = some (.normal, ⟨ρ.set h (boolStr (x != y)), out⟩) := by
  simp only [stepSimple, evalTest, hl.expand, hr.expand, bit]
  cases (x != y) <;> simp [boolStr]

theorem step_and {tl tr : String} {x y : Bool} {k : Nat} {ρ : Store} (out : List String) (h : String)
    (hl : Holds tl (boolStr x) k ρ) (hr : Holds tr (boolStr y) k ρ) :
    stepSimple (.assignTest h (.log tl "&&" tr) "1" "0") ⟨ρ, out⟩ = some (.normal, ⟨ρ.set h (boolStr (x && y)), out⟩) := by
  simp only [stepSimple, evalTest, expandInt_bool hl, expandInt_bool hr, bit]
  cases x <;> cases y <;> simp [boolStr]

theorem step_or {tl tr : String} {x y : Bool} {k : Nat} {ρ : Store} (out : List String) (h : String)
    (hl : Holds tl (boolStr x) k ρ) (hr : Holds tr (boolStr y) k ρ) :
    stepSimple (.assignTest h (.log tl "||" tr) "1" "0") ⟨ρ, out⟩ = some (.normal, ⟨ρ.set h (boolStr (x || y)), out⟩) := by
  simp only [stepSimple, evalTest, expandInt_bool hl, expandInt_bool hr, bit]
  cases x <;> cases y <;> simp [boolStr]

/-! ### the expression theorem -/

theorem arith_op_ok {op : String} {x y z : Int} (h : arith op x y = some z) :
    (op == "*" || op == "/" || op == "%" || op == "+" || op == "-") = true := by
  unfold arith at h
  by_cases h1 : op = "+"
  · simp [h1]
  by_cases h2 : op = "-"
  · simp [h2]
  by_cases h3 : op = "*"
  · simp [h3]
  by_cases h4 : op = "/"
  · simp [h4]
  by_cases h5 : op = "%"
  · simp [h5]
  simp [h1, h2, h3, h4, h5] at h

theorem adv_funcs_nil {s s' : St} {new : List Line} {n : Nat} (e : s' = adv s new n) (h : s.funcs = []) : s'.funcs = [] := by
  rw [e]; exact h

theorem ExprSem.funcs {env : Src.Env} {v : String} {s s' : St} {r : List String} (h : ExprSem env v s r s') (h0 : s.funcs = []) :
    s'.funcs = [] := by
  obtain ⟨_, _, _, _, e, _⟩ := h
  exact adv_funcs_nil e h0

theorem intCmp_numTest {op : String} {x y : Int} {v : Bool} (h : Src.intCmp op x y = some v) :
    let os := compareOpString op ⟨.int, false⟩
    (os.length == 0) = false ∧ (os == "==") = false ∧ (os == "!=") = false ∧ numTest os x y = some v := by
  unfold Src.intCmp at h
  by_cases h1 : op = "=="
  · subst h1; simp at h; simp [compareOpString, numTest, h]
  by_cases h2 : op = "!="
  · subst h2; simp at h; simp [compareOpString, numTest, h]
  by_cases h3 : op = ">"
  · subst h3; simp at h; simp [compareOpString, numTest, h]
  by_cases h4 : op = ">="
  · subst h4; simp at h; simp [compareOpString, numTest, h]
  by_cases h5 : op = "<"
  · subst h5; simp at h; simp [compareOpString, numTest, h]
  by_cases h6 : op = "<="
  · subst h6; simp at h; simp [compareOpString, numTest, h]
  simp [h1, h2, h3, h4, h5, h6] at h

theorem expr_sem : ∀ (e : Expr) (used : Bool) (s : St) (r : List String) (s' : St) (env : Src.Env) (v : Src.Val),
    s.funcs = [] → Tr.evalExpr conv e used s = .ok (r, s') → Src.evalExpr env e = some v → ExprSem env v.render s r s'
  | .boolLit b, used, s, r, s', env, v, h0, hc, hs => by
    unfold Tr.evalExpr at hc
    obtain ⟨er, es⟩ := pure_ok hc
    subst er
    rw [es]
    simp only [Src.evalExpr, Option.some.injEq] at hs
    subst hs
    exact sem_leaf env _ _ _ (fun ρ _ k ρ' _ => complete_bool ρ' b)
  | .intLit n, used, s, r, s', env, v, h0, hc, hs => by
    unfold Tr.evalExpr at hc
    obtain ⟨er, es⟩ := pure_ok hc
    subst er
    rw [es]
    simp only [Src.evalExpr] at hs
    split at hs
    · simp only [Option.some.injEq] at hs
      subst hs
      exact sem_leaf env _ _ _ (fun ρ _ k ρ' _ => complete_int ρ' n)
    · simp at hs
  | .strLit lit, used, s, r, s', env, v, h0, hc, hs => by
    unfold Tr.evalExpr at hc
    obtain ⟨t, s1, h1, hc⟩ := bind_ok hc
    obtain ⟨er, es⟩ := pure_ok hc
    subst er
    rw [es]
    have h1' : (pure (stringToString lit) : BM String) s = .ok (t, s1) := h1
    obtain ⟨er1, es1⟩ := pure_ok h1'
    subst er1
    rw [es1]
    simp only [Src.evalExpr] at hs
    split at hs
    · rename_i hp
      simp only [Option.some.injEq] at hs
      subst hs
      refine sem_leaf env _ _ _ (fun ρ _ k ρ' _ => ?_)
      have : (stringToString lit).toList = lit.toList.flatMap escChar := by simp [stringToString]
      show Complete ρ' (stringToString lit).toList lit.toList
      rw [this]
      apply complete_literal
      have hp' : ∀ c ∈ lit.toList, (¬c = '$' ∧ ¬c = '`') ∧ c.toNat < 128 := by simpa [Src.plainLit, List.all_eq_true] using hp
      exact fun c hc => by simpa using (hp' c hc).1
    · simp at hs
  | .varEval x, used, s, r, s', env, v, h0, hc, hs => by
    unfold Tr.evalExpr at hc
    obtain ⟨t, s1, h1, hc⟩ := bind_ok hc
    obtain ⟨er, es⟩ := pure_ok hc
    subst er
    rw [es]
    have h1' : varEvaluation x.name x.global s = .ok (t, s1) := h1
    simp only [varEvaluation, bind, Tr.get, pure, varEvalString, varName_top s h0] at h1'
    injection h1' with h1'
    injection h1' with e1 e2
    subst e1; subst e2
    simp only [Src.evalExpr] at hs
    refine sem_leaf env _ _ _ (fun ρ ha k ρ' hρ' => ?_)
    obtain ⟨hg, hv⟩ := ha _ _ hs
    have : ρ' x.name = v.render := by rw [hρ' _ (fun j _ => good_ne_helper _ j hg)]; exact hv
    rw [← this]
    apply complete_var
    simp only [goodName, Bool.and_eq_true] at hg
    exact hg.1
  | .group x, used, s, r, s', env, v, h0, hc, hs => by
    unfold Tr.evalExpr at hc
    simp only [Src.evalExpr] at hs
    exact expr_sem x used s r s' env v h0 hc hs
  | .itoa x, used, s, r, s', env, v, h0, hc, hs => by
    unfold Tr.evalExpr at hc
    obtain ⟨a, s1, ha, hc⟩ := bind_ok hc
    obtain ⟨er, es⟩ := pure_ok hc
    subst er
    rw [es]
    simp only [Src.evalExpr] at hs
    split at hs
    · rename_i n hx
      simp only [Option.some.injEq] at hs
      subst hs
      have ix := expr_sem x true s a s1 env _ h0 ha hx
      obtain ⟨t, new, k, rfl, e, sem⟩ := ix
      exact ⟨t, new, k, rfl, e, sem⟩
    · simp at hs
  | .unary op x vt, used, s, r, s', env, v, h0, hc, hs => by
    unfold Tr.evalExpr at hc
    obtain ⟨a, s1, ha, hc⟩ := bind_ok hc
    obtain ⟨t, s2, hop, hc⟩ := bind_ok hc
    obtain ⟨er, es⟩ := pure_ok hc
    subst er
    rw [es]
    simp only [Src.evalExpr] at hs
    split at hs
    · rename_i hopb
      have hopeq : op = "!" := by simpa using hopb
      subst hopeq
      split at hs
      · rename_i b hx
        simp only [Option.some.injEq] at hs
        subst hs
        have ix := expr_sem x true s a s1 env _ h0 ha hx
        have hop' : unaryOp (firstValue a) "!" s1 = .ok (t, s2) := hop
        rw [unaryOp_spec _ _ (ix.funcs h0)] at hop'
        injection hop' with hop'
        injection hop' with e1 e2
        subst e1; subst e2
        exact sem_unary ix (fun tx => .assignTest (helperName s1.varCounter) (.cmp tx "-eq" "1") "0" "1")
          (fun ρ out k tx hx => step_not out _ hx)
      · simp at hs
    · simp at hs
  | .binary op l r, used, s, res, s', env, v, h0, hc, hs => by
    unfold Tr.evalExpr at hc
    obtain ⟨a, s1, ha, hc⟩ := bind_ok hc
    obtain ⟨b, s2, hb, hc⟩ := bind_ok hc
    obtain ⟨t, s3, hop, hc⟩ := bind_ok hc
    obtain ⟨er, es⟩ := pure_ok hc
    subst er
    rw [es]
    have hop' : binaryOp (firstValue a) op (firstValue b) (Expr.valueType l) s2 = .ok (t, s3) := hop
    simp only [Src.evalExpr] at hs
    split at hs
    · rename_i va vb hl hr
      have il := expr_sem l true s a s1 env va h0 ha hl
      have ir := expr_sem r true s1 b s2 env vb (il.funcs h0) hb hr
      have h2 := ir.funcs (il.funcs h0)
      unfold Src.binVal at hs
      split at hs
      · simp at hs
      · rename_i hsl
        have hsl' : (Expr.valueType l).isSlice = false := by simpa using hsl
        split at hs
        · rename_i x y hdt
          cases hz : arith op x y with
          | none => simp [hz] at hs
          | some z =>
            simp only [hz, Option.map, Option.some.injEq] at hs
            subst hs
            rw [arithOp_spec _ _ _ _ _ h2 hsl' hdt (arith_op_ok hz)] at hop'
            injection hop' with hop'
            injection hop' with e1 e2
            subst e1; subst e2
            exact sem_binary il ir (fun tl tr => .assignArith (helperName s2.varCounter) tl op tr)
              (fun ρ out k tl tr h1 h2 => step_arith out _ h1 h2 hz)
        · rename_i x y hdt
          split at hs
          · rename_i hplus
            have : op = "+" := by simpa using hplus
            subst this
            simp only [Option.some.injEq] at hs
            subst hs
            rw [concatOp_spec _ _ _ _ h2 hsl' hdt] at hop'
            injection hop' with hop'
            injection hop' with e1 e2
            subst e1; subst e2
            exact sem_binary il ir (fun tl tr => .assign (helperName s2.varCounter) (tl ++ tr))
              (fun ρ out k tl tr h1 h2 => step_concat out _ h1 h2)
          · simp at hs
        · simp at hs
    · simp at hs
  | .compare op l r, used, s, res, s', env, v, h0, hc, hs => by
    unfold Tr.evalExpr at hc
    obtain ⟨a, s1, ha, hc⟩ := bind_ok hc
    obtain ⟨b, s2, hb, hc⟩ := bind_ok hc
    obtain ⟨t, s3, hop, hc⟩ := bind_ok hc
    obtain ⟨er, es⟩ := pure_ok hc
    subst er
    rw [es]
    have hop' : comparisonOpWith (compareOpString op (Expr.valueType l)) (firstValue a) op (firstValue b) (Expr.valueType l) s2 = .ok (t, s3) := hop
    simp only [Src.evalExpr] at hs
    split at hs
    · rename_i va vb hl hr
      have il := expr_sem l true s a s1 env va h0 ha hl
      have ir := expr_sem r true s1 b s2 env vb (il.funcs h0) hb hr
      have h2 := ir.funcs (il.funcs h0)
      unfold Src.cmpVal at hs
      split at hs
      · simp at hs
      · rename_i hsl
        have hsl' : (Expr.valueType l).isSlice = false := by simpa using hsl
        have hvt : ∀ d, (Expr.valueType l).dt = d → Expr.valueType l = ⟨d, false⟩ := by
          intro d hd
          cases hv : Expr.valueType l with
          | mk dt sl => rw [hv] at hd hsl'; simp at hd hsl'; subst hd; subst hsl'; rfl
        split at hs
        · -- bool
          rename_i x y hdt
          rw [hvt _ hdt] at hop'
          split at hs
          · rename_i he
            have : op = "==" := by simpa using he
            subst this
            simp only [Option.some.injEq] at hs
            subst hs
            rw [compareOp_spec _ _ _ _ _ _ h2 (by simp [compareOpString])] at hop'
            injection hop' with hop'
            injection hop' with e1 e2
            subst e1; subst e2
            refine sem_binary il ir (fun tl tr => .assignTest (helperName s2.varCounter) (.cmp tl (compareOpString "==" ⟨.bool, false⟩) tr) "1" "0")
              (fun ρ out k tl tr h1 h2 => ?_)
            have := step_cmp_bool (os := "-eq") (v := (x == y)) out (helperName s2.varCounter) h1 h2 (by simp) (by simp)
              (by cases x <;> cases y <;> simp [numTest])
            simpa [compareOpString, Src.Val.render] using this
          · split at hs
            · rename_i hne he
              have : op = "!=" := by simpa using he
              subst this
              simp only [Option.some.injEq] at hs
              subst hs
              rw [compareOp_spec _ _ _ _ _ _ h2 (by simp [compareOpString])] at hop'
              injection hop' with hop'
              injection hop' with e1 e2
              subst e1; subst e2
              refine sem_binary il ir (fun tl tr => .assignTest (helperName s2.varCounter) (.cmp tl (compareOpString "!=" ⟨.bool, false⟩) tr) "1" "0")
                (fun ρ out k tl tr h1 h2 => ?_)
              have := step_cmp_bool (os := "-ne") (v := (x != y)) out (helperName s2.varCounter) h1 h2 (by simp) (by simp)
                (by cases x <;> cases y <;> simp [numTest])
              simpa [compareOpString, Src.Val.render] using this
            · simp at hs
        · -- int
          rename_i x y hdt
          rw [hvt _ hdt] at hop'
          cases hz : Src.intCmp op x y with
          | none => simp [hz] at hs
          | some z =>
            simp only [hz, Option.map, Option.some.injEq] at hs
            subst hs
            obtain ⟨g1, g2, g3, g4⟩ := intCmp_numTest hz
            rw [compareOp_spec _ _ _ _ _ _ h2 g1] at hop'
            injection hop' with hop'
            injection hop' with e1 e2
            subst e1; subst e2
            exact sem_binary il ir (fun tl tr => .assignTest (helperName s2.varCounter) (.cmp tl (compareOpString op ⟨.int, false⟩) tr) "1" "0")
              (fun ρ out k tl tr h1 h2 => step_cmp_num out _ h1 h2 g2 g3 g4)
        · -- string
          rename_i x y hdt
          rw [hvt _ hdt] at hop'
          split at hs
          · rename_i he
            have : op = "==" := by simpa using he
            subst this
            simp only [Option.some.injEq] at hs
            subst hs
            rw [compareOp_spec _ _ _ _ _ _ h2 (by simp [compareOpString])] at hop'
            injection hop' with hop'
            injection hop' with e1 e2
            subst e1; subst e2
            refine sem_binary il ir (fun tl tr => .assignTest (helperName s2.varCounter) (.cmp tl (compareOpString "==" ⟨.string, false⟩) tr) "1" "0")
              (fun ρ out k tl tr h1 h2 => ?_)
            have := step_cmp_streq out (helperName s2.varCounter) h1 h2
            simpa [compareOpString, Src.Val.render] using this
          · split at hs
            · rename_i hne he
              have : op = "!=" := by simpa using he
              subst this
              simp only [Option.some.injEq] at hs
              subst hs
              rw [compareOp_spec _ _ _ _ _ _ h2 (by simp [compareOpString])] at hop'
              injection hop' with hop'
              injection hop' with e1 e2
              subst e1; subst e2
              refine sem_binary il ir (fun tl tr => .assignTest (helperName s2.varCounter) (.cmp tl (compareOpString "!=" ⟨.string, false⟩) tr) "1" "0")
                (fun ρ out k tl tr h1 h2 => ?_)
              have := step_cmp_strne out (helperName s2.varCounter) h1 h2
              simpa [compareOpString, Src.Val.render] using this
            · simp at hs
        · simp at hs
    · simp at hs
  | .logical op l r, used, s, res, s', env, v, h0, hc, hs => by
    unfold Tr.evalExpr at hc
    obtain ⟨a, s1, ha, hc⟩ := bind_ok hc
    obtain ⟨b, s2, hb, hc⟩ := bind_ok hc
    obtain ⟨t, s3, hop, hc⟩ := bind_ok hc
    obtain ⟨er, es⟩ := pure_ok hc
    subst er
    rw [es]
    have hop' : logicalOp (firstValue a) op (firstValue b) s2 = .ok (t, s3) := hop
    simp only [Src.evalExpr] at hs
    split at hs
    · rename_i x y hl hr
      have il := expr_sem l true s a s1 env _ h0 ha hl
      have ir := expr_sem r true s1 b s2 env _ (il.funcs h0) hb hr
      have h2 := ir.funcs (il.funcs h0)
      split at hs
      · rename_i he
        have : op = "&&" := by simpa using he
        subst this
        simp only [Option.some.injEq] at hs
        subst hs
        rw [logicalOp_spec _ _ _ _ h2 (by simp)] at hop'
        injection hop' with hop'
        injection hop' with e1 e2
        subst e1; subst e2
        exact sem_binary il ir (fun tl tr => .assignTest (helperName s2.varCounter) (.log tl "&&" tr) "1" "0")
          (fun ρ out k tl tr h1 h2 => step_and out _ h1 h2)
      · split at hs
        · rename_i hne he
          have : op = "||" := by simpa using he
          subst this
          simp only [Option.some.injEq] at hs
          subst hs
          rw [logicalOp_spec _ _ _ _ h2 (by simp)] at hop'
          injection hop' with hop'
          injection hop' with e1 e2
          subst e1; subst e2
          exact sem_binary il ir (fun tl tr => .assignTest (helperName s2.varCounter) (.log tl "||" tr) "1" "0")
            (fun ρ out k tl tr h1 h2 => step_or out _ h1 h2)
        · simp at hs
    · simp at hs
  | .call _ _ _, _, _, _, _, _, _, _, _, hs => by simp [Src.evalExpr] at hs
  | .app _ _ _, _, _, _, _, _, _, _, _, hs => by simp [Src.evalExpr] at hs
  | .sliceNew _ _, _, _, _, _, _, _, _, _, hs => by simp [Src.evalExpr] at hs
  | .sliceEval _ _ _, _, _, _, _, _, _, _, _, hs => by simp [Src.evalExpr] at hs
  | .substr _ _ _, _, _, _, _, _, _, _, _, hs => by simp [Src.evalExpr] at hs
  | .len _, _, _, _, _, _, _, _, _, hs => by simp [Src.evalExpr] at hs
  | .exists_ _, _, _, _, _, _, _, _, _, hs => by simp [Src.evalExpr] at hs
  | .read _, _, _, _, _, _, _, _, _, hs => by simp [Src.evalExpr] at hs
  | .input _, _, _, _, _, _, _, _, _, hs => by simp [Src.evalExpr] at hs
  | .copy _ _, _, _, _, _, _, _, _, _, hs => by simp [Src.evalExpr] at hs
  | .write _ _ _, _, _, _, _, _, _, _, _, hs => by simp [Src.evalExpr] at hs
  | .bad _, _, _, _, _, _, _, _, _, hs => by simp [Src.evalExpr] at hs

/-! ### the shape of the translation, whatever the values -/

theorem adv_inj {s : St} {a b : List Line} {m n : Nat} (h : adv s a m = adv s b n) : a = b ∧ m = n := by
  have h1 := congrArg St.code h
  have h2 := congrArg St.varCounter h
  simp only [adv] at h1 h2
  exact ⟨List.append_cancel_right h1, by omega⟩

theorem ExprSem.at {env : Src.Env} {v t : String} {s : St} {new : List Line} {n : Nat}
    (h : ExprSem env v s [t] (adv s new n)) :
    ∀ ρ out, Agree env ρ → ∃ ρ', runLines new.reverse ⟨ρ, out⟩ = some ⟨ρ', out⟩ ∧
      FrameH s.varCounter (s.varCounter + n) ρ ρ' ∧ Holds t v (s.varCounter + n) ρ' := by
  obtain ⟨t', new', n', e1, e2, sem⟩ := h
  simp only [List.cons.injEq, and_true] at e1
  obtain ⟨rfl, rfl⟩ := adv_inj e2
  subst e1
  exact sem

theorem unaryOp_shape {e op t : String} {s s' : St} (h0 : s.funcs = []) (h : unaryOp e op s = .ok (t, s')) :
    ∃ line, s' = adv s [line] 1 := by
  unfold unaryOp at h
  obtain ⟨hv, s1, h1, h⟩ := bind_ok h
  simp [nextHelperVar] at h1
  obtain ⟨rfl, rfl⟩ := h1
  split at h
  · simp [bind, varAssignTest, varEvaluation, Tr.get, addLine, Tr.modify, pure] at h
    exact ⟨_, h.2.symm⟩
  · simp [Tr.fail] at h

theorem binaryOp_shape {l op r t : String} {vt : ValueType} {s s' : St} (h0 : s.funcs = []) (h : binaryOp l op r vt s = .ok (t, s')) :
    ∃ line, s' = adv s [line] 1 := by
  unfold binaryOp notAllowedBin at h
  obtain ⟨hv, s1, h1, h⟩ := bind_ok h
  simp [nextHelperVar] at h1
  obtain ⟨rfl, rfl⟩ := h1
  by_cases hsl : vt.isSlice = true
  · simp [hsl, Tr.fail] at h
  · simp only [hsl, Bool.false_eq_true, if_false] at h
    cases hd : vt.dt with
    | int =>
      simp only [hd] at h
      split at h
      · simp [bind, varAssignArith, varEvaluation, Tr.get, addLine, Tr.modify, pure] at h
        exact ⟨_, h.2.symm⟩
      · simp [Tr.fail] at h
    | string =>
      simp only [hd] at h
      split at h
      · simp [bind, varAssignment, varEvaluation, Tr.get, addLine, Tr.modify, pure] at h
        exact ⟨_, h.2.symm⟩
      · simp [Tr.fail] at h
    | unknown => simp [hd, Tr.fail] at h
    | multiple => simp [hd, Tr.fail] at h
    | bool => simp [hd, Tr.fail] at h
    | other x => simp [hd, Tr.fail] at h

theorem comparisonOp_shape {l op r t : String} {vt : ValueType} {s s' : St} (h0 : s.funcs = []) (h : comparisonOp l op r vt s = .ok (t, s')) :
    ∃ line, s' = adv s [line] 1 := by
  unfold comparisonOp comparisonOpWith at h
  split at h
  · simp [Tr.fail] at h
  · simp [bind, nextHelperVar, varAssignTest, varEvaluation, Tr.get, addLine, Tr.modify, pure] at h
    exact ⟨_, h.2.symm⟩

theorem logicalOp_shape {l op r t : String} {s s' : St} (h0 : s.funcs = []) (h : logicalOp l op r s = .ok (t, s')) :
    ∃ line, s' = adv s [line] 1 := by
  unfold logicalOp at h
  split at h
  · simp [bind, nextHelperVar, varAssignTest, varEvaluation, Tr.get, addLine, Tr.modify, pure] at h
    exact ⟨_, h.2.symm⟩
  · simp [Tr.fail] at h

theorem expr_shape : ∀ (e : Expr) (used : Bool) (s : St) (r : List String) (s' : St), Src.fragExpr e = true → s.funcs = [] →
    Tr.evalExpr conv e used s = .ok (r, s') → ∃ t new n, r = [t] ∧ s' = adv s new n
  | .boolLit b, used, s, r, s', _, h0, hc => by
    unfold Tr.evalExpr at hc
    obtain ⟨er, es⟩ := pure_ok hc
    exact ⟨_, [], 0, er, es⟩
  | .intLit n, used, s, r, s', _, h0, hc => by
    unfold Tr.evalExpr at hc
    obtain ⟨er, es⟩ := pure_ok hc
    exact ⟨_, [], 0, er, es⟩
  | .strLit lit, used, s, r, s', _, h0, hc => by
    unfold Tr.evalExpr at hc
    obtain ⟨t, s1, h1, hc⟩ := bind_ok hc
    obtain ⟨er, es⟩ := pure_ok hc
    have h1' : (pure (stringToString lit) : BM String) s = .ok (t, s1) := h1
    obtain ⟨_, es1⟩ := pure_ok h1'
    exact ⟨_, [], 0, er, by rw [es, es1]; rfl⟩
  | .varEval x, used, s, r, s', _, h0, hc => by
    unfold Tr.evalExpr at hc
    obtain ⟨t, s1, h1, hc⟩ := bind_ok hc
    obtain ⟨er, es⟩ := pure_ok hc
    have h1' : varEvaluation x.name x.global s = .ok (t, s1) := h1
    simp only [varEvaluation, bind, Tr.get, pure] at h1'
    injection h1' with h1'
    injection h1' with e1 e2
    exact ⟨_, [], 0, er, by rw [es, ← e2]; rfl⟩
  | .group x, used, s, r, s', hf, h0, hc => by
    unfold Tr.evalExpr at hc
    exact expr_shape x used s r s' (by simpa [Src.fragExpr] using hf) h0 hc
  | .itoa x, used, s, r, s', hf, h0, hc => by
    unfold Tr.evalExpr at hc
    obtain ⟨a, s1, ha, hc⟩ := bind_ok hc
    obtain ⟨er, es⟩ := pure_ok hc
    obtain ⟨t, new, n, e1, e2⟩ := expr_shape x true s a s1 (by simpa [Src.fragExpr] using hf) h0 ha
    subst e1
    exact ⟨t, new, n, er, by rw [es, e2]⟩
  | .unary op x vt, used, s, r, s', hf, h0, hc => by
    unfold Tr.evalExpr at hc
    obtain ⟨a, s1, ha, hc⟩ := bind_ok hc
    obtain ⟨t, s2, hop, hc⟩ := bind_ok hc
    obtain ⟨er, es⟩ := pure_ok hc
    obtain ⟨t1, new, n, e1, e2⟩ := expr_shape x true s a s1 (by simpa [Src.fragExpr] using hf) h0 ha
    have hop' : unaryOp (firstValue a) op s1 = .ok (t, s2) := hop
    obtain ⟨line, e3⟩ := unaryOp_shape (adv_funcs_nil e2 h0) hop'
    exact ⟨_, [line] ++ new, n + 1, er, by rw [es, e3, e2, adv_adv]⟩
  | .binary op l r, used, s, res, s', hf, h0, hc => by
    unfold Tr.evalExpr at hc
    simp only [Src.fragExpr, Bool.and_eq_true] at hf
    obtain ⟨a, s1, ha, hc⟩ := bind_ok hc
    obtain ⟨b, s2, hb, hc⟩ := bind_ok hc
    obtain ⟨t, s3, hop, hc⟩ := bind_ok hc
    obtain ⟨er, es⟩ := pure_ok hc
    obtain ⟨t1, new1, n1, _, e1⟩ := expr_shape l true s a s1 hf.1 h0 ha
    obtain ⟨t2, new2, n2, _, e2⟩ := expr_shape r true s1 b s2 hf.2 (adv_funcs_nil e1 h0) hb
    have hop' : binaryOp (firstValue a) op (firstValue b) (Expr.valueType l) s2 = .ok (t, s3) := hop
    obtain ⟨line, e3⟩ := binaryOp_shape (adv_funcs_nil e2 (adv_funcs_nil e1 h0)) hop'
    exact ⟨_, [line] ++ new2 ++ new1, n1 + (n2 + 1), er, by rw [es, e3, e2, e1, adv_adv, adv_adv]⟩
  | .compare op l r, used, s, res, s', hf, h0, hc => by
    unfold Tr.evalExpr at hc
    simp only [Src.fragExpr, Bool.and_eq_true] at hf
    obtain ⟨a, s1, ha, hc⟩ := bind_ok hc
    obtain ⟨b, s2, hb, hc⟩ := bind_ok hc
    obtain ⟨t, s3, hop, hc⟩ := bind_ok hc
    obtain ⟨er, es⟩ := pure_ok hc
    obtain ⟨t1, new1, n1, _, e1⟩ := expr_shape l true s a s1 hf.1 h0 ha
    obtain ⟨t2, new2, n2, _, e2⟩ := expr_shape r true s1 b s2 hf.2 (adv_funcs_nil e1 h0) hb
    have hop' : comparisonOp (firstValue a) op (firstValue b) (Expr.valueType l) s2 = .ok (t, s3) := hop
    obtain ⟨line, e3⟩ := comparisonOp_shape (adv_funcs_nil e2 (adv_funcs_nil e1 h0)) hop'
    exact ⟨_, [line] ++ new2 ++ new1, n1 + (n2 + 1), er, by rw [es, e3, e2, e1, adv_adv, adv_adv]⟩
  | .logical op l r, used, s, res, s', hf, h0, hc => by
    unfold Tr.evalExpr at hc
    simp only [Src.fragExpr, Bool.and_eq_true] at hf
    obtain ⟨a, s1, ha, hc⟩ := bind_ok hc
    obtain ⟨b, s2, hb, hc⟩ := bind_ok hc
    obtain ⟨t, s3, hop, hc⟩ := bind_ok hc
    obtain ⟨er, es⟩ := pure_ok hc
    obtain ⟨t1, new1, n1, _, e1⟩ := expr_shape l true s a s1 hf.1 h0 ha
    obtain ⟨t2, new2, n2, _, e2⟩ := expr_shape r true s1 b s2 hf.2 (adv_funcs_nil e1 h0) hb
    have hop' : logicalOp (firstValue a) op (firstValue b) s2 = .ok (t, s3) := hop
    obtain ⟨line, e3⟩ := logicalOp_shape (adv_funcs_nil e2 (adv_funcs_nil e1 h0)) hop'
    exact ⟨_, [line] ++ new2 ++ new1, n1 + (n2 + 1), er, by rw [es, e3, e2, e1, adv_adv, adv_adv]⟩
  | .call _ _ _, _, _, _, _, hf, _, _ => by simp [Src.fragExpr] at hf
  | .app _ _ _, _, _, _, _, hf, _, _ => by simp [Src.fragExpr] at hf
  | .sliceNew _ _, _, _, _, _, hf, _, _ => by simp [Src.fragExpr] at hf
  | .sliceEval _ _ _, _, _, _, _, hf, _, _ => by simp [Src.fragExpr] at hf
  | .substr _ _ _, _, _, _, _, hf, _, _ => by simp [Src.fragExpr] at hf
  | .len _, _, _, _, _, hf, _, _ => by simp [Src.fragExpr] at hf
  | .exists_ _, _, _, _, _, hf, _, _ => by simp [Src.fragExpr] at hf
  | .read _, _, _, _, _, hf, _, _ => by simp [Src.fragExpr] at hf
  | .input _, _, _, _, _, hf, _, _ => by simp [Src.fragExpr] at hf
  | .copy _ _, _, _, _, _, hf, _, _ => by simp [Src.fragExpr] at hf
  | .write _ _ _, _, _, _, _, hf, _, _ => by simp [Src.fragExpr] at hf
  | .bad _, _, _, _, _, hf, _, _ => by simp [Src.fragExpr] at hf

end Tsh.Sem
