/-
  Measures on the state of the batch converter that add up along the walk: the parenthesis depth of all
  emitted lines and the heights of the construct stacks (`ifs`, `fors`, `endLabels`, `funcs`).  Every
  operation of the batch converter changes them by a fixed amount; by the graded walk induction every
  statement of every program leaves them unchanged.
-/
import TshVerif.Model.ConvBatch
import TshVerif.Lemmas.Graded
namespace Tsh.Batch
open Tsh Tsh.Tr

/-- nesting contribution of a line: `… (` opens, `)` closes, `) else (` and `) else if … (` are neutral -/
def delta : BLine → Int
  | .opn _ => 1
  | .close => -1
  | _ => 0

def sumD (ls : List BLine) : Int := (ls.map delta).sum

theorem sumD_cons (l : BLine) (ls : List BLine) : sumD (l :: ls) = delta l + sumD ls := by simp [sumD]
theorem sumD_append (a b : List BLine) : sumD (a ++ b) = sumD a + sumD b := by simp [sumD]
theorem sumD_nil : sumD [] = 0 := rfl

/-- depth of everything emitted so far (the buffers `Dump` prints) -/
def depthCount (s : St) : Int :=
  sumD s.startCode + sumD s.functionsCode.flatten + sumD s.globalCode

/-- coefficients of a measure: depth and the four stack heights -/
structure Coef where
  d : Int
  cI : Int
  cF : Int
  cE : Int
  cU : Int

def mu (c : Coef) (s : St) : Int :=
  c.d * depthCount s + c.cI * s.ifs.length + c.cF * s.fors.length + c.cE * s.endLabels.length + c.cU * s.funcs.length

/-- `m` changes the measure by exactly `k` whenever it succeeds -/
def Adds (c : Coef) {α : Type} (k : Int) (m : BM α) : Prop := ∀ s a s', m s = .ok (a, s') → mu c s' = mu c s + k

theorem bbind_ok {α β : Type} {x : BM α} {f : α → BM β} {s : St} {b : β} {s'' : St}
    (h : (x >>= f) s = .ok (b, s'')) : ∃ a s', x s = .ok (a, s') ∧ f a s' = .ok (b, s'') := by
  simp only [bind] at h
  cases hx : x s with
  | ok p => obtain ⟨a, s'⟩ := p; simp [hx] at h; exact ⟨a, s', rfl, h⟩
  | error m => simp [hx] at h
  | panic m => simp [hx] at h

def graded (c : Coef) : Graded St where
  P := fun k m => Adds c k m
  pure := by intro α a s b s' h; simp [pure] at h; rw [← h.2]; simp
  bind := by
    intro α β j k x f hx hf s b s'' h
    obtain ⟨a, s', h1, h2⟩ := bbind_ok h
    rw [hf a _ _ _ h2, hx _ _ _ h1]; omega
  fail := by intro α k m s a s' h; simp [Tr.fail] at h
  panic := by intro α k m s a s' h; simp [Tr.panic] at h

variable (c : Coef)

theorem adds_pure {α : Type} (a : α) : Adds c 0 (pure a : BM α) := (graded c).pure a
theorem adds_bind {α β : Type} {j k : Int} {x : BM α} {f : α → BM β} (hx : Adds c j x) (hf : ∀ a, Adds c k (f a)) :
    Adds c (j + k) (x >>= f) := (graded c).bind x f hx hf
theorem adds_bind0 {α β : Type} {k : Int} {x : BM α} {f : α → BM β} (hx : Adds c 0 x) (hf : ∀ a, Adds c k (f a)) :
    Adds c k (x >>= f) := by have := adds_bind c hx hf; simpa using this
theorem adds_fail {α : Type} (k : Int) (m : String) : Adds c k (Tr.fail m : BM α) := (graded c).fail k m
theorem adds_panic {α : Type} (k : Int) (m : String) : Adds c k (Tr.panic m : BM α) := (graded c).panic k m
theorem Adds.cast {α : Type} {j k : Int} {m : BM α} (h : Adds c j m) (e : j = k) : Adds c k m := e ▸ h

theorem adds_get : Adds c 0 (Tr.get : BM St) := by
  intro s a s' h; simp [Tr.get] at h; rw [← h.2]; simp

theorem adds_nextHelperVar : Adds c 0 nextHelperVar := by
  intro s a s' h; simp [nextHelperVar] at h; rw [← h.2]; simp [mu, depthCount]

/-- a state change that keeps all code buffers and stacks -/
theorem adds_modify_flags (f : St → St)
    (hf : ∀ s, (f s).startCode = s.startCode ∧ (f s).functionsCode = s.functionsCode ∧
      (f s).globalCode = s.globalCode ∧ (f s).ifs = s.ifs ∧ (f s).fors = s.fors ∧
      (f s).endLabels = s.endLabels ∧ (f s).funcs = s.funcs) : Adds c 0 (Tr.modify f : BM Unit) := by
  intro s a s' h
  simp [Tr.modify] at h
  subst h
  obtain ⟨h1, h3, h4, h6, h7, h8, h9⟩ := hf s
  simp [mu, depthCount, h1, h3, h4, h6, h7, h8, h9]

theorem adds_addLine (l : BLine) : Adds c (c.d * delta l) (addLine l) := by
  intro s a s' h
  unfold addLine at h
  cases hf : s.funcs with
  | nil =>
    simp [hf] at h
    subst h
    simp only [mu, depthCount, sumD_cons, hf, Int.mul_add]
    omega
  | cons cur rest =>
    by_cases hp : cur = s.previousFunctionName
    · have hb : (cur != s.previousFunctionName) = false := by simp [hp]
      simp only [hf, hb, Bool.false_eq_true, if_false] at h
      cases hfc : s.functionsCode with
      | nil => simp [hfc] at h
      | cons blk more =>
        simp [hfc] at h
        subst h
        simp only [mu, depthCount, hf, hfc, sumD_cons, sumD_append, List.flatten_cons, List.cons_append, Int.mul_add]
        omega
    · have hb : (cur != s.previousFunctionName) = true := by simp [hp]
      simp [hf, hb] at h
      subst h
      simp only [mu, depthCount, hf, sumD_cons, sumD_append, sumD_nil, List.flatten_cons, List.nil_append, List.cons_append, Int.mul_add]
      omega

theorem adds_addLine0 (l : BLine) (h : delta l = 0) : Adds c 0 (addLine l) := by
  have := adds_addLine c l; rw [h] at this; simpa using this

theorem adds_addStartLine (l : BLine) (h : delta l = 0) : Adds c 0 (addStartLine l) := by
  intro s a s' hr
  simp [addStartLine, Tr.modify] at hr
  subst hr
  simp [mu, depthCount, sumD_cons, h]

/-- what `addLine` does to depth, stacks and counters -/
theorem addLine_eff {l : BLine} {s s' : St} {a : Unit} (h : addLine l s = .ok (a, s')) :
    depthCount s' = depthCount s + delta l ∧ s'.ifs = s.ifs ∧ s'.fors = s.fors ∧ s'.endLabels = s.endLabels ∧ s'.funcs = s.funcs ∧
    s'.ifCounter = s.ifCounter ∧ s'.forCounter = s.forCounter := by
  unfold addLine at h
  cases hf : s.funcs with
  | nil =>
    simp [hf] at h
    subst h
    refine ⟨?_, rfl, rfl, rfl, by simp [hf], rfl, rfl⟩
    simp only [depthCount, sumD_cons]; omega
  | cons cur rest =>
    by_cases hp : cur = s.previousFunctionName
    · have hb : (cur != s.previousFunctionName) = false := by simp [hp]
      simp only [hf, hb, Bool.false_eq_true, if_false] at h
      cases hfc : s.functionsCode with
      | nil => simp [hfc] at h
      | cons blk more =>
        simp [hfc] at h
        subst h
        refine ⟨?_, rfl, rfl, rfl, by simp [hf], rfl, rfl⟩
        simp only [depthCount, hfc, sumD_cons, sumD_append, List.flatten_cons, List.cons_append]
        omega
    · have hb : (cur != s.previousFunctionName) = true := by simp [hp]
      simp [hf, hb] at h
      subst h
      refine ⟨?_, rfl, rfl, rfl, by simp [hf], rfl, rfl⟩
      simp only [depthCount, sumD_cons, sumD_append, sumD_nil, List.flatten_cons, List.nil_append, List.cons_append]
      omega

/-! ### helper operations (grade 0) -/

theorem adds_varAssignment (n v : String) (g : Bool) : Adds c 0 (varAssignment n v g) := by
  unfold varAssignment
  exact adds_bind0 c (adds_get c) (fun _ => adds_addLine0 c _ rfl)

theorem adds_varEvaluation (n : String) (g : Bool) : Adds c 0 (varEvaluation n g) := by
  unfold varEvaluation
  exact adds_bind0 c (adds_get c) (fun _ => adds_pure c _)

theorem adds_addLf : Adds c 0 addLf := by
  unfold addLf
  refine adds_bind0 c (adds_get c) (fun s => ?_)
  split
  · refine adds_bind0 c (adds_addStartLine c _ rfl) (fun _ => adds_bind0 c (adds_addStartLine c _ rfl) (fun _ =>
      adds_bind0 c (adds_addStartLine c _ rfl) (fun _ => ?_)))
    apply adds_modify_flags; intro s; simp
  · exact adds_pure c _

theorem adds_stringToString (v : String) : Adds c 0 (stringToString v) := by
  unfold stringToString
  exact adds_bind0 c (adds_addLf c) (fun _ => adds_pure c _)

theorem adds_setGlobalArgs : ∀ (as : List String) (i : Nat), Adds c 0 (setGlobalArgs as i) := by
  intro as
  induction as with
  | nil => intro i; unfold setGlobalArgs; exact adds_pure c _
  | cons a rest ih => intro i; unfold setGlobalArgs; exact adds_bind0 c (adds_varAssignment c _ _ _) (fun _ => ih _)

theorem adds_callFunc (n : String) (ga as : List String) : Adds c 0 (callFunc n ga as) := by
  unfold callFunc
  exact adds_bind0 c (adds_setGlobalArgs c _ _) (fun _ => adds_addLine0 c _ rfl)

theorem adds_callEcho (vs : List String) : Adds c 0 (callEcho vs) := by
  unfold callEcho
  refine adds_bind0 c ?_ (fun _ => adds_callFunc c _ _ _)
  apply adds_modify_flags; intro s; simp

theorem adds_currentFunc : Adds c 0 currentFunc := by
  intro s a s' h; unfold currentFunc at h; split at h <;> simp at h; rw [← h.2]; simp
theorem adds_currentIf : Adds c 0 currentIf := by
  intro s a s' h; unfold currentIf at h; split at h <;> simp at h; rw [← h.2]; simp
theorem adds_currentFor : Adds c 0 currentFor := by
  intro s a s' h; unfold currentFor at h; split at h <;> simp at h; rw [← h.2]; simp

theorem adds_setParams : ∀ (ps : List String) (i : Nat), Adds c 0 (setParams ps i) := by
  intro ps
  induction ps with
  | nil => intro i; unfold setParams; exact adds_pure c _
  | cons p rest ih => intro i; unfold setParams; exact adds_bind0 c (adds_get c) (fun _ => adds_bind0 c (adds_addLine0 c _ rfl) (fun _ => ih _))

theorem adds_storeRets : ∀ (vs : List String) (i : Nat), Adds c 0 (storeRets vs i) := by
  intro vs
  induction vs with
  | nil => intro i; unfold storeRets; exact adds_pure c _
  | cons v rest ih => intro i; unfold storeRets; exact adds_bind0 c (adds_varAssignment c _ _ _) (fun _ => ih _)

theorem adds_copyRets : ∀ (n i : Nat), Adds c 0 (copyRets n i) := by
  intro n
  induction n with
  | zero => intro i; unfold copyRets; exact adds_pure c _
  | succ n ih =>
    intro i; unfold copyRets
    exact adds_bind0 c (adds_nextHelperVar c) (fun _ => adds_bind0 c (adds_get c) (fun _ => adds_bind0 c (adds_varAssignment c _ _ _) (fun _ =>
      adds_bind0 c (adds_varEvaluation c _ _) (fun _ => adds_bind0 c (ih _) (fun _ => adds_pure c _)))))

theorem adds_sliceInits (arr : String) : ∀ (vs : List String) (i : Nat), Adds c 0 (sliceInits arr vs i) := by
  intro vs
  induction vs with
  | nil => intro i; unfold sliceInits; exact adds_pure c _
  | cons v rest ih => intro i; unfold sliceInits; exact adds_bind0 c (adds_addLine0 c _ rfl) (fun _ => ih _)

theorem adds_flag (f : St → St)
    (hf : ∀ s, (f s).startCode = s.startCode ∧ (f s).functionsCode = s.functionsCode ∧
      (f s).globalCode = s.globalCode ∧ (f s).ifs = s.ifs ∧ (f s).fors = s.fors ∧
      (f s).endLabels = s.endLabels ∧ (f s).funcs = s.funcs) : Adds c 0 (Tr.modify f : BM Unit) := adds_modify_flags c f hf

/-! ### expression-level operations (grade 0) -/

theorem adds_unaryOp (e o : String) : Adds c 0 (unaryOp e o) := by
  unfold unaryOp
  refine adds_bind0 c (adds_nextHelperVar c) (fun _ => ?_)
  split
  · exact adds_bind0 c (adds_get c) (fun _ => adds_bind0 c (adds_addLine0 c _ rfl) (fun _ => adds_varEvaluation c _ _))
  · exact adds_fail c _ _

theorem adds_binaryOp (l o r : String) (t : ValueType) : Adds c 0 (binaryOp l o r t) := by
  unfold binaryOp notAllowedBin
  refine adds_bind0 c (adds_nextHelperVar c) (fun _ => ?_)
  split
  · exact adds_fail c _ _
  · split
    · split
      · exact adds_bind0 c (adds_get c) (fun _ => adds_bind0 c (adds_addLine0 c _ rfl) (fun _ => adds_varEvaluation c _ _))
      · exact adds_fail c _ _
    · split
      · exact adds_bind0 c (adds_varAssignment c _ _ _) (fun _ => adds_varEvaluation c _ _)
      · exact adds_fail c _ _
    · exact adds_fail c _ _

theorem adds_comparisonOp (l o r : String) (t : ValueType) : Adds c 0 (comparisonOp l o r t) := by
  unfold comparisonOp comparisonOpWith
  split
  · exact adds_fail c _ _
  · exact adds_bind0 c (adds_nextHelperVar c) (fun _ => adds_bind0 c (adds_get c) (fun _ =>
      adds_bind0 c (adds_addLine0 c _ rfl) (fun _ => adds_varEvaluation c _ _)))

theorem adds_logicalOp (l o r : String) : Adds c 0 (logicalOp l o r) := by
  unfold logicalOp
  refine adds_bind0 c (adds_nextHelperVar c) (fun _ => adds_bind0 c (adds_get c) (fun _ => ?_))
  split
  · exact adds_bind0 c (adds_addLine0 c _ rfl) (fun _ => adds_varEvaluation c _ _)
  · split
    · exact adds_bind0 c (adds_addLine0 c _ rfl) (fun _ => adds_varEvaluation c _ _)
    · exact adds_fail c _ _

theorem adds_sliceInstantiationOp (vs : List String) : Adds c 0 (sliceInstantiationOp vs) := by
  unfold sliceInstantiationOp
  refine adds_bind0 c (adds_addLine0 c _ rfl) (fun _ => adds_bind0 c (adds_nextHelperVar c) (fun _ =>
    adds_bind0 c (adds_varAssignment c _ _ _) (fun _ => adds_bind0 c ?_ (fun _ => adds_bind0 c (adds_get c) (fun _ =>
      adds_bind0 c (adds_callFunc c _ _ _) (fun _ => adds_bind0 c (adds_sliceInits c _ _ _) (fun _ => adds_pure c _)))))))
  apply adds_flag; intro s; simp

theorem adds_sliceEvaluationOp (n i : String) : Adds c 0 (sliceEvaluationOp n i) := by
  unfold sliceEvaluationOp
  exact adds_bind0 c (adds_nextHelperVar c) (fun _ => adds_bind0 c (adds_get c) (fun _ =>
    adds_bind0 c (adds_addLine0 c _ rfl) (fun _ => adds_varEvaluation c _ _)))

theorem adds_sliceLenOp (n : String) : Adds c 0 (sliceLenOp n) := by
  unfold sliceLenOp
  refine adds_bind0 c (adds_nextHelperVar c) (fun _ => adds_bind0 c ?_ (fun _ => adds_bind0 c (adds_callFunc c _ _ _) (fun _ =>
    adds_bind0 c (adds_get c) (fun _ => adds_bind0 c (adds_varAssignment c _ _ _) (fun _ => adds_varEvaluation c _ _)))))
  apply adds_flag; intro s; simp

theorem adds_stringSubscriptOp (v a b : String) : Adds c 0 (stringSubscriptOp v a b) := by
  unfold stringSubscriptOp
  refine adds_bind0 c (adds_nextHelperVar c) (fun _ => adds_bind0 c ?_ (fun _ => adds_bind0 c (adds_callFunc c _ _ _) (fun _ =>
    adds_bind0 c (adds_get c) (fun _ => adds_bind0 c (adds_varAssignment c _ _ _) (fun _ => adds_bind0 c (adds_get c) (fun _ => adds_pure c _))))))
  apply adds_flag; intro s; simp

theorem adds_stringLenOp (v : String) : Adds c 0 (stringLenOp v) := by
  unfold stringLenOp
  refine adds_bind0 c (adds_nextHelperVar c) (fun _ => adds_bind0 c ?_ (fun _ => adds_bind0 c (adds_callFunc c _ _ _) (fun _ =>
    adds_bind0 c (adds_get c) (fun _ => adds_bind0 c (adds_varAssignment c _ _ _) (fun _ => adds_varEvaluation c _ _)))))
  apply adds_flag; intro s; simp

theorem adds_funcCallOp (n : String) (a : List String) (r : List ValueType) (u : Bool) : Adds c 0 (funcCallOp n a r u) := by
  unfold funcCallOp
  refine adds_bind0 c (adds_callFunc c _ _ _) (fun _ => adds_bind0 c ?_ (fun _ => adds_pure c _))
  split
  · exact adds_copyRets c _ _
  · exact adds_pure c _

theorem adds_appCallOp (cs : List (String × List String)) (u : Bool) : Adds c 0 (appCallOp cs u) := by
  unfold appCallOp appCallWith
  split
  · refine adds_bind0 c (adds_nextHelperVar c) (fun _ => adds_bind0 c (adds_nextHelperVar c) (fun _ => adds_bind0 c ?_ (fun _ =>
      adds_bind0 c (adds_addLf c) (fun _ => adds_bind0 c (adds_callFunc c _ _ _) (fun _ => adds_bind0 c (adds_get c) (fun _ =>
        adds_bind0 c (adds_varAssignment c _ _ _) (fun _ => adds_bind0 c (adds_varEvaluation c _ _) (fun _ => adds_bind0 c (adds_get c) (fun _ =>
          adds_bind0 c (adds_varAssignment c _ _ _) (fun _ => adds_bind0 c (adds_get c) (fun _ => adds_pure c _)))))))))))
    apply adds_flag; intro s; simp
  · exact adds_bind0 c (adds_addLine0 c _ rfl) (fun _ => adds_pure c _)

theorem adds_inputOp (p : String) : Adds c 0 (inputOp p) := by
  unfold inputOp
  exact adds_bind0 c (adds_nextHelperVar c) (fun _ => adds_bind0 c (adds_addLine0 c _ rfl) (fun _ => adds_varEvaluation c _ _))

theorem adds_copyOp (d s : String) (g : Bool) : Adds c 0 (copyOp d s g) := by
  unfold copyOp
  refine adds_bind0 c ?_ (fun _ => adds_bind0 c (adds_get c) (fun _ => adds_bind0 c (adds_callFunc c _ _ _) (fun _ =>
    adds_bind0 c (adds_nextHelperVar c) (fun _ => adds_bind0 c (adds_callFunc c _ _ _) (fun _ => adds_bind0 c (adds_get c) (fun _ =>
      adds_bind0 c (adds_varAssignment c _ _ _) (fun _ => adds_varEvaluation c _ _)))))))
  apply adds_flag; intro s; simp

theorem adds_existsOp (p : String) : Adds c 0 (existsOp p) := by
  unfold existsOp
  exact adds_bind0 c (adds_nextHelperVar c) (fun _ => adds_bind0 c (adds_get c) (fun _ =>
    adds_bind0 c (adds_addLine0 c _ rfl) (fun _ => adds_varEvaluation c _ _)))

theorem adds_readFileOp (p : String) : Adds c 0 (readFileOp p) := by
  unfold readFileOp
  refine adds_bind0 c (adds_nextHelperVar c) (fun _ => adds_bind0 c ?_ (fun _ => adds_bind0 c (adds_addLf c) (fun _ =>
    adds_bind0 c (adds_callFunc c _ _ _) (fun _ => adds_bind0 c (adds_get c) (fun _ =>
      adds_bind0 c (adds_varAssignment c _ _ _) (fun _ => adds_varEvaluation c _ _))))))
  apply adds_flag; intro s; simp

/-- every expression-level operation of the batch converter has grade 0 for every measure -/
theorem batch_exprOps : ExprOps (graded c).zero conv where
  stringToString := fun s => adds_stringToString c s
  varDefinition := fun n v g => adds_varAssignment c n v g
  unaryOperation := fun e o _ _ => adds_unaryOp c e o
  binaryOperation := fun l o r t _ => adds_binaryOp c l o r t
  comparison := fun l o r t _ => adds_comparisonOp c l o r t
  logicalOperation := fun l o r _ _ => adds_logicalOp c l o r
  varEvaluation := fun n _ g => adds_varEvaluation c n g
  sliceInstantiation := fun vs _ => adds_sliceInstantiationOp c vs
  sliceEvaluation := fun n i _ => adds_sliceEvaluationOp c n i
  sliceLen := fun n _ => adds_sliceLenOp c n
  stringSubscript := fun v a b _ => adds_stringSubscriptOp c v a b
  stringLen := fun v _ => adds_stringLenOp c v
  funcCall := fun n a r u => adds_funcCallOp c n a r u
  appCall := fun cs u => adds_appCallOp c cs u
  input := fun p _ => adds_inputOp c p
  copy := fun d s _ g => adds_copyOp c d s g
  exists_ := fun p _ => adds_existsOp c p
  readFile := fun p _ => adds_readFileOp c p

/-! ### structural operations -/

def weights : Weights where
  ifStart := c.cI + c.d
  ifEnd := -c.d - c.cI
  elseIfStart := 0
  elseIfEnd := 0
  elseStart := 0
  elseEnd := 0
  forStart := c.cE + c.cF
  forIncrementStart := c.d
  forIncrementEnd := -c.d
  forCondition := c.d
  forEnd := -c.d - c.cE - c.cF
  funcStart := c.cU
  funcEnd := -c.cU

theorem weights_balanced : (weights c).Balanced := by
  constructor <;> simp [weights] <;> omega

theorem adds_opn (t : String) : Adds c c.d (addLine (.opn t)) := by
  have := adds_addLine c (.opn t); simpa [delta] using this

theorem adds_close : Adds c (-c.d) (addLine .close) := by
  have := adds_addLine c .close; simpa [delta] using this

theorem adds_ifStartOp (cond : String) : Adds c (c.cI + c.d) (ifStartOp cond) := by
  unfold ifStartOp
  refine adds_bind c ?_ (fun _ => adds_opn c _)
  intro s a s' h
  simp [Tr.modify] at h
  subst h
  simp only [mu, depthCount, List.length_cons, Int.natCast_add, Int.natCast_one, Int.mul_add]
  omega

/-- depth and stacks after a run of plain `addLine`s -/
structure Step (s s' : St) (k : Int) : Prop where
  depth : depthCount s' = depthCount s + k
  ifs : s'.ifs = s.ifs
  fors : s'.fors = s.fors
  endLabels : s'.endLabels = s.endLabels
  funcs : s'.funcs = s.funcs

theorem Step.ofAddLine {l : BLine} {s s' : St} {a : Unit} (h : addLine l s = .ok (a, s')) : Step s s' (delta l) := by
  obtain ⟨h1, h2, h3, h4, h5, _, _⟩ := addLine_eff h
  exact ⟨h1, h2, h3, h4, h5⟩

theorem Step.trans {a b c' : St} {j k : Int} (h1 : Step a b j) (h2 : Step b c' k) : Step a c' (j + k) :=
  ⟨by rw [h2.depth, h1.depth]; omega, h2.ifs.trans h1.ifs, h2.fors.trans h1.fors, h2.endLabels.trans h1.endLabels, h2.funcs.trans h1.funcs⟩

theorem mu_step {s s' : St} {k : Int} (h : Step s s' k) : mu c s' = mu c s + c.d * k := by
  simp only [mu, h.depth, h.ifs, h.fors, h.endLabels, h.funcs, Int.mul_add]; omega

theorem mu_pop_ifs (s : St) (t : String) (r : List String) (h : s.ifs = t :: r) :
    mu c { s with ifs := s.ifs.tail } = mu c s - c.cI := by
  simp only [mu, depthCount, h, List.tail_cons, List.length_cons, Int.natCast_add, Int.natCast_one, Int.mul_add]
  omega

theorem mu_pop_funcs (s : St) (t : String) (r : List String) (h : s.funcs = t :: r) :
    mu c { s with funcs := s.funcs.tail } = mu c s - c.cU := by
  simp only [mu, depthCount, h, List.tail_cons, List.length_cons, Int.natCast_add, Int.natCast_one, Int.mul_add]
  omega

theorem mu_pop_fors (s : St) (e t : String) (rE r : List String) (hE : s.endLabels = e :: rE) (hF : s.fors = t :: r) :
    mu c { s with endLabels := rE, fors := s.fors.tail } = mu c s - c.cE - c.cF := by
  simp only [mu, depthCount, hE, hF, List.tail_cons, List.length_cons, Int.natCast_add, Int.natCast_one, Int.mul_add]
  omega

theorem adds_ifEndOp : Adds c (-c.d - c.cI) ifEndOp := by
  intro s a s' h
  unfold ifEndOp at h
  obtain ⟨l, s1, h1, h⟩ := bbind_ok h
  obtain ⟨_, s2, h2, h⟩ := bbind_ok h
  obtain ⟨_, s3, h3, h⟩ := bbind_ok h
  obtain ⟨_, s4, h4, h5⟩ := bbind_ok h
  unfold currentIf at h1
  cases hi : s.ifs with
  | nil => simp [hi] at h1
  | cons top rest =>
    simp [hi] at h1
    obtain ⟨_, rfl⟩ := h1
    have st := ((Step.ofAddLine h2).trans (Step.ofAddLine h3)).trans (Step.ofAddLine h4)
    simp [Tr.modify] at h5
    subst h5
    rw [mu_pop_ifs c s4 top rest (by rw [st.ifs]; exact hi), mu_step c st]
    simp [delta]; omega

theorem adds_elseIfStartOp (cond : String) : Adds c 0 (elseIfStartOp cond) := by
  unfold elseIfStartOp
  exact adds_bind0 c (adds_currentIf c) (fun _ => adds_bind0 c (adds_addLine0 c _ rfl) (fun _ => adds_addLine0 c _ rfl))

theorem adds_elseStartOp : Adds c 0 elseStartOp := by
  unfold elseStartOp
  exact adds_bind0 c (adds_currentIf c) (fun _ => adds_bind0 c (adds_addLine0 c _ rfl) (fun _ => adds_addLine0 c _ rfl))

theorem adds_forStartOp : Adds c (c.cE + c.cF) forStartOp := by
  unfold forStartOp
  have : Adds c (c.cE + c.cF + 0) (do
      Tr.modify fun s => { s with endLabels := s!"_e{s.forCounter}" :: s.endLabels, fors := s!"_f{s.forCounter}" :: s.fors, forCounter := s.forCounter + 1 }
      let s ← Tr.get
      let l ← currentFor
      addLine (.set (currentForVar s) "")
      addLine (.clabel l) : BM Unit) := by
    refine adds_bind c ?_ (fun _ => adds_bind0 c (adds_get c) (fun _ => adds_bind0 c (adds_currentFor c) (fun _ =>
      adds_bind0 c (adds_addLine0 c _ rfl) (fun _ => adds_addLine0 c _ rfl))))
    intro s a s' h
    simp [Tr.modify] at h
    subst h
    simp only [mu, depthCount, List.length_cons, Int.natCast_add, Int.natCast_one, Int.mul_add]
    omega
  simpa using this

theorem adds_forIncrementStartOp : Adds c c.d forIncrementStartOp := by
  unfold forIncrementStartOp
  exact adds_bind0 c (adds_get c) (fun _ => adds_opn c _)

theorem adds_forIncrementEndOp : Adds c (-c.d) forIncrementEndOp := by
  unfold forIncrementEndOp
  refine adds_bind0 c (adds_get c) (fun s0 => ?_)
  have := adds_bind c (adds_close c) (fun _ => adds_addLine0 c (.set (currentForVar s0) "1") rfl)
  simpa using this

theorem adds_forEndOp : Adds c (-c.d - c.cE - c.cF) forEndOp := by
  intro s a s' h
  unfold forEndOp at h
  obtain ⟨l, s1, h1, h⟩ := bbind_ok h
  obtain ⟨_, s2, h2, h⟩ := bbind_ok h
  obtain ⟨_, s3, h3, h⟩ := bbind_ok h
  obtain ⟨sg, s4, h4, h5⟩ := bbind_ok h
  simp [Tr.get] at h4
  obtain ⟨rfl, rfl⟩ := h4
  unfold currentFor at h1
  cases hf : s.fors with
  | nil => simp [hf] at h1
  | cons top restF =>
    simp [hf] at h1
    obtain ⟨_, rfl⟩ := h1
    have st := (Step.ofAddLine h2).trans (Step.ofAddLine h3)
    cases he : s3.endLabels with
    | nil => simp [forEndTail, he, Tr.panic] at h5
    | cons e restE =>
      simp only [forEndTail, he] at h5
      obtain ⟨_, s5, h6, h7⟩ := bbind_ok h5
      simp [Tr.modify] at h6
      subst h6
      have st2 := Step.ofAddLine h7
      rw [mu_step c st2, mu_pop_fors c s3 e top restE restF he (by rw [st.fors]; exact hf), mu_step c st]
      simp [delta]; omega

theorem adds_funcStartOp (n : String) (ps : List String) : Adds c c.cU (funcStartOp n ps) := by
  unfold funcStartOp
  have : Adds c (c.cU + 0) (do
      Tr.modify fun s => { s with funcCounter := s.funcCounter + 1, funcs := n :: s.funcs }
      addLine (.raw s!":: {n} function begin")
      addLine (.goto ("_eo_" ++ n))
      addLine (.label n)
      setParams ps 0 : BM Unit) := by
    refine adds_bind c ?_ (fun _ => adds_bind0 c (adds_addLine0 c _ rfl) (fun _ => adds_bind0 c (adds_addLine0 c _ rfl) (fun _ =>
      adds_bind0 c (adds_addLine0 c _ rfl) (fun _ => adds_setParams c _ _))))
    intro s a s' h
    simp [Tr.modify] at h
    subst h
    simp only [mu, depthCount, List.length_cons, Int.natCast_add, Int.natCast_one, Int.mul_add]
    omega
  simpa using this

theorem adds_funcEndOp : Adds c (-c.cU) funcEndOp := by
  intro s a s' h
  unfold funcEndOp at h
  obtain ⟨n, s1, h1, h⟩ := bbind_ok h
  obtain ⟨_, s2, h2, h⟩ := bbind_ok h
  obtain ⟨_, s3, h3, h⟩ := bbind_ok h
  obtain ⟨_, s4, h4, h⟩ := bbind_ok h
  obtain ⟨_, s5, h5, h6⟩ := bbind_ok h
  unfold currentFunc at h1
  cases hf : s.funcs with
  | nil => simp [hf] at h1
  | cons top rest =>
    simp [hf] at h1
    obtain ⟨_, rfl⟩ := h1
    have st := (((Step.ofAddLine h2).trans (Step.ofAddLine h3)).trans (Step.ofAddLine h4)).trans (Step.ofAddLine h5)
    simp [Tr.modify] at h6
    subst h6
    rw [mu_pop_funcs c s5 top rest (by rw [st.funcs]; exact hf), mu_step c st]
    simp [delta]; omega

theorem adds_retOp (vs : List String) : Adds c 0 (retOp vs) := by
  unfold retOp
  exact adds_bind0 c (adds_currentFunc c) (fun _ => adds_bind0 c (adds_storeRets c _ _) (fun _ => adds_addLine0 c _ rfl))

theorem adds_sliceAssignmentOp (n i v d : String) (g : Bool) : Adds c 0 (sliceAssignmentOp n i v d g) := by
  unfold sliceAssignmentOp
  refine adds_bind0 c ?_ (fun _ => adds_bind0 c (adds_get c) (fun _ => adds_callFunc c _ _ _))
  apply adds_flag; intro s; simp

theorem adds_brkOp : Adds c 0 brkOp := by
  unfold brkOp
  refine adds_bind0 c (adds_get c) (fun s => ?_)
  unfold brkTail
  split
  · exact adds_addLine0 c _ rfl
  · exact adds_fail c _ _

theorem adds_contOp : Adds c 0 contOp := by
  unfold contOp
  exact adds_bind0 c (adds_currentFor c) (fun _ => adds_addLine0 c _ rfl)

theorem adds_panicOp (v : String) : Adds c 0 (panicOp v) := by
  unfold panicOp
  exact adds_bind0 c (adds_callEcho c _) (fun _ => adds_bind0 c (adds_addLine0 c _ rfl) (fun _ => adds_addLine0 c _ rfl))

theorem adds_writeFileOp (p ct a : String) : Adds c 0 (writeFileOp p ct a) := by
  unfold writeFileOp
  refine adds_bind0 c ?_ (fun _ => adds_callFunc c _ _ _)
  apply adds_flag; intro s; simp

theorem batch_stmtOps : GStmtOps (graded c) conv (weights c) where
  sliceAssignment := fun n i v d g => adds_sliceAssignmentOp c n i v d g
  funcStart := fun n ps => adds_funcStartOp c n ps
  funcEnd := adds_funcEndOp c
  ret := fun vs => adds_retOp c vs
  ifStart := fun cd => adds_ifStartOp c cd
  ifEnd := adds_ifEndOp c
  elseIfStart := fun cd => adds_elseIfStartOp c cd
  elseIfEnd := adds_pure c _
  elseStart := adds_elseStartOp c
  elseEnd := adds_pure c _
  forStart := adds_forStartOp c
  forIncrementStart := adds_forIncrementStartOp c
  forIncrementEnd := adds_forIncrementEndOp c
  forCondition := fun cd => adds_opn c _
  forEnd := adds_forEndOp c
  brk := adds_brkOp c
  cont := adds_contOp c
  print := fun vs => adds_callEcho c vs
  panic := fun v => adds_panicOp c v
  writeFile := fun p ct a => adds_writeFileOp c p ct a
  nop := adds_addLine0 c _ rfl

/-- **Every statement leaves the measure unchanged** (for every program, no hypothesis on the AST). -/
theorem evalStmts_neutral (body : List Stmt) : Adds c 0 (evalStmts conv body) :=
  evalStmts_graded (graded c) conv (batch_exprOps c) (weights c) (weights_balanced c) (batch_stmtOps c) body

/-! ### whole programs -/

theorem sumD_reverse (l : List BLine) : sumD l.reverse = sumD l := by
  induction l with
  | nil => rfl
  | cons a t ih => simp [sumD_append, sumD_cons, ih, sumD_nil]; omega

theorem sumD_flatten_reverse (ls : List (List BLine)) : sumD (ls.map List.reverse).flatten = sumD ls.flatten := by
  induction ls with
  | nil => rfl
  | cons a t ih => simp [sumD_append, sumD_reverse, ih]

theorem adds_programStart : Adds c 0 programStart := by
  unfold programStart
  exact adds_bind0 c (adds_addStartLine c _ rfl) (fun _ => adds_bind0 c (adds_addStartLine c _ rfl) (fun _ =>
    adds_bind0 c (adds_addStartLine c _ rfl) (fun _ => adds_addStartLine c _ rfl)))

/-- after a whole program the measure is where it started: 0 -/
theorem program_measure (p : Program) (u : Unit) (s : St) (h : evalProgram conv p {} = .ok (u, s)) : mu c s = 0 := by
  have hp : Adds c 0 (evalProgram conv p) := by
    unfold evalProgram
    exact adds_bind0 c (adds_programStart c) (fun _ => adds_bind0 c (evalStmts_neutral c p) (fun _ => adds_pure c _))
  have := hp _ _ _ h
  simpa [mu, depthCount, sumD] using this

theorem sumD_helper (t l : String) (code : List BLine) : sumD (helper t l code) = sumD code := by
  simp [helper, sumD_append, sumD_cons, sumD_nil, delta]

theorem sumD_helperLines (s : St) : sumD (helperLines s) = 0 := by
  unfold helperLines
  simp only [sumD_append]
  have e : ∀ (b : Bool) (x : List BLine), sumD x = 0 → sumD (if b then x else []) = 0 := by
    intro b x hx; cases b <;> simp [hx, sumD_nil]
  rw [e _ _ (by rw [sumD_helper]; rfl), e _ _ (by rw [sumD_helper]; rfl), e _ _ (by rw [sumD_helper]; rfl),
    e _ _ (by rw [sumD_helper]; rfl), e _ _ (by rw [sumD_helper]; rfl), e _ _ (by rw [sumD_helper]; rfl),
    e _ _ (by rw [sumD_helper]; rfl), e _ _ (by rw [sumD_helper]; rfl), e _ _ (by rw [sumD_helper]; rfl),
    e _ _ (by rw [sumD_helper]; rfl)]
  rfl

end Tsh.Batch
