/-
  A call: argument texts are expanded, the body of the callee runs (what is known about it comes from the table),
  `local`s are undone, the return registers are copied into helper variables of the caller.
-/
import TshVerif.Lemmas.Sem2Comb
namespace Tsh.Sem2
open Tsh Tsh.Tr Tsh.Bash Tsh.Sem Tsh.Sem2.Src
open Tsh.Sem.Src (Val Env)

theorem restore_other : ∀ (saved : List (String × String)) (ρ : Store) (x : String), (∀ p ∈ saved, p.1 ≠ x) → restore saved ρ x = ρ x
  | [], _, _, _ => rfl
  | (y, v) :: rest, ρ, x, h => by
    simp only [restore]
    rw [restore_other rest _ x (fun p hp => h p (by simp [hp]))]
    exact Sem.set_other _ _ _ _ (fun e => h (y, v) (by simp) e.symm)

theorem expandList_holds {ctx : Ctx} {c : SCfg} {m : Cfg} (ha : AgreeF ctx c m) : ∀ {ts : List String} {os : List Opd} {n : Nat} {vals : List Val},
    HoldsAllF ctx ts os n m.ρ → resolveAll c os = some vals → expandList m.ρ ts = some (vals.map Val.render)
  | [], [], _, vals, _, hr => by
    simp only [resolveAll, Option.some.injEq] at hr
    subst hr; rfl
  | t :: ts, o :: os, n, vals, hh, hr => by
    simp only [resolveAll] at hr
    split at hr
    · rename_i v vs hv hvs
      simp only [Option.some.injEq] at hr
      subst hr
      simp only [expandList, hh.1.expand ha hv, expandList_holds ha hh.2 hvs, List.map_cons]
    · simp at hr
  | [], _ :: _, _, _, hh, _ => hh.elim
  | _ :: _, [], _, _, hh, _ => hh.elim

/-- the lines that copy the return registers into helpers `k, k+1, …` of the caller -/
def copyCmdLines (ctx : Ctx) : Nat → Nat → Nat → List Line
  | 0, _, _ => []
  | n + 1, i, k => .assign (ctx.hn k) ("${" ++ rvName i ++ "}") :: copyCmdLines ctx n (i + 1) (k + 1)

def copyTexts (ctx : Ctx) : Nat → Nat → List String
  | 0, _ => []
  | n + 1, k => ("${" ++ ctx.hn k ++ "}") :: copyTexts ctx n (k + 1)

theorem copy_sem (ctx : Ctx) (T : List FEntry) (B lo : Nat) : ∀ (vs : List Val) (i k : Nat) (c : SCfg) (m : Cfg), lo ≤ k →
    Inv ctx T c m → ValsRv i vs m.ρ →
    ∃ m', ExecCmds ((copyCmdLines ctx vs.length i k).map Cmd.simple) m .normal m' ∧ Inv ctx T c m' ∧ Ctl m m' ∧ KeepE ctx B lo m m' ∧
      (∀ j, j < k → m'.ρ (ctx.hn j) = m.ρ (ctx.hn j)) ∧
      HoldsAllF ctx (copyTexts ctx vs.length k) (vs.map Opd.lit) (k + vs.length) m'.ρ
  | [], i, k, c, m, _, hi, _ => ⟨m, ExecCmds.nil, hi, Ctl.refl m, KeepE.refl _ _ _ m, fun _ _ => rfl, trivial⟩
  | v :: vs, i, k, c, m, hk, hi, hv => by
    have hc : Complete m.ρ ("${" ++ rvName i ++ "}").toList v.render.toList := by
      rw [← hv.1]; exact complete_var m.ρ _ (rvName_valid i)
    have hst := step2_assign m (ctx.hn k) hc.toExpand
    have hv' : ValsRv (i + 1) vs (m.ρ.set (ctx.hn k) v.render) :=
      ValsRv.congr (fun j => Sem.set_other _ _ _ _ (fun e => ctx.hn_ne_rv k j e.symm)) hv.2
    obtain ⟨m', ex, hi', hc', hk', hlow, hh⟩ := copy_sem ctx T B lo vs (i + 1) (k + 1) c { m with ρ := m.ρ.set (ctx.hn k) v.render }
      (by omega) (hi.set_hn _ _) hv'
    refine ⟨m', ?_, hi', hc', ?_, ?_, ?_⟩
    · simp only [List.length_cons, copyCmdLines, List.map_cons]
      exact ExecCmds.cons (ExecCmd.simple rfl hst) ex
    · exact (KeepE.set_helper ctx B lo k m _ hk).trans hk' (Nat.le_refl _)
    · intro j hj
      rw [hlow j (by omega)]
      exact Sem.set_other _ _ _ _ (fun e => by have := ctx.hn_inj e; omega)
    · simp only [List.length_cons, copyTexts, List.map_cons]
      have e : k + (vs.length + 1) = k + 1 + vs.length := by omega
      rw [e]
      refine ⟨?_, hh⟩
      have h0 := holdsF_helper ctx k v (m.ρ.set (ctx.hn k) v.render) (Sem.set_same _ _ _)
      exact h0.mono (by omega) (fun j hj => hlow j hj)

/-- a name of the caller's private data is not touched by a callee with a smaller number -/
theorem hn_not_touched {ctx : Ctx} {T : List FEntry} {B : Nat} (hctx : CtxOK ctx T B) {e : FEntry} (he : e ∈ T) (j : Nat) :
    ¬ Touched e.j e.b (ctx.hn j) := by
  intro ht
  rcases ht with ⟨i, a, hi, hx⟩ | ⟨i, hx⟩ | hg | ⟨n, _, hx⟩ | hsp
  rotate_right
  · exact ctx.hn_ne_special j hsp rfl
  · simp only [Ctx.hn, Ctx.mg] at hx
    by_cases hin : ctx.inFn = true
    · simp only [hin, Bool.not_false, Bool.and_self, if_true] at hx
      have := (fnPrefix_inj hx).1
      have := hctx.above hin e he
      omega
    · simp only [hin, Bool.false_and, Bool.false_eq_true, if_false] at hx
      exact prefixed_ne_helper i a j hx.symm
  · exact ctx.hn_ne_rv j i hx
  · simp only [Ctx.hn, Ctx.mg] at hg
    split at hg
    · simp [goodName2, mangledLike_prefix] at hg
    · simp [goodName2, goodName, helperName, String.toList_append] at hg
  · exact ctx.hn_ne_flag j n hx

theorem tn_not_touched {ctx : Ctx} {T : List FEntry} {B : Nat} (hctx : CtxOK ctx T B) {e : FEntry} (he : e ∈ T) (j : Nat) :
    ¬ Touched e.j e.b (ctx.tn j) := by
  intro ht
  rcases ht with ⟨i, a, hi, hx⟩ | ⟨i, hx⟩ | hg | ⟨n, _, hx⟩ | hsp
  rotate_right
  · exact ctx.tn_ne_special j hsp rfl
  · simp only [Ctx.tn, Ctx.mg] at hx
    by_cases hin : ctx.inFn = true
    · simp only [hin, Bool.not_false, Bool.and_self, if_true] at hx
      have := (fnPrefix_inj hx).1
      have := hctx.above hin e he
      omega
    · simp only [hin, Bool.false_and, Bool.false_eq_true, if_false] at hx
      exact prefixed_ne_tmp i a j hx.symm
  · exact ctx.tn_ne_rv j i hx
  · simp only [Ctx.tn, Ctx.mg] at hg
    split at hg
    · simp [goodName2, mangledLike_prefix] at hg
    · simp [goodName2, goodName, tmpName, String.toList_append] at hg
  · exact ctx.tn_ne_flag j n hx

theorem flag_not_touched {ctx : Ctx} {T : List FEntry} {B : Nat} (hctx : CtxOK ctx T B) {e : FEntry} (he : e ∈ T) (n : Nat) (hn : B ≤ n) :
    ¬ Touched e.j e.b (flagName n) := by
  intro ht
  rcases ht with ⟨i, a, _, hx⟩ | ⟨i, hx⟩ | hg | ⟨n', hn', hx⟩ | hsp
  rotate_right
  · exact special_ne_flag hsp n rfl
  · exact prefixed_ne_flag i a n hx.symm
  · exact rv_ne_flag i n hx.symm
  · simp [goodName2, goodName, flagName_eq, String.toList_append] at hg
  · have := flagName_inj hx
    have := hctx.flags e he
    omega

theorem local_not_touched {ctx : Ctx} {T : List FEntry} {B : Nat} (hctx : CtxOK ctx T B) {e : FEntry} (he : e ∈ T) (hin : ctx.inFn = true)
    (x : String) : ¬ Touched e.j e.b (fnPrefix ctx.k ++ x) := by
  intro ht
  rcases ht with ⟨i, a, hi, hx⟩ | ⟨i, hx⟩ | hg | ⟨n', _, hx⟩ | hsp
  rotate_right
  · exact special_ne_prefixed hsp _ _ rfl
  · have := (fnPrefix_inj hx).1
    have := hctx.above hin e he
    omega
  · exact prefixed_ne_rv _ _ _ hx
  · simp [goodName2, mangledLike_prefix] at hg
  · exact prefixed_ne_flag _ _ _ hx

/-- executing the call line, given what the table says about the callee -/
theorem call_exec {ctx : Ctx} {T : List FEntry} {B : Nat} (hT : TableOK T) (hctx : CtxOK ctx T B) {e : FEntry} (he : e ∈ T)
    {c1 : SCfg} {m1 : Cfg} (hi : Inv ctx T c1 m1) {ts : List String} {os : List Opd} {vals : List Val} {n : Nat}
    (hh : HoldsAllF ctx ts os n m1.ρ) (hr : resolveAll c1 os = some vals) (hlen : vals.length = e.fd.params.length)
    {fuel : Nat} {o : SOut} {c2 : SCfg}
    (hb : execSs fuel e.fd.body { c1 with lenv := bindParams (fun _ => none) e.fd.params vals, inFn := true } = some (o, c2)) :
    (∀ vs, (o = .ret vs ∨ (o = .normal ∧ vs = [])) →
      ∃ m3, ExecCmd (.simple (.callFn e.fd.name ts)) m1 .normal m3 ∧ Inv ctx T { c2 with lenv := c1.lenv, inFn := c1.inFn } m3 ∧
        Ctl m1 m3 ∧ (∀ lo, KeepE ctx B lo m1 m3) ∧ ValsRv 0 vs m3.ρ) ∧
    (∀ k, o = .exit k → ∃ m3, ExecCmd (.simple (.callFn e.fd.name ts)) m1 (.exit k) m3 ∧ c2.out = m3.out) := by
  obtain ⟨Tr, hsuf, hnd, hcf, hmf⟩ := hi.tables
  obtain ⟨T', hsT, hbs⟩ := hT.entry he
  have heTr : e ∈ Tr := by
    have : e ∈ e :: T' := by simp
    exact hsuf.subset (hsT.subset this)
  have hlk : lookupFun m1.funs e.fd.name = some e.body := by rw [hmf]; exact lookup_sh Tr e hnd heTr
  have hex : expandList m1.ρ ts = some (vals.map Val.render) := expandList_holds hi.agree hh hr
  obtain ⟨m2, o', ex, hor, hout, hrest'⟩ :=
    hbs Tr c1 m1 vals fuel o c2 (hsT.trans hsuf) hnd hcf hmf hi.agree.toG hlen hb
  constructor
  · intro vs hvs
    obtain ⟨hag, hcf2, hmf2, hrv, hfr, hsv⟩ := hrest' (fun k e' => by rcases hvs with h | ⟨h, _⟩ <;> (rw [h] at e'; cases e'))
    -- what `restore` leaves alone
    have hrest : ∀ x, (∀ a, x ≠ fnPrefix e.j ++ a) → restore m2.saved m2.ρ x = m2.ρ x := by
      intro x hx
      apply restore_other
      intro p hp e'
      obtain ⟨a, ha⟩ := hsv p hp
      exact hx a (by rw [← e', ha])
    have ho' : o' = .normal ∨ o' = .ret := by
      rcases hvs with rfl | ⟨rfl, _⟩
      · cases o' <;> simp [OutRel] at hor ⊢
      · cases o' <;> simp [OutRel] at hor ⊢
    let m3 : Cfg := { m2 with ρ := restore m2.saved m2.ρ, args := m1.args, saved := m1.saved }
    have hcr : callResult m1 o' m2 = some (.normal, m3) := by
      rcases ho' with rfl | rfl <;> rfl
    refine ⟨m3, ExecCmd.call hlk hex ex hcr, ?_, ⟨rfl, rfl, hmf2⟩, ?_, ?_⟩
    · refine ⟨⟨hi.agree.inFn, hag.out, ?_, ?_, ⟨?_, hag.hp.heap, hag.hp.fresh⟩⟩, ⟨Tr, hsuf, hnd, by rw [← hcf]; exact hcf2, by rw [← hmf]; exact hmf2⟩⟩
      rotate_left 2
      · show restore m2.saved m2.ρ "_dvc" = _
        rw [hrest _ (fun a => special_ne_prefixed (x := "_dvc") (by decide) _ a)]; exact hag.hp.dvc
      · intro x v hx
        obtain ⟨hg, hv⟩ := hag.glob x v hx
        exact ⟨hg, by show restore m2.saved m2.ρ x = _; rw [hrest x (fun a => good2_ne_prefixed x _ a hg)]; exact hv⟩
      · intro hin x v hx
        obtain ⟨hg, hv⟩ := hi.agree.loc hin x v hx
        refine ⟨hg, ?_⟩
        show restore m2.saved m2.ρ (fnPrefix ctx.k ++ x) = _
        rw [hrest _ (fun a e' => by have := (fnPrefix_inj e').1; have := hctx.above hin e he; omega),
          hfr _ (local_not_touched hctx he hin x)]
        exact hv
    · intro lo
      refine ⟨fun j _ => ?_, fun j => ?_, fun n hn => ?_⟩
      · show restore m2.saved m2.ρ (ctx.hn j) = _
        have hnt := hn_not_touched hctx he j
        rw [hrest _ (fun a e' => hnt (Or.inl ⟨e.j, a, Nat.le_refl _, e'⟩)), hfr _ hnt]
      · show restore m2.saved m2.ρ (ctx.tn j) = _
        have hnt := tn_not_touched hctx he j
        rw [hrest _ (fun a e' => hnt (Or.inl ⟨e.j, a, Nat.le_refl _, e'⟩)), hfr _ hnt]
      · show restore m2.saved m2.ρ (flagName n) = _
        rw [hrest _ (fun a e' => prefixed_ne_flag _ _ _ e'.symm), hfr _ (flag_not_touched hctx he n hn)]
    · rcases hvs with rfl | ⟨_, rfl⟩
      · exact ValsRv.congr (fun j => hrest _ (fun a e' => prefixed_ne_rv _ _ _ e'.symm)) (hrv vs rfl)
      · trivial
  · intro k hk
    subst hk
    have ho' : o' = .exit k := by cases o' <;> simp [OutRel] at hor ⊢; exact hor.symm
    subst ho'
    exact ⟨m2, ExecCmd.call hlk hex ex rfl, hout⟩

end Tsh.Sem2
