/-
  Facts about `Sem/BashFs`: trailing line feeds, the bytes of a list of lines, one step of the line store.
-/
import TshVerif.Sem.BashFs
namespace Tsh.BashFs

theorem stripNl_append_nl (b : Bytes) : stripNl (b ++ ['\n']) = stripNl b := by
  simp [stripNl]

theorem dropWhile_nl_of_head (r : Bytes) (h : (r.head? != some '\n') = true) : r.dropWhile (· == '\n') = r := by
  cases r with
  | nil => rfl
  | cons c cs =>
    have hc : c ≠ '\n' := by simpa using h
    have hb : (c == '\n') = false := by simpa using hc
    simp [List.dropWhile, hb]

theorem stripNl_of_noTrailingNl (b : Bytes) (h : noTrailingNl b = true) : stripNl b = b := by
  unfold stripNl
  have : (b.reverse.head? != some '\n') = true := by simpa [noTrailingNl, List.head?_reverse] using h
  rw [dropWhile_nl_of_head _ this, List.reverse_reverse]

theorem noTrailingNl_append (a s : Bytes) (hs : s ≠ []) (h : noTrailingNl s = true) : noTrailingNl (a ++ s) = true := by
  unfold noTrailingNl at *
  rw [List.getLast?_append]
  cases hl : s.getLast? with
  | none => simp [List.getLast?_eq_none_iff] at hl; exact absurd hl hs
  | some c => simpa [hl] using h

theorem bytesOf_append (a b : List Bytes) : bytesOf (a ++ b) = bytesOf a ++ bytesOf b := by
  simp [bytesOf]

theorem bytesOf_single (s : Bytes) : bytesOf [s] = s ++ ['\n'] := by
  simp [bytesOf]

theorem bytesOf_concat (ls : List Bytes) (s : Bytes) : bytesOf (ls ++ [s]) = (bytesOf ls ++ s) ++ ['\n'] := by
  simp [bytesOf_append, bytesOf_single]

variable {F : Type} [DecidableEq F]

theorem holds_step (fs : Fs F) (st : Store F) (o : Op F) (h : Holds fs st) : Holds (stepFs fs o) (stepStore st o) := by
  intro g
  unfold stepFs stepStore writeLine
  cases ha : o.append
  · by_cases hg : g = o.file
    · simp [truncWrite, Fs.put, Store.write, hg, bytesOf_single]
    · simp [truncWrite, Fs.put, Store.write, hg, h g]
  · by_cases hg : g = o.file
    · have hf := h o.file
      cases hl : st.lines o.file with
      | none => simp [appendWrite, Fs.put, Store.append, hg, hf, hl, bytesOf_single]
      | some ls => simp [appendWrite, Fs.put, Store.append, hg, hf, hl, bytesOf_append, bytesOf_single]
    · simp [appendWrite, Fs.put, Store.append, hg, h g]

theorem holds_run (ops : List (Op F)) : ∀ (fs : Fs F) (st : Store F), Holds fs st → Holds (runOps fs ops) (runStore st ops) := by
  induction ops with
  | nil => intro fs st h; exact h
  | cons o os ih => intro fs st h; exact ih _ _ (holds_step fs st o h)

end Tsh.BashFs
