/-
  Function definitions: the parameter lines bind the arguments, the body runs in its own context, everything the
  function writes is its own (or global) - which is what the table promises to later callers.
-/
import TshVerif.Lemmas.Sem2Prog
import TshVerif.Lemmas.Sem2Frame
namespace Tsh.Sem2
open Tsh Tsh.Tr Tsh.Bash Tsh.Sem Tsh.Sem2.Src
open Tsh.Sem.Src (Val Env)

/-- the `local` lines of function number `j` -/
def paramLinesF (j : Nat) : List String → Nat → List Line
  | [], _ => []
  | p :: rest, i => .localAssign (fnPrefix j ++ p) (i + 1) :: paramLinesF j rest (i + 1)

theorem paramLines_ctx (s : St) (hf : inFunction s = true) : ∀ (ps : List String) (i : Nat), C02.paramLines s ps i = paramLinesF s.funcCounter ps i
  | [], _ => rfl
  | p :: rest, i => by
    simp only [C02.paramLines, paramLinesF, paramLines_ctx s hf rest (i + 1)]
    congr 1
    rw [varName_ctx]
    simp [Ctx.mg, ctxOf, hf]

/-- executing the parameter lines: parameter `k` gets argument `i + k` -/
theorem params_sem (j : Nat) : ∀ (ps : List Var) (vals : List Val) (i : Nat) (m : Cfg) (pre : List Val) (env0 : Env),
    m.args = (pre ++ vals).map Val.render → pre.length = i → vals.length = ps.length →
    (∀ x v, env0 x = some v → m.ρ (fnPrefix j ++ x) = v.render) →
    ∃ m', ExecCmds ((paramLinesF j (ps.map (·.name)) i).map Cmd.simple) m .normal m' ∧
      (∀ x v, bindParams env0 ps vals x = some v → m'.ρ (fnPrefix j ++ x) = v.render) ∧
      (∀ y, (∀ a, y ≠ fnPrefix j ++ a) → m'.ρ y = m.ρ y) ∧ m'.out = m.out ∧ m'.funs = m.funs ∧ m'.args = m.args ∧
      (∀ p ∈ m'.saved, (∃ a, p.1 = fnPrefix j ++ a) ∨ p ∈ m.saved) ∧ m'.arr = m.arr
  | [], vals, i, m, pre, env0, _, _, hl, henv => by
    have : vals = [] := List.eq_nil_of_length_eq_zero (by simpa using hl)
    subst this
    exact ⟨m, by simp [paramLinesF]; exact ExecCmds.nil, by simpa [bindParams] using henv, fun _ _ => rfl, rfl, rfl, rfl, fun p hp => Or.inr hp, rfl⟩
  | x :: xs, vals, i, m, pre, env0, ha, hp, hl, henv => by
    match vals, hl with
    | v :: vs, hl =>
      have hget : m.args.getD i "" = v.render := by
        rw [ha, List.map_append, List.getD_eq_getElem?_getD, List.getElem?_append_right (by simp [hp])]
        simp [hp]
      have hst : stepSimple (.localAssign (fnPrefix j ++ x.name) (i + 1)) m =
          some (.normal, { m with ρ := m.ρ.set (fnPrefix j ++ x.name) v.render, saved := (fnPrefix j ++ x.name, m.ρ (fnPrefix j ++ x.name)) :: m.saved }) := by
        simp only [stepSimple, Nat.add_sub_cancel, hget]
      let m1 : Cfg := { m with ρ := m.ρ.set (fnPrefix j ++ x.name) v.render, saved := (fnPrefix j ++ x.name, m.ρ (fnPrefix j ++ x.name)) :: m.saved }
      have henv1 : ∀ y w, (env0.set x.name v) y = some w → m1.ρ (fnPrefix j ++ y) = w.render := by
        intro y w hy
        by_cases e : y = x.name
        · subst e
          simp only [Sem.Src.Env.set, if_true, Option.some.injEq] at hy
          subst hy
          exact Sem.set_same _ _ _
        · simp only [Sem.Src.Env.set, e, if_false] at hy
          show (m.ρ.set _ _) _ = _
          rw [Sem.set_other _ _ _ _ (fun e' => e (fnPrefix_inj e').2)]
          exact henv y w hy
      obtain ⟨m', ex, hb, hfr, ho, hfu, har, hsv, harr⟩ := params_sem j xs vs (i + 1) m1 (pre ++ [v]) (env0.set x.name v)
        (by show m.args = _; rw [ha]; simp) (by simp [hp]) (by simpa using hl) henv1
      refine ⟨m', ?_, by simpa [bindParams] using hb, ?_, ho, hfu, har, ?_, harr⟩
      · simp only [List.map_cons, paramLinesF]
        exact ExecCmds.cons (ExecCmd.simple rfl hst) ex
      · intro y hy
        rw [hfr y hy]
        exact Sem.set_other _ _ _ _ (hy x.name)
      · intro p hp'
        rcases hsv p hp' with h | h
        · exact Or.inl h
        · simp only [m1, List.mem_cons] at h
          rcases h with rfl | h
          · exact Or.inl ⟨x.name, rfl⟩
          · exact Or.inr h
    | [], hl => simp at hl

theorem bindParams_good : ∀ (ps : List Var) (vals : List Val) (env0 : Env) (x : String) (v : Val),
    (ps.all (fun p => goodName2 p.name)) = true → (∀ y w, env0 y = some w → goodName2 y = true) →
    bindParams env0 ps vals x = some v → goodName2 x = true
  | [], _, env0, x, v, _, h0, h => h0 x v (by simpa [bindParams] using h)
  | p :: ps, [], env0, x, v, _, h0, h => h0 x v (by simpa [bindParams] using h)
  | p :: ps, w :: ws, env0, x, v, hg, h0, h => by
    simp only [List.all_cons, Bool.and_eq_true] at hg
    simp only [bindParams] at h
    refine bindParams_good ps ws (env0.set p.name w) x v hg.2 ?_ h
    intro y w' hy
    by_cases e : y = p.name
    · subst e; exact hg.1
    · simp only [Sem.Src.Env.set, e, if_false] at hy
      exact h0 y w' hy

/-- names the context `ctx` of a function owns are in what the function may touch -/
theorem ownT_touched {j hi b : Nat} (hb : hi ≤ b) {x : String} (h : OwnT ⟨true, j⟩ hi x) : Touched j b x := by
  rcases h with ⟨k, rfl⟩ | ⟨k, rfl⟩ | ⟨v, g, hg, rfl⟩ | ⟨i, rfl⟩ | ⟨n, hn, rfl⟩ | hsp
  · exact Or.inl ⟨j, helperName k, Nat.le_refl _, by simp [Ctx.hn, Ctx.mg]⟩
  · exact Or.inl ⟨j, tmpName k, Nat.le_refl _, by simp [Ctx.tn, Ctx.mg]⟩
  · cases g with
    | true => exact Or.inr (Or.inr (Or.inl (by simpa [Ctx.mg] using hg)))
    | false => exact Or.inl ⟨j, v, Nat.le_refl _, by simp [Ctx.mg]⟩
  · exact Or.inr (Or.inl ⟨i, rfl⟩)
  · exact Or.inr (Or.inr (Or.inr (Or.inl ⟨n, by omega, rfl⟩)))
  · exact Or.inr (Or.inr (Or.inr (Or.inr hsp)))

theorem touched_mono {j j' b b' : Nat} (hj : j ≤ j') (hb : b ≤ b') {x : String} (h : Touched j b x) : Touched j' b' x := by
  rcases h with ⟨i, a, hi, rfl⟩ | h | h | ⟨n, hn, rfl⟩ | hsp
  · exact Or.inl ⟨i, a, by omega, rfl⟩
  · exact Or.inr (Or.inl h)
  · exact Or.inr (Or.inr (Or.inl h))
  · exact Or.inr (Or.inr (Or.inr (Or.inl ⟨n, by omega, rfl⟩)))
  · exact Or.inr (Or.inr (Or.inr (Or.inr hsp)))

/-- from the static facts of a context to the static condition of the frame lemma -/
theorem linesOK_SL {j hi b : Nat} (hb : hi ≤ b) {ds : List String} {ls : List Line} (Q : String → Prop) (h : LinesOK ⟨true, j⟩ hi ds ls) :
    SL (Touched j b) Q ds ls := by
  intro l hl
  obtain ⟨h1, h2, h3⟩ := h l hl
  refine ⟨fun x hx => ownT_touched hb (h1 x hx), h2, ?_, ?_⟩
  · intro n e; subst e; simp [isDefLine] at h3
  · intro n i e; subst e; simp [isDefLine] at h3

theorem paramLines_SL (j b : Nat) (ds : List String) : ∀ (ps : List String) (i : Nat),
    SL (Touched j b) (fun n => ∃ a, n = fnPrefix j ++ a) ds (paramLinesF j ps i)
  | [], _ => fun l hl => by simp [paramLinesF] at hl
  | p :: rest, i => by
    intro l hl
    simp only [paramLinesF, List.mem_cons] at hl
    rcases hl with rfl | hl
    · refine ⟨fun x hx => ?_, fun nm ar e => (by cases e), fun n e => (by cases e), fun n i' e => ?_⟩
      · simp only [lineTargets, List.mem_singleton] at hx
        exact Or.inl ⟨j, p, Nat.le_refl _, hx⟩
      · simp only [Line.localAssign.injEq] at e
        exact ⟨p, e.1.symm⟩
    · exact paramLines_SL j b ds rest (i + 1) l hl

end Tsh.Sem2
