/-
  The shape of the Batch translation of expressions, whatever the values: exactly one operand text, only new global
  lines and helper variables.  Needed for the branches of a conditional that a run does NOT take.
-/
import TshVerif.Lemmas.SemBAssign
namespace Tsh.SemB
open Tsh Tsh.Tr Tsh.Batch Tsh.Sem

theorem Adv.unique {s s' : St} {a b : List BLine} {m n : Nat} (h1 : Adv s s' a m) (h2 : Adv s s' b n) : a = b ∧ m = n := by
  have hc := h1.code.symm.trans h2.code
  have hn := h1.cnt.symm.trans h2.cnt
  exact ⟨List.append_cancel_right hc, by omega⟩

theorem Adv.funcs_nil {s s' : St} {a : List BLine} {n : Nat} (h : Adv s s' a n) (h0 : s.funcs = []) : s'.funcs = [] := by
  rw [h.funcs]; exact h0

theorem unaryOp_shapeB {e op t : String} {s s' : St} (h0 : s.funcs = []) (h : unaryOp e op s = .ok (t, s')) :
    ∃ line, Adv s s' [line] 1 := by
  unfold unaryOp at h
  obtain ⟨hv, s1, h1, h⟩ := bindB_ok h
  simp [nextHelperVar] at h1
  obtain ⟨rfl, rfl⟩ := h1
  split at h
  · simp [bind, varEvaluation, Tr.get, addLine, h0, pure] at h
    exact ⟨_, by rw [← h.2]; exact ⟨rfl, rfl, h0.symm, rfl, rfl, rfl, rfl, rfl, rfl, by simp [plainB], EnvExt.of_eq rfl rfl rfl rfl rfl rfl rfl rfl rfl rfl⟩⟩
  · simp [Tr.fail] at h

theorem binaryOp_shapeB {l op r t : String} {vt : ValueType} {s s' : St} (h0 : s.funcs = []) (h : binaryOp l op r vt s = .ok (t, s')) :
    ∃ line, Adv s s' [line] 1 := by
  unfold binaryOp notAllowedBin at h
  obtain ⟨hv, s1, h1, h⟩ := bindB_ok h
  simp [nextHelperVar] at h1
  obtain ⟨rfl, rfl⟩ := h1
  by_cases hsl : vt.isSlice = true
  · simp [hsl, Tr.fail] at h
  · simp only [hsl, Bool.false_eq_true, if_false] at h
    cases hd : vt.dt with
    | int =>
      simp only [hd] at h
      split at h
      · simp [bind, varEvaluation, Tr.get, addLine, h0, pure] at h
        exact ⟨_, by rw [← h.2]; exact ⟨rfl, rfl, h0.symm, rfl, rfl, rfl, rfl, rfl, rfl, by simp [plainB], EnvExt.of_eq rfl rfl rfl rfl rfl rfl rfl rfl rfl rfl⟩⟩
      · simp [Tr.fail] at h
    | string =>
      simp only [hd] at h
      split at h
      · simp [bind, varAssignment, varEvaluation, Tr.get, addLine, h0, pure] at h
        exact ⟨_, by rw [← h.2]; exact ⟨rfl, rfl, h0.symm, rfl, rfl, rfl, rfl, rfl, rfl, by simp [plainB], EnvExt.of_eq rfl rfl rfl rfl rfl rfl rfl rfl rfl rfl⟩⟩
      · simp [Tr.fail] at h
    | unknown => simp [hd, Tr.fail] at h
    | multiple => simp [hd, Tr.fail] at h
    | bool => simp [hd, Tr.fail] at h
    | other x => simp [hd, Tr.fail] at h

theorem comparisonOp_shapeB {l op r t : String} {vt : ValueType} {s s' : St} (h0 : s.funcs = []) (h : comparisonOp l op r vt s = .ok (t, s')) :
    ∃ line, Adv s s' [line] 1 := by
  unfold comparisonOp comparisonOpWith at h
  split at h
  · simp [Tr.fail] at h
  · simp [bind, nextHelperVar, varEvaluation, Tr.get, addLine, h0, pure] at h
    exact ⟨_, by rw [← h.2]; exact ⟨rfl, rfl, h0.symm, rfl, rfl, rfl, rfl, rfl, rfl, by simp [plainB], EnvExt.of_eq rfl rfl rfl rfl rfl rfl rfl rfl rfl rfl⟩⟩

theorem logicalOp_shapeB {l op r t : String} {s s' : St} (h0 : s.funcs = []) (h : logicalOp l op r s = .ok (t, s')) :
    ∃ line, Adv s s' [line] 1 := by
  by_cases h1 : op = "&&"
  · subst h1
    rw [andOp_specB _ _ _ h0] at h
    injection h with h
    injection h with _ e2
    exact ⟨_, by rw [← e2]; exact Adv.ofAdvB _ _ _ (by simp [plainB])⟩
  · by_cases h2 : op = "||"
    · subst h2
      rw [orOp_specB _ _ _ h0] at h
      injection h with h
      injection h with _ e2
      exact ⟨_, by rw [← e2]; exact Adv.ofAdvB _ _ _ (by simp [plainB])⟩
    · simp [logicalOp, bind, nextHelperVar, Tr.get, h1, h2, Tr.fail] at h

theorem exprB_shape : ∀ (e : Expr) (used : Bool) (s : St) (r : List String) (s' : St), Src.fragExpr e = true → s.funcs = [] →
    Tr.evalExpr conv e used s = .ok (r, s') → ∃ t new n, r = [t] ∧ Adv s s' new n
  | .boolLit b, used, s, r, s', _, h0, hc => by
    unfold Tr.evalExpr at hc
    obtain ⟨er, es⟩ := pureB_ok hc
    exact ⟨_, [], 0, er, by rw [es]; exact Adv.refl s⟩
  | .intLit n, used, s, r, s', _, h0, hc => by
    unfold Tr.evalExpr at hc
    obtain ⟨er, es⟩ := pureB_ok hc
    exact ⟨_, [], 0, er, by rw [es]; exact Adv.refl s⟩
  | .strLit lit, used, s, r, s', _, h0, hc => by
    unfold Tr.evalExpr at hc
    obtain ⟨t, s1, h1, hc⟩ := bindB_ok hc
    obtain ⟨er, es⟩ := pureB_ok hc
    have h1' : stringToString lit s = .ok (t, s1) := h1
    exact ⟨_, [], 0, er, by rw [es]; exact (stringToString_ok h1').2⟩
  | .varEval x, used, s, r, s', _, h0, hc => by
    unfold Tr.evalExpr at hc
    obtain ⟨t, s1, h1, hc⟩ := bindB_ok hc
    obtain ⟨er, es⟩ := pureB_ok hc
    have h1' : varEvaluation x.name x.global s = .ok (t, s1) := h1
    simp only [varEvaluation, bind, Tr.get, pure] at h1'
    injection h1' with h1'
    injection h1' with e1 e2
    exact ⟨_, [], 0, er, by rw [es, ← e2]; exact Adv.refl s⟩
  | .group x, used, s, r, s', hf, h0, hc => by
    unfold Tr.evalExpr at hc
    exact exprB_shape x used s r s' (by simpa [Src.fragExpr] using hf) h0 hc
  | .itoa x, used, s, r, s', hf, h0, hc => by
    unfold Tr.evalExpr at hc
    obtain ⟨a, s1, ha, hc⟩ := bindB_ok hc
    obtain ⟨er, es⟩ := pureB_ok hc
    obtain ⟨t, new, n, e1, e2⟩ := exprB_shape x true s a s1 (by simpa [Src.fragExpr] using hf) h0 ha
    subst e1
    exact ⟨t, new, n, er, by rw [es]; exact e2⟩
  | .unary op x vt, used, s, r, s', hf, h0, hc => by
    unfold Tr.evalExpr at hc
    obtain ⟨a, s1, ha, hc⟩ := bindB_ok hc
    obtain ⟨t, s2, hop, hc⟩ := bindB_ok hc
    obtain ⟨er, es⟩ := pureB_ok hc
    obtain ⟨t1, new, n, e1, e2⟩ := exprB_shape x true s a s1 (by simpa [Src.fragExpr] using hf) h0 ha
    have hop' : unaryOp (firstValue a) op s1 = .ok (t, s2) := hop
    obtain ⟨line, e3⟩ := unaryOp_shapeB (e2.funcs_nil h0) hop'
    exact ⟨_, [line] ++ new, n + 1, er, by rw [es]; exact e2.trans e3⟩
  | .binary op l r, used, s, res, s', hf, h0, hc => by
    unfold Tr.evalExpr at hc
    simp only [Src.fragExpr, Bool.and_eq_true] at hf
    obtain ⟨a, s1, ha, hc⟩ := bindB_ok hc
    obtain ⟨b, s2, hb, hc⟩ := bindB_ok hc
    obtain ⟨t, s3, hop, hc⟩ := bindB_ok hc
    obtain ⟨er, es⟩ := pureB_ok hc
    obtain ⟨t1, new1, n1, _, e1⟩ := exprB_shape l true s a s1 hf.1 h0 ha
    obtain ⟨t2, new2, n2, _, e2⟩ := exprB_shape r true s1 b s2 hf.2 (e1.funcs_nil h0) hb
    have hop' : binaryOp (firstValue a) op (firstValue b) (Expr.valueType l) s2 = .ok (t, s3) := hop
    obtain ⟨line, e3⟩ := binaryOp_shapeB (e2.funcs_nil (e1.funcs_nil h0)) hop'
    exact ⟨_, [line] ++ (new2 ++ new1), n1 + n2 + 1, er, by rw [es]; exact (e1.trans e2).trans e3⟩
  | .compare op l r, used, s, res, s', hf, h0, hc => by
    unfold Tr.evalExpr at hc
    simp only [Src.fragExpr, Bool.and_eq_true] at hf
    obtain ⟨a, s1, ha, hc⟩ := bindB_ok hc
    obtain ⟨b, s2, hb, hc⟩ := bindB_ok hc
    obtain ⟨t, s3, hop, hc⟩ := bindB_ok hc
    obtain ⟨er, es⟩ := pureB_ok hc
    obtain ⟨t1, new1, n1, _, e1⟩ := exprB_shape l true s a s1 hf.1 h0 ha
    obtain ⟨t2, new2, n2, _, e2⟩ := exprB_shape r true s1 b s2 hf.2 (e1.funcs_nil h0) hb
    have hop' : comparisonOp (firstValue a) op (firstValue b) (Expr.valueType l) s2 = .ok (t, s3) := hop
    obtain ⟨line, e3⟩ := comparisonOp_shapeB (e2.funcs_nil (e1.funcs_nil h0)) hop'
    exact ⟨_, [line] ++ (new2 ++ new1), n1 + n2 + 1, er, by rw [es]; exact (e1.trans e2).trans e3⟩
  | .logical op l r, used, s, res, s', hf, h0, hc => by
    unfold Tr.evalExpr at hc
    simp only [Src.fragExpr, Bool.and_eq_true] at hf
    obtain ⟨a, s1, ha, hc⟩ := bindB_ok hc
    obtain ⟨b, s2, hb, hc⟩ := bindB_ok hc
    obtain ⟨t, s3, hop, hc⟩ := bindB_ok hc
    obtain ⟨er, es⟩ := pureB_ok hc
    obtain ⟨t1, new1, n1, _, e1⟩ := exprB_shape l true s a s1 hf.1 h0 ha
    obtain ⟨t2, new2, n2, _, e2⟩ := exprB_shape r true s1 b s2 hf.2 (e1.funcs_nil h0) hb
    have hop' : logicalOp (firstValue a) op (firstValue b) s2 = .ok (t, s3) := hop
    obtain ⟨line, e3⟩ := logicalOp_shapeB (e2.funcs_nil (e1.funcs_nil h0)) hop'
    exact ⟨_, [line] ++ (new2 ++ new1), n1 + n2 + 1, er, by rw [es]; exact (e1.trans e2).trans e3⟩
  | .call _ _ _, _, _, _, _, hf, _, _ => by simp [Src.fragExpr] at hf
  | .app _ _ _, _, _, _, _, hf, _, _ => by simp [Src.fragExpr] at hf
  | .sliceNew _ _, _, _, _, _, hf, _, _ => by simp [Src.fragExpr] at hf
  | .sliceEval _ _ _, _, _, _, _, hf, _, _ => by simp [Src.fragExpr] at hf
  | .substr _ _ _, _, _, _, _, hf, _, _ => by simp [Src.fragExpr] at hf
  | .len _, _, _, _, _, hf, _, _ => by simp [Src.fragExpr] at hf
  | .exists_ _, _, _, _, _, hf, _, _ => by simp [Src.fragExpr] at hf
  | .read _, _, _, _, _, hf, _, _ => by simp [Src.fragExpr] at hf
  | .input _, _, _, _, _, hf, _, _ => by simp [Src.fragExpr] at hf
  | .copy _ _, _, _, _, _, hf, _, _ => by simp [Src.fragExpr] at hf
  | .write _ _ _, _, _, _, _, hf, _, _ => by simp [Src.fragExpr] at hf
  | .bad _, _, _, _, _, hf, _, _ => by simp [Src.fragExpr] at hf

/-- the semantic claim for an expression, with the lines fixed by the shape -/
theorem exprB_at {e : Expr} {s s' : St} {t : String} {new : List BLine} {n : Nat} {env : Src.Env} {v : Src.Val}
    (h0 : s.funcs = []) (hc : Tr.evalExpr conv e true s = .ok ([t], s')) (ad : Adv s s' new n) (hv : Src32.evalExpr env e = some v) :
    ∀ ρ out, Agree env ρ → ∃ ρ', runN new.reverse ⟨ρ, out⟩ = some ⟨ρ', out⟩ ∧
      FrameH s.varCounter (s.varCounter + n) ρ ρ' ∧ HoldsD t v.render (s.varCounter + n) ρ' := by
  obtain ⟨t', new', n', e1, ad', sem⟩ := exprB_sem e true s [t] s' env v h0 hc hv
  simp only [List.cons.injEq, and_true] at e1
  obtain ⟨rfl, rfl⟩ := ad.unique ad'
  subst e1
  exact sem

end Tsh.SemB
