/-
  Removing functions that are never called does not change what a program does (source semantics): if every call
  in the top-level code and in the bodies of the kept functions goes to a kept function, then the program with only
  the kept definitions runs to the same outcome.  The result of a run does not depend on the fuel that found it.
-/
import TshVerif.Lemmas.Sem2Mono
import TshVerif.Lemmas.Sem2SrcFuns
namespace Tsh.Sem2.Src
open Tsh Tsh.Tr Tsh.Sem Tsh.Sem.Src

/-! ### fuel -/

theorem execSs_le {f g : Nat} (h : f ≤ g) {sts : List Stmt} {c : SCfg} {r : SOut × SCfg} (hr : execSs f sts c = some r) :
    execSs g sts c = some r := by
  induction g with
  | zero => have : f = 0 := by omega
            subst this; exact hr
  | succ g ih =>
    by_cases e : f = g + 1
    · subst e; exact hr
    · exact (mono_all g).execSs _ _ _ (ih (by omega))

/-- **The outcome of a program does not depend on the fuel.** -/
theorem runProgram_fuel_independent {f1 f2 : Nat} {p : Program} {r1 r2 : Nat × List String}
    (h1 : runProgram f1 p = some r1) (h2 : runProgram f2 p = some r2) : r1 = r2 := by
  unfold runProgram at h1 h2
  cases e1 : execSs f1 p SCfg.init with
  | none => simp [e1] at h1
  | some x1 =>
    cases e2 : execSs f2 p SCfg.init with
    | none => simp [e2] at h2
    | some x2 =>
      have a := execSs_le (Nat.le_max_left f1 f2) e1
      have b := execSs_le (Nat.le_max_right f1 f2) e2
      rw [a] at b
      simp only [Option.some.injEq] at b
      subst b
      rw [e1] at h1; rw [e2] at h2
      rw [h1] at h2
      exact Option.some.inj h2

mutual
theorem callsS_nd (keep : List String) : ∀ (st : Stmt), callsS keep st = true → ndS [] st = true
  | .ifS c body elifs els, h => by
    simp only [callsS, Bool.and_eq_true] at h
    simp only [ndS, Bool.true_and, Bool.and_eq_true]
    exact ⟨⟨callsSs_nd keep body h.1.1.2, callsEl_nd keep elifs h.1.2⟩, callsSs_nd keep els h.2⟩
  | .forS init c incr body, h => by
    simp only [callsS, Bool.and_eq_true] at h
    simp only [ndS, Bool.and_true, Bool.and_eq_true]
    exact ⟨⟨callsO_nd keep init h.1.1.1, callsO_nd keep incr h.1.2⟩, callsSs_nd keep body h.2⟩
  | .funcDef _ _ _ _ _, h => by simp [callsS] at h
  | .varDef _ _, _ | .varDefCall _ _, _ | .assign _ _, _ | .assignCall _ _, _ | .sliceAssign _ _ _, _ | .ret _, _ | .brk, _ | .cont, _
  | .print _, _ | .panic _, _ | .expr _, _ => rfl
theorem callsSs_nd (keep : List String) : ∀ (sts : List Stmt), callsSs keep sts = true → ndSs [] sts = true
  | [], _ => rfl
  | s :: rest, h => by
    simp only [callsSs, Bool.and_eq_true] at h
    simp only [ndSs, Bool.and_eq_true]
    exact ⟨callsS_nd keep s h.1, callsSs_nd keep rest h.2⟩
theorem callsEl_nd (keep : List String) : ∀ (el : List (Expr × List Stmt)), callsEl keep el = true → ndEl [] el = true
  | [], _ => rfl
  | (c, b) :: rest, h => by
    simp only [callsEl, Bool.and_eq_true] at h
    simp only [ndEl, Bool.true_and, Bool.and_eq_true]
    exact ⟨callsSs_nd keep b h.1.2, callsEl_nd keep rest h.2⟩
theorem callsO_nd (keep : List String) : ∀ (o : Option Stmt), callsO keep o = true → ndO [] o = true
  | none, _ => rfl
  | some s, h => by
    simp only [callsO] at h
    simp only [ndO]
    exact callsS_nd keep s h
end

/-! ### the configuration with the kept functions only -/

def cl (keep : List String) (c : SCfg) : SCfg := { c with funs := c.funs.filter (fun fd => keep.contains fd.name) }

def clR {α : Type} (keep : List String) : R α → R α
  | .ok a c => .ok a (cl keep c)
  | .exit k c => .exit k (cl keep c)

/-- the bodies of the kept functions of a table call kept functions only -/
def TOK (keep : List String) (funs : List FunDef) : Prop := ∀ fd ∈ funs, keep.contains fd.name = true → callsSs keep fd.body = true

theorem readVar_cl (keep : List String) (c : SCfg) (x : Var) : readVar (cl keep c) x = readVar c x := rfl

theorem resolve_cl (keep : List String) (c : SCfg) : ∀ o, resolve (cl keep c) o = resolve c o
  | .lit _ => rfl
  | .var _ => rfl
  | .itoa o => by simp only [resolve, resolve_cl keep c o]

theorem resolveAll_cl (keep : List String) (c : SCfg) : ∀ os, resolveAll (cl keep c) os = resolveAll c os
  | [] => rfl
  | o :: os => by simp only [resolveAll, resolve_cl keep c o, resolveAll_cl keep c os]

theorem lookupFun_cl (keep : List String) : ∀ (funs : List FunDef) (name : String), keep.contains name = true →
    lookupFun (funs.filter (fun fd => keep.contains fd.name)) name = lookupFun funs name
  | [], _, _ => rfl
  | fd :: rest, name, hk => by
    by_cases e : fd.name = name
    · have : keep.contains fd.name = true := by rw [e]; exact hk
      rw [List.filter_cons_of_pos (by simpa using this)]
      simp only [lookupFun, e, if_true]
    · simp only [lookupFun, e, if_false]
      cases hkf : keep.contains fd.name with
      | true =>
        rw [List.filter_cons_of_pos (by simpa using hkf)]
        simp only [lookupFun, e, if_false]; exact lookupFun_cl keep rest name hk
      | false =>
        rw [List.filter_cons_of_neg (by simpa using hkf)]
        exact lookupFun_cl keep rest name hk

theorem lookupFun_mem : ∀ {funs : List FunDef} {name : String} {fd : FunDef}, lookupFun funs name = some fd → fd ∈ funs ∧ fd.name = name
  | [], _, _, h => by simp [lookupFun] at h
  | g :: rest, name, fd, h => by
    simp only [lookupFun] at h
    split at h
    · rename_i e
      simp only [Option.some.injEq] at h
      subst h
      exact ⟨by simp, e⟩
    · obtain ⟨a, b⟩ := lookupFun_mem h
      exact ⟨by simp [a], b⟩

@[simp] theorem cl_heap (keep : List String) (c : SCfg) : (cl keep c).heap = c.heap := rfl
@[simp] theorem cl_next (keep : List String) (c : SCfg) : (cl keep c).next = c.next := rfl
@[simp] theorem cl_out (keep : List String) (c : SCfg) : (cl keep c).out = c.out := rfl
@[simp] theorem cl_lenv (keep : List String) (c : SCfg) : (cl keep c).lenv = c.lenv := rfl
@[simp] theorem cl_genv (keep : List String) (c : SCfg) : (cl keep c).genv = c.genv := rfl
@[simp] theorem cl_inFn (keep : List String) (c : SCfg) : (cl keep c).inFn = c.inFn := rfl

theorem tok_same {keep : List String} {c c1 : SCfg} (h : SameF c c1) (ht : TOK keep c.funs) : TOK keep c1.funs := by
  rw [h.1]; exact ht

theorem storeVars_cl (keep : List String) : ∀ (vars : List Var) (vs : List Val) (c : SCfg), storeVars (cl keep c) vars vs = cl keep (storeVars c vars vs)
  | [], _, _ => by simp [storeVars]
  | _ :: _, [], _ => by simp [storeVars]
  | x :: xs, v :: vs, c => by
    simp only [storeVars]
    have : writeVar (cl keep c) x v = cl keep (writeVar c x v) := by
      simp only [writeVar, cl_inFn]
      by_cases hb : (c.inFn && !x.global) = true
      · simp only [hb, if_true]; rfl
      · simp only [hb, if_false]; rfl
    rw [this]
    exact storeVars_cl keep xs vs _

/-- the claims, for one amount of fuel -/
structure CleanOK (keep : List String) (f : Nat) : Prop where
  evalE : ∀ e c r, Src.evalE f e c = some r → callsE keep e = true → TOK keep c.funs → Src.evalE f e (cl keep c) = some (clR keep r)
  evalArgs : ∀ es c r, Src.evalArgs f es c = some r → callsEs keep es = true → TOK keep c.funs → Src.evalArgs f es (cl keep c) = some (clR keep r)
  evalVals : ∀ es c r, Src.evalVals f es c = some r → callsEs keep es = true → TOK keep c.funs → Src.evalVals f es (cl keep c) = some (clR keep r)
  evalCs : ∀ el c r, Src.evalCs f el c = some r → callsEl keep el = true → TOK keep c.funs → Src.evalCs f el (cl keep c) = some (clR keep r)
  execS : ∀ st c o c', Src.execS f st c = some (o, c') → callsS keep st = true → TOK keep c.funs → Src.execS f st (cl keep c) = some (o, cl keep c')
  execSs : ∀ sts c o c', Src.execSs f sts c = some (o, c') → callsSs keep sts = true → TOK keep c.funs → Src.execSs f sts (cl keep c) = some (o, cl keep c')
  execEl : ∀ el bs els c o c', Src.execEl f el bs els c = some (o, c') → callsEl keep el = true → callsSs keep els = true → TOK keep c.funs →
    Src.execEl f el bs els (cl keep c) = some (o, cl keep c')
  execLp : ∀ cond incr body c o c', Src.execLp f cond incr body c = some (o, c') → callsE keep cond = true → callsO keep incr = true →
    callsSs keep body = true → TOK keep c.funs → Src.execLp f cond incr body (cl keep c) = some (o, cl keep c')

theorem cleanOK_zero (keep : List String) : CleanOK keep 0 := by
  refine ⟨?_, ?_, ?_, ?_, ?_, ?_, ?_, ?_⟩ <;> intros <;> simp_all [Src.evalE, Src.evalArgs, Src.evalVals, Src.evalCs, Src.execS, Src.execSs, Src.execEl, Src.execLp]

syntax "cl_tail" : tactic
set_option hygiene false in
/-- the part of a case after the last sub-evaluation: the same pure computation on both sides -/
macro_rules
  | `(tactic| cl_tail) => `(tactic| first
    | (simp at h; done)
    | (simp only [Option.some.injEq] at h; subst h; first | rfl | (simp [clR, cl, *]; done))
    | (simp only [Option.some.injEq, Prod.mk.injEq] at h; obtain ⟨rfl, rfl⟩ := h; first | rfl | (simp only [storeVars_cl]; done) | (simp [storeVars_cl]; done) | (simp [clR, cl, *]; done))
    | (split at h <;> (try simp only [*, -h]) <;> cl_tail))

theorem cleanOK_succ {keep : List String} {f : Nat} (ih : CleanOK keep f) : CleanOK keep (f + 1) := by
  have fo := funsOK f
  refine ⟨?_, ?_, ?_, ?_, ?_, ?_, ?_, ?_⟩
  · -- evalE
    intro e c r h hc ht
    cases e <;> try simp only [Src.evalE] at h ⊢
    case boolLit b => cl_tail
    case intLit n => cl_tail
    case strLit s => cl_tail
    case varEval x => cl_tail
    case group x => exact ih.evalE x c r h (by simpa [callsE] using hc) ht
    case itoa x =>
      simp only [callsE] at hc
      split at h
      · rename_i o c1 hx
        simp only [ih.evalE _ _ _ hx hc ht, clR]
        cl_tail
      · rename_i k c1 hx
        simp only [ih.evalE _ _ _ hx hc ht, clR]
        cl_tail
      · simp at h
    case unary op x vt =>
      simp only [callsE] at hc
      split at h
      · rename_i hop
        simp only [hop, if_true]
        split at h
        · rename_i o c1 hx
          simp only [ih.evalE _ _ _ hx hc ht, clR, resolve_cl]
          cl_tail
        · rename_i k c1 hx
          simp only [ih.evalE _ _ _ hx hc ht, clR]
          cl_tail
        · simp at h
      · simp at h
    case binary op l r' =>
      simp only [callsE, Bool.and_eq_true] at hc
      split at h
      · rename_i a c1 hl
        have t1 := tok_same (fo.evalE _ _ _ hl) ht
        simp only [ih.evalE _ _ _ hl hc.1 ht, clR]
        split at h
        · rename_i b c2 hr
          simp only [ih.evalE _ _ _ hr hc.2 t1, clR, resolve_cl]
          cl_tail
        · rename_i k c2 hr
          simp only [ih.evalE _ _ _ hr hc.2 t1, clR]
          cl_tail
        · simp at h
      · rename_i k c1 hl
        simp only [ih.evalE _ _ _ hl hc.1 ht, clR]
        cl_tail
      · simp at h
    case compare op l r' =>
      simp only [callsE, Bool.and_eq_true] at hc
      split at h
      · rename_i a c1 hl
        have t1 := tok_same (fo.evalE _ _ _ hl) ht
        simp only [ih.evalE _ _ _ hl hc.1 ht, clR]
        split at h
        · rename_i b c2 hr
          simp only [ih.evalE _ _ _ hr hc.2 t1, clR, resolve_cl]
          cl_tail
        · rename_i k c2 hr
          simp only [ih.evalE _ _ _ hr hc.2 t1, clR]
          cl_tail
        · simp at h
      · rename_i k c1 hl
        simp only [ih.evalE _ _ _ hl hc.1 ht, clR]
        cl_tail
      · simp at h
    case logical op l r' =>
      simp only [callsE, Bool.and_eq_true] at hc
      split at h
      · rename_i a c1 hl
        have t1 := tok_same (fo.evalE _ _ _ hl) ht
        simp only [ih.evalE _ _ _ hl hc.1 ht, clR]
        split at h
        · rename_i b c2 hr
          simp only [ih.evalE _ _ _ hr hc.2 t1, clR, resolve_cl]
          cl_tail
        · rename_i k c2 hr
          simp only [ih.evalE _ _ _ hr hc.2 t1, clR]
          cl_tail
        · simp at h
      · rename_i k c1 hl
        simp only [ih.evalE _ _ _ hl hc.1 ht, clR]
        cl_tail
      · simp at h
    case sliceEval value index dt =>
      simp only [callsE, Bool.and_eq_true] at hc
      split at h
      · rename_i a c1 hl
        have t1 := tok_same (fo.evalE _ _ _ hl) ht
        simp only [ih.evalE _ _ _ hl hc.1 ht, clR]
        split at h
        · rename_i b c2 hr
          simp only [ih.evalE _ _ _ hr hc.2 t1, clR, resolve_cl, cl_heap]
          cl_tail
        · rename_i k c2 hr
          simp only [ih.evalE _ _ _ hr hc.2 t1, clR]
          cl_tail
        · simp at h
      · rename_i k c1 hl
        simp only [ih.evalE _ _ _ hl hc.1 ht, clR]
        cl_tail
      · simp at h
    case len x =>
      simp only [callsE] at hc
      split at h
      · rename_i a c1 hx
        simp only [ih.evalE _ _ _ hx hc ht, clR, resolve_cl, cl_heap]
        cl_tail
      · rename_i k c1 hx
        simp only [ih.evalE _ _ _ hx hc ht, clR]
        cl_tail
      · simp at h
    case copy dst src =>
      simp only [callsE] at hc
      split at h
      · rename_i a c1 hx
        simp only [ih.evalE _ _ _ hx hc ht, clR, resolve_cl, readVar_cl, cl_heap, cl_next]
        cl_tail
      · rename_i k c1 hx
        simp only [ih.evalE _ _ _ hx hc ht, clR]
        cl_tail
      · simp at h
    case sliceNew dt vals =>
      simp only [callsE] at hc
      split at h
      · rename_i os c1 ha
        simp only [ih.evalArgs _ _ _ ha hc ht, clR, resolveAll_cl, cl_heap, cl_next]
        cl_tail
      · rename_i k c1 ha
        simp only [ih.evalArgs _ _ _ ha hc ht, clR]
        cl_tail
      · simp at h
    case substr value start stop =>
      cases stop with
      | none =>
        simp only [callsE, Bool.and_eq_true] at hc
        simp only [Src.evalE] at h ⊢
        split at h
        · rename_i a c1 h1
          have t1 := tok_same (fo.evalE _ _ _ h1) ht
          simp only [ih.evalE _ _ _ h1 hc.1 ht, clR]
          split at h
          · rename_i v c2 h2
            simp only [ih.evalE _ _ _ h2 hc.2 t1, clR, resolve_cl]
            cl_tail
          · rename_i k c2 h2
            simp only [ih.evalE _ _ _ h2 hc.2 t1, clR]
            cl_tail
          · simp at h
        · rename_i k c1 h1
          simp only [ih.evalE _ _ _ h1 hc.1 ht, clR]
          cl_tail
        · simp at h
      | some st =>
        simp only [callsE, Bool.and_eq_true] at hc
        simp only [Src.evalE] at h ⊢
        split at h
        · rename_i a c1 h1
          have t1 := tok_same (fo.evalE _ _ _ h1) ht
          simp only [ih.evalE _ _ _ h1 hc.1.1 ht, clR]
          split at h
          · rename_i b c2 h2
            have t2 := tok_same (fo.evalE _ _ _ h2) t1
            simp only [ih.evalE _ _ _ h2 hc.1.2 t1, clR]
            split at h
            · rename_i v c3 h3
              simp only [ih.evalE _ _ _ h3 hc.2 t2, clR, resolve_cl]
              cl_tail
            · rename_i k c3 h3
              simp only [ih.evalE _ _ _ h3 hc.2 t2, clR]
              cl_tail
            · simp at h
          · rename_i k c2 h2
            simp only [ih.evalE _ _ _ h2 hc.1.2 t1, clR]
            cl_tail
          · simp at h
        · rename_i k c1 h1
          simp only [ih.evalE _ _ _ h1 hc.1.1 ht, clR]
          cl_tail
        · simp at h
    case call name rets args =>
      simp only [callsE, Bool.and_eq_true] at hc
      split at h
      · rename_i os c1 ha
        have t1 := tok_same (fo.evalArgs _ _ _ ha) ht
        simp only [ih.evalArgs _ _ _ ha hc.2 ht, clR, resolveAll_cl]
        have hlk : lookupFun (cl keep c1).funs name = lookupFun c1.funs name := lookupFun_cl keep c1.funs name hc.1
        simp only [hlk]
        split at h
        · rename_i vals fd hv hl
          split at h
          · rename_i hlen
            simp only [hlen, if_true]
            obtain ⟨hmem, hname⟩ := lookupFun_mem hl
            have hbody : callsSs keep fd.body = true := t1 fd hmem (by rw [hname]; exact hc.1)
            split at h
            · rename_i vs c2 hb
              have ib := ih.execSs _ _ _ _ hb hbody t1
              have e1 : ({ cl keep c1 with lenv := bindParams (fun _ => none) fd.params vals, inFn := true } : SCfg) =
                  cl keep { c1 with lenv := bindParams (fun _ => none) fd.params vals, inFn := true } := rfl
              rw [e1, ib]
              simp only [cl_lenv, cl_inFn]
              cl_tail
            · rename_i c2 hb
              have ib := ih.execSs _ _ _ _ hb hbody t1
              have e1 : ({ cl keep c1 with lenv := bindParams (fun _ => none) fd.params vals, inFn := true } : SCfg) =
                  cl keep { c1 with lenv := bindParams (fun _ => none) fd.params vals, inFn := true } := rfl
              rw [e1, ib]
              simp only [cl_lenv, cl_inFn]
              cl_tail
            · rename_i k c2 hb
              have ib := ih.execSs _ _ _ _ hb hbody t1
              have e1 : ({ cl keep c1 with lenv := bindParams (fun _ => none) fd.params vals, inFn := true } : SCfg) =
                  cl keep { c1 with lenv := bindParams (fun _ => none) fd.params vals, inFn := true } := rfl
              rw [e1, ib]
              simp only [cl_lenv, cl_inFn]
              cl_tail
            · simp at h
          · simp at h
        · simp at h
      · rename_i k c1 ha
        simp only [ih.evalArgs _ _ _ ha hc.2 ht, clR]
        cl_tail
      · simp at h
    all_goals simp at h
  · -- evalArgs
    intro es c r h hc ht
    cases es with
    | nil => simp only [Src.evalArgs] at h ⊢; cl_tail
    | cons e rest =>
      simp only [callsEs, Bool.and_eq_true] at hc
      simp only [Src.evalArgs] at h ⊢
      split at h
      · rename_i o c1 he
        have t1 := tok_same (fo.evalE _ _ _ he) ht
        simp only [ih.evalE _ _ _ he hc.1 ht, clR]
        split at h
        · rename_i os c2 hr
          simp only [ih.evalArgs _ _ _ hr hc.2 t1, clR]
          cl_tail
        · rename_i k c2 hr
          simp only [ih.evalArgs _ _ _ hr hc.2 t1, clR]
          cl_tail
        · simp at h
      · rename_i k c1 he
        simp only [ih.evalE _ _ _ he hc.1 ht, clR]
        cl_tail
      · simp at h
  · -- evalVals
    intro es c r h hc ht
    cases es with
    | nil => simp only [Src.evalVals] at h ⊢; cl_tail
    | cons e rest =>
      simp only [callsEs, Bool.and_eq_true] at hc
      simp only [Src.evalVals] at h ⊢
      split at h
      · rename_i o c1 he
        have t1 := tok_same (fo.evalE _ _ _ he) ht
        simp only [ih.evalE _ _ _ he hc.1 ht, clR, resolve_cl]
        split at h
        · rename_i v hv
          try simp only [hv]
          split at h
          · rename_i vs c2 hr
            simp only [ih.evalVals _ _ _ hr hc.2 t1, clR]
            cl_tail
          · rename_i k c2 hr
            simp only [ih.evalVals _ _ _ hr hc.2 t1, clR]
            cl_tail
          · simp at h
        · simp at h
      · rename_i k c1 he
        simp only [ih.evalE _ _ _ he hc.1 ht, clR]
        cl_tail
      · simp at h
  · -- evalCs
    intro el c r h hc ht
    cases el with
    | nil => simp only [Src.evalCs] at h ⊢; cl_tail
    | cons p rest =>
      obtain ⟨e, b⟩ := p
      simp only [callsEl, Bool.and_eq_true] at hc
      simp only [Src.evalCs] at h ⊢
      split at h
      · rename_i o c1 he
        have t1 := tok_same (fo.evalE _ _ _ he) ht
        simp only [ih.evalE _ _ _ he hc.1.1 ht, clR]
        split at h
        · rename_i os c2 hr
          simp only [ih.evalCs _ _ _ hr hc.2 t1, clR]
          cl_tail
        · rename_i k c2 hr
          simp only [ih.evalCs _ _ _ hr hc.2 t1, clR]
          cl_tail
        · simp at h
      · rename_i k c1 he
        simp only [ih.evalE _ _ _ he hc.1.1 ht, clR]
        cl_tail
      · simp at h
  · -- execS
    intro st c o c' h hc ht
    have valsCase : ∀ (vars : List Var) (vals : List Expr), callsEs keep vals = true →
        (if (vars.length == vals.length) = true then
          match Src.evalVals f vals c with
          | some (.ok vs c1) => some (SOut.normal, storeVars c1 vars vs)
          | some (.exit k c1) => some (SOut.exit k, c1)
          | none => none
        else none) = some (o, c') →
        (if (vars.length == vals.length) = true then
          match Src.evalVals f vals (cl keep c) with
          | some (.ok vs c1) => some (SOut.normal, storeVars c1 vars vs)
          | some (.exit k c1) => some (SOut.exit k, c1)
          | none => none
        else none) = some (o, cl keep c') := by
      intro vars vals hcv h
      split at h
      · rename_i hlen
        simp only [hlen, if_true]
        split at h
        · rename_i vs c1 hv
          simp only [ih.evalVals _ _ _ hv hcv ht, clR]
          cl_tail
        · rename_i k c1 hv
          simp only [ih.evalVals _ _ _ hv hcv ht, clR]
          cl_tail
        · simp at h
      · simp at h
    have callCase : ∀ (vars : List Var) (call : Expr), callsE keep call = true →
        (match Src.evalE f call c with
          | some (.ok os c1) =>
              match resolveAll c1 os with
              | some vs => if (vs.length == vars.length) = true then some (SOut.normal, storeVars c1 vars vs) else none
              | none => none
          | some (.exit k c1) => some (SOut.exit k, c1)
          | none => none) = some (o, c') →
        (match Src.evalE f call (cl keep c) with
          | some (.ok os c1) =>
              match resolveAll c1 os with
              | some vs => if (vs.length == vars.length) = true then some (SOut.normal, storeVars c1 vars vs) else none
              | none => none
          | some (.exit k c1) => some (SOut.exit k, c1)
          | none => none) = some (o, cl keep c') := by
      intro vars call hcc h
      split at h
      · rename_i os c1 he
        simp only [ih.evalE _ _ _ he hcc ht, clR, resolveAll_cl]
        cl_tail
      · rename_i k c1 he
        simp only [ih.evalE _ _ _ he hcc ht, clR]
        cl_tail
      · simp at h
    cases st <;> try simp only [Src.execS] at h ⊢
    case varDef vars vals => exact valsCase vars vals (by simpa [callsS] using hc) h
    case assign vars vals => exact valsCase vars vals (by simpa [callsS] using hc) h
    case varDefCall vars call => exact callCase vars call (by simpa [callsS] using hc) h
    case assignCall vars call => exact callCase vars call (by simpa [callsS] using hc) h
    case funcDef name pub rets params body => simp [callsS] at hc
    case brk => cl_tail
    case cont => cl_tail
    case sliceAssign x index value =>
      simp only [callsS, Bool.and_eq_true] at hc
      split at h
      · rename_i a c1 h1
        have t1 := tok_same (fo.evalE _ _ _ h1) ht
        simp only [ih.evalE _ _ _ h1 hc.1 ht, clR]
        split at h
        · rename_i b c2 h2
          simp only [ih.evalE _ _ _ h2 hc.2 t1, clR, resolve_cl, readVar_cl, cl_heap, cl_next]
          cl_tail
        · rename_i k c2 h2
          simp only [ih.evalE _ _ _ h2 hc.2 t1, clR]
          cl_tail
        · simp at h
      · rename_i k c1 h1
        simp only [ih.evalE _ _ _ h1 hc.1 ht, clR]
        cl_tail
      · simp at h
    case ret vals =>
      simp only [callsS] at hc
      split at h
      · rename_i os c1 ha
        simp only [ih.evalArgs _ _ _ ha hc ht, clR, resolveAll_cl]
        cl_tail
      · rename_i k c1 ha
        simp only [ih.evalArgs _ _ _ ha hc ht, clR]
        cl_tail
      · simp at h
    case print es =>
      simp only [callsS] at hc
      split at h
      · rename_i os c1 ha
        simp only [ih.evalArgs _ _ _ ha hc ht, clR, resolveAll_cl, cl_out]
        cl_tail
      · rename_i k c1 ha
        simp only [ih.evalArgs _ _ _ ha hc ht, clR]
        cl_tail
      · simp at h
    case panic e =>
      simp only [callsS] at hc
      split at h
      · rename_i ov c1 he
        simp only [ih.evalE _ _ _ he hc ht, clR, resolve_cl, cl_out]
        cl_tail
      · rename_i k c1 he
        simp only [ih.evalE _ _ _ he hc ht, clR]
        cl_tail
      · simp at h
    case expr e =>
      cases e <;> simp only [Src.execS] at h ⊢
      case call name rets args =>
        simp only [callsS] at hc
        split at h
        · rename_i os c1 he
          simp only [ih.evalE _ _ _ he hc ht, clR]
          cl_tail
        · rename_i k c1 he
          simp only [ih.evalE _ _ _ he hc ht, clR]
          cl_tail
        · simp at h
      all_goals simp at h
    case ifS cond body elifs els =>
      simp only [callsS, Bool.and_eq_true] at hc
      obtain ⟨⟨⟨hcc, hcb⟩, hce⟩, hcl⟩ := hc
      split at h
      · rename_i ov c1 hcnd
        have t1 := tok_same (fo.evalE _ _ _ hcnd) ht
        simp only [ih.evalE _ _ _ hcnd hcc ht, clR]
        split at h
        · rename_i os c2 hcs
          have t2 := tok_same (fo.evalCs _ _ _ hcs) t1
          simp only [ih.evalCs _ _ _ hcs hce t1, clR, resolve_cl, resolveAll_cl]
          split at h
          · rename_i b bs hb hbs
            cases b
            · simp only [Bool.false_eq_true, if_false] at h ⊢
              exact ih.execEl _ _ _ _ _ _ h hce hcl t2
            · simp only [if_true] at h ⊢
              exact ih.execSs _ _ _ _ h hcb t2
          · simp at h
        · rename_i k c2 hcs
          simp only [ih.evalCs _ _ _ hcs hce t1, clR]
          cl_tail
        · simp at h
      · rename_i k c1 hcnd
        simp only [ih.evalE _ _ _ hcnd hcc ht, clR]
        cl_tail
      · simp at h
    case forS init cond incr body =>
      simp only [callsS, Bool.and_eq_true] at hc
      obtain ⟨⟨⟨hci, hcc⟩, hcn⟩, hcb⟩ := hc
      cases init with
      | none => simp only at h ⊢; exact ih.execLp _ _ _ _ _ _ h hcc hcn hcb ht
      | some i =>
        simp only at h ⊢
        simp only [callsO] at hci
        split at h
        · rename_i c1 hi
          have t1 := tok_same (fo.execS [] i c _ c1 (Or.inr (callsS_nd keep i hci)) hi (fun k => by simp)) ht
          simp only [ih.execS _ _ _ _ hi hci ht]
          exact ih.execLp _ _ _ _ _ _ h hcc hcn hcb t1
        · rename_i k c1 hi
          simp only [ih.execS _ _ _ _ hi hci ht]
          cl_tail
        · simp at h
  · -- execSs
    intro sts c o c' h hc ht
    cases sts with
    | nil => simp only [Src.execSs] at h ⊢; cl_tail
    | cons st rest =>
      simp only [callsSs, Bool.and_eq_true] at hc
      simp only [Src.execSs] at h ⊢
      cases hx : Src.execS f st c with
      | none => rw [hx] at h; simp at h
      | some p =>
        obtain ⟨o1, c1⟩ := p
        rw [hx] at h
        rw [ih.execS _ _ _ _ hx hc.1 ht]
        cases o1 <;> simp only at h ⊢
        case normal =>
          have t1 := tok_same (fo.execS [] st c _ c1 (Or.inr (callsS_nd keep st hc.1)) hx (fun k => by simp)) ht
          exact ih.execSs _ _ _ _ h hc.2 t1
        all_goals cl_tail
  · -- execEl
    intro el bs els c o c' h hce hcl ht
    cases el with
    | nil => simp only [Src.execEl] at h ⊢; exact ih.execSs _ _ _ _ h hcl ht
    | cons p rest =>
      obtain ⟨e, body⟩ := p
      simp only [callsEl, Bool.and_eq_true] at hce
      cases bs with
      | nil => simp only [Src.execEl] at h ⊢; exact ih.execSs _ _ _ _ h hcl ht
      | cons b bs' =>
        simp only [Src.execEl] at h ⊢
        split at h
        · exact ih.execSs _ _ _ _ h hce.1.2 ht
        · exact ih.execEl _ _ _ _ _ _ h hce.2 hcl ht
        · simp at h
  · -- execLp
    intro cond incr body c o c' h hcc hcn hcb ht
    simp only [Src.execLp] at h ⊢
    split at h
    · rename_i ov c0 hcnd
      have t0 := tok_same (fo.evalE _ _ _ hcnd) ht
      simp only [ih.evalE _ _ _ hcnd hcc ht, clR, resolve_cl]
      split at h
      · rename_i hv
        try simp only [hv]
        cases hb : Src.execSs f body c0 with
        | none => rw [hb] at h; simp at h
        | some p =>
          obtain ⟨ob, cb⟩ := p
          rw [hb] at h
          rw [ih.execSs _ _ _ _ hb hcb t0]
          cases ob <;> simp only at h ⊢
          case brk => cl_tail
          case exit k => cl_tail
          case ret vs => cl_tail
          case normal =>
            have tb := tok_same (fo.execSs [] body c0 _ cb (Or.inr (callsSs_nd keep body hcb)) hb (fun k => by simp)) t0
            cases incr with
            | none => simp only at h ⊢; exact ih.execLp _ _ _ _ _ _ h hcc hcn hcb tb
            | some i =>
              simp only at h ⊢
              simp only [callsO] at hcn
              split at h
              · rename_i c2 hi
                have t2 := tok_same (fo.execS [] i cb _ c2 (Or.inr (callsS_nd keep i hcn)) hi (fun k => by simp)) tb
                simp only [ih.execS _ _ _ _ hi hcn tb]
                exact ih.execLp _ _ _ _ _ _ h hcc (by simpa [callsO] using hcn) hcb t2
              · rename_i k c2 hi
                simp only [ih.execS _ _ _ _ hi hcn tb]
                cl_tail
              · simp at h
          case cont =>
            have tb := tok_same (fo.execSs [] body c0 _ cb (Or.inr (callsSs_nd keep body hcb)) hb (fun k => by simp)) t0
            cases incr with
            | none => simp only at h ⊢; exact ih.execLp _ _ _ _ _ _ h hcc hcn hcb tb
            | some i =>
              simp only at h ⊢
              simp only [callsO] at hcn
              split at h
              · rename_i c2 hi
                have t2 := tok_same (fo.execS [] i cb _ c2 (Or.inr (callsS_nd keep i hcn)) hi (fun k => by simp)) tb
                simp only [ih.execS _ _ _ _ hi hcn tb]
                exact ih.execLp _ _ _ _ _ _ h hcc (by simpa [callsO] using hcn) hcb t2
              · rename_i k c2 hi
                simp only [ih.execS _ _ _ _ hi hcn tb]
                cl_tail
              · simp at h
      · rename_i hv
        try simp only [hv]
        cl_tail
      · simp at h
    · rename_i k c0 hcnd
      simp only [ih.evalE _ _ _ hcnd hcc ht, clR]
      cl_tail
    · simp at h

theorem cleanOK (keep : List String) : ∀ f, CleanOK keep f
  | 0 => cleanOK_zero keep
  | f + 1 => cleanOK_succ (cleanOK keep f)

/-! ### the top level: definitions that are not kept are dropped -/

theorem cl_drop (keep : List String) (c : SCfg) (fd : FunDef) (h : keep.contains fd.name = false) :
    cl keep { c with funs := fd :: c.funs } = cl keep c := by
  simp only [cl]
  rw [List.filter_cons_of_neg (by show ¬ keep.contains fd.name = true; rw [h]; exact Bool.false_ne_true)]

theorem cl_keep (keep : List String) (c : SCfg) (fd : FunDef) (h : keep.contains fd.name = true) :
    cl keep { c with funs := fd :: c.funs } = { cl keep c with funs := fd :: (cl keep c).funs } := by
  simp only [cl]
  rw [List.filter_cons_of_pos (by show keep.contains fd.name = true; exact h)]

theorem execS_funcDef {f : Nat} {name : String} {pub : Bool} {rets : List ValueType} {params : List Var} {body : List Stmt} {c : SCfg}
    {o : SOut} {c' : SCfg} (h : Src.execS f (.funcDef name pub rets params body) c = some (o, c')) :
    c.inFn = false ∧ o = .normal ∧ c' = { c with funs := { name := name, params := params, rets := rets, body := body } :: c.funs } := by
  cases f with
  | zero => simp [Src.execS] at h
  | succ f =>
    simp only [Src.execS] at h
    split at h
    · simp at h
    · rename_i hin
      simp only [Option.some.injEq, Prod.mk.injEq] at h
      exact ⟨by simpa using hin, h.1.symm, h.2.symm⟩

theorem clean_top (keep : List String) : ∀ (p : List Stmt) (f : Nat) (c : SCfg) (o : SOut) (c' : SCfg),
    Src.execSs f p c = some (o, c') → callsTop keep p = true → TOK keep c.funs →
    Src.execSs f (cleanP keep p) (cl keep c) = some (o, cl keep c')
  | [], f, c, o, c', h, _, _ => by
    cases f with
    | zero => simp [Src.execSs] at h
    | succ f =>
      simp only [Src.execSs, Option.some.injEq, Prod.mk.injEq] at h
      obtain ⟨rfl, rfl⟩ := h
      simp [cleanP, Src.execSs]
  | st :: rest, f, c, o, c', h, hc, ht => by
    cases f with
    | zero => simp [Src.execSs] at h
    | succ f =>
      simp only [Src.execSs] at h
      cases hx : Src.execS f st c with
      | none => rw [hx] at h; simp at h
      | some p1 =>
        obtain ⟨o1, c1⟩ := p1
        rw [hx] at h
        -- a function definition?
        by_cases hdef : ∃ name pub rets params body, st = .funcDef name pub rets params body
        · obtain ⟨name, pub, rets, params, body, rfl⟩ := hdef
          obtain ⟨hin, rfl, rfl⟩ := execS_funcDef hx
          simp only [callsTop, Bool.and_eq_true, Bool.or_eq_true, Bool.not_eq_true'] at hc
          simp only at h
          cases hk : keep.contains name with
          | false =>
            -- dropped: the rest runs in the same cleaned configuration (one more unit of fuel does no harm)
            have hrest := clean_top keep rest f _ o c' h hc.2 (by
              intro fd hfd hkf
              simp only [List.mem_cons] at hfd
              rcases hfd with rfl | hfd
              · rw [hk] at hkf; cases hkf
              · exact ht fd hfd hkf)
            rw [cl_drop keep c _ hk] at hrest
            have : cleanP keep (Stmt.funcDef name pub rets params body :: rest) = cleanP keep rest := by
              simp only [cleanP]
              rw [List.filter_cons_of_neg (by show ¬ keep.contains name = true; rw [hk]; exact Bool.false_ne_true)]
            rw [this]
            exact (mono_all f).execSs _ _ _ hrest
          | true =>
            have hb : callsSs keep body = true := by
              rcases hc.1 with h0 | h0
              · rw [hk] at h0; cases h0
              · exact h0
            have hrest := clean_top keep rest f _ o c' h hc.2 (by
              intro fd hfd hkf
              simp only [List.mem_cons] at hfd
              rcases hfd with rfl | hfd
              · exact hb
              · exact ht fd hfd hkf)
            rw [cl_keep keep c _ hk] at hrest
            have : cleanP keep (Stmt.funcDef name pub rets params body :: rest) = Stmt.funcDef name pub rets params body :: cleanP keep rest := by
              simp only [cleanP]
              rw [List.filter_cons_of_pos (by show keep.contains name = true; exact hk)]
            rw [this]
            simp only [Src.execSs]
            have hx' : Src.execS f (.funcDef name pub rets params body) (cl keep c) =
                some (.normal, { cl keep c with funs := { name := name, params := params, rets := rets, body := body } :: (cl keep c).funs }) := by
              cases f with
              | zero => simp [Src.execS] at hx
              | succ g => simp only [Src.execS, cl_inFn, hin, Bool.false_eq_true, if_false]
            rw [hx']
            exact hrest
        · -- any other statement is kept
          have hcs : callsS keep st = true ∧ callsTop keep rest = true := by
            cases st <;> first | (exfalso; exact hdef ⟨_, _, _, _, _, rfl⟩) | (simpa [callsTop, Bool.and_eq_true] using hc)
          have hkeepst : cleanP keep (st :: rest) = st :: cleanP keep rest := by
            cases st <;> first | (exfalso; exact hdef ⟨_, _, _, _, _, rfl⟩) | simp [cleanP, List.filter_cons]
          rw [hkeepst]
          simp only [Src.execSs]
          rw [(cleanOK keep f).execS _ _ _ _ hx hcs.1 ht]
          cases o1 <;> simp only at h ⊢
          case normal =>
            have t1 := tok_same ((funsOK f).execS [] st c _ c1 (Or.inr (callsS_nd keep st hcs.1)) hx (fun k => by simp)) ht
            exact clean_top keep rest f c1 o c' h hcs.2 t1
          all_goals
            simp only [Option.some.injEq, Prod.mk.injEq] at h
            obtain ⟨rfl, rfl⟩ := h
            rfl

/-- **Removing definitions that nothing kept calls does not change the outcome of a program.** -/
theorem removal_safe (keep : List String) (p : Program) (h : callsTop keep p = true) (fuel : Nat) (r : Nat × List String)
    (hr : runProgram fuel p = some r) : runProgram fuel (cleanP keep p) = some r := by
  unfold runProgram at hr ⊢
  cases hx : Src.execSs fuel p SCfg.init with
  | none => rw [hx] at hr; simp at hr
  | some q =>
    obtain ⟨o, c'⟩ := q
    rw [hx] at hr
    have := clean_top keep p fuel SCfg.init o c' hx h (by intro fd hfd; simp [SCfg.init] at hfd)
    have e : cl keep SCfg.init = SCfg.init := by simp [cl, SCfg.init]
    rw [e] at this
    rw [this]
    cases o <;> simp only at hr ⊢ <;> first | exact hr | (simp at hr)

end Tsh.Sem2.Src
