/-
  Helper lemmas about Model/Lexer.lean (used by Props/C11, C12, C13).
-/
import TshVerif.Model.Lexer
namespace Tsh.Lexer
open Tsh Tsh.LexTables

/-- weak suffix: `s = pre ++ rest` -/
def Suffix (s rest : Bytes) : Prop := ∃ pre, s = pre ++ rest

/-- `rest` is a proper suffix of `s`: something non-empty was consumed. -/
def Consumes (s rest : Bytes) : Prop := ∃ pre, pre ≠ [] ∧ s = pre ++ rest

theorem Consumes.length_lt {s rest : Bytes} (h : Consumes s rest) : rest.length < s.length := by
  obtain ⟨pre, hne, rfl⟩ := h
  cases pre with
  | nil => exact absurd rfl hne
  | cons a t => simp; omega

theorem Consumes.suffix {s rest : Bytes} (h : Consumes s rest) : Suffix s rest := by
  obtain ⟨pre, _, rfl⟩ := h; exact ⟨pre, rfl⟩

theorem Suffix.refl (s : Bytes) : Suffix s s := ⟨[], by simp⟩
theorem Suffix.cons {s rest : Bytes} (b : UInt8) (h : Suffix s rest) : Suffix (b :: s) rest := by
  obtain ⟨pre, rfl⟩ := h; exact ⟨b :: pre, by simp⟩
theorem Suffix.trans {a b c : Bytes} (h1 : Suffix a b) (h2 : Suffix b c) : Suffix a c := by
  obtain ⟨p, rfl⟩ := h1; obtain ⟨q, rfl⟩ := h2; exact ⟨p ++ q, by simp⟩
theorem Suffix.drop (s : Bytes) (n : Nat) : Suffix s (s.drop n) := ⟨s.take n, by simp⟩
theorem Suffix.consumes_cons {s rest : Bytes} (b : UInt8) (h : Suffix s rest) : Consumes (b :: s) rest := by
  obtain ⟨pre, rfl⟩ := h; exact ⟨b :: pre, by simp, by simp⟩
theorem Suffix.length_le {s rest : Bytes} (h : Suffix s rest) : rest.length ≤ s.length := by
  obtain ⟨pre, rfl⟩ := h; simp

theorem dropWhile_suffix (p : UInt8 → Bool) (s : Bytes) : Suffix s (s.dropWhile p) :=
  ⟨s.takeWhile p, by simp [List.takeWhile_append_dropWhile]⟩

theorem stripPrefix_suffix {p s r : Bytes} (h : stripPrefix? p s = some r) : Suffix s r :=
  ⟨p, stripPrefix?_eq_some h⟩


theorem scanBlockBody_suffix : ∀ (s body rest : Bytes), scanBlockBody s = some (body, rest) → Suffix s rest := by
  intro s
  induction s using scanBlockBody.induct with
  | case1 rest => intro body r h; simp [scanBlockBody] at h; obtain ⟨_, rfl⟩ := h; exact ⟨[42, 47], by simp⟩
  | case2 b rest hne ih =>
    intro body r h
    rw [scanBlockBody] at h
    · cases hr : scanBlockBody rest with
      | none => simp [hr] at h
      | some pr =>
        obtain ⟨bd, rr⟩ := pr
        simp [hr] at h
        obtain ⟨_, rfl⟩ := h
        exact (ih bd rr hr).cons b
    · exact hne
  | case3 => intro body r h; simp [scanBlockBody] at h

theorem scanString_suffix (raw : Bool) : ∀ (fuel : Nat) (acc s v rest : Bytes),
    scanString raw fuel acc s = .ok v rest → Consumes s rest := by
  intro fuel
  induction fuel with
  | zero => intro acc s v rest h; simp [scanString] at h
  | succ n ih =>
    intro acc s v rest h
    cases s with
    | nil => simp [scanString] at h
    | cons c t =>
      simp only [scanString] at h
      split at h
      · split at h
        · rename_i v' k _
          exact ((Suffix.drop t (k - 1)).trans (ih _ _ _ _ h).suffix).consumes_cons c
        · simp at h
        · exact (ih _ _ _ _ h).suffix.consumes_cons c
      · split at h
        · simp at h; obtain ⟨_, rfl⟩ := h; exact (Suffix.refl t).consumes_cons c
        · exact (ih _ _ _ _ h).suffix.consumes_cons c


theorem stripPrefix_consumes {p s r : Bytes} (hp : p ≠ []) (h : stripPrefix? p s = some r) : Consumes s r :=
  ⟨p, hp, stripPrefix?_eq_some h⟩

theorem scanBool_consumes {s w rest : Bytes} (h : scanBool s = some (w, rest)) : Consumes s rest := by
  unfold scanBool at h
  simp only at h
  split at h
  · rename_i r hr
    simp at h; obtain ⟨_, rfl⟩ := h
    split at hr
    · rename_i rest' hs
      split at hr
      · split at hr
        · simp at hr
        · simp at hr; obtain ⟨_, rfl⟩ := hr; exact stripPrefix_consumes (by simp) hs
      · simp at hr; obtain ⟨_, rfl⟩ := hr; exact stripPrefix_consumes (by simp) hs
    · simp at hr
  · split at h
    · rename_i rest' hs
      split at h
      · split at h
        · simp at h
        · simp at h; obtain ⟨_, rfl⟩ := h; exact stripPrefix_consumes (by simp) hs
      · simp at h; obtain ⟨_, rfl⟩ := h; exact stripPrefix_consumes (by simp) hs
    · simp at h

theorem takeWhile_consumes (p : UInt8 → Bool) (s : Bytes) (h : (s.takeWhile p) ≠ []) : Consumes s (s.dropWhile p) :=
  ⟨s.takeWhile p, h, by simp [List.takeWhile_append_dropWhile]⟩

theorem scanNumber_consumes {s n rest : Bytes} (h : scanNumber s = some (n, rest)) : Consumes s rest := by
  unfold scanNumber spanDigits at h
  simp only at h
  split at h
  · simp at h
  · rename_i hne
    have hc : Consumes s (s.dropWhile isDigitB) := takeWhile_consumes _ _ (by simpa using hne)
    split at h
    · rename_i rest' heq
      split at h
      · simp at h; obtain ⟨_, rfl⟩ := h; exact hc
      · simp at h; obtain ⟨_, rfl⟩ := h
        obtain ⟨pre, hpre, hs⟩ := hc
        refine ⟨pre ++ 46 :: rest'.takeWhile isDigitB, by simp, ?_⟩
        rw [hs, heq]
        simp [List.takeWhile_append_dropWhile]
    · simp at h; obtain ⟨_, rfl⟩ := h; exact hc

theorem scanPunct_consumes (tbl : List (Bytes × Nat)) (hk : ∀ e ∈ tbl, e.1 ≠ []) :
    ∀ {s : Bytes} {ty : Nat} {v rest : Bytes}, scanPunct tbl s = some (ty, v, rest) → Consumes s rest := by
  induction tbl with
  | nil => intro s ty v rest h; simp [scanPunct] at h
  | cons e tbl ih =>
    intro s ty v rest h
    obtain ⟨k, t⟩ := e
    simp only [scanPunct] at h
    split at h
    · rename_i r hr
      simp at h; obtain ⟨_, _, rfl⟩ := h
      exact stripPrefix_consumes (hk (k, t) (by simp)) hr
    · exact ih (fun e he => hk e (by simp [he])) h

theorem punctB_nonempty : ∀ e ∈ punctB, e.1 ≠ [] := by decide


theorem step_consumes {last : Nat} {s : Bytes} {ty : Nat} {val rest : Bytes}
    (h : step last s = .tok ty val rest) : Consumes s rest := by
  unfold step at h
  split at h
  · simp at h
  · rename_i c0 s1
    split at h
    · -- string literal
      split at h
      · rename_i v r hs
        simp at h; obtain ⟨_, _, rfl⟩ := h
        exact (scanString_suffix _ _ _ _ _ _ hs).suffix.consumes_cons c0
      · simp at h
    · simp only at h
      split at h
      · -- block comment
        rename_i r hb
        split at hb
        · rename_i body heq
          simp at hb
          obtain ⟨bd, rr, hbb, rfl⟩ := hb
          simp at h; obtain ⟨_, _, rfl⟩ := h
          rw [heq]
          exact ((scanBlockBody_suffix _ _ _ hbb).cons 42).consumes_cons 47
        · simp at hb
      · split at h
        · -- line comment
          rename_i body heq
          simp [scanLine] at h; obtain ⟨_, _, rfl⟩ := h
          rw [heq]
          exact ((dropWhile_suffix _ body).cons 47).consumes_cons 47
        · split at h
          · rename_i w r hbool
            simp at h; obtain ⟨_, _, rfl⟩ := h
            exact scanBool_consumes hbool
          · split at h
            · -- number
              rename_i r hn
              split at hn
              · split at hn
                · simp at hn
                · cases hnn : scanNumber s1 with
                  | none => simp [hnn] at hn
                  | some pr =>
                    obtain ⟨n, rr⟩ := pr
                    simp [hnn] at hn
                    subst hn
                    simp at h; obtain ⟨_, _, rfl⟩ := h
                    exact (scanNumber_consumes hnn).suffix.consumes_cons c0
              · cases hnn : scanNumber (c0 :: s1) with
                | none => simp [hnn] at hn
                | some pr =>
                  obtain ⟨n, rr⟩ := pr
                  simp [hnn] at hn
                  subst hn
                  simp at h; obtain ⟨_, _, rfl⟩ := h
                  exact scanNumber_consumes hnn
            · split at h
              · -- identifier / keyword
                rename_i halpha
                simp [scanIdent] at h; obtain ⟨_, _, rfl⟩ := h
                apply takeWhile_consumes
                have : isIdentB c0 = true := by simp [isIdentB, halpha]
                simp [List.takeWhile, this]
              · split at h
                · rename_i ty' v r hp
                  simp at h; obtain ⟨_, _, rfl⟩ := h
                  exact scanPunct_consumes _ punctB_nonempty hp
                · simp at h

end Tsh.Lexer
