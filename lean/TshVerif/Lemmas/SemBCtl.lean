/-
  Control flow of the scalar fragment on the Batch target: statements as block trees (`Sem/CmdTree`), sequencing,
  if / else-if / else chains.  Shape first (the tree exists whatever the run does - the branches a run does not take
  are in the script all the same), then the simulation.
-/
import TshVerif.Lemmas.SemBStraight
import TshVerif.Lemmas.SemBShape
import TshVerif.Sem.CmdTree
namespace Tsh.SemB
open Tsh Tsh.Tr Tsh.Batch Tsh.Sem Tsh.C05S

/-! ### trees of simple lines -/

theorem flats_append (ctx : LCtx) (a b : List BCmd) : flats ctx (a ++ b) = flats ctx a ++ flats ctx b := by
  induction a with
  | nil => simp [flats]
  | cons x xs ih => simp [flats, ih]

theorem flats_simples (ctx : LCtx) (ls : List BLine) : flats ctx (ls.map BCmd.simple) = ls := by
  induction ls with
  | nil => simp [flats]
  | cons l ls ih => simp [flats, flat, ih]

theorem flats_simples_reverse (ctx : LCtx) (ls : List BLine) : flats ctx (ls.map BCmd.simple).reverse = ls.reverse := by
  rw [← List.map_reverse, flats_simples]

theorem wfBs_append : ∀ (a b : List BCmd), wfBs (a ++ b) = (wfBs a && wfBs b)
  | [], b => by simp [wfBs]
  | x :: a, b => by simp [wfBs, wfBs_append a b, Bool.and_assoc]

theorem wfBs_simples : ∀ (ls : List BLine), (∀ l ∈ ls, plainB l = true) → wfBs (ls.map BCmd.simple) = true
  | [], _ => by simp [wfBs]
  | l :: ls, h => by
    simp only [List.map_cons, wfBs, wfB, Bool.and_eq_true]
    exact ⟨h l (by simp), wfBs_simples ls (fun x hx => h x (by simp [hx]))⟩

theorem wfBs_simples_reverse (ls : List BLine) (h : ∀ l ∈ ls, plainB l = true) : wfBs (ls.reverse.map BCmd.simple) = true :=
  wfBs_simples ls.reverse (fun l hl => h l (List.mem_reverse.mp hl))

theorem wfBs_simples_reverse' (ls : List BLine) (h : ∀ l ∈ ls, plainB l = true) : wfBs (ls.map BCmd.simple).reverse = true := by
  rw [← List.map_reverse]; exact wfBs_simples_reverse ls h

theorem execBs_append {a b : List BCmd} {c c1 c' : Cfg} {o : Out}
    (ha : ExecBs a c .normal c1) (hb : ExecBs b c1 o c') : ExecBs (a ++ b) c o c' := by
  induction a generalizing c with
  | nil => cases ha; exact hb
  | cons x xs ih =>
    cases ha with
    | cons h1 h2 => exact ExecBs.cons h1 (ih h2)
    | stop _ hne => exact absurd rfl hne

theorem execBs_stop_append {a : List BCmd} (b : List BCmd) {c c' : Cfg} {o : Out}
    (ha : ExecBs a c o c') (hne : o ≠ .normal) : ExecBs (a ++ b) c o c' := by
  induction a generalizing c with
  | nil => cases ha; exact absurd rfl hne
  | cons x xs ih =>
    cases ha with
    | cons h1 h2 => exact ExecBs.cons h1 (ih h2)
    | stop h1 h2 => exact ExecBs.stop h1 h2

theorem execBs_single {x : BCmd} {c c' : Cfg} {o : Out} (h : ExecB x c o c') : ExecBs [x] c o c' := by
  by_cases ho : o = .normal
  · subst ho; exact ExecBs.cons h ExecBs.nil
  · exact ExecBs.stop h ho

/-- straight-line execution is execution of the tree of simple lines -/
theorem execBs_of_runLinesB : ∀ {ls : List BLine} {c c' : Cfg} {o : Out}, runLinesB ls c = some (o, c') →
    ExecBs (ls.map BCmd.simple) c o c'
  | [], c, c', o, h => by
    simp only [runLinesB, Option.some.injEq, Prod.mk.injEq] at h
    obtain ⟨rfl, rfl⟩ := h
    exact ExecBs.nil
  | l :: ls, c, c', o, h => by
    simp only [runLinesB] at h
    split at h
    · rename_i c1 hs
      exact ExecBs.cons (ExecB.simple hs) (execBs_of_runLinesB h)
    · rename_i r hne
      cases hs : stepB l c with
      | none => rw [hs] at h; simp at h
      | some q =>
        obtain ⟨o1, c1⟩ := q
        rw [hs] at h
        simp only [Option.some.injEq, Prod.mk.injEq] at h
        obtain ⟨rfl, rfl⟩ := h
        refine ExecBs.stop (ExecB.simple hs) ?_
        intro e; subst e
        exact hne _ hs

theorem execBs_of_runN {ls : List BLine} {c c1 : Cfg} (h : runN ls c = some c1) : ExecBs (ls.map BCmd.simple) c .normal c1 :=
  execBs_of_runLinesB (runLinesB_all_normal h)

/-! ### the shape of the claim for statements -/

/-- `s'` is `s` with new global lines and `n` more helper variables; the label and loop stacks are as before, the two
    label counters did not go down -/
structure AdvT (s s' : St) (new : List BLine) (n : Nat) : Prop where
  code : s'.globalCode = new ++ s.globalCode
  cnt : s'.varCounter = s.varCounter + n
  funcs : s'.funcs = s.funcs
  fcode : s'.functionsCode = s.functionsCode
  fors : s'.fors = s.fors
  ends : s'.endLabels = s.endLabels
  ifs : s'.ifs = s.ifs
  fcnt : s.forCounter ≤ s'.forCounter
  icnt : s.ifCounter ≤ s'.ifCounter
  env : EnvExt s s'

theorem Adv.toT {s s' : St} {new : List BLine} {n : Nat} (h : Adv s s' new n) : AdvT s s' new n :=
  ⟨h.code, h.cnt, h.funcs, h.fcode, h.fors, h.ends, h.ifs, by rw [h.fcnt]; exact Nat.le_refl _, by rw [h.icnt]; exact Nat.le_refl _, h.env⟩

theorem AdvT.refl (s : St) : AdvT s s [] 0 := (Adv.refl s).toT

theorem AdvT.trans {s s1 s2 : St} {a b : List BLine} {m n : Nat} (h1 : AdvT s s1 a m) (h2 : AdvT s1 s2 b n) :
    AdvT s s2 (b ++ a) (m + n) :=
  ⟨by rw [h2.code, h1.code, List.append_assoc], by rw [h2.cnt, h1.cnt, Nat.add_assoc], by rw [h2.funcs, h1.funcs],
   by rw [h2.fcode, h1.fcode], by rw [h2.fors, h1.fors], by rw [h2.ends, h1.ends], by rw [h2.ifs, h1.ifs],
   Nat.le_trans h1.fcnt h2.fcnt, Nat.le_trans h1.icnt h2.icnt, h1.env.trans h2.env⟩

theorem AdvT.funcs_nil {s s' : St} {a : List BLine} {n : Nat} (h : AdvT s s' a n) (h0 : s.funcs = []) : s'.funcs = [] := by
  rw [h.funcs]; exact h0

/-- not an `exit` -/
def NotExit (o : Out) : Prop := ∀ k, o ≠ .exit k

/-- loop flags below `k` keep their values, and so does the exit code variable -/
def KeepsBelow (k : Nat) (ρ ρ' : Store) : Prop := ρ' "_e" = ρ "_e" ∧ ∀ j, j < k → ρ' (flagName j) = ρ (flagName j)

theorem Keeps.below {ρ ρ' : Store} (h : Keeps ρ ρ') (k : Nat) : KeepsBelow k ρ ρ' := ⟨h.1, fun j _ => h.2 j⟩
theorem KeepsBelow.refl (k : Nat) (ρ : Store) : KeepsBelow k ρ ρ := ⟨rfl, fun _ _ => rfl⟩
theorem KeepsBelow.trans {k k' : Nat} {ρ ρ1 ρ2 : Store} (h1 : KeepsBelow k ρ ρ1) (h2 : KeepsBelow k' ρ1 ρ2) (hk : k ≤ k') :
    KeepsBelow k ρ ρ2 := ⟨by rw [h2.1, h1.1], fun j hj => by rw [h2.2 j (by omega), h1.2 j hj]⟩
theorem KeepsBelow.mono {k k' : Nat} {ρ ρ' : Store} (h : KeepsBelow k' ρ ρ') (hk : k ≤ k') : KeepsBelow k ρ ρ' :=
  ⟨h.1, fun j hj => h.2 j (by omega)⟩

/-- the commands `cmds` do what the source-level execution `src` does -/
def SimT (src : Nat → Src.SCfg → Option (Out × Src.SCfg)) (cmds : List BCmd) (k : Nat) : Prop :=
  ∀ fuel c o c', src fuel c = some (o, c') → ∀ ρ, Agree c.env ρ →
    ∃ ρ', ExecBs cmds ⟨ρ, c.out⟩ o ⟨ρ', c'.out⟩ ∧ (NotExit o → Agree c'.env ρ' ∧ KeepsBelow k ρ ρ')

/-- what translating a statement (or a block) from converter state `s` to `s'` achieved -/
def StmtSemT (ctx : LCtx) (src : Nat → Src.SCfg → Option (Out × Src.SCfg)) (s s' : St) : Prop :=
  ∃ cmds n, AdvT s s' (flats ctx cmds).reverse n ∧ wfBs cmds = true ∧ SimT src cmds s.forCounter

theorem StmtSemT.adv {ctx src} {s s' : St} (h : StmtSemT ctx src s s') : ∃ new n, AdvT s s' new n := by
  obtain ⟨cmds, n, ad, _⟩ := h; exact ⟨_, n, ad⟩

/-- sequencing -/
theorem stmtSemT_seq {ctx : LCtx} {src1 src2 src : Nat → Src.SCfg → Option (Out × Src.SCfg)} {s s1 s2 : St}
    (h1 : StmtSemT ctx src1 s s1) (h2 : StmtSemT ctx src2 s1 s2)
    (hsrc : ∀ fuel c o c', src fuel c = some (o, c') →
      (∃ f1, src1 f1 c = some (o, c') ∧ o ≠ .normal) ∨
      (∃ f1 f2 c1, src1 f1 c = some (.normal, c1) ∧ src2 f2 c1 = some (o, c'))) :
    StmtSemT ctx src s s2 := by
  obtain ⟨cs1, n1, ad1, wf1, sim1⟩ := h1
  obtain ⟨cs2, n2, ad2, wf2, sim2⟩ := h2
  refine ⟨cs1 ++ cs2, n1 + n2, ?_, by rw [wfBs_append, wf1, wf2]; rfl, ?_⟩
  · rw [flats_append, List.reverse_append]; exact ad1.trans ad2
  · intro fuel c o c' hs ρ ha
    rcases hsrc fuel c o c' hs with ⟨f1, hs1, hne⟩ | ⟨f1, f2, c1, hs1, hs2⟩
    · obtain ⟨ρ', ex, post⟩ := sim1 f1 c o c' hs1 ρ ha
      exact ⟨ρ', execBs_stop_append cs2 ex hne, post⟩
    · obtain ⟨ρ1, ex1, post1⟩ := sim1 f1 c _ c1 hs1 ρ ha
      obtain ⟨ag1, k1⟩ := post1 (fun k => by simp)
      obtain ⟨ρ', ex2, post2⟩ := sim2 f2 c1 o c' hs2 ρ1 ag1
      exact ⟨ρ', execBs_append ex1 ex2, fun hn => ⟨(post2 hn).1, k1.trans (post2 hn).2 ad1.fcnt⟩⟩

theorem stmtSemT_nil (ctx : LCtx) (s : St) : StmtSemT ctx (fun f c => Src32.execStmts f [] c) s s := by
  refine ⟨[], 0, AdvT.refl s, rfl, ?_⟩
  intro fuel c o c' hs ρ ha
  cases fuel with
  | zero => simp [Src32.execStmts] at hs
  | succ f =>
    simp only [Src32.execStmts, Option.some.injEq, Prod.mk.injEq] at hs
    obtain ⟨rfl, rfl⟩ := hs
    exact ⟨ρ, ExecBs.nil, fun _ => ⟨ha, KeepsBelow.refl _ _⟩⟩

theorem execStmts32_cons_cases {fuel : Nat} {st : Stmt} {rest : List Stmt} {c c' : Src.SCfg} {o : Out}
    (h : Src32.execStmts fuel (st :: rest) c = some (o, c')) :
    (∃ f1, Src32.execStmt f1 st c = some (o, c') ∧ o ≠ .normal) ∨
    (∃ f1 f2 c1, Src32.execStmt f1 st c = some (.normal, c1) ∧ Src32.execStmts f2 rest c1 = some (o, c')) := by
  cases fuel with
  | zero => simp [Src32.execStmts] at h
  | succ f =>
    simp only [Src32.execStmts] at h
    split at h
    · rename_i c1 h1
      exact Or.inr ⟨f, f, c1, h1, h⟩
    · rename_i r hr
      cases hx : Src32.execStmt f st c with
      | none => rw [hx] at h; simp at h
      | some p =>
        obtain ⟨o1, c1⟩ := p
        rw [hx] at h
        simp only [Option.some.injEq, Prod.mk.injEq] at h
        obtain ⟨rfl, rfl⟩ := h
        refine Or.inl ⟨f, hx, ?_⟩
        intro e; subst e
        exact hr c1 hx

/-! ### straight statements as trees -/

/-- a statement whose translation is a line sequence with a known run-first meaning is a tree of simple lines -/
theorem stmtSemT_of_lines {ctx : LCtx} {src : Nat → Src.SCfg → Option (Out × Src.SCfg)} {s s' : St} {new : List BLine} {n : Nat}
    (ad : Adv s s' new n)
    (sem : ∀ fuel c o c', src fuel c = some (o, c') → ∃ new' n', Adv s s' new' n' ∧
      ∀ ρ, Agree c.env ρ → ∃ ρ', runLinesB new'.reverse ⟨ρ, c.out⟩ = some (o, ⟨ρ', c'.out⟩) ∧
        (o = .normal → Agree c'.env ρ' ∧ Keeps ρ ρ'))
    (hout : ∀ fuel c o c', src fuel c = some (o, c') → o = .normal ∨ ∃ k, o = .exit k) :
    StmtSemT ctx src s s' := by
  refine ⟨new.reverse.map BCmd.simple, n, by rw [flats_simples, List.reverse_reverse]; exact ad.toT, wfBs_simples_reverse new ad.plain, ?_⟩
  intro fuel c o c' hs ρ ha
  obtain ⟨new', n', ad', run⟩ := sem fuel c o c' hs
  obtain ⟨rfl, rfl⟩ := ad.unique ad'
  obtain ⟨ρ', hr, post⟩ := run ρ ha
  refine ⟨ρ', execBs_of_runLinesB hr, fun hn => ?_⟩
  rcases hout fuel c o c' hs with rfl | ⟨k, rfl⟩
  · exact ⟨(post rfl).1, (post rfl).2.below _⟩
  · exact absurd rfl (hn k)

end Tsh.SemB

namespace Tsh.SemB
open Tsh Tsh.Tr Tsh.Batch Tsh.Sem Tsh.C05S

/-! ### shapes of the straight statements -/

theorem evalAll_shapeB : ∀ (es : List Expr) (s : St) (vals : List String) (s' : St), (es.all Src.fragExpr) = true → s.funcs = [] →
    evalAll conv es s = .ok (vals, s') → ∃ new n, Adv s s' new n
  | [], s, vals, s', _, _, h => by
    unfold evalAll at h
    obtain ⟨_, es⟩ := pureB_ok h
    exact ⟨[], 0, by rw [es]; exact Adv.refl s⟩
  | e :: rest, s, vals, s', hf, h0, h => by
    unfold evalAll at h
    simp only [List.all_cons, Bool.and_eq_true] at hf
    obtain ⟨r, s1, h1, h⟩ := bindB_ok h
    obtain ⟨rs, s2, h2, h⟩ := bindB_ok h
    obtain ⟨_, es⟩ := pureB_ok h
    obtain ⟨t, new1, n1, _, ad1⟩ := exprB_shape e true s r s1 hf.1 h0 h1
    obtain ⟨new2, n2, ad2⟩ := evalAll_shapeB rest s1 rs s2 hf.2 (ad1.funcs_nil h0) h2
    exact ⟨new2 ++ new1, n1 + n2, by rw [es]; exact ad1.trans ad2⟩

theorem assignedValues_shapeB (count : Nat) (hc : count > 1) : ∀ (vals : List Expr) (i : Nat) (s : St) (ts : List String) (s' : St),
    (vals.all Src.fragExpr) = true → s.funcs = [] → assignedValues conv count vals vals.length i s = .ok (ts, s') →
    ts = tmpTextsB i vals.length ∧ ∃ new n, Adv s s' new n
  | [], i, s, ts, s', _, _, h => by
    simp only [List.length_nil] at h
    unfold assignedValues at h
    obtain ⟨ev, es⟩ := pureB_ok h
    exact ⟨ev, [], 0, by rw [es]; exact Adv.refl s⟩
  | e :: rest, i, s, ts, s', hf, h0, h => by
    simp only [List.length_cons] at h
    unfold assignedValues at h
    simp only [List.all_cons, Bool.and_eq_true] at hf
    obtain ⟨r, s1, h1, g1⟩ := bindB_ok h
    simp only [hc, if_true] at g1
    obtain ⟨v, s2, hv, g2⟩ := bindB_ok g1
    obtain ⟨vs', s3, hvs, g3⟩ := bindB_ok g2
    obtain ⟨ev, es⟩ := pureB_ok g3
    obtain ⟨t, new1, n1, er, ad1⟩ := exprB_shape e true s r s1 hf.1 h0 h1
    subst er
    have h01 : s1.funcs = [] := ad1.funcs_nil h0
    have hv' : (do varAssignment (tmpName i) t false; varEvaluation (tmpName i) false : BM String) s1 = .ok (v, s2) := hv
    obtain ⟨_, s1', ha1, ha2⟩ := bindB_ok hv'
    have ad2 := varAssignment_top h01 ha1
    have h02 : s1'.funcs = [] := ad2.funcs_nil h01
    simp only [varEvaluation, bind, Tr.get, pure, varEvalString, varName_topB _ h02] at ha2
    injection ha2 with ha2
    injection ha2 with ev2 es2
    subst es2
    obtain ⟨ets, new3, n3, ad3⟩ := assignedValues_shapeB count hc rest (i + 1) s1' vs' s3 hf.2 h02 hvs
    refine ⟨?_, new3 ++ ([BLine.set (tmpName i) t] ++ new1), n1 + 0 + n3, by rw [es]; exact (ad1.trans ad2).trans ad3⟩
    rw [ev, ets, ← ev2]; simp [tmpTextsB, tmpTextB]

theorem assign_shapeB {vars : List Var} {vals : List Expr} (hlen : vars.length = vals.length) (hne : vars ≠ [])
    (hg : (vars.all (fun x => goodName x.name)) = true) (hf : (vals.all Src.fragExpr) = true) {s s' : St} (h0 : s.funcs = [])
    (h : assignValues conv vars vals s = .ok ((), s')) : ∃ new n, Adv s s' new n := by
  by_cases hc : vars.length > 1
  · unfold assignValues at h
    obtain ⟨values, s1, h1, h2⟩ := bindB_ok h
    rw [hlen] at h1
    obtain ⟨ets, new1, n1, ad1⟩ := assignedValues_shapeB vals.length (by omega) vals 0 s values s1 hf h0 h1
    rw [ets, ← hlen] at h2
    obtain ⟨new2, ad2, _⟩ := storeValuesB_sem vars 0 s1 s' hg (ad1.funcs_nil h0) h2
    exact ⟨new2 ++ new1, n1 + 0, ad1.trans ad2⟩
  · match vars, vals, hlen, hne, hc with
    | [x], [e], _, _, _ =>
      obtain ⟨r, s1, hr, hst⟩ := assign1B_ok h
      obtain ⟨t, new, n, _, ad⟩ := exprB_shape e true s r s1 (by simpa using hf) h0 hr
      exact ⟨_, _, ad.trans (varAssignment_top (ad.funcs_nil h0) hst)⟩
    | [], _, _, hne, _ => exact absurd rfl hne
    | _ :: _ :: _, _, _, _, hc => simp at hc
    | [_], [], hlen, _, _ => simp at hlen
    | [_], _ :: _ :: _, hlen, _, _ => simp at hlen

theorem print_shapeB {es : List Expr} (hf : (es.all Src.fragExpr) = true) {s s' : St} (h0 : s.funcs = [])
    (h : (do let vs ← evalAll conv es; conv.print vs : BM Unit) s = .ok ((), s')) : ∃ new n, Adv s s' new n := by
  obtain ⟨vals, s1, h1, h2⟩ := bindB_ok h
  obtain ⟨new, n, ad⟩ := evalAll_shapeB es s vals s1 hf h0 h1
  have h2' : callEcho vals s1 = .ok ((), s') := h2
  exact ⟨_, _, ad.trans (callEcho_top (ad.funcs_nil h0) h2')⟩

theorem panic_shapeB {e : Expr} (hf : Src.fragExpr e = true) {s s' : St} (h0 : s.funcs = [])
    (h : (do let r ← Tr.evalExpr conv e true; conv.panic s!"panic: {firstValue r}" : BM Unit) s = .ok ((), s')) :
    ∃ new n, Adv s s' new n := by
  obtain ⟨r, s1, h1, h2⟩ := bindB_ok h
  obtain ⟨t, new, n, _, ad⟩ := exprB_shape e true s r s1 hf h0 h1
  have h2' : panicOp ("panic: " ++ firstValue r) s1 = .ok ((), s') := h2
  exact ⟨_, _, ad.trans (panicOp_top (ad.funcs_nil h0) h2')⟩

/-! ### straight statements as trees -/

theorem straight_of_frag_def {vars : List Var} {vals : List Expr} (hf : Src.fragStmt (.varDef vars vals) = true) :
    vars.length = vals.length ∧ vars ≠ [] ∧ (vars.all (fun x => goodName x.name)) = true ∧ (vals.all Src.fragExpr) = true := by
  simp only [Src.fragStmt, Bool.and_eq_true, beq_iff_eq, Bool.not_eq_true', List.isEmpty_eq_false_iff] at hf
  exact ⟨hf.1.1.1, hf.1.1.2, hf.1.2, hf.2⟩

theorem straight_of_frag_assign {vars : List Var} {vals : List Expr} (hf : Src.fragStmt (.assign vars vals) = true) :
    vars.length = vals.length ∧ vars ≠ [] ∧ (vars.all (fun x => goodName x.name)) = true ∧ (vals.all Src.fragExpr) = true := by
  simp only [Src.fragStmt, Bool.and_eq_true, beq_iff_eq, Bool.not_eq_true', List.isEmpty_eq_false_iff] at hf
  exact ⟨hf.1.1.1, hf.1.1.2, hf.1.2, hf.2⟩

theorem straightT_sem (ctx : LCtx) (st : Stmt) (hs : straightStmt st = true) (s s' : St) (h0 : s.funcs = [])
    (h : evalStmt conv st s = .ok ((), s')) (ad : ∃ new n, Adv s s' new n) :
    StmtSemT ctx (fun f c => Src32.execStmt f st c) s s' := by
  obtain ⟨new, n, ad⟩ := ad
  refine stmtSemT_of_lines ad ?_ ?_
  · intro fuel c o c' hr
    cases fuel with
    | zero => simp [Src32.execStmt] at hr
    | succ f => exact stmtSemB_of_straight st hs s s' h0 h f c o c' hr
  · intro fuel c o c' hr
    exact Or.inl (straightStmt_normal st hs fuel c o c' hr)

theorem panicT_sem (ctx : LCtx) (e : Expr) (s s' : St) (h0 : s.funcs = [])
    (h : evalStmt conv (.panic e) s = .ok ((), s')) (ad : ∃ new n, Adv s s' new n) :
    StmtSemT ctx (fun f c => Src32.execStmt f (.panic e) c) s s' := by
  obtain ⟨new, n, ad⟩ := ad
  refine stmtSemT_of_lines ad ?_ ?_
  · intro fuel c o c' hr
    cases fuel with
    | zero => simp [Src32.execStmt] at hr
    | succ f => exact stmtSemB_panic e s s' h0 h f c o c' hr
  · intro fuel c o c' hr
    cases fuel with
    | zero => simp [Src32.execStmt] at hr
    | succ f =>
      simp only [Src32.execStmt] at hr
      split at hr
      · split at hr
        · simp only [Option.some.injEq, Prod.mk.injEq] at hr; exact Or.inr ⟨1, hr.1.symm⟩
        · simp at hr
      · simp at hr

end Tsh.SemB

namespace Tsh.SemB
open Tsh Tsh.Tr Tsh.Batch Tsh.Sem Tsh.C05S

/-! ### conditions of the else-if branches -/

theorem condsB_sem : ∀ (elifs : List (Expr × List Stmt)) (s : St) (ecs : List String) (s' : St),
    (elifs.all (fun p => Src.fragExpr p.1)) = true → s.funcs = [] →
    evalConds conv elifs s = .ok (ecs, s') → ∃ new n, Adv s s' new n ∧ ecs.length = elifs.length ∧
      ∀ env bs, Src32.evalConds env elifs = some bs → ∀ ρ out, Agree env ρ →
        ∃ ρ', runN new.reverse ⟨ρ, out⟩ = some ⟨ρ', out⟩ ∧
          FrameH s.varCounter (s.varCounter + n) ρ ρ' ∧ HoldsAllD ecs (bs.map boolStr) (s.varCounter + n) ρ'
  | [], s, ecs, s', _, _, h => by
    unfold evalConds at h
    obtain ⟨ev, es⟩ := pureB_ok h
    subst ev
    refine ⟨[], 0, by rw [es]; exact Adv.refl s, rfl, ?_⟩
    intro env bs hs ρ out _
    simp only [Src32.evalConds, Option.some.injEq] at hs
    subst hs
    exact ⟨ρ, rfl, FrameH.refl _ _ ρ, trivial⟩
  | (cnd, body) :: rest, s, ecs, s', hf, h0, h => by
    unfold evalConds at h
    simp only [List.all_cons, Bool.and_eq_true] at hf
    obtain ⟨r, s1, h1, h⟩ := bindB_ok h
    obtain ⟨rs, s2, h2, h⟩ := bindB_ok h
    obtain ⟨ev, es⟩ := pureB_ok h
    obtain ⟨t, new1, n1, er, ad1⟩ := exprB_shape cnd true s r s1 hf.1 h0 h1
    subst er
    have h01 : s1.funcs = [] := ad1.funcs_nil h0
    obtain ⟨new2, n2, ad2, hlen, sem2⟩ := condsB_sem rest s1 rs s2 hf.2 h01 h2
    refine ⟨new2 ++ new1, n1 + n2, by rw [es]; exact ad1.trans ad2, by subst ev; simp [hlen], ?_⟩
    intro env bs hs ρ out ha
    simp only [Src32.evalConds] at hs
    split at hs
    · rename_i b bs' hv hvs
      simp only [Option.some.injEq] at hs
      subst hs
      obtain ⟨ρ1, run1, fr1, hold1⟩ := exprB_at h0 h1 ad1 hv ρ out ha
      obtain ⟨ρ2, run2, fr2, hold2⟩ := sem2 env bs' hvs ρ1 out (fr1.agree ha)
      rw [ad1.cnt] at fr2 hold2
      have e3 : s.varCounter + (n1 + n2) = s.varCounter + n1 + n2 := by omega
      refine ⟨ρ2, ?_, ?_, ?_⟩
      · rw [List.reverse_append, runN_append, run1]
        simp only [Option.bind]
        exact run2
      · rw [e3]; exact fr1.trans fr2 (by omega) (by omega)
      · subst ev
        rw [e3]
        exact ⟨hold1.frame (by omega) fr2, hold2⟩
    · simp at hs

theorem guardB_of_holds {t : String} {b : Bool} {k : Nat} {ρ : Store} (h : HoldsD t (boolStr b) k ρ) : guardB ρ t = some b := by
  simp only [guardB, h.expand, Option.map]
  cases b <;> simp [boolStr]

/-- the else-if guards read as the condition values -/
def GuardValsB : List String → List Bool → Store → Prop
  | [], [], _ => True
  | t :: ts, b :: bs, ρ => guardB ρ t = some b ∧ GuardValsB ts bs ρ
  | _, _, _ => False

theorem guardValsB_of_holdsAll : ∀ {ts : List String} {bs : List Bool} {k : Nat} {ρ : Store},
    HoldsAllD ts (bs.map boolStr) k ρ → GuardValsB ts bs ρ
  | [], [], _, _, _ => trivial
  | _ :: _, _ :: _, _, _, h => ⟨guardB_of_holds h.1, guardValsB_of_holdsAll h.2⟩
  | [], _ :: _, _, _, h => h.elim
  | _ :: _, [], _, _, h => h.elim

/-- the else part, as `ExecElifsB` sees it at the end of the chain -/
def ElseSimT (els : List Stmt) (t : Option (List BCmd)) (k : Nat) : Prop :=
  ∀ fuel c o c', Src32.execStmts fuel els c = some (o, c') → ∀ ρ, Agree c.env ρ →
    ∃ ρ', ExecElifsB [] t ⟨ρ, c.out⟩ o ⟨ρ', c'.out⟩ ∧ (NotExit o → Agree c'.env ρ' ∧ KeepsBelow k ρ ρ')

/-! ### the operations of an if-chain, outside every function -/

/-- everything but the global code, the chain stack and the chain counter is as before -/
structure Rest (s s' : St) : Prop where
  cnt : s'.varCounter = s.varCounter
  funcs : s'.funcs = s.funcs
  fcode : s'.functionsCode = s.functionsCode
  fors : s'.fors = s.fors
  ends : s'.endLabels = s.endLabels
  fcnt : s'.forCounter = s.forCounter
  env : EnvExt s s'

def ifLabel (n : Nat) : String := s!"_i{n}"

theorem ifStartOp_ok {c : String} {s s' : St} {u : Unit} (h0 : s.funcs = []) (h : ifStartOp c s = .ok (u, s')) :
    s'.globalCode = .opn (ifStartLine c) :: s.globalCode ∧ s'.ifs = ifLabel s.ifCounter :: s.ifs ∧
      s'.ifCounter = s.ifCounter + 1 ∧ Rest s s' := by
  simp [ifStartOp, bind, Tr.modify, addLine, h0] at h
  rw [← h]
  exact ⟨rfl, rfl, rfl, ⟨rfl, h0.symm, rfl, rfl, rfl, rfl, EnvExt.of_eq rfl rfl rfl rfl rfl rfl rfl rfl rfl rfl⟩⟩

theorem elseIfStartOp_ok {c l : String} {r : List String} {s s' : St} {u : Unit} (h0 : s.funcs = []) (hi : s.ifs = l :: r)
    (h : elseIfStartOp c s = .ok (u, s')) :
    s'.globalCode = .elseIfOpen (ifStartLine c) :: .cgoto l :: s.globalCode ∧ s'.ifs = s.ifs ∧ s'.ifCounter = s.ifCounter ∧ Rest s s' := by
  simp [elseIfStartOp, currentIf, hi, bind, addLine, h0] at h
  rw [← h]
  exact ⟨rfl, by simp [hi], rfl, ⟨rfl, h0.symm, rfl, rfl, rfl, rfl, EnvExt.of_eq rfl rfl rfl rfl rfl rfl rfl rfl rfl rfl⟩⟩

theorem elseStartOp_ok {l : String} {r : List String} {s s' : St} {u : Unit} (h0 : s.funcs = []) (hi : s.ifs = l :: r)
    (h : elseStartOp s = .ok (u, s')) :
    s'.globalCode = .elseOpen :: .cgoto l :: s.globalCode ∧ s'.ifs = s.ifs ∧ s'.ifCounter = s.ifCounter ∧ Rest s s' := by
  simp [elseStartOp, currentIf, hi, bind, addLine, h0] at h
  rw [← h]
  exact ⟨rfl, by simp [hi], rfl, ⟨rfl, h0.symm, rfl, rfl, rfl, rfl, EnvExt.of_eq rfl rfl rfl rfl rfl rfl rfl rfl rfl rfl⟩⟩

theorem ifEndOp_ok {l : String} {r : List String} {s s' : St} {u : Unit} (h0 : s.funcs = []) (hi : s.ifs = l :: r)
    (h : ifEndOp s = .ok (u, s')) :
    s'.globalCode = .clabel l :: .close :: .cgoto l :: s.globalCode ∧ s'.ifs = r ∧ s'.ifCounter = s.ifCounter ∧ Rest s s' := by
  simp [ifEndOp, currentIf, hi, bind, addLine, h0, Tr.modify] at h
  rw [← h]
  exact ⟨rfl, by simp [hi], rfl, ⟨rfl, h0.symm, rfl, rfl, rfl, rfl, EnvExt.of_eq rfl rfl rfl rfl rfl rfl rfl rfl rfl rfl⟩⟩

theorem nop_ok {s s' : St} {u : Unit} (h0 : s.funcs = []) (h : addLine (.raw "rem No operation") s = .ok (u, s')) :
    Adv s s' [.raw "rem No operation"] 0 := by
  simp [addLine, h0] at h
  rw [← h]
  exact ⟨rfl, rfl, h0.symm, rfl, rfl, rfl, rfl, rfl, rfl, by simp [plainB], EnvExt.of_eq rfl rfl rfl rfl rfl rfl rfl rfl rfl rfl⟩

end Tsh.SemB

namespace Tsh.SemB
open Tsh Tsh.Tr Tsh.Batch Tsh.Sem Tsh.C05S

theorem fragElifs_conds32 : ∀ (elifs : List (Expr × List Stmt)), Src.fragElifs elifs = true →
    (elifs.all (fun p => Src.fragExpr p.1)) = true
  | [], _ => rfl
  | (c, b) :: rest, h => by
    simp only [Src.fragElifs, Bool.and_eq_true] at h
    simp [h.1.1, fragElifs_conds32 rest h.2]

theorem evalConds32_length : ∀ (l : List (Expr × List Stmt)) (env : Src.Env) (bs : List Bool), Src32.evalConds env l = some bs → bs.length = l.length
  | [], env, bs, h => by simp [Src32.evalConds] at h; subst h; rfl
  | (c1, b1) :: rest, env, bs, h => by
    simp only [Src32.evalConds] at h
    split at h
    · rename_i b' bs' _ hbs'
      simp only [Option.some.injEq] at h
      subst h
      simp [evalConds32_length rest env bs' hbs']
    · simp at h

theorem src32_elifs_nil {fuel : Nat} {bs : List Bool} {els : List Stmt} {c c' : Src.SCfg} {o : Out}
    (h : Src32.execElifs fuel [] bs els c = some (o, c')) : ∃ f, Src32.execStmts f els c = some (o, c') := by
  cases fuel with
  | zero => simp [Src32.execElifs] at h
  | succ f => simp only [Src32.execElifs] at h; exact ⟨f, h⟩

/-! ### the induction over the AST (no loops) -/

mutual
theorem stmtT_sem (ctx : LCtx) (st : Stmt) (hf : Src.fragStmt st = true) (hn : noLoopStmt st = true) :
    ∀ s s', s.funcs = [] → evalStmt conv st s = .ok ((), s') → StmtSemT ctx (fun f c => Src32.execStmt f st c) s s' := by
  match st with
  | .varDef vars vals =>
    intro s s' h0 h
    obtain ⟨hlen, hne, hg, hfe⟩ := straight_of_frag_def hf
    have hs : straightStmt (.varDef vars vals) = true := by simp [straightStmt, hlen, hne, hg]
    have h' := h
    unfold evalStmt at h'
    exact straightT_sem ctx _ hs s s' h0 h (assign_shapeB hlen hne hg hfe h0 h')
  | .assign vars vals =>
    intro s s' h0 h
    obtain ⟨hlen, hne, hg, hfe⟩ := straight_of_frag_assign hf
    have hs : straightStmt (.assign vars vals) = true := by simp [straightStmt, hlen, hne, hg]
    have h' := h
    unfold evalStmt at h'
    exact straightT_sem ctx _ hs s s' h0 h (assign_shapeB hlen hne hg hfe h0 h')
  | .print es =>
    intro s s' h0 h
    have h' := h
    unfold evalStmt at h'
    exact straightT_sem ctx _ rfl s s' h0 h (print_shapeB (by simpa [Src.fragStmt] using hf) h0 h')
  | .panic e =>
    intro s s' h0 h
    have h' := h
    unfold evalStmt at h'
    exact panicT_sem ctx e s s' h0 h (panic_shapeB (by simpa [Src.fragStmt] using hf) h0 h')
  | .ifS cond body elifs els =>
    intro s s' h0 h
    simp only [Src.fragStmt, Bool.and_eq_true] at hf
    obtain ⟨⟨⟨hfc, hfb⟩, hfe⟩, hfl⟩ := hf
    simp only [noLoopStmt, Bool.and_eq_true] at hn
    obtain ⟨⟨hnb, hne⟩, hnl⟩ := hn
    unfold evalStmt at h
    obtain ⟨c, s1, h1, h⟩ := bindB_ok h
    obtain ⟨ecs, s2, h2, h⟩ := bindB_ok h
    obtain ⟨_, s3, h3, h⟩ := bindB_ok h
    obtain ⟨_, s4, h4, h⟩ := bindB_ok h
    obtain ⟨_, s5, h5, h⟩ := bindB_ok h
    obtain ⟨_, s6, h6, h7⟩ := bindB_ok h
    obtain ⟨tc, newc, nc, er, ad1⟩ := exprB_shape cond true s c s1 hfc h0 h1
    subst er
    have h01 : s1.funcs = [] := ad1.funcs_nil h0
    obtain ⟨newe, ne, ad2, hlen, semc⟩ := condsB_sem elifs s1 ecs s2 (fragElifs_conds32 elifs hfe) h01 h2
    have h02 : s2.funcs = [] := ad2.funcs_nil h01
    have h3' : ifStartOp tc s2 = .ok ((), s3) := h3
    obtain ⟨c3, i3, k3, r3⟩ := ifStartOp_ok h02 h3'
    have h03 : s3.funcs = [] := by rw [r3.funcs]; exact h02
    have hb := blockT_sem ctx body hfb hnb s3 s4 h03 h4
    obtain ⟨bc, nb, adb, wfb, simb⟩ := hb
    have h04 : s4.funcs = [] := adb.funcs_nil h03
    have i4 : s4.ifs = ifLabel s2.ifCounter :: s2.ifs := by rw [adb.ifs, i3]
    have he := elifsT_sem ctx elifs hfe hne ecs s4 s5 _ _ h04 i4 hlen h5
    obtain ⟨tree, nt, adt, wft, simt⟩ := he
    have h05 : s5.funcs = [] := adt.funcs_nil h04
    have i5 : s5.ifs = ifLabel s2.ifCounter :: s2.ifs := by rw [adt.ifs, i4]
    have hl := elseT_sem ctx els hfl hnl s5 s6 _ _ h05 i5 h6
    obtain ⟨et, nl, adl, wfl, siml⟩ := hl
    have h06 : s6.funcs = [] := adl.funcs_nil h05
    have i6 : s6.ifs = ifLabel s2.ifCounter :: s2.ifs := by rw [adl.ifs, i5]
    have h7' : ifEndOp s6 = .ok ((), s') := h7
    obtain ⟨c7, i7, k7, r7⟩ := ifEndOp_ok h06 i6 h7'
    -- forCounter bookkeeping
    have f1 : s1.forCounter = s.forCounter := ad1.fcnt
    have f2 : s2.forCounter = s.forCounter := by rw [ad2.fcnt, f1]
    have f3 : s3.forCounter = s.forCounter := by rw [r3.fcnt, f2]
    refine ⟨(newc.reverse ++ newe.reverse).map BCmd.simple ++ [BCmd.chain (ifLabel s2.ifCounter) tc bc tree et],
      nc + ne + nb + nt + nl, ?_, ?_, ?_⟩
    · refine ⟨?_, ?_, ?_, ?_, ?_, ?_, ?_, ?_, ?_,
        ad1.env.trans (ad2.env.trans (r3.env.trans (adb.env.trans (adt.env.trans (adl.env.trans r7.env)))))⟩
      · rw [c7, adl.code, adt.code, adb.code, c3, ad2.code, ad1.code]
        simp [flats_append, flats_simples, flats_simples_reverse, flats, flat, List.reverse_append]
      · rw [r7.cnt, adl.cnt, adt.cnt, adb.cnt, r3.cnt, ad2.cnt, ad1.cnt]; omega
      · rw [r7.funcs, adl.funcs, adt.funcs, adb.funcs, r3.funcs, ad2.funcs, ad1.funcs]
      · rw [r7.fcode, adl.fcode, adt.fcode, adb.fcode, r3.fcode, ad2.fcode, ad1.fcode]
      · rw [r7.fors, adl.fors, adt.fors, adb.fors, r3.fors, ad2.fors, ad1.fors]
      · rw [r7.ends, adl.ends, adt.ends, adb.ends, r3.ends, ad2.ends, ad1.ends]
      · rw [i7, ad2.ifs, ad1.ifs]
      · rw [r7.fcnt]
        have := adl.fcnt; have := adt.fcnt; have := adb.fcnt
        omega
      · rw [k7]
        have := adl.icnt; have := adt.icnt; have := adb.icnt
        have e1 := ad1.icnt; have e2 := ad2.icnt
        omega
    · rw [wfBs_append, ← List.reverse_append, wfBs_simples_reverse _ (fun l hl => by
        rcases List.mem_append.mp hl with h | h
        · exact ad2.plain l h
        · exact ad1.plain l h)]
      simp [wfBs, wfB, wfb, wft, wfl]
    · intro fuel c0 o c' hs ρ ha
      cases fuel with
      | zero => simp [Src32.execStmt] at hs
      | succ f =>
        simp only [Src32.execStmt] at hs
        split at hs
        · rename_i b bs hv hbs
          obtain ⟨ρ1, run1, fr1, hold1⟩ := exprB_at h0 h1 ad1 hv ρ c0.out ha
          obtain ⟨ρ2, run2, fr2, hold2⟩ := semc c0.env bs hbs ρ1 c0.out (fr1.agree ha)
          rw [ad1.cnt] at fr2 hold2
          have ha2 := fr2.agree (fr1.agree ha)
          have hg : guardB ρ2 tc = some b := guardB_of_holds (hold1.frame (Nat.le_add_right _ _) fr2)
          have pre : runN (newc.reverse ++ newe.reverse) ⟨ρ, c0.out⟩ = some ⟨ρ2, c0.out⟩ := by
            rw [runN_append, run1]; exact run2
          have kpre : KeepsBelow s.forCounter ρ ρ2 := ((keeps_of_frameH fr1).trans (keeps_of_frameH fr2)).below _
          cases b with
          | true =>
            simp only [if_true] at hs
            obtain ⟨ρ3, ex3, post3⟩ := simb f c0 o c' hs ρ2 ha2
            refine ⟨ρ3, execBs_append (execBs_of_runN pre) (execBs_single (ExecB.chainTrue hg ex3)), fun hno => ?_⟩
            refine ⟨(post3 hno).1, kpre.trans (post3 hno).2 (by rw [f3]; exact Nat.le_refl _)⟩
          | false =>
            simp only [Bool.false_eq_true, if_false] at hs
            have hbl : bs.length = elifs.length := evalConds32_length elifs c0.env bs hbs
            obtain ⟨ρ3, ex3, post3⟩ := simt els et s5.forCounter (Nat.le_refl _) siml f bs c0 o c' hs hbl ρ2 ha2
              (guardValsB_of_holdsAll hold2)
            refine ⟨ρ3, execBs_append (execBs_of_runN pre) (execBs_single (ExecB.chainFalse hg ex3)), fun hno => ?_⟩
            have h4f := adb.fcnt
            refine ⟨(post3 hno).1, kpre.trans (post3 hno).2 (by omega)⟩
        · simp at hs
  | .forS _ _ _ _ => simp [noLoopStmt] at hn
  | .brk => simp [noLoopStmt] at hn
  | .cont => simp [noLoopStmt] at hn
  | .varDefCall _ _ => simp [Src.fragStmt] at hf
  | .assignCall _ _ => simp [Src.fragStmt] at hf
  | .sliceAssign _ _ _ => simp [Src.fragStmt] at hf
  | .funcDef _ _ _ _ _ => simp [Src.fragStmt] at hf
  | .ret _ => simp [Src.fragStmt] at hf
  | .expr _ => simp [Src.fragStmt] at hf

theorem blockT_sem (ctx : LCtx) (body : List Stmt) (hf : Src.fragStmts body = true) (hn : noLoopStmts body = true) :
    ∀ s s', s.funcs = [] → evalBlock conv body s = .ok ((), s') → StmtSemT ctx (fun f c => Src32.execStmts f body c) s s' := by
  match body with
  | [] =>
    intro s s' h0 h
    unfold evalBlock at h
    have h' : addLine (.raw "rem No operation") s = .ok ((), s') := h
    have ad := nop_ok h0 h'
    refine ⟨[BCmd.simple (.raw "rem No operation")], 0, by simpa [flats, flat] using ad.toT, by simp [wfBs, wfB, plainB], ?_⟩
    intro fuel c o c' hs ρ ha
    cases fuel with
    | zero => simp [Src32.execStmts] at hs
    | succ f =>
      simp only [Src32.execStmts, Option.some.injEq, Prod.mk.injEq] at hs
      obtain ⟨rfl, rfl⟩ := hs
      exact ⟨ρ, execBs_single (ExecB.simple (by simp [stepB])), fun _ => ⟨ha, KeepsBelow.refl _ _⟩⟩
  | st :: rest =>
    intro s s' h0 h
    unfold evalBlock at h
    simp only [Src.fragStmts, Bool.and_eq_true] at hf
    simp only [noLoopStmts, Bool.and_eq_true] at hn
    obtain ⟨_, s1, h1, h2⟩ := bindB_ok h
    have hs1 := stmtT_sem ctx st hf.1 hn.1 s s1 h0 h1
    obtain ⟨_, _, ad1⟩ := hs1.adv
    have hs2 := stmtsT_sem ctx rest hf.2 hn.2 s1 s' (ad1.funcs_nil h0) h2
    exact stmtSemT_seq hs1 hs2 (fun _ _ _ _ h => execStmts32_cons_cases h)

theorem stmtsT_sem (ctx : LCtx) (body : List Stmt) (hf : Src.fragStmts body = true) (hn : noLoopStmts body = true) :
    ∀ s s', s.funcs = [] → evalStmts conv body s = .ok ((), s') → StmtSemT ctx (fun f c => Src32.execStmts f body c) s s' := by
  match body with
  | [] =>
    intro s s' h0 h
    unfold evalStmts at h
    obtain ⟨_, es⟩ := pureB_ok h
    rw [es]
    exact stmtSemT_nil ctx s
  | st :: rest =>
    intro s s' h0 h
    unfold evalStmts at h
    simp only [Src.fragStmts, Bool.and_eq_true] at hf
    simp only [noLoopStmts, Bool.and_eq_true] at hn
    obtain ⟨_, s1, h1, h2⟩ := bindB_ok h
    have hs1 := stmtT_sem ctx st hf.1 hn.1 s s1 h0 h1
    obtain ⟨_, _, ad1⟩ := hs1.adv
    have hs2 := stmtsT_sem ctx rest hf.2 hn.2 s1 s' (ad1.funcs_nil h0) h2
    exact stmtSemT_seq hs1 hs2 (fun _ _ _ _ h => execStmts32_cons_cases h)

theorem elseT_sem (ctx : LCtx) (els : List Stmt) (hf : Src.fragStmts els = true) (hn : noLoopStmts els = true) :
    ∀ s s' l r, s.funcs = [] → s.ifs = l :: r → evalElse conv els s = .ok ((), s') →
      ∃ t n, AdvT s s' (flatElse ctx l t).reverse n ∧ wfElse t = true ∧ ElseSimT els t s.forCounter := by
  match els with
  | [] =>
    intro s s' l r h0 hi h
    unfold evalElse at h
    obtain ⟨_, es⟩ := pureB_ok h
    refine ⟨none, 0, by rw [es]; simpa [flatElse] using AdvT.refl s, rfl, ?_⟩
    intro fuel c o c' hs ρ ha
    cases fuel with
    | zero => simp [Src32.execStmts] at hs
    | succ f =>
      simp only [Src32.execStmts, Option.some.injEq, Prod.mk.injEq] at hs
      obtain ⟨rfl, rfl⟩ := hs
      exact ⟨ρ, ExecElifsB.none, fun _ => ⟨ha, KeepsBelow.refl _ _⟩⟩
  | st :: rest =>
    intro s s' l r h0 hi h
    unfold evalElse at h
    simp only [Src.fragStmts, Bool.and_eq_true] at hf
    simp only [noLoopStmts, Bool.and_eq_true] at hn
    obtain ⟨_, s1, h1, h⟩ := bindB_ok h
    obtain ⟨_, s2, h2, h⟩ := bindB_ok h
    obtain ⟨_, s3, h3, h4⟩ := bindB_ok h
    have h1' : elseStartOp s = .ok ((), s1) := h1
    obtain ⟨c1, i1, k1, r1⟩ := elseStartOp_ok h0 hi h1'
    have h01 : s1.funcs = [] := by rw [r1.funcs]; exact h0
    have hs1 := stmtT_sem ctx st hf.1 hn.1 s1 s2 h01 h2
    obtain ⟨_, _, ada⟩ := hs1.adv
    have hs2 := stmtsT_sem ctx rest hf.2 hn.2 s2 s3 (ada.funcs_nil h01) h3
    obtain ⟨_, e4⟩ := pureB_ok (a := ()) h4
    have hseq : StmtSemT ctx (fun f c => Src32.execStmts f (st :: rest) c) s1 s3 :=
      stmtSemT_seq hs1 hs2 (fun _ _ _ _ h => execStmts32_cons_cases h)
    obtain ⟨cs, n, ad, wfc, sim⟩ := hseq
    refine ⟨some cs, n, ?_, by simpa [wfElse] using wfc, ?_⟩
    · rw [e4]
      refine ⟨?_, ?_, ?_, ?_, ?_, ?_, ?_, ?_, ?_, r1.env.trans ad.env⟩
      · rw [ad.code, c1]; simp [flatElse, List.reverse_append]
      · rw [ad.cnt, r1.cnt]
      · rw [ad.funcs, r1.funcs]
      · rw [ad.fcode, r1.fcode]
      · rw [ad.fors, r1.fors]
      · rw [ad.ends, r1.ends]
      · rw [ad.ifs, i1]
      · have := ad.fcnt; rw [r1.fcnt] at this; exact this
      · have := ad.icnt; rw [k1] at this; exact this
    · intro fuel c o c' hs ρ ha
      obtain ⟨ρ', ex, post⟩ := sim fuel c o c' hs ρ ha
      refine ⟨ρ', ExecElifsB.els ex, fun hno => ?_⟩
      have := post hno
      rw [r1.fcnt] at this
      exact this

theorem elifsT_sem (ctx : LCtx) (elifs : List (Expr × List Stmt)) (hf : Src.fragElifs elifs = true) (hn : noLoopElifs elifs = true) :
    ∀ ecs s s' l r, s.funcs = [] → s.ifs = l :: r → ecs.length = elifs.length → evalElifs conv elifs ecs s = .ok ((), s') →
      ∃ tree n, AdvT s s' (flatElifs ctx l tree).reverse n ∧ wfElifs tree = true ∧
        ∀ els elseT k0, s'.forCounter ≤ k0 → ElseSimT els elseT k0 →
          ∀ fuel bs c o c', Src32.execElifs fuel elifs bs els c = some (o, c') → bs.length = elifs.length →
            ∀ ρ, Agree c.env ρ → GuardValsB ecs bs ρ →
              ∃ ρ', ExecElifsB tree elseT ⟨ρ, c.out⟩ o ⟨ρ', c'.out⟩ ∧ (NotExit o → Agree c'.env ρ' ∧ KeepsBelow s.forCounter ρ ρ') := by
  match elifs with
  | [] =>
    intro ecs s s' l r h0 hi hlen h
    unfold evalElifs at h
    obtain ⟨_, es⟩ := pureB_ok h
    refine ⟨[], 0, by rw [es]; simpa [flatElifs] using AdvT.refl s, rfl, ?_⟩
    intro els elseT k0 hk hsim fuel bs c o c' hs hbl ρ ha _
    obtain ⟨f, hs'⟩ := src32_elifs_nil hs
    obtain ⟨ρ', ex, post⟩ := hsim f c o c' hs' ρ ha
    exact ⟨ρ', ex, fun hno => ⟨(post hno).1, (post hno).2.mono (by rw [es] at hk; exact hk)⟩⟩
  | (cnd, body) :: rest =>
    intro ecs s s' l r h0 hi hlen h
    match ecs, hlen with
    | t :: cs, hlen =>
      unfold evalElifs at h
      simp only [Src.fragElifs, Bool.and_eq_true] at hf
      simp only [noLoopElifs, Bool.and_eq_true] at hn
      obtain ⟨_, s1, h1, h⟩ := bindB_ok h
      obtain ⟨_, s2, h2, h⟩ := bindB_ok h
      obtain ⟨_, s3, h3, h4⟩ := bindB_ok h
      have h1' : elseIfStartOp t s = .ok ((), s1) := h1
      obtain ⟨c1, i1, k1, r1⟩ := elseIfStartOp_ok h0 hi h1'
      have h01 : s1.funcs = [] := by rw [r1.funcs]; exact h0
      have hb := blockT_sem ctx body hf.1.2 hn.1 s1 s2 h01 h2
      obtain ⟨_, e3⟩ := pureB_ok (a := ()) h3
      obtain ⟨bc, nb, adb, wfb, simb⟩ := hb
      have h03 : s3.funcs = [] := by rw [e3]; exact adb.funcs_nil h01
      have i3 : s3.ifs = l :: r := by rw [e3, adb.ifs, i1, hi]
      have hr := elifsT_sem ctx rest hf.2 hn.2 cs s3 s' l r h03 i3 (by simpa using hlen) h4
      obtain ⟨tree, nt, adt, wft, simt⟩ := hr
      refine ⟨(t, bc) :: tree, nb + nt, ?_, by simp [wfElifs, wfb, wft], ?_⟩
      · refine ⟨?_, ?_, ?_, ?_, ?_, ?_, ?_, ?_, ?_,
          r1.env.trans (adb.env.trans (by have := adt.env; rw [e3] at this; exact this))⟩
        · rw [adt.code, e3, adb.code, c1]; simp [flatElifs, List.reverse_append]
        · rw [adt.cnt, e3, adb.cnt, r1.cnt]; omega
        · rw [adt.funcs, e3, adb.funcs, r1.funcs]
        · rw [adt.fcode, e3, adb.fcode, r1.fcode]
        · rw [adt.fors, e3, adb.fors, r1.fors]
        · rw [adt.ends, e3, adb.ends, r1.ends]
        · rw [adt.ifs, e3, adb.ifs, i1]
        · have a := adt.fcnt; have b := adb.fcnt; rw [e3] at a; rw [r1.fcnt] at b; omega
        · have a := adt.icnt; have b := adb.icnt; rw [e3] at a; rw [k1] at b; omega
      · intro els elseT k0 hk hsim fuel bs c o c' hs hbl ρ ha hgv
        match bs, hbl, hgv with
        | b :: bs', hbl, hgv =>
          cases fuel with
          | zero => simp [Src32.execElifs] at hs
          | succ f =>
            simp only [Src32.execElifs] at hs
            cases b with
            | true =>
              simp only [if_true] at hs
              obtain ⟨ρ', ex, post⟩ := simb f c o c' hs ρ ha
              refine ⟨ρ', ExecElifsB.hit hgv.1 ex, fun hno => ?_⟩
              have := post hno
              rw [r1.fcnt] at this
              exact this
            | false =>
              simp only [Bool.false_eq_true, if_false] at hs
              obtain ⟨ρ', ex, post⟩ := simt els elseT k0 hk hsim f bs' c o c' hs (by simpa using hbl) ρ ha hgv.2
              refine ⟨ρ', ExecElifsB.miss hgv.1 ex, fun hno => ⟨(post hno).1, (post hno).2.mono ?_⟩⟩
              have b := adb.fcnt
              rw [e3]; rw [r1.fcnt] at b; exact b
end

end Tsh.SemB
