/-
  Facts about the delayed-expansion scanner of `Sem/Cmd`: plain text reads back, `!name!` reads the variable,
  texts compose, numerals are plain text and canonical.
-/
import TshVerif.Sem.Src32
import TshVerif.Lemmas.SemScan
namespace Tsh.SemB
open Tsh Tsh.Batch Tsh.Sem

def specialD (c : Char) : Bool := c == '!' || c == '^' || c == '%' || c == '"' || c == '\n' || c == '\r'

theorem scanD_plain (ρ : Store) (c : Char) (rest : List Char) (h : specialD c = false) :
    scanD ρ none (c :: rest) = (scanD ρ none rest).map (fun t => c :: t) := by
  simp [specialD] at h
  obtain ⟨⟨⟨⟨⟨h1, h2⟩, h3⟩, h4⟩, h5⟩, h6⟩ := h
  rw [scanD.eq_def]
  simp [h1, h2, h3, h4, h5, h6]

/-- a text is *complete* with value `v`: wherever it stands, the scanner reads it as `v` and goes on -/
def CompleteD (ρ : Store) (t v : List Char) : Prop :=
  ∀ rest, scanD ρ none (t ++ rest) = (scanD ρ none rest).map (fun u => v ++ u)

theorem CompleteD.nil (ρ : Store) : CompleteD ρ [] [] := by
  intro rest
  simp only [List.nil_append]
  cases scanD ρ none rest <;> simp

theorem CompleteD.append {ρ : Store} {a va b vb : List Char} (ha : CompleteD ρ a va) (hb : CompleteD ρ b vb) :
    CompleteD ρ (a ++ b) (va ++ vb) := by
  intro rest
  rw [List.append_assoc, ha, hb]
  cases scanD ρ none rest <;> simp

theorem CompleteD.toExpand {ρ : Store} {t v : String} (h : CompleteD ρ t.toList v.toList) : expandD ρ t = some v := by
  have := h []
  simp only [List.append_nil] at this
  have e0 : scanD ρ none [] = some [] := by rw [scanD.eq_def]
  rw [e0] at this
  simp [expandD, this]

theorem completeD_plain (ρ : Store) : ∀ (cs : List Char), (∀ c ∈ cs, specialD c = false) → CompleteD ρ cs cs := by
  intro cs
  induction cs with
  | nil => intro _; exact CompleteD.nil ρ
  | cons c cs ih =>
    intro h rest
    have hc := h c (by simp)
    rw [List.cons_append, scanD_plain ρ c _ hc, ih (fun d hd => h d (by simp [hd])) rest]
    cases scanD ρ none rest <;> simp

/-- a literal of the cmd-neutral alphabet is written unchanged and reads back as itself -/
theorem escapeB_plain (lit : String) (h : Src32.plainLitB lit = true) : escapeB lit = lit := by
  have h' : ∀ c ∈ lit.toList, escCharB c = [c] := by
    intro c hc
    simp only [Src32.plainLitB, List.all_eq_true] at h
    have := h c hc
    simp only [Bool.and_eq_true, bne_iff_ne, ne_eq, decide_eq_true_eq] at this
    have hn : c ≠ '\n' := by
      intro e; subst e; exact absurd this.1.2 (by decide)
    simp [escCharB, this.1.1.1.1.1, hn]
  have : lit.toList.flatMap escCharB = lit.toList := by
    generalize lit.toList = l at h'
    induction l with
    | nil => rfl
    | cons c cs ih =>
      simp only [List.flatMap_cons, h' c (by simp), List.cons_append, List.nil_append]
      rw [ih (fun d hd => h' d (by simp [hd]))]
  simp [escapeB, this, String.ofList_toList]

theorem plainLitB_not_special (lit : String) (h : Src32.plainLitB lit = true) : ∀ c ∈ lit.toList, specialD c = false := by
  intro c hc
  simp only [Src32.plainLitB, List.all_eq_true] at h
  have := h c hc
  simp only [Bool.and_eq_true, bne_iff_ne, ne_eq, decide_eq_true_eq] at this
  obtain ⟨⟨⟨⟨⟨h1, h2⟩, h3⟩, h4⟩, h5⟩, h6⟩ := this
  have hn : c ≠ '\n' := by intro e; subst e; exact absurd h5 (by decide)
  have hr : c ≠ '\r' := by intro e; subst e; exact absurd h5 (by decide)
  simp [specialD, h1, h2, h3, h4, hn, hr]

theorem scanD_name (ρ : Store) : ∀ (n acc rest : List Char), (∀ c ∈ n, c ≠ '!') →
    scanD ρ (some acc) (n ++ '!' :: rest) =
      if validName (acc ++ n) then (scanD ρ none rest).map (fun t => (ρ (String.ofList (acc ++ n))).toList ++ t) else none := by
  intro n
  induction n with
  | nil => intro acc rest _; rw [scanD.eq_def]; simp
  | cons c cs ih =>
    intro acc rest h
    have hc : c ≠ '!' := h c (by simp)
    rw [List.cons_append, scanD.eq_def]
    simp only [beq_iff_eq, hc, if_false]
    rw [ih (acc ++ [c]) rest (fun d hd => h d (by simp [hd]))]
    simp

theorem nameChar_ne_bang (c : Char) (h : nameChar c = true) : c ≠ '!' := by
  intro e; subst e; simp [nameChar, Char.isAlphanum, Char.isAlpha, Char.isUpper, Char.isLower, Char.isDigit] at h

theorem validName_no_bang {n : List Char} (h : validName n = true) : ∀ c ∈ n, c ≠ '!' := by
  intro c hc
  cases n with
  | nil => simp at hc
  | cons d ds =>
    simp only [validName, Bool.and_eq_true, List.all_eq_true] at h
    exact nameChar_ne_bang c (h.2 c hc)

/-- `!name!` reads the variable -/
theorem completeD_var (ρ : Store) (name : String) (h : validName name.toList = true) :
    CompleteD ρ ("!" ++ name ++ "!").toList (ρ name).toList := by
  intro rest
  have e : ("!" ++ name ++ "!").toList = '!' :: (name.toList ++ ['!']) := by
    simp [String.toList_append]
  rw [e]
  have : ('!' :: (name.toList ++ ['!'])) ++ rest = '!' :: (name.toList ++ '!' :: rest) := by simp
  rw [this]
  have s1 : scanD ρ none ('!' :: (name.toList ++ '!' :: rest)) = scanD ρ (some []) (name.toList ++ '!' :: rest) := by
    rw [scanD.eq_def]; simp
  rw [s1, scanD_name ρ name.toList [] rest (validName_no_bang h)]
  simp [h, String.ofList_toList]

/-! ### numerals and booleans -/

theorem digit_not_specialD (c : Char) (h : c.isDigit = true) : specialD c = false := by
  simp only [Char.isDigit, Bool.and_eq_true, decide_eq_true_eq] at h
  simp only [specialD, Bool.or_eq_false_iff, beq_eq_false_iff_ne, ne_eq]
  refine ⟨⟨⟨⟨⟨?_, ?_⟩, ?_⟩, ?_⟩, ?_⟩, ?_⟩ <;> (intro e; subst e; revert h; decide)

theorem int_toString_plainD (n : Int) : ∀ c ∈ (toString n).toList, specialD c = false := by
  intro c hc
  have e : toString n = n.repr := rfl
  rw [e] at hc
  cases n with
  | ofNat m =>
    simp only [Int.repr] at hc
    exact digit_not_specialD c (nat_repr_digits m c hc)
  | negSucc m =>
    simp only [Int.repr, String.toList_append] at hc
    simp only [List.mem_append] at hc
    rcases hc with hc | hc
    · have : c = '-' := by simpa using hc
      subst this; decide
    · exact digit_not_specialD c (nat_repr_digits _ c hc)

theorem completeD_int (ρ : Store) (n : Int) : CompleteD ρ (toString n).toList (toString n).toList :=
  completeD_plain ρ _ (int_toString_plainD n)

theorem completeD_bool (ρ : Store) (b : Bool) : CompleteD ρ (Tr.boolStr b).toList (Tr.boolStr b).toList := by
  apply completeD_plain
  intro c hc
  cases b <;> simp [Tr.boolStr] at hc <;> subst hc <;> decide

theorem canonInt_toString (n : Int) (h : readable n = true) : canonInt (toString n) = some n := by
  have : (toString n).toInt? = some n := asInt_toString n
  simp [canonInt, this, h]

theorem canonInt_boolStr (b : Bool) : canonInt (Tr.boolStr b) = some (if b then 1 else 0) := by
  rw [boolStr_eq]
  apply canonInt_toString
  cases b <;> decide

end Tsh.SemB
