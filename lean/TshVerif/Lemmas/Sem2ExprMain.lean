/-
  The expression theorem with calls, by induction over the expression.
-/
import TshVerif.Lemmas.Sem2Slice
namespace Tsh.Sem2
open Tsh Tsh.Tr Tsh.Bash Tsh.Sem Tsh.Sem2.Src
open Tsh.Sem.Src (Val Env)

theorem copyLines_ctx (s : St) : ∀ (n i k : Nat), C02.copyLines s n i k = copyCmdLines (ctxOf s) n i k
  | 0, _, _ => rfl
  | n + 1, i, k => by
    simp only [C02.copyLines, copyCmdLines, copyLines_ctx s n (i + 1) (k + 1), hn_eq]
    congr 2
    simp [varEvalString, varName_ctx, Ctx.mg, rvName, toString_str]

theorem copyLines_ok (ctx : Ctx) (hi : Nat) (ds : List String) : ∀ (n i k : Nat), LinesOK ctx hi ds (copyCmdLines ctx n i k)
  | 0, _, _ => LinesOK.nil _ _ _
  | n + 1, i, k => LinesOK.cons (sline_helper _ _ _ _ k rfl rfl) (copyLines_ok ctx hi ds n (i + 1) (k + 1))

theorem copyVals_ctx (s : St) : ∀ (n k : Nat), C02.copyVals s n k = copyTexts (ctxOf s) n k
  | 0, _ => rfl
  | n + 1, k => by
    simp only [C02.copyVals, copyTexts, copyVals_ctx s n (k + 1)]
    simp only [varEvalString, hn_eq]

theorem src_call {fuel : Nat} {name : String} {rets : List ValueType} {args : List Expr} {c : SCfg} {res : R (List Opd)}
    (h : evalE fuel (.call name rets args) c = some res) :
    (∃ f k c1, Src.evalArgs f args c = some (.exit k c1) ∧ res = .exit k c1) ∨
    (∃ f os c1 vals fd o c2, Src.evalArgs f args c = some (.ok os c1) ∧ resolveAll c1 os = some vals ∧
      Src.lookupFun c1.funs name = some fd ∧ vals.length = fd.params.length ∧
      execSs f fd.body { c1 with lenv := bindParams (fun _ => none) fd.params vals, inFn := true } = some (o, c2) ∧
      ((∃ vs, o = .ret vs ∧ vs.length = rets.length ∧ res = .ok (vs.map Opd.lit) { c2 with lenv := c1.lenv, inFn := c1.inFn }) ∨
       (o = .normal ∧ rets.length = 0 ∧ res = .ok [] { c2 with lenv := c1.lenv, inFn := c1.inFn }) ∨
       (∃ k, o = .exit k ∧ res = .exit k c2))) := by
  cases fuel with
  | zero => simp [evalE] at h
  | succ f =>
    simp only [evalE] at h
    split at h
    · rename_i os c1 ha
      split at h
      · rename_i vals fd hv hl
        split at h
        · rename_i hlen
          simp only [Bool.and_eq_true, beq_iff_eq] at hlen
          refine Or.inr ⟨f, os, c1, vals, fd, ?_⟩
          split at h
          · rename_i vs c2 hb
            split at h
            · rename_i hvl
              simp only [Option.some.injEq] at h
              exact ⟨_, c2, ha, hv, hl, hlen.1, hb, Or.inl ⟨vs, rfl, by simpa using hvl, h.symm⟩⟩
            · simp at h
          · rename_i c2 hb
            split at h
            · rename_i hz
              simp only [Option.some.injEq] at h
              exact ⟨_, c2, ha, hv, hl, hlen.1, hb, Or.inr (Or.inl ⟨rfl, by simpa using hz, h.symm⟩)⟩
            · simp at h
          · rename_i k c2 hb
            simp only [Option.some.injEq] at h
            exact ⟨_, c2, ha, hv, hl, hlen.1, hb, Or.inr (Or.inr ⟨k, rfl, h.symm⟩)⟩
          · simp at h
        · simp at h
      · simp at h
    · rename_i k c1 ha
      simp only [Option.some.injEq] at h
      exact Or.inl ⟨f, k, c1, ha, h.symm⟩
    · simp at h

theorem src_args_cons {fuel : Nat} {e : Expr} {rest : List Expr} {c : SCfg} {res : R (List Opd)}
    (h : Src.evalArgs fuel (e :: rest) c = some res) :
    (∃ f k c1, evalE f e c = some (.exit k c1) ∧ res = .exit k c1) ∨
    (∃ f o c1, evalE f e c = some (.ok [o] c1) ∧
      ((∃ f' k c2, Src.evalArgs f' rest c1 = some (.exit k c2) ∧ res = .exit k c2) ∨
       (∃ f' os c2, Src.evalArgs f' rest c1 = some (.ok os c2) ∧ res = .ok (o :: os) c2))) := by
  cases fuel with
  | zero => simp [Src.evalArgs] at h
  | succ f =>
    simp only [Src.evalArgs] at h
    split at h
    · rename_i o c1 he
      refine Or.inr ⟨f, o, c1, he, ?_⟩
      split at h
      · rename_i os c2 hr
        simp only [Option.some.injEq] at h
        exact Or.inr ⟨f, os, c2, hr, h.symm⟩
      · rename_i k c2 hr
        simp only [Option.some.injEq] at h
        exact Or.inl ⟨f, k, c2, hr, h.symm⟩
      · simp at h
    · rename_i k c1 he
      simp only [Option.some.injEq] at h
      exact Or.inl ⟨f, k, c1, he, h.symm⟩
    · simp at h

theorem esim_args_cons {ctx : Ctx} {T : List FEntry} {B : Nat} {e : Expr} {rest : List Expr} {newE newR : List Line} {lo nE nR : Nat}
    {t : String} {ts : List String}
    (he : ESim ctx T B (single (fun f c => evalE f e c)) newE lo nE [t])
    (hr : ESim ctx T B (fun f c => Src.evalArgs f rest c) newR (lo + nE) nR ts) :
    ESim ctx T B (fun f c => Src.evalArgs f (e :: rest) c) (newR ++ newE) lo (nE + nR) (t :: ts) := by
  refine ⟨hr.lines.append he.lines, ?_⟩
  intro fuel c res hs m hi
  rcases src_args_cons hs with ⟨f, k, c1, h1, rfl⟩ | ⟨f, o, c1, h1, hrest⟩
  · obtain ⟨m1, ex, ho⟩ := he.run f c _ (single_exit h1) m hi
    refine ⟨m1, ?_, ho⟩
    rw [map_reverse_append]
    exact execCmds_stop_append _ ex (by simp)
  · obtain ⟨m1, ex1, hi1, hc1, hk1, hh1⟩ := he.run f c _ (single_ok h1) m hi
    rcases hrest with ⟨f', k, c2, h2, rfl⟩ | ⟨f', os, c2, h2, rfl⟩
    · obtain ⟨m2, ex2, ho⟩ := hr.run f' c1 _ h2 m1 hi1
      refine ⟨m2, ?_, ho⟩
      rw [map_reverse_append]
      exact execCmds_append ex1 ex2
    · obtain ⟨m2, ex2, hi2, hc2, hk2, hh2⟩ := hr.run f' c1 _ h2 m1 hi1
      refine ⟨m2, ?_, hi2, hc1.trans hc2, hk1.trans hk2 (by omega), fun _ => ?_⟩
      · rw [map_reverse_append]
        exact execCmds_append ex1 ex2
      · have e3 : lo + (nE + nR) = lo + nE + nR := by omega
        rw [e3]
        exact ⟨(hh1 rfl).1.mono (by omega) (fun j hj => hk2.helpers j hj), hh2 rfl⟩

/-! ### the theorem -/

theorem binVal_int {vt : ValueType} {op : String} {va vb w : Val} (hs : vt.isSlice = false) (hd : vt.dt = .int)
    (h : Sem.Src.binVal vt op va vb = some w) : ∃ x y z, va = .int x ∧ vb = .int y ∧ arith op x y = some z ∧ w = .int z := by
  unfold Sem.Src.binVal at h
  simp only [hs, Bool.false_eq_true, if_false, hd] at h
  cases va <;> cases vb <;> simp at h
  rename_i x y
  cases hz : arith op x y with
  | none => simp [hz] at h
  | some z => simp [hz] at h; exact ⟨x, y, z, rfl, rfl, hz, h.symm⟩

theorem binVal_str {vt : ValueType} {va vb w : Val} (hs : vt.isSlice = false) (hd : vt.dt = .string)
    (h : Sem.Src.binVal vt "+" va vb = some w) : ∃ x y, va = .str x ∧ vb = .str y ∧ w = .str (x ++ y) := by
  unfold Sem.Src.binVal at h
  simp only [hs, Bool.false_eq_true, if_false, hd] at h
  cases va <;> cases vb <;> simp at h
  rename_i x y
  exact ⟨x, y, rfl, rfl, h.symm⟩

mutual
theorem expr_semF {ctx : Ctx} {T : List FEntry} {B : Nat} (hT : TableOK T) (hctx : CtxOK ctx T B) :
    ∀ (e : Expr) (s : St) (r : List String) (s' : St), fragE (tnames T) e = true → ctxOf s = ctx →
      Tr.evalExpr conv e true s = .ok (r, s') →
      ∃ new n rq, s' = reqSt (adv s new n) rq ∧ ESim ctx T B (fun f c => evalE f e c) new s.varCounter n r
  | .boolLit b, s, r, s', _, hc, h => by
    unfold Tr.evalExpr at h
    obtain ⟨er, es⟩ := pure_ok h
    subst er
    refine ⟨[], 0, Req.none, by rw [es, reqSt_none]; rfl, esim_leaf ctx T B _ _ _ ?_⟩
    intro fuel c res hs
    cases fuel with
    | zero => simp [evalE] at hs
    | succ f =>
      simp only [evalE, Option.some.injEq] at hs
      exact ⟨_, hs.symm, fun ρ0 => ⟨holdsF_text ctx _ (.bool b) _ ρ0 (fun ρ => complete_bool ρ b), trivial⟩⟩
  | .intLit n, s, r, s', _, hc, h => by
    unfold Tr.evalExpr at h
    obtain ⟨er, es⟩ := pure_ok h
    subst er
    refine ⟨[], 0, Req.none, by rw [es, reqSt_none]; rfl, esim_leaf ctx T B _ _ _ ?_⟩
    intro fuel c res hs
    cases fuel with
    | zero => simp [evalE] at hs
    | succ f =>
      simp only [evalE] at hs
      split at hs
      · simp only [Option.some.injEq] at hs
        exact ⟨_, hs.symm, fun ρ0 => ⟨holdsF_text ctx _ (.int n) _ ρ0 (fun ρ => complete_int ρ n), trivial⟩⟩
      · simp at hs
  | .strLit lit, s, r, s', _, hc, h => by
    unfold Tr.evalExpr at h
    obtain ⟨t, s1, h1, h⟩ := bind_ok h
    obtain ⟨er, es⟩ := pure_ok h
    have h1' : (pure (stringToString lit) : BM String) s = .ok (t, s1) := h1
    obtain ⟨et, es1⟩ := pure_ok h1'
    subst er; subst et
    refine ⟨[], 0, Req.none, by rw [es, es1, reqSt_none]; rfl, esim_leaf ctx T B _ _ _ ?_⟩
    intro fuel c res hs
    cases fuel with
    | zero => simp [evalE] at hs
    | succ f =>
      simp only [evalE] at hs
      split at hs
      · rename_i hp
        simp only [Option.some.injEq] at hs
        refine ⟨_, hs.symm, fun ρ0 => ⟨holdsF_text ctx _ (.str lit) _ ρ0 (fun ρ => ?_), trivial⟩⟩
        have : (stringToString lit).toList = lit.toList.flatMap escChar := by simp [stringToString]
        show Complete ρ (stringToString lit).toList lit.toList
        rw [this]
        apply complete_literal
        have hp' : ∀ c ∈ lit.toList, (¬c = '$' ∧ ¬c = '`') ∧ c.toNat < 128 := by simpa [Sem.Src.plainLit, List.all_eq_true] using hp
        exact fun c hc => by simpa using (hp' c hc).1
      · simp at hs
  | .varEval x, s, r, s', _, hc, h => by
    unfold Tr.evalExpr at h
    obtain ⟨t, s1, h1, h⟩ := bind_ok h
    obtain ⟨er, es⟩ := pure_ok h
    have h1' : varEvaluation x.name x.global s = .ok (t, s1) := h1
    simp only [varEvaluation, bind, Tr.get, pure, varEvalString, varName_ctx, hc] at h1'
    injection h1' with h1'
    injection h1' with e1 e2
    subst er; subst e1
    refine ⟨[], 0, Req.none, by rw [es, ← e2, reqSt_none]; rfl, esim_leaf ctx T B _ _ _ ?_⟩
    intro fuel c res hs
    cases fuel with
    | zero => simp [evalE] at hs
    | succ f =>
      simp only [evalE, Option.some.injEq] at hs
      exact ⟨_, hs.symm, fun ρ0 => ⟨holdsF_var ctx x _ ρ0, trivial⟩⟩
  | .group x, s, r, s', hf, hc, h => by
    unfold Tr.evalExpr at h
    obtain ⟨new, n, rq, e1, sim⟩ := expr_semF hT hctx x s r s' (by simpa [fragE] using hf) hc h
    refine ⟨new, n, rq, e1, esim_reindex sim ?_⟩
    intro fuel c res hs
    cases fuel with
    | zero => simp [evalE] at hs
    | succ f => simp only [evalE] at hs; exact ⟨f, hs⟩
  | .itoa x, s, r, s', hf, hc, h => by
    unfold Tr.evalExpr at h
    obtain ⟨a, s1, ha, h⟩ := bind_ok h
    obtain ⟨er, es⟩ := pure_ok h
    obtain ⟨new, n, rq, e1, sim⟩ := expr_semF hT hctx x s a s1 (by simpa [fragE] using hf) hc ha
    subst er
    refine ⟨new, n, rq, by rw [es, e1], ?_⟩
    have sim1 := esim_first sim
    refine ⟨sim.lines, ?_⟩
    intro fuel c res hs m hi
    cases fuel with
    | zero => simp [evalE] at hs
    | succ f =>
      simp only [evalE] at hs
      split at hs
      · rename_i o c1 hx
        simp only [Option.some.injEq] at hs
        subst hs
        obtain ⟨m1, ex, hi1, hc1, hk1, hh⟩ := sim1.run f c _ (single_ok hx) m hi
        exact ⟨m1, ex, hi1, hc1, hk1, fun _ => ⟨holdsF_itoa (hh rfl).1, trivial⟩⟩
      · rename_i k c1 hx
        simp only [Option.some.injEq] at hs
        subst hs
        exact sim1.run f c _ (single_exit hx) m hi
      · simp at hs
  | .unary op x vt, s, r, s', hf, hc, h => by
    unfold Tr.evalExpr at h
    obtain ⟨a, s1, ha, h⟩ := bind_ok h
    obtain ⟨t, s2, hop, h⟩ := bind_ok h
    obtain ⟨er, es⟩ := pure_ok h
    obtain ⟨new, n, rq, e1, sim⟩ := expr_semF hT hctx x s a s1 (by simpa [fragE] using hf) hc ha
    subst e1
    have hop' : unaryOp (firstValue a) op (reqSt (adv s new n) rq) = .ok (t, s2) := hop
    by_cases hopb : op = "!"
    · subst hopb
      rw [unaryOp_specF] at hop'
      injection hop' with hop'
      injection hop' with e2 e3
      subst er; subst e2
      rw [ctxOf_reqSt, ctxOf_adv, hc] at e3 ⊢
      refine ⟨_ :: new, n + 1, rq, by rw [es, ← e3, adv_reqSt, adv_adv]; rfl, ?_⟩
      refine esim_unary (esim_first sim) _ rfl (sline_helper _ _ _ _ _ rfl rfl) ?_
      intro fuel c res hs
      rcases src_unary hs with ⟨f, k, c1, hx, hr⟩ | ⟨f, o, c1, b, hx, hb, hr⟩
      · exact Or.inl ⟨f, k, c1, single_exit hx, hr⟩
      · refine Or.inr ⟨f, o, c1, .bool (!b), single_ok hx, hr, ?_⟩
        intro m1 hag hh
        exact step2_not m1 _ (hh.expandBool hag hb)
    · simp only [unaryOp, bind, nextHelperVar] at hop'
      simp [hopb, Tr.fail] at hop'
  | .binary op l r, s, res, s', hf, hc, h => by
    unfold Tr.evalExpr at h
    simp only [fragE, Bool.and_eq_true] at hf
    obtain ⟨a, s1, ha, h⟩ := bind_ok h
    obtain ⟨b, s2, hb, h⟩ := bind_ok h
    obtain ⟨t, s3, hop, h⟩ := bind_ok h
    obtain ⟨er, es⟩ := pure_ok h
    obtain ⟨newL, nL, rL, e1, simL⟩ := expr_semF hT hctx l s a s1 hf.1 hc ha
    subst e1
    obtain ⟨newR, nR, rR, e2, simR⟩ := expr_semF hT hctx r (reqSt (adv s newL nL) rL) b s2 hf.2 hc hb
    subst e2
    have hop' : binaryOp (firstValue a) op (firstValue b) (Expr.valueType l) (reqSt (adv (reqSt (adv s newL nL) rL) newR nR) rR) = .ok (t, s3) := hop
    have hsl : (Expr.valueType l).isSlice = false := by
      by_cases hx : (Expr.valueType l).isSlice = true
      · simp [binaryOp, bind, nextHelperVar, hx, notAllowedBin, Tr.fail] at hop'
      · simpa using hx
    have hvc : (reqSt (adv (reqSt (adv s newL nL) rL) newR nR) rR).varCounter = s.varCounter + nL + nR := rfl
    cases hdt : (Expr.valueType l).dt with
    | int =>
      by_cases ho : (op == "*" || op == "/" || op == "%" || op == "+" || op == "-") = true
      · rw [arithOp_specF _ _ _ _ _ hsl hdt ho] at hop'
        injection hop' with hop'
        injection hop' with e3 e4
        subst er; subst e3
        rw [ctxOf_reqSt, ctxOf_adv, ctxOf_reqSt, ctxOf_adv, hc, hvc] at e4 ⊢
        refine ⟨_ :: (newR ++ newL), nL + nR + 1, rL.or rR, by rw [es, ← e4]; simp only [adv_reqSt, reqSt_reqSt, adv_adv]; rfl, ?_⟩
        refine esim_binary (esim_first simL) (esim_first simR) _ rfl (sline_helper _ _ _ _ _ rfl rfl) ?_
        intro fuel c res' hs
        have := two_to_esim (ctx := ctx) (tl := firstValue a) (tr := firstValue b) (k := s.varCounter + nL + nR)
          (line := .assignArith (ctx.hn (s.varCounter + nL + nR)) (firstValue a) op (firstValue b))
          (hname := ctx.hn (s.varCounter + nL + nR)) ?_ (src_binary hs)
        · rcases this with ⟨f, k, c1, h1, h2⟩ | ⟨f, a', c1, h1, h2⟩
          · exact Or.inl ⟨f, k, c1, single_exit h1, h2⟩
          · refine Or.inr ⟨f, a', c1, single_ok h1, ?_⟩
            rcases h2 with ⟨f', k, c2, h3, h4⟩ | ⟨f', b', c2, w, h3, h4, h5⟩
            · exact Or.inl ⟨f', k, c2, single_exit h3, h4⟩
            · exact Or.inr ⟨f', b', c2, w, single_ok h3, h4, h5⟩
        · intro c2 a' b' w m2 hopf hag h1 h2
          simp only [binOpf] at hopf
          split at hopf
          · rename_i va vb hva hvb
            obtain ⟨x, y, z, rfl, rfl, hz, rfl⟩ := binVal_int hsl hdt hopf
            exact step2_arith m2 _ (h1.expandInt hag hva) (h2.expandInt hag hvb) hz
          · simp at hopf
      · simp [binaryOp, bind, nextHelperVar, hsl, hdt, ho, notAllowedBin, Tr.fail] at hop'
    | string =>
      by_cases ho : op = "+"
      · subst ho
        rw [concatOp_specF _ _ _ _ hsl hdt] at hop'
        injection hop' with hop'
        injection hop' with e3 e4
        subst er; subst e3
        rw [ctxOf_reqSt, ctxOf_adv, ctxOf_reqSt, ctxOf_adv, hc, hvc] at e4 ⊢
        refine ⟨_ :: (newR ++ newL), nL + nR + 1, rL.or rR, by rw [es, ← e4]; simp only [adv_reqSt, reqSt_reqSt, adv_adv]; rfl, ?_⟩
        refine esim_binary (esim_first simL) (esim_first simR) _ rfl (sline_helper _ _ _ _ _ rfl rfl) ?_
        intro fuel c res' hs
        have := two_to_esim (ctx := ctx) (tl := firstValue a) (tr := firstValue b) (k := s.varCounter + nL + nR)
          (line := .assign (ctx.hn (s.varCounter + nL + nR)) (firstValue a ++ firstValue b))
          (hname := ctx.hn (s.varCounter + nL + nR)) ?_ (src_binary hs)
        · rcases this with ⟨f, k, c1, h1, h2⟩ | ⟨f, a', c1, h1, h2⟩
          · exact Or.inl ⟨f, k, c1, single_exit h1, h2⟩
          · refine Or.inr ⟨f, a', c1, single_ok h1, ?_⟩
            rcases h2 with ⟨f', k, c2, h3, h4⟩ | ⟨f', b', c2, w, h3, h4, h5⟩
            · exact Or.inl ⟨f', k, c2, single_exit h3, h4⟩
            · exact Or.inr ⟨f', b', c2, w, single_ok h3, h4, h5⟩
        · intro c2 a' b' w m2 hopf hag h1 h2
          simp only [binOpf] at hopf
          split at hopf
          · rename_i va vb hva hvb
            obtain ⟨x, y, rfl, rfl, rfl⟩ := binVal_str hsl hdt hopf
            have hcmp : Complete m2.ρ (firstValue a ++ firstValue b).toList (x ++ y).toList := by
              rw [String.toList_append, String.toList_append]
              exact (h1 c2 m2 hag (fun _ _ => rfl) _ hva).append (h2 c2 m2 hag (fun _ _ => rfl) _ hvb)
            exact step2_assign m2 _ hcmp.toExpand
          · simp at hopf
      · have : (op == "+") = false := by simpa using ho
        simp [binaryOp, bind, nextHelperVar, hsl, hdt, this, notAllowedBin, Tr.fail] at hop'
    | unknown => simp [binaryOp, bind, nextHelperVar, hsl, hdt, notAllowedBin, Tr.fail] at hop'
    | multiple => simp [binaryOp, bind, nextHelperVar, hsl, hdt, notAllowedBin, Tr.fail] at hop'
    | bool => simp [binaryOp, bind, nextHelperVar, hsl, hdt, notAllowedBin, Tr.fail] at hop'
    | other x => simp [binaryOp, bind, nextHelperVar, hsl, hdt, notAllowedBin, Tr.fail] at hop'
  | .compare op l r, s, res, s', hf, hc, h => by
    unfold Tr.evalExpr at h
    simp only [fragE, Bool.and_eq_true] at hf
    obtain ⟨a, s1, ha, h⟩ := bind_ok h
    obtain ⟨b, s2, hb, h⟩ := bind_ok h
    obtain ⟨t, s3, hop, h⟩ := bind_ok h
    obtain ⟨er, es⟩ := pure_ok h
    obtain ⟨newL, nL, rL, e1, simL⟩ := expr_semF hT hctx l s a s1 hf.1 hc ha
    subst e1
    obtain ⟨newR, nR, rR, e2, simR⟩ := expr_semF hT hctx r (reqSt (adv s newL nL) rL) b s2 hf.2 hc hb
    subst e2
    have hop' : comparisonOpWith (compareOpString op (Expr.valueType l)) (firstValue a) op (firstValue b) (Expr.valueType l)
        (reqSt (adv (reqSt (adv s newL nL) rL) newR nR) rR) = .ok (t, s3) := hop
    have hvc : (reqSt (adv (reqSt (adv s newL nL) rL) newR nR) rR).varCounter = s.varCounter + nL + nR := rfl
    have hos : ((compareOpString op (Expr.valueType l)).length == 0) = false := by
      by_cases hx : ((compareOpString op (Expr.valueType l)).length == 0) = true
      · simp [comparisonOpWith, hx, Tr.fail] at hop'
      · simpa using hx
    rw [compareOp_specF _ _ _ _ _ _ hos] at hop'
    injection hop' with hop'
    injection hop' with e3 e4
    subst er; subst e3
    rw [ctxOf_reqSt, ctxOf_adv, ctxOf_reqSt, ctxOf_adv, hc, hvc] at e4 ⊢
    refine ⟨_ :: (newR ++ newL), nL + nR + 1, rL.or rR, by rw [es, ← e4]; simp only [adv_reqSt, reqSt_reqSt, adv_adv]; rfl, ?_⟩
    refine esim_binary (esim_first simL) (esim_first simR) _ rfl (sline_helper _ _ _ _ _ rfl rfl) ?_
    intro fuel c res' hs
    have := two_to_esim (ctx := ctx) (tl := firstValue a) (tr := firstValue b) (k := s.varCounter + nL + nR)
      (line := .assignTest (ctx.hn (s.varCounter + nL + nR)) (.cmp (firstValue a) (compareOpString op (Expr.valueType l)) (firstValue b)) "1" "0")
      (hname := ctx.hn (s.varCounter + nL + nR)) ?_ (src_compare hs)
    · rcases this with ⟨f, k, c1, h1, h2⟩ | ⟨f, a', c1, h1, h2⟩
      · exact Or.inl ⟨f, k, c1, single_exit h1, h2⟩
      · refine Or.inr ⟨f, a', c1, single_ok h1, ?_⟩
        rcases h2 with ⟨f', k, c2, h3, h4⟩ | ⟨f', b', c2, w, h3, h4, h5⟩
        · exact Or.inl ⟨f', k, c2, single_exit h3, h4⟩
        · exact Or.inr ⟨f', b', c2, w, single_ok h3, h4, h5⟩
    · intro c2 a' b' w m2 hopf hag h1 h2
      simp only [cmpOpf] at hopf
      split at hopf
      · rename_i va vb hva hvb
        unfold Sem.Src.cmpVal at hopf
        split at hopf
        · simp at hopf
        · rename_i hsl
          have hsl' : (Expr.valueType l).isSlice = false := by simpa using hsl
          have hvt : ∀ d, (Expr.valueType l).dt = d → Expr.valueType l = ⟨d, false⟩ := by
            intro d hd
            cases hv : Expr.valueType l with
            | mk dt sl => rw [hv] at hd hsl'; simp at hd hsl'; subst hd; subst hsl'; rfl
          split at hopf
          · -- bool
            rename_i x y hdt
            rw [hvt _ hdt] at hos ⊢
            split at hopf
            · rename_i he
              have : op = "==" := by simpa using he
              subst this
              simp only [Option.some.injEq] at hopf
              subst hopf
              have := step2_cmp_num (os := "-eq") (v := (x == y)) m2 (ctx.hn (s.varCounter + nL + nR))
                (h1.expandBool hag hva) (h2.expandBool hag hvb) (by simp) (by simp) (by cases x <;> cases y <;> simp [numTest])
              simpa [compareOpString, Sem.Src.Val.render] using this
            · split at hopf
              · rename_i hne he
                have : op = "!=" := by simpa using he
                subst this
                simp only [Option.some.injEq] at hopf
                subst hopf
                have := step2_cmp_num (os := "-ne") (v := (x != y)) m2 (ctx.hn (s.varCounter + nL + nR))
                  (h1.expandBool hag hva) (h2.expandBool hag hvb) (by simp) (by simp) (by cases x <;> cases y <;> simp [numTest])
                simpa [compareOpString, Sem.Src.Val.render] using this
              · simp at hopf
          · -- int
            rename_i x y hdt
            rw [hvt _ hdt] at hos ⊢
            cases hz : Sem.Src.intCmp op x y with
            | none => simp [hz] at hopf
            | some z =>
              simp only [hz, Option.map, Option.some.injEq] at hopf
              subst hopf
              obtain ⟨g1, g2, g3, g4⟩ := intCmp_numTest hz
              exact step2_cmp_num m2 _ (h1.expandInt hag hva) (h2.expandInt hag hvb) g2 g3 g4
          · -- string
            rename_i x y hdt
            rw [hvt _ hdt] at hos ⊢
            split at hopf
            · rename_i he
              have : op = "==" := by simpa using he
              subst this
              simp only [Option.some.injEq] at hopf
              subst hopf
              have := step2_cmp_streq m2 (ctx.hn (s.varCounter + nL + nR)) (h1.expand hag hva) (h2.expand hag hvb)
              simpa [compareOpString, Sem.Src.Val.render] using this
            · split at hopf
              · rename_i hne he
                have : op = "!=" := by simpa using he
                subst this
                simp only [Option.some.injEq] at hopf
                subst hopf
                have := step2_cmp_strne m2 (ctx.hn (s.varCounter + nL + nR)) (h1.expand hag hva) (h2.expand hag hvb)
                simpa [compareOpString, Sem.Src.Val.render] using this
              · simp at hopf
          · simp at hopf
      · simp at hopf
  | .logical op l r, s, res, s', hf, hc, h => by
    unfold Tr.evalExpr at h
    simp only [fragE, Bool.and_eq_true] at hf
    obtain ⟨a, s1, ha, h⟩ := bind_ok h
    obtain ⟨b, s2, hb, h⟩ := bind_ok h
    obtain ⟨t, s3, hop, h⟩ := bind_ok h
    obtain ⟨er, es⟩ := pure_ok h
    obtain ⟨newL, nL, rL, e1, simL⟩ := expr_semF hT hctx l s a s1 hf.1 hc ha
    subst e1
    obtain ⟨newR, nR, rR, e2, simR⟩ := expr_semF hT hctx r (reqSt (adv s newL nL) rL) b s2 hf.2 hc hb
    subst e2
    have hop' : logicalOp (firstValue a) op (firstValue b) (reqSt (adv (reqSt (adv s newL nL) rL) newR nR) rR) = .ok (t, s3) := hop
    have hvc : (reqSt (adv (reqSt (adv s newL nL) rL) newR nR) rR).varCounter = s.varCounter + nL + nR := rfl
    have ho : (op == "&&" || op == "||") = true := by
      by_cases hx : (op == "&&" || op == "||") = true
      · exact hx
      · simp [logicalOp, hx, Tr.fail] at hop'
    rw [logicalOp_specF _ _ _ _ ho] at hop'
    injection hop' with hop'
    injection hop' with e3 e4
    subst er; subst e3
    rw [ctxOf_reqSt, ctxOf_adv, ctxOf_reqSt, ctxOf_adv, hc, hvc] at e4 ⊢
    refine ⟨_ :: (newR ++ newL), nL + nR + 1, rL.or rR, by rw [es, ← e4]; simp only [adv_reqSt, reqSt_reqSt, adv_adv]; rfl, ?_⟩
    refine esim_binary (esim_first simL) (esim_first simR) _ rfl (sline_helper _ _ _ _ _ rfl rfl) ?_
    intro fuel c res' hs
    have := two_to_esim (ctx := ctx) (tl := firstValue a) (tr := firstValue b) (k := s.varCounter + nL + nR)
      (line := .assignTest (ctx.hn (s.varCounter + nL + nR)) (.log (firstValue a) op (firstValue b)) "1" "0")
      (hname := ctx.hn (s.varCounter + nL + nR)) ?_ (src_logical hs)
    · rcases this with ⟨f, k, c1, h1, h2⟩ | ⟨f, a', c1, h1, h2⟩
      · exact Or.inl ⟨f, k, c1, single_exit h1, h2⟩
      · refine Or.inr ⟨f, a', c1, single_ok h1, ?_⟩
        rcases h2 with ⟨f', k, c2, h3, h4⟩ | ⟨f', b', c2, w, h3, h4, h5⟩
        · exact Or.inl ⟨f', k, c2, single_exit h3, h4⟩
        · exact Or.inr ⟨f', b', c2, w, single_ok h3, h4, h5⟩
    · intro c2 a' b' w m2 hopf hag h1 h2
      simp only [logOpf] at hopf
      split at hopf
      · rename_i x y hva hvb
        split at hopf
        · rename_i he
          have : op = "&&" := by simpa using he
          subst this
          simp only [Option.some.injEq] at hopf
          subst hopf
          exact step2_and m2 _ (h1.expandBool hag hva) (h2.expandBool hag hvb)
        · split at hopf
          · rename_i hne he
            have : op = "||" := by simpa using he
            subst this
            simp only [Option.some.injEq] at hopf
            subst hopf
            exact step2_or m2 _ (h1.expandBool hag hva) (h2.expandBool hag hvb)
          · simp at hopf
      · simp at hopf
  | .call name rets args, s, res, s', hf, hc, h => by
    unfold Tr.evalExpr at h
    simp only [fragE, Bool.and_eq_true, List.contains_iff_mem] at hf
    obtain ⟨as, s1, ha, g1⟩ := bind_ok h
    obtain ⟨vs, s2, hcall, g2⟩ := bind_ok g1
    obtain ⟨newA, nA, rA, e1, simA⟩ := args_semF hT hctx args s as s1 hf.2 hc ha
    subst e1
    -- the call line and the copies
    have hcall' : funcCall name as rets true (reqSt (adv s newA nA) rA) = .ok (vs, s2) := hcall
    unfold funcCall at hcall'
    obtain ⟨_, s3, h3, hcall'⟩ := bind_ok hcall'
    have e3 := addLine_ok h3
    simp only [if_true] at hcall'
    obtain ⟨out, s4, h4, hcall'⟩ := bind_ok hcall'
    rw [C02.call_reads_registers_in_order] at h4
    injection h4 with h4
    injection h4 with eo e4
    obtain ⟨evs, es2⟩ := pure_ok hcall'
    have hcx : ctxOf s3 = ctx := by rw [e3]; exact hc
    have hlen : out.length = rets.length := by
      rw [← eo, copyVals_ctx]
      have : ∀ n k, (copyTexts (ctxOf s3) n k).length = n := by
        intro n; induction n with
        | zero => intro k; rfl
        | succ n ih => intro k; simp [copyTexts, ih]
      exact this _ _
    have evs' : vs = out := by rw [evs, hlen]; simp
    rw [evs'] at g2
    have hvl : (out.length != rets.length) = false := by simp [hlen]
    simp only [hvl, Bool.and_false, Bool.false_eq_true, if_false] at g2
    obtain ⟨er, es⟩ := pure_ok g2
    -- the callee
    obtain ⟨e, he, hen⟩ : ∃ e ∈ T, e.fd.name = name := by
      have := hf.1
      simp only [tnames, List.mem_map] at this
      exact this
    subst hen
    have hs3vc : s3.varCounter = s.varCounter + nA := by rw [e3]; rfl
    refine ⟨(copyCmdLines ctx rets.length 0 (s.varCounter + nA)).reverse ++ (Line.callFn e.fd.name as :: newA), nA + rets.length, rA, ?_, ?_⟩
    · rw [es, es2, ← e4, copyLines_ctx, hcx, hs3vc, e3]
      simp [adv, reqSt, Nat.add_assoc]
    · subst er
      rw [← eo, copyVals_ctx, hcx, hs3vc]
      refine ⟨?_, ?_⟩
      · refine LinesOK.append (LinesOK.reverse (copyLines_ok ctx _ _ _ _ _)) (LinesOK.cons ⟨fun x hx => by simp [lineTargets] at hx, fun nm ar e' => ?_, rfl⟩ simA.lines)
        simp only [Line.callFn.injEq] at e'
        rw [← e'.1]
        simp only [tnames, List.mem_map]
        exact ⟨e, he, rfl⟩
      intro fuel c res' hs m hi
      rcases src_call hs with ⟨f, k, c1, hx, rfl⟩ | ⟨f, os, c1, vals, fd, o, c2, hx, hrv, hlk, hvlen, hbody, hres⟩
      · obtain ⟨m1, ex, ho⟩ := simA.run f c _ hx m hi
        refine ⟨m1, ?_, ho⟩
        rw [map_reverse_append, map_reverse_cons, List.append_assoc]
        exact execCmds_stop_append _ ex (by simp)
      · obtain ⟨m1, ex1, hi1, hc1, hk1, hh1⟩ := simA.run f c _ hx m hi
        -- the function found is the one of the table
        obtain ⟨Tr, hsuf, hnd, hcf, hmf⟩ := hi1.tables
        have heTr : e ∈ Tr := hsuf.subset he
        have hfd : fd = e.fd := by
          have := lookup_src Tr e hnd heTr
          rw [← hcf, hlk] at this
          exact (Option.some.inj this)
        subst hfd
        obtain ⟨hok, hexit⟩ := call_exec hT hctx he hi1 (hh1 rfl) hrv hvlen hbody
        have pre : ∀ {o' mX}, ExecCmd (.simple (.callFn e.fd.name as)) m1 o' mX → ∀ {o'' mY},
            (o' = .normal → ExecCmds ((copyCmdLines ctx rets.length 0 (s.varCounter + nA)).map Cmd.simple) mX o'' mY) →
            (o' ≠ .normal → o'' = o' ∧ mY = mX) →
            ExecCmds (((copyCmdLines ctx rets.length 0 (s.varCounter + nA)).reverse ++ (Line.callFn e.fd.name as :: newA)).reverse.map Cmd.simple) m o'' mY := by
          intro o' mX hcallx o'' mY h1 h2
          have shape : ((copyCmdLines ctx rets.length 0 (s.varCounter + nA)).reverse ++ (Line.callFn e.fd.name as :: newA)).reverse.map Cmd.simple =
              newA.reverse.map Cmd.simple ++ (Cmd.simple (.callFn e.fd.name as) :: (copyCmdLines ctx rets.length 0 (s.varCounter + nA)).map Cmd.simple) := by
            simp
          rw [shape]
          refine execCmds_append ex1 ?_
          by_cases ho : o' = .normal
          · subst ho
            exact ExecCmds.cons hcallx (h1 rfl)
          · obtain ⟨rfl, rfl⟩ := h2 ho
            exact ExecCmds.stop hcallx ho
        rcases hres with ⟨vs', rfl, hvl', rfl⟩ | ⟨rfl, hz, rfl⟩ | ⟨k, rfl, rfl⟩
        · obtain ⟨m3, exc, hi3, hc3, hk3, hrv3⟩ := hok vs' (Or.inl rfl)
          obtain ⟨m4, ex4, hi4, hc4, hk4, hlow4, hh4⟩ := copy_sem ctx T B s.varCounter vs' 0 (s.varCounter + nA) _ m3 (by omega) hi3 hrv3
          rw [hvl'] at ex4 hh4
          refine ⟨m4, pre exc (fun _ => ex4) (fun hne => absurd rfl hne), hi4, (hc1.trans hc3).trans hc4,
            (hk1.trans (hk3 _) (Nat.le_refl _)).trans hk4 (Nat.le_refl _), fun _ => ?_⟩
          have e5 : s.varCounter + (nA + rets.length) = s.varCounter + nA + rets.length := by omega
          rw [e5]; exact hh4
        · obtain ⟨m3, exc, hi3, hc3, hk3, _⟩ := hok [] (Or.inr ⟨rfl, rfl⟩)
          have hz0 : ExecCmds ((copyCmdLines ctx rets.length 0 (s.varCounter + nA)).map Cmd.simple) m3 .normal m3 := by
            rw [hz]; exact ExecCmds.nil
          refine ⟨m3, pre exc (fun _ => hz0) (fun hne => absurd rfl hne), hi3, hc1.trans hc3,
            hk1.trans (hk3 _) (Nat.le_refl _), fun _ => ?_⟩
          rw [hz]; trivial
        · obtain ⟨m3, exc, ho3⟩ := hexit k rfl
          exact ⟨m3, pre exc (fun hn => by simp at hn) (fun _ => ⟨rfl, rfl⟩), ho3⟩
  | .sliceEval value index dt, s, res, s', hf, hc, h => by
    unfold Tr.evalExpr at h
    simp only [fragE, Bool.and_eq_true] at hf
    obtain ⟨a, s1, ha, h⟩ := bind_ok h
    obtain ⟨b, s2, hb, h⟩ := bind_ok h
    obtain ⟨t, s3, hop, h⟩ := bind_ok h
    obtain ⟨er, es⟩ := pure_ok h
    obtain ⟨newL, nL, rL, e1, simL⟩ := expr_semF hT hctx value s a s1 hf.1 hc ha
    subst e1
    obtain ⟨newR, nR, rR, e2, simR⟩ := expr_semF hT hctx index (reqSt (adv s newL nL) rL) b s2 hf.2 hc hb
    subst e2
    have hop' : sliceEvaluation (firstValue a) (firstValue b) (reqSt (adv (reqSt (adv s newL nL) rL) newR nR) rR) = .ok (t, s3) := hop
    have hvc : (reqSt (adv (reqSt (adv s newL nL) rL) newR nR) rR).varCounter = s.varCounter + nL + nR := rfl
    rw [sliceEvaluation_specF] at hop'
    injection hop' with hop'
    injection hop' with e3 e4
    subst er; subst e3
    rw [ctxOf_reqSt, ctxOf_adv, ctxOf_reqSt, ctxOf_adv, hc, hvc] at e4 ⊢
    refine ⟨_ :: (newR ++ newL), nL + nR + 1, rL.or rR, by rw [es, ← e4]; simp only [adv_reqSt, reqSt_reqSt, adv_adv]; rfl, ?_⟩
    refine esim_binary (esim_first simL) (esim_first simR) _ rfl (sline_helper _ _ _ _ _ rfl rfl) ?_
    intro fuel c res' hs
    have := two_to_esim (ctx := ctx) (tl := firstValue a) (tr := firstValue b) (k := s.varCounter + nL + nR)
      (line := .sliceLoad (ctx.hn (s.varCounter + nL + nR)) (firstValue a) (firstValue b))
      (hname := ctx.hn (s.varCounter + nL + nR)) ?_ (src_sliceEval hs)
    · rcases this with ⟨f, k, c1, h1, h2⟩ | ⟨f, a', c1, h1, h2⟩
      · exact Or.inl ⟨f, k, c1, single_exit h1, h2⟩
      · refine Or.inr ⟨f, a', c1, single_ok h1, ?_⟩
        rcases h2 with ⟨f', k, c2, h3, h4⟩ | ⟨f', b', c2, w, h3, h4, h5⟩
        · exact Or.inl ⟨f', k, c2, single_exit h3, h4⟩
        · exact Or.inr ⟨f', b', c2, w, single_ok h3, h4, h5⟩
    · intro c2 a' b' w m2 hopf hag h1 h2
      exact idx_step hopf hag h1 h2 _
  | .len x, s, res, s', hf, hc, h => by
    unfold Tr.evalExpr at h
    obtain ⟨a, s1, ha, h⟩ := bind_ok h
    obtain ⟨new, n, rq, e1, sim⟩ := expr_semF hT hctx x s a s1 (by simpa [fragE] using hf) hc ha
    subst e1
    have hvc : (reqSt (adv s new n) rq).varCounter = s.varCounter + n := rfl
    by_cases hstr : (Expr.valueType x).isString = true
    · simp only [hstr, if_true] at h
      obtain ⟨t, s2, hop, h⟩ := bind_ok h
      obtain ⟨er, es⟩ := pure_ok h
      have hop' : stringLen (firstValue a) (reqSt (adv s new n) rq) = .ok (t, s2) := hop
      rw [stringLen_specF] at hop'
      injection hop' with hop'
      injection hop' with e3 e4
      subst er; subst e3
      rw [ctxOf_reqSt, ctxOf_adv, hc, hvc] at e4 ⊢
      refine ⟨[Line.assignStrLen (ctx.hn (s.varCounter + n)) (ctx.hn (s.varCounter + n)), .assign (ctx.hn (s.varCounter + n)) (firstValue a)] ++ new,
        n + 1, rq, by rw [es, ← e4, adv_reqSt, adv_adv], ?_⟩
      refine esim_then (k := 1) (esim_first sim)
        (LinesOK.cons (sline_helper _ _ _ _ _ rfl rfl) (LinesOK.cons (sline_helper _ _ _ _ _ rfl rfl) (LinesOK.nil _ _ _))) ?_
      intro fuel c res' hs
      rcases src_len hs with ⟨f, k, c1, hx, hr⟩ | ⟨f, a', c1, hx, hcase⟩
      · exact Or.inl ⟨f, k, c1, single_exit hx, hr⟩
      · rcases hcase with ⟨str, hres, _, hr⟩ | ⟨id, _, hns, _⟩
        · refine Or.inr ⟨f, [a'], c1, _, c1, single_ok hx, hr, ?_⟩
          intro m1 hi1 hh
          exact len_str_post hi1 hh.1 hres
        · rw [hstr] at hns; cases hns
    · have hstr' : (Expr.valueType x).isString = false := by simpa using hstr
      simp only [hstr', Bool.false_eq_true, if_false] at h
      obtain ⟨t, s2, hop, h⟩ := bind_ok h
      obtain ⟨er, es⟩ := pure_ok h
      have hop' : sliceLen (firstValue a) (reqSt (adv s new n) rq) = .ok (t, s2) := hop
      rw [sliceLen_specF] at hop'
      injection hop' with hop'
      injection hop' with e3 e4
      subst er; subst e3
      rw [ctxOf_reqSt, ctxOf_adv, hc, hvc] at e4 ⊢
      refine ⟨_ :: new, n + 1, rq, by rw [es, ← e4, adv_reqSt, adv_adv]; rfl, ?_⟩
      refine esim_unary (esim_first sim) _ rfl (sline_helper _ _ _ _ _ rfl rfl) ?_
      intro fuel c res' hs
      rcases src_len hs with ⟨f, k, c1, hx, hr⟩ | ⟨f, a', c1, hx, hcase⟩
      · exact Or.inl ⟨f, k, c1, single_exit hx, hr⟩
      · rcases hcase with ⟨str, _, hys, _⟩ | ⟨id, hres, _, hr⟩
        · rw [hstr'] at hys; cases hys
        · refine Or.inr ⟨f, a', c1, .int (c1.heap id).length, single_ok hx, hr, ?_⟩
          intro m1 hag hh
          exact len_slice_step hag hh hres _
  | .substr value start none, s, res, s', hf, hc, h => by
    unfold Tr.evalExpr at h
    simp only [fragE, Bool.and_eq_true] at hf
    obtain ⟨a, s1, ha, h⟩ := bind_ok h
    obtain ⟨v, s2, hv, h⟩ := bind_ok h
    obtain ⟨t, s3, hop, h⟩ := bind_ok h
    obtain ⟨er, es⟩ := pure_ok h
    obtain ⟨newA, nA, rA, e1, simA⟩ := expr_semF hT hctx start s a s1 hf.1 hc ha
    subst e1
    obtain ⟨newV, nV, rV, e2, simV⟩ := expr_semF hT hctx value (reqSt (adv s newA nA) rA) v s2 hf.2 hc hv
    subst e2
    have hop' : stringSubscript (firstValue v) (firstValue a) (firstValue a) (reqSt (adv (reqSt (adv s newA nA) rA) newV nV) rV) = .ok (t, s3) := hop
    have hvc : (reqSt (adv (reqSt (adv s newA nA) rA) newV nV) rV).varCounter = s.varCounter + (nA + nV) := Nat.add_assoc _ _ _
    rw [stringSubscript_specF] at hop'
    injection hop' with hop'
    injection hop' with e3 e4
    subst er; subst e3
    rw [ctxOf_reqSt, ctxOf_adv, ctxOf_reqSt, ctxOf_adv, hc, hvc] at e4 ⊢
    have simS : ESim ctx T B (fun f c => evalSeq f [start, value] c) (newV ++ newA) s.varCounter (nA + nV) [firstValue a, firstValue v] := by
      have := esim_seq_cons (esim_first simA) (esim_seq_cons (esim_first simV) (esim_seq_nil ctx T B (s.varCounter + nA + nV)))
      simpa using this
    refine ⟨[Line.assign (ctx.hn (s.varCounter + (nA + nV))) "${_ret}", .ssh (firstValue v) (firstValue a) (firstValue a)] ++ (newV ++ newA),
      nA + nV + 1, (rA.or rV).or ⟨false, false, true⟩,
      by rw [es, ← e4]; simp only [adv_reqSt, reqSt_reqSt, adv_adv], ?_⟩
    refine esim_then (k := 1) simS
      (LinesOK.cons (sline_helper _ _ _ _ _ rfl rfl) (LinesOK.cons (sline_special3 _ _ _ _ _ _) (LinesOK.nil _ _ _))) ?_
    intro fuel c res' hs
    rcases src_substr1 hs with ⟨f, k, c1, hseq, hr⟩ | ⟨f, a', v', c2, i, str, n, hseq, ra, rv, hn, hr⟩
    · exact Or.inl ⟨f, k, c1, hseq, hr⟩
    · refine Or.inr ⟨f, [a', v'], c2, _, c2, hseq, hr, ?_⟩
      intro m1 hi1 hh
      exact substr_post hi1 hh.2.1 hh.1 hh.1 rv ra ra hn (by simp [natOf])
  | .substr value start (some stop), s, res, s', hf, hc, h => by
    unfold Tr.evalExpr at h
    simp only [fragE, Bool.and_eq_true] at hf
    obtain ⟨a, s1, ha, h⟩ := bind_ok h
    obtain ⟨b, s2, hb, h⟩ := bind_ok h
    obtain ⟨v, s3, hv, h⟩ := bind_ok h
    obtain ⟨t, s4, hop, h⟩ := bind_ok h
    obtain ⟨er, es⟩ := pure_ok h
    obtain ⟨newA, nA, rA, e1, simA⟩ := expr_semF hT hctx start s a s1 hf.1.1 hc ha
    subst e1
    obtain ⟨newB, nB, rB, e2, simB⟩ := expr_semF hT hctx stop (reqSt (adv s newA nA) rA) b s2 hf.1.2 hc hb
    subst e2
    obtain ⟨newV, nV, rV, e3, simV⟩ := expr_semF hT hctx value (reqSt (adv (reqSt (adv s newA nA) rA) newB nB) rB) v s3 hf.2 hc hv
    subst e3
    have hop' : stringSubscript (firstValue v) (firstValue a) (firstValue b)
        (reqSt (adv (reqSt (adv (reqSt (adv s newA nA) rA) newB nB) rB) newV nV) rV) = .ok (t, s4) := hop
    have hvc : (reqSt (adv (reqSt (adv (reqSt (adv s newA nA) rA) newB nB) rB) newV nV) rV).varCounter = s.varCounter + (nA + (nB + nV)) := by
      show s.varCounter + nA + nB + nV = _; omega
    rw [stringSubscript_specF] at hop'
    injection hop' with hop'
    injection hop' with e4 e5
    subst er; subst e4
    rw [ctxOf_reqSt, ctxOf_adv, ctxOf_reqSt, ctxOf_adv, ctxOf_reqSt, ctxOf_adv, hc, hvc] at e5 ⊢
    have simS : ESim ctx T B (fun f c => evalSeq f [start, stop, value] c) ((newV ++ newB) ++ newA) s.varCounter (nA + (nB + nV))
        [firstValue a, firstValue b, firstValue v] := by
      have := esim_seq_cons (esim_first simA) (esim_seq_cons (esim_first simB) (esim_seq_cons (esim_first simV)
        (esim_seq_nil ctx T B (s.varCounter + nA + nB + nV))))
      simpa using this
    refine ⟨[Line.assign (ctx.hn (s.varCounter + (nA + (nB + nV)))) "${_ret}", .ssh (firstValue v) (firstValue a) (firstValue b)] ++ ((newV ++ newB) ++ newA),
      nA + (nB + nV) + 1, ((rA.or rB).or rV).or ⟨false, false, true⟩,
      by rw [es, ← e5]; simp only [adv_reqSt, reqSt_reqSt, adv_adv, List.append_assoc, Nat.add_assoc], ?_⟩
    refine esim_then (k := 1) simS
      (LinesOK.cons (sline_helper _ _ _ _ _ rfl rfl) (LinesOK.cons (sline_special3 _ _ _ _ _ _) (LinesOK.nil _ _ _))) ?_
    intro fuel c res' hs
    rcases src_substr2 hs with ⟨f, k, c1, hseq, hr⟩ | ⟨f, a', b', v', c3, i, j, str, n, l, hseq, ra, rb, rv, hn, hl, hr⟩
    · exact Or.inl ⟨f, k, c1, hseq, hr⟩
    · refine Or.inr ⟨f, [a', b', v'], c3, _, c3, hseq, hr, ?_⟩
      intro m1 hi1 hh
      exact substr_post hi1 hh.2.2.1 hh.1 hh.2.1 rv ra rb hn hl
  | .copy dst src, s, res, s', hf, hc, h => by
    unfold Tr.evalExpr at h
    simp only [fragE, Bool.and_eq_true] at hf
    obtain ⟨a, s1, ha, h⟩ := bind_ok h
    obtain ⟨t, s2, hop, h⟩ := bind_ok h
    obtain ⟨er, es⟩ := pure_ok h
    obtain ⟨new, n, rq, e1, sim⟩ := expr_semF hT hctx src s a s1 hf.2 hc ha
    subst e1
    have hvc : (reqSt (adv s new n) rq).varCounter = s.varCounter + n := rfl
    have hop' : copyOp dst.name (firstValue a) dst.global (reqSt (adv s new n) rq) = .ok (t, s2) := hop
    rw [copyOp_specF] at hop'
    injection hop' with hop'
    injection hop' with e3 e4
    subst er; subst e3
    rw [ctxOf_reqSt, ctxOf_adv, hc, hvc] at e4 ⊢
    refine ⟨[Line.assignSliceLen (ctx.hn (s.varCounter + n)) (firstValue a), .sch (ctx.mg dst.name dst.global) (firstValue a)] ++ new,
      n + 1, rq.or ⟨true, true, false⟩, by rw [es, ← e4]; simp only [adv_reqSt, reqSt_reqSt, adv_adv], ?_⟩
    refine esim_then (k := 1) (esim_first sim)
      (LinesOK.cons (sline_helper _ _ _ _ _ rfl rfl) (LinesOK.cons (sline_plain _ _ _ _ rfl rfl) (LinesOK.nil _ _ _))) ?_
    intro fuel c res' hs
    rcases src_copy hs with ⟨f, k, c1, hx, hr⟩ | ⟨f, a', c1, sid, did, hx, hres, hdst, hdid, hr⟩
    · exact Or.inl ⟨f, k, c1, single_exit hx, hr⟩
    · refine Or.inr ⟨f, [a'], c1, _, _, single_ok hx, hr, ?_⟩
      intro m1 hi1 hh
      exact copy_post hi1 hh.1 hres hdst hdid
  | .sliceNew dt vals, s, res, s', hf, hc, h => by
    unfold Tr.evalExpr at h
    simp only [fragE] at hf
    obtain ⟨as, s1, ha, h⟩ := bind_ok h
    obtain ⟨t, s2, hop, h⟩ := bind_ok h
    obtain ⟨er, es⟩ := pure_ok h
    obtain ⟨newA, nA, rA, e1, simA⟩ := args_semF hT hctx vals s as s1 hf hc ha
    subst e1
    have hvc : (reqSt (adv s newA nA) rA).varCounter = s.varCounter + nA := rfl
    have hop' : sliceInstantiation as (reqSt (adv s newA nA) rA) = .ok (t, s2) := hop
    rw [sliceInstantiation_specF] at hop'
    injection hop' with hop'
    injection hop' with e3 e4
    subst er; subst e3
    rw [ctxOf_reqSt, ctxOf_adv, hc, hvc] at e4 ⊢
    refine ⟨((sahInitLines ("${" ++ ctx.hn (s.varCounter + nA) ++ "}") as 0).reverse ++
        [Line.assign (ctx.hn (s.varCounter + nA)) ("_dv" ++ "${_dvc}"), .dvcIncr]) ++ newA,
      nA + 1, rA.or ⟨!as.isEmpty, false, false⟩, by rw [es, ← e4]; simp only [adv_reqSt, reqSt_reqSt, adv_adv], ?_⟩
    refine esim_then (k := 1) simA
      (LinesOK.append (LinesOK.reverse (sahInitLines_ok _ _ _ _ _ _))
        (LinesOK.cons (sline_helper _ _ _ _ _ rfl rfl) (LinesOK.cons (sline_special1 _ _ _ _ (by decide) rfl rfl) (LinesOK.nil _ _ _)))) ?_
    intro fuel c res' hs
    rcases src_sliceNew hs with ⟨f, k, c1, hx, hr⟩ | ⟨f, os, c1, vs, hx, hrv, hrange, hr⟩
    · exact Or.inl ⟨f, k, c1, hx, hr⟩
    · refine Or.inr ⟨f, os, c1, _, _, hx, hr, ?_⟩
      intro m1 hi1 hh
      exact sliceNew_post hi1 hh hrv hrange
  | .app _ _ _, _, _, _, hf, _, _ => by simp [fragE] at hf
  | .exists_ _, _, _, _, hf, _, _ => by simp [fragE] at hf
  | .read _, _, _, _, hf, _, _ => by simp [fragE] at hf
  | .input _, _, _, _, hf, _, _ => by simp [fragE] at hf
  | .write _ _ _, _, _, _, hf, _, _ => by simp [fragE] at hf
  | .bad _, _, _, _, hf, _, _ => by simp [fragE] at hf

theorem args_semF {ctx : Ctx} {T : List FEntry} {B : Nat} (hT : TableOK T) (hctx : CtxOK ctx T B) :
    ∀ (es : List Expr) (s : St) (ts : List String) (s' : St), fragEs (tnames T) es = true → ctxOf s = ctx →
      Tr.evalArgs conv es s = .ok (ts, s') →
      ∃ new n rq, s' = reqSt (adv s new n) rq ∧ ESim ctx T B (fun f c => Src.evalArgs f es c) new s.varCounter n ts
  | [], s, ts, s', _, hc, h => by
    unfold Tr.evalArgs at h
    obtain ⟨er, es⟩ := pure_ok h
    subst er
    refine ⟨[], 0, Req.none, by rw [es, reqSt_none]; rfl, esim_leaf ctx T B _ _ _ ?_⟩
    intro fuel c res hs
    cases fuel with
    | zero => simp [Src.evalArgs] at hs
    | succ f =>
      simp only [Src.evalArgs, Option.some.injEq] at hs
      exact ⟨[], hs.symm, fun _ => trivial⟩
  | e :: rest, s, ts, s', hf, hc, h => by
    unfold Tr.evalArgs at h
    simp only [fragEs, Bool.and_eq_true] at hf
    obtain ⟨r, s1, h1, h⟩ := bind_ok h
    obtain ⟨rs, s2, h2, h⟩ := bind_ok h
    obtain ⟨er, es⟩ := pure_ok h
    obtain ⟨newE, nE, rE, e1, simE⟩ := expr_semF hT hctx e s r s1 hf.1 hc h1
    subst e1
    obtain ⟨newR, nR, rR, e2, simR⟩ := args_semF hT hctx rest (reqSt (adv s newE nE) rE) rs s2 hf.2 hc h2
    subst e2
    subst er
    exact ⟨newR ++ newE, nE + nR, rE.or rR, by rw [es]; simp only [adv_reqSt, reqSt_reqSt, adv_adv], esim_args_cons (esim_first simE) simR⟩
end

end Tsh.Sem2
