import TshVerif.Lemmas.ParserTypedExpr
namespace Tsh.Parser
open Tsh Tsh.Tr Tsh.LexTables

/-! ### calls agree with signatures: the expression parser -/

def sigOf (f : FuncInfo) : PT.Sig := ⟨f.name, f.rets, f.params.map (·.vt)⟩

/-- every function the context knows has its signature in `F` -/
def FuncsIn (F : List PT.Sig) (ctx : Ctx) : Prop := ∀ e ∈ ctx.funcs, sigOf e.2 ∈ F

def sigP (F : List PT.Sig) (e : Expr) : Prop := PT.sigE F e = true
def sigsP (F : List PT.Sig) (es : List Expr) : Prop := PT.sigEs F es = true

theorem sigsP.out {F : List PT.Sig} {es : List Expr} (h : sigsP F es) : PT.sigEs F es = true := h
theorem sigP.out {F : List PT.Sig} {e : Expr} (h : sigP F e) : PT.sigE F e = true := h

def argsPrefix : List ValueType → List Expr → Bool
  | _, [] => true
  | p :: ps, e :: es => p.equals (Expr.valueType e) && argsPrefix ps es
  | [], _ :: _ => false

theorem argsPrefix_snoc : ∀ {ps : List ValueType} {acc : List Expr} {e : Expr} {p : ValueType}, argsPrefix ps acc = true →
    ps[acc.length]? = some p → p.equals (Expr.valueType e) = true → argsPrefix ps (acc ++ [e]) = true
  | [], [], _, _, _, h, _ => by simp at h
  | p0 :: ps, [], e, p, _, h, he => by
      simp only [List.length_nil, List.getElem?_cons_zero, Option.some.injEq] at h
      subst h
      simp [argsPrefix, he]
  | [], _ :: _, _, _, h, _, _ => by simp [argsPrefix] at h
  | p0 :: ps, a :: acc, e, p, hp, h, he => by
      simp only [argsPrefix, Bool.and_eq_true] at hp
      simp only [List.length_cons, List.getElem?_cons_succ] at h
      simp only [List.cons_append, argsPrefix, Bool.and_eq_true]
      exact ⟨hp.1, argsPrefix_snoc hp.2 h he⟩

theorem argsMatch_of_prefix : ∀ {ps : List ValueType} {args : List Expr}, argsPrefix ps args = true → args.length = ps.length →
    PT.argsMatch ps args = true
  | [], [], _, _ => rfl
  | p :: ps, [], _, h => by simp at h
  | [], _ :: _, h, _ => by simp [argsPrefix] at h
  | p :: ps, a :: args, hp, h => by
      simp only [argsPrefix, Bool.and_eq_true] at hp
      simp only [PT.argsMatch, Bool.and_eq_true]
      exact ⟨hp.1, argsMatch_of_prefix hp.2 (by simpa using h)⟩

theorem sigs_snoc {F : List PT.Sig} {acc : List Expr} {e : Expr} (ha : sigsP F acc) (he : sigP F e) : sigsP F (acc ++ [e]) := by
  induction acc with
  | nil => simp [sigsP, PT.sigEs, he.out]
  | cons x xs ih =>
    simp only [sigsP, PT.sigEs, Bool.and_eq_true] at ha
    simp only [sigsP, List.cons_append, PT.sigEs, Bool.and_eq_true]
    exact ⟨ha.1, ih ha.2⟩

/-- what the argument loop has established so far -/
def argAcc (F : List PT.Sig) (ps : Option (List Var)) (acc : List Expr) : Prop :=
  sigsP F acc ∧ ∀ l, ps = some l → argsPrefix (l.map (·.vt)) acc = true

def argsRes (F : List PT.Sig) (ps : Option (List Var)) (args : List Expr) : Prop :=
  sigsP F args ∧ ∀ l, ps = some l → PT.argsMatch (l.map (·.vt)) args = true

structure SigIH (F : List PT.Sig) (fuel : Nat) : Prop where
  values : ∀ ctx first, FuncsIn F ctx → PostOk (evalValues fuel ctx first) (sigsP F)
  builtinArgs : ∀ ctx, FuncsIn F ctx → PostOk (evalBuiltinArgs fuel ctx) (sigsP F)
  builtin : ∀ ctx tt mn mx, FuncsIn F ctx → PostOk (evalBuiltin fuel ctx tt mn mx) (sigsP F)
  arguments : ∀ ctx ps, FuncsIn F ctx → PostOk (evalArguments fuel ctx ps) (argsRes F ps)
  argLoop : ∀ ctx ps acc, FuncsIn F ctx → argAcc F ps acc → PostOk (evalArgLoop fuel ctx ps acc) (argAcc F ps)
  argTail : ∀ ctx ps acc, FuncsIn F ctx → argAcc F ps acc → PostOk (evalArgTail fuel ctx ps acc) (argAcc F ps)
  functionCall : ∀ ctx, FuncsIn F ctx → PostOk (evalFunctionCall fuel ctx) (sigP F)
  appCall : ∀ ctx, FuncsIn F ctx → PostOk (evalAppCall fuel ctx) (sigP F)
  sliceInst : ∀ ctx, FuncsIn F ctx → PostOk (evalSliceInstantiation fuel ctx) (sigP F)
  sliceElems : ∀ ctx dt, FuncsIn F ctx → PostOk (evalSliceElems fuel ctx dt) (sigsP F)
  subscript : ∀ ctx, FuncsIn F ctx → PostOk (evalSubscript fuel ctx) (sigP F)
  single : ∀ ctx, FuncsIn F ctx → PostOk (evalSingle fuel ctx) (sigP F)
  unary : ∀ ctx, FuncsIn F ctx → PostOk (evalUnary fuel ctx) (sigP F)
  binary : ∀ ctx lv, FuncsIn F ctx → PostOk (evalBinary fuel ctx lv) (sigP F)
  binaryLoop : ∀ ctx lv l, FuncsIn F ctx → sigP F l → PostOk (evalBinaryLoop fuel ctx lv l) (sigP F)
  comparison : ∀ ctx, FuncsIn F ctx → PostOk (evalComparison fuel ctx) (sigP F)
  logical : ∀ ctx lv, FuncsIn F ctx → PostOk (evalLogical fuel ctx lv) (sigP F)
  logicalLoop : ∀ ctx lv l, FuncsIn F ctx → sigP F l → PostOk (evalLogicalLoop fuel ctx lv l) (sigP F)
  expression : ∀ ctx, FuncsIn F ctx → PostOk (evalExpression fuel ctx) (sigP F)

set_option hygiene false in
macro "sg_ih" : tactic => `(tactic| first
  | exact ih.expression ctx hc | exact ih.values ctx _ hc | exact ih.builtinArgs ctx hc | exact ih.builtin ctx _ _ _ hc
  | exact ih.arguments ctx _ hc | exact ih.functionCall ctx hc | exact ih.appCall ctx hc | exact ih.sliceInst ctx hc
  | exact ih.sliceElems ctx _ hc | exact ih.subscript ctx hc | exact ih.single ctx hc | exact ih.unary ctx hc
  | exact ih.binary ctx _ hc | exact ih.comparison ctx hc | exact ih.logical ctx _ hc)

local macro "sg_bind" : tactic => `(tactic| first
  | refine PostOk.bind' (by sg_ih) ?_
  | refine PostOk.bindAny ?_)

variable {F : List PT.Sig} {fuel : Nat}

theorem sg_varEvaluation (ctx : Ctx) : PostOk (evalVarEvaluation ctx) (sigP F) := by
  unfold evalVarEvaluation
  po_bind; intro t
  po_if
  · exact PostOk.err
  po_bind; intro s
  split
  · exact PostOk.pure' rfl
  · exact PostOk.err

theorem sg_values (ih : SigIH F fuel) (ctx : Ctx) (first : Bool) (hc : FuncsIn F ctx) :
    PostOk (evalValues (fuel + 1) ctx first) (sigsP F) := by
  unfold evalValues
  sg_bind; intro e he
  sg_bind; intro next
  dsimp only
  po_if
  · exact PostOk.err
  po_if
  · exact PostOk.err
  po_if
  · exact PostOk.err
  po_if
  · exact PostOk.pure' (by simp [sigsP, PT.sigEs, he.out])
  sg_bind; intro _
  po_if
  · exact PostOk.err
  sg_bind; intro rest hrest
  exact PostOk.pure' (by simp [sigsP, PT.sigEs, he.out, hrest.out])

theorem sg_builtinArgs (ih : SigIH F fuel) (ctx : Ctx) (hc : FuncsIn F ctx) :
    PostOk (evalBuiltinArgs (fuel + 1) ctx) (sigsP F) := by
  unfold evalBuiltinArgs
  sg_bind; intro e he
  po_if
  · exact PostOk.err
  sg_bind; intro next
  po_if
  · sg_bind; intro _
    sg_bind; intro rest hr
    exact PostOk.pure' (by simp [sigsP, PT.sigEs, he.out, hr.out])
  po_if
  · exact PostOk.pure' (by simp [sigsP, PT.sigEs, he.out])
  · exact PostOk.err

theorem sg_builtin (ih : SigIH F fuel) (ctx : Ctx) (tt mn : Nat) (mx : Option Nat) (hc : FuncsIn F ctx) :
    PostOk (evalBuiltin (fuel + 1) ctx tt mn mx) (sigsP F) := by
  unfold evalBuiltin
  sg_bind; intro kw
  po_if
  · exact PostOk.err
  sg_bind; intro o
  po_if
  · exact PostOk.err
  sg_bind; intro n
  refine PostOk.bind' (P := sigsP F) ?_ ?_
  · po_if
    · sg_ih
    · exact PostOk.pure' rfl
  intro args ha
  po_if
  · exact PostOk.err
  po_if
  · exact PostOk.err
  sg_bind; intro c
  po_if
  · exact PostOk.err
  · exact PostOk.pure' ha

theorem sg_arguments (ih : SigIH F fuel) (ctx : Ctx) (ps : Option (List Var)) (hc : FuncsIn F ctx) :
    PostOk (evalArguments (fuel + 1) ctx ps) (argsRes F ps) := by
  unfold evalArguments
  sg_bind; intro o
  po_if
  · exact PostOk.err
  refine PostOk.bind' (ih.argLoop ctx ps [] hc ⟨rfl, fun _ _ => by simp [argsPrefix]⟩) ?_
  intro args ha
  dsimp only
  have jp : ∀ (hl : ∀ l, ps = some l → args.length = l.length), PostOk (do
      let c ← eat
      if (c.ty != TT_CLOSING_ROUND_BRACKET) = true then err else pure args) (argsRes F ps) := by
    intro hl
    po_bind; intro c
    po_if
    · exact PostOk.err
    · refine PostOk.pure' ⟨ha.1, ?_⟩
      intro l hps
      exact argsMatch_of_prefix (ha.2 l hps) (by simpa using hl l hps)
  split
  · rename_i l
    po_if
    · exact PostOk.errBind
    · rename_i hlen
      refine jp ?_
      intro l' h'
      simp only [Option.some.injEq] at h'
      subst h'
      simpa using hlen
  · exact jp (fun l h => by simp at h)

theorem sg_argLoop (ih : SigIH F fuel) (ctx : Ctx) (ps : Option (List Var)) (acc : List Expr) (hc : FuncsIn F ctx)
    (hacc : argAcc F ps acc) : PostOk (evalArgLoop (fuel + 1) ctx ps acc) (argAcc F ps) := by
  unfold evalArgLoop
  sg_bind; intro n
  po_if
  · exact PostOk.pure' hacc
  sg_bind; intro e he
  dsimp only
  po_if
  · exact PostOk.err
  split
  · rename_i l
    po_if
    · exact PostOk.err
    split
    · exact PostOk.pan
    · rename_i p hp
      po_if
      · exact PostOk.err
      · rename_i heq
        refine ih.argTail ctx _ _ hc ⟨sigs_snoc hacc.1 he, ?_⟩
        intro l' h'
        simp only [Option.some.injEq] at h'
        subst h'
        refine argsPrefix_snoc (p := p.vt) (hacc.2 _ rfl) ?_ (by simpa using heq)
        simp only [List.length_append, List.length_cons, List.length_nil, Nat.add_sub_cancel] at hp
        simp [List.getElem?_map, hp]
  · exact ih.argTail ctx _ _ hc ⟨sigs_snoc hacc.1 he, fun l h => by simp at h⟩

theorem sg_argTail (ih : SigIH F fuel) (ctx : Ctx) (ps : Option (List Var)) (acc : List Expr) (hc : FuncsIn F ctx)
    (hacc : argAcc F ps acc) : PostOk (evalArgTail (fuel + 1) ctx ps acc) (argAcc F ps) := by
  unfold evalArgTail
  sg_bind; intro n
  po_if
  · exact PostOk.err
  po_if
  · sg_bind; intro _
    exact ih.argLoop ctx _ _ hc hacc
  · exact ih.argLoop ctx _ _ hc hacc

theorem findFunc_in {ctx : Ctx} {name pfx : String} {f : FuncInfo} (hc : FuncsIn F ctx) (h : ctx.findFunc name pfx = some f) :
    sigOf f ∈ F := by
  obtain ⟨e, he, rfl⟩ := findFunc_mem h
  exact hc e he

theorem declares_of_mem {f : FuncInfo} {args : List Expr} (hf : sigOf f ∈ F) (hm : PT.argsMatch (f.params.map (·.vt)) args = true) :
    PT.declares F f.name f.rets args = true := by
  unfold PT.declares
  rw [List.any_eq_true]
  exact ⟨sigOf f, hf, by simp [sigOf, hm]⟩

theorem sg_functionCall (ih : SigIH F fuel) (ctx : Ctx) (hc : FuncsIn F ctx) :
    PostOk (evalFunctionCall (fuel + 1) ctx) (sigP F) := by
  unfold evalFunctionCall
  sg_bind; intro first
  sg_bind; intro dot
  sg_bind; rintro ⟨alias, nameTok⟩
  po_if
  · exact PostOk.err
  sg_bind; intro s
  dsimp only
  split
  · exact PostOk.err
  · rename_i f hf
    refine PostOk.bind' (ih.arguments ctx (some f.params) hc) ?_
    intro args ha
    sg_bind; intro _
    refine PostOk.pure' ?_
    simp only [sigP, PT.sigE, ha.1.out, Bool.true_and]
    exact declares_of_mem (findFunc_in hc hf) (ha.2 _ rfl)

theorem sg_appCall (ih : SigIH F fuel) (ctx : Ctx) (hc : FuncsIn F ctx) :
    PostOk (evalAppCall (fuel + 1) ctx) (sigP F) := by
  unfold evalAppCall
  sg_bind; intro at_
  po_if
  · exact PostOk.err
  sg_bind; intro n
  po_if
  · exact PostOk.err
  sg_bind; intro args ha
  sg_bind; intro p
  po_if
  · sg_bind; intro _
    sg_bind; intro next hn
    exact PostOk.pure' (by simp [sigP, PT.sigE, ha.1.out, hn.out])
  · exact PostOk.pure' (by simp [sigP, PT.sigE, ha.1.out])

theorem sg_sliceInst (ih : SigIH F fuel) (ctx : Ctx) (hc : FuncsIn F ctx) :
    PostOk (evalSliceInstantiation (fuel + 1) ctx) (sigP F) := by
  unfold evalSliceInstantiation
  sg_bind; intro vt
  po_if
  · exact PostOk.err
  sg_bind; intro o
  po_if
  · exact PostOk.err
  sg_bind; intro n
  refine PostOk.bind' (P := sigsP F) ?_ ?_
  · po_if
    · sg_ih
    · exact PostOk.pure' rfl
  intro vals hv
  sg_bind; intro c
  po_if
  · exact PostOk.err
  · exact PostOk.pure' (by simp [sigP, PT.sigE, hv.out])

theorem sg_sliceElems (ih : SigIH F fuel) (ctx : Ctx) (dt : DataType) (hc : FuncsIn F ctx) :
    PostOk (evalSliceElems (fuel + 1) ctx dt) (sigsP F) := by
  unfold evalSliceElems
  sg_bind; intro e he
  po_if
  · exact PostOk.err
  sg_bind; intro n
  po_if
  · sg_bind; intro _
    sg_bind; intro rest hr
    exact PostOk.pure' (by simp [sigsP, PT.sigEs, he.out, hr.out])
  po_if
  · exact PostOk.pure' (by simp [sigsP, PT.sigEs, he.out])
  · exact PostOk.err

theorem sg_subscript (ih : SigIH F fuel) (ctx : Ctx) (hc : FuncsIn F ctx) :
    PostOk (evalSubscript (fuel + 1) ctx) (sigP F) := by
  unfold evalSubscript
  sg_bind; intro vt0
  refine PostOk.bind' (P := sigP F) ?_ ?_
  · po_if
    · exact sg_varEvaluation ctx
    po_if
    · sg_ih
    · exact PostOk.err
  intro value hv
  dsimp only
  po_if
  · exact PostOk.err
  sg_bind; intro o
  po_if
  · exact PostOk.err
  sg_bind; intro n
  refine PostOk.bind' (P := sigP F) ?_ ?_
  · po_if
    · sg_bind; intro _
      exact PostOk.pure' rfl
    · sg_ih
  intro start hs
  po_if
  · exact PostOk.err
  sg_bind; intro n2
  sg_bind; intro gotRange
  po_if
  · exact PostOk.err
  sg_bind; intro n3
  refine PostOk.bind' (P := sigP F) ?_ ?_
  · po_if
    · sg_bind; intro _
      refine PostOk.pure' ?_
      split
      · simp [sigP, PT.sigE, hv.out]
      · exact hs
    · sg_bind; intro e he
      sg_bind; intro c
      po_if
      · exact PostOk.err
      · exact PostOk.pure' (by simp [sigP, PT.sigE, he.out])
  intro stop hstop
  po_if
  · exact PostOk.err
  po_if
  · refine PostOk.pure' ?_
    cases gotRange <;> simp [sigP, PT.sigE, hv.out, hs.out, hstop.out]
  · exact PostOk.pure' (by simp [sigP, PT.sigE, hv.out, hs.out])

theorem sigs1 {a : Expr} (h : sigsP F [a]) : sigP F a := by
  simp [sigsP, PT.sigEs] at h; exact h
theorem sigs2 {a b : Expr} (h : sigsP F [a, b]) : sigP F a ∧ sigP F b := by
  simp [sigsP, PT.sigEs] at h; exact h

theorem sg_single (ih : SigIH F fuel) (ctx : Ctx) (hc : FuncsIn F ctx) :
    PostOk (evalSingle (fuel + 1) ctx) (sigP F) := by
  unfold evalSingle
  sg_bind; intro t
  po_if
  · sg_bind; intro _
    exact PostOk.pure' rfl
  po_if
  · sg_bind; intro _
    split
    · exact PostOk.pure' rfl
    · exact PostOk.err
  po_if
  · sg_bind; intro _
    exact PostOk.pure' rfl
  po_if
  · sg_bind; intro _
    exact PostOk.pure' rfl
  po_if
  · sg_bind; intro _
    sg_bind; intro child hch
    sg_bind; intro c
    po_if
    · exact PostOk.err
    · exact PostOk.pure' (by simpa [sigP, PT.sigE] using hch)
  po_if
  · sg_ih
  po_if
  · sg_bind; intro args ha
    split
    · exact PostOk.pure' rfl
    · po_if
      · exact PostOk.err
      · refine PostOk.pure' ?_
        simp only [sigsP, PT.sigEs, Bool.and_eq_true] at ha
        simp [sigP, PT.sigE, ha.1]
  po_if
  · sg_bind; intro args ha
    split
    · po_if
      · exact PostOk.err
      · exact PostOk.pure' (by simpa [sigP, PT.sigE] using sigs1 ha)
    · exact PostOk.pan
  po_if
  · sg_bind; intro args ha
    split
    · split
      · po_if
        · exact PostOk.err
        po_if
        · exact PostOk.err
        po_if
        · exact PostOk.err
        · exact PostOk.pure' (by simpa [sigP, PT.sigE] using (sigs2 ha).2)
      · exact PostOk.err
    · exact PostOk.pan
  po_if
  · sg_bind; intro args ha
    split
    · po_if
      · exact PostOk.err
      · exact PostOk.pure' (by simpa [sigP, PT.sigE] using sigs1 ha)
    · exact PostOk.pan
  po_if
  · sg_bind; intro args ha
    split
    · po_if
      · exact PostOk.err
      · exact PostOk.pure' (by simpa [sigP, PT.sigE] using sigs1 ha)
    · exact PostOk.pan
  po_if
  · sg_bind; intro args ha
    split
    · po_if
      · exact PostOk.err
      · exact PostOk.pure' (by simpa [sigP, PT.sigE] using sigs1 ha)
    · exact PostOk.pan
  po_if
  · sg_ih
  po_if
  · sg_bind; intro n
    po_if
    · sg_ih
    po_if
    · sg_ih
    · exact sg_varEvaluation ctx
  · exact PostOk.err

theorem sg_unary (ih : SigIH F fuel) (ctx : Ctx) (hc : FuncsIn F ctx) :
    PostOk (evalUnary (fuel + 1) ctx) (sigP F) := by
  unfold evalUnary
  sg_bind; intro t
  dsimp only
  have fin : ∀ e, sigP F e → PostOk (if (t.ty == TT_UNARY_OPERATOR && t.val == "!") = true then
          if (!(Expr.valueType e).isBool) = true then err else pure (Expr.unary "!" e (Expr.valueType e))
        else pure e) (sigP F) := by
    intro e he
    po_if
    · po_if
      · exact PostOk.err
      · exact PostOk.pure' (by simpa [sigP, PT.sigE] using he)
    · exact PostOk.pure' he
  po_if
  · sg_bind; intro _
    sg_bind; intro e he
    exact fin e he
  · sg_bind; intro e he
    exact fin e he

theorem sg_binary (ih : SigIH F fuel) (ctx : Ctx) (lv : Nat) (hc : FuncsIn F ctx) :
    PostOk (evalBinary (fuel + 1) ctx lv) (sigP F) := by
  unfold evalBinary
  refine PostOk.bind' (P := sigP F) ?_ ?_
  · po_if
    · sg_ih
    · sg_ih
  intro left hl
  exact ih.binaryLoop ctx _ _ hc hl

theorem sg_binaryLoop (ih : SigIH F fuel) (ctx : Ctx) (lv : Nat) (l : Expr) (hc : FuncsIn F ctx) (hl : sigP F l) :
    PostOk (evalBinaryLoop (fuel + 1) ctx lv l) (sigP F) := by
  unfold evalBinaryLoop
  dsimp only
  sg_bind; intro t
  po_if
  · exact PostOk.pure' hl
  sg_bind; intro _
  refine PostOk.bind' (P := sigP F) ?_ ?_
  · po_if
    · sg_ih
    · sg_ih
  intro right hr
  po_if
  · exact PostOk.err
  po_if
  · exact PostOk.err
  exact ih.binaryLoop ctx _ _ hc (by simp [sigP, PT.sigE, hl.out, hr.out])

theorem sg_comparison (ih : SigIH F fuel) (ctx : Ctx) (hc : FuncsIn F ctx) :
    PostOk (evalComparison (fuel + 1) ctx) (sigP F) := by
  unfold evalComparison
  sg_bind; intro left hl
  sg_bind; intro t
  po_if
  · sg_bind; intro _
    sg_bind; intro right hr
    dsimp only
    po_if
    · exact PostOk.err
    po_if
    · exact PostOk.err
    exact PostOk.pure' (by simp [sigP, PT.sigE, hl.out, hr.out])
  · exact PostOk.pure' hl

theorem sg_logical (ih : SigIH F fuel) (ctx : Ctx) (lv : Nat) (hc : FuncsIn F ctx) :
    PostOk (evalLogical (fuel + 1) ctx lv) (sigP F) := by
  unfold evalLogical
  refine PostOk.bind' (P := sigP F) ?_ ?_
  · po_if
    · sg_ih
    · sg_ih
  intro left hl
  exact ih.logicalLoop ctx _ _ hc hl

theorem sg_logicalLoop (ih : SigIH F fuel) (ctx : Ctx) (lv : Nat) (l : Expr) (hc : FuncsIn F ctx) (hl : sigP F l) :
    PostOk (evalLogicalLoop (fuel + 1) ctx lv l) (sigP F) := by
  unfold evalLogicalLoop
  dsimp only
  sg_bind; intro t
  po_if
  · exact PostOk.pure' hl
  po_if
  · exact PostOk.err
  sg_bind; intro _
  refine PostOk.bind' (P := sigP F) ?_ ?_
  · po_if
    · sg_ih
    · sg_ih
  intro right hr
  po_if
  · exact PostOk.err
  exact ih.logicalLoop ctx _ _ hc (by simp [sigP, PT.sigE, hl.out, hr.out])

theorem sg_expression (ih : SigIH F fuel) (ctx : Ctx) (hc : FuncsIn F ctx) :
    PostOk (evalExpression (fuel + 1) ctx) (sigP F) := by
  unfold evalExpression
  sg_ih

theorem sigIH_all (F : List PT.Sig) : ∀ fuel, SigIH F fuel := by
  intro fuel
  induction fuel with
  | zero =>
    constructor <;> intros <;>
      first
        | (unfold evalValues; exact PostOk.div) | (unfold evalBuiltinArgs; exact PostOk.div) | (unfold evalBuiltin; exact PostOk.div)
        | (unfold evalArguments; exact PostOk.div) | (unfold evalArgLoop; exact PostOk.div) | (unfold evalArgTail; exact PostOk.div)
        | (unfold evalFunctionCall; exact PostOk.div) | (unfold evalAppCall; exact PostOk.div)
        | (unfold evalSliceInstantiation; exact PostOk.div) | (unfold evalSliceElems; exact PostOk.div)
        | (unfold evalSubscript; exact PostOk.div) | (unfold evalSingle; exact PostOk.div) | (unfold evalUnary; exact PostOk.div)
        | (unfold evalBinary; exact PostOk.div) | (unfold evalBinaryLoop; exact PostOk.div) | (unfold evalComparison; exact PostOk.div)
        | (unfold evalLogical; exact PostOk.div) | (unfold evalLogicalLoop; exact PostOk.div) | (unfold evalExpression; exact PostOk.div)
  | succ fuel ih =>
    exact {
      values := fun ctx first hc => sg_values ih ctx first hc
      builtinArgs := fun ctx hc => sg_builtinArgs ih ctx hc
      builtin := fun ctx tt mn mx hc => sg_builtin ih ctx tt mn mx hc
      arguments := fun ctx ps hc => sg_arguments ih ctx ps hc
      argLoop := fun ctx ps acc hc ha => sg_argLoop ih ctx ps acc hc ha
      argTail := fun ctx ps acc hc ha => sg_argTail ih ctx ps acc hc ha
      functionCall := fun ctx hc => sg_functionCall ih ctx hc
      appCall := fun ctx hc => sg_appCall ih ctx hc
      sliceInst := fun ctx hc => sg_sliceInst ih ctx hc
      sliceElems := fun ctx dt hc => sg_sliceElems ih ctx dt hc
      subscript := fun ctx hc => sg_subscript ih ctx hc
      single := fun ctx hc => sg_single ih ctx hc
      unary := fun ctx hc => sg_unary ih ctx hc
      binary := fun ctx lv hc => sg_binary ih ctx lv hc
      binaryLoop := fun ctx lv l hc hl => sg_binaryLoop ih ctx lv l hc hl
      comparison := fun ctx hc => sg_comparison ih ctx hc
      logical := fun ctx lv hc => sg_logical ih ctx lv hc
      logicalLoop := fun ctx lv l hc hl => sg_logicalLoop ih ctx lv l hc hl
      expression := fun ctx hc => sg_expression ih ctx hc }
