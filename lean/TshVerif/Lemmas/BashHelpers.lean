/-
  The bash converter's helper routines are emitted exactly under three flags; this file shows that every
  line that calls a helper routine is accompanied by its flag: whenever `_sah`, `_sch` or `_ssh` is called
  anywhere in the script, the routine is defined in the script (for every program, no hypothesis).
-/
import TshVerif.Lemmas.BashFrame
namespace Tsh.Bash
open Tsh Tsh.Tr

def Line.needsSah : Line → Bool | .sah _ _ _ _ | .sahInit _ _ _ => true | _ => false
def Line.needsSch : Line → Bool | .sch _ _ => true | _ => false
def Line.needsSsh : Line → Bool | .ssh _ _ _ => true | _ => false

/-- flags only go up; every appended line that calls a helper has its flag set afterwards -/
structure HStep (s s' : St) : Prop where
  sah : s.sahReq = true → s'.sahReq = true
  sch : s.schReq = true → s'.schReq = true
  ssh : s.sshReq = true → s'.sshReq = true
  start : s'.startCode = s.startCode
  code : ∃ new, s'.code = new ++ s.code ∧
    ∀ l ∈ new, (l.needsSah = true → s'.sahReq = true) ∧ (l.needsSch = true → s'.schReq = true) ∧ (l.needsSsh = true → s'.sshReq = true)

theorem HStep.refl (s : St) : HStep s s := ⟨id, id, id, rfl, [], by simp, by simp⟩

theorem HStep.trans {a b c : St} (h1 : HStep a b) (h2 : HStep b c) : HStep a c := by
  obtain ⟨n1, hc1, hs1⟩ := h1.code
  obtain ⟨n2, hc2, hs2⟩ := h2.code
  refine ⟨fun h => h2.sah (h1.sah h), fun h => h2.sch (h1.sch h), fun h => h2.ssh (h1.ssh h), h2.start.trans h1.start, n2 ++ n1, by simp [hc2, hc1], ?_⟩
  intro l hl
  simp at hl
  rcases hl with hl | hl
  · exact hs2 l hl
  · obtain ⟨x, y, z⟩ := hs1 l hl
    exact ⟨fun h => h2.sah (x h), fun h => h2.sch (y h), fun h => h2.ssh (z h)⟩

structure HOk {α : Type} (m : BM α) : Prop where
  step : ∀ s a s', m s = .ok (a, s') → HStep s s'

theorem hok_pure {α : Type} (a : α) : HOk (pure a : BM α) := by
  constructor; intro s b s' h; simp [pure] at h; obtain ⟨_, rfl⟩ := h; exact HStep.refl _

theorem hok_bind {α β : Type} (x : BM α) (f : α → BM β) (hx : HOk x) (hf : ∀ a, HOk (f a)) : HOk (x >>= f) := by
  constructor
  intro s b s'' h
  simp only [bind] at h
  cases hxs : x s with
  | ok p =>
    obtain ⟨a, s'⟩ := p
    simp [hxs] at h
    exact (hx.step s a s' hxs).trans ((hf a).step s' b s'' h)
  | error m => simp [hxs] at h
  | panic m => simp [hxs] at h

theorem hok_fail {α : Type} (m : String) : HOk (fail m : BM α) := by
  constructor; intro s a s' h; simp [fail] at h

theorem hok_panic {α : Type} (m : String) : HOk (Tr.panic m : BM α) := by
  constructor; intro s a s' h; simp [Tr.panic] at h

def hokClosed : Closed St where
  P := fun m => HOk m
  pure := hok_pure
  bind := hok_bind
  fail := hok_fail

theorem hok_get : HOk (Tr.get : BM St) := by
  constructor; intro s a s' h; simp [Tr.get] at h; obtain ⟨_, rfl⟩ := h; exact HStep.refl _

theorem hok_nextHelperVar : HOk nextHelperVar := by
  constructor; intro s a s' h; simp [nextHelperVar] at h; obtain ⟨_, rfl⟩ := h
  exact ⟨id, id, id, rfl, [], by simp, by simp⟩

/-- a line that calls no helper -/
def Line.plain (l : Line) : Bool := !l.needsSah && !l.needsSch && !l.needsSsh

theorem hok_addLine (l : Line) (hl : l.plain = true) : HOk (addLine l) := by
  constructor
  intro s a s' h
  simp [addLine, Tr.modify] at h
  subst h
  simp only [Line.plain, Bool.and_eq_true, Bool.not_eq_true'] at hl
  refine ⟨id, id, id, rfl, [l], by simp, ?_⟩
  intro x hx
  simp at hx; subst hx
  simp [hl.1.1, hl.1.2, hl.2]

/-- raising flags (and nothing else that matters here) -/
theorem hok_modify (f : St → St) (hc : ∀ s, (f s).code = s.code) (hst : ∀ s, (f s).startCode = s.startCode) (h1 : ∀ s, s.sahReq = true → (f s).sahReq = true)
    (h2 : ∀ s, s.schReq = true → (f s).schReq = true) (h3 : ∀ s, s.sshReq = true → (f s).sshReq = true) : HOk (Tr.modify f : BM Unit) := by
  constructor
  intro s a s' h
  simp [Tr.modify] at h
  subst h
  exact ⟨h1 s, h2 s, h3 s, hst s, [], by simp [hc], by simp⟩

theorem hok_varAssignment (n v : String) (g : Bool) : HOk (varAssignment n v g) := by
  unfold varAssignment; exact hok_bind _ _ hok_get (fun _ => hok_addLine _ rfl)
theorem hok_varEvaluation (n : String) (g : Bool) : HOk (varEvaluation n g) := by
  unfold varEvaluation; exact hok_bind _ _ hok_get (fun _ => hok_pure _)
theorem hok_varAssignSliceLen (n v : String) (g : Bool) : HOk (varAssignSliceLen n v g) := by
  unfold varAssignSliceLen; exact hok_bind _ _ hok_get (fun _ => hok_addLine _ rfl)
theorem hok_varAssignStrLen (n : String) (g : Bool) : HOk (varAssignStrLen n g) := by
  unfold varAssignStrLen; exact hok_bind _ _ hok_get (fun _ => hok_addLine _ rfl)
theorem hok_assign_eval (h v : String) : HOk (do varAssignment h v false; varEvaluation h false : BM String) :=
  hok_bind _ _ (hok_varAssignment _ _ _) (fun _ => hok_varEvaluation _ _)

theorem hok_arith_eval (h l o r : String) : HOk (do varAssignArith h l o r false; varEvaluation h false : BM String) := by
  refine hok_bind _ _ ?_ (fun _ => hok_varEvaluation _ _)
  unfold varAssignArith; exact hok_bind _ _ hok_get (fun _ => hok_addLine _ rfl)
theorem hok_test_eval (h : String) (t : Test) (a b : String) : HOk (do varAssignTest h t a b false; varEvaluation h false : BM String) := by
  refine hok_bind _ _ ?_ (fun _ => hok_varEvaluation _ _)
  unfold varAssignTest; exact hok_bind _ _ hok_get (fun _ => hok_addLine _ rfl)

theorem hok_unaryOp (e o : String) : HOk (unaryOp e o) := by
  unfold unaryOp
  refine hok_bind _ _ hok_nextHelperVar (fun h => ?_)
  split
  · exact hok_test_eval _ _ _ _
  · exact hok_fail _

theorem hok_binaryOp (l o r : String) (t : ValueType) : HOk (binaryOp l o r t) := by
  unfold binaryOp notAllowedBin
  refine hok_bind _ _ hok_nextHelperVar (fun h => ?_)
  split
  · exact hok_fail _
  · split
    · split
      · exact hok_arith_eval _ _ _ _
      · exact hok_fail _
    · split
      · exact hok_assign_eval _ _
      · exact hok_fail _
    · exact hok_fail _

theorem hok_comparisonOp (l o r : String) (t : ValueType) : HOk (comparisonOp l o r t) := by
  unfold comparisonOp comparisonOpWith
  split
  · exact hok_fail _
  · exact hok_bind _ _ hok_nextHelperVar (fun h => hok_test_eval _ _ _ _)

theorem hok_logicalOp (l o r : String) : HOk (logicalOp l o r) := by
  unfold logicalOp
  split
  · exact hok_bind _ _ hok_nextHelperVar (fun h => hok_test_eval _ _ _ _)
  · exact hok_fail _

/-- the helper-calling line together with its flag -/
theorem hok_sah_line (l : Line) (hl : l.needsSch = false ∧ l.needsSsh = false) :
    HOk (do Tr.modify (fun s => { s with sahReq := true }); addLine l : BM Unit) := by
  constructor
  intro s a s' h
  simp [bind, Tr.modify, addLine] at h
  subst h
  refine ⟨fun _ => rfl, id, id, rfl, [l], by simp, ?_⟩
  intro x hx; simp at hx; subst hx
  simp [hl.1, hl.2]

theorem hok_sahInits (arr : String) : ∀ (vs : List String) (i : Nat), HOk (sahInits arr vs i) := by
  intro vs
  induction vs with
  | nil => intro i; unfold sahInits; exact hok_pure _
  | cons v rest ih =>
    intro i
    unfold sahInits
    have h1 := hok_sah_line (.sahInit arr i v) ⟨rfl, rfl⟩
    have : (do Tr.modify (fun s => { s with sahReq := true }); addLine (.sahInit arr i v); sahInits arr rest (i + 1) : BM Unit) =
        ((do Tr.modify (fun s => { s with sahReq := true }); addLine (.sahInit arr i v) : BM Unit) >>= fun _ => sahInits arr rest (i + 1)) := by
      funext s; simp [bind, Tr.modify, addLine]
    rw [this]
    exact hok_bind _ _ h1 (fun _ => ih _)

theorem hok_sliceInstantiation (vs : List String) : HOk (sliceInstantiation vs) := by
  unfold sliceInstantiation
  exact hok_bind _ _ hok_get (fun _ => hok_bind _ _ (hok_addLine _ rfl) (fun _ =>
    hok_bind _ _ hok_nextHelperVar (fun _ => hok_bind _ _ (hok_varAssignment _ _ _) (fun _ =>
      hok_bind _ _ hok_get (fun _ => hok_bind _ _ (hok_sahInits _ _ _) (fun _ => hok_pure _))))))

theorem hok_sliceEvaluation (n i : String) : HOk (sliceEvaluation n i) := by
  unfold sliceEvaluation
  exact hok_bind _ _ hok_nextHelperVar (fun _ => hok_bind _ _ hok_get (fun _ =>
    hok_bind _ _ (hok_addLine _ rfl) (fun _ => hok_varEvaluation _ _)))

theorem hok_sliceLen (n : String) : HOk (sliceLen n) := by
  unfold sliceLen; exact hok_bind _ _ hok_nextHelperVar (fun _ => hok_bind _ _ (hok_varAssignSliceLen _ _ _) (fun _ => hok_varEvaluation _ _))

/-- `stringSubscript` adds the `_ssh` call first and raises the flag last: shown on the final state -/
theorem hok_stringSubscript (v a b : String) : HOk (stringSubscript v a b) := by
  constructor
  intro s r s' h
  simp [stringSubscript, bind, nextHelperVar, addLine, Tr.get, Tr.modify, varAssignment, pure] at h
  obtain ⟨_, rfl⟩ := h
  refine ⟨id, id, fun _ => rfl, rfl, [_, _], rfl, ?_⟩
  intro l hl
  simp at hl
  rcases hl with rfl | rfl <;> simp [Line.needsSah, Line.needsSch, Line.needsSsh]

theorem hok_stringLen (v : String) : HOk (stringLen v) := by
  unfold stringLen
  exact hok_bind _ _ hok_nextHelperVar (fun _ => hok_bind _ _ (hok_varAssignment _ _ _) (fun _ =>
    hok_bind _ _ (hok_varAssignStrLen _ _) (fun _ => hok_varEvaluation _ _)))

theorem hok_copyRets : ∀ (n i : Nat), HOk (copyRets n i) := by
  intro n
  induction n with
  | zero => intro i; unfold copyRets; exact hok_pure _
  | succ n ih =>
    intro i
    unfold copyRets
    exact hok_bind _ _ hok_nextHelperVar (fun _ => hok_bind _ _ hok_get (fun _ =>
      hok_bind _ _ (hok_varAssignment _ _ _) (fun _ => hok_bind _ _ (hok_varEvaluation _ _) (fun _ =>
        hok_bind _ _ (ih _) (fun _ => hok_pure _)))))

theorem hok_funcCall (n : String) (a : List String) (r : List ValueType) (u : Bool) : HOk (funcCall n a r u) := by
  unfold funcCall
  refine hok_bind _ _ (hok_addLine _ rfl) (fun _ => hok_bind _ _ ?_ (fun _ => hok_pure _))
  split
  · exact hok_copyRets _ _
  · exact hok_pure _

theorem hok_appCall (cs : List (String × List String)) (u : Bool) : HOk (appCall cs u) := by
  unfold appCall appCallWith
  split
  · exact hok_bind _ _ hok_nextHelperVar (fun _ => hok_bind _ _ hok_nextHelperVar (fun _ =>
      hok_bind _ _ (hok_varAssignment _ _ _) (fun _ => hok_bind _ _ (hok_varEvaluation _ _) (fun _ =>
        hok_bind _ _ (hok_varAssignment _ _ _) (fun _ => hok_bind _ _ hok_get (fun _ => hok_pure _))))))
  · exact hok_bind _ _ (hok_addLine _ rfl) (fun _ => hok_pure _)

theorem hok_inputOp (p : String) : HOk (inputOp p) := by
  unfold inputOp
  exact hok_bind _ _ hok_nextHelperVar (fun _ => hok_bind _ _ hok_get (fun _ =>
    hok_bind _ _ (hok_addLine _ rfl) (fun _ => hok_varEvaluation _ _)))

/-- `copy` adds the `_sch` call first and raises the flags afterwards: shown on the final state -/
theorem hok_copyOp (d sr : String) (g : Bool) : HOk (copyOp d sr g) := by
  constructor
  intro s r s' h
  simp [copyOp, bind, nextHelperVar, addLine, Tr.get, Tr.modify, varAssignment, pure] at h
  obtain ⟨_, rfl⟩ := h
  refine ⟨fun _ => rfl, fun _ => rfl, id, rfl, [_, _], rfl, ?_⟩
  intro l hl
  simp at hl
  rcases hl with rfl | rfl <;> simp [Line.needsSah, Line.needsSch, Line.needsSsh]

theorem hok_existsOp (p : String) : HOk (existsOp p) := by
  unfold existsOp; exact hok_bind _ _ hok_nextHelperVar (fun _ => hok_test_eval _ _ _ _)

theorem hok_readFile (p : String) : HOk (readFile p) := by
  unfold readFile; exact hok_bind _ _ hok_nextHelperVar (fun _ => hok_assign_eval _ _)

theorem hok_exprOps : ExprOps hokClosed conv where
  stringToString := fun _ => hok_pure _
  varDefinition := fun n v g => hok_varAssignment n v g
  unaryOperation := fun e o _ _ => hok_unaryOp e o
  binaryOperation := fun l o r t _ => hok_binaryOp l o r t
  comparison := fun l o r t _ => hok_comparisonOp l o r t
  logicalOperation := fun l o r _ _ => hok_logicalOp l o r
  varEvaluation := fun n _ g => hok_varEvaluation n g
  sliceInstantiation := fun vs _ => hok_sliceInstantiation vs
  sliceEvaluation := fun n i _ => hok_sliceEvaluation n i
  sliceLen := fun n _ => hok_sliceLen n
  stringSubscript := fun v a b _ => hok_stringSubscript v a b
  stringLen := fun v _ => hok_stringLen v
  funcCall := fun n a r u => hok_funcCall n a r u
  appCall := fun cs u => hok_appCall cs u
  input := fun p _ => hok_inputOp p
  copy := fun d s _ g => hok_copyOp d s g
  exists_ := fun p _ => hok_existsOp p
  readFile := fun p _ => hok_readFile p

theorem hok_storeRets : ∀ (vs : List String) (i : Nat), HOk (storeRets vs i) := by
  intro vs
  induction vs with
  | nil => intro i; unfold storeRets; exact hok_pure _
  | cons v rest ih => intro i; unfold storeRets; exact hok_bind _ _ (hok_varAssignment _ _ _) (fun _ => ih _)

theorem hok_localParams : ∀ (ps : List String) (i : Nat), HOk (localParams ps i) := by
  intro ps
  induction ps with
  | nil => intro i; unfold localParams; exact hok_pure _
  | cons p rest ih =>
    intro i; unfold localParams
    exact hok_bind _ _ hok_get (fun _ => hok_bind _ _ (hok_addLine _ rfl) (fun _ => ih _))

theorem hok_flagless (f : St → St) (hc : ∀ s, (f s).code = s.code) (hst : ∀ s, (f s).startCode = s.startCode) (h1 : ∀ s, (f s).sahReq = s.sahReq)
    (h2 : ∀ s, (f s).schReq = s.schReq) (h3 : ∀ s, (f s).sshReq = s.sshReq) : HOk (Tr.modify f : BM Unit) :=
  hok_modify f hc hst (fun s h => by rw [h1]; exact h) (fun s h => by rw [h2]; exact h) (fun s h => by rw [h3]; exact h)

theorem hok_currentForVar : HOk currentForVar := by
  constructor
  intro s a s' h
  unfold currentForVar at h
  split at h <;> simp at h
  obtain ⟨_, rfl⟩ := h; exact HStep.refl _

theorem hok_stmtOps : StmtOps hokClosed conv where
  sliceAssignment := fun n i v d g => by
    constructor
    intro s a s' h
    simp [conv, bind, Tr.modify, Tr.get, addLine] at h
    subst h
    refine ⟨fun _ => rfl, id, id, rfl, [_], rfl, ?_⟩
    intro l hl; simp at hl; subst hl
    simp [Line.needsSah, Line.needsSch, Line.needsSsh]
  funcStart := fun n ps => by
    show HOk (do Tr.modify (fun s => { s with funcs := n :: s.funcs, funcCounter := s.funcCounter + 1 });
                 addLine (.funcStart n); localParams ps 0 : BM Unit)
    exact hok_bind _ _ (hok_flagless _ (fun _ => rfl) (fun _ => rfl) (fun _ => rfl) (fun _ => rfl) (fun _ => rfl)) (fun _ =>
      hok_bind _ _ (hok_addLine _ rfl) (fun _ => hok_localParams _ _))
  funcEnd := by
    show HOk (do addLine .funcEnd; Tr.modify (fun s => { s with funcs := s.funcs.drop 1 }) : BM Unit)
    exact hok_bind _ _ (hok_addLine _ rfl) (fun _ => hok_flagless _ (fun _ => rfl) (fun _ => rfl) (fun _ => rfl) (fun _ => rfl) (fun _ => rfl))
  ret := fun vs => by
    show HOk (do storeRets vs 0; addLine .ret : BM Unit)
    exact hok_bind _ _ (hok_storeRets _ _) (fun _ => hok_addLine _ rfl)
  ifStart := fun c => hok_addLine _ rfl
  ifEnd := hok_addLine _ rfl
  elseIfStart := fun c => hok_addLine _ rfl
  elseIfEnd := hok_pure _
  elseStart := hok_addLine _ rfl
  elseEnd := hok_pure _
  forStart := by
    show HOk (do Tr.modify (fun s => { s with fors := s.forCounter :: s.fors, forCounter := s.forCounter + 1 });
                 let n ← currentForVar; addLine (.forFlagInit n); addLine .whileStart : BM Unit)
    exact hok_bind _ _ (hok_flagless _ (fun _ => rfl) (fun _ => rfl) (fun _ => rfl) (fun _ => rfl) (fun _ => rfl)) (fun _ =>
      hok_bind _ _ hok_currentForVar (fun _ => hok_bind _ _ (hok_addLine _ rfl) (fun _ => hok_addLine _ rfl)))
  forIncrementStart := by
    show HOk (do let n ← currentForVar; addLine (.incrStart n) : BM Unit)
    exact hok_bind _ _ hok_currentForVar (fun _ => hok_addLine _ rfl)
  forIncrementEnd := by
    show HOk (do let n ← currentForVar; addLine .fi; addLine (.incrFlagSet n) : BM Unit)
    exact hok_bind _ _ hok_currentForVar (fun _ => hok_bind _ _ (hok_addLine _ rfl) (fun _ => hok_addLine _ rfl))
  forCondition := fun c => hok_addLine _ rfl
  forEnd := by
    show HOk (do addLine .done; Tr.modify (fun s => { s with fors := s.fors.drop 1 }) : BM Unit)
    exact hok_bind _ _ (hok_addLine _ rfl) (fun _ => hok_flagless _ (fun _ => rfl) (fun _ => rfl) (fun _ => rfl) (fun _ => rfl) (fun _ => rfl))
  brk := hok_addLine _ rfl
  cont := hok_addLine _ rfl
  print := fun vs => hok_addLine _ rfl
  panic := fun v => by
    show HOk (do addLine (.echo v); addLine .exit1 : BM Unit)
    exact hok_bind _ _ (hok_addLine _ rfl) (fun _ => hok_addLine _ rfl)
  writeFile := fun p c a => hok_addLine _ rfl
  nop := hok_addLine _ rfl

/-- **Every statement of every program keeps the helper flags in step with the helper calls.** -/
theorem evalStmts_hok (body : List Stmt) : HOk (evalStmts conv body) :=
  evalStmts_closed hokClosed conv hok_exprOps hok_stmtOps (fun m => hok_panic m) body

end Tsh.Bash
