/-
  Names: function-local data is `f<k>_<name>`; these, the helpers, temporaries, loop flags, return registers and
  the program's own identifiers are pairwise different.
-/
import TshVerif.Sem2.Bash
import TshVerif.Lemmas.SemScan
namespace Tsh.Sem2
open Tsh Tsh.Bash Tsh.Sem

theorem split_at_underscore : ∀ (l1 l2 r1 r2 : List Char), (∀ c ∈ l1, c ≠ '_') → (∀ c ∈ l2, c ≠ '_') →
    l1 ++ '_' :: r1 = l2 ++ '_' :: r2 → l1 = l2 ∧ r1 = r2
  | [], [], _, _, _, _, h => by simpa using h
  | [], c :: l2, _, _, _, h2, h => by
    simp at h
    exact absurd h.1.symm (h2 c (by simp))
  | c :: l1, [], _, _, h1, _, h => by
    simp at h
    exact absurd h.1 (h1 c (by simp))
  | c :: l1, d :: l2, r1, r2, h1, h2, h => by
    simp only [List.cons_append, List.cons.injEq] at h
    obtain ⟨e, ih⟩ := split_at_underscore l1 l2 r1 r2 (fun x hx => h1 x (by simp [hx])) (fun x hx => h2 x (by simp [hx])) h.2
    exact ⟨by rw [h.1, e], ih⟩

theorem digit_ne_underscore (c : Char) (h : c.isDigit = true) : c ≠ '_' := by
  intro e; subst e; revert h; decide

theorem fnPrefix_toList (k : Nat) (a : String) : (fnPrefix k ++ a).toList = 'f' :: ((Nat.repr k).toList ++ '_' :: a.toList) := by
  simp [fnPrefix, String.toList_append]

theorem fnPrefix_inj {i k : Nat} {a b : String} (h : fnPrefix i ++ a = fnPrefix k ++ b) : i = k ∧ a = b := by
  have h' : (fnPrefix i ++ a).toList = (fnPrefix k ++ b).toList := by rw [h]
  rw [fnPrefix_toList, fnPrefix_toList] at h'
  simp only [List.cons.injEq, true_and] at h'
  obtain ⟨e1, e2⟩ := split_at_underscore _ _ _ _ (fun c hc => digit_ne_underscore c (nat_repr_digits i c hc))
    (fun c hc => digit_ne_underscore c (nat_repr_digits k c hc)) h'
  exact ⟨nat_repr_inj (String.toList_injective e1), String.toList_injective e2⟩

theorem takeWhile_digits_append (ds rest : List Char) (hd : ∀ c ∈ ds, c.isDigit = true) :
    (ds ++ '_' :: rest).takeWhile Char.isDigit = ds := by
  induction ds with
  | nil => simp
  | cons c cs ih =>
    simp only [List.cons_append, List.takeWhile, hd c (by simp)]
    rw [ih (fun x hx => hd x (by simp [hx]))]

theorem nat_repr_ne_nil (k : Nat) : (Nat.repr k).toList ≠ [] := by
  rw [Nat.toList_repr]; exact Nat.toDigits_ne_nil

theorem mangledLike_prefix (k : Nat) (a : String) : mangledLike (fnPrefix k ++ a) = true := by
  unfold mangledLike
  rw [fnPrefix_toList]
  simp only []
  rw [takeWhile_digits_append _ _ (nat_repr_digits k)]
  have hne := nat_repr_ne_nil k
  simp [hne]

theorem good2_ne_prefixed (x : String) (k : Nat) (a : String) (h : goodName2 x = true) : x ≠ fnPrefix k ++ a := by
  intro e; subst e
  simp [goodName2, mangledLike_prefix] at h

theorem good2_good {x : String} (h : goodName2 x = true) : goodName x = true := by
  simp only [goodName2, Bool.and_eq_true] at h; exact h.1

theorem prefixed_not_underscore (k : Nat) (a : String) : (fnPrefix k ++ a).toList.head? = some 'f' := by
  rw [fnPrefix_toList]; rfl

theorem prefixed_ne_helper (k : Nat) (a : String) (j : Nat) : fnPrefix k ++ a ≠ helperName j := by
  intro e
  have h := prefixed_not_underscore k a
  rw [e] at h
  simp [helperName, String.toList_append] at h

theorem prefixed_ne_tmp (k : Nat) (a : String) (j : Nat) : fnPrefix k ++ a ≠ tmpName j := by
  intro e
  have h := prefixed_not_underscore k a
  rw [e] at h
  simp [tmpName, String.toList_append] at h

theorem prefixed_ne_flag (k : Nat) (a : String) (j : Nat) : fnPrefix k ++ a ≠ flagName j := by
  intro e
  have h := prefixed_not_underscore k a
  rw [e] at h
  simp [flagName_eq, String.toList_append] at h

theorem prefixed_ne_rv (k : Nat) (a : String) (j : Nat) : fnPrefix k ++ a ≠ rvName j := by
  intro e
  have h := prefixed_not_underscore k a
  rw [e] at h
  simp [rvName, String.toList_append] at h

theorem rvName_inj {a b : Nat} (h : rvName a = rvName b) : a = b := by
  have h' : (rvName a).toList = (rvName b).toList := by rw [h]
  simp [rvName, String.toList_append] at h'
  exact digits_repr_inj h'

theorem rv_ne_helper (i k : Nat) : rvName i ≠ helperName k := by
  intro e
  have h' : (rvName i).toList = (helperName k).toList := by rw [e]
  simp [helperName, rvName, String.toList_append] at h'

theorem rv_ne_tmp (i k : Nat) : rvName i ≠ tmpName k := by
  intro e
  have h' : (rvName i).toList = (tmpName k).toList := by rw [e]
  simp [tmpName, rvName, String.toList_append] at h'

theorem rv_ne_flag (i k : Nat) : rvName i ≠ flagName k := by
  intro e
  have h' : (rvName i).toList = (flagName k).toList := by rw [e]
  simp [flagName_eq, rvName, String.toList_append] at h'

theorem good_ne_rv (x : String) (k : Nat) (h : goodName x = true) : x ≠ rvName k := by
  intro e; subst e
  simp [goodName, rvName, String.toList_append] at h

theorem rvName_valid (k : Nat) : validName (rvName k).toList = true := by
  have : (rvName k).toList = ['_', 'r', 'v'] ++ (Nat.repr k).toList := by
    simp [rvName, String.toList_append]
  rw [this]; exact validName_prefixed _ k (by decide)

/-- all characters are name characters (a name, or a compiler name starting with `_`) -/
def allName (cs : List Char) : Bool := cs.all nameChar

theorem validName_allName {cs : List Char} (h : validName cs = true) : allName cs = true := by
  cases cs with
  | nil => rfl
  | cons c cs => simp only [validName, Bool.and_eq_true] at h; exact h.2

theorem prefixed_valid (k : Nat) (a : String) (h : allName a.toList = true) : validName (fnPrefix k ++ a).toList = true := by
  rw [fnPrefix_toList]
  simp only [validName, Bool.and_eq_true, List.all_eq_true, Bool.not_eq_true']
  refine ⟨by decide, ?_⟩
  intro c hc
  simp only [List.mem_cons, List.mem_append] at hc
  rcases hc with rfl | hc | rfl | hc
  · decide
  · exact digit_nameChar c (nat_repr_digits k c hc)
  · decide
  · simp only [allName, List.all_eq_true] at h
    exact h c hc

/-! ### the global names of the slice and substring routines -/

/-- `_dvc` (slice counter), `_ret`, `_ls`, `_ll` (substring routine), `_c` (loop variable of `_sah`) -/
def isSpecial (x : String) : Bool := x == "_dvc" || x == "_ret" || x == "_ls" || x == "_ll" || x == "_c"

theorem special_cases {x : String} (h : isSpecial x = true) : x = "_dvc" ∨ x = "_ret" ∨ x = "_ls" ∨ x = "_ll" ∨ x = "_c" := by
  have h' : (((x = "_dvc" ∨ x = "_ret") ∨ x = "_ls") ∨ x = "_ll") ∨ x = "_c" := by simpa [isSpecial] using h
  rcases h' with (((h | h) | h) | h) | h
  · exact Or.inl h
  · exact Or.inr (Or.inl h)
  · exact Or.inr (Or.inr (Or.inl h))
  · exact Or.inr (Or.inr (Or.inr (Or.inl h)))
  · exact Or.inr (Or.inr (Or.inr (Or.inr h)))

theorem special_head {x : String} (h : isSpecial x = true) : x.toList.head? = some '_' := by
  rcases special_cases h with rfl | rfl | rfl | rfl | rfl <;> rfl

theorem special_ne_prefixed {x : String} (h : isSpecial x = true) (k : Nat) (a : String) : x ≠ fnPrefix k ++ a := by
  intro e
  have h1 := special_head h
  rw [e, prefixed_not_underscore] at h1
  simp at h1

theorem special_ne_helper {x : String} (h : isSpecial x = true) (j : Nat) : x ≠ helperName j := by
  intro e
  have h' : x.toList = (helperName j).toList := by rw [e]
  rcases special_cases h with rfl | rfl | rfl | rfl | rfl <;> simp [helperName, String.toList_append] at h'

theorem special_ne_tmp {x : String} (h : isSpecial x = true) (j : Nat) : x ≠ tmpName j := by
  intro e
  have h' : x.toList = (tmpName j).toList := by rw [e]
  rcases special_cases h with rfl | rfl | rfl | rfl | rfl <;> simp [tmpName, String.toList_append] at h'

theorem special_ne_flag {x : String} (h : isSpecial x = true) (j : Nat) : x ≠ flagName j := by
  intro e
  have h' : x.toList = (flagName j).toList := by rw [e]
  rcases special_cases h with rfl | rfl | rfl | rfl | rfl <;> simp [flagName_eq, String.toList_append] at h'

theorem special_ne_rv {x : String} (h : isSpecial x = true) (j : Nat) : x ≠ rvName j := by
  intro e
  have h' : x.toList = (rvName j).toList := by rw [e]
  rcases special_cases h with rfl | rfl | rfl | rfl | rfl <;> simp [rvName, String.toList_append] at h'

theorem good_ne_special {x : String} (hg : goodName x = true) (h : isSpecial x = true) : False := by
  have h1 := special_head h
  simp only [goodName, Bool.and_eq_true, Bool.not_eq_true', beq_eq_false_iff_ne, ne_eq] at hg
  exact hg.2 h1

theorem special_valid {x : String} (h : isSpecial x = true) : validName x.toList = true := by
  rcases special_cases h with rfl | rfl | rfl | rfl | rfl <;> decide

end Tsh.Sem2
