/-
  Labels of the Batch converter's if / loop constructs (`clabel` / `cgoto` lines: the labels allocated from
  `ifCounter` and `forCounter`): no label is defined twice, every jump goes to a label that is defined
  -- invariant of every converter operation, hence of every program (no hypothesis on the AST).
-/
import TshVerif.Lemmas.BatchGrade
namespace Tsh.Batch
open Tsh Tsh.Tr

def clab : BLine → Option String | .clabel n => some n | _ => none
def cgo : BLine → Option String | .cgoto n => some n | _ => none

def codeLines (s : St) : List BLine := s.functionsCode.flatten ++ s.globalCode
def clabels (s : St) : List String := (codeLines s).filterMap clab
def cgotos (s : St) : List String := (codeLines s).filterMap cgo

def ifL (n : Nat) : String := s!"_i{n}"
def forL (n : Nat) : String := s!"_f{n}"
def endL (n : Nat) : String := s!"_e{n}"

/-! ### the three label families are injective and disjoint -/

theorem digits_inj (k k' : Nat) (h : Nat.toDigits 10 k = Nat.toDigits 10 k') : k = k' := by
  have := congrArg (fun l => Nat.ofDigitChars 10 l 0) h
  simpa using this

theorem ifL_toList (n : Nat) : (ifL n).toList = '_' :: 'i' :: Nat.toDigits 10 n := by
  simp [ifL, String.toList_append, toString]
theorem forL_toList (n : Nat) : (forL n).toList = '_' :: 'f' :: Nat.toDigits 10 n := by
  simp [forL, String.toList_append, toString]
theorem endL_toList (n : Nat) : (endL n).toList = '_' :: 'e' :: Nat.toDigits 10 n := by
  simp [endL, String.toList_append, toString]

theorem ifL_inj {a b : Nat} (h : ifL a = ifL b) : a = b := by
  have := congrArg String.toList h
  rw [ifL_toList, ifL_toList] at this
  simp at this
  exact digits_inj a b this
theorem forL_inj {a b : Nat} (h : forL a = forL b) : a = b := by
  have := congrArg String.toList h
  rw [forL_toList, forL_toList] at this
  simp at this
  exact digits_inj a b this
theorem endL_inj {a b : Nat} (h : endL a = endL b) : a = b := by
  have := congrArg String.toList h
  rw [endL_toList, endL_toList] at this
  simp at this
  exact digits_inj a b this
theorem ifL_ne_forL (a b : Nat) : ifL a ≠ forL b := by
  intro h; have := congrArg String.toList h; rw [ifL_toList, forL_toList] at this; simp at this
theorem ifL_ne_endL (a b : Nat) : ifL a ≠ endL b := by
  intro h; have := congrArg String.toList h; rw [ifL_toList, endL_toList] at this; simp at this
theorem forL_ne_endL (a b : Nat) : forL a ≠ endL b := by
  intro h; have := congrArg String.toList h; rw [forL_toList, endL_toList] at this; simp at this

/-- a label that one of the allocators has already handed out -/
def Bounded (s : St) (l : String) : Prop :=
  (∃ n, n < s.ifCounter ∧ l = ifL n) ∨ (∃ n, n < s.forCounter ∧ (l = forL n ∨ l = endL n))

/-- a line that is neither a construct label nor a construct jump -/
def plainLine (l : BLine) : Bool := (clab l).isNone && (cgo l).isNone

/-- the kinds of line the start code is made of: no label of any kind, no jump -/
def startLine : BLine → Bool
  | .raw _ | .set _ _ => true
  | _ => false

theorem startLine_plain {l : BLine} (h : startLine l = true) : plainLine l = true := by
  cases l <;> simp [startLine] at h <;> rfl

structure LInv (s : St) : Prop where
  startRaw : ∀ l ∈ s.startCode, startLine l = true
  nd : (clabels s ++ s.ifs ++ s.endLabels).Nodup
  bd : ∀ l, l ∈ clabels s ∨ l ∈ s.ifs ∨ l ∈ s.endLabels ∨ l ∈ s.fors → Bounded s l
  forsDef : ∀ l ∈ s.fors, l ∈ clabels s
  gt : ∀ t ∈ cgotos s, t ∈ clabels s ∨ t ∈ s.ifs ∨ t ∈ s.endLabels

theorem LInv.startPlain {s : St} (hi : LInv s) : ∀ l ∈ s.startCode, plainLine l = true :=
  fun l hl => startLine_plain (hi.startRaw l hl)

/-- what one `addLine` does to the label lists, stacks and counters -/
structure LEff (l : BLine) (s s' : St) : Prop where
  labs : (clabels s').Perm ((clab l).toList ++ clabels s)
  gos : (cgotos s').Perm ((cgo l).toList ++ cgotos s)
  ifs : s'.ifs = s.ifs
  fors : s'.fors = s.fors
  endLabels : s'.endLabels = s.endLabels
  ifCounter : s'.ifCounter = s.ifCounter
  forCounter : s'.forCounter = s.forCounter
  start : s'.startCode = s.startCode

theorem filterMap_mid {α β : Type} (f : α → Option β) (a b : List α) (x : α) :
    ((a ++ x :: b).filterMap f).Perm ((f x).toList ++ (a ++ b).filterMap f) := by
  simp only [List.filterMap_append, List.filterMap_cons]
  cases f x with
  | none => simp
  | some y => simpa using List.perm_middle

theorem addLine_leff {l : BLine} {s s' : St} {a : Unit} (h : addLine l s = .ok (a, s')) : LEff l s s' := by
  unfold addLine at h
  cases hf : s.funcs with
  | nil =>
    simp [hf] at h
    subst h
    refine ⟨?_, ?_, rfl, rfl, rfl, rfl, rfl, rfl⟩
    · exact filterMap_mid clab s.functionsCode.flatten s.globalCode l
    · exact filterMap_mid cgo s.functionsCode.flatten s.globalCode l
  | cons cur rest =>
    by_cases hp : cur = s.previousFunctionName
    · have hb : (cur != s.previousFunctionName) = false := by simp [hp]
      simp only [hf, hb, Bool.false_eq_true, if_false] at h
      cases hfc : s.functionsCode with
      | nil => simp [hfc] at h
      | cons blk more =>
        simp [hfc] at h
        subst h
        refine ⟨?_, ?_, rfl, rfl, rfl, rfl, rfl, rfl⟩
        · simp only [clabels, codeLines, hfc, List.flatten_cons, List.cons_append, List.filterMap_cons]
          cases clab l <;> simp
        · simp only [cgotos, codeLines, hfc, List.flatten_cons, List.cons_append, List.filterMap_cons]
          cases cgo l <;> simp
    · have hb : (cur != s.previousFunctionName) = true := by simp [hp]
      simp [hf, hb] at h
      subst h
      refine ⟨?_, ?_, rfl, rfl, rfl, rfl, rfl, rfl⟩
      · simp only [clabels, codeLines, List.flatten_cons, List.cons_append, List.nil_append, List.filterMap_cons]
        cases clab l <;> simp
      · simp only [cgotos, codeLines, List.flatten_cons, List.cons_append, List.nil_append, List.filterMap_cons]
        cases cgo l <;> simp

/-! ### operations that add no construct label or jump -/

/-- lists of construct labels / jumps unchanged up to order, stacks and counters unchanged -/
structure Same (s s' : St) : Prop where
  labs : (clabels s').Perm (clabels s)
  gos : (cgotos s').Perm (cgotos s)
  ifs : s'.ifs = s.ifs
  fors : s'.fors = s.fors
  endLabels : s'.endLabels = s.endLabels
  ifCounter : s'.ifCounter = s.ifCounter
  forCounter : s'.forCounter = s.forCounter
  start : ∀ l ∈ s'.startCode, l ∈ s.startCode ∨ startLine l = true

theorem Same.refl (s : St) : Same s s := ⟨List.Perm.refl _, List.Perm.refl _, rfl, rfl, rfl, rfl, rfl, fun _ h => Or.inl h⟩
theorem Same.trans {a b c : St} (h1 : Same a b) (h2 : Same b c) : Same a c :=
  ⟨h2.labs.trans h1.labs, h2.gos.trans h1.gos, h2.ifs.trans h1.ifs, h2.fors.trans h1.fors, h2.endLabels.trans h1.endLabels,
   h2.ifCounter.trans h1.ifCounter, h2.forCounter.trans h1.forCounter,
   fun l hl => (h2.start l hl).elim (fun h => h1.start l h) Or.inr⟩

theorem Same.linv {s s' : St} (h : Same s s') (hi : LInv s) : LInv s' := by
  have mem : ∀ l, l ∈ clabels s' ↔ l ∈ clabels s := fun l => h.labs.mem_iff
  have memg : ∀ l, l ∈ cgotos s' ↔ l ∈ cgotos s := fun l => h.gos.mem_iff
  refine ⟨fun l hl => (h.start l hl).elim (hi.startRaw l) id, ?_, ?_, ?_, ?_⟩
  · rw [h.ifs, h.endLabels]
    exact ((h.labs.append_right _).append_right _).nodup_iff.mpr hi.nd
  · intro l hl
    rw [h.ifs, h.endLabels, h.fors, mem] at hl
    obtain hb := hi.bd l hl
    unfold Bounded at hb ⊢
    rw [h.ifCounter, h.forCounter]; exact hb
  · intro l hl; rw [h.fors] at hl; rw [mem]; exact hi.forsDef l hl
  · intro t ht
    rw [memg] at ht
    rw [mem, h.ifs, h.endLabels]; exact hi.gt t ht

structure PlainOp {α : Type} (m : BM α) : Prop where
  same : ∀ s a s', m s = .ok (a, s') → Same s s'

theorem po_pure {α : Type} (a : α) : PlainOp (pure a : BM α) := by
  constructor; intro s b s' h; simp [pure] at h; obtain ⟨_, rfl⟩ := h; exact Same.refl _
theorem po_bind {α β : Type} (x : BM α) (f : α → BM β) (hx : PlainOp x) (hf : ∀ a, PlainOp (f a)) : PlainOp (x >>= f) := by
  constructor
  intro s b s'' h
  obtain ⟨a, s', h1, h2⟩ := bbind_ok h
  exact (hx.same _ _ _ h1).trans ((hf a).same _ _ _ h2)
theorem po_fail {α : Type} (m : String) : PlainOp (Tr.fail m : BM α) := by
  constructor; intro s a s' h; simp [Tr.fail] at h
theorem po_panic {α : Type} (m : String) : PlainOp (Tr.panic m : BM α) := by
  constructor; intro s a s' h; simp [Tr.panic] at h

def poClosed : Closed St where
  P := fun m => PlainOp m
  pure := po_pure
  bind := po_bind
  fail := po_fail

theorem po_get : PlainOp (Tr.get : BM St) := by
  constructor; intro s a s' h; simp [Tr.get] at h; obtain ⟨_, rfl⟩ := h; exact Same.refl _
theorem po_nextHelperVar : PlainOp nextHelperVar := by
  constructor; intro s a s' h; simp [nextHelperVar] at h; obtain ⟨_, rfl⟩ := h
  exact ⟨List.Perm.refl _, List.Perm.refl _, rfl, rfl, rfl, rfl, rfl, fun _ h => Or.inl h⟩

theorem po_addLine (l : BLine) (hl : plainLine l = true) : PlainOp (addLine l) := by
  constructor
  intro s a s' h
  have e := addLine_leff h
  simp only [plainLine, Bool.and_eq_true, Option.isNone_iff_eq_none] at hl
  exact ⟨by simpa [hl.1] using e.labs, by simpa [hl.2] using e.gos, e.ifs, e.fors, e.endLabels, e.ifCounter, e.forCounter, fun l hl => Or.inl (e.start ▸ hl)⟩

theorem po_modify (f : St → St)
    (hf : ∀ s, (f s).functionsCode = s.functionsCode ∧ (f s).globalCode = s.globalCode ∧ (f s).ifs = s.ifs ∧ (f s).fors = s.fors ∧
      (f s).endLabels = s.endLabels ∧ (f s).ifCounter = s.ifCounter ∧ (f s).forCounter = s.forCounter ∧ (f s).startCode = s.startCode) : PlainOp (Tr.modify f : BM Unit) := by
  constructor
  intro s a s' h
  simp [Tr.modify] at h
  subst h
  obtain ⟨h1, h2, h3, h4, h5, h6, h7, h8⟩ := hf s
  exact ⟨by simp [clabels, codeLines, h1, h2], by simp [cgotos, codeLines, h1, h2], h3, h4, h5, h6, h7, fun l hl => Or.inl (h8 ▸ hl)⟩

theorem po_addStartLine (l : BLine) (hl : startLine l = true) : PlainOp (addStartLine l) := by
  constructor
  intro s a s' h
  simp [addStartLine, Tr.modify] at h
  subst h
  refine ⟨List.Perm.refl _, List.Perm.refl _, rfl, rfl, rfl, rfl, rfl, ?_⟩
  intro x hx
  simp only [List.mem_cons] at hx
  rcases hx with rfl | hx
  · exact Or.inr hl
  · exact Or.inl hx

theorem po_varAssignment (n v : String) (g : Bool) : PlainOp (varAssignment n v g) := by
  unfold varAssignment; exact po_bind _ _ po_get (fun _ => po_addLine _ rfl)
theorem po_varEvaluation (n : String) (g : Bool) : PlainOp (varEvaluation n g) := by
  unfold varEvaluation; exact po_bind _ _ po_get (fun _ => po_pure _)
theorem po_addLf : PlainOp addLf := by
  unfold addLf
  refine po_bind _ _ po_get (fun s => ?_)
  split
  · refine po_bind _ _ (po_addStartLine _ rfl) (fun _ => po_bind _ _ (po_addStartLine _ rfl) (fun _ => po_bind _ _ (po_addStartLine _ rfl) (fun _ => ?_)))
    apply po_modify; intro s; simp
  · exact po_pure _
theorem po_stringToString (v : String) : PlainOp (stringToString v) := by
  unfold stringToString; exact po_bind _ _ po_addLf (fun _ => po_pure _)
theorem po_setGlobalArgs : ∀ (as : List String) (i : Nat), PlainOp (setGlobalArgs as i) := by
  intro as
  induction as with
  | nil => intro i; unfold setGlobalArgs; exact po_pure _
  | cons a rest ih => intro i; unfold setGlobalArgs; exact po_bind _ _ (po_varAssignment _ _ _) (fun _ => ih _)
theorem po_callFunc (n : String) (ga as : List String) : PlainOp (callFunc n ga as) := by
  unfold callFunc; exact po_bind _ _ (po_setGlobalArgs _ _) (fun _ => po_addLine _ rfl)
theorem po_flag (f : St → St)
    (hf : ∀ s, (f s).functionsCode = s.functionsCode ∧ (f s).globalCode = s.globalCode ∧ (f s).ifs = s.ifs ∧ (f s).fors = s.fors ∧
      (f s).endLabels = s.endLabels ∧ (f s).ifCounter = s.ifCounter ∧ (f s).forCounter = s.forCounter ∧ (f s).startCode = s.startCode) : PlainOp (Tr.modify f : BM Unit) :=
  po_modify f hf
theorem po_callEcho (vs : List String) : PlainOp (callEcho vs) := by
  unfold callEcho
  refine po_bind _ _ ?_ (fun _ => po_callFunc _ _ _)
  apply po_flag; intro s; simp
theorem po_currentFunc : PlainOp currentFunc := by
  constructor; intro s a s' h; unfold currentFunc at h; split at h <;> simp at h; obtain ⟨_, rfl⟩ := h; exact Same.refl _
theorem po_setParams : ∀ (ps : List String) (i : Nat), PlainOp (setParams ps i) := by
  intro ps
  induction ps with
  | nil => intro i; unfold setParams; exact po_pure _
  | cons p rest ih => intro i; unfold setParams; exact po_bind _ _ po_get (fun _ => po_bind _ _ (po_addLine _ rfl) (fun _ => ih _))
theorem po_storeRets : ∀ (vs : List String) (i : Nat), PlainOp (storeRets vs i) := by
  intro vs
  induction vs with
  | nil => intro i; unfold storeRets; exact po_pure _
  | cons v rest ih => intro i; unfold storeRets; exact po_bind _ _ (po_varAssignment _ _ _) (fun _ => ih _)
theorem po_copyRets : ∀ (n i : Nat), PlainOp (copyRets n i) := by
  intro n
  induction n with
  | zero => intro i; unfold copyRets; exact po_pure _
  | succ n ih =>
    intro i; unfold copyRets
    exact po_bind _ _ po_nextHelperVar (fun _ => po_bind _ _ po_get (fun _ => po_bind _ _ (po_varAssignment _ _ _) (fun _ =>
      po_bind _ _ (po_varEvaluation _ _) (fun _ => po_bind _ _ (ih _) (fun _ => po_pure _)))))
theorem po_sliceInits (arr : String) : ∀ (vs : List String) (i : Nat), PlainOp (sliceInits arr vs i) := by
  intro vs
  induction vs with
  | nil => intro i; unfold sliceInits; exact po_pure _
  | cons v rest ih => intro i; unfold sliceInits; exact po_bind _ _ (po_addLine _ rfl) (fun _ => ih _)

theorem po_unaryOp (e o : String) : PlainOp (unaryOp e o) := by
  unfold unaryOp
  refine po_bind _ _ po_nextHelperVar (fun _ => ?_)
  split
  · exact po_bind _ _ po_get (fun _ => po_bind _ _ (po_addLine _ rfl) (fun _ => po_varEvaluation _ _))
  · exact po_fail _
theorem po_binaryOp (l o r : String) (t : ValueType) : PlainOp (binaryOp l o r t) := by
  unfold binaryOp notAllowedBin
  refine po_bind _ _ po_nextHelperVar (fun _ => ?_)
  split
  · exact po_fail _
  · split
    · split
      · exact po_bind _ _ po_get (fun _ => po_bind _ _ (po_addLine _ rfl) (fun _ => po_varEvaluation _ _))
      · exact po_fail _
    · split
      · exact po_bind _ _ (po_varAssignment _ _ _) (fun _ => po_varEvaluation _ _)
      · exact po_fail _
    · exact po_fail _
theorem po_comparisonOp (l o r : String) (t : ValueType) : PlainOp (comparisonOp l o r t) := by
  unfold comparisonOp comparisonOpWith
  split
  · exact po_fail _
  · exact po_bind _ _ po_nextHelperVar (fun _ => po_bind _ _ po_get (fun _ => po_bind _ _ (po_addLine _ rfl) (fun _ => po_varEvaluation _ _)))
theorem po_logicalOp (l o r : String) : PlainOp (logicalOp l o r) := by
  unfold logicalOp
  refine po_bind _ _ po_nextHelperVar (fun _ => po_bind _ _ po_get (fun _ => ?_))
  split
  · exact po_bind _ _ (po_addLine _ rfl) (fun _ => po_varEvaluation _ _)
  · split
    · exact po_bind _ _ (po_addLine _ rfl) (fun _ => po_varEvaluation _ _)
    · exact po_fail _
theorem po_sliceInstantiationOp (vs : List String) : PlainOp (sliceInstantiationOp vs) := by
  unfold sliceInstantiationOp
  refine po_bind _ _ (po_addLine _ rfl) (fun _ => po_bind _ _ po_nextHelperVar (fun _ => po_bind _ _ (po_varAssignment _ _ _) (fun _ =>
    po_bind _ _ ?_ (fun _ => po_bind _ _ po_get (fun _ => po_bind _ _ (po_callFunc _ _ _) (fun _ => po_bind _ _ (po_sliceInits _ _ _) (fun _ => po_pure _)))))))
  apply po_flag; intro s; simp
theorem po_sliceEvaluationOp (n i : String) : PlainOp (sliceEvaluationOp n i) := by
  unfold sliceEvaluationOp
  exact po_bind _ _ po_nextHelperVar (fun _ => po_bind _ _ po_get (fun _ => po_bind _ _ (po_addLine _ rfl) (fun _ => po_varEvaluation _ _)))
theorem po_sliceLenOp (n : String) : PlainOp (sliceLenOp n) := by
  unfold sliceLenOp
  refine po_bind _ _ po_nextHelperVar (fun _ => po_bind _ _ ?_ (fun _ => po_bind _ _ (po_callFunc _ _ _) (fun _ =>
    po_bind _ _ po_get (fun _ => po_bind _ _ (po_varAssignment _ _ _) (fun _ => po_varEvaluation _ _)))))
  apply po_flag; intro s; simp
theorem po_stringSubscriptOp (v a b : String) : PlainOp (stringSubscriptOp v a b) := by
  unfold stringSubscriptOp
  refine po_bind _ _ po_nextHelperVar (fun _ => po_bind _ _ ?_ (fun _ => po_bind _ _ (po_callFunc _ _ _) (fun _ =>
    po_bind _ _ po_get (fun _ => po_bind _ _ (po_varAssignment _ _ _) (fun _ => po_bind _ _ po_get (fun _ => po_pure _))))))
  apply po_flag; intro s; simp
theorem po_stringLenOp (v : String) : PlainOp (stringLenOp v) := by
  unfold stringLenOp
  refine po_bind _ _ po_nextHelperVar (fun _ => po_bind _ _ ?_ (fun _ => po_bind _ _ (po_callFunc _ _ _) (fun _ =>
    po_bind _ _ po_get (fun _ => po_bind _ _ (po_varAssignment _ _ _) (fun _ => po_varEvaluation _ _)))))
  apply po_flag; intro s; simp
theorem po_funcCallOp (n : String) (a : List String) (r : List ValueType) (u : Bool) : PlainOp (funcCallOp n a r u) := by
  unfold funcCallOp
  refine po_bind _ _ (po_callFunc _ _ _) (fun _ => po_bind _ _ ?_ (fun _ => po_pure _))
  split
  · exact po_copyRets _ _
  · exact po_pure _
theorem po_appCallOp (cs : List (String × List String)) (u : Bool) : PlainOp (appCallOp cs u) := by
  unfold appCallOp appCallWith
  split
  · refine po_bind _ _ po_nextHelperVar (fun _ => po_bind _ _ po_nextHelperVar (fun _ => po_bind _ _ ?_ (fun _ =>
      po_bind _ _ po_addLf (fun _ => po_bind _ _ (po_callFunc _ _ _) (fun _ => po_bind _ _ po_get (fun _ =>
        po_bind _ _ (po_varAssignment _ _ _) (fun _ => po_bind _ _ (po_varEvaluation _ _) (fun _ => po_bind _ _ po_get (fun _ =>
          po_bind _ _ (po_varAssignment _ _ _) (fun _ => po_bind _ _ po_get (fun _ => po_pure _)))))))))))
    apply po_flag; intro s; simp
  · exact po_bind _ _ (po_addLine _ rfl) (fun _ => po_pure _)
theorem po_inputOp (p : String) : PlainOp (inputOp p) := by
  unfold inputOp
  exact po_bind _ _ po_nextHelperVar (fun _ => po_bind _ _ (po_addLine _ rfl) (fun _ => po_varEvaluation _ _))
theorem po_copyOp (d s : String) (g : Bool) : PlainOp (copyOp d s g) := by
  unfold copyOp
  refine po_bind _ _ ?_ (fun _ => po_bind _ _ po_get (fun _ => po_bind _ _ (po_callFunc _ _ _) (fun _ =>
    po_bind _ _ po_nextHelperVar (fun _ => po_bind _ _ (po_callFunc _ _ _) (fun _ => po_bind _ _ po_get (fun _ =>
      po_bind _ _ (po_varAssignment _ _ _) (fun _ => po_varEvaluation _ _)))))))
  apply po_flag; intro s; simp
theorem po_existsOp (p : String) : PlainOp (existsOp p) := by
  unfold existsOp
  exact po_bind _ _ po_nextHelperVar (fun _ => po_bind _ _ po_get (fun _ => po_bind _ _ (po_addLine _ rfl) (fun _ => po_varEvaluation _ _)))
theorem po_readFileOp (p : String) : PlainOp (readFileOp p) := by
  unfold readFileOp
  refine po_bind _ _ po_nextHelperVar (fun _ => po_bind _ _ ?_ (fun _ => po_bind _ _ po_addLf (fun _ =>
    po_bind _ _ (po_callFunc _ _ _) (fun _ => po_bind _ _ po_get (fun _ => po_bind _ _ (po_varAssignment _ _ _) (fun _ => po_varEvaluation _ _))))))
  apply po_flag; intro s; simp

/-! ### the invariant is kept by every operation -/

structure LOk {α : Type} (m : BM α) : Prop where
  keep : ∀ s a s', m s = .ok (a, s') → LInv s → LInv s'

theorem PlainOp.lok {α : Type} {m : BM α} (h : PlainOp m) : LOk m := ⟨fun s a s' hr hi => (h.same s a s' hr).linv hi⟩

theorem lok_pure {α : Type} (a : α) : LOk (pure a : BM α) := (po_pure a).lok
theorem lok_bind {α β : Type} (x : BM α) (f : α → BM β) (hx : LOk x) (hf : ∀ a, LOk (f a)) : LOk (x >>= f) := by
  constructor
  intro s b s'' h hi
  obtain ⟨a, s', h1, h2⟩ := bbind_ok h
  exact (hf a).keep _ _ _ h2 (hx.keep _ _ _ h1 hi)
theorem lok_fail {α : Type} (m : String) : LOk (Tr.fail m : BM α) := (po_fail m).lok

def lokClosed : Closed St where
  P := fun m => LOk m
  pure := lok_pure
  bind := lok_bind
  fail := lok_fail

theorem lok_exprOps : ExprOps lokClosed conv where
  stringToString := fun s => (po_stringToString s).lok
  varDefinition := fun n v g => (po_varAssignment n v g).lok
  unaryOperation := fun e o _ _ => (po_unaryOp e o).lok
  binaryOperation := fun l o r t _ => (po_binaryOp l o r t).lok
  comparison := fun l o r t _ => (po_comparisonOp l o r t).lok
  logicalOperation := fun l o r _ _ => (po_logicalOp l o r).lok
  varEvaluation := fun n _ g => (po_varEvaluation n g).lok
  sliceInstantiation := fun vs _ => (po_sliceInstantiationOp vs).lok
  sliceEvaluation := fun n i _ => (po_sliceEvaluationOp n i).lok
  sliceLen := fun n _ => (po_sliceLenOp n).lok
  stringSubscript := fun v a b _ => (po_stringSubscriptOp v a b).lok
  stringLen := fun v _ => (po_stringLenOp v).lok
  funcCall := fun n a r u => (po_funcCallOp n a r u).lok
  appCall := fun cs u => (po_appCallOp cs u).lok
  input := fun p _ => (po_inputOp p).lok
  copy := fun d s _ g => (po_copyOp d s g).lok
  exists_ := fun p _ => (po_existsOp p).lok
  readFile := fun p _ => (po_readFileOp p).lok

/-! list facts -/

theorem nodup_insert_mid {A I E : List String} {x : String} (hx : x ∉ A ++ I ++ E) (h : (A ++ I ++ E).Nodup) : (A ++ (x :: I) ++ E).Nodup := by
  have p : (A ++ (x :: I) ++ E).Perm (x :: (A ++ I ++ E)) := by
    simp only [List.append_assoc, List.cons_append]
    exact List.perm_middle
  exact p.nodup_iff.mpr (List.nodup_cons.mpr ⟨hx, h⟩)

theorem nodup_move {A A' I E : List String} {x : String} (hp : A'.Perm (x :: A)) (h : (A ++ (x :: I) ++ E).Nodup) : (A' ++ I ++ E).Nodup := by
  have p1 : (A' ++ I ++ E).Perm ((x :: A) ++ I ++ E) := (hp.append_right _).append_right _
  have p2 : ((x :: A) ++ I ++ E).Perm (A ++ (x :: I) ++ E) := by
    simp only [List.append_assoc, List.cons_append]
    exact List.perm_middle.symm
  exact (p1.trans p2).nodup_iff.mpr h

theorem nodup_move_end {A A' I R : List String} {e : String} (hp : A'.Perm (e :: A)) (h : (A ++ I ++ (e :: R)).Nodup) : (A' ++ I ++ R).Nodup := by
  have p1 : (A' ++ I ++ R).Perm ((e :: A) ++ I ++ R) := (hp.append_right _).append_right _
  have p2 : ((e :: A) ++ I ++ R).Perm (A ++ I ++ (e :: R)) := by
    have : (A ++ I ++ (e :: R)) = (A ++ I) ++ e :: R := rfl
    rw [this]
    have q : ((A ++ I) ++ e :: R).Perm (e :: ((A ++ I) ++ R)) := List.perm_middle
    simpa [List.append_assoc] using q.symm
  exact (p1.trans p2).nodup_iff.mpr h

theorem Bounded.mono {s s' : St} {l : String} (h : Bounded s l) (h1 : s.ifCounter ≤ s'.ifCounter) (h2 : s.forCounter ≤ s'.forCounter) : Bounded s' l := by
  rcases h with ⟨n, hn, rfl⟩ | ⟨n, hn, hl⟩
  · exact Or.inl ⟨n, by omega, rfl⟩
  · exact Or.inr ⟨n, by omega, hl⟩

theorem fresh_if (s : St) (hi : LInv s) : ifL s.ifCounter ∉ clabels s ++ s.ifs ++ s.endLabels := by
  intro hm
  have hb : Bounded s (ifL s.ifCounter) := by
    simp only [List.mem_append] at hm
    rcases hm with (hm | hm) | hm
    · exact hi.bd _ (Or.inl hm)
    · exact hi.bd _ (Or.inr (Or.inl hm))
    · exact hi.bd _ (Or.inr (Or.inr (Or.inl hm)))
  rcases hb with ⟨n, hn, he⟩ | ⟨n, _, he | he⟩
  · have := ifL_inj he; omega
  · exact ifL_ne_forL _ _ he
  · exact ifL_ne_endL _ _ he

theorem fresh_for (s : St) (hi : LInv s) (l : String) (hl : l ∈ clabels s ∨ l ∈ s.ifs ∨ l ∈ s.endLabels ∨ l ∈ s.fors) :
    l ≠ forL s.forCounter ∧ l ≠ endL s.forCounter := by
  rcases hi.bd l hl with ⟨n, _, rfl⟩ | ⟨n, hn, rfl | rfl⟩
  · exact ⟨ifL_ne_forL _ _, ifL_ne_endL _ _⟩
  · exact ⟨fun h => by have := forL_inj h; omega, forL_ne_endL _ _⟩
  · exact ⟨fun h => forL_ne_endL _ _ h.symm, fun h => by have := endL_inj h; omega⟩

/-! ### the structural operations -/

theorem currentIf_ok {s s' : St} {l : String} (h : currentIf s = .ok (l, s')) : s' = s ∧ ∃ rest, s.ifs = l :: rest := by
  unfold currentIf at h
  split at h <;> simp at h
  rename_i l' rest hi
  exact ⟨h.2.symm, rest, by rw [hi, h.1]⟩

theorem currentFor_ok {s s' : St} {l : String} (h : currentFor s = .ok (l, s')) : s' = s ∧ ∃ rest, s.fors = l :: rest := by
  unfold currentFor at h
  split at h <;> simp at h
  rename_i l' rest hi
  exact ⟨h.2.symm, rest, by rw [hi, h.1]⟩

theorem lok_ifStartOp (c : String) : LOk (ifStartOp c) := by
  constructor
  intro s a s' h hi
  unfold ifStartOp at h
  obtain ⟨_, s1, h1, h2⟩ := bbind_ok h
  simp [Tr.modify] at h1
  subst h1
  have e := addLine_leff h2
  have hl : (clabels s').Perm (clabels s) := by simpa [clab, clabels, codeLines] using e.labs
  have hg : (cgotos s').Perm (cgotos s) := by simpa [cgo, cgotos, codeLines] using e.gos
  have mem : ∀ l, l ∈ clabels s' ↔ l ∈ clabels s := fun l => hl.mem_iff
  refine ⟨fun l hl => hi.startRaw l (e.start ▸ hl), ?_, ?_, ?_, ?_⟩
  · rw [e.ifs, e.endLabels]
    have := nodup_insert_mid (fresh_if s hi) hi.nd
    exact ((hl.append_right _).append_right _).nodup_iff.mpr this
  · intro l hl'
    rw [mem, e.ifs, e.endLabels, e.fors] at hl'
    have hmono : ∀ l, Bounded s l → Bounded s' l := fun l hb => hb.mono (by rw [e.ifCounter]; simp) (by rw [e.forCounter]; simp)
    simp only [List.mem_cons] at hl'
    rcases hl' with hl' | (rfl | hl') | hl' | hl'
    · exact hmono _ (hi.bd _ (Or.inl hl'))
    · exact Or.inl ⟨s.ifCounter, by rw [e.ifCounter]; simp, rfl⟩
    · exact hmono _ (hi.bd _ (Or.inr (Or.inl hl')))
    · exact hmono _ (hi.bd _ (Or.inr (Or.inr (Or.inl hl'))))
    · exact hmono _ (hi.bd _ (Or.inr (Or.inr (Or.inr hl'))))
  · intro l hl'; rw [e.fors] at hl'; rw [mem]; exact hi.forsDef l hl'
  · intro t ht
    rw [hg.mem_iff] at ht
    rw [mem, e.ifs, e.endLabels]
    rcases hi.gt t ht with h | h | h
    · exact Or.inl h
    · exact Or.inr (Or.inl (by simp [h]))
    · exact Or.inr (Or.inr h)

theorem lok_ifEndOp : LOk ifEndOp := by
  constructor
  intro s a s' h hi
  unfold ifEndOp at h
  obtain ⟨l, s1, h1, h⟩ := bbind_ok h
  obtain ⟨_, s2, h2, h⟩ := bbind_ok h
  obtain ⟨_, s3, h3, h⟩ := bbind_ok h
  obtain ⟨_, s4, h4, h5⟩ := bbind_ok h
  obtain ⟨rfl, rest, hifs⟩ := currentIf_ok h1
  have e2 := addLine_leff h2
  have e3 := addLine_leff h3
  have e4 := addLine_leff h4
  simp [Tr.modify] at h5
  subst h5
  have hl : (clabels s4).Perm (l :: clabels s1) := by
    have a4 : (clabels s4).Perm (l :: clabels s3) := by simpa [clab] using e4.labs
    have a3 : (clabels s3).Perm (clabels s2) := by simpa [clab] using e3.labs
    have a2 : (clabels s2).Perm (clabels s1) := by simpa [clab] using e2.labs
    exact a4.trans ((a3.trans a2).cons l)
  have hg : (cgotos s4).Perm (l :: cgotos s1) := by
    have a4 : (cgotos s4).Perm (cgotos s3) := by simpa [cgo] using e4.gos
    have a3 : (cgotos s3).Perm (cgotos s2) := by simpa [cgo] using e3.gos
    have a2 : (cgotos s2).Perm (l :: cgotos s1) := by simpa [cgo] using e2.gos
    exact (a4.trans a3).trans a2
  have hifs4 : s4.ifs = l :: rest := by rw [e4.ifs, e3.ifs, e2.ifs, hifs]
  have hend4 : s4.endLabels = s1.endLabels := by rw [e4.endLabels, e3.endLabels, e2.endLabels]
  have hfors4 : s4.fors = s1.fors := by rw [e4.fors, e3.fors, e2.fors]
  have hic : s4.ifCounter = s1.ifCounter := by rw [e4.ifCounter, e3.ifCounter, e2.ifCounter]
  have hfc : s4.forCounter = s1.forCounter := by rw [e4.forCounter, e3.forCounter, e2.forCounter]
  have mem : ∀ x, x ∈ clabels s4 ↔ x = l ∨ x ∈ clabels s1 := fun x => by rw [hl.mem_iff]; simp
  have hcl : clabels { s4 with ifs := s4.ifs.tail } = clabels s4 := rfl
  have hcg : cgotos { s4 with ifs := s4.ifs.tail } = cgotos s4 := rfl
  have hst : s4.startCode = s1.startCode := by rw [e4.start, e3.start, e2.start]
  refine ⟨fun l hl => hi.startRaw l (hst ▸ hl), ?_, ?_, ?_, ?_⟩
  · show (clabels s4 ++ s4.ifs.tail ++ s4.endLabels).Nodup
    rw [hifs4, hend4]
    simp only [List.tail_cons]
    have := hi.nd
    rw [hifs] at this
    exact nodup_move hl this
  · intro x hx
    have hx' : x ∈ clabels s4 ∨ x ∈ s4.ifs.tail ∨ x ∈ s4.endLabels ∨ x ∈ s4.fors := hx
    rw [mem, hifs4, hend4, hfors4] at hx'
    simp only [List.tail_cons] at hx'
    have hb : Bounded s1 x := by
      rcases hx' with (rfl | hx') | hx' | hx' | hx'
      · exact hi.bd _ (Or.inr (Or.inl (by rw [hifs]; simp)))
      · exact hi.bd _ (Or.inl hx')
      · exact hi.bd _ (Or.inr (Or.inl (by rw [hifs]; simp [hx'])))
      · exact hi.bd _ (Or.inr (Or.inr (Or.inl hx')))
      · exact hi.bd _ (Or.inr (Or.inr (Or.inr hx')))
    exact hb.mono (by show s1.ifCounter ≤ s4.ifCounter; omega) (by show s1.forCounter ≤ s4.forCounter; omega)
  · intro x hx
    have hx' : x ∈ s4.fors := hx
    rw [hfors4] at hx'
    show x ∈ clabels s4
    rw [mem]; exact Or.inr (hi.forsDef x hx')
  · intro t ht
    have ht' : t ∈ cgotos s4 := ht
    rw [hg.mem_iff] at ht'
    show t ∈ clabels s4 ∨ t ∈ s4.ifs.tail ∨ t ∈ s4.endLabels
    rw [mem, hifs4, hend4]
    simp only [List.tail_cons]
    simp only [List.mem_cons] at ht'
    rcases ht' with rfl | ht'
    · exact Or.inl (Or.inl rfl)
    · rcases hi.gt t ht' with h | h | h
      · exact Or.inl (Or.inr h)
      · rw [hifs] at h
        simp only [List.mem_cons] at h
        rcases h with rfl | h
        · exact Or.inl (Or.inl rfl)
        · exact Or.inr (Or.inl h)
      · exact Or.inr (Or.inr h)

/-- a jump to a label that is pending or defined keeps the invariant -/
theorem linv_cgoto {s1 s2 : St} {l : String} (e2 : LEff (.cgoto l) s1 s2)
    (hl : l ∈ s1.ifs ∨ l ∈ s1.endLabels ∨ l ∈ clabels s1) (hi : LInv s1) : LInv s2 := by
  have hlab : (clabels s2).Perm (clabels s1) := by simpa [clab] using e2.labs
  have hgo : (cgotos s2).Perm (l :: cgotos s1) := by simpa [cgo] using e2.gos
  have mem : ∀ x, x ∈ clabels s2 ↔ x ∈ clabels s1 := fun x => hlab.mem_iff
  refine ⟨fun l hl => hi.startRaw l (e2.start ▸ hl), ?_, ?_, ?_, ?_⟩
  · rw [e2.ifs, e2.endLabels]
    exact ((hlab.append_right _).append_right _).nodup_iff.mpr hi.nd
  · intro x hx
    rw [mem, e2.ifs, e2.endLabels, e2.fors] at hx
    exact (hi.bd x hx).mono (by rw [e2.ifCounter]; simp) (by rw [e2.forCounter]; simp)
  · intro x hx; rw [e2.fors] at hx; rw [mem]; exact hi.forsDef x hx
  · intro t ht
    rw [hgo.mem_iff] at ht
    rw [mem, e2.ifs, e2.endLabels]
    simp only [List.mem_cons] at ht
    rcases ht with rfl | ht
    · rcases hl with h | h | h
      · exact Or.inr (Or.inl h)
      · exact Or.inr (Or.inr h)
      · exact Or.inl h
    · exact hi.gt t ht

/-- a jump to a label that is pending or defined, plus plain lines -/
theorem lok_goto_pending (get : BM String) (rest : BM Unit)
    (hget : ∀ s l s', get s = .ok (l, s') → s' = s ∧ (l ∈ s.ifs ∨ l ∈ s.endLabels ∨ l ∈ clabels s))
    (hrest : PlainOp rest) : LOk (do let l ← get; addLine (.cgoto l); rest : BM Unit) := by
  constructor
  intro s a s' h hi
  obtain ⟨l, s1, h1, h⟩ := bbind_ok h
  obtain ⟨_, s2, h2, h3⟩ := bbind_ok h
  obtain ⟨rfl, hl⟩ := hget _ _ _ h1
  exact (hrest.same _ _ _ h3).linv (linv_cgoto (addLine_leff h2) hl hi)

theorem lok_elseIfStartOp (c : String) : LOk (elseIfStartOp c) := by
  unfold elseIfStartOp
  refine lok_goto_pending currentIf (addLine (.elseIfOpen (ifStartLine c))) ?_ (po_addLine _ rfl)
  intro s l s' h
  obtain ⟨e, rest, hi⟩ := currentIf_ok h
  exact ⟨e, Or.inl (by rw [hi]; simp)⟩

theorem lok_elseStartOp : LOk elseStartOp := by
  unfold elseStartOp
  refine lok_goto_pending currentIf (addLine .elseOpen) ?_ (po_addLine _ rfl)
  intro s l s' h
  obtain ⟨e, rest, hi⟩ := currentIf_ok h
  exact ⟨e, Or.inl (by rw [hi]; simp)⟩

theorem lok_forStartOp : LOk forStartOp := by
  constructor
  intro s a s' h hi
  unfold forStartOp at h
  obtain ⟨_, s1, h1, h⟩ := bbind_ok h
  obtain ⟨sg, s2, h2, h⟩ := bbind_ok h
  obtain ⟨l, s3, h3, h⟩ := bbind_ok h
  obtain ⟨_, s4, h4, h5⟩ := bbind_ok h
  simp [Tr.modify] at h1
  simp [Tr.get] at h2
  obtain ⟨rfl, rfl⟩ := h2
  obtain ⟨rfl, rest, hfors⟩ := currentFor_ok h3
  have e4 := addLine_leff h4
  have e5 := addLine_leff h5
  have hl : l = forL s.forCounter := by
    rw [← h1] at hfors
    simp at hfors
    exact hfors.1.symm
  have c1 : clabels s3 = clabels s := by rw [← h1]; rfl
  have g1 : cgotos s3 = cgotos s := by rw [← h1]; rfl
  have i1 : s3.ifs = s.ifs := by rw [← h1]
  have f1 : s3.fors = forL s.forCounter :: s.fors := by rw [← h1]; rfl
  have n1 : s3.endLabels = endL s.forCounter :: s.endLabels := by rw [← h1]; rfl
  have ic1 : s3.ifCounter = s.ifCounter := by rw [← h1]
  have fc1 : s3.forCounter = s.forCounter + 1 := by rw [← h1]
  have st1 : s3.startCode = s.startCode := by rw [← h1]
  have hlab : (clabels s').Perm (forL s.forCounter :: clabels s) := by
    have a5 : (clabels s').Perm (l :: clabels s4) := by simpa [clab] using e5.labs
    have a4 : (clabels s4).Perm (clabels s3) := by simpa [clab] using e4.labs
    rw [c1] at a4
    rw [hl] at a5
    exact a5.trans (a4.cons _)
  have hgo : (cgotos s').Perm (cgotos s) := by
    have a5 : (cgotos s').Perm (cgotos s4) := by simpa [cgo] using e5.gos
    have a4 : (cgotos s4).Perm (cgotos s3) := by simpa [cgo] using e4.gos
    rw [g1] at a4
    exact a5.trans a4
  have hifs : s'.ifs = s.ifs := by rw [e5.ifs, e4.ifs, i1]
  have hfo : s'.fors = forL s.forCounter :: s.fors := by rw [e5.fors, e4.fors, f1]
  have hen : s'.endLabels = endL s.forCounter :: s.endLabels := by rw [e5.endLabels, e4.endLabels, n1]
  have hic : s'.ifCounter = s.ifCounter := by rw [e5.ifCounter, e4.ifCounter, ic1]
  have hfc : s'.forCounter = s.forCounter + 1 := by rw [e5.forCounter, e4.forCounter, fc1]
  have hst : s'.startCode = s.startCode := by rw [e5.start, e4.start, st1]
  have mem : ∀ x, x ∈ clabels s' ↔ x = forL s.forCounter ∨ x ∈ clabels s := fun x => by rw [hlab.mem_iff]; simp
  have hmono : ∀ x, Bounded s x → Bounded s' x := fun x hb => hb.mono (by omega) (by omega)
  refine ⟨fun x hx => hi.startRaw x (hst ▸ hx), ?_, ?_, ?_, ?_⟩
  · rw [hifs, hen]
    -- the two new labels are fresh and different
    have hf : ∀ x ∈ clabels s ++ s.ifs ++ s.endLabels, x ≠ forL s.forCounter ∧ x ≠ endL s.forCounter := by
      intro x hx
      simp only [List.mem_append] at hx
      apply fresh_for s hi
      rcases hx with (hx | hx) | hx
      · exact Or.inl hx
      · exact Or.inr (Or.inl hx)
      · exact Or.inr (Or.inr (Or.inl hx))
    have p : (clabels s' ++ s.ifs ++ endL s.forCounter :: s.endLabels).Perm
        (forL s.forCounter :: endL s.forCounter :: (clabels s ++ s.ifs ++ s.endLabels)) := by
      have p1 : (clabels s' ++ s.ifs ++ endL s.forCounter :: s.endLabels).Perm
          ((forL s.forCounter :: clabels s) ++ s.ifs ++ endL s.forCounter :: s.endLabels) := (hlab.append_right _).append_right _
      refine p1.trans ?_
      simp only [List.cons_append]
      refine List.Perm.cons _ ?_
      have : (clabels s ++ s.ifs ++ endL s.forCounter :: s.endLabels) = (clabels s ++ s.ifs) ++ endL s.forCounter :: s.endLabels := rfl
      rw [this]
      exact List.perm_middle
    refine p.nodup_iff.mpr ?_
    refine List.nodup_cons.mpr ⟨?_, List.nodup_cons.mpr ⟨?_, hi.nd⟩⟩
    · intro hm
      simp only [List.mem_cons] at hm
      rcases hm with hm | hm
      · exact forL_ne_endL _ _ hm
      · exact (hf _ hm).1 rfl
    · intro hm
      exact (hf _ hm).2 rfl
  · intro x hx
    rw [mem, hifs, hen, hfo] at hx
    simp only [List.mem_cons] at hx
    have new1 : Bounded s' (forL s.forCounter) := Or.inr ⟨s.forCounter, by omega, Or.inl rfl⟩
    have new2 : Bounded s' (endL s.forCounter) := Or.inr ⟨s.forCounter, by omega, Or.inr rfl⟩
    rcases hx with (rfl | hx) | hx | (rfl | hx) | (rfl | hx)
    · exact new1
    · exact hmono _ (hi.bd _ (Or.inl hx))
    · exact hmono _ (hi.bd _ (Or.inr (Or.inl hx)))
    · exact new2
    · exact hmono _ (hi.bd _ (Or.inr (Or.inr (Or.inl hx))))
    · exact new1
    · exact hmono _ (hi.bd _ (Or.inr (Or.inr (Or.inr hx))))
  · intro x hx
    rw [hfo] at hx
    rw [mem]
    simp only [List.mem_cons] at hx
    rcases hx with rfl | hx
    · exact Or.inl rfl
    · exact Or.inr (hi.forsDef x hx)
  · intro t ht
    rw [hgo.mem_iff] at ht
    rw [mem, hifs, hen]
    rcases hi.gt t ht with h | h | h
    · exact Or.inl (Or.inr h)
    · exact Or.inr (Or.inl h)
    · exact Or.inr (Or.inr (by simp [h]))

theorem lok_forEndOp : LOk forEndOp := by
  constructor
  intro s a s' h hi
  unfold forEndOp at h
  obtain ⟨l, s1, h1, h⟩ := bbind_ok h
  obtain ⟨_, s2, h2, h⟩ := bbind_ok h
  obtain ⟨_, s3, h3, h⟩ := bbind_ok h
  obtain ⟨sg, s4, h4, h5⟩ := bbind_ok h
  obtain ⟨rfl, frest, hfors⟩ := currentFor_ok h1
  simp [Tr.get] at h4
  obtain ⟨rfl, rfl⟩ := h4
  have e2 := addLine_leff h2
  have e3 := addLine_leff h3
  cases hen : s3.endLabels with
  | nil => rw [hen] at h5; simp [forEndTail, Tr.panic] at h5
  | cons e rest =>
    rw [hen] at h5
    unfold forEndTail at h5
    obtain ⟨_, s5, h6, h7⟩ := bbind_ok h5
    simp [Tr.modify] at h6
    have e7 := addLine_leff h7
    have hen1 : s1.endLabels = e :: rest := by rw [← hen, e3.endLabels, e2.endLabels]
    have c5 : clabels s5 = clabels s3 := by rw [← h6]; rfl
    have g5 : cgotos s5 = cgotos s3 := by rw [← h6]; rfl
    have hlab : (clabels s').Perm (e :: clabels s1) := by
      have a7 : (clabels s').Perm (e :: clabels s5) := by simpa [clab] using e7.labs
      have a3 : (clabels s3).Perm (clabels s2) := by simpa [clab] using e3.labs
      have a2 : (clabels s2).Perm (clabels s1) := by simpa [clab] using e2.labs
      rw [c5] at a7
      exact a7.trans ((a3.trans a2).cons e)
    have hgo : (cgotos s').Perm (l :: cgotos s1) := by
      have a7 : (cgotos s').Perm (cgotos s5) := by simpa [cgo] using e7.gos
      have a3 : (cgotos s3).Perm (cgotos s2) := by simpa [cgo] using e3.gos
      have a2 : (cgotos s2).Perm (l :: cgotos s1) := by simpa [cgo] using e2.gos
      rw [g5] at a7
      exact (a7.trans a3).trans a2
    have hifs : s'.ifs = s1.ifs := by rw [e7.ifs, ← h6]; show s3.ifs = _; rw [e3.ifs, e2.ifs]
    have hfo : s'.fors = frest := by
      rw [e7.fors, ← h6]; show s3.fors.tail = _; rw [e3.fors, e2.fors, hfors]; rfl
    have hen' : s'.endLabels = rest := by rw [e7.endLabels, ← h6]
    have hic : s'.ifCounter = s1.ifCounter := by rw [e7.ifCounter, ← h6]; show s3.ifCounter = _; rw [e3.ifCounter, e2.ifCounter]
    have hfc : s'.forCounter = s1.forCounter := by rw [e7.forCounter, ← h6]; show s3.forCounter = _; rw [e3.forCounter, e2.forCounter]
    have hst : s'.startCode = s1.startCode := by rw [e7.start, ← h6]; show s3.startCode = _; rw [e3.start, e2.start]
    have mem : ∀ x, x ∈ clabels s' ↔ x = e ∨ x ∈ clabels s1 := fun x => by rw [hlab.mem_iff]; simp
    refine ⟨fun x hx => hi.startRaw x (hst ▸ hx), ?_, ?_, ?_, ?_⟩
    · rw [hifs, hen']
      have := hi.nd
      rw [hen1] at this
      exact nodup_move_end hlab this
    · intro x hx
      rw [mem, hifs, hen', hfo] at hx
      have hb : Bounded s1 x := by
        rcases hx with (rfl | hx) | hx | hx | hx
        · exact hi.bd _ (Or.inr (Or.inr (Or.inl (by rw [hen1]; simp))))
        · exact hi.bd _ (Or.inl hx)
        · exact hi.bd _ (Or.inr (Or.inl hx))
        · exact hi.bd _ (Or.inr (Or.inr (Or.inl (by rw [hen1]; simp [hx]))))
        · exact hi.bd _ (Or.inr (Or.inr (Or.inr (by rw [hfors]; simp [hx]))))
      exact hb.mono (by omega) (by omega)
    · intro x hx
      rw [hfo] at hx
      rw [mem]
      exact Or.inr (hi.forsDef x (by rw [hfors]; simp [hx]))
    · intro t ht
      rw [hgo.mem_iff] at ht
      rw [mem, hifs, hen']
      simp only [List.mem_cons] at ht
      rcases ht with rfl | ht
      · exact Or.inl (Or.inr (hi.forsDef _ (by rw [hfors]; simp)))
      · rcases hi.gt t ht with h | h | h
        · exact Or.inl (Or.inr h)
        · exact Or.inr (Or.inl h)
        · rw [hen1] at h
          simp only [List.mem_cons] at h
          rcases h with rfl | h
          · exact Or.inl (Or.inl rfl)
          · exact Or.inr (Or.inr h)

theorem lok_brkOp : LOk brkOp := by
  constructor
  intro s a s' h hi
  unfold brkOp at h
  obtain ⟨sg, s1, h1, h2⟩ := bbind_ok h
  simp [Tr.get] at h1
  obtain ⟨rfl, rfl⟩ := h1
  cases he : s.endLabels with
  | nil => rw [he] at h2; simp [brkTail, Tr.fail] at h2
  | cons e rest =>
    rw [he] at h2
    unfold brkTail at h2
    exact linv_cgoto (addLine_leff h2) (Or.inr (Or.inl (by rw [he]; simp))) hi

theorem lok_contOp : LOk contOp := by
  constructor
  intro s a s' h hi
  unfold contOp at h
  obtain ⟨l, s1, h1, h2⟩ := bbind_ok h
  obtain ⟨rfl, rest, hf⟩ := currentFor_ok h1
  exact linv_cgoto (addLine_leff h2) (Or.inr (Or.inr (hi.forsDef l (by rw [hf]; simp)))) hi

/-! ### the remaining statement operations add plain lines only -/

theorem po_sliceAssignmentOp (n i v d : String) (g : Bool) : PlainOp (sliceAssignmentOp n i v d g) := by
  unfold sliceAssignmentOp
  refine po_bind _ _ ?_ (fun _ => po_bind _ _ po_get (fun _ => po_callFunc _ _ _))
  apply po_modify; intro s; simp

theorem po_funcStartOp (n : String) (ps : List String) : PlainOp (funcStartOp n ps) := by
  unfold funcStartOp
  refine po_bind _ _ ?_ (fun _ => po_bind _ _ (po_addLine _ rfl) (fun _ => po_bind _ _ (po_addLine _ rfl) (fun _ =>
    po_bind _ _ (po_addLine _ rfl) (fun _ => po_setParams _ _))))
  apply po_modify; intro s; simp

theorem po_funcEndOp : PlainOp funcEndOp := by
  unfold funcEndOp
  refine po_bind _ _ po_currentFunc (fun _ => po_bind _ _ (po_addLine _ rfl) (fun _ => po_bind _ _ (po_addLine _ rfl) (fun _ =>
    po_bind _ _ (po_addLine _ rfl) (fun _ => po_bind _ _ (po_addLine _ rfl) (fun _ => ?_)))))
  apply po_modify; intro s; simp

theorem po_retOp (vs : List String) : PlainOp (retOp vs) := by
  unfold retOp
  exact po_bind _ _ po_currentFunc (fun _ => po_bind _ _ (po_storeRets _ _) (fun _ => po_addLine _ rfl))

theorem po_forIncrementStartOp : PlainOp forIncrementStartOp := by
  unfold forIncrementStartOp; exact po_bind _ _ po_get (fun _ => po_addLine _ rfl)

theorem po_forIncrementEndOp : PlainOp forIncrementEndOp := by
  unfold forIncrementEndOp
  exact po_bind _ _ po_get (fun _ => po_bind _ _ (po_addLine _ rfl) (fun _ => po_addLine _ rfl))

theorem po_panicOp (v : String) : PlainOp (panicOp v) := by
  unfold panicOp
  exact po_bind _ _ (po_callEcho _) (fun _ => po_bind _ _ (po_addLine _ rfl) (fun _ => po_addLine _ rfl))

theorem po_writeFileOp (p c a : String) : PlainOp (writeFileOp p c a) := by
  unfold writeFileOp
  refine po_bind _ _ ?_ (fun _ => po_callFunc _ _ _)
  apply po_modify; intro s; simp

theorem lok_stmtOps : StmtOps lokClosed conv where
  sliceAssignment := fun n i v d g => (po_sliceAssignmentOp n i v d g).lok
  funcStart := fun n ps => (po_funcStartOp n ps).lok
  funcEnd := po_funcEndOp.lok
  ret := fun vs => (po_retOp vs).lok
  ifStart := lok_ifStartOp
  ifEnd := lok_ifEndOp
  elseIfStart := lok_elseIfStartOp
  elseIfEnd := lok_pure ()
  elseStart := lok_elseStartOp
  elseEnd := lok_pure ()
  forStart := lok_forStartOp
  forIncrementStart := po_forIncrementStartOp.lok
  forIncrementEnd := po_forIncrementEndOp.lok
  forCondition := fun c => (po_addLine _ rfl).lok
  forEnd := lok_forEndOp
  brk := lok_brkOp
  cont := lok_contOp
  print := fun vs => (po_callEcho vs).lok
  panic := fun v => (po_panicOp v).lok
  writeFile := fun p c a => (po_writeFileOp p c a).lok
  nop := (po_addLine _ rfl).lok

theorem lok_panicOK : PanicOK lokClosed := fun m => (po_panic m).lok

theorem evalStmts_lok (body : List Stmt) : LOk (evalStmts conv body) :=
  evalStmts_closed lokClosed conv lok_exprOps lok_stmtOps lok_panicOK body

theorem linv_init : LInv ({} : St) := by
  refine ⟨?_, ?_, ?_, ?_, ?_⟩
  · intro l hl; simp at hl
  · simp [clabels, codeLines]
  · intro l hl; simp [clabels, codeLines] at hl
  · intro l hl; simp at hl
  · intro t ht; simp [cgotos, codeLines] at ht

theorem po_programStart : PlainOp programStart := by
  unfold programStart
  exact po_bind _ _ (po_addStartLine _ rfl) (fun _ => po_bind _ _ (po_addStartLine _ rfl) (fun _ =>
    po_bind _ _ (po_addStartLine _ rfl) (fun _ => po_addStartLine _ rfl)))

/-- the label invariant holds of the state in which every program ends -/
theorem program_linv (p : Program) (u : Unit) (s : St) (h : evalProgram conv p {} = .ok (u, s)) : LInv s := by
  have hp : LOk (evalProgram conv p) := by
    unfold evalProgram
    exact lok_bind _ _ po_programStart.lok (fun _ => lok_bind _ _ (evalStmts_lok p) (fun _ => lok_pure _))
  exact hp.keep _ _ _ h linv_init

/-! ### from the final state to the lines of the script -/

theorem filterMap_plain_clab (ls : List BLine) (h : ∀ l ∈ ls, plainLine l = true) : ls.filterMap clab = [] := by
  rw [List.filterMap_eq_nil_iff]
  intro l hl
  have := h l hl
  simp only [plainLine, Bool.and_eq_true, Option.isNone_iff_eq_none] at this
  exact this.1

theorem filterMap_plain_cgo (ls : List BLine) (h : ∀ l ∈ ls, plainLine l = true) : ls.filterMap cgo = [] := by
  rw [List.filterMap_eq_nil_iff]
  intro l hl
  have := h l hl
  simp only [plainLine, Bool.and_eq_true, Option.isNone_iff_eq_none] at this
  exact this.2

theorem helper_plain (t l : String) (code : List BLine) (h : code.all plainLine = true) : (helper t l code).all plainLine = true := by
  simp only [helper, List.all_append, Bool.and_eq_true]
  exact ⟨⟨rfl, h⟩, rfl⟩

theorem helperLines_plain (s : St) : (helperLines s).all plainLine = true := by
  unfold helperLines
  simp only [List.all_append, Bool.and_eq_true]
  have e : ∀ (b : Bool) (x : List BLine), x.all plainLine = true → (if b then x else []).all plainLine = true := by
    intro b x hx; cases b <;> simp [hx]
  refine ⟨⟨⟨⟨⟨⟨⟨⟨⟨?_, ?_⟩, ?_⟩, ?_⟩, ?_⟩, ?_⟩, ?_⟩, ?_⟩, ?_⟩, ?_⟩ <;> exact e _ _ (helper_plain _ _ _ rfl)

theorem flatten_map_reverse_perm {α : Type} (L : List (List α)) : (L.map List.reverse).flatten.Perm L.flatten := by
  induction L with
  | nil => exact List.Perm.refl _
  | cons a rest ih =>
    simp only [List.map_cons, List.flatten_cons]
    exact (List.reverse_perm a).append ih

/-- construct labels / jumps of the dumped script are those of the state, up to order -/
theorem dump_clabels (s : St) (hs : ∀ l ∈ s.startCode, plainLine l = true) : ((dumpLines s).filterMap clab).Perm (clabels s) := by
  unfold dumpLines clabels codeLines
  simp only [List.filterMap_append]
  rw [filterMap_plain_clab s.startCode.reverse (fun l hl => hs l (List.mem_reverse.mp hl)),
    filterMap_plain_clab (helperLines s) (fun l hl => by have := helperLines_plain s; rw [List.all_eq_true] at this; exact this l hl)]
  simp only [List.nil_append]
  have t : List.filterMap clab [BLine.label "end", BLine.raw "endlocal & exit /B %_e%"] = [] := rfl
  rw [t, List.append_nil]
  exact ((flatten_map_reverse_perm _).filterMap clab).append ((List.reverse_perm _).filterMap clab)

theorem dump_cgotos (s : St) (hs : ∀ l ∈ s.startCode, plainLine l = true) : ((dumpLines s).filterMap cgo).Perm (cgotos s) := by
  unfold dumpLines cgotos codeLines
  simp only [List.filterMap_append]
  rw [filterMap_plain_cgo s.startCode.reverse (fun l hl => hs l (List.mem_reverse.mp hl)),
    filterMap_plain_cgo (helperLines s) (fun l hl => by have := helperLines_plain s; rw [List.all_eq_true] at this; exact this l hl)]
  simp only [List.nil_append]
  have t : List.filterMap cgo [BLine.label "end", BLine.raw "endlocal & exit /B %_e%"] = [] := rfl
  rw [t, List.append_nil]
  exact ((flatten_map_reverse_perm _).filterMap cgo).append ((List.reverse_perm _).filterMap cgo)

end Tsh.Batch
