/-
  Control structure with effects and calls: sequencing, if-chains, loops.
-/
import TshVerif.Lemmas.Sem2Assign
namespace Tsh.Sem2
open Tsh Tsh.Tr Tsh.Bash Tsh.Sem Tsh.Sem2.Src
open Tsh.Sem.Src (Val Env)

theorem outRel_normal {o : SOut} {o' : Out} (h : OutRel o o') : o' = .normal ↔ o = .normal := by
  cases o <;> cases o' <;> simp [OutRel] at h ⊢

theorem Kept.trans {ctx : Ctx} {T : List FEntry} {B k k' : Nat} {c1 c2 : SCfg} {m m1 m2 : Cfg}
    (h1 : Kept ctx T B k c1 m m1) (h2 : Kept ctx T B k' c2 m1 m2) (hk : k ≤ k') : Kept ctx T B k c2 m m2 :=
  ⟨h2.inv, h1.ctl.trans h2.ctl, h1.flags.trans h2.flags hk⟩

/-- sequencing -/
theorem stmtSemF_seq {ctx : Ctx} {T : List FEntry} {B : Nat} {src1 src2 src : Nat → SCfg → Option (SOut × SCfg)} {s s1 s2 : St}
    (h1 : StmtSemF ctx T B src1 s s1) (h2 : StmtSemF ctx T B src2 s1 s2)
    (hsrc : ∀ fuel c o c', src fuel c = some (o, c') →
      (∃ f1, src1 f1 c = some (o, c') ∧ o ≠ .normal) ∨
      (∃ f1 f2 c1, src1 f1 c = some (.normal, c1) ∧ src2 f2 c1 = some (o, c'))) :
    StmtSemF ctx T B src s s2 := by
  have hfc := h1.forCounter
  obtain ⟨cs1, n1, m1, r1, e1, hl1, sim1⟩ := h1
  obtain ⟨cs2, n2, m2, r2, e2, hl2, sim2⟩ := h2
  refine ⟨cs1 ++ cs2, n1 + n2, m1 + m2, r1.or r2, ?_, ?_, ?_⟩
  · rw [e2, e1, adv2_reqSt, reqSt_reqSt, adv2_adv2, flats_append, List.reverse_append]
  · rw [flats_append]
    refine (hl1.mono (by omega)).append ?_
    have : s1.forCounter + m2 = s.forCounter + (m1 + m2) := by rw [e1]; simp [adv2, reqSt, Nat.add_assoc]
    rw [← this]; exact hl2
  · intro fuel c o c' hs m hi
    rcases hsrc fuel c o c' hs with ⟨f1, hs1, hne⟩ | ⟨f1, f2, c1, hs1, hs2⟩
    · obtain ⟨m', o', ex, hr, ho, hk, hv⟩ := sim1 f1 c o c' hs1 m hi
      exact ⟨m', o', execCmds_stop_append cs2 ex (fun e => hne ((outRel_normal hr).mp e)), hr, ho, hk, hv⟩
    · obtain ⟨ma, oa, exa, hra, _, hka, _⟩ := sim1 f1 c _ c1 hs1 m hi
      have : oa = .normal := (outRel_normal hra).mpr rfl
      subst this
      have ka := hka (fun j => by simp)
      obtain ⟨mb, ob, exb, hrb, hob, hkb, hvb⟩ := sim2 f2 c1 o c' hs2 ma ka.inv
      exact ⟨mb, ob, execCmds_append exa exb, hrb, hob, fun hne => ka.trans (hkb hne) hfc, hvb⟩

theorem stmtSemF_nil (ctx : Ctx) (T : List FEntry) (B : Nat) (s : St) : StmtSemF ctx T B (fun f c => execSs f [] c) s s := by
  refine ⟨[], 0, 0, Req.none, by rw [reqSt_none]; rfl, by simp [flats]; exact LinesOK.nil _ _ _, ?_⟩
  intro fuel c o c' hs m hi
  cases fuel with
  | zero => simp [execSs] at hs
  | succ f =>
    simp only [execSs, Option.some.injEq, Prod.mk.injEq] at hs
    obtain ⟨rfl, rfl⟩ := hs
    exact ⟨m, .normal, ExecCmds.nil, trivial, hi.out, fun _ => ⟨hi, Ctl.refl m, FlagsKept.refl _ _ m⟩, fun vs hv => by cases hv⟩

theorem execSs_cons_cases {fuel : Nat} {st : Stmt} {rest : List Stmt} {c c' : SCfg} {o : SOut}
    (h : execSs fuel (st :: rest) c = some (o, c')) :
    (∃ f1, execS f1 st c = some (o, c') ∧ o ≠ .normal) ∨
    (∃ f1 f2 c1, execS f1 st c = some (.normal, c1) ∧ execSs f2 rest c1 = some (o, c')) := by
  cases fuel with
  | zero => simp [execSs] at h
  | succ f =>
    simp only [execSs] at h
    split at h
    · rename_i c1 h1
      exact Or.inr ⟨f, f, c1, h1, h⟩
    · rename_i r hr
      cases hx : execS f st c with
      | none => rw [hx] at h; simp at h
      | some p =>
        obtain ⟨o1, c1⟩ := p
        rw [hx] at h
        simp only [Option.some.injEq, Prod.mk.injEq] at h
        obtain ⟨rfl, rfl⟩ := h
        refine Or.inl ⟨f, hx, ?_⟩
        intro e; subst e
        exact hr c1 hx

/-! ### conditions of the else-if branches are arguments -/

theorem evalConds_eq_args : ∀ (elifs : List (Expr × List Stmt)), evalConds conv elifs = Tr.evalArgs conv (elifs.map Prod.fst)
  | [] => by simp [evalConds, Tr.evalArgs]
  | (c, b) :: rest => by
    simp only [evalConds, Tr.evalArgs, List.map_cons, evalConds_eq_args rest]

theorem evalCs_eq_args : ∀ (fuel : Nat) (elifs : List (Expr × List Stmt)) (c : SCfg), evalCs fuel elifs c = Src.evalArgs fuel (elifs.map Prod.fst) c
  | 0, _, _ => by simp [evalCs, Src.evalArgs]
  | f + 1, [], c => by simp [evalCs, Src.evalArgs]
  | f + 1, (e, b) :: rest, c => by
    simp only [evalCs, Src.evalArgs, List.map_cons]
    cases evalE f e c with
    | none => rfl
    | some r =>
      cases r with
      | exit k c1 => rfl
      | ok os c1 =>
        match os with
        | [] => rfl
        | [o] => simp only [evalCs_eq_args f rest c1]
        | _ :: _ :: _ => rfl

/-! ### guards -/

theorem guardF_of_holds {ctx : Ctx} {w t : String} {o : Opd} {b : Bool} {n : Nat} {c : SCfg} {m : Cfg}
    (h : HoldsF ctx t o n m.ρ) (ha : AgreeF ctx c m) (hv : resolve c o = some (.bool b)) :
    Sem.guard m.ρ (.ifStart w t) = some b := by
  simp only [Sem.guard, h.expandBool ha hv]
  cases b <;> simp

def GuardValsF : List String → List Val → Store → Prop
  | [], [], _ => True
  | t :: ts, v :: vs, ρ => (∀ b, v = .bool b → Sem.guard ρ (.ifStart "elif" t) = some b) ∧ GuardValsF ts vs ρ
  | _, _, _ => False

theorem guardValsF_of_holdsAll {ctx : Ctx} {c : SCfg} {m : Cfg} (ha : AgreeF ctx c m) :
    ∀ {ts : List String} {os : List Opd} {n : Nat} {vs : List Val}, HoldsAllF ctx ts os n m.ρ → resolveAll c os = some vs →
      GuardValsF ts vs m.ρ
  | [], [], _, vs, _, hr => by
    simp only [resolveAll, Option.some.injEq] at hr
    subst hr; trivial
  | t :: ts, o :: os, n, vs, hh, hr => by
    simp only [resolveAll] at hr
    split at hr
    · rename_i v vs' hv hvs
      simp only [Option.some.injEq] at hr
      subst hr
      exact ⟨fun b hb => by subst hb; exact guardF_of_holds hh.1 ha hv, guardValsF_of_holdsAll ha hh.2 hvs⟩
    · simp at hr
  | [], _ :: _, _, _, hh, _ => hh.elim
  | _ :: _, [], _, _, hh, _ => hh.elim

/-! ### loops -/

def srcIncrF (incr : Option Stmt) : Nat → SCfg → Option (SOut × SCfg) :=
  fun f c => match incr with
    | some i => execS f i c
    | none => some (.normal, c)

def FlagOKF (incr : Option Stmt) (n : Nat) (ρ : Store) : Prop :=
  match incr with
  | some _ => ρ (flagName n) = "1"
  | none => True

theorem flagOKF_congr (incr : Option Stmt) (n : Nat) (ρ ρ' : Store) (h : ρ' (flagName n) = ρ (flagName n)) (hf : FlagOKF incr n ρ) :
    FlagOKF incr n ρ' := by
  cases incr with
  | none => trivial
  | some i => simp only [FlagOKF] at hf ⊢; rw [h]; exact hf

theorem step2_forCond {tc : String} (m : Cfg) {b : Bool} (h : expandInt m.ρ tc = some (if b then 1 else 0)) :
    stepSimple (.forCond tc) m = some (if b then .normal else .brk, m) := by
  simp only [stepSimple, h]
  cases b <;> simp

/-- what the increment part `P` of a loop body does when the previous round ended normally -/
def IncrStepF (ctx : Ctx) (T : List FEntry) (B : Nat) (incr : Option Stmt) (P : List Cmd) (n : Nat) : Prop :=
  ∀ fuel cb o c2, srcIncrF incr fuel cb = some (o, c2) → ∀ m, Inv ctx T cb m → FlagOKF incr n m.ρ →
    ∃ m5 o', ExecCmds P m o' m5 ∧ OutRel o o' ∧ c2.out = m5.out ∧
      (o = .normal → Inv ctx T c2 m5 ∧ Ctl m m5 ∧ FlagsKept B n m m5 ∧ FlagOKF incr n m5.ρ)

theorem loop_simF {ctx : Ctx} {T : List FEntry} {B : Nat} {cond : Expr} {incr : Option Stmt} {body : List Stmt}
    {P : List Cmd} {newc : List Line} {lo nc : Nat} {tc : String} {bodyCmds : List Cmd} {n kb : Nat}
    (hcond : ESim ctx T B (single (fun f c => evalE f cond c)) newc lo nc [tc])
    (hbody : SimF ctx T B (fun f c => execSs f body c) bodyCmds kb) (hkb : n < kb) (hBn : B ≤ n)
    (hP : IncrStepF ctx T B incr P n) :
    ∀ fuel c1 o c', execLp fuel cond incr body c1 = some (o, c') →
      ∀ m0 m1, ExecCmds P m0 .normal m1 → Inv ctx T c1 m1 → FlagOKF incr n m1.ρ →
        ∃ m' o', ExecLoop (P ++ (newc.reverse.map Cmd.simple ++ (Cmd.simple (.forCond tc) :: bodyCmds))) m0 o' m' ∧ OutRel o o' ∧
          c'.out = m'.out ∧ ((∀ j, o ≠ .exit j) → Inv ctx T c' m' ∧ Ctl m1 m' ∧ FlagsKept B n m1 m') ∧
          (∀ vs, o = .ret vs → ValsRv 0 vs m'.ρ) := by
  intro fuel
  induction fuel with
  | zero => intro c1 o c' h; simp [execLp] at h
  | succ f ih =>
    intro c1 o c' h m0 m1 hP0 hi1 hf1
    simp only [execLp] at h
    split at h
    · -- the condition was evaluated
      rename_i ov c0 hce
      obtain ⟨m2, ex2, hi2, hc2, hk2, hh2⟩ := runs_ok_then (hcond.run f c1 _ (single_ok hce) m1 hi1)
      have hf2 : FlagOKF incr n m2.ρ := flagOKF_congr incr n _ _ (hk2.flags n hBn) hf1
      have ff2 : FlagsKept B n m1 m2 := hk2.flagsKept
      split at h
      · -- true
        rename_i hres
        have stepc := step2_forCond (b := true) m2 (hh2.1.expandBool hi2.agree hres)
        simp only [if_true] at stepc
        have pre : ∀ {ob mb}, ExecCmds bodyCmds m2 ob mb →
            ExecCmds (P ++ (newc.reverse.map Cmd.simple ++ (Cmd.simple (.forCond tc) :: bodyCmds))) m0 ob mb := by
          intro ob mb hb
          exact execCmds_append hP0 (execCmds_append ex2 (ExecCmds.cons (ExecCmd.simple rfl stepc) hb))
        split at h
        · -- break
          rename_i cb hb
          simp only [Option.some.injEq, Prod.mk.injEq] at h
          obtain ⟨rfl, rfl⟩ := h
          obtain ⟨mb, ob, exb, hrb, hob, hkb', _⟩ := hbody f c0 _ _ hb m2 hi2
          have : ob = .brk := by cases ob <;> simp [OutRel] at hrb ⊢
          subst this
          have kb' := hkb' (fun j => by simp)
          exact ⟨mb, .normal, ExecLoop.brk (pre exb), trivial, hob,
            fun _ => ⟨kb'.inv, hc2.trans kb'.ctl, ff2.trans (kb'.flags.mono (by omega)) (Nat.le_refl _)⟩, fun vs hv => by cases hv⟩
        · -- exit
          rename_i k cb hb
          simp only [Option.some.injEq, Prod.mk.injEq] at h
          obtain ⟨rfl, rfl⟩ := h
          obtain ⟨mb, ob, exb, hrb, hob, _, _⟩ := hbody f c0 _ _ hb m2 hi2
          have : ob = .exit k := by cases ob <;> simp [OutRel] at hrb ⊢; exact hrb.symm
          subst this
          exact ⟨mb, .exit k, ExecLoop.exit (pre exb), rfl, hob, fun hne => absurd rfl (hne k), fun vs hv => by cases hv⟩
        · -- return
          rename_i vs cb hb
          simp only [Option.some.injEq, Prod.mk.injEq] at h
          obtain ⟨rfl, rfl⟩ := h
          obtain ⟨mb, ob, exb, hrb, hob, hkb', hvb⟩ := hbody f c0 _ _ hb m2 hi2
          have : ob = .ret := by cases ob <;> simp [OutRel] at hrb ⊢
          subst this
          have kb' := hkb' (fun j => by simp)
          exact ⟨mb, .ret, ExecLoop.ret (pre exb), trivial, hob,
            fun _ => ⟨kb'.inv, hc2.trans kb'.ctl, ff2.trans (kb'.flags.mono (by omega)) (Nat.le_refl _)⟩, hvb⟩
        · -- the body ended or said `continue`
          rename_i ob cb hnb hne hnr hb
          obtain ⟨mb, ob', exb, hrb, hob, hkb', _⟩ := hbody f c0 _ _ hb m2 hi2
          have hnex : ∀ j, ob ≠ .exit j := fun j e => by subst e; simp at hne
          have kb' := hkb' hnex
          have hfb : FlagOKF incr n mb.ρ := flagOKF_congr incr n _ _ (kb'.flags n hBn hkb) hf2
          have hob' : ob' = .normal ∨ ob' = .cont := by
            cases ob <;> cases ob' <;> simp [OutRel] at hrb ⊢
            · simp at hnb
            · simp at hnr
            · exact absurd rfl (hnex _)
          have fin : ∀ m' o'', ExecLoop (P ++ (newc.reverse.map Cmd.simple ++ (Cmd.simple (.forCond tc) :: bodyCmds))) mb o'' m' →
              ExecLoop (P ++ (newc.reverse.map Cmd.simple ++ (Cmd.simple (.forCond tc) :: bodyCmds))) m0 o'' m' := by
            intro m' o'' hl
            rcases hob' with rfl | rfl
            · exact ExecLoop.next (pre exb) hl
            · exact ExecLoop.cont (pre exb) hl
          -- the increment, then the next round
          have next : ∀ oi c2, srcIncrF incr f cb = some (oi, c2) →
              (oi = .normal → execLp f cond incr body c2 = some (o, c')) → (∀ j, oi = .exit j → o = .exit j ∧ c' = c2) → (oi = .normal ∨ ∃ j, oi = .exit j) →
              ∃ m' o', ExecLoop (P ++ (newc.reverse.map Cmd.simple ++ (Cmd.simple (.forCond tc) :: bodyCmds))) m0 o' m' ∧ OutRel o o' ∧
                c'.out = m'.out ∧ ((∀ j, o ≠ .exit j) → Inv ctx T c' m' ∧ Ctl m1 m' ∧ FlagsKept B n m1 m') ∧
                (∀ vs, o = .ret vs → ValsRv 0 vs m'.ρ) := by
            intro oi c2 hi' hnorm hexit hcase
            obtain ⟨m5, o5, ex5, hr5, ho5, hk5⟩ := hP f cb oi c2 hi' mb kb'.inv hfb
            rcases hcase with rfl | ⟨j, rfl⟩
            · have : o5 = .normal := (outRel_normal hr5).mpr rfl
              subst this
              obtain ⟨hi5, hc5, hf5, hfo5⟩ := hk5 rfl
              obtain ⟨m', o', exl, hrl, hol, hkl, hvl⟩ := ih c2 o c' (hnorm rfl) mb m5 ex5 hi5 hfo5
              refine ⟨m', o', fin m' o' exl, hrl, hol, fun hne' => ?_, hvl⟩
              obtain ⟨a, b, c''⟩ := hkl hne'
              exact ⟨a, ((hc2.trans kb'.ctl).trans hc5).trans b,
                ((ff2.trans (kb'.flags.mono (by omega)) (Nat.le_refl _)).trans hf5 (Nat.le_refl _)).trans c'' (Nat.le_refl _)⟩
            · obtain ⟨rfl, rfl⟩ := hexit j rfl
              have : o5 = .exit j := by cases o5 <;> simp [OutRel] at hr5 ⊢; exact hr5.symm
              subst this
              refine ⟨m5, .exit j, fin m5 _ (ExecLoop.exit (execCmds_stop_append _ ex5 (by simp))), rfl, ho5, fun hne' => absurd rfl (hne' j), fun vs hv => by cases hv⟩
          cases hinc : incr with
          | none =>
            simp only [hinc] at h
            rw [← hinc] at h
            exact next .normal cb (by simp [srcIncrF, hinc]) (fun _ => h) (fun j hj => by cases hj) (Or.inl rfl)
          | some i =>
            simp only [hinc] at h
            split at h
            · rename_i c2 hi'
              rw [← hinc] at h
              exact next .normal c2 (by simpa [srcIncrF, hinc] using hi') (fun _ => h) (fun j hj => by cases hj) (Or.inl rfl)
            · rename_i k c2 hi'
              simp only [Option.some.injEq, Prod.mk.injEq] at h
              obtain ⟨rfl, rfl⟩ := h
              exact next (.exit k) c2 (by simpa [srcIncrF, hinc] using hi') (fun hn => by cases hn)
                (fun j hj => by simp only [SOut.exit.injEq] at hj; subst hj; exact ⟨rfl, rfl⟩) (Or.inr ⟨k, rfl⟩)
            · simp at h
        · simp at h
      · -- false: the loop ends
        rename_i hres
        simp only [Option.some.injEq, Prod.mk.injEq] at h
        obtain ⟨rfl, rfl⟩ := h
        have stepc := step2_forCond (b := false) m2 (hh2.1.expandBool hi2.agree hres)
        simp only [Bool.false_eq_true, if_false] at stepc
        refine ⟨m2, .normal, ExecLoop.brk ?_, trivial, hi2.out, fun _ => ⟨hi2, hc2, ff2⟩, fun vs hv => by cases hv⟩
        exact execCmds_append hP0 (execCmds_append ex2 (ExecCmds.stop (ExecCmd.simple rfl stepc) (by simp)))
      · simp at h
    · -- the condition ended the program
      rename_i k c0 hce
      simp only [Option.some.injEq, Prod.mk.injEq] at h
      obtain ⟨rfl, rfl⟩ := h
      obtain ⟨m2, ex2, ho2⟩ := hcond.run f c1 _ (single_exit hce) m1 hi1
      refine ⟨m2, .exit k, ExecLoop.exit ?_, rfl, ho2, fun hne => absurd rfl (hne k), fun vs hv => by cases hv⟩
      exact execCmds_append hP0 (execCmds_stop_append _ ex2 (by simp))
    · simp at h

end Tsh.Sem2
