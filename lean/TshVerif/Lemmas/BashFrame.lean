/-
  Frame lemmas for the bash converter: every expression-level operation (and plain stores) only
  appends *simple* lines and leaves loop / function stacks and loop / function counters alone.
-/
import TshVerif.Model.ConvBash
import TshVerif.Lemmas.Walk
namespace Tsh.Bash
open Tsh Tsh.Tr

/-- lines that are complete simple commands (no compound-command keyword of their own) -/
def Line.isSimple : Line → Bool
  | .funcStart _ | .funcEnd | .ifStart _ _ | .else_ | .fi | .forFlagInit _ | .whileStart | .incrStart _
  | .incrFlagSet _ | .done => false
  | _ => true

/-- what a simple computation may do to the state -/
structure Frame (s s' : St) : Prop where
  fors : s'.fors = s.fors
  funcs : s'.funcs = s.funcs
  forCounter : s'.forCounter = s.forCounter
  funcCounter : s'.funcCounter = s.funcCounter
  startCode : s'.startCode = s.startCode
  code : ∃ new, s'.code = new ++ s.code ∧ ∀ l ∈ new, l.isSimple = true

theorem Frame.refl (s : St) : Frame s s := ⟨rfl, rfl, rfl, rfl, rfl, [], by simp, by simp⟩

theorem Frame.trans {a b c : St} (h1 : Frame a b) (h2 : Frame b c) : Frame a c := by
  obtain ⟨n1, hc1, hs1⟩ := h1.code
  obtain ⟨n2, hc2, hs2⟩ := h2.code
  exact ⟨h2.fors.trans h1.fors, h2.funcs.trans h1.funcs, h2.forCounter.trans h1.forCounter,
    h2.funcCounter.trans h1.funcCounter, h2.startCode.trans h1.startCode,
    n2 ++ n1, by simp [hc2, hc1], by
      intro l hl; simp at hl; rcases hl with hl | hl
      · exact hs2 l hl
      · exact hs1 l hl⟩

/-- a computation is *simple* if every successful run is framed -/
structure Simple {α : Type} (m : BM α) : Prop where
  frame : ∀ s a s', m s = .ok (a, s') → Frame s s'

theorem simple_pure {α : Type} (a : α) : Simple (pure a : BM α) := by
  constructor; intro s b s' h; simp [pure] at h; obtain ⟨_, rfl⟩ := h; exact Frame.refl _

theorem simple_bind {α β : Type} (x : BM α) (f : α → BM β) (hx : Simple x) (hf : ∀ a, Simple (f a)) : Simple (x >>= f) := by
  constructor
  intro s b s'' h
  simp only [bind] at h
  cases hxs : x s with
  | ok p =>
    obtain ⟨a, s'⟩ := p
    simp [hxs] at h
    exact (hx.frame s a s' hxs).trans ((hf a).frame s' b s'' h)
  | error m => simp [hxs] at h
  | panic m => simp [hxs] at h

theorem simple_fail {α : Type} (m : String) : Simple (fail m : BM α) := by
  constructor; intro s a s' h; simp [fail] at h

theorem simple_panic {α : Type} (m : String) : Simple (Tr.panic m : BM α) := by
  constructor; intro s a s' h; simp [Tr.panic] at h

/-- the predicate family for the generic walk induction -/
def simpleClosed : Closed St where
  P := fun m => Simple m
  pure := simple_pure
  bind := simple_bind
  fail := simple_fail

theorem simple_get : Simple (Tr.get : BM St) := by
  constructor; intro s a s' h; simp [Tr.get] at h; obtain ⟨_, rfl⟩ := h; exact Frame.refl _

theorem simple_addLine (l : Line) (hl : l.isSimple = true) : Simple (addLine l) := by
  constructor
  intro s a s' h
  simp [addLine, Tr.modify] at h
  subst h
  exact ⟨rfl, rfl, rfl, rfl, rfl, [l], by simp, by simp [hl]⟩

theorem simple_nextHelperVar : Simple nextHelperVar := by
  constructor
  intro s a s' h
  simp [nextHelperVar] at h
  obtain ⟨_, rfl⟩ := h
  exact ⟨rfl, rfl, rfl, rfl, rfl, [], by simp, by simp⟩

/-- setting helper-required flags is simple -/
theorem simple_modify_flags (f : St → St)
    (hf : ∀ s, (f s).fors = s.fors ∧ (f s).funcs = s.funcs ∧ (f s).forCounter = s.forCounter ∧
      (f s).funcCounter = s.funcCounter ∧ (f s).startCode = s.startCode ∧ (f s).code = s.code) : Simple (Tr.modify f : BM Unit) := by
  constructor
  intro s a s' h
  simp [Tr.modify] at h
  subst h
  obtain ⟨h1, h2, h3, h4, h5, h6⟩ := hf s
  exact ⟨h1, h2, h3, h4, h5, [], by simp [h6], by simp⟩

theorem simple_varAssignment (n v : String) (g : Bool) : Simple (varAssignment n v g) := by
  unfold varAssignment
  exact simple_bind _ _ simple_get (fun _ => simple_addLine _ rfl)

theorem simple_varAssignSliceLen (n v : String) (g : Bool) : Simple (varAssignSliceLen n v g) := by
  unfold varAssignSliceLen
  exact simple_bind _ _ simple_get (fun _ => simple_addLine _ rfl)

theorem simple_varAssignStrLen (n : String) (g : Bool) : Simple (varAssignStrLen n g) := by
  unfold varAssignStrLen
  exact simple_bind _ _ simple_get (fun _ => simple_addLine _ rfl)

theorem simple_varEvaluation (n : String) (g : Bool) : Simple (varEvaluation n g) := by
  unfold varEvaluation
  exact simple_bind _ _ simple_get (fun _ => simple_pure _)

theorem simple_modify_req (f : St → St)
    (hf : ∀ s, (f s).fors = s.fors ∧ (f s).funcs = s.funcs ∧ (f s).forCounter = s.forCounter ∧
      (f s).funcCounter = s.funcCounter ∧ (f s).startCode = s.startCode ∧ (f s).code = s.code) : Simple (Tr.modify f : BM Unit) :=
  simple_modify_flags f hf

/-- helper assignment followed by the reference to the helper -/
theorem simple_assign_eval (h v : String) : Simple (do varAssignment h v false; varEvaluation h false : BM String) :=
  simple_bind _ _ (simple_varAssignment _ _ _) (fun _ => simple_varEvaluation _ _)

theorem simple_varAssignArith (n l o r : String) (g : Bool) : Simple (varAssignArith n l o r g) := by
  unfold varAssignArith
  exact simple_bind _ _ simple_get (fun _ => simple_addLine _ rfl)

theorem simple_varAssignTest (n : String) (t : Test) (a b : String) (g : Bool) : Simple (varAssignTest n t a b g) := by
  unfold varAssignTest
  exact simple_bind _ _ simple_get (fun _ => simple_addLine _ rfl)

theorem simple_arith_eval (h l o r : String) : Simple (do varAssignArith h l o r false; varEvaluation h false : BM String) :=
  simple_bind _ _ (simple_varAssignArith _ _ _ _ _) (fun _ => simple_varEvaluation _ _)

theorem simple_test_eval (h : String) (t : Test) (a b : String) : Simple (do varAssignTest h t a b false; varEvaluation h false : BM String) :=
  simple_bind _ _ (simple_varAssignTest _ _ _ _ _) (fun _ => simple_varEvaluation _ _)

theorem simple_unaryOp (e o : String) : Simple (unaryOp e o) := by
  unfold unaryOp
  refine simple_bind _ _ simple_nextHelperVar (fun h => ?_)
  split
  · exact simple_test_eval _ _ _ _
  · exact simple_fail _

theorem simple_binaryOp (l o r : String) (t : ValueType) : Simple (binaryOp l o r t) := by
  unfold binaryOp notAllowedBin
  refine simple_bind _ _ simple_nextHelperVar (fun h => ?_)
  split
  · exact simple_fail _
  · split
    · split
      · exact simple_arith_eval _ _ _ _
      · exact simple_fail _
    · split
      · exact simple_assign_eval _ _
      · exact simple_fail _
    · exact simple_fail _

theorem simple_comparisonOp (l o r : String) (t : ValueType) : Simple (comparisonOp l o r t) := by
  unfold comparisonOp comparisonOpWith
  split
  · exact simple_fail _
  · exact simple_bind _ _ simple_nextHelperVar (fun h => simple_test_eval _ _ _ _)

theorem simple_logicalOp (l o r : String) : Simple (logicalOp l o r) := by
  unfold logicalOp
  split
  · exact simple_bind _ _ simple_nextHelperVar (fun h => simple_test_eval _ _ _ _)
  · exact simple_fail _

theorem simple_sahInits (arr : String) : ∀ (vs : List String) (i : Nat), Simple (sahInits arr vs i) := by
  intro vs
  induction vs with
  | nil => intro i; unfold sahInits; exact simple_pure _
  | cons v rest ih =>
    intro i
    unfold sahInits
    refine simple_bind _ _ ?_ (fun _ => simple_bind _ _ (simple_addLine _ rfl) (fun _ => ih _))
    apply simple_modify_flags; intro s; simp

theorem simple_sliceInstantiation (vs : List String) : Simple (sliceInstantiation vs) := by
  unfold sliceInstantiation
  exact simple_bind _ _ simple_get (fun _ => simple_bind _ _ (simple_addLine _ rfl) (fun _ =>
    simple_bind _ _ simple_nextHelperVar (fun _ => simple_bind _ _ (simple_varAssignment _ _ _) (fun _ =>
      simple_bind _ _ simple_get (fun _ => simple_bind _ _ (simple_sahInits _ _ _) (fun _ => simple_pure _))))))

theorem simple_sliceEvaluation (n i : String) : Simple (sliceEvaluation n i) := by
  unfold sliceEvaluation
  exact simple_bind _ _ simple_nextHelperVar (fun _ => simple_bind _ _ simple_get (fun _ =>
    simple_bind _ _ (simple_addLine _ rfl) (fun _ => simple_varEvaluation _ _)))

theorem simple_sliceLen (n : String) : Simple (sliceLen n) := by
  unfold sliceLen
  exact simple_bind _ _ simple_nextHelperVar (fun _ => simple_bind _ _ (simple_varAssignSliceLen _ _ _) (fun _ => simple_varEvaluation _ _))

theorem simple_stringSubscript (v a b : String) : Simple (stringSubscript v a b) := by
  unfold stringSubscript
  refine simple_bind _ _ simple_nextHelperVar (fun _ => simple_bind _ _ (simple_addLine _ rfl) (fun _ =>
    simple_bind _ _ simple_get (fun _ => simple_bind _ _ (simple_varAssignment _ _ _) (fun _ =>
      simple_bind _ _ ?_ (fun _ => simple_bind _ _ simple_get (fun _ => simple_pure _))))))
  apply simple_modify_flags; intro s; simp

theorem simple_stringLen (v : String) : Simple (stringLen v) := by
  unfold stringLen
  exact simple_bind _ _ simple_nextHelperVar (fun _ => simple_bind _ _ (simple_varAssignment _ _ _) (fun _ =>
    simple_bind _ _ (simple_varAssignStrLen _ _) (fun _ => simple_varEvaluation _ _)))

theorem simple_copyRets : ∀ (n i : Nat), Simple (copyRets n i) := by
  intro n
  induction n with
  | zero => intro i; unfold copyRets; exact simple_pure _
  | succ n ih =>
    intro i
    unfold copyRets
    exact simple_bind _ _ simple_nextHelperVar (fun _ => simple_bind _ _ simple_get (fun _ =>
      simple_bind _ _ (simple_varAssignment _ _ _) (fun _ => simple_bind _ _ (simple_varEvaluation _ _) (fun _ =>
        simple_bind _ _ (ih _) (fun _ => simple_pure _)))))

theorem simple_funcCall (n : String) (a : List String) (r : List ValueType) (u : Bool) : Simple (funcCall n a r u) := by
  unfold funcCall
  refine simple_bind _ _ (simple_addLine _ rfl) (fun _ => simple_bind _ _ ?_ (fun _ => simple_pure _))
  split
  · exact simple_copyRets _ _
  · exact simple_pure _

theorem simple_appCall (cs : List (String × List String)) (u : Bool) : Simple (appCall cs u) := by
  unfold appCall appCallWith
  split
  · exact simple_bind _ _ simple_nextHelperVar (fun _ => simple_bind _ _ simple_nextHelperVar (fun _ =>
      simple_bind _ _ (simple_varAssignment _ _ _) (fun _ => simple_bind _ _ (simple_varEvaluation _ _) (fun _ =>
        simple_bind _ _ (simple_varAssignment _ _ _) (fun _ => simple_bind _ _ simple_get (fun _ => simple_pure _))))))
  · exact simple_bind _ _ (simple_addLine _ rfl) (fun _ => simple_pure _)

theorem simple_inputOp (p : String) : Simple (inputOp p) := by
  unfold inputOp
  exact simple_bind _ _ simple_nextHelperVar (fun _ => simple_bind _ _ simple_get (fun _ =>
    simple_bind _ _ (simple_addLine _ rfl) (fun _ => simple_varEvaluation _ _)))

theorem simple_copyOp (d s : String) (g : Bool) : Simple (copyOp d s g) := by
  unfold copyOp
  refine simple_bind _ _ simple_get (fun _ => simple_bind _ _ (simple_addLine _ rfl) (fun _ =>
    simple_bind _ _ ?_ (fun _ => simple_bind _ _ simple_nextHelperVar (fun _ =>
      simple_bind _ _ (simple_varAssignSliceLen _ _ _) (fun _ => simple_bind _ _ simple_get (fun _ => simple_pure _))))))
  apply simple_modify_flags; intro s; simp

theorem simple_existsOp (p : String) : Simple (existsOp p) := by
  unfold existsOp
  exact simple_bind _ _ simple_nextHelperVar (fun _ => simple_test_eval _ _ _ _)

theorem simple_readFile (p : String) : Simple (readFile p) := by
  unfold readFile
  exact simple_bind _ _ simple_nextHelperVar (fun _ => simple_assign_eval _ _)

/-- all expression-level operations of the bash converter are simple -/
theorem bash_exprOps : ExprOps simpleClosed conv where
  stringToString := fun _ => simple_pure _
  varDefinition := fun n v g => simple_varAssignment n v g
  unaryOperation := fun e o _ _ => simple_unaryOp e o
  binaryOperation := fun l o r t _ => simple_binaryOp l o r t
  comparison := fun l o r t _ => simple_comparisonOp l o r t
  logicalOperation := fun l o r _ _ => simple_logicalOp l o r
  varEvaluation := fun n _ g => simple_varEvaluation n g
  sliceInstantiation := fun vs _ => simple_sliceInstantiation vs
  sliceEvaluation := fun n i _ => simple_sliceEvaluation n i
  sliceLen := fun n _ => simple_sliceLen n
  stringSubscript := fun v a b _ => simple_stringSubscript v a b
  stringLen := fun v _ => simple_stringLen v
  funcCall := fun n a r u => simple_funcCall n a r u
  appCall := fun cs u => simple_appCall cs u
  input := fun p _ => simple_inputOp p
  copy := fun d s _ g => simple_copyOp d s g
  exists_ := fun p _ => simple_existsOp p
  readFile := fun p _ => simple_readFile p

/-- **Expressions only emit simple lines** (for every expression of every program). -/
theorem evalExpr_simple (e : Expr) (used : Bool) : Simple (evalExpr conv e used) :=
  evalExpr_closed simpleClosed conv bash_exprOps e used

theorem evalArgs_simple (es : List Expr) : Simple (evalArgs conv es) :=
  evalArgs_closed simpleClosed conv bash_exprOps es

theorem evalAll_simple (es : List Expr) : Simple (evalAll conv es) :=
  evalAll_closed simpleClosed conv bash_exprOps es

theorem assignValues_simple (vars : List Var) (vals : List Expr) : Simple (assignValues conv vars vals) :=
  assignValues_closed simpleClosed conv bash_exprOps (fun m => simple_panic m) vars vals

theorem assignCallValues_simple (vars : List Var) (call : Expr) : Simple (assignCallValues conv vars call) :=
  assignCallValues_closed simpleClosed conv bash_exprOps vars call

end Tsh.Bash
