/-
  The source semantics is monotone in its fuel: a result obtained with some fuel is obtained with any larger fuel -
  so the outcome of a program does not depend on the fuel that found it.
-/
import TshVerif.Sem2.Src
namespace Tsh.Sem2.Src
open Tsh Tsh.Tr Tsh.Sem Tsh.Sem.Src

/-- the claims, for one amount of fuel -/
structure Mono (f : Nat) : Prop where
  evalE : ∀ e c r, evalE f e c = some r → evalE (f + 1) e c = some r
  evalArgs : ∀ es c r, evalArgs f es c = some r → evalArgs (f + 1) es c = some r
  evalVals : ∀ es c r, evalVals f es c = some r → evalVals (f + 1) es c = some r
  evalCs : ∀ es c r, evalCs f es c = some r → evalCs (f + 1) es c = some r
  execS : ∀ st c r, execS f st c = some r → execS (f + 1) st c = some r
  execSs : ∀ sts c r, execSs f sts c = some r → execSs (f + 1) sts c = some r
  execEl : ∀ el bs els c r, execEl f el bs els c = some r → execEl (f + 1) el bs els c = some r
  execLp : ∀ cond incr body c r, execLp f cond incr body c = some r → execLp (f + 1) cond incr body c = some r

set_option hygiene false in
/-- rewrite the goal with the lifted form of the latest sub-result in the context -/
macro "liftall" : tactic => `(tactic| (
  try simp only [L1 _ _ _ ‹Src.evalE _ _ _ = some _›]
  try simp only [L2 _ _ _ ‹Src.evalArgs _ _ _ = some _›]
  try simp only [L3 _ _ _ ‹Src.evalVals _ _ _ = some _›]
  try simp only [L4 _ _ _ ‹Src.evalCs _ _ _ = some _›]
  try simp only [L5 _ _ _ ‹Src.execS _ _ _ = some _›]
  try simp only [L6 _ _ _ ‹Src.execSs _ _ _ = some _›]
  try simp only [L7 _ _ _ _ _ ‹Src.execEl _ _ _ _ _ = some _›]
  try simp only [L8 _ _ _ _ _ ‹Src.execLp _ _ _ _ _ = some _›]))

set_option hygiene false in
macro "mono_go" : tactic => `(tactic| (
  repeat (first
    | exact h
    | exact L1 _ _ _ h
    | exact L2 _ _ _ h
    | exact L3 _ _ _ h
    | exact L4 _ _ _ h
    | exact L5 _ _ _ h
    | exact L6 _ _ _ h
    | exact L7 _ _ _ _ _ h
    | exact L8 _ _ _ _ _ h
    | (simp at h; done)
    | (simp; done)
    | (split at h <;> first | (simp at h; done) | (liftall <;> (try simp only [*, -h]))))))

theorem mono_zero : Mono 0 := by
  refine ⟨?_, ?_, ?_, ?_, ?_, ?_, ?_, ?_⟩ <;> intros <;> simp_all [Src.evalE, Src.evalArgs, Src.evalVals, Src.evalCs, Src.execS, Src.execSs, Src.execEl, Src.execLp]

set_option maxRecDepth 2000 in
theorem mono_succ {f : Nat} (ih : Mono f) : Mono (f + 1) := by
  -- one result of a smaller run, lifted and rewritten into the goal
  have L1 := ih.evalE
  have L2 := ih.evalArgs
  have L3 := ih.evalVals
  have L4 := ih.evalCs
  have L5 := ih.execS
  have L6 := ih.execSs
  have L7 := ih.execEl
  have L8 := ih.execLp
  refine ⟨?_, ?_, ?_, ?_, ?_, ?_, ?_, ?_⟩
  · intro e c r h
    cases e <;> try simp only [Src.evalE] at h ⊢
    case substr value start stop => cases stop <;> simp only [Src.evalE] at h ⊢ <;> mono_go
    all_goals mono_go
  · intro es c r h
    cases es <;> simp only [Src.evalArgs] at h ⊢ <;> mono_go
  · intro es c r h
    cases es <;> simp only [Src.evalVals] at h ⊢ <;> mono_go
  · intro es c r h
    cases es with
    | nil => simp only [Src.evalCs] at h ⊢; exact h
    | cons p rest => obtain ⟨e, b⟩ := p; simp only [Src.evalCs] at h ⊢; mono_go
  · intro st c r h
    cases st <;> try simp only [Src.execS] at h ⊢
    case expr e => cases e <;> simp only [Src.execS] at h ⊢ <;> mono_go
    case ifS cond body elifs els =>
      split at h
      · rename_i o c1 hce
        simp only [L1 _ _ _ hce]
        split at h
        · rename_i os c2 hcs
          simp only [L4 _ _ _ hcs]
          split at h
          · rename_i b bs hb hbs
            cases b
            · simp only [Bool.false_eq_true, if_false] at h ⊢
              exact L7 _ _ _ _ _ h
            · simp only [if_true] at h ⊢
              exact L6 _ _ _ h
          · simp at h
        · rename_i k c2 hcs
          simp only [L4 _ _ _ hcs]
          exact h
        · simp at h
      · rename_i k c1 hce
        simp only [L1 _ _ _ hce]
        exact h
      · simp at h
    all_goals mono_go
  · intro sts c r h
    cases sts with
    | nil => simp only [Src.execSs] at h ⊢; exact h
    | cons st rest =>
      simp only [Src.execSs] at h ⊢
      cases hx : Src.execS f st c with
      | none => rw [hx] at h; simp at h
      | some p =>
        rw [hx] at h
        rw [L5 _ _ _ hx]
        obtain ⟨o, c1⟩ := p
        cases o <;> simp only at h ⊢ <;> first | exact L6 _ _ _ h | exact h
  · intro el bs els c r h
    cases el with
    | nil => simp only [Src.execEl] at h ⊢; mono_go
    | cons p rest =>
      obtain ⟨e, body⟩ := p
      cases bs with
      | nil => simp only [Src.execEl] at h ⊢; mono_go
      | cons b bs' => simp only [Src.execEl] at h ⊢; mono_go
  · intro cond incr body c r h
    simp only [Src.execLp] at h ⊢
    mono_go

theorem mono_all : ∀ f, Mono f
  | 0 => mono_zero
  | f + 1 => mono_succ (mono_all f)

end Tsh.Sem2.Src
