import TshVerif.Lemmas.ParserTypedProg
namespace Tsh.Parser
open Tsh Tsh.Tr Tsh.LexTables

/-! ### from the parser's guarantee to the emitters' discipline -/

theorem isBool_of_eq {a b : ValueType} (h : (a == b) = true) (hb : b.isBool = true) : a.isBool = true := by
  simp only [beq_iff_eq] at h; exact h ▸ hb

mutual
theorem typed_of_pt : (e : Expr) → PT.expr e = true → PT.strictE e = true → Expr.typed e = true
  | .boolLit _, _, _ | .intLit _, _, _ | .strLit _, _, _ | .varEval _, _, _ => rfl
  | .unary op x vt, h, hs => by
      simp only [PT.expr, Bool.and_eq_true] at h
      simp only [PT.strictE] at hs
      simp only [Expr.typed, Bool.and_eq_true]
      exact ⟨⟨⟨h.1.1.1, typed_of_pt x h.1.1.2 hs⟩, h.1.2⟩, isBool_of_eq h.2 h.1.2⟩
  | .binary op l r, h, hs => by
      simp only [PT.expr, Bool.and_eq_true] at h
      simp only [PT.strictE, Bool.and_eq_true] at hs
      simp only [Expr.typed, Bool.and_eq_true]
      exact ⟨⟨⟨typed_of_pt l h.1.1.1 hs.1, typed_of_pt r h.1.1.2 hs.2⟩, h.1.2⟩, h.2⟩
  | .compare op l r, h, hs => by
      simp only [PT.expr, Bool.and_eq_true] at h
      simp only [PT.strictE, Bool.and_eq_true] at hs
      simp only [Expr.typed, Bool.and_eq_true]
      exact ⟨⟨⟨typed_of_pt l h.1.1.1 hs.1.1, typed_of_pt r h.1.1.2 hs.1.2⟩, h.1.2⟩, hs.2⟩
  | .logical op l r, h, hs => by
      simp only [PT.expr, Bool.and_eq_true] at h
      simp only [PT.strictE, Bool.and_eq_true] at hs
      simp only [Expr.typed, Bool.and_eq_true]
      exact ⟨⟨⟨⟨typed_of_pt l h.1.1.1.1 hs.1, typed_of_pt r h.1.1.1.2 hs.2⟩, h.1.1.2⟩, h.1.2⟩, h.2⟩
  | .group x, h, hs => by
      simp only [PT.expr] at h
      simp only [PT.strictE] at hs
      simp only [Expr.typed]
      exact typed_of_pt x h hs
  | .call _ rets args, h, hs => by
      simp only [PT.expr, Bool.and_eq_true] at h
      simp only [PT.strictE] at hs
      simp only [Expr.typed]
      exact typedArgs_of_args args h.1 hs
  | .app _ args none, h, hs => by
      simp only [PT.expr] at h
      simp only [PT.strictE] at hs
      simp only [Expr.typed]
      exact typedArgs_of_args args h hs
  | .app _ args (some nx), h, hs => by
      simp only [PT.expr, Bool.and_eq_true] at h
      simp only [PT.strictE, Bool.and_eq_true] at hs
      simp only [Expr.typed, Bool.and_eq_true]
      exact ⟨typedArgs_of_args args h.1 hs.1, typedChain_of_chain nx h.2 hs.2⟩
  | .sliceNew dt vals, h, hs => by
      simp only [PT.expr, Bool.and_eq_true] at h
      simp only [PT.strictE] at hs
      simp only [Expr.typed, Bool.and_eq_true]
      exact ⟨typedArgs_of_elems dt vals h.1 hs, h.2⟩
  | .sliceEval v i _, h, hs => by
      simp only [PT.expr, Bool.and_eq_true] at h
      simp only [PT.strictE, Bool.and_eq_true] at hs
      simp only [Expr.typed, Bool.and_eq_true]
      exact ⟨⟨⟨typed_of_pt v h.1.1.1.1 hs.1, typed_of_pt i h.1.1.1.2 hs.2⟩, h.1.1.2⟩, h.1.2⟩
  | .substr v a none, h, hs => by
      simp only [PT.expr, Bool.and_eq_true] at h
      simp only [PT.strictE, Bool.and_eq_true] at hs
      simp only [Expr.typed, Bool.and_eq_true]
      exact ⟨⟨⟨typed_of_pt v h.1.1.1 hs.1, typed_of_pt a h.1.1.2 hs.2⟩, h.1.2⟩, h.2⟩
  | .substr v a (some b), h, hs => by
      simp only [PT.expr, Bool.and_eq_true] at h
      simp only [PT.strictE, Bool.and_eq_true] at hs
      simp only [Expr.typed, Bool.and_eq_true]
      exact ⟨⟨⟨⟨⟨typed_of_pt v h.1.1.1.1.1 hs.1.1, typed_of_pt a h.1.1.1.1.2 hs.1.2⟩, typed_of_pt b h.1.1.1.2 hs.2⟩, h.1.1.2⟩, h.1.2⟩, h.2⟩
  | .len x, h, hs => by
      simp only [PT.expr, Bool.and_eq_true] at h
      simp only [PT.strictE] at hs
      simp only [Expr.typed, Bool.and_eq_true]
      exact ⟨typed_of_pt x h.1 hs, h.2⟩
  | .itoa x, h, hs => by
      simp only [PT.expr, Bool.and_eq_true] at h
      simp only [PT.strictE] at hs
      simp only [Expr.typed, Bool.and_eq_true]
      exact ⟨typed_of_pt x h.1 hs, h.2⟩
  | .exists_ x, h, hs => by
      simp only [PT.expr, Bool.and_eq_true] at h
      simp only [PT.strictE] at hs
      simp only [Expr.typed, Bool.and_eq_true]
      exact ⟨typed_of_pt x h.1 hs, h.2⟩
  | .read x, h, hs => by
      simp only [PT.expr, Bool.and_eq_true] at h
      simp only [PT.strictE] at hs
      simp only [Expr.typed, Bool.and_eq_true]
      exact ⟨typed_of_pt x h.1 hs, h.2⟩
  | .input none, _, _ => rfl
  | .input (some x), h, hs => by
      simp only [PT.expr, Bool.and_eq_true] at h
      simp only [PT.strictE] at hs
      simp only [Expr.typed, Bool.and_eq_true]
      exact ⟨typed_of_pt x h.1 hs, h.2⟩
  | .copy dst src, h, hs => by
      simp only [PT.expr, Bool.and_eq_true] at h
      simp only [PT.strictE] at hs
      simp only [Expr.typed, Bool.and_eq_true]
      exact ⟨⟨typed_of_pt src h.1.1.1 hs, h.1.2⟩, h.2⟩
  | .write _ _ _, h, _ => by simp [PT.expr] at h
  | .bad _, h, _ => by simp [PT.expr] at h

theorem typedArgs_of_args : (es : List Expr) → PT.args_ es = true → PT.strictArgs es = true → typedArgs es = true
  | [], _, _ => rfl
  | e :: rest, h, hs => by
      simp only [PT.args_, Bool.and_eq_true] at h
      simp only [PT.strictArgs, Bool.and_eq_true] at hs
      simp only [typedArgs, Bool.and_eq_true]
      exact ⟨⟨typed_of_pt e h.1.1 hs.1.1, hs.1.2⟩, typedArgs_of_args rest h.2 hs.2⟩

theorem typedArgs_of_elems (dt : DataType) : (es : List Expr) → PT.elems dt es = true → PT.strictArgs es = true → typedArgs es = true
  | [], _, _ => rfl
  | e :: rest, h, hs => by
      simp only [PT.elems, Bool.and_eq_true] at h
      simp only [PT.strictArgs, Bool.and_eq_true] at hs
      simp only [typedArgs, Bool.and_eq_true]
      exact ⟨⟨typed_of_pt e h.1.1 hs.1.1, hs.1.2⟩, typedArgs_of_elems dt rest h.2 hs.2⟩

theorem typedChain_of_chain : (e : Expr) → PT.chain e = true → PT.strictE e = true → typedChain e = true
  | .app _ args none, h, hs => by
      simp only [PT.chain] at h
      simp only [PT.strictE] at hs
      simp only [typedChain]
      exact typedArgs_of_args args h hs
  | .app _ args (some nx), h, hs => by
      simp only [PT.chain, Bool.and_eq_true] at h
      simp only [PT.strictE, Bool.and_eq_true] at hs
      simp only [typedChain, Bool.and_eq_true]
      exact ⟨typedArgs_of_args args h.1 hs.1, typedChain_of_chain nx h.2 hs.2⟩
  | .boolLit _, h, _ | .intLit _, h, _ | .strLit _, h, _ | .varEval _, h, _ | .unary _ _ _, h, _ | .binary _ _ _, h, _
  | .compare _ _ _, h, _ | .logical _ _ _, h, _ | .group _, h, _ | .call _ _ _, h, _ | .sliceNew _ _, h, _
  | .sliceEval _ _ _, h, _ | .substr _ _ _, h, _ | .len _, h, _ | .itoa _, h, _ | .exists_ _, h, _ | .read _, h, _
  | .input _, h, _ | .copy _ _, h, _ | .write _ _ _, h, _ | .bad _, h, _ => by simp [PT.chain] at h
end

theorem typedArgs_of_vals1 : (es : List Expr) → PT.vals1 es = true → PT.strictArgs es = true → typedArgs es = true
  | [], _, _ => rfl
  | e :: rest, h, hs => by
      simp only [PT.vals1, Bool.and_eq_true] at h
      simp only [PT.strictArgs, Bool.and_eq_true] at hs
      simp only [typedArgs, Bool.and_eq_true]
      exact ⟨⟨typed_of_pt e h.1.1.1 hs.1.1, hs.1.2⟩, typedArgs_of_vals1 rest h.2 hs.2⟩

theorem typedArgs_of_exprs : (es : List Expr) → PT.exprs es = true → PT.strictArgs es = true → typedArgs es = true
  | [], _, _ => rfl
  | e :: rest, h, hs => by
      simp only [PT.exprs, Bool.and_eq_true] at h
      simp only [PT.strictArgs, Bool.and_eq_true] at hs
      simp only [typedArgs, Bool.and_eq_true]
      exact ⟨⟨typed_of_pt e h.1 hs.1.1, hs.1.2⟩, typedArgs_of_exprs rest h.2 hs.2⟩

theorem typedAll_of_args : (es : List Expr) → PT.args_ es = true → PT.strictAll es = true → typedAll es = true
  | [], _, _ => rfl
  | e :: rest, h, hs => by
      simp only [PT.args_, Bool.and_eq_true] at h
      simp only [PT.strictAll, Bool.and_eq_true] at hs
      simp only [typedAll, Bool.and_eq_true]
      exact ⟨typed_of_pt e h.1.1 hs.1, typedAll_of_args rest h.2 hs.2⟩

theorem varsMatch_length : ∀ {vars : List Var} {ts : List ValueType}, PT.varsMatch vars ts = true → ts.length = vars.length
  | [], [], _ => rfl
  | _ :: vs, _ :: ts, h => by
      simp only [PT.varsMatch, Bool.and_eq_true] at h
      simp [varsMatch_length h.2]
  | [], _ :: _, h => by simp [PT.varsMatch] at h
  | _ :: _, [], h => by simp [PT.varsMatch] at h

theorem multi_arity {call : Expr} {ts : List ValueType} (h : PT.multiTypes call = some ts) : Expr.arity call = ts.length := by
  unfold PT.multiTypes at h
  split at h
  · split at h
    · simp only [Option.some.injEq] at h; subst h; rfl
    · simp at h
  · simp only [Option.some.injEq] at h; subst h; rfl
  · simp at h

theorem basicDt_of_known_slice {vt : ValueType} (hk : PT.known vt = true) (hs : vt.isSlice = true) : basicDt vt.dt = true := by
  obtain ⟨dt, sl⟩ := vt
  cases dt <;> simp_all [PT.known, basicDt]

mutual
theorem typedS_of_pt : (s : Stmt) → PT.stmt s = true → PT.strictS s = true → Stmt.typed s = true
  | .varDef vars vals, h, hs => by
      simp only [PT.stmt, Bool.and_eq_true] at h
      simp only [PT.strictS] at hs
      simp only [Stmt.typed, Bool.and_eq_true]
      have := varsMatch_length h.1.1.2
      exact ⟨⟨typedArgs_of_vals1 vals h.1.1.1 hs, by simpa using this⟩, h.1.2⟩
  | .assign vars vals, h, hs => by
      simp only [PT.stmt, Bool.and_eq_true] at h
      simp only [PT.strictS] at hs
      simp only [Stmt.typed, Bool.and_eq_true]
      have := varsMatch_length h.1.1.2
      exact ⟨⟨typedArgs_of_vals1 vals h.1.1.1 hs, by simpa using this⟩, h.1.2⟩
  | .varDefCall vars call, h, hs => by
      simp only [PT.stmt, Bool.and_eq_true] at h
      simp only [PT.strictS] at hs
      simp only [Stmt.typed, Bool.and_eq_true]
      cases hm : PT.multiTypes call with
      | none => simp [hm] at h
      | some ts =>
        simp only [hm] at h
        have h1 := varsMatch_length h.2
        have h2 := multi_arity hm
        exact ⟨⟨typed_of_pt call h.1.1.1 hs, by simp [h1, h2]⟩, h.1.1.2⟩
  | .assignCall vars call, h, hs => by
      simp only [PT.stmt, Bool.and_eq_true] at h
      simp only [PT.strictS] at hs
      simp only [Stmt.typed, Bool.and_eq_true]
      cases hm : PT.multiTypes call with
      | none => simp [hm] at h
      | some ts =>
        simp only [hm] at h
        have h1 := varsMatch_length h.2
        have h2 := multi_arity hm
        exact ⟨⟨typed_of_pt call h.1.1.1 hs, by simp [h1, h2]⟩, h.1.1.2⟩
  | .sliceAssign v index value, h, hs => by
      simp only [PT.stmt, Bool.and_eq_true] at h
      simp only [PT.strictS, Bool.and_eq_true] at hs
      simp only [Stmt.typed, Bool.and_eq_true]
      have hb := basicDt_of_known_slice h.1.1.2 h.1.2
      have he : (Expr.valueType value).dt = v.vt.dt := by
        have := h.2
        simp only [ValueType.equals, Bool.and_eq_true, beq_iff_eq] at this
        exact this.1
      exact ⟨⟨⟨⟨⟨typed_of_pt index h.1.1.1.1.1 hs.1.1.1, typed_of_pt value h.1.1.1.1.2 hs.1.1.2⟩, h.1.1.1.2⟩, he ▸ hb⟩, hs.1.2⟩, hs.2⟩
  | .funcDef _ _ _ _ body, h, hs => by
      simp only [PT.stmt, Bool.and_eq_true] at h
      simp only [PT.strictS] at hs
      simp only [Stmt.typed]
      exact typedSs_of_pt body h.1.1.1 hs
  | .ret vals, h, hs => by
      simp only [PT.stmt] at h
      simp only [PT.strictS] at hs
      simp only [Stmt.typed]
      exact typedArgs_of_exprs vals h hs
  | .ifS cond body elifs els, h, hs => by
      simp only [PT.stmt, Bool.and_eq_true] at h
      simp only [PT.strictS, Bool.and_eq_true] at hs
      simp only [Stmt.typed, Bool.and_eq_true]
      exact ⟨⟨⟨⟨typed_of_pt cond h.1.1.1.1 hs.1.1.1, h.1.1.1.2⟩, typedSs_of_pt body h.1.1.2 hs.1.1.2⟩,
        typedEl_of_pt elifs h.1.2 hs.1.2⟩, typedSs_of_pt els h.2 hs.2⟩
  | .forS init cond incr body, h, hs => by
      simp only [PT.stmt, Bool.and_eq_true] at h
      simp only [PT.strictS, Bool.and_eq_true] at hs
      simp only [Stmt.typed, Bool.and_eq_true]
      exact ⟨⟨⟨⟨typedO_of_pt init h.1.1.1.1 hs.1.1.1, typed_of_pt cond h.1.1.1.2 hs.1.1.2⟩, h.1.1.2⟩,
        typedO_of_pt incr h.1.2 hs.1.2⟩, typedSs_of_pt body h.2 hs.2⟩
  | .brk, _, _ | .cont, _, _ => rfl
  | .print es, h, hs => by
      simp only [PT.stmt] at h
      simp only [PT.strictS] at hs
      simp only [Stmt.typed]
      exact typedAll_of_args es h hs
  | .panic e, h, hs => by
      simp only [PT.stmt, Bool.and_eq_true] at h
      simp only [PT.strictS] at hs
      simp only [Stmt.typed]
      exact typed_of_pt e h.1 hs
  | .expr (.write path data append), h, hs => by
      simp only [PT.stmt, Bool.and_eq_true] at h
      simp only [Stmt.typed, Bool.and_eq_true]
      cases append with
      | none =>
        simp only [PT.strictS, PT.strictE, Bool.and_eq_true] at hs
        exact ⟨⟨⟨⟨typed_of_pt path h.1.1.1.1 hs.1, typed_of_pt data h.1.1.1.2 hs.2⟩, h.1.1.2⟩, h.1.2⟩, rfl⟩
      | some a =>
        simp only [PT.strictS, PT.strictE, Bool.and_eq_true] at hs
        have ha := h.2
        simp only [PT.appendFlag, Bool.and_eq_true] at ha
        exact ⟨⟨⟨⟨typed_of_pt path h.1.1.1.1 hs.1.1, typed_of_pt data h.1.1.1.2 hs.1.2⟩, h.1.1.2⟩, h.1.2⟩,
          by simp [typedAppend, typed_of_pt a ha.1 hs.2, ha.2]⟩
  | .expr (.call n r a), h, hs => by
      simp only [PT.stmt, Bool.and_eq_true] at h
      simp only [PT.strictS] at hs
      simp only [Stmt.typed, Bool.and_eq_true]
      exact ⟨typed_of_pt _ h.1 hs, h.2⟩
  | .expr (.app n a x), h, hs => by
      simp only [PT.stmt, Bool.and_eq_true] at h
      simp only [PT.strictS] at hs
      simp only [Stmt.typed, Bool.and_eq_true]
      exact ⟨typed_of_pt _ h.1 hs, h.2⟩
  | .expr (.copy d s), h, hs => by
      simp only [PT.stmt, Bool.and_eq_true] at h
      simp only [PT.strictS] at hs
      simp only [Stmt.typed, Bool.and_eq_true]
      exact ⟨typed_of_pt _ h.1 hs, h.2⟩
  | .expr (.input p), h, hs => by
      simp only [PT.stmt, Bool.and_eq_true] at h
      simp only [PT.strictS] at hs
      simp only [Stmt.typed, Bool.and_eq_true]
      exact ⟨typed_of_pt _ h.1 hs, h.2⟩
  | .expr (.read p), h, hs => by
      simp only [PT.stmt, Bool.and_eq_true] at h
      simp only [PT.strictS] at hs
      simp only [Stmt.typed, Bool.and_eq_true]
      exact ⟨typed_of_pt _ h.1 hs, h.2⟩
  | .expr (.boolLit _), h, _ | .expr (.intLit _), h, _ | .expr (.strLit _), h, _ | .expr (.varEval _), h, _
  | .expr (.unary _ _ _), h, _ | .expr (.binary _ _ _), h, _ | .expr (.compare _ _ _), h, _ | .expr (.logical _ _ _), h, _
  | .expr (.group _), h, _ | .expr (.sliceNew _ _), h, _ | .expr (.sliceEval _ _ _), h, _ | .expr (.substr _ _ _), h, _
  | .expr (.len _), h, _ | .expr (.itoa _), h, _ | .expr (.exists_ _), h, _ | .expr (.bad _), h, _ => by
      simp [PT.stmt, Expr.isCallLike] at h

theorem typedSs_of_pt : (ss : List Stmt) → PT.stmts ss = true → PT.strictSs ss = true → typedStmts ss = true
  | [], _, _ => rfl
  | s :: rest, h, hs => by
      simp only [PT.stmts, Bool.and_eq_true] at h
      simp only [PT.strictSs, Bool.and_eq_true] at hs
      simp only [typedStmts, Bool.and_eq_true]
      exact ⟨typedS_of_pt s h.1 hs.1, typedSs_of_pt rest h.2 hs.2⟩

theorem typedO_of_pt : (o : Option Stmt) → PT.opt o = true → PT.strictO o = true → typedOpt o = true
  | none, _, _ => rfl
  | some s, h, hs => by
      simp only [PT.opt] at h
      simp only [PT.strictO] at hs
      simp only [typedOpt]
      exact typedS_of_pt s h hs

theorem typedEl_of_pt : (es : List (Expr × List Stmt)) → PT.elifs_ es = true → PT.strictEl es = true → typedElifs es = true
  | [], _, _ => rfl
  | (e, body) :: rest, h, hs => by
      simp only [PT.elifs_, Bool.and_eq_true] at h
      simp only [PT.strictEl, Bool.and_eq_true] at hs
      simp only [typedElifs, Bool.and_eq_true]
      exact ⟨⟨⟨typed_of_pt e h.1.1.1 hs.1.1, h.1.1.2⟩, typedSs_of_pt body h.1.2 hs.1.2⟩, typedEl_of_pt rest h.2 hs.2⟩
end
