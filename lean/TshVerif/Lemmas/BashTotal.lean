/-
  Emit totality for the bash target: a typed AST (Model/Typed.lean) is translated by the transpiler walk
  + bash converter model without an error and without a panic.
-/
import TshVerif.Lemmas.BashStmt
import TshVerif.Model.Typed
namespace Tsh.Bash
open Tsh Tsh.Tr

/-- a computation that succeeds from every state -/
def Runs {α : Type} (m : BM α) : Prop := ∀ s, ∃ a s', m s = .ok (a, s')

theorem bind_run {α β : Type} {x : BM α} {f : α → BM β} {s s' : St} {a : α} (h : x s = .ok (a, s')) :
    (x >>= f) s = f a s' := by
  simp [bind, h]

theorem runs_pure {α : Type} (a : α) : Runs (pure a : BM α) := fun s => ⟨a, s, rfl⟩

theorem runs_bind {α β : Type} {x : BM α} {f : α → BM β} (hx : Runs x) (hf : ∀ a, Runs (f a)) : Runs (x >>= f) := by
  intro s
  obtain ⟨a, s1, h1⟩ := hx s
  obtain ⟨b, s2, h2⟩ := hf a s1
  exact ⟨b, s2, by rw [bind_run h1, h2]⟩

theorem runs_get : Runs (Tr.get : BM St) := fun s => ⟨s, s, rfl⟩
theorem runs_modify (f : St → St) : Runs (Tr.modify f : BM Unit) := fun s => ⟨(), f s, rfl⟩
theorem runs_addLine (l : Line) : Runs (addLine l) := runs_modify _
theorem runs_nextHelperVar : Runs nextHelperVar := fun s => ⟨_, _, rfl⟩

theorem runs_varAssignment (n v : String) (g : Bool) : Runs (varAssignment n v g) := by
  unfold varAssignment; exact runs_bind runs_get (fun _ => runs_addLine _)

theorem runs_varAssignSliceLen (n v : String) (g : Bool) : Runs (varAssignSliceLen n v g) := by
  unfold varAssignSliceLen; exact runs_bind runs_get (fun _ => runs_addLine _)

theorem runs_varAssignStrLen (n : String) (g : Bool) : Runs (varAssignStrLen n g) := by
  unfold varAssignStrLen; exact runs_bind runs_get (fun _ => runs_addLine _)

theorem runs_varEvaluation (n : String) (g : Bool) : Runs (varEvaluation n g) := by
  unfold varEvaluation; exact runs_bind runs_get (fun _ => runs_pure _)

theorem runs_assign_eval (h v : String) : Runs (do varAssignment h v false; varEvaluation h false : BM String) :=
  runs_bind (runs_varAssignment _ _ _) (fun _ => runs_varEvaluation _ _)

theorem runs_arith_eval (h l o r : String) : Runs (do varAssignArith h l o r false; varEvaluation h false : BM String) := by
  refine runs_bind ?_ (fun _ => runs_varEvaluation _ _)
  unfold varAssignArith; exact runs_bind runs_get (fun _ => runs_addLine _)
theorem runs_test_eval (h : String) (t : Test) (a b : String) : Runs (do varAssignTest h t a b false; varEvaluation h false : BM String) := by
  refine runs_bind ?_ (fun _ => runs_varEvaluation _ _)
  unfold varAssignTest; exact runs_bind runs_get (fun _ => runs_addLine _)

theorem runs_unaryOp (e : String) : Runs (unaryOp e "!") := by
  unfold unaryOp
  refine runs_bind runs_nextHelperVar (fun h => ?_)
  simp only [beq_self_eq_true, if_true]
  exact runs_test_eval _ _ _ _

theorem runs_binaryOp (l op r : String) (vt : ValueType) (h : binaryAllowed vt op = true) : Runs (binaryOp l op r vt) := by
  unfold binaryOp
  refine runs_bind runs_nextHelperVar (fun hv => ?_)
  simp only [binaryAllowed, Bool.and_eq_true, Bool.or_eq_true, Bool.not_eq_true', beq_iff_eq] at h
  obtain ⟨hs, h⟩ := h
  simp only [hs, Bool.false_eq_true, if_false]
  rcases h with ⟨hd, ho⟩ | ⟨hd, ho⟩
  · rw [hd]
    have : (op == "*" || op == "/" || op == "%" || op == "+" || op == "-") = true := by
      simp only [Bool.or_eq_true, beq_iff_eq]; exact ho
    simp only [this, if_true]
    exact runs_arith_eval _ _ _ _
  · rw [hd]
    simp only [ho, beq_self_eq_true, if_true]
    exact runs_assign_eval _ _

theorem compareOpString_ne (op : String) (vt : ValueType) (h : compareAllowed vt op = true) :
    ((compareOpString op vt).length == 0) = false := by
  simp only [compareAllowed, Bool.and_eq_true, Bool.or_eq_true, Bool.not_eq_true', beq_iff_eq] at h
  obtain ⟨hs, h⟩ := h
  unfold compareOpString
  simp only [hs, Bool.false_eq_true, if_false]
  rcases h with (⟨hd, ho⟩ | ⟨hd, ho⟩) | ⟨hd, ho⟩
  · rw [hd]; rcases ho with rfl | rfl <;> decide
  · rw [hd]; rcases ho with ((((rfl | rfl) | rfl) | rfl) | rfl) | rfl <;> decide
  · rw [hd]; rcases ho with rfl | rfl <;> decide

theorem runs_comparisonOp (l op r : String) (vt : ValueType) (h : compareAllowed vt op = true) : Runs (comparisonOp l op r vt) := by
  unfold comparisonOp comparisonOpWith
  simp only [compareOpString_ne op vt h, Bool.false_eq_true, if_false]
  exact runs_bind runs_nextHelperVar (fun _ => runs_test_eval _ _ _ _)

theorem runs_logicalOp (l op r : String) (h : (op == "&&" || op == "||") = true) : Runs (logicalOp l op r) := by
  unfold logicalOp
  simp only [h, if_true]
  exact runs_bind runs_nextHelperVar (fun _ => runs_test_eval _ _ _ _)

theorem runs_sahInits (arr : String) : ∀ (vs : List String) (i : Nat), Runs (sahInits arr vs i) := by
  intro vs
  induction vs with
  | nil => intro i; unfold sahInits; exact runs_pure _
  | cons v rest ih => intro i; unfold sahInits; exact runs_bind (runs_modify _) (fun _ => runs_bind (runs_addLine _) (fun _ => ih _))

theorem runs_sliceInstantiation (vs : List String) : Runs (sliceInstantiation vs) := by
  unfold sliceInstantiation
  exact runs_bind runs_get (fun _ => runs_bind (runs_addLine _) (fun _ => runs_bind runs_nextHelperVar (fun _ =>
    runs_bind (runs_varAssignment _ _ _) (fun _ => runs_bind runs_get (fun _ => runs_bind (runs_sahInits _ _ _) (fun _ => runs_pure _))))))

theorem runs_sliceEvaluation (n i : String) : Runs (sliceEvaluation n i) := by
  unfold sliceEvaluation
  exact runs_bind runs_nextHelperVar (fun _ => runs_bind runs_get (fun _ => runs_bind (runs_addLine _) (fun _ => runs_varEvaluation _ _)))

theorem runs_sliceLen (n : String) : Runs (sliceLen n) := by
  unfold sliceLen; exact runs_bind runs_nextHelperVar (fun _ => runs_bind (runs_varAssignSliceLen _ _ _) (fun _ => runs_varEvaluation _ _))

theorem runs_stringSubscript (v a b : String) : Runs (stringSubscript v a b) := by
  unfold stringSubscript
  exact runs_bind runs_nextHelperVar (fun _ => runs_bind (runs_addLine _) (fun _ => runs_bind runs_get (fun _ =>
    runs_bind (runs_varAssignment _ _ _) (fun _ => runs_bind (runs_modify _) (fun _ => runs_bind runs_get (fun _ => runs_pure _))))))

theorem runs_stringLen (v : String) : Runs (stringLen v) := by
  unfold stringLen
  exact runs_bind runs_nextHelperVar (fun _ => runs_bind (runs_varAssignment _ _ _) (fun _ => runs_bind (runs_varAssignStrLen _ _) (fun _ => runs_varEvaluation _ _)))

theorem runs_copyRets : ∀ (n i : Nat), Runs (copyRets n i) := by
  intro n
  induction n with
  | zero => intro i; unfold copyRets; exact runs_pure _
  | succ n ih =>
    intro i; unfold copyRets
    exact runs_bind runs_nextHelperVar (fun _ => runs_bind runs_get (fun _ => runs_bind (runs_varAssignment _ _ _) (fun _ =>
      runs_bind (runs_varEvaluation _ _) (fun _ => runs_bind (ih _) (fun _ => runs_pure _)))))

theorem runs_funcCall (n : String) (a : List String) (r : List ValueType) (u : Bool) : Runs (funcCall n a r u) := by
  unfold funcCall
  refine runs_bind (runs_addLine _) (fun _ => runs_bind ?_ (fun _ => runs_pure _))
  split
  · exact runs_copyRets _ _
  · exact runs_pure _

theorem runs_appCall (cs : List (String × List String)) (u : Bool) : Runs (appCall cs u) := by
  unfold appCall appCallWith
  split
  · exact runs_bind runs_nextHelperVar (fun _ => runs_bind runs_nextHelperVar (fun _ => runs_bind (runs_varAssignment _ _ _) (fun _ =>
      runs_bind (runs_varEvaluation _ _) (fun _ => runs_bind (runs_varAssignment _ _ _) (fun _ => runs_bind runs_get (fun _ => runs_pure _))))))
  · exact runs_bind (runs_addLine _) (fun _ => runs_pure _)

theorem runs_inputOp (p : String) : Runs (inputOp p) := by
  unfold inputOp
  exact runs_bind runs_nextHelperVar (fun _ => runs_bind runs_get (fun _ => runs_bind (runs_addLine _) (fun _ => runs_varEvaluation _ _)))

theorem runs_copyOp (d s : String) (g : Bool) : Runs (copyOp d s g) := by
  unfold copyOp
  exact runs_bind runs_get (fun _ => runs_bind (runs_addLine _) (fun _ => runs_bind (runs_modify _) (fun _ =>
    runs_bind runs_nextHelperVar (fun _ => runs_bind (runs_varAssignSliceLen _ _ _) (fun _ =>
      runs_bind runs_get (fun _ => runs_pure _))))))

theorem runs_existsOp (p : String) : Runs (existsOp p) := by
  unfold existsOp; exact runs_bind runs_nextHelperVar (fun _ => runs_test_eval _ _ _ _)

theorem runs_readFile (p : String) : Runs (readFile p) := by
  unfold readFile; exact runs_bind runs_nextHelperVar (fun _ => runs_assign_eval _ _)

/-- a used call returns as many values as declared -/
theorem funcCall_length {name : String} {args : List String} {rets : List ValueType} {s s' : St} {vs : List String}
    (h : funcCall name args rets true s = .ok (vs, s')) : vs.length = rets.length := by
  have copyLen : ∀ (n i : Nat) (s s' : St) (vs : List String), copyRets n i s = .ok (vs, s') → vs.length = n := by
    intro n
    induction n with
    | zero => intro i s s' vs h; simp [copyRets, pure] at h; simp [h.1.symm]
    | succ n ih =>
      intro i s s' vs h
      unfold copyRets at h
      obtain ⟨_, _, _, h⟩ := bind_ok h
      obtain ⟨_, _, _, h⟩ := bind_ok h
      obtain ⟨_, _, _, h⟩ := bind_ok h
      obtain ⟨_, _, _, h⟩ := bind_ok h
      obtain ⟨rest, _, hr, h⟩ := bind_ok h
      have := (pure_ok h).1
      simp [this, ih _ _ _ _ hr]
  unfold funcCall at h
  obtain ⟨_, s1, _, h⟩ := bind_ok h
  obtain ⟨out, s2, ho, h⟩ := bind_ok h
  have hv := (pure_ok h).1
  subst hv
  simp only [if_true] at ho
  simp [copyLen _ _ _ _ _ ho]

mutual
/-- **Typed expressions are translated without error.** -/
theorem evalExpr_runs (e : Expr) (h : e.typed = true) (used : Bool) : Runs (evalExpr conv e used) := by
  match e with
  | .boolLit b => unfold evalExpr; exact runs_pure _
  | .intLit n => unfold evalExpr; exact runs_pure _
  | .strLit s => unfold evalExpr; exact runs_bind (runs_pure _) (fun _ => runs_pure _)
  | .unary op x vt =>
    simp only [Expr.typed, Bool.and_eq_true, beq_iff_eq] at h
    obtain ⟨⟨⟨rfl, hx⟩, _⟩, _⟩ := h
    unfold evalExpr
    exact runs_bind (evalExpr_runs x hx true) (fun _ => runs_bind (runs_unaryOp _) (fun _ => runs_pure _))
  | .binary op l r =>
    simp only [Expr.typed, Bool.and_eq_true] at h
    obtain ⟨⟨⟨hl, hr⟩, _⟩, ha⟩ := h
    unfold evalExpr
    exact runs_bind (evalExpr_runs l hl true) (fun _ => runs_bind (evalExpr_runs r hr true) (fun _ =>
      runs_bind (runs_binaryOp _ _ _ _ ha) (fun _ => runs_pure _)))
  | .compare op l r =>
    simp only [Expr.typed, Bool.and_eq_true] at h
    obtain ⟨⟨⟨hl, hr⟩, _⟩, ha⟩ := h
    unfold evalExpr
    exact runs_bind (evalExpr_runs l hl true) (fun _ => runs_bind (evalExpr_runs r hr true) (fun _ =>
      runs_bind (runs_comparisonOp _ _ _ _ ha) (fun _ => runs_pure _)))
  | .logical op l r =>
    simp only [Expr.typed, Bool.and_eq_true] at h
    obtain ⟨⟨⟨⟨hl, hr⟩, _⟩, _⟩, ha⟩ := h
    unfold evalExpr
    exact runs_bind (evalExpr_runs l hl true) (fun _ => runs_bind (evalExpr_runs r hr true) (fun _ =>
      runs_bind (runs_logicalOp _ _ _ ha) (fun _ => runs_pure _)))
  | .varEval v => unfold evalExpr; exact runs_bind (runs_varEvaluation _ _) (fun _ => runs_pure _)
  | .sliceEval value index dt =>
    simp only [Expr.typed, Bool.and_eq_true] at h
    obtain ⟨⟨⟨hv, hi⟩, _⟩, _⟩ := h
    unfold evalExpr
    exact runs_bind (evalExpr_runs value hv true) (fun _ => runs_bind (evalExpr_runs index hi true) (fun _ =>
      runs_bind (runs_sliceEvaluation _ _) (fun _ => runs_pure _)))
  | .substr value start none =>
    simp only [Expr.typed, Bool.and_eq_true] at h
    obtain ⟨⟨⟨hv, ha⟩, _⟩, _⟩ := h
    unfold evalExpr
    exact runs_bind (evalExpr_runs start ha true) (fun _ => runs_bind (evalExpr_runs value hv true) (fun _ =>
      runs_bind (runs_stringSubscript _ _ _) (fun _ => runs_pure _)))
  | .substr value start (some st) =>
    simp only [Expr.typed, Bool.and_eq_true] at h
    obtain ⟨⟨⟨⟨⟨hv, ha⟩, hb⟩, _⟩, _⟩, _⟩ := h
    unfold evalExpr
    exact runs_bind (evalExpr_runs start ha true) (fun _ => runs_bind (evalExpr_runs st hb true) (fun _ =>
      runs_bind (evalExpr_runs value hv true) (fun _ => runs_bind (runs_stringSubscript _ _ _) (fun _ => runs_pure _))))
  | .group x =>
    simp only [Expr.typed] at h
    unfold evalExpr; exact evalExpr_runs x h used
  | .call name rets args =>
    simp only [Expr.typed] at h
    unfold evalExpr
    intro s
    obtain ⟨as, s1, h1⟩ := evalArgs_runs args h s
    obtain ⟨vs, s2, h2⟩ := runs_funcCall name as rets used s1
    refine ⟨vs, s2, ?_⟩
    have h2' : conv.funcCall name as rets used s1 = .ok (vs, s2) := h2
    rw [bind_run h1, bind_run h2']
    cases used with
    | false => simp [pure]
    | true => simp [funcCall_length h2, pure]
  | .app name args none =>
    simp only [Expr.typed] at h
    unfold evalExpr
    exact runs_bind (evalAppChain_runs (.app name args none) (by simpa [typedChain] using h)) (fun _ => runs_appCall _ _)
  | .app name args (some nx) =>
    simp only [Expr.typed] at h
    unfold evalExpr
    exact runs_bind (evalAppChain_runs (.app name args (some nx)) (by simpa [typedChain] using h)) (fun _ => runs_appCall _ _)
  | .sliceNew dt vals =>
    simp only [Expr.typed, Bool.and_eq_true] at h
    unfold evalExpr
    exact runs_bind (evalArgs_runs vals h.1) (fun _ => runs_bind (runs_sliceInstantiation _) (fun _ => runs_pure _))
  | .input none => unfold evalExpr; exact runs_bind (runs_inputOp _) (fun _ => runs_pure _)
  | .input (some x) =>
    simp only [Expr.typed, Bool.and_eq_true] at h
    unfold evalExpr
    exact runs_bind (evalExpr_runs x h.1 used) (fun _ => runs_bind (runs_inputOp _) (fun _ => runs_pure _))
  | .copy dst src =>
    simp only [Expr.typed, Bool.and_eq_true] at h
    unfold evalExpr
    exact runs_bind (evalExpr_runs src h.1.1 true) (fun _ => runs_bind (runs_copyOp _ _ _) (fun _ => runs_pure _))
  | .itoa x =>
    simp only [Expr.typed, Bool.and_eq_true] at h
    unfold evalExpr; exact runs_bind (evalExpr_runs x h.1 true) (fun _ => runs_pure _)
  | .exists_ x =>
    simp only [Expr.typed, Bool.and_eq_true] at h
    unfold evalExpr
    exact runs_bind (evalExpr_runs x h.1 true) (fun _ => runs_bind (runs_existsOp _) (fun _ => runs_pure _))
  | .len x =>
    simp only [Expr.typed, Bool.and_eq_true] at h
    unfold evalExpr
    refine runs_bind (evalExpr_runs x h.1 true) (fun _ => ?_)
    split
    · exact runs_bind (runs_stringLen _) (fun _ => runs_pure _)
    · exact runs_bind (runs_sliceLen _) (fun _ => runs_pure _)
  | .read path =>
    simp only [Expr.typed, Bool.and_eq_true] at h
    unfold evalExpr
    simp only [h.2, Bool.not_true, Bool.false_eq_true, if_false]
    exact runs_bind (evalExpr_runs path h.1 true) (fun _ => runs_bind (runs_readFile _) (fun _ => runs_pure _))
  | .write _ _ _ => simp [Expr.typed] at h
  | .bad w => simp [Expr.typed] at h

theorem evalArgs_runs (es : List Expr) (h : typedArgs es = true) : Runs (evalArgs conv es) := by
  match es with
  | [] => unfold evalArgs; exact runs_pure _
  | e :: rest =>
    simp only [typedArgs, Bool.and_eq_true] at h
    unfold evalArgs
    exact runs_bind (evalExpr_runs e h.1.1 true) (fun _ => runs_bind (evalArgs_runs rest h.2) (fun _ => runs_pure _))

theorem evalAppChain_runs (e : Expr) (h : typedChain e = true) : Runs (evalAppChain conv e) := by
  match e with
  | .app name args (some nx) =>
    simp only [typedChain, Bool.and_eq_true] at h
    unfold evalAppChain
    exact runs_bind (evalArgs_runs args h.1) (fun _ => runs_bind (evalAppChain_runs nx h.2) (fun _ => runs_pure _))
  | .app name args none =>
    simp only [typedChain] at h
    unfold evalAppChain
    exact runs_bind (evalArgs_runs args h) (fun _ => runs_pure _)
  | .boolLit _ | .intLit _ | .strLit _ | .varEval _ | .unary _ _ _ | .binary _ _ _ | .compare _ _ _
  | .logical _ _ _ | .group _ | .call _ _ _ | .sliceNew _ _ | .sliceEval _ _ _ | .substr _ _ _ | .len _
  | .itoa _ | .exists_ _ | .read _ | .input _ | .copy _ _ | .write _ _ _ | .bad _ =>
    unfold evalAppChain; exact runs_pure _
end

theorem evalAll_runs : ∀ (es : List Expr), typedAll es = true → Runs (evalAll conv es) := by
  intro es
  induction es with
  | nil => intro _; unfold evalAll; exact runs_pure _
  | cons e rest ih =>
    intro h
    simp only [typedAll, Bool.and_eq_true] at h
    unfold evalAll
    exact runs_bind (evalExpr_runs e h.1 true) (fun _ => runs_bind (ih h.2) (fun _ => runs_pure _))

/-- the number of values a (used) expression hands back is its arity -/
theorem evalExpr_arity : ∀ (e : Expr) (s s' : St) (vs : List String), evalExpr conv e true s = .ok (vs, s') → vs.length = e.arity := by
  intro e
  induction e using Expr.rec (motive_2 := fun _ => True) (motive_3 := fun _ => True) with
  | boolLit b => intro s s' vs h; simp [evalExpr, pure] at h; simp [← h.1, Expr.arity]
  | intLit n => intro s s' vs h; simp [evalExpr, pure] at h; simp [← h.1, Expr.arity]
  | strLit t => intro s s' vs h; simp [evalExpr, bind, pure, conv] at h; simp [← h.1, Expr.arity]
  | varEval v =>
    intro s s' vs h; unfold evalExpr at h
    obtain ⟨_, _, _, h⟩ := bind_ok h; simp [(pure_ok h).1, Expr.arity]
  | unary op x vt _ =>
    intro s s' vs h; unfold evalExpr at h
    obtain ⟨_, _, _, h⟩ := bind_ok h; obtain ⟨_, _, _, h⟩ := bind_ok h; simp [(pure_ok h).1, Expr.arity]
  | binary op l r _ _ =>
    intro s s' vs h; unfold evalExpr at h
    obtain ⟨_, _, _, h⟩ := bind_ok h; obtain ⟨_, _, _, h⟩ := bind_ok h; obtain ⟨_, _, _, h⟩ := bind_ok h; simp [(pure_ok h).1, Expr.arity]
  | compare op l r _ _ =>
    intro s s' vs h; unfold evalExpr at h
    obtain ⟨_, _, _, h⟩ := bind_ok h; obtain ⟨_, _, _, h⟩ := bind_ok h; obtain ⟨_, _, _, h⟩ := bind_ok h; simp [(pure_ok h).1, Expr.arity]
  | logical op l r _ _ =>
    intro s s' vs h; unfold evalExpr at h
    obtain ⟨_, _, _, h⟩ := bind_ok h; obtain ⟨_, _, _, h⟩ := bind_ok h; obtain ⟨_, _, _, h⟩ := bind_ok h; simp [(pure_ok h).1, Expr.arity]
  | group x ih =>
    intro s s' vs h; unfold evalExpr at h
    simpa [Expr.arity] using ih s s' vs h
  | call name rets args _ =>
    intro s s' vs h; unfold evalExpr at h
    obtain ⟨_, _, _, h⟩ := bind_ok h; obtain ⟨ws, _, _, h⟩ := bind_ok h
    split at h
    · simp [Tr.fail] at h
    · rename_i hc
      have := (pure_ok h).1
      subst this
      simp at hc
      simpa [Expr.arity] using hc
  | app name args next _ _ =>
    intro s s' vs h; unfold evalExpr at h
    obtain ⟨cs, s1, _, h⟩ := bind_ok h
    have h' : appCallWith (appCallString cs) true s1 = .ok (vs, s') := h
    unfold appCallWith at h'
    simp only [if_true] at h'
    obtain ⟨_, _, _, h'⟩ := bind_ok h'; obtain ⟨_, _, _, h'⟩ := bind_ok h'; obtain ⟨_, _, _, h'⟩ := bind_ok h'
    obtain ⟨_, _, _, h'⟩ := bind_ok h'; obtain ⟨_, _, _, h'⟩ := bind_ok h'; obtain ⟨_, _, _, h'⟩ := bind_ok h'
    simp [(pure_ok h').1, Expr.arity]
  | sliceNew dt vals _ =>
    intro s s' vs h; unfold evalExpr at h
    obtain ⟨_, _, _, h⟩ := bind_ok h; obtain ⟨_, _, _, h⟩ := bind_ok h; simp [(pure_ok h).1, Expr.arity]
  | sliceEval v i dt _ _ =>
    intro s s' vs h; unfold evalExpr at h
    obtain ⟨_, _, _, h⟩ := bind_ok h; obtain ⟨_, _, _, h⟩ := bind_ok h; obtain ⟨_, _, _, h⟩ := bind_ok h; simp [(pure_ok h).1, Expr.arity]
  | substr v a st _ _ _ =>
    intro s s' vs h
    cases st with
    | none =>
      unfold evalExpr at h
      obtain ⟨_, _, _, h⟩ := bind_ok h; obtain ⟨_, _, _, h⟩ := bind_ok h; obtain ⟨_, _, _, h⟩ := bind_ok h; simp [(pure_ok h).1, Expr.arity]
    | some b =>
      unfold evalExpr at h
      obtain ⟨_, _, _, h⟩ := bind_ok h; obtain ⟨_, _, _, h⟩ := bind_ok h; obtain ⟨_, _, _, h⟩ := bind_ok h
      obtain ⟨_, _, _, h⟩ := bind_ok h; simp [(pure_ok h).1, Expr.arity]
  | len x _ =>
    intro s s' vs h; unfold evalExpr at h
    obtain ⟨_, _, _, h⟩ := bind_ok h
    split at h
    · obtain ⟨_, _, _, h⟩ := bind_ok h; simp [(pure_ok h).1, Expr.arity]
    · obtain ⟨_, _, _, h⟩ := bind_ok h; simp [(pure_ok h).1, Expr.arity]
  | itoa x _ =>
    intro s s' vs h; unfold evalExpr at h
    obtain ⟨_, _, _, h⟩ := bind_ok h; simp [(pure_ok h).1, Expr.arity]
  | exists_ x _ =>
    intro s s' vs h; unfold evalExpr at h
    obtain ⟨_, _, _, h⟩ := bind_ok h; obtain ⟨_, _, _, h⟩ := bind_ok h; simp [(pure_ok h).1, Expr.arity]
  | read x _ =>
    intro s s' vs h; unfold evalExpr at h
    split at h
    · simp [Tr.fail] at h
    · obtain ⟨_, _, _, h⟩ := bind_ok h; obtain ⟨_, _, _, h⟩ := bind_ok h; simp [(pure_ok h).1, Expr.arity]
  | input p _ =>
    intro s s' vs h
    cases p with
    | none => unfold evalExpr at h; obtain ⟨_, _, _, h⟩ := bind_ok h; simp [(pure_ok h).1, Expr.arity]
    | some x => unfold evalExpr at h; obtain ⟨_, _, _, h⟩ := bind_ok h; obtain ⟨_, _, _, h⟩ := bind_ok h; simp [(pure_ok h).1, Expr.arity]
  | copy dst src _ =>
    intro s s' vs h; unfold evalExpr at h
    obtain ⟨_, _, _, h⟩ := bind_ok h; obtain ⟨_, _, _, h⟩ := bind_ok h; simp [(pure_ok h).1, Expr.arity]
  | write p d a _ _ _ => intro s s' vs h; simp [evalExpr, Tr.fail] at h
  | bad w => intro s s' vs h; simp [evalExpr, Tr.fail] at h
  | nil => trivial
  | cons _ _ _ _ => trivial
  | none => trivial
  | some _ _ => trivial

theorem assignedValues_runs (count : Nat) : ∀ (n : Nat) (vals : List Expr) (i : Nat), typedArgs vals = true → n ≤ vals.length →
    Runs (assignedValues conv count vals n i) := by
  intro n
  induction n with
  | zero => intro vals i _ _; unfold assignedValues; exact runs_pure _
  | succ n ih =>
    intro vals i ht hl
    cases vals with
    | nil => simp at hl
    | cons e rest =>
      simp only [typedArgs, Bool.and_eq_true] at ht
      unfold assignedValues
      refine runs_bind (evalExpr_runs e ht.1.1 true) (fun _ => runs_bind ?_ (fun _ => runs_bind (ih rest (i + 1) ht.2 (by simpa using hl)) (fun _ => runs_pure _)))
      split
      · exact runs_bind (runs_varAssignment _ _ _) (fun _ => runs_varEvaluation _ _)
      · exact runs_pure _

theorem storeValues_runs : ∀ (vars : List Var) (vals : List String), Runs (storeValues conv vars vals) := by
  intro vars
  induction vars with
  | nil => intro vals; unfold storeValues; exact runs_pure _
  | cons x xs ih =>
    intro vals
    cases vals with
    | nil => unfold storeValues; exact runs_pure _
    | cons v vs => unfold storeValues; exact runs_bind (runs_varAssignment _ _ _) (fun _ => ih vs)

theorem assignValues_runs (vars : List Var) (vals : List Expr) (ht : typedArgs vals = true) (hl : vals.length = vars.length) :
    Runs (assignValues conv vars vals) := by
  unfold assignValues
  exact runs_bind (assignedValues_runs _ _ _ _ ht (by omega)) (fun _ => storeValues_runs _ _)

theorem assignCallValues_runs (vars : List Var) (call : Expr) (ht : call.typed = true) (ha : call.arity = vars.length) :
    Runs (assignCallValues conv vars call) := by
  unfold assignCallValues
  intro s
  obtain ⟨vs, s1, h1⟩ := evalExpr_runs call ht true s
  have hl := evalExpr_arity call s s1 vs h1
  obtain ⟨u, s2, h2⟩ := storeValues_runs vars vs s1
  refine ⟨u, s2, ?_⟩
  rw [bind_run h1]
  simp [hl, ha, h2]

theorem runs_storeRets : ∀ (vs : List String) (i : Nat), Runs (storeRets vs i) := by
  intro vs
  induction vs with
  | nil => intro i; unfold storeRets; exact runs_pure _
  | cons v rest ih => intro i; unfold storeRets; exact runs_bind (runs_varAssignment _ _ _) (fun _ => ih _)

theorem runs_localParams : ∀ (ps : List String) (i : Nat), Runs (localParams ps i) := by
  intro ps
  induction ps with
  | nil => intro i; unfold localParams; exact runs_pure _
  | cons p rest ih => intro i; unfold localParams; exact runs_bind runs_get (fun _ => runs_bind (runs_addLine _) (fun _ => ih _))

theorem evalConds_runs : ∀ (elifs : List (Expr × List Stmt)), typedElifs elifs = true → Runs (evalConds conv elifs)
  | [], _ => by unfold evalConds; exact runs_pure _
  | (c, _) :: rest, h => by
    simp only [typedElifs, Bool.and_eq_true] at h
    unfold evalConds
    exact runs_bind (evalExpr_runs c h.1.1.1 true) (fun _ => runs_bind (evalConds_runs rest h.2) (fun _ => runs_pure _))

theorem evalConds_length : ∀ (elifs : List (Expr × List Stmt)) (s s' : St) (cs : List String),
    evalConds conv elifs s = .ok (cs, s') → cs.length = elifs.length
  | [], s, s', cs, h => by simp [evalConds, pure] at h; simp [← h.1]
  | (c, _) :: rest, s, s', cs, h => by
    unfold evalConds at h
    obtain ⟨_, _, _, h⟩ := bind_ok h
    obtain ⟨rs, _, hr, h⟩ := bind_ok h
    simp [(pure_ok h).1, evalConds_length rest _ _ rs hr]

/- typed statements emit code: typed implies well-formed -/
mutual
theorem typed_wf (st : Stmt) (h : st.typed = true) : st.wf = true := by
  match st with
  | .varDef vars vals => simp only [Stmt.typed, Bool.and_eq_true] at h; simpa [Stmt.wf] using h.2
  | .assign vars vals => simp only [Stmt.typed, Bool.and_eq_true] at h; simpa [Stmt.wf] using h.2
  | .varDefCall vars call => simp only [Stmt.typed, Bool.and_eq_true] at h; simpa [Stmt.wf] using h.2
  | .assignCall vars call => simp only [Stmt.typed, Bool.and_eq_true] at h; simpa [Stmt.wf] using h.2
  | .sliceAssign _ _ _ => simp [Stmt.wf]
  | .funcDef _ _ _ _ body => simp only [Stmt.typed] at h; simpa [Stmt.wf] using typedStmts_wf body h
  | .ret _ => simp [Stmt.wf]
  | .ifS cond body elifs els =>
    simp only [Stmt.typed, Bool.and_eq_true] at h
    simp [Stmt.wf, typedStmts_wf body h.1.1.2, typedElifs_wf elifs h.1.2, typedStmts_wf els h.2]
  | .forS init cond incr body =>
    simp only [Stmt.typed, Bool.and_eq_true] at h
    simp [Stmt.wf, typedOpt_wf init h.1.1.1.1, typedOpt_wf incr h.1.2, typedStmts_wf body h.2]
  | .brk => simp [Stmt.wf]
  | .cont => simp [Stmt.wf]
  | .print _ => simp [Stmt.wf]
  | .panic _ => simp [Stmt.wf]
  | .expr (.write _ _ _) => simp [Stmt.wf, Expr.isCallLike]
  | .expr (.call _ _ _) => simp [Stmt.wf, Expr.isCallLike]
  | .expr (.app _ _ _) => simp [Stmt.wf, Expr.isCallLike]
  | .expr (.copy _ _) => simp [Stmt.wf, Expr.isCallLike]
  | .expr (.input _) => simp [Stmt.wf, Expr.isCallLike]
  | .expr (.read _) => simp [Stmt.wf, Expr.isCallLike]
  | .expr (.boolLit _) | .expr (.intLit _) | .expr (.strLit _) | .expr (.varEval _) | .expr (.unary _ _ _)
  | .expr (.binary _ _ _) | .expr (.compare _ _ _) | .expr (.logical _ _ _) | .expr (.group _)
  | .expr (.sliceNew _ _) | .expr (.sliceEval _ _ _) | .expr (.substr _ _ _) | .expr (.len _)
  | .expr (.itoa _) | .expr (.exists_ _) | .expr (.bad _) =>
    simp [Stmt.typed, Expr.isCallLike] at h

theorem typedStmts_wf (body : List Stmt) (h : typedStmts body = true) : wfStmts body = true := by
  match body with
  | [] => simp [wfStmts]
  | st :: rest =>
    simp only [typedStmts, Bool.and_eq_true] at h
    simp [wfStmts, typed_wf st h.1, typedStmts_wf rest h.2]

theorem typedOpt_wf (o : Option Stmt) (h : typedOpt o = true) : wfOpt o = true := by
  match o with
  | none => simp [wfOpt]
  | some st => simp only [typedOpt] at h; simp [wfOpt, typed_wf st h]

theorem typedElifs_wf (elifs : List (Expr × List Stmt)) (h : typedElifs elifs = true) : wfElifs elifs = true := by
  match elifs with
  | [] => simp [wfElifs]
  | (_, body) :: rest =>
    simp only [typedElifs, Bool.and_eq_true] at h
    simp [wfElifs, typedStmts_wf body h.1.2, typedElifs_wf rest h.2]
end

theorem runs_ifStart (c : String) : Runs (conv.ifStart c) := runs_addLine _
theorem runs_ifEnd : Runs conv.ifEnd := runs_addLine _
theorem runs_elseIfStart (c : String) : Runs (conv.elseIfStart c) := runs_addLine _
theorem runs_elseIfEnd : Runs conv.elseIfEnd := runs_pure _
theorem runs_elseStart : Runs conv.elseStart := runs_addLine _
theorem runs_elseEnd : Runs conv.elseEnd := runs_pure _
theorem runs_forCondition (c : String) : Runs (conv.forCondition c) := runs_addLine _
theorem runs_forEnd : Runs conv.forEnd := by
  show Runs (do addLine .done; Tr.modify (fun s => { s with fors := s.fors.drop 1 }) : BM Unit)
  exact runs_bind (runs_addLine _) (fun _ => runs_modify _)
theorem runs_funcStart (n : String) (ps : List String) : Runs (conv.funcStart n ps) := by
  show Runs (do Tr.modify (fun s => { s with funcs := n :: s.funcs, funcCounter := s.funcCounter + 1 });
                addLine (.funcStart n); localParams ps 0 : BM Unit)
  exact runs_bind (runs_modify _) (fun _ => runs_bind (runs_addLine _) (fun _ => runs_localParams _ _))
theorem runs_funcEnd : Runs conv.funcEnd := by
  show Runs (do addLine .funcEnd; Tr.modify (fun s => { s with funcs := s.funcs.drop 1 }) : BM Unit)
  exact runs_bind (runs_addLine _) (fun _ => runs_modify _)
theorem runs_ret (vs : List String) : Runs (conv.ret vs) := by
  show Runs (do storeRets vs 0; addLine .ret : BM Unit)
  exact runs_bind (runs_storeRets _ _) (fun _ => runs_addLine _)
theorem runs_sliceAssignment (n i v d : String) (g : Bool) : Runs (conv.sliceAssignment n i v d g) := by
  show Runs (do Tr.modify (fun s => { s with sahReq := true }); let s ← Tr.get; addLine (.sah (varEvalString s n g) i v d) : BM Unit)
  exact runs_bind (runs_modify _) (fun _ => runs_bind runs_get (fun _ => runs_addLine _))
theorem runs_panicOp (v : String) : Runs (conv.panic v) := by
  show Runs (do addLine (.echo v); addLine .exit1 : BM Unit)
  exact runs_bind (runs_addLine _) (fun _ => runs_addLine _)

theorem runs_defaultValue (vt : ValueType) (h : basicDt vt.dt = true) : Runs (defaultValue conv vt) := by
  unfold defaultValue
  simp only [basicDt, Bool.or_eq_true, beq_iff_eq] at h
  rcases h with (h | h) | h <;> rw [h] <;> simp only <;> first | exact runs_pure _ | exact runs_pure _

theorem runs_evalAppend (a : Option Expr) (h : typedAppend a = true) : Runs (evalAppend conv a) := by
  unfold evalAppend
  cases a with
  | none => exact runs_pure _
  | some x =>
    simp only [typedAppend, Bool.and_eq_true] at h
    simp only [h.2, Bool.not_true, Bool.false_eq_true, if_false]
    exact runs_bind (evalExpr_runs x h.1 true) (fun _ => runs_pure _)

def afterForStart (s : St) : St :=
  { s with fors := s.forCounter :: s.fors, forCounter := s.forCounter + 1, code := .whileStart :: .forFlagInit s.forCounter :: s.code }

theorem forStart_run (s : St) : conv.forStart s = .ok ((), afterForStart s) := by
  simp [conv, bind, Tr.modify, currentForVar, addLine, afterForStart]

theorem forIncrementStart_run (s : St) (n : Nat) (rest : List Nat) (hf : s.fors = n :: rest) :
    conv.forIncrementStart s = .ok ((), { s with code := .incrStart n :: s.code }) := by
  simp [conv, bind, currentForVar, addLine, Tr.modify, hf]

theorem forIncrementEnd_run (s : St) (n : Nat) (rest : List Nat) (hf : s.fors = n :: rest) :
    conv.forIncrementEnd s = .ok ((), { s with code := .incrFlagSet n :: .fi :: s.code }) := by
  simp [conv, bind, currentForVar, addLine, Tr.modify, hf]

mutual
/-- **Typed statements are translated without error and without panic.** -/
theorem evalStmt_runs (st : Stmt) (ht : st.typed = true) : Runs (evalStmt conv st) := by
  match st with
  | .varDef vars vals =>
    simp only [Stmt.typed, Bool.and_eq_true, beq_iff_eq] at ht
    unfold evalStmt; exact assignValues_runs _ _ ht.1.1 ht.1.2
  | .assign vars vals =>
    simp only [Stmt.typed, Bool.and_eq_true, beq_iff_eq] at ht
    unfold evalStmt; exact assignValues_runs _ _ ht.1.1 ht.1.2
  | .varDefCall vars call =>
    simp only [Stmt.typed, Bool.and_eq_true, beq_iff_eq] at ht
    unfold evalStmt; exact assignCallValues_runs _ _ ht.1.1 ht.1.2
  | .assignCall vars call =>
    simp only [Stmt.typed, Bool.and_eq_true, beq_iff_eq] at ht
    unfold evalStmt; exact assignCallValues_runs _ _ ht.1.1 ht.1.2
  | .sliceAssign v index value =>
    simp only [Stmt.typed, Bool.and_eq_true] at ht
    obtain ⟨⟨⟨⟨⟨hi, hv⟩, _⟩, hd⟩, _⟩, _⟩ := ht
    unfold evalStmt
    exact runs_bind (evalExpr_runs index hi true) (fun _ => runs_bind (evalExpr_runs value hv true) (fun _ =>
      runs_bind (runs_defaultValue _ hd) (fun _ => runs_sliceAssignment _ _ _ _ _)))
  | .funcDef name pub rets params body =>
    simp only [Stmt.typed] at ht
    unfold evalStmt
    exact runs_bind (runs_funcStart _ _) (fun _ => runs_bind (evalBlock_runs body ht) (fun _ => runs_funcEnd))
  | .ret vals =>
    simp only [Stmt.typed] at ht
    unfold evalStmt
    exact runs_bind (evalArgs_runs vals ht) (fun _ => runs_ret _)
  | .ifS cond body elifs els =>
    simp only [Stmt.typed, Bool.and_eq_true] at ht
    obtain ⟨⟨⟨⟨hc, _⟩, hb⟩, he⟩, hl⟩ := ht
    unfold evalStmt
    exact runs_bind (evalExpr_runs cond hc true) (fun _ => runs_bind (evalConds_runs elifs he) (fun _ =>
      runs_bind (runs_ifStart _) (fun _ => runs_bind (evalBlock_runs body hb) (fun _ =>
        runs_bind (evalElifs_runs elifs _ he) (fun _ => runs_bind (evalElse_runs els hl) (fun _ => runs_ifEnd))))))
  | .forS init cond incr body =>
    simp only [Stmt.typed, Bool.and_eq_true] at ht
    obtain ⟨⟨⟨⟨hi, hc⟩, _⟩, hn⟩, hb⟩ := ht
    intro s
    obtain ⟨u1, s1, h1⟩ := evalInit_runs init hi s
    have h2 := forStart_run s1
    obtain ⟨u3, s3, h3⟩ := evalIncr_runs incr hn (afterForStart s1) s1.forCounter s1.fors rfl
    obtain ⟨c, s4, h4⟩ := evalExpr_runs cond hc true s3
    obtain ⟨u5, s5, h5⟩ := runs_forCondition (firstValue c) s4
    obtain ⟨u6, s6, h6⟩ := evalBlock_runs body hb s5
    obtain ⟨u7, s7, h7⟩ := runs_forEnd s6
    refine ⟨u7, s7, ?_⟩
    unfold evalStmt
    rw [bind_run h1, bind_run h2, bind_run h3, bind_run h4, bind_run h5, bind_run h6]
    exact h7
  | .brk => unfold evalStmt; exact runs_addLine _
  | .cont => unfold evalStmt; exact runs_addLine _
  | .print es =>
    simp only [Stmt.typed] at ht
    unfold evalStmt; exact runs_bind (evalAll_runs es ht) (fun _ => runs_addLine _)
  | .panic e =>
    simp only [Stmt.typed] at ht
    unfold evalStmt; exact runs_bind (evalExpr_runs e ht true) (fun _ => runs_panicOp _)
  | .expr (.write path data append) =>
    simp only [Stmt.typed, Bool.and_eq_true] at ht
    obtain ⟨⟨⟨⟨hp, hd⟩, hps⟩, hds⟩, ha⟩ := ht
    unfold evalStmt
    simp only [hps, hds, Bool.not_true, Bool.false_eq_true, if_false]
    exact runs_bind (evalExpr_runs path hp true) (fun _ => runs_bind (evalExpr_runs data hd true) (fun _ =>
      runs_bind (runs_evalAppend append ha) (fun _ => runs_addLine _)))
  | .expr (.call name rets args) =>
    simp only [Stmt.typed, Bool.and_eq_true] at ht
    unfold evalStmt; exact runs_bind (evalExpr_runs _ ht.1 false) (fun _ => runs_pure _)
  | .expr (.app name args next) =>
    simp only [Stmt.typed, Bool.and_eq_true] at ht
    unfold evalStmt; exact runs_bind (evalExpr_runs _ ht.1 false) (fun _ => runs_pure _)
  | .expr (.copy dst src) =>
    simp only [Stmt.typed, Bool.and_eq_true] at ht
    unfold evalStmt; exact runs_bind (evalExpr_runs _ ht.1 false) (fun _ => runs_pure _)
  | .expr (.input pr) =>
    simp only [Stmt.typed, Bool.and_eq_true] at ht
    unfold evalStmt; exact runs_bind (evalExpr_runs _ ht.1 false) (fun _ => runs_pure _)
  | .expr (.read path) =>
    simp only [Stmt.typed, Bool.and_eq_true] at ht
    unfold evalStmt; exact runs_bind (evalExpr_runs _ ht.1 false) (fun _ => runs_pure _)
  | .expr (.boolLit _) | .expr (.intLit _) | .expr (.strLit _) | .expr (.varEval _) | .expr (.unary _ _ _)
  | .expr (.binary _ _ _) | .expr (.compare _ _ _) | .expr (.logical _ _ _) | .expr (.group _)
  | .expr (.sliceNew _ _) | .expr (.sliceEval _ _ _) | .expr (.substr _ _ _) | .expr (.len _)
  | .expr (.itoa _) | .expr (.exists_ _) | .expr (.bad _) =>
    simp [Stmt.typed, Expr.isCallLike] at ht

theorem evalInit_runs (init : Option Stmt) (ht : typedOpt init = true) : Runs (evalInit conv init) := by
  match init with
  | some i => simp only [typedOpt] at ht; unfold evalInit; exact evalStmt_runs i ht
  | none => unfold evalInit; exact runs_pure _

theorem evalIncr_runs (incr : Option Stmt) (ht : typedOpt incr = true) :
    ∀ (s : St) (n : Nat) (rest : List Nat), s.fors = n :: rest → ∃ a s', evalIncr conv incr s = .ok (a, s') := by
  match incr with
  | some i =>
    simp only [typedOpt] at ht
    intro s n rest hf
    have h1 := forIncrementStart_run s n rest hf
    obtain ⟨u2, s2, h2⟩ := evalStmt_runs i ht { s with code := .incrStart n :: s.code }
    have e2 := (evalStmt_eff i (typed_wf i ht) _ _ _ h2).1
    have hf2 : s2.fors = n :: rest := by rw [e2.fors]; exact hf
    have h3 := forIncrementEnd_run s2 n rest hf2
    refine ⟨(), { s2 with code := .incrFlagSet n :: .fi :: s2.code }, ?_⟩
    unfold evalIncr
    rw [bind_run h1, bind_run h2]
    exact h3
  | none => intro s n rest _; unfold evalIncr; exact ⟨(), s, rfl⟩

theorem evalElse_runs (els : List Stmt) (ht : typedStmts els = true) : Runs (evalElse conv els) := by
  match els with
  | [] => unfold evalElse; exact runs_pure _
  | st :: rest =>
    simp only [typedStmts, Bool.and_eq_true] at ht
    unfold evalElse
    exact runs_bind runs_elseStart (fun _ => runs_bind (evalStmt_runs st ht.1) (fun _ =>
      runs_bind (evalStmts_runs rest ht.2) (fun _ => runs_elseEnd)))

theorem evalBlock_runs (body : List Stmt) (ht : typedStmts body = true) : Runs (evalBlock conv body) := by
  match body with
  | [] => unfold evalBlock; exact runs_addLine _
  | st :: rest =>
    simp only [typedStmts, Bool.and_eq_true] at ht
    unfold evalBlock
    exact runs_bind (evalStmt_runs st ht.1) (fun _ => evalStmts_runs rest ht.2)

theorem evalStmts_runs (body : List Stmt) (ht : typedStmts body = true) : Runs (evalStmts conv body) := by
  match body with
  | [] => unfold evalStmts; exact runs_pure _
  | st :: rest =>
    simp only [typedStmts, Bool.and_eq_true] at ht
    unfold evalStmts
    exact runs_bind (evalStmt_runs st ht.1) (fun _ => evalStmts_runs rest ht.2)

theorem evalElifs_runs (elifs : List (Expr × List Stmt)) (conds : List String) (ht : typedElifs elifs = true) :
    Runs (evalElifs conv elifs conds) := by
  match elifs, conds with
  | (_, body) :: rest, c :: cs =>
    simp only [typedElifs, Bool.and_eq_true] at ht
    unfold evalElifs
    exact runs_bind (runs_elseIfStart _) (fun _ => runs_bind (evalBlock_runs body ht.1.2) (fun _ =>
      runs_bind runs_elseIfEnd (fun _ => evalElifs_runs rest cs ht.2)))
  | [], _ => unfold evalElifs; exact runs_pure _
  | _ :: _, [] => unfold evalElifs; exact runs_pure _
end

/-- **Every typed program is translated to a bash script** -- no error, no panic. -/
theorem compile_total (p : Program) (ht : typedProgram p = true) : ∃ ls, compile p = .ok ls := by
  have h1 : Runs (evalProgram conv p) := by
    unfold evalProgram
    exact runs_bind (runs_modify _) (fun _ => runs_bind (evalStmts_runs p ht) (fun _ => runs_pure _))
  obtain ⟨u, s, hs⟩ := h1 {}
  exact ⟨dumpLines s, by unfold compile; rw [hs]⟩

end Tsh.Bash
