/-
  Simultaneous assignment `x, y = e1, e2`: every value goes through a temporary `_ma<i>` first.
-/
import TshVerif.Lemmas.SemStmt
namespace Tsh.Sem
open Tsh Tsh.Tr Tsh.Bash

def tmpText (i : Nat) : String := "${" ++ tmpName i ++ "}"

def tmpTexts : Nat → Nat → List String
  | _, 0 => []
  | i, n + 1 => tmpText i :: tmpTexts (i + 1) n

/-- the temporaries from `i` on hold the values -/
def TmpVals : Nat → List Src.Val → Store → Prop
  | _, [], _ => True
  | i, v :: vs, ρ => ρ (tmpName i) = v.render ∧ TmpVals (i + 1) vs ρ

theorem TmpVals.congr : ∀ {i : Nat} {vs : List Src.Val} {ρ ρ' : Store}, (∀ j, i ≤ j → ρ' (tmpName j) = ρ (tmpName j)) →
    TmpVals i vs ρ → TmpVals i vs ρ'
  | _, [], _, _, _, _ => trivial
  | i, _ :: _, _, _, h, hv => ⟨by rw [h i (Nat.le_refl _)]; exact hv.1, TmpVals.congr (fun j hj => h j (by omega)) hv.2⟩

theorem tmpEq (i : Nat) : (s!"_ma{i}" : String) = tmpName i := rfl

theorem assignedValues_sem (count : Nat) (hc : count > 1) : ∀ (vals : List Expr) (i : Nat) (s : St) (ts : List String) (s' : St),
    (vals.all Src.fragExpr) = true → s.funcs = [] →
    assignedValues conv count vals vals.length i s = .ok (ts, s') →
    ∃ new n, s' = adv s new n ∧ ts = tmpTexts i vals.length ∧
      ∀ env vs, Src.evalList env vals = some vs → ∀ ρ out, Agree env ρ →
        ∃ ρ', runLines new.reverse ⟨ρ, out⟩ = some ⟨ρ', out⟩ ∧
          (∀ x, (∀ k, x ≠ helperName k) → (∀ j, i ≤ j → x ≠ tmpName j) → ρ' x = ρ x) ∧ TmpVals i vs ρ'
  | [], i, s, ts, s', _, _, h => by
    simp only [List.length_nil] at h
    unfold assignedValues at h
    obtain ⟨ev, es⟩ := pure_ok h
    refine ⟨[], 0, es, ev, ?_⟩
    intro env vs hs ρ out _
    simp only [Src.evalList, Option.some.injEq] at hs
    subst hs
    exact ⟨ρ, rfl, fun _ _ _ => rfl, trivial⟩
  | e :: rest, i, s, ts, s', hf, h0, h => by
    simp only [List.length_cons] at h
    unfold assignedValues at h
    simp only [List.all_cons, Bool.and_eq_true] at hf
    obtain ⟨r, s1, h1, g1⟩ := bind_ok h
    simp only [hc, if_true] at g1
    obtain ⟨v, s2, hv, g2⟩ := bind_ok g1
    obtain ⟨vs', s3, hvs, g3⟩ := bind_ok g2
    obtain ⟨ev, es⟩ := pure_ok g3
    obtain ⟨t, new1, n1, er, e1⟩ := expr_shape e true s r s1 hf.1 h0 h1
    subst er; subst e1
    have h01 : (adv s new1 n1).funcs = [] := h0
    -- the temporary
    have hv' : (do varAssignment (tmpName i) t false; varEvaluation (tmpName i) false : BM String) (adv s new1 n1) = .ok (v, s2) := hv
    simp only [varAssignment, varEvaluation, bind, Tr.get, addLine, Tr.modify, pure, varEvalString, varName_top _ h01] at hv'
    injection hv' with hv'
    injection hv' with ev2 es2
    have h02 : s2.funcs = [] := by rw [← es2]; exact h0
    obtain ⟨new3, n3, e3, ets, sem3⟩ := assignedValues_sem count hc rest (i + 1) s2 vs' s3 hf.2 h02 hvs
    refine ⟨new3 ++ (Line.assign (tmpName i) t :: new1), n1 + n3, ?_, ?_, ?_⟩
    · rw [es, e3, ← es2]; simp [adv, Nat.add_assoc]
    · rw [ev, ets, ← ev2]; simp [tmpTexts, tmpText, varName, inFunction, adv, h0]
    · intro env vs hs ρ out ha
      simp only [Src.evalList] at hs
      split at hs
      · rename_i v0 vs0 hv0 hvs0
        simp only [Option.some.injEq] at hs
        subst hs
        obtain ⟨ρ1, run1, fr1, hold1⟩ := (expr_sem e true s [t] (adv s new1 n1) env v0 h0 h1 hv0).at ρ out ha
        have ha1 := fr1.agree ha
        have ha2 : Agree env (ρ1.set (tmpName i) v0.render) := by
          intro x w hx
          obtain ⟨hg, hw⟩ := ha1 x w hx
          exact ⟨hg, by rw [set_other _ _ _ _ (good_ne_tmp x i hg)]; exact hw⟩
        obtain ⟨ρ3, run3, fr3, tv3⟩ := sem3 env vs0 hvs0 (ρ1.set (tmpName i) v0.render) out ha2
        refine ⟨ρ3, ?_, ?_, ?_⟩
        · rw [List.reverse_append, runLines_append]
          simp only [List.reverse_cons, runLines_append, run1, Option.bind, runLines, step_assign out (tmpName i) hold1]
          exact run3
        · intro x hx1 hx2
          rw [fr3 x hx1 (fun j hj => hx2 j (by omega)), set_other _ _ _ _ (hx2 i (Nat.le_refl _))]
          exact fr1 x (fun k _ _ => hx1 k)
        · refine ⟨?_, tv3⟩
          rw [fr3 _ (fun k => tmp_ne_helper i k) (fun j hj e => by have := tmpName_inj e; omega)]
          exact set_same _ _ _
      · simp at hs

theorem storeValues_sem : ∀ (vars : List Var) (i : Nat) (s s' : St), (vars.all (fun x => goodName x.name)) = true → s.funcs = [] →
    storeValues conv vars (tmpTexts i vars.length) s = .ok ((), s') →
    ∃ new, s' = adv s new 0 ∧
      ∀ env vs, vs.length = vars.length → ∀ ρ out, Agree env ρ → TmpVals i vs ρ →
        ∃ ρ', runLines new.reverse ⟨ρ, out⟩ = some ⟨ρ', out⟩ ∧ Agree (Src.storeAll env vars vs) ρ' ∧
          ∀ j, ρ' (flagName j) = ρ (flagName j)
  | [], i, s, s', _, _, h => by
    simp only [List.length_nil, tmpTexts] at h
    unfold storeValues at h
    obtain ⟨_, es⟩ := pure_ok h
    refine ⟨[], es, ?_⟩
    intro env vs hl ρ out ha _
    have : vs = [] := List.eq_nil_of_length_eq_zero (by simpa using hl)
    subst this
    exact ⟨ρ, rfl, by simpa [Src.storeAll] using ha, fun _ => rfl⟩
  | x :: xs, i, s, s', hg, h0, h => by
    simp only [List.length_cons, tmpTexts] at h
    unfold storeValues at h
    simp only [List.all_cons, Bool.and_eq_true] at hg
    obtain ⟨_, s1, h1, h2⟩ := bind_ok h
    have h1' : varAssignment x.name (tmpText i) x.global s = .ok ((), s1) := h1
    simp only [varAssignment, bind, Tr.get, addLine, Tr.modify, varName_top _ h0] at h1'
    injection h1' with h1'
    injection h1' with _ es1
    have h01 : s1.funcs = [] := by rw [← es1]; exact h0
    obtain ⟨new2, e2, sem2⟩ := storeValues_sem xs (i + 1) s1 s' hg.2 h01 h2
    refine ⟨new2 ++ [Line.assign x.name (tmpText i)], ?_, ?_⟩
    · rw [e2, ← es1]; simp [adv]
    · intro env vs hl ρ out ha tv
      match vs, hl, tv with
      | v :: vs', hl, tv =>
        have hstep : stepSimple (.assign x.name (tmpText i)) ⟨ρ, out⟩ = some (.normal, ⟨ρ.set x.name v.render, out⟩) := by
          have hc : Complete ρ (tmpText i).toList v.render.toList := by
            rw [← tv.1]; exact complete_var ρ _ (tmpName_valid i)
          simp only [stepSimple, hc.toExpand]
        have tv' : TmpVals (i + 1) vs' (ρ.set x.name v.render) :=
          TmpVals.congr (fun j _ => set_other _ _ _ _ (fun e => good_ne_tmp x.name j hg.1 e.symm)) tv.2
        obtain ⟨ρ', run, ha', ff⟩ := sem2 (env.set x.name v) vs' (by simpa using hl) (ρ.set x.name v.render) out
          (agree_set _ _ hg.1 ha) tv'
        refine ⟨ρ', ?_, by simpa [Src.storeAll] using ha', ?_⟩
        · rw [List.reverse_append, runLines_append]
          simp only [List.reverse_cons, List.reverse_nil, List.nil_append, runLines, hstep, Option.bind]
          exact run
        · intro j
          rw [ff j, set_other _ _ _ _ (fun e => good_ne_flag x.name j hg.1 e.symm)]

theorem evalList_length : ∀ (es : List Expr) (env : Src.Env) (vs : List Src.Val), Src.evalList env es = some vs → vs.length = es.length
  | [], _, vs, h => by simp [Src.evalList] at h; subst h; rfl
  | e :: rest, env, vs, h => by
    simp only [Src.evalList] at h
    split at h
    · rename_i v vs' _ hvs
      simp only [Option.some.injEq] at h
      subst h
      simp [evalList_length rest env vs' hvs]
    · simp at h

theorem assignN_sem {vars : List Var} {vals : List Expr} (hlen : vars.length = vals.length) (hc : vars.length > 1)
    (hg : (vars.all (fun x => goodName x.name)) = true) (hf : (vals.all Src.fragExpr) = true) {s s' : St} (h0 : s.funcs = [])
    (h : assignValues conv vars vals s = .ok ((), s')) (src : Nat → Src.SCfg → Option (Out × Src.SCfg))
    (hsrc : ∀ fuel c o c', src fuel c = some (o, c') →
      ∃ vs, Src.evalList c.env vals = some vs ∧ o = .normal ∧ c' = { c with env := Src.storeAll c.env vars vs }) :
    StmtSem src s s' := by
  unfold assignValues at h
  obtain ⟨values, s1, h1, h2⟩ := bind_ok h
  rw [hlen] at h1
  obtain ⟨new1, n1, e1, ets, sem1⟩ := assignedValues_sem vals.length (by omega) vals 0 s values s1 hf h0 h1
  subst e1
  rw [ets, ← hlen] at h2
  have h01 : (adv s new1 n1).funcs = [] := h0
  obtain ⟨new2, e2, sem2⟩ := storeValues_sem vars 0 (adv s new1 n1) s' hg h01 h2
  refine ⟨(new1.reverse ++ new2.reverse).map Cmd.simple, n1, 0, ?_, ?_⟩
  · rw [e2, flats_simples]; simp [adv, adv2]
  · intro fuel c o c' hs ρ ha
    obtain ⟨vs, hvs, eo, ec⟩ := hsrc fuel c o c' hs
    subst eo; subst ec
    obtain ⟨ρ1, run1, fr1, tv1⟩ := sem1 c.env vs hvs ρ c.out ha
    have ha1 : Agree c.env ρ1 := by
      intro x v hx
      obtain ⟨hgx, hv⟩ := ha x v hx
      exact ⟨hgx, by rw [fr1 x (fun k => good_ne_helper x k hgx) (fun j _ => good_ne_tmp x j hgx)]; exact hv⟩
    obtain ⟨ρ2, run2, ha2, ff2⟩ := sem2 c.env vs (by rw [evalList_length vals c.env vs hvs, hlen]) ρ1 c.out ha1 tv1
    refine ⟨ρ2, ?_, ha2, ?_⟩
    · apply execCmds_simples
      rw [runLines_append, run1]
      exact run2
    · intro j _
      rw [ff2 j]
      exact fr1 _ (fun k => flag_ne_helper j k) (fun i _ => flag_ne_tmp j i)

end Tsh.Sem
