import TshVerif.Lemmas.ParserTypedExpr
namespace Tsh.Parser
open Tsh Tsh.Tr Tsh.LexTables

theorem known_of_isBool {vt : ValueType} (h : vt.isBool = true) : PT.known vt = true := by
  obtain ⟨dt, sl⟩ := vt
  cases dt <;> simp_all [ValueType.isBool, PT.known]

theorem known_elem {vt : ValueType} (h : PT.known vt = true) : PT.known ⟨vt.dt, false⟩ = true := by
  obtain ⟨dt, sl⟩ := vt
  cases dt <;> simp_all [PT.known]

theorem expr_known : (e : Expr) → PT.expr e = true → PT.known (Expr.valueType e) = true
  | .boolLit _, _ | .intLit _, _ | .strLit _, _ => rfl
  | .varEval v, h => by simpa [PT.expr, Expr.valueType] using h
  | .unary _ x vt, h => by
      simp only [PT.expr, Bool.and_eq_true, beq_iff_eq] at h
      simp only [Expr.valueType]
      rw [h.2]; exact known_of_isBool h.1.2
  | .binary _ l _, h => by
      simp only [PT.expr, Bool.and_eq_true] at h
      simpa [Expr.valueType] using expr_known l h.1.1.1
  | .compare _ _ _, _ | .logical _ _ _, _ => rfl
  | .group x, h => by
      simp only [PT.expr] at h
      simpa [Expr.valueType] using expr_known x h
  | .call _ rets _, h => by
      simp only [PT.expr, Bool.and_eq_true] at h
      simp only [Expr.valueType]
      match rets, h.2 with
      | [], _ => rfl
      | [t], h2 =>
        simp only [List.all_cons, List.all_nil, Bool.and_true] at h2
        simpa [fnValueType] using basic_known h2
      | _ :: _ :: _, _ => rfl
  | .app _ _ _, _ => rfl
  | .sliceNew dt _, h => by
      simp only [PT.expr, Bool.and_eq_true] at h
      have := h.2
      cases dt <;> simp_all [basicDt, PT.known, Expr.valueType]
  | .sliceEval v _ dt, h => by
      simp only [PT.expr, Bool.and_eq_true, beq_iff_eq] at h
      have := known_elem (expr_known v h.1.1.1.1)
      simp only [Expr.valueType]
      rw [h.2]; exact this
  | .substr _ _ _, _ | .len _, _ | .itoa _, _ | .exists_ _, _ | .read _, _ | .input _, _ | .copy _ _, _ => rfl
  | .write _ _ _, h => by simp [PT.expr] at h
  | .bad _, h => by simp [PT.expr] at h

theorem exprs_known {es : List Expr} (h : PT.exprs es = true) : (es.map Expr.valueType).all PT.known = true := by
  induction es with
  | nil => rfl
  | cons e r ih =>
    simp only [PT.exprs, Bool.and_eq_true] at h
    simp [expr_known e h.1, ih h.2]

theorem vals1_exprs {es : List Expr} (h : PT.vals1 es = true) : PT.exprs es = true := by
  induction es with
  | nil => rfl
  | cons e r ih =>
    simp only [PT.vals1, Bool.and_eq_true] at h
    simp [PT.exprs, h.1.1, ih h.2]

theorem assocSet_mem {β : Type} {m : List (String × β)} {k : String} {v : β} {e : String × β}
    (h : e ∈ assocSet m k v) : e ∈ m ∨ e = (k, v) := by
  unfold assocSet at h
  split at h
  · obtain ⟨x, hx, rfl⟩ := List.mem_map.mp h
    split
    · exact Or.inr rfl
    · exact Or.inl hx
  · rcases List.mem_append.mp h with h | h
    · exact Or.inl h
    · exact Or.inr (by simpa using h)

theorem CtxOK.push {c : Ctx} (h : CtxOK c) (s : Scope) : CtxOK (c.push s) := ⟨h.vars, h.funcs⟩

theorem CtxOK.imports {c : Ctx} (h : CtxOK c) (i : List (String × String)) : CtxOK { c with imports := i } :=
  ⟨h.vars, h.funcs⟩

theorem CtxOK.filterVars {c : Ctx} (h : CtxOK c) (p : String × Var → Bool) :
    CtxOK { c with vars := c.vars.filter p } :=
  ⟨fun e he => h.vars e (List.mem_filter.mp he).1, h.funcs⟩

theorem CtxOK.empty : CtxOK {} := ⟨by simp, by simp⟩

theorem CtxOK.setVar {c : Ctx} (h : CtxOK c) (k : String) (v : Var) (hv : PT.known v.vt = true) :
    CtxOK { c with vars := assocSet c.vars k v } := by
  refine ⟨?_, h.funcs⟩
  intro e he
  rcases assocSet_mem he with h1 | h1
  · exact h.vars e h1
  · subst h1; exact hv

theorem CtxOK.setFunc {c : Ctx} (h : CtxOK c) (k : String) (f : FuncInfo)
    (hf : f.rets.all PT.basic = true ∧ f.params.all (fun p => PT.basic p.vt) = true) :
    CtxOK { c with funcs := assocSet c.funcs k f } := by
  refine ⟨h.vars, ?_⟩
  intro e he
  rcases assocSet_mem he with h1 | h1
  · exact h.funcs e h1
  · subst h1; exact hf

theorem CtxOK.addVars {pfx : String} {g : Bool} : ∀ {vs : List Var} {c c' : Ctx}, CtxOK c → PT.varsKnown vs = true →
    c.addVars pfx g vs = some c' → CtxOK c' := by
  intro vs
  induction vs with
  | nil => intro c c' h _ he; simp [Ctx.addVars] at he; exact he ▸ h
  | cons v vs ih =>
    intro c c' h hk he
    simp only [PT.varsKnown, List.all_cons, Bool.and_eq_true] at hk
    simp only [Ctx.addVars, List.foldlM_cons] at he
    cases hb : c.buildName v.name pfx g false with
    | none => simp [hb] at he
    | some k =>
      simp only [hb, Option.bind_eq_bind, Option.bind_some] at he
      exact ih (h.setVar k v hk.1) (by simpa [PT.varsKnown] using hk.2) he

theorem CtxOK.addFunc {pfx : String} {g : Bool} {f : FuncInfo} {c c' : Ctx} (h : CtxOK c)
    (hf : f.rets.all PT.basic = true ∧ f.params.all (fun p => PT.basic p.vt) = true)
    (he : c.addFunc pfx g f = some c') : CtxOK c' := by
  unfold Ctx.addFunc at he
  split at he
  · simp only [Option.some.injEq] at he; exact he ▸ h.setFunc _ f hf
  · simp at he

def stmtP (st : Stmt) : Prop := PT.stmt st = true

theorem basic_params_known {ps : List Var} (h : ps.all (fun p => PT.basic p.vt) = true) : PT.varsKnown ps = true := by
  simp only [PT.varsKnown, List.all_eq_true] at h ⊢
  exact fun v hv => basic_known (h v hv)

theorem CtxOK.registerDefs {pfx : String} {g : Bool} {st : Stmt} {c c' : Ctx} (h : CtxOK c) (hs : stmtP st)
    (he : Parser.registerDefs c pfx g st = some c') : CtxOK c' := by
  unfold Parser.registerDefs at he
  split at he
  · simp only [stmtP, PT.stmt, Bool.and_eq_true] at hs
    exact h.addVars hs.2 he
  · simp only [stmtP, PT.stmt, Bool.and_eq_true] at hs
    exact h.addVars hs.1.2 he
  · simp only [stmtP, PT.stmt, Bool.and_eq_true] at hs
    exact h.addFunc ⟨hs.1.2, hs.2⟩ he
  · simp only [Option.some.injEq] at he; exact he ▸ h
