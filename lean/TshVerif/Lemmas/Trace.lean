/-
  A tracing converter: every converter operation appends one event (its name and the operand texts it
  was given) to a log and returns a fresh symbolic value.  Because the transpiler walk is written once,
  generically over the converter, the order and multiplicity of the operations it requests are the
  same for every converter; the tracing converter makes them observable.
-/
import TshVerif.Model.Transpile
namespace Tsh.Trace
open Tsh Tsh.Tr

structure Ev where
  op : String
  args : List String
deriving Repr, DecidableEq

structure TS where
  next : Nat := 0
  log : List Ev := []       -- oldest first
deriving Repr

abbrev TM := EM TS

/-- log an event, return a fresh symbolic value -/
def val (op : String) (args : List String) : TM String := fun s =>
  .ok (s!"#{s.next}", { next := s.next + 1, log := s.log ++ [⟨op, args⟩] })

/-- log an event -/
def act (op : String) (args : List String) : TM Unit := fun s =>
  .ok ((), { s with log := s.log ++ [⟨op, args⟩] })

def conv : Conv TS where
  stringToString s := val "literal" [s]
  programStart := act "programStart" []
  programEnd := act "programEnd" []
  varDefinition n v g := act "store" [n, v, toString g]
  sliceAssignment n i v d g := act "sliceStore" [n, i, v, d, toString g]
  funcStart n ps := act "funcStart" (n :: ps)
  funcEnd := act "funcEnd" []
  ret vs := act "return" vs
  ifStart c := act "if" [c]
  ifEnd := act "endif" []
  elseIfStart c := act "elif" [c]
  elseIfEnd := act "endelif" []
  elseStart := act "else" []
  elseEnd := act "endelse" []
  forStart := act "for" []
  forIncrementStart := act "incr" []
  forIncrementEnd := act "endincr" []
  forCondition c := act "forcond" [c]
  forEnd := act "endfor" []
  brk := act "break" []
  cont := act "continue" []
  print vs := act "print" vs
  panic v := act "panic" [v]
  writeFile p c a := act "write" [p, c, a]
  nop := act "nop" []
  unaryOperation e o _ _ := val "unary" [o, e]
  binaryOperation l o r _ _ := val "binary" [o, l, r]
  comparison l o r _ _ := val "compare" [o, l, r]
  logicalOperation l o r _ _ := val "logical" [o, l, r]
  varEvaluation n _ g := val "load" [n, toString g]
  sliceInstantiation vs _ := val "slice" vs
  sliceEvaluation n i _ := val "index" [n, i]
  sliceLen n _ := val "slicelen" [n]
  stringSubscript v a b _ := val "substr" [v, a, b]
  stringLen v _ := val "strlen" [v]
  funcCall n a r _ := fun s =>
    .ok ((List.range r.length).map (fun i => s!"#{s.next}.{i}"), { next := s.next + 1, log := s.log ++ [⟨"call", n :: a⟩] })
  appCall cs _ := fun s =>
    .ok ([s!"#{s.next}.out", "", s!"#{s.next}.status"],
         { next := s.next + 1, log := s.log ++ [⟨"app", cs.flatMap fun c => c.1 :: c.2⟩] })
  input p _ := val "input" [p]
  copy d s _ g := val "copy" [d, s, toString g]
  exists_ p _ := val "exists" [p]
  readFile p _ := val "read" [p]

/- number of converter operations an expression asks for: one per operator / builtin / call /
   variable read / string literal node, none for bool and int literals, grouping and itoa -/
mutual
def opCount : Expr → Nat
  | .boolLit _ | .intLit _ => 0
  | .strLit _ => 1
  | .varEval _ => 1
  | .unary _ x _ => opCount x + 1
  | .binary _ l r => opCount l + opCount r + 1
  | .compare _ l r => opCount l + opCount r + 1
  | .logical _ l r => opCount l + opCount r + 1
  | .group x => opCount x
  | .call _ _ args => opCounts args + 1
  | .app _ args none => opCounts args + 1
  | .app _ args (some nx) => opCounts args + chainCount nx + 1
  | .sliceNew _ vals => opCounts vals + 1
  | .sliceEval v i _ => opCount v + opCount i + 1
  | .substr v a none => opCount a + opCount v + 1
  | .substr v a (some b) => opCount a + opCount b + opCount v + 1
  | .len x => opCount x + 1
  | .itoa x => opCount x
  | .exists_ x => opCount x + 1
  | .read x => opCount x + 1
  | .input none => 1
  | .input (some x) => opCount x + 1
  | .copy _ src => opCount src + 1
  | .write _ _ _ => 0
  | .bad _ => 0
def opCounts : List Expr → Nat
  | [] => 0
  | e :: rest => opCount e + opCounts rest
/-- operations for the arguments of a chain of program calls -/
def chainCount : Expr → Nat
  | .app _ args none => opCounts args
  | .app _ args (some nx) => opCounts args + chainCount nx
  | _ => 0
end

theorem bind_ok {σ α β : Type} {x : EM σ α} {f : α → EM σ β} {s : σ} {b : β} {s'' : σ}
    (h : (x >>= f) s = .ok (b, s'')) : ∃ a s', x s = .ok (a, s') ∧ f a s' = .ok (b, s'') := by
  simp only [bind] at h
  cases hx : x s with
  | ok p => obtain ⟨a, s'⟩ := p; simp [hx] at h; exact ⟨a, s', rfl, h⟩
  | error m => simp [hx] at h
  | panic m => simp [hx] at h

theorem pure_ok {σ α : Type} {a b : α} {s s' : σ} (h : (pure a : EM σ α) s = .ok (b, s')) : b = a ∧ s' = s := by
  simp [pure] at h; exact ⟨h.1.symm, h.2.symm⟩

theorem val_len {op : String} {args : List String} {s s' : TS} {v : String} (h : val op args s = .ok (v, s')) :
    s'.log.length = s.log.length + 1 := by
  simp [val] at h; rw [← h.2]; simp

end Tsh.Trace
