/-
  Base of the semantic proof with functions: contexts (top level / inside function number k), agreement of
  source and bash configurations, operand texts that stay valid, what a callee may touch.
-/
import TshVerif.Sem2.Src
import TshVerif.Lemmas.Sem2Names
import TshVerif.Lemmas.SemStmt
namespace Tsh.Sem2
open Tsh Tsh.Tr Tsh.Bash Tsh.Sem Tsh.Sem2.Src
open Tsh.Sem.Src (Val Env)

/-- where code is being translated / executed: at top level, or inside function number `k` -/
structure Ctx where
  inFn : Bool
  k : Nat

/-- the shell name of a variable -/
def Ctx.mg (ctx : Ctx) (x : String) (g : Bool) : String := if ctx.inFn && !g then fnPrefix ctx.k ++ x else x

def ctxOf (s : St) : Ctx := ⟨inFunction s, s.funcCounter⟩

/-- which helper routines the script has to contain (`_sah`, `_sch`, `_ssh`): the three flags of the converter -/
structure Req where
  sah : Bool
  sch : Bool
  ssh : Bool

def Req.none : Req := ⟨false, false, false⟩
def Req.or (a b : Req) : Req := ⟨a.sah || b.sah, a.sch || b.sch, a.ssh || b.ssh⟩

/-- the converter state with more helper routines requested -/
def reqSt (s : St) (r : Req) : St :=
  { s with sahReq := s.sahReq || r.sah, schReq := s.schReq || r.sch, sshReq := s.sshReq || r.ssh }

theorem reqSt_none (s : St) : reqSt s Req.none = s := by cases s; simp [reqSt, Req.none]
theorem reqSt_reqSt (s : St) (a b : Req) : reqSt (reqSt s a) b = reqSt s (a.or b) := by simp [reqSt, Req.or, Bool.or_assoc]
theorem adv_reqSt (s : St) (r : Req) (new : List Line) (n : Nat) : adv (reqSt s r) new n = reqSt (adv s new n) r := rfl
theorem adv2_reqSt (s : St) (r : Req) (new : List Line) (n m : Nat) : adv2 (reqSt s r) new n m = reqSt (adv2 s new n m) r := rfl
theorem ctxOf_reqSt (s : St) (r : Req) : ctxOf (reqSt s r) = ctxOf s := rfl
theorem Req.or_none (a : Req) : a.or Req.none = a := by cases a; simp [Req.or, Req.none]
theorem Req.none_or (a : Req) : Req.none.or a = a := by cases a; simp [Req.or, Req.none]

theorem varName_ctx (s : St) (x : String) (g : Bool) : varName s x g = (ctxOf s).mg x g := by
  have e : ∀ n : Nat, toString n = n.repr := fun _ => rfl
  by_cases h : (inFunction s && !g) = true <;> simp [varName, Ctx.mg, ctxOf, fnPrefix, h, toString_str, e]

/-- helper / temporary names in a context -/
def Ctx.hn (ctx : Ctx) (j : Nat) : String := ctx.mg (helperName j) false
def Ctx.tn (ctx : Ctx) (j : Nat) : String := ctx.mg (tmpName j) false

theorem Ctx.hn_inj (ctx : Ctx) {a b : Nat} (h : ctx.hn a = ctx.hn b) : a = b := by
  simp only [Ctx.hn, Ctx.mg] at h
  split at h
  · exact helperName_inj (fnPrefix_inj h).2
  · exact helperName_inj h

theorem Ctx.tn_inj (ctx : Ctx) {a b : Nat} (h : ctx.tn a = ctx.tn b) : a = b := by
  simp only [Ctx.tn, Ctx.mg] at h
  split at h
  · exact tmpName_inj (fnPrefix_inj h).2
  · exact tmpName_inj h

theorem helperName_allName (j : Nat) : allName (helperName j).toList = true := validName_allName (helperName_valid j)
theorem tmpName_allName (j : Nat) : allName (tmpName j).toList = true := validName_allName (tmpName_valid j)

theorem Ctx.hn_valid (ctx : Ctx) (j : Nat) : validName (ctx.hn j).toList = true := by
  simp only [Ctx.hn, Ctx.mg]
  split
  · exact prefixed_valid _ _ (helperName_allName j)
  · exact helperName_valid j

theorem Ctx.tn_valid (ctx : Ctx) (j : Nat) : validName (ctx.tn j).toList = true := by
  simp only [Ctx.tn, Ctx.mg]
  split
  · exact prefixed_valid _ _ (tmpName_allName j)
  · exact tmpName_valid j

theorem good2_allName {x : String} (h : goodName2 x = true) : allName x.toList = true := by
  have := good2_good h
  simp only [goodName, Bool.and_eq_true] at this
  exact validName_allName this.1

theorem Ctx.mg_valid (ctx : Ctx) (x : String) (g : Bool) (h : goodName2 x = true) : validName (ctx.mg x g).toList = true := by
  simp only [Ctx.mg]
  split
  · exact prefixed_valid _ _ (good2_allName h)
  · have := good2_good h
    simp only [goodName, Bool.and_eq_true] at this
    exact this.1

/-- a program variable's shell name is never a helper, a temporary, a flag or a return register -/
theorem Ctx.mg_ne_hn (ctx : Ctx) (x : String) (g : Bool) (j : Nat) (h : goodName2 x = true) : ctx.mg x g ≠ ctx.hn j := by
  simp only [Ctx.mg, Ctx.hn]
  intro e
  by_cases h1 : (ctx.inFn && !g) = true
  · by_cases h2 : (ctx.inFn && !false) = true
    · simp only [h1, h2, if_true] at e
      exact good_ne_helper x j (good2_good h) (fnPrefix_inj e).2
    · have : ctx.inFn = true := by simp only [Bool.and_eq_true] at h1; exact h1.1
      simp [this] at h2
  · by_cases h2 : (ctx.inFn && !false) = true
    · simp only [h1, h2, if_true, if_false] at e
      exact good2_ne_prefixed x _ _ h e
    · simp only [h1, h2, if_false] at e
      exact good_ne_helper x j (good2_good h) e

theorem Ctx.mg_ne_tn (ctx : Ctx) (x : String) (g : Bool) (j : Nat) (h : goodName2 x = true) : ctx.mg x g ≠ ctx.tn j := by
  simp only [Ctx.mg, Ctx.tn]
  intro e
  by_cases h1 : (ctx.inFn && !g) = true
  · by_cases h2 : (ctx.inFn && !false) = true
    · simp only [h1, h2, if_true] at e
      exact good_ne_tmp x j (good2_good h) (fnPrefix_inj e).2
    · have : ctx.inFn = true := by simp only [Bool.and_eq_true] at h1; exact h1.1
      simp [this] at h2
  · by_cases h2 : (ctx.inFn && !false) = true
    · simp only [h1, h2, if_true, if_false] at e
      exact good2_ne_prefixed x _ _ h e
    · simp only [h1, h2, if_false] at e
      exact good_ne_tmp x j (good2_good h) e

theorem Ctx.mg_ne_flag (ctx : Ctx) (x : String) (g : Bool) (j : Nat) (h : goodName2 x = true) : ctx.mg x g ≠ flagName j := by
  simp only [Ctx.mg]
  split
  · exact prefixed_ne_flag _ _ _
  · exact good_ne_flag x j (good2_good h)

theorem Ctx.mg_ne_rv (ctx : Ctx) (x : String) (g : Bool) (j : Nat) (h : goodName2 x = true) : ctx.mg x g ≠ rvName j := by
  simp only [Ctx.mg]
  split
  · exact prefixed_ne_rv _ _ _
  · exact good_ne_rv x j (good2_good h)

theorem Ctx.hn_ne_tn (ctx : Ctx) (i j : Nat) : ctx.hn i ≠ ctx.tn j := by
  simp only [Ctx.hn, Ctx.tn, Ctx.mg]
  split
  · intro e; exact tmp_ne_helper j i (fnPrefix_inj e).2.symm
  · intro e; exact tmp_ne_helper j i e.symm

theorem Ctx.hn_ne_flag (ctx : Ctx) (i j : Nat) : ctx.hn i ≠ flagName j := by
  simp only [Ctx.hn, Ctx.mg]
  split
  · exact prefixed_ne_flag _ _ _
  · intro e; exact flag_ne_helper j i e.symm

theorem Ctx.tn_ne_flag (ctx : Ctx) (i j : Nat) : ctx.tn i ≠ flagName j := by
  simp only [Ctx.tn, Ctx.mg]
  split
  · exact prefixed_ne_flag _ _ _
  · intro e; exact flag_ne_tmp j i e.symm

theorem Ctx.hn_ne_rv (ctx : Ctx) (i j : Nat) : ctx.hn i ≠ rvName j := by
  simp only [Ctx.hn, Ctx.mg]
  split
  · exact prefixed_ne_rv _ _ _
  · intro e; exact rv_ne_helper j i e.symm

theorem Ctx.tn_ne_rv (ctx : Ctx) (i j : Nat) : ctx.tn i ≠ rvName j := by
  simp only [Ctx.tn, Ctx.mg]
  split
  · exact prefixed_ne_rv _ _ _
  · intro e; exact rv_ne_tmp j i e.symm

theorem Ctx.hn_ne_special (ctx : Ctx) (i : Nat) {y : String} (h : isSpecial y = true) : ctx.hn i ≠ y := by
  simp only [Ctx.hn, Ctx.mg]
  split
  · exact fun e => special_ne_prefixed h _ _ e.symm
  · exact fun e => special_ne_helper h i e.symm

theorem Ctx.tn_ne_special (ctx : Ctx) (i : Nat) {y : String} (h : isSpecial y = true) : ctx.tn i ≠ y := by
  simp only [Ctx.tn, Ctx.mg]
  split
  · exact fun e => special_ne_prefixed h _ _ e.symm
  · exact fun e => special_ne_tmp h i e.symm

theorem Ctx.mg_ne_special (ctx : Ctx) (x : String) (g : Bool) {y : String} (hx : goodName2 x = true) (h : isSpecial y = true) : ctx.mg x g ≠ y := by
  simp only [Ctx.mg]
  split
  · exact fun e => special_ne_prefixed h _ _ e.symm
  · exact fun e => good_ne_special (good2_good hx) (e ▸ h)

/-! ### agreement -/

/-- the text of the slice counter `_dvc` after `n` allocations -/
def dvcStr (n : Nat) : String := if n = 0 then "" else toString n

/-- slices: the counter, the elements of every slice in the array of its name, nothing beyond the counter -/
structure HeapOK (c : SCfg) (m : Cfg) : Prop where
  dvc : m.ρ "_dvc" = dvcStr c.next
  heap : ∀ id, m.arr (Sem.Src.sliceName id) = (c.heap id).map Val.render
  fresh : ∀ id, c.next < id → c.heap id = []

theorem HeapOK.set_rho {c : SCfg} {m : Cfg} (h : HeapOK c m) (y w : String) (hy : y ≠ "_dvc") :
    HeapOK c { m with ρ := m.ρ.set y w } :=
  ⟨by show (m.ρ.set y w) "_dvc" = _; rw [Sem.set_other _ _ _ _ (fun e => hy e.symm)]; exact h.dvc, h.heap, h.fresh⟩

theorem special_ne_dvc_of_not {y : String} (h : isSpecial y = false) : y ≠ "_dvc" := by
  intro e; subst e; simp [isSpecial] at h

/-- source configuration and shell configuration agree: same output so far, every global variable under its own
    name, every local variable of the running function under its prefixed name -/
structure AgreeF (ctx : Ctx) (c : SCfg) (m : Cfg) : Prop where
  inFn : c.inFn = ctx.inFn
  out : c.out = m.out
  glob : ∀ x v, c.genv x = some v → goodName2 x = true ∧ m.ρ x = v.render
  loc : ctx.inFn = true → ∀ x v, c.lenv x = some v → goodName2 x = true ∧ m.ρ (fnPrefix ctx.k ++ x) = v.render
  hp : HeapOK c m

theorem AgreeF.read {ctx : Ctx} {c : SCfg} {m : Cfg} (h : AgreeF ctx c m) {x : Var} {v : Val} (hv : readVar c x = some v) :
    goodName2 x.name = true ∧ m.ρ (ctx.mg x.name x.global) = v.render := by
  simp only [readVar, h.inFn] at hv
  simp only [Ctx.mg]
  by_cases h1 : (ctx.inFn && !x.global) = true
  · simp only [h1, if_true] at hv ⊢
    have : ctx.inFn = true := by simp only [Bool.and_eq_true] at h1; exact h1.1
    exact h.loc this _ _ hv
  · simp only [h1, if_false] at hv ⊢
    exact h.glob _ _ hv

/-- a store update at a name that is no program variable keeps the agreement -/
theorem AgreeF.set_other {ctx : Ctx} {c : SCfg} {m : Cfg} (h : AgreeF ctx c m) (y w : String)
    (hy : ∀ x g, goodName2 x = true → ctx.mg x g ≠ y) (hd : y ≠ "_dvc") : AgreeF ctx c { m with ρ := m.ρ.set y w } := by
  refine ⟨h.inFn, h.out, ?_, ?_, h.hp.set_rho y w hd⟩
  · intro x v hx
    obtain ⟨hg, hv⟩ := h.glob x v hx
    refine ⟨hg, ?_⟩
    have := hy x true hg
    simp only [Ctx.mg, Bool.not_true, Bool.and_false, Bool.false_eq_true, if_false] at this
    show (m.ρ.set y w) x = v.render
    rw [Sem.set_other _ _ _ _ this]; exact hv
  · intro hin x v hx
    obtain ⟨hg, hv⟩ := h.loc hin x v hx
    refine ⟨hg, ?_⟩
    have := hy x false hg
    simp only [Ctx.mg, hin, Bool.not_false, Bool.and_self, if_true] at this
    show (m.ρ.set y w) (fnPrefix ctx.k ++ x) = v.render
    rw [Sem.set_other _ _ _ _ this]; exact hv

theorem AgreeF.set_hn {ctx : Ctx} {c : SCfg} {m : Cfg} (h : AgreeF ctx c m) (j : Nat) (w : String) :
    AgreeF ctx c { m with ρ := m.ρ.set (ctx.hn j) w } :=
  h.set_other _ _ (fun x g hg => ctx.mg_ne_hn x g j hg) (ctx.hn_ne_special j (by decide))

theorem AgreeF.set_tn {ctx : Ctx} {c : SCfg} {m : Cfg} (h : AgreeF ctx c m) (j : Nat) (w : String) :
    AgreeF ctx c { m with ρ := m.ρ.set (ctx.tn j) w } :=
  h.set_other _ _ (fun x g hg => ctx.mg_ne_tn x g j hg) (ctx.tn_ne_special j (by decide))

theorem AgreeF.set_flag {ctx : Ctx} {c : SCfg} {m : Cfg} (h : AgreeF ctx c m) (j : Nat) (w : String) :
    AgreeF ctx c { m with ρ := m.ρ.set (flagName j) w } :=
  h.set_other _ _ (fun x g hg => ctx.mg_ne_flag x g j hg) (fun e => special_ne_flag (x := "_dvc") (by decide) j e.symm)

theorem AgreeF.set_rv {ctx : Ctx} {c : SCfg} {m : Cfg} (h : AgreeF ctx c m) (j : Nat) (w : String) :
    AgreeF ctx c { m with ρ := m.ρ.set (rvName j) w } :=
  h.set_other _ _ (fun x g hg => ctx.mg_ne_rv x g j hg) (fun e => special_ne_rv (x := "_dvc") (by decide) j e.symm)

/-- writing a program variable on both sides -/
theorem AgreeF.write {ctx : Ctx} {c : SCfg} {m : Cfg} (h : AgreeF ctx c m) (x : Var) (v : Val) (hx : goodName2 x.name = true) :
    AgreeF ctx (writeVar c x v) { m with ρ := m.ρ.set (ctx.mg x.name x.global) v.render } := by
  simp only [writeVar, h.inFn, Ctx.mg]
  by_cases h1 : (ctx.inFn && !x.global) = true
  · have hin : ctx.inFn = true := by simp only [Bool.and_eq_true] at h1; exact h1.1
    simp only [h1, if_true]
    refine ⟨by simp [h.inFn], h.out, ?_, ?_, ⟨?_, h.hp.heap, h.hp.fresh⟩⟩
    rotate_left 2
    · show (m.ρ.set (fnPrefix ctx.k ++ x.name) v.render) "_dvc" = _
      rw [Sem.set_other _ _ _ _ (special_ne_prefixed (x := "_dvc") (by decide) _ _)]; exact h.hp.dvc
    · intro y w hy
      obtain ⟨hg, hw⟩ := h.glob y w hy
      refine ⟨hg, ?_⟩
      show (m.ρ.set (fnPrefix ctx.k ++ x.name) v.render) y = w.render
      rw [Sem.set_other _ _ _ _ (good2_ne_prefixed y _ _ hg)]; exact hw
    · intro _ y w hy
      by_cases e : y = x.name
      · subst e
        simp only [Sem.Src.Env.set, if_true, Option.some.injEq] at hy
        subst hy
        exact ⟨hx, Sem.set_same _ _ _⟩
      · simp only [Sem.Src.Env.set, e, if_false] at hy
        obtain ⟨hg, hw⟩ := h.loc hin y w hy
        refine ⟨hg, ?_⟩
        show (m.ρ.set (fnPrefix ctx.k ++ x.name) v.render) (fnPrefix ctx.k ++ y) = w.render
        rw [Sem.set_other _ _ _ _ (fun e' => e (fnPrefix_inj e').2)]; exact hw
  · have h1' : (ctx.inFn && !x.global) = false := by simpa using h1
    simp only [h1', Bool.false_eq_true, if_false]
    refine ⟨by simp [h.inFn], h.out, ?_, ?_, ⟨?_, h.hp.heap, h.hp.fresh⟩⟩
    rotate_left 2
    · show (m.ρ.set x.name v.render) "_dvc" = _
      rw [Sem.set_other _ _ _ _ (fun e => good_ne_special (good2_good hx) (by rw [← e]; decide))]; exact h.hp.dvc
    · intro y w hy
      by_cases e : y = x.name
      · subst e
        simp only [Sem.Src.Env.set, if_true, Option.some.injEq] at hy
        subst hy
        exact ⟨hx, Sem.set_same _ _ _⟩
      · simp only [Sem.Src.Env.set, e, if_false] at hy
        obtain ⟨hg, hw⟩ := h.glob y w hy
        refine ⟨hg, ?_⟩
        show (m.ρ.set x.name v.render) y = w.render
        rw [Sem.set_other _ _ _ _ e]; exact hw
    · intro hin y w hy
      obtain ⟨hg, hw⟩ := h.loc hin y w hy
      refine ⟨hg, ?_⟩
      show (m.ρ.set x.name v.render) (fnPrefix ctx.k ++ y) = w.render
      rw [Sem.set_other _ _ _ _ (fun e' => good2_ne_prefixed x.name _ _ hx e'.symm)]; exact hw

end Tsh.Sem2
