import TshVerif.Lemmas.ParserPlaced
import TshVerif.Lemmas.ParserTypedProg
namespace Tsh.Parser
open Tsh Tsh.Tr Tsh.LexTables

def topCtx : SCtx := { brkAnywhere := true }
def placedTop (ss : List Stmt) : Prop := placedStmts topCtx ss = true

theorem placedTop_snoc {a : List Stmt} {s : Stmt} (ha : placedTop a) (hs : Stmt.placed topCtx s = true) : placedTop (a ++ [s]) :=
  placedStmts_append ha (by simp [placedStmts, hs])

/-- one step of `registerImported` -/
def regStep (acc : Ctx × List Stmt) (st : Stmt) : Ctx × List Stmt :=
  let (ctx, out) := acc
  match st with
  | .varDef vars _ =>
    let (ctx, ex) := vars.foldl (fun (a : Ctx × Bool) v =>
      let e := (assocGet a.1.vars v.name).isSome
      (if !e && v.pub then { a.1 with vars := assocSet a.1.vars v.name v } else a.1, a.2 && e)) (ctx, true)
    (ctx, if ex then out else out ++ [st])
  | .funcDef name pub rets params _ =>
    let e := (assocGet ctx.funcs name).isSome
    (if !e && pub then { ctx with funcs := assocSet ctx.funcs name ⟨name, rets, params, pub⟩ } else ctx,
     if e then out else out ++ [st])
  | _ => (ctx, out ++ [st])

theorem registerImported_eq (ctx : Ctx) (stmts : List Stmt) : registerImported ctx stmts = stmts.foldl regStep (ctx, []) := rfl

theorem varFold_scopes : ∀ (vs : List Var) (a : Ctx × Bool),
    (vs.foldl (fun (a : Ctx × Bool) v =>
      let e := (assocGet a.1.vars v.name).isSome
      (if !e && v.pub then { a.1 with vars := assocSet a.1.vars v.name v } else a.1, a.2 && e)) a).1.scopes = a.1.scopes := by
  intro vs
  induction vs with
  | nil => intro a; rfl
  | cons v vs ihv =>
    intro a
    simp only [List.foldl_cons]
    rw [ihv]
    dsimp only
    split <;> rfl

theorem regStep_scopes (acc : Ctx × List Stmt) (st : Stmt) : (regStep acc st).1.scopes = acc.1.scopes := by
  obtain ⟨ctx, out⟩ := acc
  cases st with
  | varDef vars vals => simp only [regStep]; exact varFold_scopes vars (ctx, true)
  | funcDef name pub rets params body => simp only [regStep]; split <;> rfl
  | _ => rfl

theorem regStep_out (acc : Ctx × List Stmt) (st : Stmt) : (regStep acc st).2 = acc.2 ∨ (regStep acc st).2 = acc.2 ++ [st] := by
  obtain ⟨ctx, out⟩ := acc
  cases st with
  | varDef vars vals => simp only [regStep]; split <;> simp
  | funcDef name pub rets params body => simp only [regStep]; split <;> simp
  | _ => exact Or.inr rfl

theorem regFold_placed : ∀ (stmts : List Stmt) (acc : Ctx × List Stmt), placedTop acc.2 → placedTop stmts →
    (stmts.foldl regStep acc).1.scopes = acc.1.scopes ∧ placedTop (stmts.foldl regStep acc).2 := by
  intro stmts
  induction stmts with
  | nil => intro acc h _; exact ⟨rfl, h⟩
  | cons st rest ih =>
    intro acc h hs
    simp only [placedTop, placedStmts, Bool.and_eq_true] at hs
    simp only [List.foldl_cons]
    obtain ⟨h1, h2⟩ := ih (regStep acc st) (by
      rcases regStep_out acc st with e | e <;> rw [e]
      · exact h
      · exact placedTop_snoc h hs.1) hs.2
    exact ⟨h1.trans (regStep_scopes acc st), h2⟩

theorem registerImported_placed {ctx : Ctx} {stmts : List Stmt} (hs : placedTop stmts) :
    (registerImported ctx stmts).1.scopes = ctx.scopes ∧ placedTop (registerImported ctx stmts).2 := by
  rw [registerImported_eq]
  exact regFold_placed stmts (ctx, []) rfl hs

theorem placedTop_filter {ss : List Stmt} (p : Stmt → Bool) (h : placedTop ss) : placedTop (ss.filter p) := by
  induction ss with
  | nil => exact h
  | cons s rest ih =>
    simp only [placedTop, placedStmts, Bool.and_eq_true] at h
    simp only [List.filter_cons]
    split
    · simp only [placedTop, placedStmts, Bool.and_eq_true]; exact ⟨h.1, ih h.2⟩
    · exact ih h.2

theorem cleanProgram_placed {used : List (String × List String)} {body b : List Stmt} (h : cleanProgram used body = some b)
    (hb : placedTop body) : placedTop b := by
  unfold cleanProgram at h
  cases hk : getUsedFuncs used "" with
  | none => simp [hk] at h
  | some keep =>
    simp only [hk, Option.bind_eq_bind, Option.bind_some, Option.pure_def, Option.some.injEq] at h
    exact h ▸ placedTop_filter _ hb

def FilePlaced (depth : Nat) : Prop :=
  ∀ fs path imported importing p s, parseFile depth fs path imported importing = .ok p s → placedTop p.body

theorem importLoop_placed {depth : Nat} (hd : FilePlaced depth) (fs : FileSys) (path : String)
    (importing : List String) (multiple : Bool) :
    ∀ (fuel : Nat) (ctx : Ctx) (acc : List Stmt) (s0 s' : PSt) (r : Ctx × List Stmt), placedTop acc →
      importLoop depth fs path importing fuel multiple ctx acc s0 = .ok r s' → r.1.scopes = ctx.scopes ∧ placedTop r.2 := by
  intro fuel
  induction fuel with
  | zero => intro ctx acc s0 s' r _ h; unfold importLoop at h; simp at h
  | succ fuel ih =>
    intro ctx acc s0 s' r hacc h
    unfold importLoop at h
    dsimp only at h
    split at h
    · split at h
      · split at h
        · simp at h
        · rename_i abs alias hres
          split at h
          · rename_i parsed sp hp
            have hbody := hd _ _ _ _ _ _ hp
            split at h
            · simp at h
            · split at h
              · split at h
                · simp only [PRes.ok.injEq] at h
                  obtain ⟨rfl, _⟩ := h
                  exact ⟨rfl, placedStmts_append hacc hbody⟩
                · split at h
                  · simp only [PRes.ok.injEq] at h
                    obtain ⟨rfl, _⟩ := h
                    exact ⟨rfl, placedStmts_append hacc hbody⟩
                  · split at h
                    · exact ih { ctx with imports := assocSet ctx.imports alias parsed.pfx } _ _ _ _ (placedStmts_append hacc hbody) h
                    · simp at h
              · simp at h
              · simp at h
              · simp at h
          · simp at h
          · simp at h
          · simp at h
      · simp at h
      · simp at h
      · simp at h
    · simp at h
    · simp at h
    · simp at h

theorem evalImports_placed {depth : Nat} (hd : FilePlaced depth) (fs : FileSys) (path : String)
    (importing : List String) (fuel : Nat) (ctx : Ctx) (s0 s' : PSt) (r : Ctx × List Stmt)
    (h : evalImports depth fs path importing fuel ctx s0 = .ok r s') : r.1.scopes = ctx.scopes ∧ placedTop r.2 := by
  unfold evalImports at h
  dsimp only at h
  split at h
  · split at h
    · simp only [PRes.ok.injEq] at h
      obtain ⟨rfl, _⟩ := h
      exact ⟨rfl, rfl⟩
    · split at h
      · split at h
        · simp at h
        · split at h
          · rename_i c stmts s2 hl
            obtain ⟨h1, h2⟩ := importLoop_placed hd fs path importing true fuel ctx [] _ _ _ rfl hl
            simp only [PRes.ok.injEq] at h
            obtain ⟨rfl, _⟩ := h
            obtain ⟨g1, g2⟩ := registerImported_placed (ctx := c) h2
            exact ⟨g1.trans h1, g2⟩
          · simp at h
          · simp at h
          · simp at h
      · split at h
        · rename_i c stmts s2 hl
          obtain ⟨h1, h2⟩ := importLoop_placed hd fs path importing false fuel ctx [] _ _ _ rfl hl
          simp only [PRes.ok.injEq] at h
          obtain ⟨rfl, _⟩ := h
          obtain ⟨g1, g2⟩ := registerImported_placed (ctx := c) h2
          exact ⟨g1.trans h1, g2⟩
        · simp at h
        · simp at h
        · simp at h
  · simp at h
  · simp at h
  · simp at h

theorem sc_program (ctx : Ctx) (h : ctx.scopes = []) : sc (ctx.push .program) = topCtx := by
  simp [sc, Ctx.push, Ctx.findScope, h, topCtx]

theorem evalProgram_placed (S : ∀ fuel, StmtIH fuel) (E : ∀ fuel, ExprIH fuel) {depth : Nat} (hd : FilePlaced depth) (hf : FileOK depth)
    (fs : FileSys) (path : String) (importing : List String) (fuel : Nat) (s0 s' : PSt) (body : List Stmt)
    (h : evalProgram depth fs path importing fuel s0 = .ok body s') : placedTop body := by
  unfold evalProgram at h
  split at h
  · rename_i ctx imported s hi
    obtain ⟨h1, h2⟩ := evalImports_placed hd fs path importing fuel {} _ _ _ hi
    have hc := ((evalImports_ok hf fs path importing fuel {} s0 CtxOK.empty).ok hi).1
    dsimp only at h
    split at h
    · rename_i own s2 hb
      simp only [PRes.ok.injEq] at h
      obtain ⟨rfl, _⟩ := h
      have hsc : ({ ctx with imports := assocSet ctx.imports s.pfx s.pfx } : Ctx).scopes = [] := h1
      have := ((placeIH_all S E fuel).blockContent [TT_EOF] (fun _ _ => true) _ .program (hc.imports _) (Or.inl ⟨rfl, hsc⟩)).ok _ _ _ hb
      unfold placedSs at this
      rw [sc_program _ hsc] at this
      exact placedStmts_append h2 this
    · simp at h
    · simp at h
    · simp at h
  · simp at h
  · simp at h
  · simp at h

theorem filePlaced_all (S : ∀ fuel, StmtIH fuel) (E : ∀ fuel, ExprIH fuel) : ∀ depth, FilePlaced depth := by
  intro depth
  induction depth with
  | zero => intro fs path imported importing p s h; unfold parseFile at h; simp at h
  | succ depth ih =>
    intro fs path imported importing p s h
    unfold parseFile at h
    split at h
    · simp at h
    split at h
    · simp at h
    split at h
    · simp at h
    · split at h
      · simp at h
      · dsimp only at h
        split at h
        · rename_i body s1 he
          have hb := evalProgram_placed S E ih (fileOK_all S depth) _ _ _ _ _ _ _ he
          split at h
          · simp only [PRes.ok.injEq] at h
            obtain ⟨rfl, _⟩ := h
            exact hb
          · split at h
            · rename_i b hcl
              simp only [PRes.ok.injEq] at h
              obtain ⟨rfl, _⟩ := h
              exact cleanProgram_placed hcl hb
            · simp at h
        · simp at h
        · simp at h
        · simp at h
