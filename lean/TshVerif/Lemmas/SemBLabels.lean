/-
  Labels of a generated script of the scalar fragment: every construct label (`_i<n>`, `_f<n>`, `_e<n>`) leads to the lines
  behind its definition (`Resolves`), because construct labels are pairwise different (`Lemmas/BatchLabels`, the invariant
  behind `C16.batch_construct_labels_unique`) and no other label of the script - the routines of `helperLines`, `:end` -
  has the shape of a construct label.
-/
import TshVerif.Lemmas.SemBLinesSound
import TshVerif.Lemmas.BatchLabels
namespace Tsh.SemB
open Tsh Tsh.Batch Tsh.Sem

/-- names of the label lines that are not construct labels -/
def plab : BLine → Option String | .label n => some n | _ => none

/-- the third character is a decimal digit: the shape `_i<n>` / `_f<n>` / `_e<n>` -/
def third (l : String) : Bool :=
  match l.toList with
  | _ :: _ :: d :: _ => d.isDigit
  | _ => false

theorem third_digits (a b : Char) (n : Nat) (l : String) (h : l.toList = a :: b :: Nat.toDigits 10 n) : third l = true := by
  unfold third
  rw [h]
  cases hd : Nat.toDigits 10 n with
  | nil => exact absurd hd Nat.toDigits_ne_nil
  | cons d ds =>
    simp only
    exact Nat.isDigit_of_mem_toDigits (b := 10) (by decide) (by decide) (by rw [hd]; simp)

theorem third_of_bounded {s : St} {l : String} (h : Bounded s l) : third l = true := by
  rcases h with ⟨n, _, rfl⟩ | ⟨n, _, rfl | rfl⟩
  · exact third_digits _ _ n _ (ifL_toList n)
  · exact third_digits _ _ n _ (forL_toList n)
  · exact third_digits _ _ n _ (endL_toList n)

/-- a line that defines no label of construct shape other than as a construct label -/
def okLine : BLine → Bool
  | .label n => !third n
  | _ => true

theorem third_eo (l : String) : third ("_eo_" ++ l) = false := by
  simp [third, String.toList_append]

theorem helper_ok (t l : String) (code : List BLine) (hl : third l = false) (h : code.all okLine = true) : (helper t l code).all okLine = true := by
  simp only [helper, List.all_append, Bool.and_eq_true, List.all_cons, List.all_nil, okLine, hl, third_eo, Bool.not_false]
  exact ⟨⟨by simp, h⟩, by simp⟩

theorem helperLines_ok (s : St) : (helperLines s).all okLine = true := by
  unfold helperLines
  simp only [List.all_append, Bool.and_eq_true]
  have e : ∀ (b : Bool) (x : List BLine), x.all okLine = true → (if b then x else []).all okLine = true := by
    intro b x hx; cases b <;> simp [hx]
  refine ⟨⟨⟨⟨⟨⟨⟨⟨⟨?_, ?_⟩, ?_⟩, ?_⟩, ?_⟩, ?_⟩, ?_⟩, ?_⟩, ?_⟩, ?_⟩ <;>
    exact e _ _ (helper_ok _ _ _ (by simp [third]) (by simp [okLine, third]))

theorem plab_ok {ls : List BLine} (h : ls.all okLine = true) : ∀ l ∈ ls.filterMap plab, third l = false := by
  intro l hl
  obtain ⟨x, hx, e⟩ := List.mem_filterMap.mp hl
  have := List.all_eq_true.mp h x hx
  cases x <;> simp [plab] at e
  subst e
  simpa [okLine] using this

theorem plab_startLines {ls : List BLine} (h : ∀ l ∈ ls, startLine l = true) : ls.filterMap plab = [] := by
  rw [List.filterMap_eq_nil_iff]
  intro l hl
  have := h l hl
  cases l <;> simp [startLine] at this <;> rfl

/-! ### a well-formed tree has construct labels only -/

theorem plab_plain {l : BLine} (h : plainB l = true) : plab l = none := by
  cases l <;> simp [plainB] at h <;> rfl

mutual
theorem plab_flat (ctx : LCtx) : ∀ (x : BCmd), wfB x = true → ∀ l ∈ flat ctx x, plab l = none
  | .simple l, h, x, hx => by
    simp only [wfB] at h
    simp only [flat, List.mem_singleton] at hx
    subst hx; exact plab_plain h
  | .guarded n body, h, x, hx => by
    simp only [wfB] at h
    simp only [flat, List.mem_cons, List.mem_append, List.not_mem_nil, or_false] at hx
    rcases hx with rfl | hx | rfl
    · rfl
    · exact plab_flats ctx body h x hx
    · rfl
  | .chain lbl c thn elifs els, h, x, hx => by
    simp only [wfB, Bool.and_eq_true] at h
    simp only [flat, List.mem_cons, List.mem_append, List.not_mem_nil, or_false] at hx
    rcases hx with rfl | hx | hx | hx | rfl | rfl | rfl
    · rfl
    · exact plab_flats ctx thn h.1.1 x hx
    · exact plab_elifs ctx lbl elifs h.1.2 x hx
    · exact plab_else ctx lbl els h.2 x hx
    · rfl
    · rfl
    · rfl
  | .loop n pre c body, h, x, hx => by
    simp only [wfB, Bool.and_eq_true] at h
    simp only [flat, List.mem_cons, List.mem_append, List.not_mem_nil, or_false] at hx
    rcases hx with rfl | hx | rfl | hx | rfl | rfl | rfl
    · rfl
    · exact plab_flats _ pre h.1 x hx
    · rfl
    · exact plab_flats _ body h.2 x hx
    · rfl
    · rfl
    · rfl
  | .brk, _, x, hx => by
    simp only [flat, List.mem_singleton] at hx
    subst hx; rfl
  | .cont, _, x, hx => by
    simp only [flat, List.mem_singleton] at hx
    subst hx; rfl
theorem plab_flats (ctx : LCtx) : ∀ (xs : List BCmd), wfBs xs = true → ∀ l ∈ flats ctx xs, plab l = none
  | [], _, x, hx => by simp [flats] at hx
  | y :: ys, h, x, hx => by
    simp only [wfBs, Bool.and_eq_true] at h
    simp only [flats, List.mem_append] at hx
    rcases hx with hx | hx
    · exact plab_flat ctx y h.1 x hx
    · exact plab_flats ctx ys h.2 x hx
theorem plab_elifs (ctx : LCtx) (lbl : String) : ∀ (es : List (String × List BCmd)), wfElifs es = true → ∀ l ∈ flatElifs ctx lbl es, plab l = none
  | [], _, x, hx => by simp [flatElifs] at hx
  | (c, b) :: rest, h, x, hx => by
    simp only [wfElifs, Bool.and_eq_true] at h
    simp only [flatElifs, List.mem_cons, List.mem_append] at hx
    rcases hx with rfl | rfl | hx | hx
    · rfl
    · rfl
    · exact plab_flats ctx b h.1 x hx
    · exact plab_elifs ctx lbl rest h.2 x hx
theorem plab_else (ctx : LCtx) (lbl : String) : ∀ (els : Option (List BCmd)), wfElse els = true → ∀ l ∈ flatElse ctx lbl els, plab l = none
  | none, _, x, hx => by simp [flatElse] at hx
  | some b, h, x, hx => by
    simp only [wfElse] at h
    simp only [flatElse, List.mem_cons] at hx
    rcases hx with rfl | rfl | hx
    · rfl
    · rfl
    · exact plab_flats ctx b h x hx
end

theorem plab_flats_nil (ctx : LCtx) (xs : List BCmd) (h : wfBs xs = true) : (flats ctx xs).filterMap plab = [] := by
  rw [List.filterMap_eq_nil_iff]; exact plab_flats ctx xs h

/-! ### labels resolve -/

theorem mem_labelsOf : ∀ {A : List BLine} {l : String}, l ∈ labelsOf A → l ∈ A.filterMap clab ∨ l ∈ A.filterMap plab
  | [], _, h => by simp [labelsOf] at h
  | a :: A, l, h => by
    cases a <;> simp only [labelsOf, List.mem_cons] at h <;> simp only [List.filterMap_cons, clab, plab]
    all_goals first
      | exact mem_labelsOf h
      | (rcases h with rfl | h
         · simp
         · rcases mem_labelsOf h with h | h <;> simp [h])

/-- construct labels pairwise different and different from every other label: every construct label leads to the lines
    behind its definition -/
theorem resolves_of_clabels (whole : List BLine) (hn : (whole.filterMap clab).Nodup)
    (hd : ∀ l ∈ whole.filterMap clab, l ∉ whole.filterMap plab) : Resolves whole := by
  intro A l B e
  subst e
  apply afterLabel_split
  intro hm
  rcases mem_labelsOf hm with h | h
  · simp only [List.filterMap_append, List.filterMap_cons, clab] at hn
    have := (List.nodup_append.mp hn).2.2 l h l (by simp)
    exact this rfl
  · exact hd l (by simp [clab]) (by simp only [List.filterMap_append]; exact List.mem_append_left _ h)

end Tsh.SemB
