import TshVerif.Lemmas.ParserTypedSimple
namespace Tsh.Parser
open Tsh Tsh.Tr Tsh.LexTables

def stmtsP (ss : List Stmt) : Prop := PT.stmts ss = true
def elifsP (es : List (Expr × List Stmt)) : Prop := PT.elifs_ es = true
def blockP (cb : List Stmt → Bool → Bool) (ss : List Stmt) : Prop := stmtsP ss ∧ cb ss true = true
def condP (c : Expr) : Prop := exprP c ∧ (Expr.valueType c).isBool = true

theorem exprP.out {e : Expr} (h : exprP e) : PT.expr e = true := h
theorem stmtP.out {s : Stmt} (h : stmtP s) : PT.stmt s = true := h
theorem stmtsP.out {s : List Stmt} (h : stmtsP s) : PT.stmts s = true := h
theorem elifsP.out {s : List (Expr × List Stmt)} (h : elifsP s) : PT.elifs_ s = true := h

theorem stmts_append {a b : List Stmt} (ha : stmtsP a) (hb : stmtsP b) : stmtsP (a ++ b) := by
  induction a with
  | nil => simpa using hb
  | cons x xs ih =>
    simp only [stmtsP, PT.stmts, Bool.and_eq_true] at ha
    simp only [stmtsP, List.cons_append, PT.stmts, Bool.and_eq_true]
    exact ⟨ha.1, ih ha.2⟩

theorem stmts_snoc {a : List Stmt} {s : Stmt} (ha : stmtsP a) (hs : stmtP s) : stmtsP (a ++ [s]) :=
  stmts_append ha (by simp [stmtsP, PT.stmts, hs.out])

theorem elifs_snoc {a : List (Expr × List Stmt)} {c : Expr} {b : List Stmt} (ha : elifsP a) (hc : condP c) (hb : stmtsP b) :
    elifsP (a ++ [(c, b)]) := by
  induction a with
  | nil => simp [elifsP, PT.elifs_, hc.1.out, hc.2, hb.out]
  | cons x xs ih =>
    obtain ⟨e, body⟩ := x
    simp only [elifsP, PT.elifs_, Bool.and_eq_true] at ha
    simp only [elifsP, List.cons_append, PT.elifs_, Bool.and_eq_true]
    exact ⟨ha.1, ih ha.2⟩

/-- the tag of a switch: a single value of a basic type -/
def tagP (tag : Expr) : Prop :=
  exprP tag ∧ (Expr.valueType tag).isSlice = false ∧ (Expr.valueType tag).dt ≠ .unknown ∧ (Expr.valueType tag).dt ≠ .multiple

theorem tag_compare {tag e : Expr} (ht : tagP tag) (he : exprP e) (heq : (Expr.valueType tag).equals (Expr.valueType e) = true) :
    condP (.compare "==" tag e) := by
  obtain ⟨h1, h2, h3, h4⟩ := ht
  have hk := expr_known tag h1
  refine ⟨?_, rfl⟩
  have h1' := h1.out
  have he' := he.out
  simp only [exprP, PT.expr, h1', he', heq, Bool.true_and]
  generalize Expr.valueType tag = vt at *
  obtain ⟨dt, sl⟩ := vt
  cases dt <;> simp_all [PT.cmpAllowed, PT.known]

structure StmtIH (fuel : Nat) : Prop where
  blockContent : ∀ terms cb ctx scope, CtxOK ctx → Post (evalBlockContent fuel terms cb ctx scope) (blockP cb)
  blockLoop : ∀ terms cb ctx acc, CtxOK ctx → stmtsP acc → Post (evalBlockLoop fuel terms cb ctx acc) (blockP cb)
  block : ∀ cb ctx scope, CtxOK ctx → Post (evalBlock fuel cb ctx scope) (blockP cb)
  functionDefinition : ∀ ctx, CtxOK ctx → Post (evalFunctionDefinition fuel ctx) stmtP
  if_ : ∀ ctx, CtxOK ctx → Post (evalIf fuel ctx) stmtP
  ifRest : ∀ ctx c body elifs els, CtxOK ctx → condP c → stmtsP body → elifsP elifs → stmtsP els →
    Post (evalIfRest fuel ctx c body elifs els) stmtP
  switch : ∀ ctx, CtxOK ctx → Post (evalSwitch fuel ctx) stmtP
  cases : ∀ ctx tag first elifs dflt, CtxOK ctx → tagP tag → (∀ c b, first = some (c, b) → condP c ∧ stmtsP b) → elifsP elifs →
    (∀ d, dflt = some d → stmtsP d) → Post (evalCases fuel ctx tag first elifs dflt) stmtP
  for_ : ∀ ctx, CtxOK ctx → Post (evalFor fuel ctx) stmtP
  statement : ∀ ctx, CtxOK ctx → Post (evalStatement fuel ctx) stmtP

variable {fuel : Nat}

theorem blockContent_succ (ih : StmtIH fuel) (terms : List Nat) (cb : List Stmt → Bool → Bool) (ctx : Ctx) (scope : Scope)
    (hc : CtxOK ctx) : Post (evalBlockContent (fuel + 1) terms cb ctx scope) (blockP cb) := by
  unfold evalBlockContent
  exact ih.blockLoop _ _ _ _ (hc.push scope) rfl

theorem blockLoop_succ (ih : StmtIH fuel) (terms : List Nat) (cb : List Stmt → Bool → Bool) (ctx : Ctx) (acc : List Stmt)
    (hc : CtxOK ctx) (hacc : stmtsP acc) : Post (evalBlockLoop (fuel + 1) terms cb ctx acc) (blockP cb) := by
  unfold evalBlockLoop
  pm_bind; intro t
  pm_if
  · pm_if
    · exact Post.pure' ⟨hacc, ‹_›⟩
    · exact Post.err
  refine Post.bind' (P := fun (x : Ctx × List Stmt) => CtxOK x.1 ∧ stmtsP x.2) ?_ ?_
  · pm_if
    · exact Post.pure' ⟨hc, hacc⟩
    · refine Post.bind' (ih.statement ctx hc) ?_
      intro st hst
      pm_bind; intro s
      refine Post.bind' (P := fun c => CtxOK c) (Post.ofOpt (fun c h => hc.registerDefs hst h)) ?_
      intro ctx' hc'
      pm_zeta
      pm_if
      · exact Post.pure' ⟨hc', stmts_snoc hacc hst⟩
      · exact Post.err
  rintro ⟨ctx', acc'⟩ ⟨hc', hacc'⟩
  dsimp only at hc' hacc' ⊢
  pm_bind; intro n
  pm_if
  · pm_bind; intro _
    exact ih.blockLoop _ _ _ _ hc' hacc'
  pm_if
  · exact ih.blockLoop _ _ _ _ hc' hacc'
  · exact Post.err

theorem block_succ (ih : StmtIH fuel) (cb : List Stmt → Bool → Bool) (ctx : Ctx) (scope : Scope)
    (hc : CtxOK ctx) : Post (evalBlock (fuel + 1) cb ctx scope) (blockP cb) := by
  unfold evalBlock
  pm_bind; intro b
  pm_if
  · exact Post.err
  pm_bind; intro n
  pm_if
  · exact Post.err
  refine Post.bind' (ih.blockContent _ _ _ _ hc) ?_
  intro ss hss
  pm_bind; intro e
  pm_if
  · exact Post.err
  · exact Post.pure' hss

theorem skipNewlines_any : ∀ fuel, Post (skipNewlines fuel) (fun _ => True) := by
  intro fuel
  induction fuel with
  | zero => unfold skipNewlines; exact Post.div
  | succ fuel ih =>
    unfold skipNewlines
    pm_bind; intro t
    pm_if
    · pm_bind; intro _
      exact ih
    · exact Post.pure' trivial

theorem functionDefinition_succ (ih : StmtIH fuel) (ctx : Ctx) (hc : CtxOK ctx) :
    Post (evalFunctionDefinition (fuel + 1) ctx) stmtP := by
  unfold evalFunctionDefinition
  pm_bind; intro f
  pm_if
  · exact Post.err
  pm_if
  · exact Post.err
  pm_bind; intro nameTok
  pm_if
  · exact Post.err
  pm_bind; intro s
  pm_zeta
  pm_if
  · exact Post.err
  pm_bind; intro o
  pm_zeta
  have hc1 : CtxOK { ctx with vars := ctx.vars.filter fun e => e.2.global } := hc.filterVars _
  refine Post.bind' (P := fun ps => ps.all (fun p => PT.basic p.vt) = true) ?_ ?_
  · pm_if
    · pm_bind; intro _
      refine Post.bind' (params_post _ fuel [] rfl) ?_
      intro ps hps
      pm_bind; intro c
      pm_if
      · exact Post.err
      · exact Post.pure' hps
    · exact Post.pure' rfl
  intro params hparams
  pm_bind; intro r
  pm_zeta
  pm_jp; intro jp hjp
  suffices key : ∀ u, Post (jp u) stmtP by
    pm_if
    · pm_bind; intro _
      exact key _
    · exact key _
  intro u; subst hjp; pm_beta
  refine Post.bind' (returnTypes_post fuel _ [] rfl) ?_
  intro rets hrets
  refine Post.bind' (P := fun c => CtxOK c) (Post.ofOpt (fun c h => hc1.addVars (basic_params_known hparams) h)) ?_
  intro ctx2 hc2
  pm_zeta
  pm_bind; intro s2
  pm_bind; intro _
  refine Post.bind' (ih.block _ _ _ hc2) ?_
  intro body hbody
  pm_bind; intro s3
  pm_bind; intro _
  refine Post.pure' ?_
  simp only [stmtP, PT.stmt, hbody.1.out, hbody.2, hrets, hparams, Bool.and_self]

theorem if_succ (ih : StmtIH fuel) (E : ∀ fuel, ExprIH fuel) (ctx : Ctx) (hc : CtxOK ctx) :
    Post (evalIf (fuel + 1) ctx) stmtP := by
  unfold evalIf
  pm_bind; intro t
  pm_if
  · exact Post.err
  pm_bind; intro _
  refine Post.bind' ((E fuel).expression ctx hc) ?_
  intro c hcnd
  pm_if
  · exact Post.err
  refine Post.bind' (ih.block _ _ _ hc) ?_
  intro body hbody
  exact ih.ifRest _ _ _ _ _ hc ⟨hcnd, by simp_all⟩ hbody.1 rfl rfl

theorem ifRest_succ (ih : StmtIH fuel) (E : ∀ fuel, ExprIH fuel) (ctx : Ctx) (c : Expr) (body : List Stmt)
    (elifs : List (Expr × List Stmt)) (els : List Stmt) (hc : CtxOK ctx) (hcnd : condP c) (hbody : stmtsP body)
    (helifs : elifsP elifs) (hels : stmtsP els) : Post (evalIfRest (fuel + 1) ctx c body elifs els) stmtP := by
  unfold evalIfRest
  pm_bind; intro t
  pm_if
  · refine Post.pure' ?_
    simp only [stmtP, PT.stmt, hcnd.1.out, hcnd.2, hbody.out, helifs.out, hels.out, Bool.and_self]
  pm_bind; intro _
  pm_bind; intro n
  pm_if
  · refine Post.bind' (ih.block _ _ _ hc) ?_
    intro b hb
    exact ih.ifRest _ _ _ _ _ hc hcnd hbody helifs hb.1
  · pm_bind; intro _
    refine Post.bind' ((E fuel).expression ctx hc) ?_
    intro ec hec
    pm_if
    · exact Post.err
    refine Post.bind' (ih.block _ _ _ hc) ?_
    intro b hb
    exact ih.ifRest _ _ _ _ _ hc hcnd hbody (elifs_snoc helifs ⟨hec, by simp_all⟩ hb.1) hels

theorem switch_succ (ih : StmtIH fuel) (E : ∀ fuel, ExprIH fuel) (ctx : Ctx) (hc : CtxOK ctx) :
    Post (evalSwitch (fuel + 1) ctx) stmtP := by
  unfold evalSwitch
  pm_bind; intro sw
  pm_if
  · exact Post.err
  pm_bind; intro t
  refine Post.bind' (P := exprP) ?_ ?_
  · pm_if
    · exact Post.pure' rfl
    · exact (E fuel).expression ctx hc
  intro tag htag
  pm_if
  · exact Post.err
  pm_if
  · exact Post.err
  pm_bind; intro b
  pm_if
  · exact Post.err
  pm_bind; intro n
  pm_if
  · exact Post.err
  refine Post.bind' (skipNewlines_any fuel) ?_
  intro _ _
  refine ih.cases _ _ _ _ _ hc ⟨htag, by simp_all, by simp_all, by simp_all⟩ (by simp) rfl (by simp)

theorem cases_succ (ih : StmtIH fuel) (E : ∀ fuel, ExprIH fuel) (ctx : Ctx) (tag : Expr) (first : Option (Expr × List Stmt))
    (elifs : List (Expr × List Stmt)) (dflt : Option (List Stmt)) (hc : CtxOK ctx) (htag : tagP tag)
    (hfirst : ∀ c b, first = some (c, b) → condP c ∧ stmtsP b) (helifs : elifsP elifs)
    (hdflt : ∀ d, dflt = some d → stmtsP d) : Post (evalCases (fuel + 1) ctx tag first elifs dflt) stmtP := by
  unfold evalCases
  pm_bind; intro t
  pm_if
  · pm_bind; intro _
    refine Post.pure' ?_
    have hd : stmtsP (dflt.getD []) := by
      cases dflt with
      | none => rfl
      | some d => exact hdflt d rfl
    cases first with
    | none =>
      simp [stmtP, PT.stmt, PT.expr, Expr.valueType, ValueType.isBool, PT.stmts, helifs.out, hd.out]
    | some p =>
      obtain ⟨c, b⟩ := p
      obtain ⟨h1, h2⟩ := hfirst c b rfl
      simp only [stmtP, PT.stmt, h1.1.out, h1.2, h2.out, helifs.out, hd.out, Bool.and_self]
  refine Post.bind' (P := fun (cmp : Option Expr) => ∀ e, cmp = some e → exprP e) ?_ ?_
  · pm_if
    · pm_bind; intro _
      refine Post.bind' ((E fuel).expression ctx hc) ?_
      intro e he
      exact Post.pure' (by intro e' h; simp at h; exact h ▸ he)
    pm_if
    · pm_bind; intro _
      exact Post.pure' (by intro e' h; simp at h)
    · exact Post.err
  intro cmp hcmp
  pm_bind; intro colon
  pm_if
  · exact Post.err
  refine Post.bind' (ih.blockContent _ _ _ _ hc) ?_
  intro stmts hstmts
  split
  · rename_i e
    pm_if
    · exact Post.err
    rename_i heq
    have hcnd : condP (.compare "==" tag e) := tag_compare htag (hcmp e rfl) (by simpa using heq)
    pm_zeta
    split
    · refine ih.cases _ _ _ _ _ hc htag ?_ helifs hdflt
      intro c b h
      simp only [Option.some.injEq, Prod.mk.injEq] at h
      exact h.1 ▸ h.2 ▸ ⟨hcnd, hstmts.1⟩
    · exact ih.cases _ _ _ _ _ hc htag hfirst (elifs_snoc helifs hcnd hstmts.1) hdflt
  · split
    · refine ih.cases _ _ _ _ _ hc htag hfirst helifs ?_
      intro d h
      simp only [Option.some.injEq] at h
      exact h ▸ hstmts.1
    · exact Post.err

theorem incDec_ok {v : Var} (hv : v.vt = ⟨.int, false⟩) (b : Bool) : stmtP (incDecStmt v b) := by
  cases b <;>
    simp [stmtP, incDecStmt, PT.stmt, PT.vals1, PT.expr, PT.callArity1, PT.varsMatch, PT.varsKnown, Expr.valueType, hv,
      ValueType.equals, binaryAllowed, PT.known, PT.hasValue]

def optP (o : Option Stmt) : Prop := PT.opt o = true
theorem optP.out {o : Option Stmt} (h : optP o) : PT.opt o = true := h

theorem for_succ (ih : StmtIH fuel) (E : ∀ fuel, ExprIH fuel) (ctx : Ctx) (hc : CtxOK ctx) :
    Post (evalFor (fuel + 1) ctx) stmtP := by
  unfold evalFor
  pm_bind; intro f
  pm_if
  · exact Post.err
  pm_bind; intro t0
  pm_bind; intro t1
  pm_bind; intro t2
  pm_bind; intro s
  pm_zeta
  pm_if
  · pm_bind; intro _
    pm_if
    · exact Post.err
    pm_bind; intro n
    pm_bind; intro valueName
    pm_bind; intro si
    pm_if
    · exact Post.err
    pm_bind; intro r
    pm_if
    · exact Post.err
    refine Post.bind' ((E fuel).expression ctx hc) ?_
    intro iterable hit
    pm_zeta
    pm_zeta
    refine Post.bind' (P := fun el => exprP el ∧ PT.callArity1 el = true ∧
        ((⟨(Expr.valueType iterable).dt, false⟩ : ValueType).equals (Expr.valueType el)) = true ∧
        ((Expr.valueType iterable).isString = true ∨ (Expr.valueType iterable).isSlice = true)) ?_ ?_
    · pm_if
      · refine Post.pure' ?_
        simp_all [exprP, PT.expr, PT.callArity1, Expr.valueType, ValueType.equals, vtInt, ValueType.isInt, PT.known]
      pm_if
      · refine Post.pure' ?_
        simp_all [exprP, PT.expr, PT.callArity1, Expr.valueType, ValueType.equals, vtInt, ValueType.isInt, PT.known,
          ValueType.isString]
      · exact Post.err
    intro el hel
    have hidx : PT.varsKnown [(⟨t0.val, vtInt, false, false⟩ : Var)] = true := rfl
    refine Post.bind' (P := fun c => CtxOK c) (Post.ofOpt (fun c h => hc.addVars hidx h)) ?_
    intro ctx1 hc1
    have hkn : PT.known ⟨(Expr.valueType iterable).dt, false⟩ = true := known_elem (expr_known iterable hit)
    refine Post.bind' (P := fun (x : Ctx × List Stmt) => CtxOK x.1 ∧ stmtsP x.2) ?_ ?_
    · pm_if
      · pm_zeta
        refine Post.bind' (P := fun c => CtxOK c) (Post.ofOpt (fun c h => hc1.addVars (by simp [PT.varsKnown, hkn]) h)) ?_
        intro ctx2 hc2
        refine Post.pure' ⟨hc2, ?_⟩
        have hu : PT.hasValue el = true := by
          have he := hel.2.2.1
          simp only [ValueType.equals, Bool.and_eq_true, beq_iff_eq] at he
          have hk := expr_known iterable hit
          apply hasValue_of_dt <;> rw [← he.1]
          · rcases hel.2.2.2 with h | h
            · simp only [ValueType.isString, Bool.and_eq_true, beq_iff_eq] at h
              rw [h.1]; simp
            · intro hdt
              simp [PT.known, hdt, h] at hk
          · rcases hel.2.2.2 with h | h
            · simp only [ValueType.isString, Bool.and_eq_true, beq_iff_eq] at h
              rw [h.1]; simp
            · intro hdt
              simp [PT.known, hdt, h] at hk
        have h1 : PT.vals1 [el] = true := vals1_cons.mpr ⟨hel.1.out, hel.2.1, hu, rfl⟩
        simp [stmtsP, PT.stmts, PT.stmt, h1, PT.varsMatch, PT.varsKnown, hel.2.2.1, hkn]
      · exact Post.pure' ⟨hc1, rfl⟩
    rintro ⟨ctx3, pre⟩ ⟨hc3, hpre⟩
    dsimp only at hc3 hpre ⊢
    refine Post.bind' (ih.block _ _ _ hc3) ?_
    intro body hbody
    refine Post.pure' ?_
    have hb := stmts_append hpre hbody.1
    have h1 := incDec_ok (v := ⟨t0.val, vtInt, false, false⟩) rfl true
    have hlen : ((Expr.valueType iterable).isString || (Expr.valueType iterable).isSlice) = true := by
      rcases hel.2.2.2 with h | h <;> simp [h]
    simp [stmtP, PT.stmt, PT.opt, PT.vals1, PT.expr, PT.callArity1, PT.varsMatch, PT.varsKnown, Expr.valueType, vtInt,
      ValueType.equals, PT.known, PT.cmpAllowed, ValueType.isBool, hit.out, hlen, hb.out, PT.hasValue]
    exact h1
  · pm_bind; intro three
    refine Post.bind' (P := fun (x : Ctx × Option Stmt × Expr × Option Stmt) =>
        CtxOK x.1 ∧ optP x.2.1 ∧ exprP x.2.2.1 ∧ optP x.2.2.2) ?_ ?_
    · pm_if
      · exact Post.pure' ⟨hc, rfl, rfl, rfl⟩
      pm_if
      · pm_bind; intro n
        refine Post.bind' (P := fun (x : Ctx × Option Stmt) => CtxOK x.1 ∧ optP x.2) ?_ ?_
        · pm_if
          · refine Post.bind' (ih.statement ctx hc) ?_
            intro st hst
            split
            · refine Post.bind' (P := fun c => CtxOK c) (Post.ofOpt (fun c h => hc.addVars (by
                simp only [stmtP, PT.stmt, Bool.and_eq_true] at hst; exact hst.2) h)) ?_
              intro c hc'
              exact Post.pure' ⟨hc', hst⟩
            · refine Post.bind' (P := fun c => CtxOK c) (Post.ofOpt (fun c h => hc.addVars (by
                simp only [stmtP, PT.stmt, Bool.and_eq_true] at hst; exact hst.1.2) h)) ?_
              intro c hc'
              exact Post.pure' ⟨hc', hst⟩
            · exact Post.pure' ⟨hc, hst⟩
            · exact Post.err
          · exact Post.pure' ⟨hc, rfl⟩
        rintro ⟨ctx1, init⟩ ⟨hc1, hinit⟩
        dsimp only at hc1 hinit ⊢
        pm_bind; intro sc
        pm_if
        · exact Post.err
        pm_bind; intro n2
        refine Post.bind' (P := exprP) ?_ ?_
        · pm_if
          · exact (E fuel).expression ctx1 hc1
          · exact Post.pure' rfl
        intro cond hcond
        pm_bind; intro sc2
        pm_if
        · exact Post.err
        pm_bind; intro n3
        refine Post.bind' (P := optP) ?_ ?_
        · pm_if
          · refine Post.bind' (ih.statement ctx1 hc1) ?_
            intro st hst
            split
            · exact Post.pure' hst
            · exact Post.err
          · exact Post.pure' rfl
        intro incr hincr
        exact Post.pure' ⟨hc1, hinit, hcond, hincr⟩
      · refine Post.bind' ((E fuel).expression ctx hc) ?_
        intro c hcnd
        exact Post.pure' ⟨hc, rfl, hcnd, rfl⟩
    rintro ⟨ctx1, init, cond, incr⟩ ⟨hc1, hinit, hcond, hincr⟩
    dsimp only at hc1 hinit hcond hincr ⊢
    pm_if
    · exact Post.err
    refine Post.bind' (ih.block _ _ _ hc1) ?_
    intro body hbody
    refine Post.pure' ?_
    have hb : (Expr.valueType cond).isBool = true := by simp_all
    simp only [stmtP, PT.stmt, hinit.out, hcond.out, hb, hincr.out, hbody.1.out, Bool.and_self]

theorem args2 {p d : Expr} (h : argsP [p, d]) : exprP p ∧ exprP d := by
  simp [argsP, PT.args_] at h; exact ⟨h.1.1, h.2.1⟩

theorem args3 {p d a : Expr} (h : argsP [p, d, a]) : exprP p ∧ exprP d ∧ exprP a := by
  simp [argsP, PT.args_] at h; exact ⟨h.1.1, h.2.1.1, h.2.2.1⟩

theorem statement_succ (ih : StmtIH fuel) (E : ∀ fuel, ExprIH fuel) (ctx : Ctx) (hc : CtxOK ctx) :
    Post (evalStatement (fuel + 1) ctx) stmtP := by
  unfold evalStatement
  pm_bind; intro t
  pm_if
  · exact (varDefinition_post E fuel ctx hc).mono (fun _ h => h.1)
  pm_if
  · exact ih.functionDefinition ctx hc
  pm_if
  · pm_bind; intro _
    pm_if
    · exact Post.err
    refine Post.bind' ((E fuel).values ctx true hc) ?_
    intro vals hv
    refine Post.pure' ?_
    rcases hv.2 with h | ⟨_, c, rfl, hc1, _⟩
    · exact vals1_exprs h
    · simp [stmtP, PT.stmt, PT.exprs, hc1.out]
  pm_if
  · exact ih.if_ ctx hc
  pm_if
  · exact ih.switch ctx hc
  pm_if
  · exact ih.for_ ctx hc
  pm_if
  · pm_bind; intro _
    pm_if
    · exact Post.pure' rfl
    · exact Post.err
  pm_if
  · pm_bind; intro _
    pm_if
    · exact Post.pure' rfl
    · exact Post.err
  pm_if
  · refine Post.bind' ((E fuel).builtin ctx _ _ _ hc) ?_
    intro args ha
    exact Post.pure' ha.1
  pm_if
  · refine Post.bind' ((E fuel).builtin ctx _ _ _ hc) ?_
    rintro args ⟨ha, hmin, hmax⟩
    split
    · pm_if
      · exact Post.err
      pm_if
      · exact Post.err
      · refine Post.pure' ?_
        obtain ⟨h1, h2⟩ := args2 ha
        simp_all [stmtP, PT.stmt, PT.appendFlag, PT.expr, Expr.valueType, ValueType.isBool, exprP]
    · pm_if
      · exact Post.err
      pm_if
      · exact Post.err
      pm_if
      · exact Post.err
      · refine Post.pure' ?_
        obtain ⟨h1, h2, h3⟩ := args3 ha
        simp_all [stmtP, PT.stmt, PT.appendFlag, exprP]
    · rename_i hno2 hno3
      refine Post.unreachable ?_
      have h3 := hmax 3 rfl
      match args, hmin, h3 with
      | [p, d], _, _ => exact hno2 p d rfl
      | [p, d, a], _, _ => exact hno3 p d a rfl
      | [], h, _ => simp at h
      | [_], h, _ => simp at h
      | _ :: _ :: _ :: _ :: _, _, h => simp at h
  pm_if
  · refine Post.bind' ((E fuel).builtin ctx _ _ _ hc) ?_
    rintro args ⟨ha, hmin, hmax⟩
    split
    · refine Post.pure' ?_
      simp_all [stmtP, PT.stmt, argsP, PT.args_]
    · rename_i hno
      obtain ⟨p, rfl⟩ := len1 hmin hmax
      exact Post.unreachable (hno p rfl)
  pm_bind; intro short
  pm_if
  · exact (varDefinition_post E fuel ctx hc).mono (fun _ h => h.1)
  pm_bind; intro s
  pm_bind; intro t1
  pm_if
  · exact (incDec_post ctx hc).mono (fun _ h => h.1)
  pm_if
  · exact (compound_post E fuel ctx hc).mono (fun _ h => h.1)
  pm_if
  · exact (varAssignment_post E fuel ctx hc).mono (fun _ h => h.1)
  pm_if
  · exact (sliceAssignment_post E fuel ctx hc).mono (fun _ h => h.1)
  refine Post.bind' ((E fuel).expression ctx hc) ?_
  intro e he
  split <;> first
    | exact Post.err
    | (refine Post.pure' ?_; simp [stmtP, PT.stmt, he.out, Expr.isCallLike])

theorem stmtIH_all (E : ∀ fuel, ExprIH fuel) : ∀ fuel, StmtIH fuel := by
  intro fuel
  induction fuel with
  | zero =>
    constructor <;> intros <;>
      first
        | (unfold evalBlockContent; exact Post.div) | (unfold evalBlockLoop; exact Post.div) | (unfold evalBlock; exact Post.div)
        | (unfold evalFunctionDefinition; exact Post.div) | (unfold evalIf; exact Post.div) | (unfold evalIfRest; exact Post.div)
        | (unfold evalSwitch; exact Post.div) | (unfold evalCases; exact Post.div) | (unfold evalFor; exact Post.div)
        | (unfold evalStatement; exact Post.div)
  | succ fuel ih =>
    exact {
      blockContent := fun terms cb ctx scope hc => blockContent_succ ih terms cb ctx scope hc
      blockLoop := fun terms cb ctx acc hc ha => blockLoop_succ ih terms cb ctx acc hc ha
      block := fun cb ctx scope hc => block_succ ih cb ctx scope hc
      functionDefinition := fun ctx hc => functionDefinition_succ ih ctx hc
      if_ := fun ctx hc => if_succ ih E ctx hc
      ifRest := fun ctx c body elifs els hc h1 h2 h3 h4 => ifRest_succ ih E ctx c body elifs els hc h1 h2 h3 h4
      switch := fun ctx hc => switch_succ ih E ctx hc
      cases := fun ctx tag first elifs dflt hc h1 h2 h3 h4 => cases_succ ih E ctx tag first elifs dflt hc h1 h2 h3 h4
      for_ := fun ctx hc => for_succ ih E ctx hc
      statement := fun ctx hc => statement_succ ih E ctx hc }
