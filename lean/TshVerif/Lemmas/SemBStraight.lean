/-
  Straight-line statements and programs of the scalar fragment on the Batch target (lemmas of Props/C05Sem).
-/
import TshVerif.Lemmas.SemBAssign
import TshVerif.Sem.CmdFrag
namespace Tsh.C05S
open Tsh Tsh.Tr Tsh.Batch Tsh.Sem Tsh.SemB

theorem assign_src {vars : List Var} {vals : List Expr} (hlen : vars.length = vals.length) (f : Nat) (mk : List Var → List Expr → Stmt)
    (hmk : ∀ c, Src32.execStmt (f + 1) (mk vars vals) c =
      (if vars.length == vals.length then
        match Src32.evalList c.env vals with
        | some vs => some (.normal, { c with env := Src.storeAll c.env vars vs })
        | none => none
      else none)) :
    ∀ c o c', Src32.execStmt (f + 1) (mk vars vals) c = some (o, c') →
      ∃ vs, Src32.evalList c.env vals = some vs ∧ o = .normal ∧ c' = { c with env := Src.storeAll c.env vars vs } := by
  intro c o c' hc
  rw [hmk] at hc
  simp only [hlen, beq_self_eq_true, if_true] at hc
  split at hc
  · rename_i vs hvs
    simp only [Option.some.injEq, Prod.mk.injEq] at hc
    obtain ⟨rfl, rfl⟩ := hc
    exact ⟨vs, hvs, rfl, rfl⟩
  · simp at hc

theorem assignAny_sem {vars : List Var} {vals : List Expr} (hlen : vars.length = vals.length) (hne : vars ≠ [])
    (hg : (vars.all (fun x => goodName x.name)) = true) {s s' : St} (h0 : s.funcs = [])
    (h : assignValues conv vars vals s = .ok ((), s')) (src : Src.SCfg → Option (Out × Src.SCfg))
    (hsrc : ∀ c o c', src c = some (o, c') →
      ∃ vs, Src32.evalList c.env vals = some vs ∧ o = .normal ∧ c' = { c with env := Src.storeAll c.env vars vs }) :
    StmtSemB src s s' := by
  by_cases hc : vars.length > 1
  · exact assignNB_sem hlen hc hg h0 h src hsrc
  · match vars, vals, hlen, hne, hc with
    | [x], [e], _, _, _ =>
      refine assign1B_sem (by simpa using hg) h0 h src ?_
      intro c o c' hs
      obtain ⟨vs, hvs, eo, ec⟩ := hsrc c o c' hs
      simp only [Src32.evalList] at hvs
      split at hvs
      · rename_i v vs' hv hnil
        simp only [Option.some.injEq] at hnil hvs
        subst hnil; subst hvs
        exact ⟨v, hv, eo, by rw [ec]; rfl⟩
      · simp at hvs
    | [], _, _, hne, _ => exact absurd rfl hne
    | _ :: _ :: _, _, _, _, hc => simp at hc
    | [_], [], hlen, _, _ => simp at hlen
    | [_], _ :: _ :: _, hlen, _, _ => simp at hlen

theorem stmtSemB_of_straight (st : Stmt) (hs : straightStmt st = true) (s s' : St) (h0 : s.funcs = [])
    (h : evalStmt conv st s = .ok ((), s')) (f : Nat) : StmtSemB (fun c => Src32.execStmt (f + 1) st c) s s' := by
  match st, hs with
  | .varDef vars vals, hs =>
    unfold evalStmt at h
    simp only [straightStmt, Bool.and_eq_true, beq_iff_eq, Bool.not_eq_true', List.isEmpty_eq_false_iff] at hs
    exact assignAny_sem hs.1.1 hs.1.2 hs.2 h0 h _ (assign_src hs.1.1 f Stmt.varDef (fun c => by simp only [Src32.execStmt]; rfl))
  | .assign vars vals, hs =>
    unfold evalStmt at h
    simp only [straightStmt, Bool.and_eq_true, beq_iff_eq, Bool.not_eq_true', List.isEmpty_eq_false_iff] at hs
    exact assignAny_sem hs.1.1 hs.1.2 hs.2 h0 h _ (assign_src hs.1.1 f Stmt.assign (fun c => by simp only [Src32.execStmt]; rfl))
  | .print es, _ =>
    unfold evalStmt at h
    have := printB_sem h0 h
    intro c o c' hc
    exact this c o c' (by simpa [Src32.execStmt] using hc)

theorem stmtSemB_panic (e : Expr) (s s' : St) (h0 : s.funcs = [])
    (h : evalStmt conv (.panic e) s = .ok ((), s')) (f : Nat) : StmtSemB (fun c => Src32.execStmt (f + 1) (.panic e) c) s s' := by
  unfold evalStmt at h
  have := panicB_sem h0 h
  intro c o c' hc
  exact this c o c' (by simpa [Src32.execStmt] using hc)

theorem straightStmt_normal (st : Stmt) (hs : straightStmt st = true) (f : Nat) (c : Src.SCfg) (o : Out) (c' : Src.SCfg)
    (h : Src32.execStmt f st c = some (o, c')) : o = .normal := by
  cases f with
  | zero => simp [Src32.execStmt] at h
  | succ f =>
    match st, hs with
    | .varDef vars vals, _ =>
      simp only [Src32.execStmt] at h
      split at h
      · split at h
        · simp only [Option.some.injEq, Prod.mk.injEq] at h; exact h.1.symm
        · simp at h
      · simp at h
    | .assign vars vals, _ =>
      simp only [Src32.execStmt] at h
      split at h
      · split at h
        · simp only [Option.some.injEq, Prod.mk.injEq] at h; exact h.1.symm
        · simp at h
      · simp at h
    | .print es, _ =>
      simp only [Src32.execStmt] at h
      split at h
      · split at h
        · simp only [Option.some.injEq, Prod.mk.injEq] at h; exact h.1.symm
        · simp at h
      · simp at h

theorem runLinesB_append_normal {a : List BLine} {c c1 : Cfg} (h : runLinesB a c = some (.normal, c1)) (b : List BLine) :
    runLinesB (a ++ b) c = runLinesB b c1 := by
  induction a generalizing c with
  | nil => simp only [runLinesB, Option.some.injEq, Prod.mk.injEq] at h; rw [← h.2]; rfl
  | cons l ls ih =>
    simp only [runLinesB] at h
    split at h
    · rename_i c2 hs
      simp only [List.cons_append, runLinesB, hs]
      exact ih h
    · rename_i r hne
      cases hs : stepB l c with
      | none => rw [hs] at h; simp at h
      | some q =>
        obtain ⟨o, c2⟩ := q
        rw [hs] at h
        simp only [Option.some.injEq, Prod.mk.injEq] at h
        obtain ⟨rfl, rfl⟩ := h
        exact absurd hs (hne _)

theorem panicLast_sem (e : Expr) (s s' : St) (h0 : s.funcs = []) (h : evalStmts conv [.panic e] s = .ok ((), s'))
    (fuel : Nat) (c : Src.SCfg) (o : Out) (c' : Src.SCfg) (hr : Src32.execStmts fuel [.panic e] c = some (o, c')) :
    ∃ new n, Adv s s' new n ∧
      ∀ ρ, Agree c.env ρ → ∃ ρ', runLinesB new.reverse ⟨ρ, c.out⟩ = some (o, ⟨ρ', c'.out⟩) ∧
        (o = .normal → Agree c'.env ρ' ∧ Keeps ρ ρ') := by
  unfold evalStmts at h
  obtain ⟨_, s1, h1, h2⟩ := bindB_ok h
  unfold evalStmts at h2
  obtain ⟨_, es⟩ := pureB_ok h2
  rw [es]
  cases fuel with
  | zero => simp [Src32.execStmts] at hr
  | succ f =>
    cases f with
    | zero => simp [Src32.execStmts, Src32.execStmt] at hr
    | succ f =>
      simp only [Src32.execStmts] at hr
      cases hx : Src32.execStmt (f + 1) (.panic e) c with
      | none => simp [hx] at hr
      | some r =>
        obtain ⟨o1, c1⟩ := r
        have ho1 : o1 = .exit 1 := by
          simp only [Src32.execStmt] at hx
          split at hx
          · split at hx
            · simp only [Option.some.injEq, Prod.mk.injEq] at hx; exact hx.1.symm
            · simp at hx
          · simp at hx
        subst ho1
        simp only [hx, Option.some.injEq, Prod.mk.injEq] at hr
        obtain ⟨rfl, rfl⟩ := hr
        exact stmtSemB_panic e s s1 h0 h1 f c _ _ hx

/-- the straight-line program theorem, from any converter state outside a function -/
theorem stmtsB_sem : ∀ (p : List Stmt), straight p = true → ∀ (s s' : St), s.funcs = [] → evalStmts conv p s = .ok ((), s') →
    ∀ fuel c o c', Src32.execStmts fuel p c = some (o, c') → ∃ new n, Adv s s' new n ∧
      ∀ ρ, Agree c.env ρ → ∃ ρ', runLinesB new.reverse ⟨ρ, c.out⟩ = some (o, ⟨ρ', c'.out⟩) ∧
        (o = .normal → Agree c'.env ρ' ∧ Keeps ρ ρ')
  | [], _, s, s', _, h, fuel, c, o, c', hr => by
    unfold evalStmts at h
    obtain ⟨_, es⟩ := pureB_ok h
    cases fuel with
    | zero => simp [Src32.execStmts] at hr
    | succ f =>
      simp only [Src32.execStmts, Option.some.injEq, Prod.mk.injEq] at hr
      obtain ⟨rfl, rfl⟩ := hr
      exact ⟨[], 0, by rw [es]; exact Adv.refl s, fun ρ ha => ⟨ρ, rfl, fun _ => ⟨ha, Keeps.refl ρ⟩⟩⟩
  | st :: st2 :: rest, hs, s, s', h0, h, fuel, c, o, c', hr => by
    have hs' : straightStmt st = true ∧ straight (st2 :: rest) = true := by
      cases st <;> simp_all [straight]
    exact stmtsB_cons st (st2 :: rest) hs'.1 (stmtsB_sem (st2 :: rest) hs'.2) s s' h0 h fuel c o c' hr
  | [st], hs, s, s', h0, h, fuel, c, o, c', hr => by
    by_cases hp : ∃ e, st = .panic e
    · obtain ⟨e, rfl⟩ := hp
      exact panicLast_sem e s s' h0 h fuel c o c' hr
    · have hs' : straightStmt st = true := by
        cases st <;> simp_all [straight, straightStmt]
      exact stmtsB_cons st [] hs' (stmtsB_sem [] rfl) s s' h0 h fuel c o c' hr
where
  stmtsB_cons (st : Stmt) (rest : List Stmt) (hst : straightStmt st = true)
      (ih : ∀ (s s' : St), s.funcs = [] → evalStmts conv rest s = .ok ((), s') →
        ∀ fuel c o c', Src32.execStmts fuel rest c = some (o, c') → ∃ new n, Adv s s' new n ∧
          ∀ ρ, Agree c.env ρ → ∃ ρ', runLinesB new.reverse ⟨ρ, c.out⟩ = some (o, ⟨ρ', c'.out⟩) ∧
            (o = .normal → Agree c'.env ρ' ∧ Keeps ρ ρ'))
      (s s' : St) (h0 : s.funcs = []) (h : evalStmts conv (st :: rest) s = .ok ((), s'))
      (fuel : Nat) (c : Src.SCfg) (o : Out) (c' : Src.SCfg) (hr : Src32.execStmts fuel (st :: rest) c = some (o, c')) :
      ∃ new n, Adv s s' new n ∧
        ∀ ρ, Agree c.env ρ → ∃ ρ', runLinesB new.reverse ⟨ρ, c.out⟩ = some (o, ⟨ρ', c'.out⟩) ∧
          (o = .normal → Agree c'.env ρ' ∧ Keeps ρ ρ') := by
    unfold evalStmts at h
    obtain ⟨_, s1, h1, h2⟩ := bindB_ok h
    cases fuel with
    | zero => simp [Src32.execStmts] at hr
    | succ f =>
      cases f with
      | zero =>
        simp only [Src32.execStmts] at hr
        cases st <;> simp [Src32.execStmt] at hr
      | succ f =>
        simp only [Src32.execStmts] at hr
        cases hx : Src32.execStmt (f + 1) st c with
        | none => simp [hx] at hr
        | some r =>
          obtain ⟨o1, c1⟩ := r
          have ho1 := straightStmt_normal st hst _ c o1 c1 hx
          subst ho1
          simp only [hx] at hr
          obtain ⟨new1, n1, ad1, sem1⟩ := stmtSemB_of_straight st hst s s1 h0 h1 f c _ _ hx
          have h01 : s1.funcs = [] := by rw [ad1.funcs]; exact h0
          obtain ⟨new2, n2, ad2, sem2⟩ := ih s1 s' h01 h2 (f + 1) c1 o c' hr
          refine ⟨new2 ++ new1, n1 + n2, ad1.trans ad2, ?_⟩
          intro ρ ha
          obtain ⟨ρ1, run1, post1⟩ := sem1 ρ ha
          obtain ⟨ag1, e1⟩ := post1 rfl
          obtain ⟨ρ2, run2, post2⟩ := sem2 ρ1 ag1
          refine ⟨ρ2, ?_, fun ho => ⟨(post2 ho).1, e1.trans (post2 ho).2⟩⟩
          rw [List.reverse_append, runLinesB_append_normal run1]
          exact run2

end Tsh.C05S
