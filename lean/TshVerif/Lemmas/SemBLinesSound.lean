/-
  Soundness of the block tree for the line-level semantics: whatever `ExecBs` derives for a well-formed tree, `LRun` derives
  for its lines, in continuation-passing form - "if the lines behind the construct end like this, the lines from the
  construct on end like this".  The only fact about the whole script that is used: a label leads to the lines behind its
  definition (`Resolves`), which follows from the labels being pairwise different (`resolves_of_nodup`).
-/
import TshVerif.Lemmas.SemBLines
namespace Tsh.SemB
open Tsh Tsh.Batch Tsh.Sem

/-! ### labels -/

def labelsOf : List BLine → List String
  | [] => []
  | .clabel n :: r => n :: labelsOf r
  | .label n :: r => n :: labelsOf r
  | _ :: r => labelsOf r

theorem labelsOf_append : ∀ (A B : List BLine), labelsOf (A ++ B) = labelsOf A ++ labelsOf B
  | [], B => by simp [labelsOf]
  | a :: A, B => by cases a <;> simp [labelsOf, labelsOf_append A B]

theorem afterLabel_split (l : String) : ∀ (A B : List BLine), l ∉ labelsOf A → afterLabel l (A ++ .clabel l :: B) = some B
  | [], B, _ => by simp [afterLabel]
  | .clabel n :: A, B, h => by
    simp only [labelsOf, List.mem_cons, not_or] at h
    have hne : (n == l) = false := by simpa using fun e => h.1 e.symm
    simp only [List.cons_append, afterLabel, hne]
    exact afterLabel_split l A B h.2
  | .label n :: A, B, h => by
    simp only [labelsOf, List.mem_cons, not_or] at h
    have hne : (n == l) = false := by simpa using fun e => h.1 e.symm
    simp only [List.cons_append, afterLabel, hne]
    exact afterLabel_split l A B h.2
  | a :: A, B, h => by
    cases a <;> simp only [labelsOf, List.mem_cons, not_or] at h <;> simp only [List.cons_append, afterLabel]
    all_goals first
      | exact afterLabel_split l A B h
      | (rename_i n
         have hne : (n == l) = false := by simpa using fun e => h.1 e.symm
         simp only [hne]
         exact afterLabel_split l A B h.2)

/-- every label of the script leads to the lines behind its definition -/
def Resolves (whole : List BLine) : Prop := ∀ (A : List BLine) (l : String) (B : List BLine), whole = A ++ .clabel l :: B → afterLabel l whole = some B

theorem resolves_of_nodup (whole : List BLine) (h : (labelsOf whole).Nodup) : Resolves whole := by
  intro A l B e
  subst e
  apply afterLabel_split
  rw [labelsOf_append] at h
  simp only [labelsOf] at h
  have := (List.nodup_append.mp h).2.2
  intro hm
  exact this l hm l (by simp) rfl

/-! ### continuations -/

/-- if the lines `L2` from `c2` end somehow, so do the lines `L` from `c` -/
def Leads (whole : List BLine) (L : List BLine) (c : Cfg) (L2 : List BLine) (c2 : Cfg) : Prop :=
  ∀ o' c', LRun whole L2 c2 o' c' → LRun whole L c o' c'

theorem Leads.refl {whole L c} : Leads whole L c L c := fun _ _ h => h

theorem Leads.trans {whole L c L2 c2 L3 c3} (a : Leads whole L c L2 c2) (b : Leads whole L2 c2 L3 c3) : Leads whole L c L3 c3 :=
  fun o' c' h => a o' c' (b o' c' h)

/-- what the lines `L` from `c` do, given that the construct they start with ends with outcome `o` in `c1`, that `K` are
  the lines behind the construct, and that `ctx` are the labels of the enclosing loop -/
def Cont (whole : List BLine) (ctx : LCtx) (K : List BLine) (o : Out) (c1 : Cfg) (L : List BLine) (c : Cfg) : Prop :=
  match o with
  | .normal => Leads whole L c K c1
  | .exit k => LRun whole L c (.exit k) c1
  | .brk => ∀ h e tgt, ctx = some (h, e) → afterLabel e whole = some tgt → Leads whole L c tgt c1
  | .cont => ∀ h e tgt, ctx = some (h, e) → afterLabel h whole = some tgt → Leads whole L c tgt c1

theorem Cont.pre {whole ctx K o c1 L c L2 c2} (a : Leads whole L c L2 c2) (b : Cont whole ctx K o c1 L2 c2) : Cont whole ctx K o c1 L c := by
  cases o with
  | normal => exact Leads.trans a b
  | exit k => exact a _ _ b
  | brk => exact fun h e tgt hc ht => Leads.trans a (b h e tgt hc ht)
  | cont => exact fun h e tgt hc ht => Leads.trans a (b h e tgt hc ht)

theorem Cont.post {whole ctx K K2 o c1 L c} (a : Leads whole K c1 K2 c1) (b : Cont whole ctx K o c1 L c) : Cont whole ctx K2 o c1 L c := by
  cases o with
  | normal => exact Leads.trans b a
  | exit k => exact b
  | brk => exact b
  | cont => exact b

theorem Cont.abrupt {whole ctx K K2 o c1 L c} (hne : o ≠ .normal) (b : Cont whole ctx K o c1 L c) : Cont whole ctx K2 o c1 L c := by
  cases o with
  | normal => exact absurd rfl hne
  | exit k => exact b
  | brk => exact b
  | cont => exact b

/-! ### single lines -/

theorem leads_close {whole K c} : Leads whole (.close :: K) c K c := fun _ _ h => .close h
theorem leads_label {whole n K c} : Leads whole (.clabel n :: K) c K c := fun _ _ h => .label h
theorem leads_jump {whole n R tgt c} (h : afterLabel n whole = some tgt) : Leads whole (.cgoto n :: R) c tgt c := fun _ _ r => .jump h r
theorem leads_enter {whole t R c} (h : blockTest c.ρ t = some true) : Leads whole (.opn t :: R) c R c := fun _ _ r => .enter h r

/-- the three lines behind the last branch of a chain -/
theorem leads_chainEnd {whole lbl K c} (h : afterLabel lbl whole = some K) : Leads whole (.cgoto lbl :: .close :: .clabel lbl :: K) c K c :=
  leads_jump h

theorem skip_chainEnd (lbl : String) (K : List BLine) : skipBlock 0 (.cgoto lbl :: .close :: .clabel lbl :: K) = some (.close :: .clabel lbl :: K) := by
  simp [skipBlock]

/-! ### the theorem -/

mutual
theorem sound_B {whole : List BLine} (hR : Resolves whole) {x : BCmd} {c : Cfg} {o : Out} {c1 : Cfg} (hx : ExecB x c o c1) (hw : wfB x = true)
    (ctx : LCtx) (P K : List BLine) (hp : whole = P ++ (flat ctx x ++ K)) : Cont whole ctx K o c1 (flat ctx x ++ K) c :=
  match x, c, o, c1, hx, hw, hp with
  | _, _, _, _, .simple (l := l) (o := o) (c := c) (c' := c1) hs, _, _ => by
    simp only [flat, List.cons_append, List.nil_append]
    cases o with
    | normal => exact fun _ _ r => .simple hs r
    | exit k => exact .exit hs
    | brk => cases l <;> simp [stepB] at hs <;> repeat (first | split at hs | simp at hs)
    | cont => cases l <;> simp [stepB] at hs <;> repeat (first | split at hs | simp at hs)
  | _, _, _, _, .guardedRun (n := n) (body := body) (c := c) hf hb, hw, hp => by
    simp only [wfB] at hw
    simp only [flat, List.cons_append, List.append_assoc, List.nil_append] at hp ⊢
    have ih := sound_Bs hR hb hw ctx (P ++ [.opn ("if defined " ++ flagName n ++ " (")]) (.close :: K) (by simp [hp])
    have ht : blockTest c.ρ ("if defined " ++ flagName n ++ " (") = some true := by
      rw [blockTest_defined]; simp [hf]
    exact Cont.pre (leads_enter ht) (Cont.post leads_close ih)
  | _, _, _, _, .guardedSkip (n := n) (body := body) (c := c) hf, hw, _ => by
    simp only [wfB] at hw
    simp only [flat, List.cons_append, List.append_assoc, List.nil_append]
    have ht : blockTest c.ρ ("if defined " ++ flagName n ++ " (") = some false := by
      rw [blockTest_defined]; simp [hf]
    have hs : skipBlock 0 (flats ctx body ++ .close :: K) = some (.close :: K) := by
      rw [skipBlock_flats ctx body hw]; simp [skipBlock]
    exact fun _ _ r => .skipToClose ht hs r
  | _, _, _, _, .chainTrue (lbl := lbl) (g := g) (thn := thn) (elifs := elifs) (els := els) (c := c) hg hb, hw, hp => by
    simp only [wfB, Bool.and_eq_true] at hw
    simp only [flat, List.cons_append, List.append_assoc, List.nil_append] at hp ⊢
    have hlbl : afterLabel lbl whole = some K :=
      hR (P ++ .opn (ifStartLine g) :: (flats ctx thn ++ (flatElifs ctx lbl elifs ++ (flatElse ctx lbl els ++ [.cgoto lbl, .close])))) lbl K (by simp [hp])
    have ih := sound_Bs hR hb hw.1.1 ctx (P ++ [.opn (ifStartLine g)])
      (flatElifs ctx lbl elifs ++ (flatElse ctx lbl els ++ .cgoto lbl :: .close :: .clabel lbl :: K)) (by simp [hp])
    have ht : blockTest c.ρ (ifStartLine g) = some true := by rw [blockTest_if]; exact hg
    refine Cont.pre (leads_enter ht) (Cont.post ?_ ih)
    -- whatever follows the first branch starts with `goto :lbl`
    cases elifs with
    | cons e rest => obtain ⟨g', b'⟩ := e; simp only [flatElifs, List.cons_append]; exact leads_jump hlbl
    | nil =>
      cases els with
      | some b => simp only [flatElifs, flatElse, List.cons_append, List.nil_append]; exact leads_jump hlbl
      | none => simp only [flatElifs, flatElse, List.nil_append]; exact leads_jump hlbl
  | _, _, _, _, .chainFalse (lbl := lbl) (g := g) (thn := thn) (elifs := elifs) (els := els) (c := c) hg he, hw, hp => by
    simp only [wfB, Bool.and_eq_true] at hw
    simp only [flat, List.cons_append, List.append_assoc, List.nil_append] at hp ⊢
    exact sound_Elifs hR he hw.1.2 hw.2 ctx lbl g thn (P ++ [.opn (ifStartLine g)]) K hw.1.1 hg (by simp [hp])
  | _, _, _, _, .loop (n := n) (pre := pre) (g := g) (body := body) (c := c) hl, hw, hp => by
    simp only [wfB, Bool.and_eq_true] at hw
    simp only [flat, List.cons_append, List.append_assoc, List.nil_append] at hp ⊢
    exact Cont.pre leads_label (sound_Loop hR hl hw.1 hw.2 ctx n P K hp)
  | _, _, _, _, .brk (c := c), _, _ => by
    simp only [flat, List.cons_append, List.nil_append]
    intro h e tgt hc ht
    subst hc
    exact leads_jump ht
  | _, _, _, _, .cont (c := c), _, _ => by
    simp only [flat, List.cons_append, List.nil_append]
    intro h e tgt hc ht
    subst hc
    exact leads_jump ht
termination_by structural hx
theorem sound_Bs {whole : List BLine} (hR : Resolves whole) {xs : List BCmd} {c : Cfg} {o : Out} {c1 : Cfg} (hx : ExecBs xs c o c1) (hw : wfBs xs = true)
    (ctx : LCtx) (P K : List BLine) (hp : whole = P ++ (flats ctx xs ++ K)) : Cont whole ctx K o c1 (flats ctx xs ++ K) c :=
  match xs, c, o, c1, hx, hw, hp with
  | _, _, _, _, .nil, _, _ => by simp only [flats, List.nil_append]; exact Leads.refl
  | _, _, _, _, .cons (x := x) (xs := xs) a b, hw, hp => by
    simp only [wfBs, Bool.and_eq_true] at hw
    simp only [flats, List.append_assoc] at hp ⊢
    have i1 := sound_B hR a hw.1 ctx P (flats ctx xs ++ K) hp
    have i2 := sound_Bs hR b hw.2 ctx (P ++ flat ctx x) K (by simp [hp])
    exact Cont.pre i1 i2
  | _, _, _, _, .stop (x := x) (xs := xs) a hne, hw, hp => by
    simp only [wfBs, Bool.and_eq_true] at hw
    simp only [flats, List.append_assoc] at hp ⊢
    exact Cont.abrupt hne (sound_B hR a hw.1 ctx P (flats ctx xs ++ K) hp)
termination_by structural hx
theorem sound_Elifs {whole : List BLine} (hR : Resolves whole) {es : List (String × List BCmd)} {els : Option (List BCmd)} {c : Cfg} {o : Out} {c1 : Cfg}
    (hx : ExecElifsB es els c o c1) (hwe : wfElifs es = true) (hwl : wfElse els = true)
    (ctx : LCtx) (lbl g0 : String) (thn0 : List BCmd) (P K : List BLine) (hw0 : wfBs thn0 = true) (hg0 : guardB c.ρ g0 = some false)
    (hp : whole = P ++ (flats ctx thn0 ++ (flatElifs ctx lbl es ++ (flatElse ctx lbl els ++ .cgoto lbl :: .close :: .clabel lbl :: K)))) :
    Cont whole ctx K o c1 (.opn (ifStartLine g0) :: (flats ctx thn0 ++ (flatElifs ctx lbl es ++ (flatElse ctx lbl els ++ .cgoto lbl :: .close :: .clabel lbl :: K)))) c :=
  have ht0 : blockTest c.ρ (ifStartLine g0) = some false := by rw [blockTest_if]; exact hg0
  have hlbl : afterLabel lbl whole = some K :=
    hR (P ++ (flats ctx thn0 ++ (flatElifs ctx lbl es ++ (flatElse ctx lbl els ++ [.cgoto lbl, .close])))) lbl K (by simp [hp])
  match es, els, c, o, c1, hx, hwe, hwl, hg0, ht0, hp, hlbl with
  | _, _, _, _, _, .none, _, _, _, ht0, _, _ => by
    simp only [flatElifs, flatElse, List.nil_append]
    have hs : skipBlock 0 (flats ctx thn0 ++ .cgoto lbl :: .close :: .clabel lbl :: K) = some (.close :: .clabel lbl :: K) := by
      rw [skipBlock_flats ctx thn0 hw0]; exact skip_chainEnd lbl K
    exact fun _ _ r => .skipToClose ht0 hs (.label r)
  | _, _, _, _, _, .els (b := b) hb, _, hwl, _, ht0, hp, hlbl => by
    simp only [wfElse] at hwl
    simp only [flatElifs, flatElse, List.nil_append, List.cons_append] at hp ⊢
    have hs : skipBlock 0 (flats ctx thn0 ++ .cgoto lbl :: .elseOpen :: (flats ctx b ++ .cgoto lbl :: .close :: .clabel lbl :: K))
        = some (.elseOpen :: (flats ctx b ++ .cgoto lbl :: .close :: .clabel lbl :: K)) := by
      rw [skipBlock_flats ctx thn0 hw0]; simp [skipBlock]
    have ih := sound_Bs hR hb hwl ctx (P ++ (flats ctx thn0 ++ [.cgoto lbl, .elseOpen]))
      (.cgoto lbl :: .close :: .clabel lbl :: K) (by simp [hp])
    exact Cont.pre (fun _ _ r => .skipToElse ht0 hs r) (Cont.post (leads_chainEnd hlbl) ih)
  | _, _, _, _, _, .hit (g := g) (b := b) (rest := rest) (els := els) (c := c) hg hb, hwe, _, _, ht0, hp, hlbl => by
    simp only [wfElifs, Bool.and_eq_true] at hwe
    simp only [flatElifs, List.cons_append, List.append_assoc] at hp ⊢
    have hs : skipBlock 0 (flats ctx thn0 ++ .cgoto lbl :: .elseIfOpen (ifStartLine g) ::
          (flats ctx b ++ (flatElifs ctx lbl rest ++ (flatElse ctx lbl els ++ .cgoto lbl :: .close :: .clabel lbl :: K))))
        = some (.elseIfOpen (ifStartLine g) :: (flats ctx b ++ (flatElifs ctx lbl rest ++ (flatElse ctx lbl els ++ .cgoto lbl :: .close :: .clabel lbl :: K)))) := by
      rw [skipBlock_flats ctx thn0 hw0]; simp [skipBlock]
    have ht : blockTest c.ρ (ifStartLine g) = some true := by rw [blockTest_if]; exact hg
    have ih := sound_Bs hR hb hwe.1 ctx (P ++ (flats ctx thn0 ++ [.cgoto lbl, .elseIfOpen (ifStartLine g)]))
      (flatElifs ctx lbl rest ++ (flatElse ctx lbl els ++ .cgoto lbl :: .close :: .clabel lbl :: K)) (by simp [hp])
    refine Cont.pre (fun _ _ r => .skipToElseIf ht0 hs (.enter ht r)) (Cont.post ?_ ih)
    cases rest with
    | cons e rest => obtain ⟨g', b'⟩ := e; simp only [flatElifs, List.cons_append]; exact leads_jump hlbl
    | nil =>
      cases els with
      | some b => simp only [flatElifs, flatElse, List.cons_append, List.nil_append]; exact leads_jump hlbl
      | none => simp only [flatElifs, flatElse, List.nil_append]; exact leads_jump hlbl
  | _, _, _, _, _, .miss (g := g) (b := b) (rest := rest) (els := els) (c := c) hg he, hwe, hwl, _, ht0, hp, _ => by
    simp only [wfElifs, Bool.and_eq_true] at hwe
    simp only [flatElifs, List.cons_append, List.append_assoc] at hp ⊢
    have hs : skipBlock 0 (flats ctx thn0 ++ .cgoto lbl :: .elseIfOpen (ifStartLine g) ::
          (flats ctx b ++ (flatElifs ctx lbl rest ++ (flatElse ctx lbl els ++ .cgoto lbl :: .close :: .clabel lbl :: K))))
        = some (.elseIfOpen (ifStartLine g) :: (flats ctx b ++ (flatElifs ctx lbl rest ++ (flatElse ctx lbl els ++ .cgoto lbl :: .close :: .clabel lbl :: K)))) := by
      rw [skipBlock_flats ctx thn0 hw0]; simp [skipBlock]
    -- the `) else if … (` line is read as the opening line of its own test
    have ih := sound_Elifs hR he hwe.2 hwl ctx lbl g b (P ++ (flats ctx thn0 ++ [.cgoto lbl, .elseIfOpen (ifStartLine g)])) K hwe.1 hg (by simp [hp])
    exact Cont.pre (fun _ _ r => .skipToElseIf ht0 hs r) ih
termination_by structural hx
theorem sound_Loop {whole : List BLine} (hR : Resolves whole) {pre : List BCmd} {g : String} {body : List BCmd} {c : Cfg} {o : Out} {c1 : Cfg}
    (hx : ExecLoopB pre g body c o c1) (hwp : wfBs pre = true) (hwb : wfBs body = true)
    (ctx : LCtx) (n : Nat) (P K : List BLine)
    (hp : whole = P ++ .clabel (forLabel n) :: (flats (some (forLabel n, endLabel n)) pre ++
      (.opn (ifStartLine g) :: (flats (some (forLabel n, endLabel n)) body ++ .cgoto (forLabel n) :: .close :: .clabel (endLabel n) :: K)))) :
    Cont whole ctx K o c1 (flats (some (forLabel n, endLabel n)) pre ++
      (.opn (ifStartLine g) :: (flats (some (forLabel n, endLabel n)) body ++ .cgoto (forLabel n) :: .close :: .clabel (endLabel n) :: K))) c :=
  have hf : afterLabel (forLabel n) whole = some (flats (some (forLabel n, endLabel n)) pre ++
      (.opn (ifStartLine g) :: (flats (some (forLabel n, endLabel n)) body ++ .cgoto (forLabel n) :: .close :: .clabel (endLabel n) :: K))) := hR P _ _ hp
  have he : afterLabel (endLabel n) whole = some K :=
    hR (P ++ .clabel (forLabel n) :: (flats (some (forLabel n, endLabel n)) pre ++
      (.opn (ifStartLine g) :: (flats (some (forLabel n, endLabel n)) body ++ [.cgoto (forLabel n), .close])))) _ K (by simp [hp])
  have hs : skipBlock 0 (flats (some (forLabel n, endLabel n)) body ++ .cgoto (forLabel n) :: .close :: .clabel (endLabel n) :: K)
      = some (.close :: .clabel (endLabel n) :: K) := by
    rw [skipBlock_flats _ body hwb]; simp [skipBlock]
  match pre, g, body, c, o, c1, hx, hwp, hwb, hp, hf, he, hs with
  | _, _, _, _, _, _, .done (pre := pre) (g := g) (body := body) (c1 := c1) p hg, hwp, _, hp, _, _, hs => by
    have ipre := sound_Bs hR p hwp (some (forLabel n, endLabel n)) (P ++ [.clabel (forLabel n)]) _ (by simpa using hp)
    have ht : blockTest c1.ρ (ifStartLine g) = some false := by rw [blockTest_if]; exact hg
    exact Leads.trans ipre (fun _ _ r => .skipToClose ht hs (.label r))
  | _, _, _, _, _, _, .next (pre := pre) (g := g) (body := body) (c1 := c1) (c2 := c2) p hg b rec, hwp, hwb, hp, hf, _, _ => by
    have ipre := sound_Bs hR p hwp (some (forLabel n, endLabel n)) (P ++ [.clabel (forLabel n)]) _ (by simpa using hp)
    have ht : blockTest c1.ρ (ifStartLine g) = some true := by rw [blockTest_if]; exact hg
    have ibody := sound_Bs hR b hwb (some (forLabel n, endLabel n))
      (P ++ .clabel (forLabel n) :: (flats (some (forLabel n, endLabel n)) pre ++ [.opn (ifStartLine g)]))
      (.cgoto (forLabel n) :: .close :: .clabel (endLabel n) :: K) (by simp [hp])
    have irec := sound_Loop hR rec hwp hwb ctx n P K hp
    exact Cont.pre (Leads.trans ipre (Leads.trans (leads_enter ht) (Leads.trans ibody (leads_jump hf)))) irec
  | _, _, _, _, _, _, .cont (pre := pre) (g := g) (body := body) (c1 := c1) (c2 := c2) p hg b rec, hwp, hwb, hp, hf, _, _ => by
    have ipre := sound_Bs hR p hwp (some (forLabel n, endLabel n)) (P ++ [.clabel (forLabel n)]) _ (by simpa using hp)
    have ht : blockTest c1.ρ (ifStartLine g) = some true := by rw [blockTest_if]; exact hg
    have ibody := sound_Bs hR b hwb (some (forLabel n, endLabel n))
      (P ++ .clabel (forLabel n) :: (flats (some (forLabel n, endLabel n)) pre ++ [.opn (ifStartLine g)]))
      (.cgoto (forLabel n) :: .close :: .clabel (endLabel n) :: K) (by simp [hp])
    have irec := sound_Loop hR rec hwp hwb ctx n P K hp
    exact Cont.pre (Leads.trans ipre (Leads.trans (leads_enter ht) (ibody _ _ _ rfl hf))) irec
  | _, _, _, _, _, _, .brk (pre := pre) (g := g) (body := body) (c1 := c1) p hg b, hwp, hwb, hp, _, he, _ => by
    have ipre := sound_Bs hR p hwp (some (forLabel n, endLabel n)) (P ++ [.clabel (forLabel n)]) _ (by simpa using hp)
    have ht : blockTest c1.ρ (ifStartLine g) = some true := by rw [blockTest_if]; exact hg
    have ibody := sound_Bs hR b hwb (some (forLabel n, endLabel n))
      (P ++ .clabel (forLabel n) :: (flats (some (forLabel n, endLabel n)) pre ++ [.opn (ifStartLine g)]))
      (.cgoto (forLabel n) :: .close :: .clabel (endLabel n) :: K) (by simp [hp])
    exact Leads.trans ipre (Leads.trans (leads_enter ht) (ibody _ _ _ rfl he))
  | _, _, _, _, _, _, .exit (pre := pre) (g := g) (body := body) (c1 := c1) p hg b, hwp, hwb, hp, _, _, _ => by
    have ipre := sound_Bs hR p hwp (some (forLabel n, endLabel n)) (P ++ [.clabel (forLabel n)]) _ (by simpa using hp)
    have ht : blockTest c1.ρ (ifStartLine g) = some true := by rw [blockTest_if]; exact hg
    have ibody := sound_Bs hR b hwb (some (forLabel n, endLabel n))
      (P ++ .clabel (forLabel n) :: (flats (some (forLabel n, endLabel n)) pre ++ [.opn (ifStartLine g)]))
      (.cgoto (forLabel n) :: .close :: .clabel (endLabel n) :: K) (by simp [hp])
    exact ipre _ _ (.enter ht ibody)
termination_by structural hx
end

end Tsh.SemB
