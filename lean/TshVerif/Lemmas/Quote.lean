/-
  Quoting: a model of how bash reads the text after an opening double quote (Bash Reference Manual
  3.1.2.3 "Double Quotes"), and the proof that the literal escaping of the bash converter
  (`stringToString` = `StringToString` in converters/bash/converter.go) is inverted by it.
-/
import TshVerif.Model.ConvBash
namespace Tsh.Bash
open Tsh

inductive DqRes
  | ok (val rest : List Char)     -- the quoted text as bash sees it, and the input after the closing quote
  | expands                        -- an unescaped `$` or backquote starts an expansion / command substitution
  | unterminated
deriving DecidableEq, Repr

/-- `dqScan acc input`: `input` is what follows an opening `"`.  Inside double quotes the backslash
    keeps its special meaning only before `$`, backquote, `"`, `\` and newline (backslash-newline is
    removed); every other character stands for itself, except `$` and backquote. -/
def dqScan : List Char → List Char → DqRes
  | _, [] => .unterminated
  | acc, c :: rest =>
    if c == '"' then .ok acc rest
    else if c == '\\' then
      match rest with
      | [] => .unterminated
      | d :: rest' =>
        if d == '\\' || d == '"' || d == '$' || d == '`' then dqScan (acc ++ [d]) rest'
        else if d == '\n' then dqScan acc rest'
        else dqScan (acc ++ ['\\', d]) rest'
    else if c == '$' || c == '`' then .expands
    else dqScan (acc ++ [c]) rest

def plainChar (c : Char) : Bool := c != '$' && c != '`'

theorem dqScan_quote (acc rest : List Char) : dqScan acc ('"' :: rest) = .ok acc rest := by
  rw [dqScan.eq_def]; simp

theorem dqScan_bs_bs (acc rest : List Char) : dqScan acc ('\\' :: '\\' :: rest) = dqScan (acc ++ ['\\']) rest := by
  rw [dqScan.eq_def]; simp

theorem dqScan_bs_quote (acc rest : List Char) : dqScan acc ('\\' :: '"' :: rest) = dqScan (acc ++ ['"']) rest := by
  rw [dqScan.eq_def]; simp

theorem dqScan_plain (acc rest : List Char) (c : Char) (h1 : c ≠ '"') (h2 : c ≠ '\\') (h3 : c ≠ '$') (h4 : c ≠ '`') :
    dqScan acc (c :: rest) = dqScan (acc ++ [c]) rest := by
  rw [dqScan.eq_def]; simp [h1, h2, h3, h4]

theorem dqScan_dollar (acc rest : List Char) : dqScan acc ('$' :: rest) = .expands := by
  rw [dqScan.eq_def]; simp

theorem dqScan_backquote (acc rest : List Char) : dqScan acc ('`' :: rest) = .expands := by
  rw [dqScan.eq_def]; simp

/-- **Escaping is inverted by the shell's double-quote rules**: for every text without `$` and
    backquote, what bash reads between the quotes is the original text, and it stops exactly at
    the closing quote the converter wrote. -/
theorem dq_roundtrip : ∀ (s acc rest : List Char), (∀ c ∈ s, plainChar c = true) →
    dqScan acc (s.flatMap escChar ++ '"' :: rest) = .ok (acc ++ s) rest := by
  intro s
  induction s with
  | nil => intro acc rest _; simp [dqScan_quote]
  | cons c s ih =>
    intro acc rest h
    have hc : plainChar c = true := h c (by simp)
    have hs : ∀ d ∈ s, plainChar d = true := fun d hd => h d (by simp [hd])
    simp only [plainChar, Bool.and_eq_true, bne_iff_ne, ne_eq] at hc
    by_cases h1 : c = '\\'
    · subst h1
      simp [escChar, dqScan_bs_bs, ih _ _ hs]
    · by_cases h2 : c = '"'
      · subst h2
        simp [escChar, dqScan_bs_quote, ih _ _ hs]
      · simp [escChar, h1, h2, dqScan_plain _ _ c h2 h1 hc.1 hc.2, ih _ _ hs]

/-- the other direction of the known limitation: a literal that contains `$` or a backquote is NOT
    opaque -- bash starts an expansion at the first such character -/
theorem dq_dollar_expands : ∀ (s acc rest : List Char), (∃ c ∈ s, plainChar c = false) →
    dqScan acc (s.flatMap escChar ++ rest) = .expands := by
  intro s
  induction s with
  | nil => intro acc rest h; simp at h
  | cons c s ih =>
    intro acc rest h
    by_cases hc : plainChar c = true
    · have hs : ∃ d ∈ s, plainChar d = false := by
        obtain ⟨d, hd, hp⟩ := h
        simp at hd
        rcases hd with rfl | hd
        · simp [hc] at hp
        · exact ⟨d, hd, hp⟩
      simp only [plainChar, Bool.and_eq_true, bne_iff_ne, ne_eq] at hc
      by_cases h1 : c = '\\'
      · subst h1; simp [escChar, dqScan_bs_bs, ih _ _ hs]
      · by_cases h2 : c = '"'
        · subst h2; simp [escChar, dqScan_bs_quote, ih _ _ hs]
        · simp [escChar, h1, h2, dqScan_plain _ _ c h2 h1 hc.1 hc.2, ih _ _ hs]
    · have : c = '$' ∨ c = '`' := by
        by_cases h3 : c = '$'
        · exact Or.inl h3
        · by_cases h4 : c = '`'
          · exact Or.inr h4
          · exact absurd (by simp [plainChar, h3, h4]) hc
      rcases this with rfl | rfl
      · simp [escChar, dqScan_dollar]
      · simp [escChar, dqScan_backquote]

theorem stringToString_toList (s : String) : (stringToString s).toList = s.toList.flatMap escChar := by
  simp [stringToString]

/-- escaping distributes over concatenation: joining escaped values is escaping the joined value -/
theorem stringToString_append (a b : String) : stringToString (a ++ b) = stringToString a ++ stringToString b := by
  apply String.toList_inj.mp
  simp [stringToString_toList, String.toList_append]

def plainString (s : String) : Bool := s.toList.all plainChar

theorem stringToString_roundtrip (s : String) (rest : List Char) (h : plainString s = true) :
    dqScan [] ((stringToString s).toList ++ '"' :: rest) = .ok s.toList rest := by
  rw [stringToString_toList]
  have := dq_roundtrip s.toList [] rest (by simpa [plainString] using h)
  simpa using this


/-! ### words of a simple command line -/

/-- characters that may appear unquoted in a word without any special meaning -/
def bareChar (c : Char) : Bool := c.isAlphanum || c == '_' || c == '-' || c == '.' || c == '/'

/-- One-pass model of how bash splits a simple command line into words: blanks separate words
    outside quotes, a word is a run of bare characters and double-quoted parts; inside quotes the
    rules of `dqScan` apply.  `none` = the line uses something this model does not cover (an
    expansion, another metacharacter, an unterminated quote). -/
def shSplit : Bool → Option (List Char) → List Char → Option (List (List Char))
  | false, cur, [] => some cur.toList
  | true, _, [] => none
  | false, cur, c :: rest =>
      if c == ' ' then
        match cur with
        | none => shSplit false none rest
        | some w => (shSplit false none rest).map (w :: ·)
      else if c == '"' then shSplit true (some (cur.getD [])) rest
      else if bareChar c then shSplit false (some (cur.getD [] ++ [c])) rest
      else none
  | true, cur, c :: rest =>
      if c == '"' then shSplit false cur rest
      else if c == '\\' then
        match rest with
        | [] => none
        | d :: rest' =>
          if d == '\\' || d == '"' || d == '$' || d == '`' then shSplit true (some (cur.getD [] ++ [d])) rest'
          else if d == '\n' then shSplit true cur rest'
          else shSplit true (some (cur.getD [] ++ ['\\', d])) rest'
      else if c == '$' || c == '`' then none
      else shSplit true (some (cur.getD [] ++ [c])) rest

/-- inside quotes the word splitter follows `dqScan` -/
theorem shSplit_inq (acc txt : List Char) : ∀ (v rest : List Char), dqScan acc txt = .ok v rest →
    shSplit true (some acc) txt = shSplit false (some v) rest := by
  induction acc, txt using dqScan.induct with
  | case1 x => intro v rest h; rw [dqScan.eq_def] at h; simp at h
  | case2 acc c rest hc =>
    intro v r h
    rw [dqScan.eq_def] at h; simp [hc] at h
    obtain ⟨rfl, rfl⟩ := h
    rw [shSplit.eq_def]; simp [hc]
  | case3 acc c h1 h2 => intro v rest h; rw [dqScan.eq_def] at h; simp [h1, h2] at h
  | case4 acc c h1 h2 d rest' hd ih =>
    intro v rest h
    rw [dqScan.eq_def] at h; simp only [h1, h2, hd] at h
    rw [shSplit.eq_def]; simp only [h1, h2, hd]
    simpa using ih v rest (by simpa using h)
  | case5 acc c h1 h2 d rest' hd hn ih =>
    intro v rest h
    rw [dqScan.eq_def] at h; simp only [h1, h2, hd, hn] at h
    rw [shSplit.eq_def]; simp only [h1, h2, hd, hn]
    simpa using ih v rest (by simpa using h)
  | case6 acc c h1 h2 d rest' hd hn ih =>
    intro v rest h
    rw [dqScan.eq_def] at h; simp only [h1, h2, hd, hn] at h
    rw [shSplit.eq_def]; simp only [h1, h2, hd, hn]
    simpa using ih v rest (by simpa using h)
  | case7 acc c rest h1 h2 h3 => intro v r h; rw [dqScan.eq_def] at h; simp [h1, h2, h3] at h
  | case8 acc c rest h1 h2 h3 ih =>
    intro v r h
    rw [dqScan.eq_def] at h; simp only [h1, h2, h3] at h
    rw [shSplit.eq_def]; simp only [h1, h2, h3]
    simpa using ih v r (by simpa using h)

theorem bare_ne (c : Char) (h : bareChar c = true) : (c == ' ') = false ∧ (c == '"') = false := by
  constructor
  · cases hc : c == ' ' with
    | false => rfl
    | true => simp at hc; subst hc; simp [bareChar, Char.isAlphanum, Char.isAlpha, Char.isUpper, Char.isLower, Char.isDigit] at h
  · cases hc : c == '"' with
    | false => rfl
    | true => simp at hc; subst hc; simp [bareChar, Char.isAlphanum, Char.isAlpha, Char.isUpper, Char.isLower, Char.isDigit] at h

theorem shSplit_bare_step (cur : Option (List Char)) (c : Char) (rest : List Char) (h : bareChar c = true) :
    shSplit false cur (c :: rest) = shSplit false (some (cur.getD [] ++ [c])) rest := by
  obtain ⟨h1, h2⟩ := bare_ne c h
  rw [shSplit.eq_def]; simp [h1, h2, h]

theorem shSplit_bare : ∀ (name cur rest : List Char), (∀ c ∈ name, bareChar c = true) →
    shSplit false (some cur) (name ++ rest) = shSplit false (some (cur ++ name)) rest := by
  intro name
  induction name with
  | nil => intro cur rest _; simp
  | cons c name ih =>
    intro cur rest h
    rw [List.cons_append, shSplit_bare_step _ _ _ (h c (by simp))]
    simp only [Option.getD_some]
    rw [ih _ _ (fun d hd => h d (by simp [hd]))]
    simp

/-- the text of the quoted arguments of a command: ` "a1" "a2" …` (each `a` already escaped) -/
def quotedRaw (args : List (List Char)) : List Char := args.flatMap fun a => ' ' :: '"' :: (a ++ ['"'])

theorem shSplit_end (w : List Char) : shSplit false (some w) [] = some [w] := by
  rw [shSplit.eq_def]; simp

theorem shSplit_args : ∀ (args : List (List Char)) (w : List Char), (∀ a ∈ args, ∀ c ∈ a, plainChar c = true) →
    shSplit false (some w) (quotedRaw (args.map (·.flatMap escChar))) = some (w :: args) := by
  intro args
  induction args with
  | nil => intro w _; simp [quotedRaw, shSplit_end]
  | cons a args ih =>
    intro w h
    have e : quotedRaw ((a :: args).map (·.flatMap escChar)) =
        ' ' :: '"' :: (a.flatMap escChar ++ '"' :: quotedRaw (args.map (·.flatMap escChar))) := by
      simp [quotedRaw]
    rw [e, shSplit.eq_def]
    simp only [beq_self_eq_true, if_true]
    rw [shSplit.eq_def]
    simp only [show ('"' == ' ') = false by decide, Bool.false_eq_true, if_false, beq_self_eq_true, if_true, Option.getD_none]
    rw [shSplit_inq [] _ a _ (by simpa using dq_roundtrip a [] _ (h a (by simp)))]
    rw [ih a (fun b hb => h b (by simp [hb]))]
    simp

/-- **A command line is read back as exactly the program name and the given arguments**: for every
    bare program name and every list of argument texts without `$` / backquote -- empty strings,
    blanks, quotes, backslashes, glob characters, leading dashes included -- bash's word splitting
    of `name "a1" … "an"` (arguments escaped by `stringToString`) yields `name, a1, …, an`:
    exactly n arguments, byte for byte. -/
theorem words_of_command (name : List Char) (args : List (List Char)) (hn : name ≠ [])
    (hb : ∀ c ∈ name, bareChar c = true) (ha : ∀ a ∈ args, ∀ c ∈ a, plainChar c = true) :
    shSplit false none (name ++ quotedRaw (args.map (·.flatMap escChar))) = some (name :: args) := by
  cases name with
  | nil => exact absurd rfl hn
  | cons c name =>
    rw [List.cons_append, shSplit_bare_step _ _ _ (hb c (by simp))]
    simp only [Option.getD_none, List.nil_append]
    rw [shSplit_bare name [c] _ (fun d hd => hb d (by simp [hd]))]
    simpa using shSplit_args args (c :: name) ha

end Tsh.Bash
