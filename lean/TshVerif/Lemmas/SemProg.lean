/-
  Assembly: if-chains, loops and blocks of the scalar fragment, by induction over the AST.
-/
import TshVerif.Lemmas.SemAssign
namespace Tsh.Sem
open Tsh Tsh.Tr Tsh.Bash

theorem St.ext' {a b : St} (h1 : a.startCode = b.startCode) (h2 : a.code = b.code) (h3 : a.varCounter = b.varCounter)
    (h4 : a.forCounter = b.forCounter) (h5 : a.fors = b.fors) (h6 : a.funcs = b.funcs) (h7 : a.funcCounter = b.funcCounter)
    (h8 : a.sahReq = b.sahReq) (h9 : a.schReq = b.schReq) (h10 : a.sshReq = b.sshReq) : a = b := by
  cases a; cases b; simp_all

theorem flats_simples_reverse (ls : List Line) : flats ((ls.map Cmd.simple).reverse) = ls.reverse := by
  rw [← List.map_reverse, flats_simples]

/-- sequencing -/
theorem stmtSem_seq {src1 src2 src : Nat → Src.SCfg → Option (Out × Src.SCfg)} {s s1 s2 : St}
    (h1 : StmtSem src1 s s1) (h2 : StmtSem src2 s1 s2)
    (hsrc : ∀ fuel c o c', src fuel c = some (o, c') →
      (∃ f1, src1 f1 c = some (o, c') ∧ o ≠ .normal) ∨
      (∃ f1 f2 c1, src1 f1 c = some (.normal, c1) ∧ src2 f2 c1 = some (o, c'))) :
    StmtSem src s s2 := by
  have hfc := h1.forCounter
  obtain ⟨cs1, n1, m1, e1, sim1⟩ := h1
  obtain ⟨cs2, n2, m2, e2, sim2⟩ := h2
  refine ⟨cs1 ++ cs2, n1 + n2, m1 + m2, ?_, ?_⟩
  · rw [e2, e1, adv2_adv2, flats_append, List.reverse_append]
  · intro fuel c o c' hs ρ ha
    rcases hsrc fuel c o c' hs with ⟨f1, hs1, hne⟩ | ⟨f1, f2, c1, hs1, hs2⟩
    · obtain ⟨ρ', ex, ha', ff⟩ := sim1 f1 c o c' hs1 ρ ha
      exact ⟨ρ', execCmds_stop_append cs2 ex hne, ha', ff⟩
    · obtain ⟨ρ1, ex1, ha1, ff1⟩ := sim1 f1 c _ c1 hs1 ρ ha
      obtain ⟨ρ', ex2, ha', ff2⟩ := sim2 f2 c1 o c' hs2 ρ1 ha1
      exact ⟨ρ', execCmds_append ex1 ex2, ha', ff1.trans ff2 hfc⟩

theorem stmtSem_nil (s : St) : StmtSem (fun f c => Src.execStmts f [] c) s s := by
  refine ⟨[], 0, 0, rfl, ?_⟩
  intro fuel c o c' hs ρ ha
  cases fuel with
  | zero => simp [Src.execStmts] at hs
  | succ f =>
    simp only [Src.execStmts, Option.some.injEq, Prod.mk.injEq] at hs
    obtain ⟨rfl, rfl⟩ := hs
    exact ⟨ρ, ExecCmds.nil, ha, FlagFrame.refl _ _⟩

theorem execStmts_cons_cases {fuel : Nat} {st : Stmt} {rest : List Stmt} {c c' : Src.SCfg} {o : Out}
    (h : Src.execStmts fuel (st :: rest) c = some (o, c')) :
    (∃ f1, Src.execStmt f1 st c = some (o, c') ∧ o ≠ .normal) ∨
    (∃ f1 f2 c1, Src.execStmt f1 st c = some (.normal, c1) ∧ Src.execStmts f2 rest c1 = some (o, c')) := by
  cases fuel with
  | zero => simp [Src.execStmts] at h
  | succ f =>
    simp only [Src.execStmts] at h
    split at h
    · rename_i c1 h1
      exact Or.inr ⟨f, f, c1, h1, h⟩
    · rename_i r hr
      cases hx : Src.execStmt f st c with
      | none => rw [hx] at h; simp at h
      | some p =>
        obtain ⟨o1, c1⟩ := p
        rw [hx] at h
        simp only [Option.some.injEq, Prod.mk.injEq] at h
        obtain ⟨rfl, rfl⟩ := h
        refine Or.inl ⟨f, hx, ?_⟩
        intro e; subst e
        exact hr c1 hx

/-! ### conditions of the else-if branches -/

theorem conds_sem : ∀ (elifs : List (Expr × List Stmt)) (s : St) (ecs : List String) (s' : St),
    (elifs.all (fun p => Src.fragExpr p.1)) = true → s.funcs = [] →
    evalConds conv elifs s = .ok (ecs, s') → ∃ new n, s' = adv s new n ∧ ecs.length = elifs.length ∧
      ∀ env bs, Src.evalConds env elifs = some bs → ∀ ρ out, Agree env ρ →
        ∃ ρ', runLines new.reverse ⟨ρ, out⟩ = some ⟨ρ', out⟩ ∧
          FrameH s.varCounter (s.varCounter + n) ρ ρ' ∧ HoldsAll ecs (bs.map boolStr) (s.varCounter + n) ρ'
  | [], s, ecs, s', _, _, h => by
    unfold evalConds at h
    obtain ⟨ev, es⟩ := pure_ok h
    subst ev
    refine ⟨[], 0, es, rfl, ?_⟩
    intro env bs hs ρ out _
    simp only [Src.evalConds, Option.some.injEq] at hs
    subst hs
    exact ⟨ρ, rfl, FrameH.refl _ _ ρ, trivial⟩
  | (cnd, body) :: rest, s, ecs, s', hf, h0, h => by
    unfold evalConds at h
    simp only [List.all_cons, Bool.and_eq_true] at hf
    obtain ⟨r, s1, h1, h⟩ := bind_ok h
    obtain ⟨rs, s2, h2, h⟩ := bind_ok h
    obtain ⟨ev, es⟩ := pure_ok h
    obtain ⟨t, new1, n1, er, e1⟩ := expr_shape cnd true s r s1 hf.1 h0 h1
    subst er; subst e1
    have h01 : (adv s new1 n1).funcs = [] := h0
    obtain ⟨new2, n2, e2, hlen, sem2⟩ := conds_sem rest (adv s new1 n1) rs s2 hf.2 h01 h2
    subst e2
    refine ⟨new2 ++ new1, n1 + n2, by rw [es, adv_adv], by subst ev; simp [hlen], ?_⟩
    intro env bs hs ρ out ha
    simp only [Src.evalConds] at hs
    split at hs
    · rename_i b bs' hv hvs
      simp only [Option.some.injEq] at hs
      subst hs
      obtain ⟨ρ1, run1, fr1, hold1⟩ := (expr_sem cnd true s [t] (adv s new1 n1) env _ h0 h1 hv).at ρ out ha
      obtain ⟨ρ2, run2, fr2, hold2⟩ := sem2 env bs' hvs ρ1 out (fr1.agree ha)
      simp only [adv_varCounter] at fr2 hold2
      have e3 : s.varCounter + (n1 + n2) = s.varCounter + n1 + n2 := by omega
      refine ⟨ρ2, ?_, ?_, ?_⟩
      · rw [List.reverse_append, runLines_append, run1]
        simp only [Option.bind]
        exact run2
      · rw [e3]; exact fr1.trans fr2 (by omega) (by omega)
      · subst ev
        rw [e3]
        exact ⟨hold1.frame (by omega) fr2, hold2⟩
    · simp at hs

/-! ### guards -/

theorem guard_of_holds {w t : String} {b : Bool} {k : Nat} {ρ : Store} (h : Holds t (boolStr b) k ρ) :
    guard ρ (.ifStart w t) = some b := by
  simp only [guard, expandInt_bool h]
  cases b <;> simp

/-- the else-if guards read as the condition values -/
def GuardVals : List String → List Bool → Store → Prop
  | [], [], _ => True
  | t :: ts, b :: bs, ρ => guard ρ (.ifStart "elif" t) = some b ∧ GuardVals ts bs ρ
  | _, _, _ => False

theorem guardVals_of_holdsAll : ∀ {ts : List String} {bs : List Bool} {k : Nat} {ρ : Store},
    HoldsAll ts (bs.map boolStr) k ρ → GuardVals ts bs ρ
  | [], [], _, _, _ => trivial
  | _ :: _, _ :: _, _, _, h => ⟨guard_of_holds h.1, guardVals_of_holdsAll h.2⟩
  | [], _ :: _, _, _, h => h.elim
  | _ :: _, [], _, _, h => h.elim

/-- the else part, as `ExecElifs` sees it at the end of the chain -/
def ElseSim (els : List Stmt) (t : Option (List Cmd)) (k : Nat) : Prop :=
  ∀ fuel c o c', Src.execStmts fuel els c = some (o, c') → ∀ ρ, Agree c.env ρ →
    ∃ ρ', ExecElifs [] t ⟨ρ, c.out⟩ o ⟨ρ', c'.out⟩ ∧ Agree c'.env ρ' ∧ FlagFrame k ρ ρ'

theorem agree_set_flag {env : Src.Env} {ρ : Store} (n : Nat) (v : String) (h : Agree env ρ) : Agree env (ρ.set (flagName n) v) := by
  intro x w hx
  obtain ⟨hg, hv⟩ := h x w hx
  exact ⟨hg, by rw [set_other _ _ _ _ (good_ne_flag x n hg)]; exact hv⟩

/-- the loop flag as the increment block needs it -/
def FlagOK (incr : Option Stmt) (n : Nat) (ρ : Store) : Prop :=
  match incr with
  | some _ => ρ (flagName n) = "1"
  | none => True

theorem flagOK_congr (incr : Option Stmt) (n : Nat) (ρ ρ' : Store) (h : ρ' (flagName n) = ρ (flagName n)) (hf : FlagOK incr n ρ) :
    FlagOK incr n ρ' := by
  cases incr with
  | none => trivial
  | some i => simp only [FlagOK] at hf ⊢; rw [h]; exact hf

/-- what the increment part of a loop body does -/
def IncrSim (incr : Option Stmt) (P : List Cmd) (n : Nat) : Prop :=
  (∀ fuel cb c2, srcIncr incr fuel cb = some (.normal, c2) → ∀ ρ, Agree cb.env ρ → FlagOK incr n ρ →
    ∃ ρ5, ExecCmds P ⟨ρ, cb.out⟩ .normal ⟨ρ5, c2.out⟩ ∧ Agree c2.env ρ5 ∧ FlagOK incr n ρ5 ∧ FlagFrame n ρ ρ5) ∧
  (∀ ρ0 out, ρ0 (flagName n) = "" →
    ∃ ρ1, ExecCmds P ⟨ρ0, out⟩ .normal ⟨ρ1, out⟩ ∧ FlagOK incr n ρ1 ∧ ∀ x, x ≠ flagName n → ρ1 x = ρ0 x)

/-! ### source-side unfoldings -/

theorem src_assign1 {x : Var} {e : Expr} {fuel : Nat} {c c' : Src.SCfg} {o : Out}
    (hs : Src.execStmt fuel (.assign [x] [e]) c = some (o, c')) :
    ∃ v, Src.evalExpr c.env e = some v ∧ o = .normal ∧ c' = { c with env := c.env.set x.name v } := by
  cases fuel with
  | zero => simp [Src.execStmt] at hs
  | succ f =>
    simp only [Src.execStmt, List.length_cons, List.length_nil, beq_self_eq_true, if_true, Src.evalList] at hs
    cases hv : Src.evalExpr c.env e with
    | none => simp [hv] at hs
    | some v =>
      simp only [hv, Option.some.injEq, Prod.mk.injEq] at hs
      exact ⟨v, rfl, hs.1.symm, by rw [← hs.2]; simp [Src.storeAll]⟩

theorem src_varDef1 {x : Var} {e : Expr} {fuel : Nat} {c c' : Src.SCfg} {o : Out}
    (hs : Src.execStmt fuel (.varDef [x] [e]) c = some (o, c')) :
    ∃ v, Src.evalExpr c.env e = some v ∧ o = .normal ∧ c' = { c with env := c.env.set x.name v } := by
  cases fuel with
  | zero => simp [Src.execStmt] at hs
  | succ f =>
    simp only [Src.execStmt, List.length_cons, List.length_nil, beq_self_eq_true, if_true, Src.evalList] at hs
    cases hv : Src.evalExpr c.env e with
    | none => simp [hv] at hs
    | some v =>
      simp only [hv, Option.some.injEq, Prod.mk.injEq] at hs
      exact ⟨v, rfl, hs.1.symm, by rw [← hs.2]; simp [Src.storeAll]⟩

theorem src_for {init : Option Stmt} {cond : Expr} {incr : Option Stmt} {body : List Stmt} {fuel : Nat} {c c' : Src.SCfg} {o : Out}
    (hs : Src.execStmt fuel (.forS init cond incr body) c = some (o, c')) :
    ∃ f c1, srcIncr init f c = some (.normal, c1) ∧ Src.execLoop f cond incr body c1 = some (o, c') := by
  cases fuel with
  | zero => simp [Src.execStmt] at hs
  | succ f =>
    simp only [Src.execStmt] at hs
    cases init with
    | none => exact ⟨f, c, rfl, hs⟩
    | some i =>
      simp only at hs
      split at hs
      · rename_i c1 h1
        exact ⟨f, c1, h1, hs⟩
      · simp at hs

theorem fragElifs_conds : ∀ (elifs : List (Expr × List Stmt)), Src.fragElifs elifs = true →
    (elifs.all (fun p => Src.fragExpr p.1)) = true
  | [], _ => rfl
  | (c, b) :: rest, h => by
    simp only [Src.fragElifs, Bool.and_eq_true] at h
    simp only [List.all_cons, Bool.and_eq_true]
    exact ⟨h.1.1, fragElifs_conds rest h.2⟩

theorem src_elifs_nil {fuel : Nat} {bs : List Bool} {els : List Stmt} {c c' : Src.SCfg} {o : Out}
    (hs : Src.execElifs fuel [] bs els c = some (o, c')) : ∃ f, Src.execStmts f els c = some (o, c') := by
  cases fuel with
  | zero => simp [Src.execElifs] at hs
  | succ f =>
    unfold Src.execElifs at hs
    exact ⟨f, hs⟩

theorem src_assignN {vars : List Var} {vals : List Expr} {fuel : Nat} {c c' : Src.SCfg} {o : Out}
    (hs : Src.execStmt fuel (.assign vars vals) c = some (o, c')) :
    ∃ vs, Src.evalList c.env vals = some vs ∧ o = .normal ∧ c' = { c with env := Src.storeAll c.env vars vs } := by
  cases fuel with
  | zero => simp [Src.execStmt] at hs
  | succ f =>
    simp only [Src.execStmt] at hs
    split at hs
    · split at hs
      · rename_i vs hvs
        simp only [Option.some.injEq, Prod.mk.injEq] at hs
        exact ⟨vs, hvs, hs.1.symm, hs.2.symm⟩
      · simp at hs
    · simp at hs

theorem src_varDefN {vars : List Var} {vals : List Expr} {fuel : Nat} {c c' : Src.SCfg} {o : Out}
    (hs : Src.execStmt fuel (.varDef vars vals) c = some (o, c')) :
    ∃ vs, Src.evalList c.env vals = some vs ∧ o = .normal ∧ c' = { c with env := Src.storeAll c.env vars vs } := by
  cases fuel with
  | zero => simp [Src.execStmt] at hs
  | succ f =>
    simp only [Src.execStmt] at hs
    split at hs
    · split at hs
      · rename_i vs hvs
        simp only [Option.some.injEq, Prod.mk.injEq] at hs
        exact ⟨vs, hvs, hs.1.symm, hs.2.symm⟩
      · simp at hs
    · simp at hs

/-- single or simultaneous assignment -/
theorem assign_any {vars : List Var} {vals : List Expr} {src : Nat → Src.SCfg → Option (Out × Src.SCfg)}
    (hsrc : ∀ fuel c o c', src fuel c = some (o, c') →
      ∃ vs, Src.evalList c.env vals = some vs ∧ o = .normal ∧ c' = { c with env := Src.storeAll c.env vars vs })
    (hf : ((vars.length = vals.length ∧ vars ≠ []) ∧ (∀ x ∈ vars, goodName x.name = true)) ∧ ∀ e ∈ vals, Src.fragExpr e = true)
    {s s' : St} (h0 : s.funcs = []) (h : assignValues conv vars vals s = .ok ((), s')) : StmtSem src s s' := by
  obtain ⟨⟨⟨hlen, hne⟩, hg⟩, hfe⟩ := hf
  match vars, vals, hlen, hne with
  | [x], [e], _, _ =>
    refine assign1_sem (hg x (by simp)) (hfe e (by simp)) h0 h src ?_
    intro fuel c o c' hs
    obtain ⟨vs, hvs, eo, ec⟩ := hsrc fuel c o c' hs
    simp only [Src.evalList] at hvs
    split at hvs
    · rename_i v vs' hv hvs'
      simp only [Option.some.injEq] at hvs hvs'
      subst hvs; subst hvs'
      exact ⟨v, hv, eo, by rw [ec]; simp [Src.storeAll]⟩
    · simp at hvs
  | x :: y :: xs, vals, hlen, _ =>
    exact assignN_sem hlen (by simp) (by simpa [List.all_eq_true] using hg) (by simpa [List.all_eq_true] using hfe) h0 h src hsrc

/-! ### the induction over the AST -/

mutual
theorem stmt_sem (st : Stmt) (hf : Src.fragStmt st = true) :
    ∀ s s', s.funcs = [] → evalStmt conv st s = .ok ((), s') → StmtSem (fun f c => Src.execStmt f st c) s s' := by
  match st with
  | .varDef vars vals =>
    intro s s' h0 h
    unfold evalStmt at h
    exact assign_any (fun fuel c o c' hs => src_varDefN hs) (by simpa [Src.fragStmt] using hf) h0 h
  | .assign vars vals =>
    intro s s' h0 h
    unfold evalStmt at h
    exact assign_any (fun fuel c o c' hs => src_assignN hs) (by simpa [Src.fragStmt] using hf) h0 h
  | .brk =>
    intro s s' h0 h
    unfold evalStmt at h
    exact brk_sem h
  | .cont =>
    intro s s' h0 h
    unfold evalStmt at h
    exact cont_sem h
  | .print es =>
    intro s s' h0 h
    unfold evalStmt at h
    exact print_sem (by simpa [Src.fragStmt] using hf) h0 h
  | .panic e =>
    intro s s' h0 h
    unfold evalStmt at h
    exact panic_sem (by simpa [Src.fragStmt] using hf) h0 h
  | .ifS cond body elifs els =>
    intro s s' h0 h
    simp only [Src.fragStmt, Bool.and_eq_true] at hf
    obtain ⟨⟨⟨hfc, hfb⟩, hfe⟩, hfl⟩ := hf
    unfold evalStmt at h
    obtain ⟨c, s1, h1, h⟩ := bind_ok h
    obtain ⟨ecs, s2, h2, h⟩ := bind_ok h
    obtain ⟨_, s3, h3, h⟩ := bind_ok h
    obtain ⟨_, s4, h4, h⟩ := bind_ok h
    obtain ⟨_, s5, h5, h⟩ := bind_ok h
    obtain ⟨_, s6, h6, h7⟩ := bind_ok h
    obtain ⟨tc, newc, nc, er, e1⟩ := expr_shape cond true s c s1 hfc h0 h1
    subst er; subst e1
    have h01 : (adv s newc nc).funcs = [] := h0
    obtain ⟨newe, ne, e2, hlen, semc⟩ := conds_sem elifs _ ecs s2 (fragElifs_conds elifs hfe) h01 h2
    subst e2
    have e3 := addLine_ok (l := .ifStart "if" tc) h3
    have h03 : s3.funcs = [] := by rw [e3]; exact h0
    have hb := block_sem body hfb s3 s4 h03 h4
    have h04 := hb.funcs h03
    have he := elifs_sem elifs hfe ecs s4 s5 h04 hlen h5
    obtain ⟨bc, nb, mb, e4, simb⟩ := hb
    obtain ⟨tree, nt, mt, e5, simt⟩ := he
    have h05 : s5.funcs = [] := by rw [e5]; exact h04
    have hl := else_sem els hfl s5 s6 h05 h6
    obtain ⟨et, nl, ml, e6, siml⟩ := hl
    have e7 := addLine_ok (l := .fi) h7
    refine ⟨(newc.reverse ++ newe.reverse).map Cmd.simple ++ [Cmd.ifc (.ifStart "if" tc) bc tree et],
      nc + ne + nb + nt + nl, mb + mt + ml, ?_, ?_⟩
    · rw [e7, e6, e5, e4, e3]
      apply St.ext' <;>
        simp [adv, adv2, flats_append, flats_simples, flats_simples_reverse, flats, flat, Nat.add_assoc, List.reverse_append]
    · intro fuel c0 o c' hs ρ ha
      cases fuel with
      | zero => simp [Src.execStmt] at hs
      | succ f =>
        simp only [Src.execStmt] at hs
        split at hs
        · rename_i b bs hv hbs
          obtain ⟨ρ1, run1, fr1, hold1⟩ := (expr_sem cond true s [tc] _ c0.env _ h0 h1 hv).at ρ c0.out ha
          obtain ⟨ρ2, run2, fr2, hold2⟩ := semc c0.env bs hbs ρ1 c0.out (fr1.agree ha)
          have ha2 := fr2.agree (fr1.agree ha)
          have hg : guard ρ2 (.ifStart "if" tc) = some b :=
            guard_of_holds (hold1.frame (Nat.le_add_right _ _) fr2)
          have pre : runLines (newc.reverse ++ newe.reverse) ⟨ρ, c0.out⟩ = some ⟨ρ2, c0.out⟩ := by
            rw [runLines_append, run1]; exact run2
          have ffpre : FlagFrame s.forCounter ρ ρ2 := (fr1.flags).trans (fr2.flags) (Nat.le_refl _)
          cases b with
          | true =>
            simp only [if_true] at hs
            obtain ⟨ρ3, ex3, ha3, ff3⟩ := simb f c0 o c' hs ρ2 ha2
            refine ⟨ρ3, execCmds_append (execCmds_simples pre) (execCmds_single (ExecCmd.ifTrue hg ex3)), ha3, ?_⟩
            exact ffpre.trans ff3 (by rw [e3]; exact Nat.le_refl _)
          | false =>
            simp only [Bool.false_eq_true, if_false] at hs
            have hk : s4.forCounter ≤ s5.forCounter := by rw [e5]; simp [adv2]
            have hbl : bs.length = elifs.length := by
              have : ∀ (l : List (Expr × List Stmt)) (env : Src.Env) (bs : List Bool), Src.evalConds env l = some bs → bs.length = l.length := by
                intro l
                induction l with
                | nil => intro env bs h; simp [Src.evalConds] at h; subst h; rfl
                | cons p rest ih =>
                  intro env bs h
                  obtain ⟨c1, b1⟩ := p
                  simp only [Src.evalConds] at h
                  split at h
                  · rename_i b' bs' _ hbs'
                    simp only [Option.some.injEq] at h
                    subst h
                    simp [ih env bs' hbs']
                  · simp at h
              exact this elifs c0.env bs hbs
            obtain ⟨ρ3, ex3, ha3, ff3⟩ := simt els et s5.forCounter (Nat.le_refl _) siml f bs c0 o c' hs hbl ρ2 ha2 (guardVals_of_holdsAll hold2)
            refine ⟨ρ3, execCmds_append (execCmds_simples pre) (execCmds_single (ExecCmd.ifFalse hg ex3)), ha3, ?_⟩
            have h3f : s3.forCounter = s.forCounter := by rw [e3]; rfl
            have h4f : s4.forCounter = s3.forCounter + mb := by rw [e4]; rfl
            exact ffpre.trans ff3 (by omega)
        · simp at hs
  | .forS init cond incr body =>
    intro s s' h0 h
    simp only [Src.fragStmt, Bool.and_eq_true] at hf
    obtain ⟨⟨⟨hfi, hfc⟩, hfn⟩, hfb⟩ := hf
    unfold evalStmt at h
    obtain ⟨_, s1, h1, h⟩ := bind_ok h
    obtain ⟨_, s2, h2, h⟩ := bind_ok h
    obtain ⟨_, s3, h3, h⟩ := bind_ok h
    obtain ⟨c, s4, h4, h⟩ := bind_ok h
    obtain ⟨_, s5, h5, h⟩ := bind_ok h
    obtain ⟨_, s6, h6, h7⟩ := bind_ok h
    have hi := opt_sem init hfi s s1 h0 h1
    have h01 := hi.funcs h0
    have hfc1 := hi.forCounter
    have hfors1 := hi.fors
    have e2 := forStart_ok h2
    have h02 : s2.funcs = [] := by rw [e2]; exact h01
    have hinc := incr_sem incr hfn s2 s3 s1.forCounter s1.fors h02 (by rw [e2]) (by rw [e2]; simp) h3
    obtain ⟨ci, ni, mi, ei, simi⟩ := hi
    obtain ⟨P, np, mp, ep, simP⟩ := hinc
    have h03 : s3.funcs = [] := by rw [ep]; exact h02
    obtain ⟨tc, newc, nc, er, e4⟩ := expr_shape cond true s3 c s4 hfc h03 h4
    subst er
    have e5 := addLine_ok (l := .forCond tc) h5
    have h05 : s5.funcs = [] := by rw [e5, e4]; exact h03
    have hb := block_sem body hfb s5 s6 h05 h6
    obtain ⟨bc, nb, mb, eb, simb⟩ := hb
    have e7 := forEnd_ok h7
    refine ⟨ci ++ [Cmd.simple (.forFlagInit s1.forCounter),
        Cmd.loop (P ++ (newc.reverse.map Cmd.simple ++ (Cmd.simple (.forCond tc) :: bc)))],
      ni + np + nc + nb, mi + 1 + mp + mb, ?_, ?_⟩
    · rw [e7, eb, e5, e4, ep, e2, ei]
      apply St.ext' <;>
        simp [adv, adv2, flats_append, flats_simples, flats_simples_reverse, flats, flat, Nat.add_assoc, List.reverse_append]
    · intro fuel c0 o c' hs ρ ha
      obtain ⟨f, c1, hsi, hsl⟩ := src_for hs
      obtain ⟨ρ1, ex1, ha1, ff1⟩ := simi f c0 _ c1 hsi ρ ha
      -- the flag of this loop starts empty
      have hn : s.forCounter ≤ s1.forCounter := hfc1
      let n := s1.forCounter
      have ha2 : Agree c1.env (ρ1.set (flagName n) "") := agree_set_flag n "" ha1
      obtain ⟨ρ3, ex3, hf3, same3⟩ := simP.2 (ρ1.set (flagName n) "") c1.out (set_same _ _ _)
      have ha3 : Agree c1.env ρ3 := by
        intro x v hx
        obtain ⟨hg, hv⟩ := ha2 x v hx
        exact ⟨hg, by rw [same3 x (good_ne_flag x n hg)]; exact hv⟩
      have hcond : ∀ env v, Src.evalExpr env cond = some v → ∀ ρ out, Agree env ρ →
          ∃ ρ', runLines newc.reverse ⟨ρ, out⟩ = some ⟨ρ', out⟩ ∧ (∀ x, (∀ k, x ≠ helperName k) → ρ' x = ρ x) ∧
            expand ρ' tc = some v.render := by
        intro env v hv ρ out hag
        rw [e4] at h4
        obtain ⟨ρ', run, fr, hold⟩ := (expr_sem cond true s3 [tc] _ env v h03 h4 hv).at ρ out hag
        exact ⟨ρ', run, fun x hx => fr x (fun k _ _ => hx k), hold.expand⟩
      have hkb : n < s5.forCounter := by
        rw [e5, e4, ep, e2]; simp [adv, adv2]; omega
      obtain ⟨ρ', exl, ha', ff'⟩ := loop_sim (FlagOK incr n) (flagOK_congr incr n) hcond simb hkb simP.1
        f c1 o c' hsl ⟨ρ1.set (flagName n) "", c1.out⟩ ρ3 ex3 ha3 hf3
      refine ⟨ρ', ?_, ha', ?_⟩
      · refine execCmds_append ex1 (ExecCmds.cons (ExecCmd.simple (c' := ⟨ρ1.set (flagName n) "", c1.out⟩) rfl) ?_)
        exact execCmds_single (ExecCmd.loop exl)
      · intro j hj
        rw [ff' j (by omega), same3 _ (fun e => by have := flagName_inj e; omega),
          set_other _ _ _ _ (fun e => by have := flagName_inj e; omega)]
        exact ff1 j hj
  | .varDefCall _ _ => simp [Src.fragStmt] at hf
  | .assignCall _ _ => simp [Src.fragStmt] at hf
  | .sliceAssign _ _ _ => simp [Src.fragStmt] at hf
  | .funcDef _ _ _ _ _ => simp [Src.fragStmt] at hf
  | .ret _ => simp [Src.fragStmt] at hf
  | .expr _ => simp [Src.fragStmt] at hf

theorem opt_sem (init : Option Stmt) (hf : Src.fragOpt init = true) :
    ∀ s s', s.funcs = [] → evalInit conv init s = .ok ((), s') → StmtSem (srcIncr init) s s' := by
  match init with
  | some i =>
    intro s s' h0 h
    unfold evalInit at h
    exact stmt_sem i (by simpa [Src.fragOpt] using hf) s s' h0 h
  | none =>
    intro s s' h0 h
    unfold evalInit at h
    obtain ⟨_, es⟩ := pure_ok h
    refine ⟨[], 0, 0, es, ?_⟩
    intro fuel c o c' hs ρ ha
    simp only [srcIncr, Option.some.injEq, Prod.mk.injEq] at hs
    obtain ⟨rfl, rfl⟩ := hs
    exact ⟨ρ, ExecCmds.nil, ha, FlagFrame.refl _ _⟩

theorem incr_sem (incr : Option Stmt) (hf : Src.fragOpt incr = true) :
    ∀ s s' n rest, s.funcs = [] → s.fors = n :: rest → n < s.forCounter → evalIncr conv incr s = .ok ((), s') →
      ∃ P nn m, s' = adv2 s (flats P).reverse nn m ∧ IncrSim incr P n := by
  match incr with
  | none =>
    intro s s' n rest h0 hfo hn h
    unfold evalIncr at h
    obtain ⟨_, es⟩ := pure_ok h
    refine ⟨[], 0, 0, es, ?_, ?_⟩
    · intro fuel cb c2 hs ρ ha hfl
      simp only [srcIncr, Option.some.injEq, Prod.mk.injEq, true_and] at hs
      subst hs
      exact ⟨ρ, ExecCmds.nil, ha, hfl, FlagFrame.refl _ _⟩
    · intro ρ0 out _
      exact ⟨ρ0, ExecCmds.nil, trivial, fun _ _ => rfl⟩
  | some i =>
    intro s s' n rest h0 hfo hn h
    unfold evalIncr at h
    obtain ⟨_, s1, h1, h⟩ := bind_ok h
    obtain ⟨_, s2, h2, h3⟩ := bind_ok h
    have e1 := forIncrementStart_ok hfo h1
    have h01 : s1.funcs = [] := by rw [e1]; exact h0
    have hi := stmt_sem i (by simpa [Src.fragOpt] using hf) s1 s2 h01 h2
    have hfo2 : s2.fors = n :: rest := by rw [hi.fors, e1]; exact hfo
    have e3 := forIncrementEnd_ok hfo2 h3
    obtain ⟨ci, ni, mi, ei, simi⟩ := hi
    refine ⟨[Cmd.ifc (.incrStart n) ci [] none, Cmd.simple (.incrFlagSet n)], ni, mi, ?_, ?_, ?_⟩
    · rw [e3, ei, e1]
      apply St.ext' <;> simp [adv2, flats, flat, flatElifs, flatElse]
    · intro fuel cb c2 hs ρ ha hfl
      have hs' : Src.execStmt fuel i cb = some (.normal, c2) := hs
      obtain ⟨ρ4, ex4, ha4, ff4⟩ := simi fuel cb _ c2 hs' ρ ha
      have hg : guard ρ (.incrStart n) = some true := by
        simp only [FlagOK] at hfl
        simp [guard, hfl]
      refine ⟨ρ4.set (flagName n) "1", ?_, agree_set_flag n "1" ha4, ?_, ?_⟩
      · exact ExecCmds.cons (ExecCmd.ifTrue hg ex4) (execCmds_single (ExecCmd.simple rfl))
      · simp only [FlagOK]; exact set_same _ _ _
      · intro j hj
        rw [set_other _ _ _ _ (fun e => by have := flagName_inj e; omega)]
        exact ff4 j (by rw [e1]; show j < s.forCounter; omega)
    · intro ρ0 out h0'
      have hg : guard ρ0 (.incrStart n) = some false := by simp [guard, h0']
      refine ⟨ρ0.set (flagName n) "1", ?_, ?_, ?_⟩
      · exact ExecCmds.cons (ExecCmd.ifFalse hg ExecElifs.none) (execCmds_single (ExecCmd.simple rfl))
      · simp only [FlagOK]; exact set_same _ _ _
      · intro x hx; exact set_other _ _ _ _ hx

theorem block_sem (body : List Stmt) (hf : Src.fragStmts body = true) :
    ∀ s s', s.funcs = [] → evalBlock conv body s = .ok ((), s') → StmtSem (fun f c => Src.execStmts f body c) s s' := by
  match body with
  | [] =>
    intro s s' h0 h
    unfold evalBlock at h
    have h' : addLine .nop s = .ok ((), s') := h
    have e := addLine_ok h'
    refine ⟨[Cmd.simple .nop], 0, 0, by rw [e]; simp [adv2, flats, flat], ?_⟩
    intro fuel c o c' hs ρ ha
    cases fuel with
    | zero => simp [Src.execStmts] at hs
    | succ f =>
      simp only [Src.execStmts, Option.some.injEq, Prod.mk.injEq] at hs
      obtain ⟨rfl, rfl⟩ := hs
      exact ⟨ρ, execCmds_single (ExecCmd.simple rfl), ha, FlagFrame.refl _ _⟩
  | st :: rest =>
    intro s s' h0 h
    unfold evalBlock at h
    simp only [Src.fragStmts, Bool.and_eq_true] at hf
    obtain ⟨_, s1, h1, h2⟩ := bind_ok h
    have hs1 := stmt_sem st hf.1 s s1 h0 h1
    have hs2 := stmts_sem rest hf.2 s1 s' (hs1.funcs h0) h2
    exact stmtSem_seq hs1 hs2 (fun _ _ _ _ h => execStmts_cons_cases h)

theorem stmts_sem (body : List Stmt) (hf : Src.fragStmts body = true) :
    ∀ s s', s.funcs = [] → evalStmts conv body s = .ok ((), s') → StmtSem (fun f c => Src.execStmts f body c) s s' := by
  match body with
  | [] =>
    intro s s' h0 h
    unfold evalStmts at h
    obtain ⟨_, es⟩ := pure_ok h
    rw [es]
    exact stmtSem_nil s
  | st :: rest =>
    intro s s' h0 h
    unfold evalStmts at h
    simp only [Src.fragStmts, Bool.and_eq_true] at hf
    obtain ⟨_, s1, h1, h2⟩ := bind_ok h
    have hs1 := stmt_sem st hf.1 s s1 h0 h1
    have hs2 := stmts_sem rest hf.2 s1 s' (hs1.funcs h0) h2
    exact stmtSem_seq hs1 hs2 (fun _ _ _ _ h => execStmts_cons_cases h)

theorem else_sem (els : List Stmt) (hf : Src.fragStmts els = true) :
    ∀ s s', s.funcs = [] → evalElse conv els s = .ok ((), s') →
      ∃ t n m, s' = adv2 s (flatElse t).reverse n m ∧ ElseSim els t s.forCounter := by
  match els with
  | [] =>
    intro s s' h0 h
    unfold evalElse at h
    obtain ⟨_, es⟩ := pure_ok h
    refine ⟨none, 0, 0, es, ?_⟩
    intro fuel c o c' hs ρ ha
    cases fuel with
    | zero => simp [Src.execStmts] at hs
    | succ f =>
      simp only [Src.execStmts, Option.some.injEq, Prod.mk.injEq] at hs
      obtain ⟨rfl, rfl⟩ := hs
      exact ⟨ρ, ExecElifs.none, ha, FlagFrame.refl _ _⟩
  | st :: rest =>
    intro s s' h0 h
    unfold evalElse at h
    simp only [Src.fragStmts, Bool.and_eq_true] at hf
    obtain ⟨_, s1, h1, h⟩ := bind_ok h
    obtain ⟨_, s2, h2, h⟩ := bind_ok h
    obtain ⟨_, s3, h3, h4⟩ := bind_ok h
    have e1 := addLine_ok (l := .else_) h1
    have h01 : s1.funcs = [] := by rw [e1]; exact h0
    have hs1 := stmt_sem st hf.1 s1 s2 h01 h2
    have hs2 := stmts_sem rest hf.2 s2 s3 (hs1.funcs h01) h3
    obtain ⟨_, e4⟩ := pure_ok (a := ()) h4
    have hseq : StmtSem (fun f c => Src.execStmts f (st :: rest) c) s1 s3 :=
      stmtSem_seq hs1 hs2 (fun _ _ _ _ h => execStmts_cons_cases h)
    obtain ⟨cs, n, m, e, sim⟩ := hseq
    refine ⟨some cs, n, m, ?_, ?_⟩
    · rw [e4, e, e1]
      apply St.ext' <;> simp [adv2, flatElse]
    · intro fuel c o c' hs ρ ha
      obtain ⟨ρ', ex, ha', ff⟩ := sim fuel c o c' hs ρ ha
      refine ⟨ρ', ExecElifs.els ex, ha', ?_⟩
      rw [e1] at ff; exact ff

theorem elifs_sem (elifs : List (Expr × List Stmt)) (hf : Src.fragElifs elifs = true) :
    ∀ ecs s s', s.funcs = [] → ecs.length = elifs.length → evalElifs conv elifs ecs s = .ok ((), s') →
      ∃ tree n m, s' = adv2 s (flatElifs tree).reverse n m ∧
        ∀ els elseT k0, s'.forCounter ≤ k0 → ElseSim els elseT k0 →
          ∀ fuel bs c o c', Src.execElifs fuel elifs bs els c = some (o, c') → bs.length = elifs.length →
            ∀ ρ, Agree c.env ρ → GuardVals ecs bs ρ →
              ∃ ρ', ExecElifs tree elseT ⟨ρ, c.out⟩ o ⟨ρ', c'.out⟩ ∧ Agree c'.env ρ' ∧ FlagFrame s.forCounter ρ ρ' := by
  match elifs with
  | [] =>
    intro ecs s s' h0 hlen h
    unfold evalElifs at h
    obtain ⟨_, es⟩ := pure_ok h
    refine ⟨[], 0, 0, es, ?_⟩
    intro els elseT k0 hk hsim fuel bs c o c' hs hbl ρ ha _
    obtain ⟨f, hs'⟩ := src_elifs_nil hs
    obtain ⟨ρ', ex, ha', ff⟩ := hsim f c o c' hs' ρ ha
    exact ⟨ρ', ex, ha', ff.mono (by rw [es] at hk; exact hk)⟩
  | (cnd, body) :: rest =>
    intro ecs s s' h0 hlen h
    match ecs, hlen with
    | t :: cs, hlen =>
      unfold evalElifs at h
      simp only [Src.fragElifs, Bool.and_eq_true] at hf
      obtain ⟨_, s1, h1, h⟩ := bind_ok h
      obtain ⟨_, s2, h2, h⟩ := bind_ok h
      obtain ⟨_, s3, h3, h4⟩ := bind_ok h
      have e1 := addLine_ok (l := .ifStart "elif" t) h1
      have h01 : s1.funcs = [] := by rw [e1]; exact h0
      have hb := block_sem body hf.1.2 s1 s2 h01 h2
      obtain ⟨_, e3⟩ := pure_ok (a := ()) h3
      have h03 : s3.funcs = [] := by rw [e3]; exact hb.funcs h01
      have hr := elifs_sem rest hf.2 cs s3 s' h03 (by simpa using hlen) h4
      obtain ⟨bc, nb, mb, eb, simb⟩ := hb
      obtain ⟨tree, nt, mt, et, simt⟩ := hr
      refine ⟨(.ifStart "elif" t, bc) :: tree, nb + nt, mb + mt, ?_, ?_⟩
      · rw [et, e3, eb, e1]
        apply St.ext' <;> simp [adv2, flatElifs, Nat.add_assoc, List.reverse_append]
      · intro els elseT k0 hk hsim fuel bs c o c' hs hbl ρ ha hgv
        match bs, hbl, hgv with
        | b :: bs', hbl, hgv =>
          cases fuel with
          | zero => simp [Src.execElifs] at hs
          | succ f =>
            simp only [Src.execElifs] at hs
            cases b with
            | true =>
              simp only [if_true] at hs
              obtain ⟨ρ', ex, ha', ff⟩ := simb f c o c' hs ρ ha
              refine ⟨ρ', ExecElifs.hit hgv.1 ex, ha', ?_⟩
              rw [e1] at ff; exact ff
            | false =>
              simp only [Bool.false_eq_true, if_false] at hs
              obtain ⟨ρ', ex, ha', ff⟩ := simt els elseT k0 hk hsim f bs' c o c' hs (by simpa using hbl) ρ ha hgv.2
              refine ⟨ρ', ExecElifs.miss hgv.1 ex, ha', ff.mono ?_⟩
              rw [e3, eb, e1]; simp [adv2]
end

end Tsh.Sem
