import TshVerif.Lemmas.ParserUseStmt
namespace Tsh.Parser
open Tsh Tsh.Tr Tsh.LexTables

/-! ### what a definition statement does to the names it uses (`evaluateVarDefinition`)

Proved about the definition parser in ANY context: which of its names must be new, and that a name which already exists on the
same level keeps its type (fix 4a3f869). -/

def defVars : Stmt → List Var
  | .varDef vars _ | .varDefCall vars _ => vars
  | _ => []

theorem mapM_get {α β : Type} {f : α → Option β} : ∀ {l : List α} {r : List β}, l.mapM f = some r →
    r.length = l.length ∧ ∀ i (h1 : i < l.length) (h2 : i < r.length), f l[i] = some r[i] := by
  intro l
  induction l with
  | nil => intro r h; simp at h; subst h; exact ⟨rfl, fun i h1 => absurd h1 (by simp)⟩
  | cons a as ih =>
    intro r h
    rw [List.mapM_cons] at h
    cases h1 : f a with
    | none => simp [h1] at h
    | some b =>
      cases h2 : as.mapM f with
      | none => simp [h1, h2] at h
      | some bs =>
        simp [h1, h2] at h
        subst h
        obtain ⟨hl, hi⟩ := ih h2
        refine ⟨by simp [hl], ?_⟩
        intro i hi1 hi2
        cases i with
        | zero => simpa using h1
        | succ j => simpa using hi j (by simpa using hi1) (by simpa using hi2)

/-- the fact about one defined variable and the name it was written with -/
def defFact (ctx : Ctx) (pfx : String) (t : Tok) (v : Var) : Prop :=
  v.name = (if ctx.global then prefixed pfx t.val else t.val) ∧ v.global = ctx.global ∧
  ∀ w, ctx.findVar t.val pfx ctx.global = some w → w.global = ctx.global → w.vt.dt ≠ .unknown → v.vt = w.vt

/-- what `evaluateVarDefinition` guarantees about its names -/
def defP (ctx : Ctx) (st : Stmt) : Prop :=
  ∃ (pfx : String) (names : List Tok) (short : Bool), names ≠ [] ∧ (defVars st).length = names.length ∧
    (∀ i (h1 : i < names.length) (h2 : i < (defVars st).length), defFact ctx pfx names[i] (defVars st)[i]) ∧
    (names.length = 1 → ∀ t ∈ names, isNewVar ctx pfx t.val = true) ∧
    (short = false → ∀ t ∈ names, isNewVar ctx pfx t.val = true) ∧
    (∃ t ∈ names, isNewVar ctx pfx t.val = true) ∧
    hasDupNames names = false

theorem filter_len_ne {α : Type} {p : α → Bool} : ∀ {l : List α}, (l.filter p).length ≠ l.length → ∃ x ∈ l, p x = false
  | [], h => absurd rfl h
  | a :: as, h => by
      cases hp : p a with
      | false => exact ⟨a, List.mem_cons_self .., hp⟩
      | true =>
        simp only [List.filter_cons, hp, if_true, List.length_cons, ne_eq, Nat.add_right_cancel_iff] at h
        obtain ⟨x, hx, hpx⟩ := filter_len_ne h
        exact ⟨x, List.mem_cons_of_mem _ hx, hpx⟩

theorem filter_len_zero {α : Type} {p : α → Bool} {l : List α} (h : (l.filter p).length = 0) : ∀ x ∈ l, p x = false := by
  intro x hx
  cases hp : p x with
  | false => rfl
  | true =>
    have : x ∈ l.filter p := List.mem_filter.mpr ⟨hx, hp⟩
    rw [List.length_eq_zero_iff.mp h] at this
    simp at this

theorem equals_eq {a b : ValueType} (h : a.equals b = true) : a = b := by
  obtain ⟨d1, s1⟩ := a
  obtain ⟨d2, s2⟩ := b
  simp only [ValueType.equals, Bool.and_eq_true, beq_iff_eq] at h
  simp [h.1, h.2]

theorem def_varDefinition (fuel : Nat) (ctx : Ctx) : PostOk (evalVarDefinition fuel ctx) (defP ctx) := by
  unfold evalVarDefinition
  po_bind; intro short
  pm_jp; intro jp hjp
  have key : ∀ r, PostOk (jp r) (defP ctx) := by
    intro r; subst hjp; pm_beta
    po_bind; intro names
    po_bind; intro s
    pm_zeta
    split
    · exact PostOk.pan
    rename_i first rest
    pm_zeta
    pm_jp; intro jp2 hjp2
    -- what the checks on the names establish
    have key2 : ∀ r, ((first :: rest).length = 1 → ∀ t ∈ first :: rest, isNewVar ctx s.pfx t.val = true) →
        (short = false → ∀ t ∈ first :: rest, isNewVar ctx s.pfx t.val = true) →
        (∃ t ∈ first :: rest, isNewVar ctx s.pfx t.val = true) → hasDupNames (first :: rest) = false → PostOk (jp2 r) (defP ctx) := by
      intro r hone hvar hsome hdup; subst hjp2; pm_beta
      po_bind; intro spec
      po_bind; intro next
      pm_zeta
      pm_jp; intro mkVar hmk
      have hmkv : ∀ t v, mkVar t = some v → v.name = (if ctx.global then prefixed s.pfx t.val else t.val) ∧ v.global = ctx.global ∧
          (∀ w, ctx.findVar t.val s.pfx ctx.global = some w → w.global = ctx.global → v.vt = w.vt) := by
        intro t v h
        subst hmk
        dsimp only at h
        split at h
        · rename_i w hw
          split at h
          · simp at h
          · rename_i hsp
            simp only [Option.some.injEq] at h; subst h
            dsimp only
            refine ⟨rfl, rfl, ?_⟩
            intro w' hw' hg
            rw [hw] at hw'
            simp only [Option.some.injEq] at hw'; subst hw'
            split
            · rfl
            · rename_i hc
              -- a type was specified: it is the variable's type (checked just before)
              simp only [Bool.and_eq_true, beq_iff_eq, not_and] at hc
              have hsd : ¬ spec.dt = DataType.unknown := hc hg
              simp only [Bool.and_eq_true, bne_iff_ne, ne_eq, Bool.not_eq_true', not_and, Bool.not_eq_false] at hsp
              exact equals_eq (hsp hsd)
        · rename_i hnone
          simp only [Option.some.injEq] at h; subst h
          exact ⟨rfl, rfl, fun w hw => by rw [hnone] at hw; simp at hw⟩
      refine PostOk.bind' (P := fun vars => vars.length = (first :: rest).length ∧
          ∀ i (h1 : i < (first :: rest).length) (h2 : i < vars.length), mkVar (first :: rest)[i] = some vars[i])
        (PostOk.ofOpt (fun vars h => mapM_get h)) ?_
      intro vars hvars
      -- the facts for variables whose type is final
      have fin : ∀ (vs : List Var), vs.length = (first :: rest).length →
          (∀ i (h1 : i < (first :: rest).length) (h2 : i < vs.length), defFact ctx s.pfx (first :: rest)[i] vs[i]) →
          ∀ st, defVars st = vs → defP ctx st := by
        intro vs hl hf st hst
        exact ⟨s.pfx, first :: rest, short, by simp, by rw [hst, hl], by rw [hst]; exact hf, hone, hvar, hsome, hdup⟩
      po_if
      · po_bind; intro values
        pm_zeta
        po_if
        · exact PostOk.err
        po_if
        · exact PostOk.err
        refine PostOk.bind' (P := fun vars' => vars'.length = (vars.zip (valuesTypes values)).length ∧
            ∀ i (h1 : i < (vars.zip (valuesTypes values)).length) (h2 : i < vars'.length),
              (fun (x : Var × ValueType) => if (x.1.vt.dt == DataType.unknown) = true then some { x.1 with vt := x.2 }
                else if x.1.vt.equals x.2 = true then some x.1 else none) (vars.zip (valuesTypes values))[i] = some vars'[i])
          (PostOk.ofOpt (fun vars' h => mapM_get h)) ?_
        intro vars' hv'
        rename_i hlen _
        have hlen' : (valuesTypes values).length = vars.length := by simpa using hlen
        have hz : (vars.zip (valuesTypes values)).length = vars.length := by simp [List.length_zip, hlen']
        have hfacts : ∀ i (h1 : i < (first :: rest).length) (h2 : i < vars'.length), defFact ctx s.pfx (first :: rest)[i] vars'[i] := by
          intro i h1 h2
          have hi : i < vars.length := by rw [hvars.1]; exact h1
          have hiz : i < (vars.zip (valuesTypes values)).length := by rw [hz]; exact hi
          obtain ⟨hn, hg, hk⟩ := hmkv _ _ (hvars.2 i h1 hi)
          have ha := hv'.2 i hiz h2
          simp only [List.getElem_zip] at ha
          by_cases hu : (vars[i].vt.dt == DataType.unknown) = true
          · simp only [hu, if_true, Option.some.injEq] at ha
            refine ⟨by rw [← ha]; exact hn, by rw [← ha]; exact hg, ?_⟩
            intro w hw hwg hwu
            -- the variable exists on this level with a type: `mkVar` gave it that type, so nothing is adopted
            exfalso
            rw [hk w hw hwg] at hu
            exact hwu (by simpa using hu)
          · simp only [hu, Bool.false_eq_true, if_false] at ha
            by_cases he : vars[i].vt.equals (valuesTypes values)[i] = true
            · simp only [he, if_true, Option.some.injEq] at ha
              refine ⟨by rw [← ha]; exact hn, by rw [← ha]; exact hg, ?_⟩
              intro w hw hwg _
              rw [← ha]
              exact hk w hw hwg
            · simp [he] at ha
        have hl' : vars'.length = (first :: rest).length := by rw [hv'.1, hz, hvars.1]
        cases hm : multiReturnTypes values with
        | some ts =>
          obtain ⟨call, rfl⟩ := multi_single hm
          simp only []
          exact PostOk.pure' (fin vars' hl' hfacts _ rfl)
        | none =>
          simp only []
          exact PostOk.pure' (fin vars' hl' hfacts _ rfl)
      · po_bind; intro values
        refine PostOk.pure' (fin vars hvars.1 ?_ _ rfl)
        intro i h1 h2
        obtain ⟨hn, hg, hk⟩ := hmkv _ _ (hvars.2 i h1 h2)
        exact ⟨hn, hg, fun w hw hwg _ => hk w hw hwg⟩
    po_if
    · rename_i hn
      pm_zeta
      po_if
      · exact PostOk.errBind
      rename_i h2
      po_if
      · exact PostOk.errBind
      rename_i h3
      po_if
      · exact PostOk.errBind
      · rename_i h4
        refine key2 () ?_ ?_ ?_ (by simpa using h4)
        · intro h1; rw [h1] at hn; exact absurd hn (by decide)
        · intro hs t ht
          have h0 : ((first :: rest).filter fun t => !(isNewVar ctx s.pfx t.val)).length = 0 := by
            simp only [hs, Bool.not_false, Bool.and_true, decide_eq_true_eq, Nat.not_lt, Nat.le_zero_eq] at h2
            exact h2
          simpa using filter_len_zero h0 t ht
        · have hne : ((first :: rest).filter fun t => !(isNewVar ctx s.pfx t.val)).length ≠ (first :: rest).length := by
            simpa using h3
          obtain ⟨x, hx, hpx⟩ := filter_len_ne hne
          exact ⟨x, hx, by simpa using hpx⟩
    · rename_i hn
      po_if
      · exact PostOk.errBind
      · rename_i hf
        have hr : rest = [] := by
          cases rest with
          | nil => rfl
          | cons _ _ => simp at hn
        subst hr
        have hfirst : isNewVar ctx s.pfx first.val = true := by simpa using hf
        refine key2 () ?_ ?_ ?_ (by simp [hasDupNames])
        · intro _ t ht; simp at ht; subst ht; exact hfirst
        · intro _ t ht; simp at ht; subst ht; exact hfirst
        · exact ⟨first, by simp, hfirst⟩
  po_if
  · po_bind; intro v
    po_if
    · exact PostOk.errBind
    · exact key ()
  · exact key ()

end Tsh.Parser

namespace Tsh.Parser
open Tsh Tsh.Tr Tsh.LexTables

/-- what `evaluateFunctionDefinition` guarantees about the function's name and place -/
def funcDefP (ctx : Ctx) (st : Stmt) : Prop :=
  ∃ (pfx : String) (nameTok : Tok) (pub : Bool) (rets : List ValueType) (params : List Var) (body : List Stmt),
    st = .funcDef (prefixed pfx nameTok.val) pub rets params body ∧ ctx.global = true ∧ ctx.findFunc nameTok.val pfx = none

theorem def_functionDefinition (fuel : Nat) (ctx : Ctx) : PostOk (evalFunctionDefinition fuel ctx) (funcDefP ctx) := by
  cases fuel with
  | zero => unfold evalFunctionDefinition; exact PostOk.div
  | succ fuel =>
  unfold evalFunctionDefinition
  po_bind; intro f
  po_if
  · exact PostOk.err
  rename_i hg
  po_if
  · exact PostOk.err
  po_bind; intro nameTok
  po_if
  · exact PostOk.err
  po_bind; intro s
  pm_zeta
  po_if
  · exact PostOk.err
  rename_i hnew
  po_bind; intro o
  pm_zeta
  po_bind; intro params
  po_bind; intro r
  pm_zeta
  pm_jp; intro jp hjp
  suffices key : ∀ u, PostOk (jp u) (funcDefP ctx) by
    po_if
    · po_bind; intro _
      exact key _
    · exact key _
  intro u; subst hjp; pm_beta
  po_bind; intro rets
  po_bind; intro ctx2
  pm_zeta
  po_bind; intro s2
  po_bind; intro _
  po_bind; intro body
  po_bind; intro s3
  po_bind; intro _
  refine PostOk.pure' ⟨s.pfx, nameTok, _, rets, params, body, rfl, by simpa using hg, ?_⟩
  cases hf : ctx.findFunc nameTok.val s.pfx with
  | none => rfl
  | some x => simp [hf] at hnew

end Tsh.Parser
