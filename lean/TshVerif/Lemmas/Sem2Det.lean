/-
  The big-step relation of the bash model with functions is deterministic, and the executable interpreter is sound
  for it: what `execCmds` computes (the thing run next to /bin/bash in every check) is what the relation derives.
-/
import TshVerif.Sem2.Bash
namespace Tsh.Sem2
open Tsh Tsh.Bash Tsh.Sem

mutual
theorem execCmd_sound : ∀ (fuel : Nat) (x : Cmd) (c : Cfg) (o : Out) (c' : Cfg), execCmd fuel x c = some (o, c') → ExecCmd x c o c'
  | 0, _, _, _, _, h => by simp [execCmd] at h
  | f + 1, .simple l, c, o, c', h => by
    by_cases hc : isCall l = true
    · cases l <;> simp [isCall] at hc
      rename_i name args
      simp only [execCmd] at h
      split at h
      · rename_i body vals hl he
        split at h
        · rename_i o1 c1 hb
          exact ExecCmd.call hl he (execCmds_sound f body _ o1 c1 hb) h
        · simp at h
      · simp at h
    · have hc' : isCall l = false := by simpa using hc
      have : execCmd (f + 1) (.simple l) c = stepSimple l c := by
        cases l <;> first | rfl | (simp [isCall] at hc')
      rw [this] at h
      exact ExecCmd.simple hc' h
  | f + 1, .ifc g thn elifs els, c, o, c', h => by
    simp only [execCmd] at h
    split at h
    · rename_i hg
      exact ExecCmd.ifTrue hg (execCmds_sound f thn c o c' h)
    · rename_i hg
      exact ExecCmd.ifFalse hg (execElifs_sound f elifs els c o c' h)
    · simp at h
  | f + 1, .loop body, c, o, c', h => by
    simp only [execCmd] at h
    exact ExecCmd.loop (execLoop_sound f body c o c' h)
  | f + 1, .fn name body, c, o, c', h => by
    simp only [execCmd, Option.some.injEq, Prod.mk.injEq] at h
    obtain ⟨rfl, rfl⟩ := h
    exact ExecCmd.fnDef
theorem execCmds_sound : ∀ (fuel : Nat) (xs : List Cmd) (c : Cfg) (o : Out) (c' : Cfg), execCmds fuel xs c = some (o, c') → ExecCmds xs c o c'
  | 0, _, _, _, _, h => by simp [execCmds] at h
  | f + 1, [], c, o, c', h => by
    simp only [execCmds, Option.some.injEq, Prod.mk.injEq] at h
    obtain ⟨rfl, rfl⟩ := h
    exact ExecCmds.nil
  | f + 1, x :: xs, c, o, c', h => by
    simp only [execCmds] at h
    split at h
    · rename_i c1 h1
      exact ExecCmds.cons (execCmd_sound f x c .normal c1 h1) (execCmds_sound f xs c1 o c' h)
    · rename_i r hr
      have hx := execCmd_sound f x c o c' h
      refine ExecCmds.stop hx ?_
      intro e; subst e
      exact hr c' h
theorem execElifs_sound : ∀ (fuel : Nat) (es : List (Line × List Cmd)) (els : Option (List Cmd)) (c : Cfg) (o : Out) (c' : Cfg),
    execElifs fuel es els c = some (o, c') → ExecElifs es els c o c'
  | 0, _, _, _, _, _, h => by simp [execElifs] at h
  | f + 1, [], none, c, o, c', h => by
    simp only [execElifs, Option.some.injEq, Prod.mk.injEq] at h
    obtain ⟨rfl, rfl⟩ := h
    exact ExecElifs.none
  | f + 1, [], some b, c, o, c', h => by
    simp only [execElifs] at h
    exact ExecElifs.els (execCmds_sound f b c o c' h)
  | f + 1, (g, b) :: rest, els, c, o, c', h => by
    simp only [execElifs] at h
    split at h
    · rename_i hg
      exact ExecElifs.hit hg (execCmds_sound f b c o c' h)
    · rename_i hg
      exact ExecElifs.miss hg (execElifs_sound f rest els c o c' h)
    · simp at h
theorem execLoop_sound : ∀ (fuel : Nat) (body : List Cmd) (c : Cfg) (o : Out) (c' : Cfg), execLoop fuel body c = some (o, c') → ExecLoop body c o c'
  | 0, _, _, _, _, h => by simp [execLoop] at h
  | f + 1, body, c, o, c', h => by
    simp only [execLoop] at h
    split at h
    · rename_i c1 h1
      exact ExecLoop.next (execCmds_sound f body c .normal c1 h1) (execLoop_sound f body c1 o c' h)
    · rename_i c1 h1
      exact ExecLoop.cont (execCmds_sound f body c .cont c1 h1) (execLoop_sound f body c1 o c' h)
    · rename_i c1 h1
      simp only [Option.some.injEq, Prod.mk.injEq] at h
      obtain ⟨rfl, rfl⟩ := h
      exact ExecLoop.brk (execCmds_sound f body c .brk _ h1)
    · rename_i c1 h1
      simp only [Option.some.injEq, Prod.mk.injEq] at h
      obtain ⟨rfl, rfl⟩ := h
      exact ExecLoop.ret (execCmds_sound f body c .ret _ h1)
    · rename_i k c1 h1
      simp only [Option.some.injEq, Prod.mk.injEq] at h
      obtain ⟨rfl, rfl⟩ := h
      exact ExecLoop.exit (execCmds_sound f body c (.exit k) _ h1)
    · simp at h
end

/-! ### determinism -/

mutual
theorem execCmd_det {x : Cmd} {c : Cfg} {o1 o2 : Out} {c1 c2 : Cfg} (h1 : ExecCmd x c o1 c1) (h2 : ExecCmd x c o2 c2) : o1 = o2 ∧ c1 = c2 :=
  match h1, h2 with
  | .simple _ h1, .simple _ h2 => by
    rw [h1] at h2; simp only [Option.some.injEq, Prod.mk.injEq] at h2; exact h2
  | .simple hc _, .call _ _ _ _ => by simp [isCall] at hc
  | .call _ _ _ _, .simple hc _ => by simp [isCall] at hc
  | .call l1 e1 b1 r1, .call l2 e2 b2 r2 => by
    rw [l1] at l2; rw [e1] at e2
    simp only [Option.some.injEq] at l2 e2
    subst l2 e2
    obtain ⟨eo, ec⟩ := execCmds_det b1 b2
    subst eo ec
    rw [r1] at r2; simp only [Option.some.injEq, Prod.mk.injEq] at r2; exact r2
  | .ifTrue _ a, .ifTrue _ b => execCmds_det a b
  | .ifFalse _ a, .ifFalse _ b => execElifs_det a b
  | .ifTrue g1 _, .ifFalse g2 _ => by rw [g1] at g2; simp at g2
  | .ifFalse g1 _, .ifTrue g2 _ => by rw [g1] at g2; simp at g2
  | .loop a, .loop b => execLoop_det a b
  | .fnDef, .fnDef => ⟨rfl, rfl⟩
termination_by structural h1
theorem execCmds_det {xs : List Cmd} {c : Cfg} {o1 o2 : Out} {c1 c2 : Cfg} (h1 : ExecCmds xs c o1 c1) (h2 : ExecCmds xs c o2 c2) : o1 = o2 ∧ c1 = c2 :=
  match h1, h2 with
  | .nil, .nil => ⟨rfl, rfl⟩
  | .cons a1 a2, .cons b1 b2 => by
    obtain ⟨_, e⟩ := execCmd_det a1 b1
    subst e
    exact execCmds_det a2 b2
  | .stop a1 _, .stop b1 _ => execCmd_det a1 b1
  | .cons a1 _, .stop b1 hne => by
    obtain ⟨e, _⟩ := execCmd_det a1 b1
    exact absurd e.symm hne
  | .stop a1 hne, .cons b1 _ => by
    obtain ⟨e, _⟩ := execCmd_det a1 b1
    exact absurd e hne
termination_by structural h1
theorem execElifs_det {es : List (Line × List Cmd)} {els : Option (List Cmd)} {c : Cfg} {o1 o2 : Out} {c1 c2 : Cfg}
    (h1 : ExecElifs es els c o1 c1) (h2 : ExecElifs es els c o2 c2) : o1 = o2 ∧ c1 = c2 :=
  match h1, h2 with
  | .none, .none => ⟨rfl, rfl⟩
  | .els a, .els b => execCmds_det a b
  | .hit _ a, .hit _ b => execCmds_det a b
  | .miss _ a, .miss _ b => execElifs_det a b
  | .hit g1 _, .miss g2 _ => by rw [g1] at g2; simp at g2
  | .miss g1 _, .hit g2 _ => by rw [g1] at g2; simp at g2
termination_by structural h1
theorem execLoop_det {body : List Cmd} {c : Cfg} {o1 o2 : Out} {c1 c2 : Cfg} (h1 : ExecLoop body c o1 c1) (h2 : ExecLoop body c o2 c2) : o1 = o2 ∧ c1 = c2 :=
  match h1, h2 with
  | .next a1 a2, .next b1 b2 => by
    obtain ⟨_, e⟩ := execCmds_det a1 b1
    subst e
    exact execLoop_det a2 b2
  | .cont a1 a2, .cont b1 b2 => by
    obtain ⟨_, e⟩ := execCmds_det a1 b1
    subst e
    exact execLoop_det a2 b2
  | .brk a1, .brk b1 => ⟨rfl, (execCmds_det a1 b1).2⟩
  | .ret a1, .ret b1 => ⟨rfl, (execCmds_det a1 b1).2⟩
  | .exit a1, .exit b1 => by
    obtain ⟨e1, e2⟩ := execCmds_det a1 b1
    exact ⟨e1, e2⟩
  | .next a1 _, .cont b1 _ => by have := (execCmds_det a1 b1).1; simp at this
  | .next a1 _, .brk b1 => by have := (execCmds_det a1 b1).1; simp at this
  | .next a1 _, .ret b1 => by have := (execCmds_det a1 b1).1; simp at this
  | .next a1 _, .exit b1 => by have := (execCmds_det a1 b1).1; simp at this
  | .cont a1 _, .next b1 _ => by have := (execCmds_det a1 b1).1; simp at this
  | .cont a1 _, .brk b1 => by have := (execCmds_det a1 b1).1; simp at this
  | .cont a1 _, .ret b1 => by have := (execCmds_det a1 b1).1; simp at this
  | .cont a1 _, .exit b1 => by have := (execCmds_det a1 b1).1; simp at this
  | .brk a1, .next b1 _ => by have := (execCmds_det a1 b1).1; simp at this
  | .brk a1, .cont b1 _ => by have := (execCmds_det a1 b1).1; simp at this
  | .brk a1, .ret b1 => by have := (execCmds_det a1 b1).1; simp at this
  | .brk a1, .exit b1 => by have := (execCmds_det a1 b1).1; simp at this
  | .ret a1, .next b1 _ => by have := (execCmds_det a1 b1).1; simp at this
  | .ret a1, .cont b1 _ => by have := (execCmds_det a1 b1).1; simp at this
  | .ret a1, .brk b1 => by have := (execCmds_det a1 b1).1; simp at this
  | .ret a1, .exit b1 => by have := (execCmds_det a1 b1).1; simp at this
  | .exit a1, .next b1 _ => by have := (execCmds_det a1 b1).1; simp at this
  | .exit a1, .cont b1 _ => by have := (execCmds_det a1 b1).1; simp at this
  | .exit a1, .brk b1 => by have := (execCmds_det a1 b1).1; simp at this
  | .exit a1, .ret b1 => by have := (execCmds_det a1 b1).1; simp at this
termination_by structural h1
end

/-- whatever the interpreter computes is THE outcome of the relation -/
theorem exec_agrees {fuel : Nat} {xs : List Cmd} {c c1 c2 : Cfg} {o1 o2 : Out}
    (h1 : execCmds fuel xs c = some (o1, c1)) (h2 : ExecCmds xs c o2 c2) : o1 = o2 ∧ c1 = c2 :=
  execCmds_det (execCmds_sound fuel xs c o1 c1 h1) h2

end Tsh.Sem2
