import TshVerif.Lemmas.ParserSigStmt
namespace Tsh.Parser
open Tsh Tsh.Tr Tsh.LexTables

theorem varFold_funcs : ∀ (vs : List Var) (a : Ctx × Bool),
    (vs.foldl (fun (a : Ctx × Bool) v =>
      let e := (assocGet a.1.vars v.name).isSome
      (if !e && v.pub then { a.1 with vars := assocSet a.1.vars v.name v } else a.1, a.2 && e)) a).1.funcs = a.1.funcs := by
  intro vs
  induction vs with
  | nil => intro a; rfl
  | cons v vs ihv =>
    intro a
    simp only [List.foldl_cons]
    rw [ihv]
    dsimp only
    split <;> rfl

theorem declareAll_sub (F : List PT.Sig) (ss : List Stmt) : ∀ x ∈ F, x ∈ PT.declareAll F ss := by
  induction ss generalizing F with
  | nil => intro x hx; exact hx
  | cons s rest ih =>
    intro x hx
    simp only [PT.declareAll, List.foldl_cons]
    exact ih _ x (declare_sub F s x hx)

theorem regStep_funcsIn (acc : Ctx × List Stmt) (st : Stmt) (h : FuncsIn (PT.declareAll [] acc.2) acc.1) :
    FuncsIn (PT.declareAll [] (regStep acc st).2) (regStep acc st).1 := by
  obtain ⟨ctx, out⟩ := acc
  have grow : ∀ x ∈ PT.declareAll [] out, x ∈ PT.declareAll [] (out ++ [st]) := by
    intro x hx; rw [declareAll_snoc]; exact declare_sub _ _ x hx
  cases st with
  | varDef vars vals =>
    simp only [regStep]
    have hf := varFold_funcs vars (ctx, true)
    split
    · exact h.scopes_vars hf
    · exact (h.scopes_vars hf).mono grow
  | funcDef name pub rets params body =>
    simp only [regStep]
    by_cases he : (assocGet ctx.funcs name).isSome = true
    · simp only [he, Bool.not_true, Bool.false_and, Bool.false_eq_true, if_false, if_true]
      exact h
    · have he' : (assocGet ctx.funcs name).isSome = false := by simpa using he
      simp only [he', Bool.not_false, Bool.true_and, Bool.false_eq_true, if_false]
      cases pub with
      | true =>
        simp only [if_true]
        intro e hm
        rcases assocSet_mem hm with h1 | h1
        · exact grow _ (h e h1)
        · subst h1
          rw [declareAll_snoc]
          simp [PT.declare, sigOf]
      | false =>
        simp only [Bool.false_eq_true, if_false]
        exact h.mono grow
  | _ => exact h.mono grow

theorem regFold_funcsIn : ∀ (stmts : List Stmt) (acc : Ctx × List Stmt), FuncsIn (PT.declareAll [] acc.2) acc.1 →
    FuncsIn (PT.declareAll [] (stmts.foldl regStep acc).2) (stmts.foldl regStep acc).1 := by
  intro stmts
  induction stmts with
  | nil => intro acc h; exact h
  | cons st rest ih => intro acc h; simp only [List.foldl_cons]; exact ih _ (regStep_funcsIn acc st h)

theorem registerImported_funcsIn {ctx : Ctx} {stmts : List Stmt} (h : ctx.funcs = []) :
    FuncsIn (PT.declareAll [] (registerImported ctx stmts).2) (registerImported ctx stmts).1 := by
  rw [registerImported_eq]
  exact regFold_funcsIn stmts (ctx, []) (by intro e he; simp [h] at he)

theorem importLoop_funcs {depth : Nat} (fs : FileSys) (path : String) (importing : List String) (multiple : Bool) :
    ∀ (fuel : Nat) (ctx : Ctx) (acc : List Stmt) (s0 s' : PSt) (r : Ctx × List Stmt),
      importLoop depth fs path importing fuel multiple ctx acc s0 = .ok r s' → r.1.funcs = ctx.funcs := by
  intro fuel
  induction fuel with
  | zero => intro ctx acc s0 s' r h; unfold importLoop at h; simp at h
  | succ fuel ih =>
    intro ctx acc s0 s' r h
    unfold importLoop at h
    dsimp only at h
    split at h
    · split at h
      · split at h
        · simp at h
        · split at h
          · split at h
            · simp at h
            · split at h
              · split at h
                · simp only [PRes.ok.injEq] at h
                  obtain ⟨rfl, _⟩ := h
                  rfl
                · split at h
                  · simp only [PRes.ok.injEq] at h
                    obtain ⟨rfl, _⟩ := h
                    rfl
                  · split at h
                    · exact ih { ctx with imports := assocSet ctx.imports _ _ } _ _ _ _ h
                    · simp at h
              · simp at h
              · simp at h
              · simp at h
          · simp at h
          · simp at h
          · simp at h
      · simp at h
      · simp at h
      · simp at h
    · simp at h
    · simp at h
    · simp at h

theorem evalImports_funcsIn {depth : Nat} (fs : FileSys) (path : String) (importing : List String) (fuel : Nat) (s0 s' : PSt)
    (r : Ctx × List Stmt) (h : evalImports depth fs path importing fuel {} s0 = .ok r s') :
    FuncsIn (PT.declareAll [] r.2) r.1 := by
  unfold evalImports at h
  dsimp only at h
  split at h
  · split at h
    · simp only [PRes.ok.injEq] at h
      obtain ⟨rfl, _⟩ := h
      intro e he; simp at he
    · split at h
      · split at h
        · simp at h
        · split at h
          · rename_i c stmts s2 hl
            have hf := importLoop_funcs fs path importing true fuel {} [] _ _ _ hl
            simp only [PRes.ok.injEq] at h
            obtain ⟨rfl, _⟩ := h
            exact registerImported_funcsIn hf
          · simp at h
          · simp at h
          · simp at h
      · split at h
        · rename_i c stmts s2 hl
          have hf := importLoop_funcs fs path importing false fuel {} [] _ _ _ hl
          simp only [PRes.ok.injEq] at h
          obtain ⟨rfl, _⟩ := h
          exact registerImported_funcsIn hf
        · simp at h
        · simp at h
        · simp at h
  · simp at h
  · simp at h
  · simp at h

/-- a file's own statements call functions as they are declared: by the imported statements in front of them, or earlier in
    the file -/
theorem evalProgram_sig (depth : Nat) (fs : FileSys) (path : String) (importing : List String) (fuel : Nat) (s0 s' : PSt)
    (body : List Stmt) (h : evalProgram depth fs path importing fuel s0 = .ok body s') :
    ∃ imported own, body = imported ++ own ∧ PT.sigSs (PT.declareAll [] imported) own = true := by
  unfold evalProgram at h
  split at h
  · rename_i ctx imported s hi
    have hf := evalImports_funcsIn fs path importing fuel _ _ _ hi
    dsimp only at h
    split at h
    · rename_i own s2 hb
      simp only [PRes.ok.injEq] at h
      obtain ⟨rfl, _⟩ := h
      have hc : FuncsIn (PT.declareAll [] imported) { ctx with imports := assocSet ctx.imports s.pfx s.pfx } := hf
      exact ⟨imported, own, rfl, (sigSIH_all sigIH_all fuel).blockContent _ _ _ _ _ hc _ _ _ hb⟩
    · simp at h
    · simp at h
    · simp at h
  · simp at h
  · simp at h
  · simp at h
