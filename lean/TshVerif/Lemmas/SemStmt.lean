/-
  Statements of the scalar fragment: the block structure the bash converter emits for a statement executes,
  in the bash model, as the source semantics says - same output, same exit, environment and store in agreement.
-/
import TshVerif.Lemmas.SemExpr
namespace Tsh.Sem
open Tsh Tsh.Tr Tsh.Bash

/-! ### lines and blocks -/

theorem flats_append (a b : List Cmd) : flats (a ++ b) = flats a ++ flats b := by
  induction a with
  | nil => simp [flats]
  | cons c cs ih => simp [flats, ih]

theorem flats_simples (ls : List Line) : flats (ls.map Cmd.simple) = ls := by
  induction ls with
  | nil => simp [flats]
  | cons l ls ih => simp [flats, flat, ih]

theorem execCmds_append {a b : List Cmd} {c c1 c' : Cfg} {o : Out}
    (h1 : ExecCmds a c .normal c1) (h2 : ExecCmds b c1 o c') : ExecCmds (a ++ b) c o c' := by
  induction a generalizing c with
  | nil => cases h1; exact h2
  | cons x xs ih =>
    cases h1 with
    | cons hx hxs => exact ExecCmds.cons hx (ih hxs)
    | stop hx hne => exact absurd rfl hne

theorem execCmds_stop_append {a : List Cmd} (b : List Cmd) {c c' : Cfg} {o : Out}
    (h1 : ExecCmds a c o c') (hne : o ≠ .normal) : ExecCmds (a ++ b) c o c' := by
  induction a generalizing c with
  | nil => cases h1; exact absurd rfl hne
  | cons x xs ih =>
    cases h1 with
    | cons hx hxs => exact ExecCmds.cons hx (ih hxs)
    | stop hx hne' => exact ExecCmds.stop hx hne'

theorem execCmds_simples {ls : List Line} {c c1 : Cfg} (h : runLines ls c = some c1) :
    ExecCmds (ls.map Cmd.simple) c .normal c1 := by
  induction ls generalizing c with
  | nil => simp [runLines] at h; subst h; exact ExecCmds.nil
  | cons l ls ih =>
    simp only [runLines] at h
    cases hs : stepSimple l c with
    | none => simp [hs] at h
    | some p =>
      obtain ⟨o, c2⟩ := p
      cases o <;> simp [hs] at h
      exact ExecCmds.cons (ExecCmd.simple hs) (ih h)

theorem execCmds_single {x : Cmd} {c c' : Cfg} {o : Out} (h : ExecCmd x c o c') : ExecCmds [x] c o c' := by
  by_cases ho : o = .normal
  · subst ho; exact ExecCmds.cons h ExecCmds.nil
  · exact ExecCmds.stop h ho

/-! ### the shape of the claim for statements -/

/-- new lines, `n` new helper variables, `m` new loop flags -/
def adv2 (s : St) (new : List Line) (n m : Nat) : St :=
  { s with code := new ++ s.code, varCounter := s.varCounter + n, forCounter := s.forCounter + m }

theorem adv_eq_adv2 (s : St) (new : List Line) (n : Nat) : adv s new n = adv2 s new n 0 := rfl
theorem adv2_adv2 (s : St) (a b : List Line) (n1 m1 n2 m2 : Nat) :
    adv2 (adv2 s a n1 m1) b n2 m2 = adv2 s (b ++ a) (n1 + n2) (m1 + m2) := by
  simp [adv2, Nat.add_assoc]
theorem adv2_zero (s : St) : adv2 s [] 0 0 = s := rfl

/-- loop flags below `k` keep their values -/
def FlagFrame (k : Nat) (ρ ρ' : Store) : Prop := ∀ j, j < k → ρ' (flagName j) = ρ (flagName j)

theorem FlagFrame.refl (k : Nat) (ρ : Store) : FlagFrame k ρ ρ := fun _ _ => rfl
theorem FlagFrame.trans {k k' : Nat} {ρ ρ1 ρ2 : Store} (h1 : FlagFrame k ρ ρ1) (h2 : FlagFrame k' ρ1 ρ2) (hk : k ≤ k') :
    FlagFrame k ρ ρ2 := fun j hj => by rw [h2 j (by omega), h1 j hj]
theorem FlagFrame.mono {k k' : Nat} {ρ ρ' : Store} (h : FlagFrame k' ρ ρ') (hk : k ≤ k') : FlagFrame k ρ ρ' :=
  fun j hj => h j (by omega)
theorem FrameH.flags {lo hi k : Nat} {ρ ρ' : Store} (h : FrameH lo hi ρ ρ') : FlagFrame k ρ ρ' :=
  fun j _ => h _ (fun i _ _ => flag_ne_helper j i)

/-- the commands `cmds` do what the source-level execution `src` does -/
def Sim (src : Nat → Src.SCfg → Option (Out × Src.SCfg)) (cmds : List Cmd) (k : Nat) : Prop :=
  ∀ fuel c o c', src fuel c = some (o, c') → ∀ ρ, Agree c.env ρ →
    ∃ ρ', ExecCmds cmds ⟨ρ, c.out⟩ o ⟨ρ', c'.out⟩ ∧ Agree c'.env ρ' ∧ FlagFrame k ρ ρ'

/-- what translating a statement (or a block) from converter state `s` to `s'` achieved -/
def StmtSem (src : Nat → Src.SCfg → Option (Out × Src.SCfg)) (s s' : St) : Prop :=
  ∃ cmds n m, s' = adv2 s (flats cmds).reverse n m ∧ Sim src cmds s.forCounter

theorem StmtSem.funcs {src} {s s' : St} (h : StmtSem src s s') (h0 : s.funcs = []) : s'.funcs = [] := by
  obtain ⟨_, _, _, e, _⟩ := h; rw [e]; exact h0

theorem StmtSem.forCounter {src} {s s' : St} (h : StmtSem src s s') : s.forCounter ≤ s'.forCounter := by
  obtain ⟨_, _, m, e, _⟩ := h; rw [e]; simp [adv2]

theorem StmtSem.fors {src} {s s' : St} (h : StmtSem src s s') : s'.fors = s.fors := by
  obtain ⟨_, _, _, e, _⟩ := h; rw [e]; rfl

/-! ### single assignment -/

theorem agree_set {env : Src.Env} {ρ : Store} (x : String) (v : Src.Val) (hx : goodName x = true) (h : Agree env ρ) :
    Agree (env.set x v) (ρ.set x v.render) := by
  intro y w hy
  by_cases e : y = x
  · subst e
    simp only [Src.Env.set, if_true, Option.some.injEq] at hy
    subst hy
    exact ⟨hx, set_same _ _ _⟩
  · simp only [Src.Env.set, e, if_false] at hy
    obtain ⟨hg, hv⟩ := h y w hy
    exact ⟨hg, by rw [set_other _ _ _ _ e]; exact hv⟩

theorem assign1_ok {x : Var} {e : Expr} {s s' : St} {a : Unit}
    (h : assignValues conv [x] [e] s = .ok (a, s')) :
    ∃ r s1, Tr.evalExpr conv e true s = .ok (r, s1) ∧ s' = { s1 with code := .assign (varName s1 x.name x.global) (firstValue r) :: s1.code } := by
  unfold assignValues at h
  obtain ⟨values, s2, h1, h2⟩ := bind_ok h
  simp only [List.length_cons, List.length_nil, Nat.zero_add] at h1
  unfold assignedValues at h1
  obtain ⟨r, s1, hr, g1⟩ := bind_ok h1
  simp only [show ¬ (1 > 1) by omega, if_false] at g1
  obtain ⟨v, s1', hv, g2⟩ := bind_ok g1
  obtain ⟨ev, es1⟩ := pure_ok hv
  subst ev; subst es1
  obtain ⟨vs, s1'', hvs, g3⟩ := bind_ok g2
  unfold assignedValues at hvs
  obtain ⟨evs, es2⟩ := pure_ok hvs
  subst evs; subst es2
  obtain ⟨eva, es3⟩ := pure_ok g3
  subst eva; subst es3
  refine ⟨r, _, hr, ?_⟩
  unfold storeValues at h2
  obtain ⟨_, s3, h3, h4⟩ := bind_ok h2
  unfold storeValues at h4
  obtain ⟨_, es4⟩ := pure_ok h4
  subst es4
  have h3' : varAssignment x.name (firstValue r) x.global _ = .ok ((), _) := h3
  simp [varAssignment, bind, Tr.get, addLine, Tr.modify] at h3'
  exact h3'.symm

theorem step_assign {t v : String} {k : Nat} {ρ : Store} (out : List String) (x : String) (h : Holds t v k ρ) :
    stepSimple (.assign x t) ⟨ρ, out⟩ = some (.normal, ⟨ρ.set x v, out⟩) := by
  simp only [stepSimple, h.expand]

theorem flagFrame_set {k : Nat} {ρ : Store} (x v : String) (hx : goodName x = true) : FlagFrame k ρ (ρ.set x v) :=
  fun j _ => set_other _ _ _ _ (fun e => good_ne_flag x j hx e.symm)

theorem assign1_sem {x : Var} {e : Expr} (hx : goodName x.name = true) (hf : Src.fragExpr e = true) {s s' : St} (h0 : s.funcs = [])
    (h : assignValues conv [x] [e] s = .ok ((), s')) (src : Nat → Src.SCfg → Option (Out × Src.SCfg))
    (hsrc : ∀ fuel c o c', src fuel c = some (o, c') →
      ∃ v, Src.evalExpr c.env e = some v ∧ o = .normal ∧ c' = { c with env := c.env.set x.name v }) :
    StmtSem src s s' := by
  obtain ⟨r, s1, hr, es'⟩ := assign1_ok h
  obtain ⟨t, new, n, er, e1⟩ := expr_shape e true s r s1 hf h0 hr
  subst er; subst e1
  refine ⟨(new.reverse ++ [Line.assign x.name t]).map Cmd.simple, n, 0, ?_, ?_⟩
  · rw [es', flats_simples, varName_top (adv s new n) h0]
    simp [adv, adv2, firstValue]
  · intro fuel c o c' hs ρ ha
    obtain ⟨v, hv, eo, ec⟩ := hsrc fuel c o c' hs
    subst eo; subst ec
    obtain ⟨ρ1, run1, fr1, hold1⟩ := (expr_sem e true s [t] (adv s new n) c.env v h0 hr hv).at ρ c.out ha
    refine ⟨ρ1.set x.name v.render, ?_, agree_set _ _ hx (fr1.agree ha), ?_⟩
    · apply execCmds_simples
      rw [runLines_append, run1]
      simp only [Option.bind, runLines, step_assign c.out x.name hold1]
    · exact (fr1.flags).trans (flagFrame_set _ _ hx) (Nat.le_refl _)

/-! ### print, panic, break, continue -/

/-- all operand texts read as the values -/
def HoldsAll : List String → List String → Nat → Store → Prop
  | [], [], _, _ => True
  | t :: ts, v :: vs, k, ρ => Holds t v k ρ ∧ HoldsAll ts vs k ρ
  | _, _, _, _ => False

theorem HoldsAll.frame : ∀ {ts vs : List String} {k k' : Nat} {ρ ρ' : Store}, HoldsAll ts vs k ρ → k ≤ k' → FrameH k k' ρ ρ' →
    HoldsAll ts vs k' ρ'
  | [], [], _, _, _, _, _, _, _ => trivial
  | _ :: _, _ :: _, _, _, _, _, h, hk, hf => ⟨h.1.frame hk hf, HoldsAll.frame h.2 hk hf⟩
  | [], _ :: _, _, _, _, _, h, _, _ => h.elim
  | _ :: _, [], _, _, _, _, h, _, _ => h.elim

theorem evalAll_sem : ∀ (es : List Expr) (s : St) (vals : List String) (s' : St), (es.all Src.fragExpr) = true → s.funcs = [] →
    evalAll conv es s = .ok (vals, s') → ∃ new n, s' = adv s new n ∧
      ∀ env vs, Src.evalList env es = some vs → ∀ ρ out, Agree env ρ →
        ∃ ρ', runLines new.reverse ⟨ρ, out⟩ = some ⟨ρ', out⟩ ∧
          FrameH s.varCounter (s.varCounter + n) ρ ρ' ∧ HoldsAll vals (vs.map Src.Val.render) (s.varCounter + n) ρ'
  | [], s, vals, s', _, _, h => by
    unfold evalAll at h
    obtain ⟨ev, es⟩ := pure_ok h
    refine ⟨[], 0, es, ?_⟩
    intro env vs hs ρ out _
    simp only [Src.evalList, Option.some.injEq] at hs
    subst hs; subst ev
    exact ⟨ρ, rfl, FrameH.refl _ _ ρ, trivial⟩
  | e :: rest, s, vals, s', hf, h0, h => by
    unfold evalAll at h
    simp only [List.all_cons, Bool.and_eq_true] at hf
    obtain ⟨r, s1, h1, h⟩ := bind_ok h
    obtain ⟨rs, s2, h2, h⟩ := bind_ok h
    obtain ⟨ev, es⟩ := pure_ok h
    obtain ⟨t, new1, n1, er, e1⟩ := expr_shape e true s r s1 hf.1 h0 h1
    subst er; subst e1
    have h01 : (adv s new1 n1).funcs = [] := h0
    obtain ⟨new2, n2, e2, sem2⟩ := evalAll_sem rest (adv s new1 n1) rs s2 hf.2 h01 h2
    subst e2
    refine ⟨new2 ++ new1, n1 + n2, by rw [es, adv_adv], ?_⟩
    intro env vs hs ρ out ha
    simp only [Src.evalList] at hs
    split at hs
    · rename_i v vs' hv hvs
      simp only [Option.some.injEq] at hs
      subst hs
      obtain ⟨ρ1, run1, fr1, hold1⟩ := (expr_sem e true s [t] (adv s new1 n1) env v h0 h1 hv).at ρ out ha
      obtain ⟨ρ2, run2, fr2, hold2⟩ := sem2 env vs' hvs ρ1 out (fr1.agree ha)
      simp only [adv_varCounter] at fr2 hold2
      have e3 : s.varCounter + (n1 + n2) = s.varCounter + n1 + n2 := by omega
      refine ⟨ρ2, ?_, ?_, ?_⟩
      · rw [List.reverse_append, runLines_append, run1]
        simp only [Option.bind]
        exact run2
      · rw [e3]; exact fr1.trans fr2 (by omega) (by omega)
      · subst ev
        rw [e3]
        exact ⟨hold1.frame (by omega) fr2, hold2⟩
    · simp at hs

theorem holdsAll_intercalate : ∀ {ts vs : List String} {k : Nat} {ρ : Store}, HoldsAll ts vs k ρ →
    Complete ρ (" ".intercalate ts).toList (" ".intercalate vs).toList
  | [], [], _, ρ, _ => by simpa using Complete.nil ρ
  | [t], [v], _, _, h => by simpa using h.1.here
  | t :: t2 :: ts, v :: v2 :: vs, k, ρ, h => by
    rw [String.intercalate_cons_cons, String.intercalate_cons_cons]
    simp only [String.toList_append]
    have hsp : Complete ρ (" " : String).toList (" " : String).toList :=
      complete_plain ρ _ (by intro c hc; simp at hc; subst hc; decide)
    exact (h.1.here.append hsp).append (holdsAll_intercalate h.2)
  | [], _ :: _, _, _, h => h.elim
  | _ :: _, [], _, _, h => h.elim
  | [_], _ :: _ :: _, _, _, h => h.2.elim
  | _ :: _ :: _, [_], _, _, h => h.2.elim

theorem print_sem {es : List Expr} (hf : (es.all Src.fragExpr) = true) {s s' : St} (h0 : s.funcs = [])
    (h : (do let vs ← evalAll conv es; conv.print vs : BM Unit) s = .ok ((), s')) :
    StmtSem (fun fuel c => Src.execStmt fuel (.print es) c) s s' := by
  obtain ⟨vals, s1, h1, h2⟩ := bind_ok h
  obtain ⟨new, n, e1, sem⟩ := evalAll_sem es s vals s1 hf h0 h1
  subst e1
  have h2' : addLine (.echo (" ".intercalate vals)) (adv s new n) = .ok ((), s') := h2
  have es' := addLine_ok h2'
  refine ⟨(new.reverse ++ [Line.echo (" ".intercalate vals)]).map Cmd.simple, n, 0, ?_, ?_⟩
  · rw [es', flats_simples]; simp [adv, adv2]
  · intro fuel c o c' hs ρ ha
    cases fuel with
    | zero => simp [Src.execStmt] at hs
    | succ f =>
      simp only [Src.execStmt] at hs
      split at hs
      · rename_i vs hvs
        simp only [Option.some.injEq, Prod.mk.injEq] at hs
        obtain ⟨rfl, rfl⟩ := hs
        obtain ⟨ρ1, run1, fr1, hold1⟩ := sem c.env vs hvs ρ c.out ha
        refine ⟨ρ1, ?_, fr1.agree ha, fr1.flags⟩
        apply execCmds_simples
        rw [runLines_append, run1]
        simp only [Option.bind, runLines, stepSimple, (holdsAll_intercalate hold1).toExpand]
      · simp at hs

theorem panic_sem {e : Expr} (hf : Src.fragExpr e = true) {s s' : St} (h0 : s.funcs = [])
    (h : (do let r ← Tr.evalExpr conv e true; conv.panic s!"panic: {firstValue r}" : BM Unit) s = .ok ((), s')) :
    StmtSem (fun fuel c => Src.execStmt fuel (.panic e) c) s s' := by
  obtain ⟨r, s1, h1, h2⟩ := bind_ok h
  obtain ⟨t, new, n, er, e1⟩ := expr_shape e true s r s1 hf h0 h1
  subst er; subst e1
  have h2' : (do addLine (.echo ("panic: " ++ t)); addLine .exit1 : BM Unit) (adv s new n) = .ok ((), s') := h2
  obtain ⟨_, s2, h3, h4⟩ := bind_ok h2'
  have e3 := addLine_ok h3
  have e4 := addLine_ok h4
  refine ⟨(new.reverse ++ [Line.echo ("panic: " ++ t)]).map Cmd.simple ++ [Cmd.simple .exit1], n, 0, ?_, ?_⟩
  · rw [e4, e3, flats_append, flats_simples]; simp [adv, adv2, flats, flat]
  · intro fuel c o c' hs ρ ha
    cases fuel with
    | zero => simp [Src.execStmt] at hs
    | succ f =>
      simp only [Src.execStmt] at hs
      split at hs
      · rename_i v hv
        simp only [Option.some.injEq, Prod.mk.injEq] at hs
        obtain ⟨rfl, rfl⟩ := hs
        obtain ⟨ρ1, run1, fr1, hold1⟩ := (expr_sem e true s [t] (adv s new n) c.env v h0 h1 hv).at ρ c.out ha
        refine ⟨ρ1, ?_, fr1.agree ha, fr1.flags⟩
        have hc : Complete ρ1 ("panic: " ++ t).toList ("panic: " ++ v.render).toList := by
          rw [String.toList_append, String.toList_append]
          refine Complete.append (complete_plain ρ1 _ ?_) hold1.here
          intro c hc; simp at hc; rcases hc with rfl | rfl | rfl | rfl | rfl | rfl | rfl <;> decide
        refine execCmds_append (c1 := ⟨ρ1, c.out ++ ["panic: " ++ v.render]⟩) (execCmds_simples ?_) ?_
        · rw [runLines_append, run1]
          simp only [Option.bind, runLines, stepSimple, hc.toExpand]
        · exact execCmds_single (ExecCmd.simple rfl)
      · simp at hs

theorem brk_sem {s s' : St} (h : conv.brk s = .ok ((), s')) : StmtSem (fun fuel c => Src.execStmt fuel .brk c) s s' := by
  have h' : addLine .brk s = .ok ((), s') := h
  have e := addLine_ok h'
  refine ⟨[Cmd.simple .brk], 0, 0, by rw [e]; simp [adv2, flats, flat], ?_⟩
  intro fuel c o c' hs ρ ha
  cases fuel with
  | zero => simp [Src.execStmt] at hs
  | succ f =>
    simp only [Src.execStmt, Option.some.injEq, Prod.mk.injEq] at hs
    obtain ⟨rfl, rfl⟩ := hs
    exact ⟨ρ, ExecCmds.stop (ExecCmd.simple rfl) (by simp), ha, FlagFrame.refl _ _⟩

theorem cont_sem {s s' : St} (h : conv.cont s = .ok ((), s')) : StmtSem (fun fuel c => Src.execStmt fuel .cont c) s s' := by
  have h' : addLine .cont s = .ok ((), s') := h
  have e := addLine_ok h'
  refine ⟨[Cmd.simple .cont], 0, 0, by rw [e]; simp [adv2, flats, flat], ?_⟩
  intro fuel c o c' hs ρ ha
  cases fuel with
  | zero => simp [Src.execStmt] at hs
  | succ f =>
    simp only [Src.execStmt, Option.some.injEq, Prod.mk.injEq] at hs
    obtain ⟨rfl, rfl⟩ := hs
    exact ⟨ρ, ExecCmds.stop (ExecCmd.simple rfl) (by simp), ha, FlagFrame.refl _ _⟩

/-! ### loops -/

/-- the part of a round after the body -/
def srcIncr (incr : Option Stmt) : Nat → Src.SCfg → Option (Out × Src.SCfg) :=
  fun f c => match incr with
    | some i => Src.execStmt f i c
    | none => some (.normal, c)

theorem agree_frame {env : Src.Env} {ρ ρ' : Store} (h : ∀ x, (∀ k, x ≠ helperName k) → ρ' x = ρ x) (ha : Agree env ρ) : Agree env ρ' := by
  intro x v hx
  obtain ⟨hg, hv⟩ := ha x v hx
  exact ⟨hg, by rw [h x (fun k => good_ne_helper x k hg)]; exact hv⟩

theorem step_forCond {tc : String} {b : Bool} {ρ : Store} (out : List String) (h : expand ρ tc = some (boolStr b)) :
    stepSimple (.forCond tc) ⟨ρ, out⟩ = some (if b then .normal else .brk, ⟨ρ, out⟩) := by
  simp only [stepSimple, expandInt, h, Option.bind, asInt_boolStr]
  cases b <;> simp

theorem loop_sim {cond : Expr} {incr : Option Stmt} {body : List Stmt}
    {P : List Cmd} {condLines : List Line} {tc : String} {bodyCmds : List Cmd} {n kb : Nat} (F : Store → Prop)
    (hF : ∀ ρ ρ' : Store, ρ' (flagName n) = ρ (flagName n) → F ρ → F ρ')
    (hcond : ∀ env v, Src.evalExpr env cond = some v → ∀ ρ out, Agree env ρ →
        ∃ ρ', runLines condLines ⟨ρ, out⟩ = some ⟨ρ', out⟩ ∧ (∀ x, (∀ k, x ≠ helperName k) → ρ' x = ρ x) ∧
          expand ρ' tc = some v.render)
    (hbody : Sim (fun f c => Src.execStmts f body c) bodyCmds kb) (hkb : n < kb)
    (hP : ∀ fuel cb c2, srcIncr incr fuel cb = some (.normal, c2) → ∀ ρ, Agree cb.env ρ → F ρ →
        ∃ ρ5, ExecCmds P ⟨ρ, cb.out⟩ .normal ⟨ρ5, c2.out⟩ ∧ Agree c2.env ρ5 ∧ F ρ5 ∧ FlagFrame n ρ ρ5) :
    ∀ fuel c1 o c', Src.execLoop fuel cond incr body c1 = some (o, c') →
      ∀ c0 ρ1, ExecCmds P c0 .normal ⟨ρ1, c1.out⟩ → Agree c1.env ρ1 → F ρ1 →
        ∃ ρ', ExecLoop (P ++ (condLines.map Cmd.simple ++ (Cmd.simple (.forCond tc) :: bodyCmds))) c0 o ⟨ρ', c'.out⟩ ∧
          Agree c'.env ρ' ∧ FlagFrame n ρ1 ρ' := by
  intro fuel
  induction fuel with
  | zero => intro c1 o c' h; simp [Src.execLoop] at h
  | succ f ih =>
    intro c1 o c' h c0 ρ1 hP0 ha hf
    simp only [Src.execLoop] at h
    split at h
    · -- the condition holds
      rename_i hv
      obtain ⟨ρ2, run2, fr2, ex2⟩ := hcond _ _ hv ρ1 c1.out ha
      have ha2 : Agree c1.env ρ2 := agree_frame fr2 ha
      have hfl2 : ρ2 (flagName n) = ρ1 (flagName n) := fr2 _ (fun k => flag_ne_helper n k)
      have hf2 : F ρ2 := hF _ _ hfl2 hf
      have ff2 : FlagFrame n ρ1 ρ2 := fun j _ => fr2 _ (fun k => flag_ne_helper j k)
      have stepc := step_forCond (b := true) c1.out ex2
      simp only [if_true] at stepc
      -- the round up to the body
      have pre : ∀ {ob cb'}, ExecCmds bodyCmds ⟨ρ2, c1.out⟩ ob cb' →
          ExecCmds (P ++ (condLines.map Cmd.simple ++ (Cmd.simple (.forCond tc) :: bodyCmds))) c0 ob cb' := by
        intro ob cb' hb
        exact execCmds_append hP0 (execCmds_append (execCmds_simples run2) (ExecCmds.cons (ExecCmd.simple stepc) hb))
      split at h
      · -- break
        rename_i cb hb
        simp only [Option.some.injEq, Prod.mk.injEq] at h
        obtain ⟨rfl, rfl⟩ := h
        obtain ⟨ρ3, ex3, ha3, ff3⟩ := hbody f c1 _ _ hb ρ2 ha2
        exact ⟨ρ3, ExecLoop.brk (pre ex3), ha3, ff2.trans ff3 (by omega)⟩
      · -- exit
        rename_i k cb hb
        simp only [Option.some.injEq, Prod.mk.injEq] at h
        obtain ⟨rfl, rfl⟩ := h
        obtain ⟨ρ3, ex3, ha3, ff3⟩ := hbody f c1 _ _ hb ρ2 ha2
        exact ⟨ρ3, ExecLoop.exit (pre ex3), ha3, ff2.trans ff3 (by omega)⟩
      · -- the body ended or said `continue`
        rename_i ob cb hnb hne hb
        obtain ⟨ρ3, ex3, ha3, ff3⟩ := hbody f c1 _ _ hb ρ2 ha2
        have hfl3 : ρ3 (flagName n) = ρ2 (flagName n) := ff3 n hkb
        have hf3 : F ρ3 := hF _ _ hfl3 hf2
        have next : ∀ c2, srcIncr incr f cb = some (.normal, c2) → Src.execLoop f cond incr body c2 = some (o, c') →
            ∃ ρ', ExecLoop (P ++ (condLines.map Cmd.simple ++ (Cmd.simple (.forCond tc) :: bodyCmds))) ⟨ρ3, cb.out⟩ o ⟨ρ', c'.out⟩ ∧
              Agree c'.env ρ' ∧ FlagFrame n ρ3 ρ' := by
          intro c2 hi hl
          obtain ⟨ρ5, ex5, ha5, hf5, ff5⟩ := hP f cb c2 hi ρ3 ha3 hf3
          obtain ⟨ρ', exl, ha', ff'⟩ := ih c2 o c' hl ⟨ρ3, cb.out⟩ ρ5 ex5 ha5 hf5
          exact ⟨ρ', exl, ha', ff5.trans ff' (Nat.le_refl _)⟩
        have fin : ∀ ρ', ExecLoop (P ++ (condLines.map Cmd.simple ++ (Cmd.simple (.forCond tc) :: bodyCmds))) ⟨ρ3, cb.out⟩ o ⟨ρ', c'.out⟩ →
            ExecLoop (P ++ (condLines.map Cmd.simple ++ (Cmd.simple (.forCond tc) :: bodyCmds))) c0 o ⟨ρ', c'.out⟩ := by
          intro ρ' hl
          cases ob with
          | normal => exact ExecLoop.next (pre ex3) hl
          | cont => exact ExecLoop.cont (pre ex3) hl
          | brk => simp at hnb
          | exit k => simp at hne
        cases hinc : incr with
        | none =>
          simp only [hinc] at h
          rw [← hinc] at h
          obtain ⟨ρ', exl, ha', ff'⟩ := next cb (by simp [srcIncr, hinc]) h
          exact ⟨ρ', fin ρ' exl, ha', (ff2.trans ff3 (by omega)).trans ff' (Nat.le_refl _)⟩
        | some i =>
          simp only [hinc] at h
          split at h
          · rename_i c2 hi
            rw [← hinc] at h
            obtain ⟨ρ', exl, ha', ff'⟩ := next c2 (by simpa [srcIncr, hinc] using hi) h
            exact ⟨ρ', fin ρ' exl, ha', (ff2.trans ff3 (by omega)).trans ff' (Nat.le_refl _)⟩
          · simp at h
      · simp at h
    · -- the condition fails: the loop ends
      rename_i hv
      simp only [Option.some.injEq, Prod.mk.injEq] at h
      obtain ⟨rfl, rfl⟩ := h
      obtain ⟨ρ2, run2, fr2, ex2⟩ := hcond _ _ hv ρ1 c1.out ha
      have stepc := step_forCond (b := false) c1.out ex2
      simp only [Bool.false_eq_true, if_false] at stepc
      refine ⟨ρ2, ExecLoop.brk ?_, agree_frame fr2 ha, fun j _ => fr2 _ (fun k => flag_ne_helper j k)⟩
      exact execCmds_append hP0 (execCmds_append (execCmds_simples run2) (ExecCmds.stop (ExecCmd.simple stepc) (by simp)))
    · simp at h

end Tsh.Sem
