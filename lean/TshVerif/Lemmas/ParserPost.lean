/-
  A small postcondition calculus for the parser monad `PM`: `Post m Q` = every successful run of `m` returns a value
  with `Q` (the parser state plays no role in the typing facts: contexts are passed explicitly).
-/
import TshVerif.Model.Parser
import Lean
namespace Tsh.Parser

/-- every successful run of `m` returns a value with `Q`, and no run of `m` ends in the `panic` outcome (the places where
    the Go code would index out of range or dereference nil) -/
structure Post {α : Type} (m : PM α) (Q : α → Prop) : Prop where
  ok : ∀ s a s', m s = .ok a s' → Q a
  np : ∀ s, m s ≠ .panic

namespace Post
variable {α β : Type} {Q : α → Prop}

theorem pure' {a : α} (h : Q a) : Post (pure a : PM α) Q :=
  ⟨by intro s b s' hb; simp only [pure, PRes.ok.injEq] at hb; exact hb.1 ▸ h, by intro s; simp [pure]⟩

theorem err : Post (Parser.err : PM α) Q := ⟨by intro s a s' h; simp [Parser.err] at h, by intro s; simp [Parser.err]⟩
theorem div : Post (Parser.div : PM α) Q := ⟨by intro s a s' h; simp [Parser.div] at h, by intro s; simp [Parser.div]⟩

/-- a branch that cannot be reached -/
theorem unreachable {m : PM α} (h : False) : Post m Q := h.elim

theorem bind' {m : PM α} {f : α → PM β} {P : α → Prop} {R : β → Prop}
    (hm : Post m P) (hf : ∀ a, P a → Post (f a) R) : Post (m >>= f) R := by
  constructor
  · intro s b s'' h
    simp only [bind] at h
    cases hx : m s with
    | ok a s' => rw [hx] at h; exact (hf a (hm.ok s a s' hx)).ok s' b s'' h
    | error => simp [hx] at h
    | panic => simp [hx] at h
    | diverge => simp [hx] at h
  · intro s h
    simp only [bind] at h
    cases hx : m s with
    | ok a s' => rw [hx] at h; exact (hf a (hm.ok s a s' hx)).np s' h
    | error => simp [hx] at h
    | panic => exact hm.np s hx
    | diverge => simp [hx] at h

theorem errBind {f : α → PM β} {R : β → Prop} : Post ((Parser.err : PM α) >>= f) R :=
  bind' (P := fun _ => False) err (fun _ h => h.elim)

/-- a computation that always succeeds (the primitives of the parser: token access, state access) -/
theorem prim {m : PM α} (h : ∀ s, ∃ a s', m s = .ok a s') : Post m (fun _ => True) :=
  ⟨fun _ _ _ _ => trivial, by intro s hp; obtain ⟨a, s', e⟩ := h s; rw [e] at hp; simp at hp⟩

theorem peekAt (k : Nat) : Post (Parser.peekAt k) (fun _ => True) := prim fun _ => ⟨_, _, rfl⟩
theorem peek : Post Parser.peek (fun _ => True) := prim fun _ => ⟨_, _, rfl⟩
theorem eat : Post Parser.eat (fun _ => True) := prim fun _ => ⟨_, _, rfl⟩
theorem getS : Post Parser.getS (fun _ => True) := prim fun _ => ⟨_, _, rfl⟩
theorem setS (s : PSt) : Post (Parser.setS s) (fun _ => True) := prim fun _ => ⟨_, _, rfl⟩
theorem findAllowed (a : Nat) (l : List Nat) : Post (Parser.findAllowed a l) (fun _ => True) := prim fun _ => ⟨_, _, rfl⟩
theorem findBefore (a : Nat) (l : List Nat) : Post (Parser.findBefore a l) (fun _ => True) := prim fun _ => ⟨_, _, rfl⟩
theorem isShortVarInit : Post Parser.isShortVarInit (fun _ => True) := prim fun _ => ⟨_, _, rfl⟩
theorem recordCall (n : String) : Post (Parser.recordCall n) (fun _ => True) := prim fun _ => ⟨_, _, rfl⟩

theorem ite' {c : Prop} [Decidable c] {t e : PM α} (ht : c → Post t Q) (he : ¬c → Post e Q) :
    Post (if c then t else e) Q := by
  by_cases h : c
  · simp only [h, if_true]; exact ht h
  · simp only [h, if_false]; exact he h

theorem mono {m : PM α} {P : α → Prop} (h : Post m P) (hpq : ∀ a, P a → Q a) : Post m Q :=
  ⟨fun s a s' hm => hpq a (h.ok s a s' hm), h.np⟩

theorem and {m : PM α} {P : α → Prop} (h1 : Post m P) (h2 : Post m Q) : Post m (fun a => P a ∧ Q a) :=
  ⟨fun s a s' hm => ⟨h1.ok s a s' hm, h2.ok s a s' hm⟩, h1.np⟩

theorem ofOpt {o : Option α} (h : ∀ a, o = some a → Q a) : Post (Parser.ofOpt o) Q := by
  cases o with
  | none => exact err
  | some a => exact pure' (h a rfl)

theorem ofOptAny {o : Option α} : Post (Parser.ofOpt o) (fun _ => True) := ofOpt fun _ _ => trivial

end Post

/-- `Post m (fun _ => True)` for computations built from the primitives with bind / if / pure / err: they cannot panic -/
syntax "pm_np" : tactic
macro_rules
  | `(tactic| pm_np) => `(tactic| first
      | exact Post.peek | exact Post.eat | exact Post.peekAt _ | exact Post.getS | exact Post.setS _
      | exact Post.findAllowed _ _ | exact Post.findBefore _ _ | exact Post.isShortVarInit | exact Post.recordCall _
      | exact Post.ofOptAny | exact Post.err | exact Post.div | exact Post.errBind
      | exact Post.pure' trivial
      | assumption
      | (apply Post.ite' <;> intro _ <;> pm_np)
      | (refine Post.bind' (P := fun _ => True) (by pm_np) (fun _ _ => by pm_np)))

namespace Post
variable {α β : Type}
/-- bind after a computation of which only "does not panic" is needed -/
theorem bindAny {m : PM α} {f : α → PM β} {R : β → Prop} (hf : ∀ a, Post (f a) R)
    (hm : Post m (fun _ => True) := by pm_np) : Post (m >>= f) R :=
  bind' hm (fun a _ => hf a)
end Post

/-- the successful runs only (for facts that need nothing about the crash sites) -/
def PostOk {α : Type} (m : PM α) (Q : α → Prop) : Prop := ∀ s a s', m s = .ok a s' → Q a

namespace PostOk
variable {α β : Type} {Q : α → Prop}
theorem of {m : PM α} (h : Post m Q) : PostOk m Q := h.ok
theorem pure' {a : α} (h : Q a) : PostOk (pure a : PM α) Q := (Post.pure' h).ok
theorem err : PostOk (Parser.err : PM α) Q := by intro s a s' h; simp [Parser.err] at h
theorem pan : PostOk (Parser.pan : PM α) Q := by intro s a s' h; simp [Parser.pan] at h
theorem div : PostOk (Parser.div : PM α) Q := by intro s a s' h; simp [Parser.div] at h
theorem bind' {m : PM α} {f : α → PM β} {P : α → Prop} {R : β → Prop}
    (hm : PostOk m P) (hf : ∀ a, P a → PostOk (f a) R) : PostOk (m >>= f) R := by
  intro s b s'' h
  simp only [bind] at h
  cases hx : m s with
  | ok a s' => rw [hx] at h; exact hf a (hm s a s' hx) s' b s'' h
  | error => simp [hx] at h
  | panic => simp [hx] at h
  | diverge => simp [hx] at h
theorem bindAny {m : PM α} {f : α → PM β} {R : β → Prop} (hf : ∀ a, PostOk (f a) R) : PostOk (m >>= f) R :=
  bind' (P := fun _ => True) (fun _ _ _ _ => trivial) (fun a _ => hf a)
theorem errBind {f : α → PM β} {R : β → Prop} : PostOk ((Parser.err : PM α) >>= f) R :=
  bind' (P := fun _ => False) err (fun _ h => h.elim)
theorem ite' {c : Prop} [Decidable c] {t e : PM α} (ht : c → PostOk t Q) (he : ¬c → PostOk e Q) :
    PostOk (if c then t else e) Q := by
  by_cases h : c
  · simp only [h, if_true]; exact ht h
  · simp only [h, if_false]; exact he h
theorem mono {m : PM α} {P : α → Prop} (h : PostOk m P) (hpq : ∀ a, P a → Q a) : PostOk m Q :=
  fun s a s' hm => hpq a (h s a s' hm)
theorem and {m : PM α} {P : α → Prop} (h1 : PostOk m P) (h2 : PostOk m Q) : PostOk m (fun a => P a ∧ Q a) :=
  fun s a s' hm => ⟨h1 s a s' hm, h2 s a s' hm⟩
theorem ofOpt {o : Option α} (h : ∀ a, o = some a → Q a) : PostOk (Parser.ofOpt o) Q := by
  cases o with
  | none => exact err
  | some a => exact pure' (h a rfl)
end PostOk

macro "po_bind" : tactic => `(tactic| refine PostOk.bindAny ?_)
macro "po_if" : tactic => `(tactic| (apply PostOk.ite' <;> intro _))

open Lean Meta Elab Tactic in
/-- goal `Post (have jp := v; body) Q`  ⟶  `∀ jp, jp = v → Post body Q` (the join points of `do` blocks: the
    continuation is proved once) -/
elab "pm_jp" : tactic => do
  let g ← getMainGoal
  g.withContext do
  let tgt := (← instantiateMVars (← g.getType)).consumeMData
  let args := tgt.getAppArgs
  unless (tgt.getAppFn.isConstOf ``Post || tgt.getAppFn.isConstOf ``PostOk) && args.size == 3 do throwError "pm_jp: not a Post goal"
  let m := args[1]!.consumeMData
  unless m.isLet do throwError "pm_jp: no let"
  let v := m.letValue!
  let ty := m.letType!
  let newTgt ← withLocalDeclD m.letName! ty fun x => do
    let body := m.letBody!.instantiate1 x
    let eq ← mkEq x v
    let inner := mkAppN tgt.getAppFn #[args[0]!, body, args[2]!]
    mkForallFVars #[x] (← mkArrow eq inner)
  let g' ← mkFreshExprSyntheticOpaqueMVar newTgt
  g.assign (mkApp2 g' v (← mkEqRefl v))
  replaceMainGoal [g'.mvarId!]

open Lean Meta Elab Tactic in
/-- beta-reduce the head of the computation of a `Post` goal (nothing else) -/
elab "pm_beta" : tactic => do
  let g ← getMainGoal
  g.withContext do
  let tgt := (← instantiateMVars (← g.getType)).consumeMData
  let args := tgt.getAppArgs
  unless (tgt.getAppFn.isConstOf ``Post || tgt.getAppFn.isConstOf ``PostOk) && args.size == 3 do throwError "pm_beta: not a Post goal"
  let g' ← g.replaceTargetDefEq (mkAppN tgt.getAppFn #[args[0]!, args[1]!.headBeta, args[2]!])
  replaceMainGoal [g']

/-- inline the outermost `have x := v` of the computation -/
macro "pm_zeta" : tactic => `(tactic| (pm_jp; intro _x _hx; subst _hx))

macro "pm_bind" : tactic => `(tactic| refine Post.bindAny ?_)
macro "pm_if" : tactic => `(tactic| (apply Post.ite' <;> intro _))

end Tsh.Parser
