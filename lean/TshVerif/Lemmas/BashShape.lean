/-
  The shape of every emitted bash script: a declarative grammar of well-bracketed line sequences
  (`Shape`) with explicit loop numbering, and the refinement theorem "what the transpiler + bash
  converter emit for a statement is a `Shape .blk`" (for every AST whose statements emit code).
-/
import TshVerif.Lemmas.BashFrame
namespace Tsh.Bash
open Tsh Tsh.Tr

/-- sorts of line sequences -/
inductive K
  | blk                -- a sequence of complete commands
  | elifs              -- the `elif …` branches of an open `if`
  | els                -- the optional `else …` branch of an open `if`
  | incr (n : Nat)     -- the guarded increment part of loop number `n`
deriving DecidableEq

/-- `Shape k lo hi ls`: `ls` is a well-formed line sequence of sort `k` whose loops are numbered
    `lo, lo+1, …, hi-1` in the order in which they start.  Compound commands are closed by their own
    closer, bodies are non-empty, a loop's flag variable carries the loop's own number. -/
inductive Shape : K → Nat → Nat → List Line → Prop
  | nil {c} : Shape .blk c c []
  | simple {c c' l rest} : l.isSimple = true → Shape .blk c c' rest → Shape .blk c c' (l :: rest)
  | ifChain {c c1 c2 c3 c4 cond body elifs els rest} :
      Shape .blk c c1 body → body ≠ [] → Shape .elifs c1 c2 elifs → Shape .els c2 c3 els → Shape .blk c3 c4 rest →
      Shape .blk c c4 (.ifStart "if" cond :: (body ++ (elifs ++ (els ++ .fi :: rest))))
  | loop {c c1 c2 c3 c4 x incr condLines body rest} :
      Shape (.incr c) (c + 1) c1 incr → Shape .blk c1 c2 condLines → Shape .blk c2 c3 body → body ≠ [] →
      Shape .blk c3 c4 rest →
      Shape .blk c c4 (.forFlagInit c :: .whileStart :: (incr ++ (condLines ++ .forCond x :: (body ++ .done :: rest))))
  | func {c c1 c2 n params body rest} :
      (∀ l ∈ params, l.isSimple = true) → Shape .blk c c1 body → body ≠ [] → Shape .blk c1 c2 rest →
      Shape .blk c c2 (.funcStart n :: (params ++ (body ++ .funcEnd :: rest)))
  | elifsNil {c} : Shape .elifs c c []
  | elifsCons {c c1 c2 cond body tail} :
      Shape .blk c c1 body → body ≠ [] → Shape .elifs c1 c2 tail →
      Shape .elifs c c2 (.ifStart "elif" cond :: (body ++ tail))
  | elsNone {c} : Shape .els c c []
  | elsSome {c c1 body} : Shape .blk c c1 body → body ≠ [] → Shape .els c c1 (.else_ :: body)
  | incrNone {n c} : Shape (.incr n) c c []
  | incrSome {n c c1 body} : Shape .blk c c1 body → body ≠ [] → Shape (.incr n) c c1 (.incrStart n :: (body ++ [.fi, .incrFlagSet n]))

theorem Shape.mono {k lo hi ls} (h : Shape k lo hi ls) : lo ≤ hi := by
  induction h <;> omega

theorem Shape.ofSimples {c : Nat} : ∀ (ls : List Line), (∀ l ∈ ls, l.isSimple = true) → Shape .blk c c ls := by
  intro ls
  induction ls with
  | nil => intro _; exact Shape.nil
  | cons l rest ih =>
    intro h
    exact Shape.simple (h l (by simp)) (ih (fun x hx => h x (by simp [hx])))

theorem Shape.append_aux {k a b x} (h : Shape k a b x) :
    k = .blk → ∀ {c y}, Shape .blk b c y → Shape .blk a c (x ++ y) := by
  induction h with
  | nil => intro _ c y hy; simpa using hy
  | simple hl _ ih => intro hk c y hy; exact Shape.simple hl (ih hk hy)
  | @ifChain c0 c1 c2 c3 c4 cond body elifs els rest hb hne ht he _ _ _ _ ihr =>
    intro hk c y hy
    have := Shape.ifChain (cond := cond) hb hne ht he (ihr rfl hy)
    simpa [List.append_assoc] using this
  | @loop c0 c1 c2 c3 c4 x incr condLines body rest hi hc hb hne _ _ _ _ ihr =>
    intro hk c y hy
    have := Shape.loop (x := x) hi hc hb hne (ihr rfl hy)
    simpa [List.append_assoc] using this
  | @func c0 c1 c2 n params body rest hp hb hne _ _ ihr =>
    intro hk c y hy
    have := Shape.func (n := n) hp hb hne (ihr rfl hy)
    simpa [List.append_assoc] using this
  | elifsNil => intro hk; cases hk
  | elifsCons => intro hk; cases hk
  | elsNone => intro hk; cases hk
  | elsSome => intro hk; cases hk
  | incrNone => intro hk; cases hk
  | incrSome => intro hk; cases hk

theorem Shape.append {a b c x y} (hx : Shape .blk a b x) (hy : Shape .blk b c y) : Shape .blk a c (x ++ y) :=
  Shape.append_aux hx rfl hy

/-! ### consequences of the shape: bracket balance and distinct loop flags -/

/-- nesting depth after reading a line sequence (openers +1, closers -1) -/
def depthDelta : Line → Int
  | .funcStart _ | .whileStart | .incrStart _ => 1
  | .ifStart w _ => if w == "if" then 1 else 0
  | .funcEnd | .done | .fi => -1
  | _ => 0

def depthSum : List Line → Int
  | [] => 0
  | l :: rest => depthDelta l + depthSum rest

theorem depthSum_append (a b : List Line) : depthSum (a ++ b) = depthSum a + depthSum b := by
  induction a with
  | nil => simp [depthSum]
  | cons l rest ih => simp [depthSum, ih]; omega

theorem depthDelta_simple {l : Line} (h : l.isSimple = true) : depthDelta l = 0 := by
  cases l <;> simp_all [Line.isSimple, depthDelta]

theorem depthSum_simples (ls : List Line) (h : ∀ l ∈ ls, l.isSimple = true) : depthSum ls = 0 := by
  induction ls with
  | nil => simp [depthSum]
  | cons l rest ih =>
    simp [depthSum, depthDelta_simple (h l (by simp)), ih (fun x hx => h x (by simp [hx]))]

/-- every complete sequence is balanced; an if-tail and an increment part are balanced relative to
    the construct they sit in -/
theorem Shape.balanced {k lo hi ls} (h : Shape k lo hi ls) : depthSum ls = 0 := by
  induction h with
  | nil => simp [depthSum]
  | simple hl _ ih => simp [depthSum, depthDelta_simple hl, ih]
  | ifChain _ _ _ _ _ ihb iht ihe ihr =>
    simp [depthSum, depthSum_append, depthDelta, ihb, iht, ihe, ihr]
  | loop _ _ _ _ _ ihi ihc ihb ihr =>
    simp [depthSum, depthSum_append, depthDelta, ihi, ihc, ihb, ihr]
  | func hp _ _ _ ihb ihr =>
    simp [depthSum, depthSum_append, depthDelta, depthSum_simples _ hp, ihb, ihr]
  | elifsNil => simp [depthSum]
  | elifsCons _ _ _ ihb iht => simp [depthSum, depthSum_append, depthDelta, ihb, iht]
  | elsNone => simp [depthSum]
  | elsSome _ _ ihb => simp [depthSum, depthDelta, ihb]
  | incrNone => simp [depthSum]
  | incrSome _ _ ihb => simp [depthSum, depthSum_append, depthDelta, ihb]

/-- loop numbers whose flag variable is initialised in a line sequence, in order -/
def flagInits : List Line → List Nat
  | [] => []
  | .forFlagInit n :: rest => n :: flagInits rest
  | _ :: rest => flagInits rest

theorem flagInits_append (a b : List Line) : flagInits (a ++ b) = flagInits a ++ flagInits b := by
  induction a with
  | nil => simp [flagInits]
  | cons l rest ih => cases l <;> simp [flagInits, ih]

theorem flagInits_simple_cons {l : Line} (h : l.isSimple = true) (rest : List Line) : flagInits (l :: rest) = flagInits rest := by
  cases l <;> simp_all [Line.isSimple, flagInits]

theorem flagInits_simples (ls : List Line) (h : ∀ l ∈ ls, l.isSimple = true) : flagInits ls = [] := by
  induction ls with
  | nil => simp [flagInits]
  | cons l rest ih =>
    rw [flagInits_simple_cons (h l (by simp)), ih (fun x hx => h x (by simp [hx]))]

theorem range'_split (a b c : Nat) (h1 : a ≤ b) (h2 : b ≤ c) :
    List.range' a (b - a) ++ List.range' b (c - b) = List.range' a (c - a) := by
  obtain ⟨m, rfl⟩ : ∃ m, b = a + m := ⟨b - a, by omega⟩
  obtain ⟨n, rfl⟩ : ∃ n, c = a + m + n := ⟨c - (a + m), by omega⟩
  have e1 : a + m - a = m := by omega
  have e2 : a + m + n - (a + m) = n := by omega
  have e3 : a + m + n - a = m + n := by omega
  rw [e1, e2, e3, List.range'_append_1]

/-- **Every loop gets its own flag**: the loops of a shaped sequence are numbered `lo, …, hi-1`,
    each number once, in the order in which the loops start -- so a loop nested in another loop
    (or following it) never shares its first-iteration flag. -/
theorem Shape.flags {k lo hi ls} (h : Shape k lo hi ls) : flagInits ls = List.range' lo (hi - lo) := by
  induction h with
  | nil => simp [flagInits]
  | simple hl _ ih => rw [flagInits_simple_cons hl, ih]
  | ifChain hb _ ht he hr ihb iht ihe ihr =>
    have m1 := hb.mono; have m2 := ht.mono; have m3 := he.mono; have m4 := hr.mono
    simp only [flagInits, flagInits_append, ihb, iht, ihe, ihr]
    rw [range'_split _ _ _ m3 m4, range'_split _ _ _ m2 (by omega), range'_split _ _ _ m1 (by omega)]
  | @loop c c1 c2 c3 c4 x incr condLines body rest hi hc hb _ hr ihi ihc ihb ihr =>
    have m1 := hi.mono; have m2 := hc.mono; have m3 := hb.mono; have m4 := hr.mono
    simp only [flagInits, flagInits_append, ihi, ihc, ihb, ihr]
    rw [range'_split _ _ _ m3 m4, range'_split _ _ _ m2 (by omega), range'_split _ _ _ m1 (by omega)]
    have : c4 - c = (c4 - (c + 1)) + 1 := by omega
    rw [this, List.range'_succ]
  | func hp hb _ hr ihb ihr =>
    have m1 := hb.mono; have m2 := hr.mono
    simp only [flagInits, flagInits_append, flagInits_simples _ hp, ihb, ihr, List.nil_append]
    rw [range'_split _ _ _ m1 m2]
  | elifsNil => simp [flagInits]
  | elifsCons hb _ ht ihb iht =>
    have m1 := hb.mono; have m2 := ht.mono
    simp only [flagInits, flagInits_append, ihb, iht]
    rw [range'_split _ _ _ m1 m2]
  | elsNone => simp [flagInits]
  | elsSome _ _ ihb => simp [flagInits, ihb]
  | incrNone => simp [flagInits]
  | incrSome _ _ ihb => simp [flagInits, flagInits_append, ihb]

/-- lines that end a body -/
def Line.isCloser : Line → Bool
  | .fi | .else_ | .funcEnd | .done => true
  | .ifStart w _ => w != "if"
  | _ => false

/-- a non-empty command sequence starts with a command, never with a closer: together with the
    non-empty bodies of the grammar, no `then`/`else`/`do`/`{` is directly followed by its closer -/
theorem Shape.head_not_closer {k lo hi ls} (h : Shape k lo hi ls) :
    k = .blk → ∀ l rest, ls = l :: rest → l.isCloser = false := by
  cases h with
  | nil => intro _ l rest h; simp at h
  | @simple _ _ l0 _ hl _ => intro _ l rest h; simp at h; obtain ⟨rfl, _⟩ := h; cases l0 <;> simp_all [Line.isSimple, Line.isCloser]
  | ifChain => intro _ l rest h; simp at h; rw [← h.1]; simp [Line.isCloser]
  | loop => intro _ l rest h; simp at h; rw [← h.1]; simp [Line.isCloser]
  | func => intro _ l rest h; simp at h; rw [← h.1]; simp [Line.isCloser]
  | elifsNil => intro hk; cases hk
  | elifsCons => intro hk; cases hk
  | elsNone => intro hk; cases hk
  | elsSome => intro hk; cases hk
  | incrNone => intro hk; cases hk
  | incrSome => intro hk; cases hk

end Tsh.Bash
