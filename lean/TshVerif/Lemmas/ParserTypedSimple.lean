import TshVerif.Lemmas.ParserTypedCtx
namespace Tsh.Parser
open Tsh Tsh.Tr Tsh.LexTables

theorem varNames_post : ∀ fuel, Post (evalVarNames fuel) (fun ns => ns ≠ []) := by
  intro fuel
  induction fuel with
  | zero => unfold evalVarNames; exact Post.div
  | succ fuel ih =>
    unfold evalVarNames
    pm_bind; intro t
    pm_if
    · exact Post.err
    pm_bind; intro n
    pm_if
    · exact Post.pure' (by simp)
    pm_bind; intro _
    refine Post.bind' ih ?_
    intro rest _
    exact Post.pure' (by simp)

theorem mapM_mkVar {f : Tok → Option Var} {P : Var → Prop} (hf : ∀ t v, f t = some v → P v) :
    ∀ {names : List Tok} {vars : List Var}, names.mapM f = some vars →
      vars.length = names.length ∧ ∀ v ∈ vars, P v := by
  intro names
  induction names with
  | nil => intro vars h; simp at h; subst h; simp
  | cons t ts ih =>
    intro vars h
    rw [List.mapM_cons] at h
    cases h1 : f t with
    | none => simp [h1] at h
    | some v =>
      cases h2 : ts.mapM f with
      | none => simp [h1, h2] at h
      | some vs =>
        simp [h1, h2] at h
        subst h
        obtain ⟨hl, hv⟩ := ih h2
        refine ⟨by simp [hl], ?_⟩
        intro x hx
        rcases List.mem_cons.mp hx with rfl | hx
        · exact hf t x h1
        · exact hv x hx

theorem equals_refl (t : ValueType) : t.equals t = true := by simp [ValueType.equals]

theorem known_unknown_or_basic {spec : ValueType} (h : spec = vtUnknown ∨ PT.basic spec = true) : PT.known spec = true := by
  rcases h with rfl | h
  · rfl
  · exact basic_known h

/-- the type adoption of `evaluateVarDefinition` -/
theorem mapM_adopt
    {f : Var × ValueType → Option Var}
    (hf : ∀ v t, f (v, t) = if (v.vt.dt == DataType.unknown) = true then some { v with vt := t }
            else if v.vt.equals t = true then some v else none) :
    ∀ {vars : List Var} {types : List ValueType} {vars' : List Var},
      (vars.zip types).mapM f = some vars' →
      vars.length = types.length → (∀ v ∈ vars, PT.known v.vt = true) → types.all PT.known = true →
      PT.varsMatch vars' types = true ∧ PT.varsKnown vars' = true ∧ vars'.length = vars.length := by
  intro vars
  induction vars with
  | nil =>
    intro types vars' h hl _ _
    cases types with
    | nil => simp at h; subst h; simp [PT.varsMatch, PT.varsKnown]
    | cons _ _ => simp at hl
  | cons v vs ih =>
    intro types vars' h hl hv hk
    cases types with
    | nil => simp at hl
    | cons t ts =>
      simp only [List.zip_cons_cons] at h
      rw [List.mapM_cons] at h
      simp only [List.all_cons, Bool.and_eq_true] at hk
      have hvs : PT.known v.vt = true := hv v (List.mem_cons_self ..)
      cases h1 : f (v, t) with
      | none => simp [h1] at h
      | some v' =>
        cases h2 : (vs.zip ts).mapM f with
        | none => simp [h1, h2] at h
        | some rest =>
          obtain ⟨m1, m2, m3⟩ := ih h2 (by simpa using hl) (fun x hx => hv x (List.mem_cons_of_mem _ hx)) hk.2
          simp [h1, h2] at h
          subst h
          have hv' : v'.vt.equals t = true ∧ PT.known v'.vt = true := by
            rw [hf] at h1
            by_cases hu : (v.vt.dt == DataType.unknown) = true
            · simp [hu] at h1; subst h1; exact ⟨equals_refl t, hk.1⟩
            · by_cases he : v.vt.equals t = true
              · simp [hu, he] at h1; subst h1; exact ⟨he, hvs⟩
              · simp [hu, he] at h1
          simp only [PT.varsKnown, List.all_eq_true] at m2
          simp [PT.varsMatch, PT.varsKnown, hv'.1, hv'.2, m1, m3]
          exact m2

theorem hasValue_of_dt {e : Expr} (h1 : (Expr.valueType e).dt ≠ .unknown) (h2 : (Expr.valueType e).dt ≠ .multiple) :
    PT.hasValue e = true := by
  simp [PT.hasValue, h1, h2]

theorem hasValue_of_basic {e : Expr} (h : PT.basic (Expr.valueType e) = true) : PT.hasValue e = true := by
  apply hasValue_of_dt <;> (intro hd; simp [PT.basic, hd] at h)

theorem default_ok {vt : ValueType} {e : Expr} (hb : PT.known vt = true) (h : defaultVarValue vt = some e) :
    PT.expr e = true ∧ PT.callArity1 e = true ∧ vt.equals (Expr.valueType e) = true ∧ PT.hasValue e = true := by
  unfold defaultVarValue at h
  obtain ⟨dt, sl⟩ := vt
  cases sl
  · cases dt <;> simp at h <;> subst h <;> simp [PT.expr, PT.callArity1, Expr.valueType, ValueType.equals, PT.hasValue]
  · simp at h
    subst h
    have hb' : basicDt dt = true := by
      cases dt <;> simp_all [PT.known, basicDt]
    refine ⟨?_, ?_, ?_, ?_⟩
    · simp [PT.expr, PT.elems, hb']
    · rfl
    · simp [Expr.valueType, ValueType.equals]
    · apply hasValue_of_dt <;> (simp only [Expr.valueType]; intro hu; simp [hu, basicDt] at hb')

theorem vals1_cons {e : Expr} {rest : List Expr} : PT.vals1 (e :: rest) = true ↔
    PT.expr e = true ∧ PT.callArity1 e = true ∧ PT.hasValue e = true ∧ PT.vals1 rest = true := by
  simp only [PT.vals1, Bool.and_eq_true]
  constructor
  · rintro ⟨⟨⟨h1, h2⟩, h3⟩, h4⟩; exact ⟨h1, h2, h3, h4⟩
  · rintro ⟨h1, h2, h3, h4⟩; exact ⟨⟨⟨h1, h2⟩, h3⟩, h4⟩

theorem mapM_default :
    ∀ {vars : List Var} {vals : List Expr}, vars.mapM (fun v => defaultVarValue v.vt) = some vals →
      (∀ v ∈ vars, PT.known v.vt = true) →
      PT.vals1 vals = true ∧ PT.varsMatch vars (vals.map Expr.valueType) = true ∧ PT.varsKnown vars = true := by
  intro vars
  induction vars with
  | nil => intro vals h _; simp at h; subst h; simp [PT.vals1, PT.varsMatch, PT.varsKnown]
  | cons v vs ih =>
    intro vals h hv
    rw [List.mapM_cons] at h
    have hvs : PT.known v.vt = true := hv v (List.mem_cons_self ..)
    cases h1 : defaultVarValue v.vt with
    | none => simp [h1] at h
    | some e =>
      cases h2 : vs.mapM (fun v => defaultVarValue v.vt) with
      | none => simp [h1, h2] at h
      | some rest =>
        simp [h1, h2] at h
        subst h
        obtain ⟨m1, m2, m3⟩ := ih h2 (fun x hx => hv x (List.mem_cons_of_mem _ hx))
        obtain ⟨d1, d2, d3, d4⟩ := default_ok hvs h1
        simp only [PT.varsKnown, List.all_eq_true] at m3
        refine ⟨vals1_cons.mpr ⟨d1, d2, d4, m1⟩, ?_, ?_⟩
        · simp only [List.map_cons, PT.varsMatch, Bool.and_eq_true]
          exact ⟨d3, m2⟩
        · simp only [PT.varsKnown, List.all_cons, Bool.and_eq_true, List.all_eq_true]
          exact ⟨hvs, m3⟩

theorem multi_single {values : List Expr} {ts : List ValueType} (h : multiReturnTypes values = some ts) :
    ∃ c, values = [c] := by
  unfold multiReturnTypes at h
  split at h
  · exact ⟨_, rfl⟩
  · exact ⟨_, rfl⟩
  · simp at h

theorem multi_eq (values : List Expr) (call : Expr) (ts : List ValueType)
    (h : multiReturnTypes values = some ts) (hv : values = [call]) : PT.multiTypes call = some ts := by
  subst hv
  unfold multiReturnTypes at h
  unfold PT.multiTypes
  cases call <;> simp_all [PT.strT, PT.intT]
  exact h.2 ▸ h.1

theorem valuesTypes_known {first : Bool} {values : List Expr} (h : valsP first values) :
    (valuesTypes values).all PT.known = true := by
  rcases h.2 with h1 | ⟨_, c, rfl, hc, n, rets, args, rfl, hr⟩
  · unfold valuesTypes
    cases hm : multiReturnTypes values with
    | none => exact exprs_known (vals1_exprs h1)
    | some ts =>
      unfold multiReturnTypes at hm
      split at hm
      · rename_i n rets args
        split at hm
        · simp only [Option.some.injEq] at hm; subst hm
          have h1' := (vals1_cons.mp h1).1
          simp only [PT.expr, Bool.and_eq_true] at h1'
          exact all_basic_known h1'.2
        · simp at hm
      · simp at hm; subst hm; rfl
      · simp at hm
  · simp only [exprP, PT.expr, Bool.and_eq_true] at hc
    have := all_basic_known hc.2
    simpa [valuesTypes, multiReturnTypes, hr] using this

/-- definitions, assignments and element assignments: the statements that may stand anywhere -/
def isSimple : Stmt → Bool
  | .varDef _ _ | .varDefCall _ _ | .assign _ _ | .assignCall _ _ | .sliceAssign _ _ _ => true
  | _ => false

def simpleP (st : Stmt) : Prop := stmtP st ∧ isSimple st = true

theorem placed_of_simple {st : Stmt} (h : isSimple st = true) (c : SCtx) : Stmt.placed c st = true := by
  cases st <;> simp_all [isSimple, Stmt.placed]

theorem varDefinition_post (E : ∀ fuel, ExprIH fuel) (fuel : Nat) (ctx : Ctx) (hc : CtxOK ctx) :
    Post (evalVarDefinition fuel ctx) simpleP := by
  unfold evalVarDefinition
  pm_bind; intro short
  pm_jp; intro jp hjp
  have key : ∀ r, Post (jp r) simpleP := by
    intro r; subst hjp; pm_beta
    refine Post.bind' (varNames_post fuel) ?_
    intro names hnames
    pm_bind; intro s
    pm_zeta
    split
    · exact Post.unreachable (hnames rfl)
    rename_i first rest
    pm_zeta
    pm_jp; intro jp2 hjp2
    have key2 : ∀ r, Post (jp2 r) simpleP := by
      intro r; subst hjp2; pm_beta
      refine Post.bind' (P := fun spec => spec = vtUnknown ∨ PT.basic spec = true) ?_ ?_
      · pm_if
        · pm_bind; intro t
          pm_if
          · exact Post.err
          · exact Post.pure' (Or.inl rfl)
        · pm_bind; intro t
          refine Post.bind' (P := fun st => st.1 = vtUnknown ∨ PT.basic st.1 = true) ?_ ?_
          · pm_if
            · refine Post.bind' valueType_post ?_
              intro vt hvt
              pm_bind; intro t'
              exact Post.pure' (Or.inr hvt)
            · exact Post.pure' (Or.inl rfl)
          rintro ⟨spec, t2⟩ hsp
          dsimp only at hsp ⊢
          pm_if
          · exact Post.err
          pm_if
          · pm_bind; intro _
            exact Post.pure' hsp
          · exact Post.pure' hsp
      intro spec hspec
      pm_bind; intro next
      pm_zeta
      pm_jp; intro mkVar hmk
      have hmkv : ∀ t v, mkVar t = some v → PT.known v.vt = true := by
        intro t v h
        subst hmk
        dsimp only at h
        split at h
        · rename_i v0 hf0
          split at h
          · simp at h
          · simp only [Option.some.injEq] at h; subst h
            dsimp only
            split
            · obtain ⟨e, he, rfl⟩ := findVar_mem hf0
              exact hc.vars e he
            · exact known_unknown_or_basic hspec
        · simp only [Option.some.injEq] at h; subst h; exact known_unknown_or_basic hspec
      refine Post.bind' (P := fun vars => vars.length = (first :: rest).length ∧ ∀ v ∈ vars, PT.known v.vt = true)
        (Post.ofOpt (fun vars h => mapM_mkVar hmkv h)) ?_
      intro vars hvars
      pm_if
      · refine Post.bind' ((E fuel).values ctx true hc) ?_
        intro values hvals
        pm_zeta
        pm_if
        · exact Post.err
        pm_if
        · exact Post.err
        rename_i hlen _
        have hlen' : vars.length = (valuesTypes values).length := by
          have := hlen; simp at this; exact this.symm
        refine Post.bind' (P := fun vars' => PT.varsMatch vars' (valuesTypes values) = true ∧ PT.varsKnown vars' = true ∧
            vars'.length = vars.length) (Post.ofOpt (fun vars' h =>
              mapM_adopt (fun _ _ => rfl) h hlen' hvars.2 (valuesTypes_known hvals))) ?_
        intro vars' hv'
        have hne : vars'.isEmpty = false := by
          cases vars' with
          | nil => simp [hvars.1] at hv'
          | cons _ _ => rfl
        cases hm : multiReturnTypes values with
        | some ts =>
          obtain ⟨call, rfl⟩ := multi_single hm
          simp only []
          refine Post.pure' ⟨?_, rfl⟩
          have hmt := multi_eq [call] call ts hm rfl
          have hcall : PT.expr call = true := by
            rcases hvals.2 with h1 | ⟨_, c, hc1, hc2, _⟩
            · exact (vals1_cons.mp h1).1
            · simp only [List.cons.injEq, and_true] at hc1; subst hc1; exact hc2
          have htypes : valuesTypes [call] = ts := by simp [valuesTypes, hm]
          simp only [stmtP, PT.stmt, hcall, hne, hv'.2.1, hmt, htypes ▸ hv'.1, Bool.not_false, Bool.and_self]
        | none =>
          simp only []
          refine Post.pure' ⟨?_, rfl⟩
          have h1 : PT.vals1 values = true := by
            rcases hvals.2 with h1 | ⟨_, c, rfl, _, n, rets, args, rfl, hr⟩
            · exact h1
            · simp [multiReturnTypes, hr] at hm
          have htypes : valuesTypes values = values.map Expr.valueType := by simp [valuesTypes, hm]
          simp only [stmtP, PT.stmt, h1, hne, hv'.2.1, htypes ▸ hv'.1, Bool.not_false, Bool.and_self]
      · refine Post.bind' (P := fun values => PT.vals1 values = true ∧ PT.varsMatch vars (values.map Expr.valueType) = true ∧
            PT.varsKnown vars = true) (Post.ofOpt (fun values h => mapM_default h hvars.2)) ?_
        intro values hv
        refine Post.pure' ⟨?_, rfl⟩
        have hne : vars.isEmpty = false := by
          cases vars with
          | nil => simp at hvars
          | cons _ _ => rfl
        simp only [stmtP, PT.stmt, hv.1, hv.2.1, hv.2.2, hne, Bool.not_false, Bool.and_self]
    pm_if
    · pm_zeta
      pm_if
      · exact Post.errBind
      pm_if
      · exact Post.errBind
      pm_if
      · exact Post.errBind
      · exact key2 ()
    · pm_if
      · exact Post.errBind
      · exact key2 ()
  pm_if
  · pm_bind; intro v
    pm_if
    · exact Post.errBind
    · exact key ()
  · exact key ()
theorem single_type {first : Bool} {value : Expr} {rest : List Expr} {t : ValueType} (hv : valsP first (value :: rest))
    (ht : valuesTypes (value :: rest) = [t]) :
    rest = [] ∧ t = Expr.valueType value ∧ PT.expr value = true ∧ PT.hasValue value = true := by
  unfold valuesTypes at ht
  cases hm : multiReturnTypes (value :: rest) with
  | none =>
    simp only [hm, List.map_cons, List.cons.injEq, List.map_eq_nil_iff] at ht
    rcases hv.2 with h1 | ⟨_, c, hc1, _, n, rets, args, hc3, hr⟩
    · obtain ⟨he, _, hu, _⟩ := vals1_cons.mp h1
      exact ⟨ht.2, ht.1.symm, he, hu⟩
    · exfalso
      simp only [List.cons.injEq] at hc1
      obtain ⟨rfl, rfl⟩ := hc1
      subst hc3
      simp [multiReturnTypes, hr] at hm
  | some ts =>
    exfalso
    simp only [hm] at ht
    subst ht
    unfold multiReturnTypes at hm
    split at hm
    · split at hm
      · simp only [Option.some.injEq] at hm
        rename_i h; rw [hm] at h; simp at h
      · simp at hm
    · simp at hm
    · simp at hm

theorem compound_shape {values : List Expr} (hv : valsP true values) (hlen : ¬ (valuesTypes values).length > 1) :
    ∃ t value rest, valuesTypes values = [t] ∧ values = value :: rest := by
  obtain ⟨value, rest, rfl⟩ : ∃ value rest, values = value :: rest := by
    cases values with
    | nil => exact absurd rfl hv.1
    | cons a b => exact ⟨a, b, rfl⟩
  unfold valuesTypes at hlen ⊢
  cases hm : multiReturnTypes (value :: rest) with
  | some ts =>
    exfalso
    simp only [hm] at hlen
    unfold multiReturnTypes at hm
    split at hm
    · split at hm
      · simp only [Option.some.injEq] at hm; rename_i h; rw [hm] at h; exact hlen h
      · simp at hm
    · simp only [Option.some.injEq] at hm; subst hm; simp at hlen
    · simp at hm
  | none =>
    simp only [hm, List.map_cons, List.length_cons, List.length_map] at hlen ⊢
    have : rest = [] := by
      cases rest with
      | nil => rfl
      | cons _ _ => simp at hlen
    subst this
    exact ⟨_, _, _, rfl, rfl⟩

theorem compound_post (E : ∀ fuel, ExprIH fuel) (fuel : Nat) (ctx : Ctx) (hc : CtxOK ctx) :
    Post (evalCompoundAssignment fuel ctx) simpleP := by
  unfold evalCompoundAssignment
  refine Post.bind' (varNames_post fuel) ?_
  intro names hnames
  split
  · rename_i nameTok
    pm_bind; intro a
    pm_if
    · exact Post.err
    refine Post.bind' ((E fuel).values ctx true hc) ?_
    intro values hvals
    pm_zeta
    pm_if
    · exact Post.err
    pm_bind; intro s
    split
    · rename_i v t value rest hf ht hv
      pm_if
      · exact Post.err
      pm_zeta
      pm_if
      · exact Post.err
      refine Post.pure' ⟨?_, rfl⟩
      obtain ⟨hr, rfl, he, hu⟩ := single_type hvals hv
      have hk := hc.var hf
      have hb := allowedBinary_ok (vt := Expr.valueType value) (op := (a.val.take 1).toString) (by simp_all)
      have heq : Expr.valueType value = v.vt := by simp_all
      rw [← heq] at hk
      have hasBin : PT.hasValue (Expr.binary (a.val.take 1).toString (Expr.varEval v) value) = true := by
        apply hasValue_of_dt <;>
          (simp only [Expr.valueType, ← heq]; intro hd; simp [binaryAllowed, hd] at hb)
      have hbin : PT.expr (Expr.binary (a.val.take 1).toString (Expr.varEval v) value) = true := by
        simp only [PT.expr, Expr.valueType, he, ← heq, hk, equals_refl, hb, Bool.and_self]
      have h1 : PT.vals1 [Expr.binary (a.val.take 1).toString (Expr.varEval v) value] = true :=
        vals1_cons.mpr ⟨hbin, rfl, hasBin, rfl⟩
      simp only [stmtP, PT.stmt, h1, List.map_cons, List.map_nil, PT.varsMatch, Expr.valueType, equals_refl, PT.varsKnown,
        List.all_cons, List.all_nil, ← heq, hk, List.isEmpty_cons, Bool.not_false, Bool.and_self]
    · exact Post.err
    · rename_i _ _ _ hno2 hlen hno1
      refine Post.unreachable ?_
      obtain ⟨t, value, rest, ht, hvs⟩ := compound_shape hvals hlen
      cases hfv : ctx.findVar nameTok.val s.pfx ctx.global with
      | none => exact hno2 hfv
      | some v => exact hno1 v t value rest hfv ht hvs
  · exact Post.unreachable (hnames rfl)
  · exact Post.err

theorem mapM_assign {f : Tok × ValueType → Option Var} {ctx : Ctx} {pfx : String} {g : Bool} (hc : CtxOK ctx)
    (hf : ∀ t vt, f (t, vt) = match ctx.findVar t.val pfx g with
        | some v => if (vt == v.vt) = true then some v else none
        | none => none) :
    ∀ {names : List Tok} {types : List ValueType} {vars : List Var},
      (names.zip types).mapM f = some vars → names.length = types.length →
      PT.varsMatch vars types = true ∧ PT.varsKnown vars = true ∧ vars.length = names.length := by
  intro names
  induction names with
  | nil =>
    intro types vars h hl
    cases types with
    | nil => simp at h; subst h; simp [PT.varsMatch, PT.varsKnown]
    | cons _ _ => simp at hl
  | cons n ns ih =>
    intro types vars h hl
    cases types with
    | nil => simp at hl
    | cons t ts =>
      simp only [List.zip_cons_cons] at h
      rw [List.mapM_cons] at h
      cases h1 : f (n, t) with
      | none => simp [h1] at h
      | some v =>
        cases h2 : (ns.zip ts).mapM f with
        | none => simp [h1, h2] at h
        | some rest =>
          obtain ⟨m1, m2, m3⟩ := ih h2 (by simpa using hl)
          simp [h1, h2] at h
          subst h
          rw [hf] at h1
          split at h1
          · rename_i v' hv'
            split at h1
            · rename_i heq
              simp only [Option.some.injEq] at h1
              subst h1
              have hk := hc.var hv'
              simp only [beq_iff_eq] at heq
              simp only [PT.varsKnown, List.all_eq_true] at m2
              simp [PT.varsMatch, PT.varsKnown, ← heq, equals_refl, m1, m3]
              exact ⟨heq ▸ hk, m2⟩
            · simp at h1
          · simp at h1

theorem varAssignment_post (E : ∀ fuel, ExprIH fuel) (fuel : Nat) (ctx : Ctx) (hc : CtxOK ctx) :
    Post (evalVarAssignment fuel ctx) simpleP := by
  unfold evalVarAssignment
  refine Post.bind' (varNames_post fuel) ?_
  intro names _
  pm_bind; intro a
  pm_if
  · exact Post.err
  refine Post.bind' ((E fuel).values ctx true hc) ?_
  intro values hvals
  pm_zeta
  pm_if
  · exact Post.err
  rename_i hlen
  pm_bind; intro s
  refine Post.bind' (P := fun vars => PT.varsMatch vars (valuesTypes values) = true ∧ PT.varsKnown vars = true ∧
      vars.length = names.length) (Post.ofOpt (fun vars h =>
        mapM_assign hc (fun _ _ => rfl) h (by simpa using hlen))) ?_
  intro vars hv
  have hne : vars.isEmpty = false := by
    cases vars with
    | nil =>
      exfalso
      have h0 : names.length = 0 := by simpa using hv.2.2.symm
      have h1 : (valuesTypes values).length = 0 := by
        have := hlen; simp at this; omega
      have hvne := hvals.1
      unfold valuesTypes at h1
      cases hm : multiReturnTypes values with
      | none => simp [hm] at h1; exact hvne h1
      | some ts =>
        simp [hm] at h1
        subst h1
        unfold multiReturnTypes at hm
        split at hm
        · split at hm
          · rename_i h; simp at hm; rw [hm] at h; simp at h
          · simp at hm
        · simp at hm
        · simp at hm
    | cons _ _ => rfl
  cases hm : multiReturnTypes values with
  | some ts =>
    obtain ⟨call, rfl⟩ := multi_single hm
    simp only []
    refine Post.pure' ⟨?_, rfl⟩
    have hmt := multi_eq [call] call ts hm rfl
    have hcall : PT.expr call = true := by
      rcases hvals.2 with h1 | ⟨_, c, hc1, hc2, _⟩
      · exact (vals1_cons.mp h1).1
      · simp only [List.cons.injEq, and_true] at hc1; subst hc1; exact hc2
    have htypes : valuesTypes [call] = ts := by simp [valuesTypes, hm]
    simp only [stmtP, PT.stmt, hcall, hne, hv.2.1, hmt, htypes ▸ hv.1, Bool.not_false, Bool.and_self]
  | none =>
    simp only []
    refine Post.pure' ⟨?_, rfl⟩
    have h1 : PT.vals1 values = true := by
      rcases hvals.2 with h1 | ⟨_, c, rfl, _, n, rets, args, rfl, hr⟩
      · exact h1
      · simp [multiReturnTypes, hr] at hm
    have htypes : valuesTypes values = values.map Expr.valueType := by simp [valuesTypes, hm]
    simp only [stmtP, PT.stmt, h1, hne, hv.2.1, htypes ▸ hv.1, Bool.not_false, Bool.and_self]

theorem sliceAssignment_post (E : ∀ fuel, ExprIH fuel) (fuel : Nat) (ctx : Ctx) (hc : CtxOK ctx) :
    Post (evalSliceAssignment fuel ctx) simpleP := by
  unfold evalSliceAssignment
  pm_bind; intro nameTok
  pm_if
  · exact Post.err
  pm_bind; intro s
  split
  · exact Post.err
  rename_i v hf
  pm_if
  · exact Post.err
  pm_bind; intro o
  pm_if
  · exact Post.err
  refine Post.bind' ((E fuel).expression ctx hc) ?_
  intro index hi
  pm_if
  · exact Post.err
  pm_bind; intro c
  pm_if
  · exact Post.err
  pm_bind; intro a
  pm_if
  · exact Post.err
  refine Post.bind' ((E fuel).expression ctx hc) ?_
  intro value hval
  pm_if
  · exact Post.err
  refine Post.pure' ⟨?_, rfl⟩
  have hk := hc.var hf
  simp_all [stmtP, PT.stmt, exprP]

theorem incDec_post (ctx : Ctx) (hc : CtxOK ctx) : Post (evalIncDec ctx) simpleP := by
  unfold evalIncDec
  pm_bind; intro t
  pm_if
  · exact Post.err
  pm_bind; intro s
  split
  · exact Post.err
  rename_i v hf
  pm_if
  · exact Post.err
  rename_i hint
  have hk := hc.var hf
  have hv : v.vt = ⟨.int, false⟩ := by
    obtain ⟨n, ⟨dt, sl⟩, g, p⟩ := v
    simp [ValueType.isInt] at hint
    simp [hint]
  have fin : ∀ b, stmtP (incDecStmt v b) := by
    intro b
    cases b <;>
      simp [stmtP, incDecStmt, PT.stmt, PT.vals1, PT.expr, PT.callArity1, PT.varsMatch, PT.varsKnown, Expr.valueType, hv,
        ValueType.equals, binaryAllowed, PT.known, PT.hasValue]
  pm_bind; intro o
  pm_if
  · exact Post.pure' ⟨fin true, rfl⟩
  pm_if
  · exact Post.pure' ⟨fin false, rfl⟩
  · exact Post.err

theorem params_post (ctx : Ctx) : ∀ (fuel : Nat) (acc : List Var), acc.all (fun p => PT.basic p.vt) = true →
    Post (evalParams fuel ctx acc) (fun ps => ps.all (fun p => PT.basic p.vt) = true) := by
  intro fuel
  induction fuel with
  | zero => intro acc _; unfold evalParams; exact Post.div
  | succ fuel ih =>
    intro acc hacc
    unfold evalParams
    pm_bind; intro t
    pm_if
    · exact Post.pure' hacc
    pm_if
    · exact Post.err
    pm_bind; intro _
    pm_bind; intro s
    pm_if
    · exact Post.err
    refine Post.bind' valueType_post ?_
    intro vt hvt
    pm_bind; intro n
    pm_if
    · exact Post.err
    pm_zeta
    pm_if
    · pm_bind; intro _
      exact ih _ (by simp [hacc, hvt])
    · exact ih _ (by simp [hacc, hvt])

theorem returnTypes_post : ∀ (fuel : Nat) (multiple : Bool) (acc : List ValueType), acc.all PT.basic = true →
    Post (evalReturnTypes fuel multiple acc) (fun ts => ts.all PT.basic = true) := by
  intro fuel
  induction fuel with
  | zero => intro m acc _; unfold evalReturnTypes; exact Post.div
  | succ fuel ih =>
    intro m acc hacc
    unfold evalReturnTypes
    pm_bind; intro t
    refine Post.bind' (P := fun ts => ts.all PT.basic = true) ?_ ?_
    · pm_if
      · refine Post.bind' valueType_post ?_
        intro vt hvt
        exact Post.pure' (by simp [hacc, hvt])
      · exact Post.pure' hacc
    intro acc' hacc'
    pm_if
    · exact Post.pure' hacc'
    pm_bind; intro n
    pm_if
    · exact Post.pure' hacc'
    pm_if
    · exact Post.err
    · exact ih _ _ hacc'
