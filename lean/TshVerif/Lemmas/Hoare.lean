/-
  Total-correctness triples for the converter monad and the TYPED walk: if every converter operation, used on
  operands the typing discipline allows, runs and keeps an invariant (indexed by an abstract snapshot `κ` of the
  construct stacks for the structural operations), then the walk over every typed and well-placed statement
  runs -- no error, no panic -- and gives the invariant back.  Generic over the converter.
-/
import TshVerif.Model.Typed
namespace Tsh.Tr
open Tsh

/-- `{pre} m {post}`: from every state satisfying `pre`, `m` succeeds and the result satisfies `post` -/
def Triple {σ α : Type} (pre : σ → Prop) (m : EM σ α) (post : α → σ → Prop) : Prop :=
  ∀ s, pre s → ∃ a s', m s = .ok (a, s') ∧ post a s'

theorem Triple.pure {σ α : Type} {pre : σ → Prop} (a : α) : Triple pre (Pure.pure a : EM σ α) (fun b s => b = a ∧ pre s) :=
  fun s h => ⟨a, s, rfl, rfl, h⟩

theorem Triple.bind {σ α β : Type} {p : σ → Prop} {q : α → σ → Prop} {r : β → σ → Prop} {x : EM σ α} {f : α → EM σ β}
    (hx : Triple p x q) (hf : ∀ a, Triple (q a) (f a) r) : Triple p (x >>= f) r := by
  intro s hs
  obtain ⟨a, s1, h1, hq⟩ := hx s hs
  obtain ⟨b, s2, h2, hr⟩ := hf a s1 hq
  exact ⟨b, s2, by simp [Bind.bind, h1, h2], hr⟩

theorem Triple.weaken {σ α : Type} {p p' : σ → Prop} {q q' : α → σ → Prop} {m : EM σ α}
    (h : Triple p m q) (hp : ∀ s, p' s → p s) (hq : ∀ a s, q a s → q' a s) : Triple p' m q' := by
  intro s hs
  obtain ⟨a, s', h1, h2⟩ := h s (hp s hs)
  exact ⟨a, s', h1, hq a s' h2⟩

/-- `m` runs and keeps `I` -/
def Keeps {σ α : Type} (I : σ → Prop) (m : EM σ α) : Prop := Triple I m (fun _ s => I s)
/-- `m` runs, keeps `I`, and its result satisfies `Q` -/
def KeepsQ {σ α : Type} (I : σ → Prop) (m : EM σ α) (Q : α → Prop) : Prop := Triple I m (fun a s => I s ∧ Q a)

theorem KeepsQ.keeps {σ α : Type} {I : σ → Prop} {m : EM σ α} {Q : α → Prop} (h : KeepsQ I m Q) : Keeps I m :=
  h.weaken (fun _ hs => hs) (fun _ _ hq => hq.1)

theorem Keeps.toQ {σ α : Type} {I : σ → Prop} {m : EM σ α} (h : Keeps I m) : KeepsQ I m (fun _ => True) :=
  h.weaken (fun _ hs => hs) (fun _ _ hq => ⟨hq, trivial⟩)

theorem keeps_pure {σ α : Type} {I : σ → Prop} (a : α) : Keeps I (Pure.pure a : EM σ α) :=
  (Triple.pure a).weaken (fun _ h => h) (fun _ _ h => h.2)

theorem keepsQ_pure {σ α : Type} {I : σ → Prop} {Q : α → Prop} (a : α) (h : Q a) : KeepsQ I (Pure.pure a : EM σ α) Q :=
  (Triple.pure a).weaken (fun _ h => h) (fun b _ hb => ⟨hb.2, hb.1 ▸ h⟩)

theorem keeps_bind {σ α β : Type} {I : σ → Prop} {x : EM σ α} {f : α → EM σ β} (hx : Keeps I x) (hf : ∀ a, Keeps I (f a)) :
    Keeps I (x >>= f) := Triple.bind hx hf

theorem keepsQ_bind {σ α β : Type} {I : σ → Prop} {Q : β → Prop} {x : EM σ α} {f : α → EM σ β} (hx : Keeps I x) (hf : ∀ a, KeepsQ I (f a) Q) :
    KeepsQ I (x >>= f) Q := Triple.bind hx hf

/-- bind that uses what is known about the intermediate result -/
theorem keepsQ_bindQ {σ α β : Type} {I : σ → Prop} {P : α → Prop} {Q : β → Prop} {x : EM σ α} {f : α → EM σ β}
    (hx : KeepsQ I x P) (hf : ∀ a, P a → KeepsQ I (f a) Q) : KeepsQ I (x >>= f) Q := by
  intro s hs
  obtain ⟨a, s1, h1, hi, hp⟩ := hx s hs
  obtain ⟨b, s2, h2, hr⟩ := hf a hp s1 hi
  exact ⟨b, s2, by simp [Bind.bind, h1, h2], hr⟩

/-! ### expression-level operations, used as the typing discipline allows -/

structure TExprOps {σ : Type} (cv : Conv σ) (I : σ → Prop) : Prop where
  stringToString : ∀ s, Keeps I (cv.stringToString s)
  varDefinition : ∀ n v g, Keeps I (cv.varDefinition n v g)
  unaryOperation : ∀ e t u, Keeps I (cv.unaryOperation e "!" t u)
  binaryOperation : ∀ l o r t u, binaryAllowed t o = true → Keeps I (cv.binaryOperation l o r t u)
  comparison : ∀ l o r t u, compareAllowed t o = true → Keeps I (cv.comparison l o r t u)
  logicalOperation : ∀ l o r t u, (o == "&&" || o == "||") = true → Keeps I (cv.logicalOperation l o r t u)
  varEvaluation : ∀ n u g, Keeps I (cv.varEvaluation n u g)
  sliceInstantiation : ∀ vs u, Keeps I (cv.sliceInstantiation vs u)
  sliceEvaluation : ∀ n i u, Keeps I (cv.sliceEvaluation n i u)
  sliceLen : ∀ n u, Keeps I (cv.sliceLen n u)
  stringSubscript : ∀ v a b u, Keeps I (cv.stringSubscript v a b u)
  stringLen : ∀ v u, Keeps I (cv.stringLen v u)
  funcCall : ∀ n a r u, KeepsQ I (cv.funcCall n a r u) (fun vs => u = true → vs.length = r.length)
  appCall : ∀ cs u, KeepsQ I (cv.appCall cs u) (fun vs => u = true → vs.length = 3)
  input : ∀ p u, Keeps I (cv.input p u)
  copy : ∀ d s u g, Keeps I (cv.copy d s u g)
  exists_ : ∀ p u, Keeps I (cv.exists_ p u)
  readFile : ∀ p u, Keeps I (cv.readFile p u)

section
variable {σ : Type} (cv : Conv σ) (I : σ → Prop) (ops : TExprOps cv I)
include ops

/-- what is known about the values of a used expression: as many as its arity -/
def ArityOK (e : Expr) (used : Bool) (vs : List String) : Prop := used = true → vs.length = e.arity

mutual
/-- **Typed expressions run** (for every converter whose operations run on typed operands). -/
theorem evalExpr_typed (e : Expr) (h : e.typed = true) (used : Bool) : KeepsQ I (evalExpr cv e used) (ArityOK e used) := by
  match e with
  | .boolLit b => unfold evalExpr; exact keepsQ_pure _ (fun _ => rfl)
  | .intLit n => unfold evalExpr; exact keepsQ_pure _ (fun _ => rfl)
  | .strLit s => unfold evalExpr; exact keepsQ_bind (ops.stringToString s) (fun _ => keepsQ_pure _ (fun _ => rfl))
  | .unary op x vt =>
    simp only [Expr.typed, Bool.and_eq_true, beq_iff_eq] at h
    obtain ⟨⟨⟨rfl, hx⟩, _⟩, _⟩ := h
    unfold evalExpr
    exact keepsQ_bind (evalExpr_typed x hx true).keeps (fun _ => keepsQ_bind (ops.unaryOperation _ _ _) (fun _ => keepsQ_pure _ (fun _ => rfl)))
  | .binary op l r =>
    simp only [Expr.typed, Bool.and_eq_true] at h
    obtain ⟨⟨⟨hl, hr⟩, _⟩, ha⟩ := h
    unfold evalExpr
    exact keepsQ_bind (evalExpr_typed l hl true).keeps (fun _ => keepsQ_bind (evalExpr_typed r hr true).keeps (fun _ =>
      keepsQ_bind (ops.binaryOperation _ _ _ _ _ ha) (fun _ => keepsQ_pure _ (fun _ => rfl))))
  | .compare op l r =>
    simp only [Expr.typed, Bool.and_eq_true] at h
    obtain ⟨⟨⟨hl, hr⟩, _⟩, ha⟩ := h
    unfold evalExpr
    exact keepsQ_bind (evalExpr_typed l hl true).keeps (fun _ => keepsQ_bind (evalExpr_typed r hr true).keeps (fun _ =>
      keepsQ_bind (ops.comparison _ _ _ _ _ ha) (fun _ => keepsQ_pure _ (fun _ => rfl))))
  | .logical op l r =>
    simp only [Expr.typed, Bool.and_eq_true] at h
    obtain ⟨⟨⟨⟨hl, hr⟩, _⟩, _⟩, ha⟩ := h
    unfold evalExpr
    exact keepsQ_bind (evalExpr_typed l hl true).keeps (fun _ => keepsQ_bind (evalExpr_typed r hr true).keeps (fun _ =>
      keepsQ_bind (ops.logicalOperation _ _ _ _ _ ha) (fun _ => keepsQ_pure _ (fun _ => rfl))))
  | .varEval v => unfold evalExpr; exact keepsQ_bind (ops.varEvaluation _ _ _) (fun _ => keepsQ_pure _ (fun _ => rfl))
  | .sliceEval value index dt =>
    simp only [Expr.typed, Bool.and_eq_true] at h
    obtain ⟨⟨⟨hv, hi⟩, _⟩, _⟩ := h
    unfold evalExpr
    exact keepsQ_bind (evalExpr_typed value hv true).keeps (fun _ => keepsQ_bind (evalExpr_typed index hi true).keeps (fun _ =>
      keepsQ_bind (ops.sliceEvaluation _ _ _) (fun _ => keepsQ_pure _ (fun _ => rfl))))
  | .substr value start none =>
    simp only [Expr.typed, Bool.and_eq_true] at h
    obtain ⟨⟨⟨hv, ha⟩, _⟩, _⟩ := h
    unfold evalExpr
    exact keepsQ_bind (evalExpr_typed start ha true).keeps (fun _ => keepsQ_bind (evalExpr_typed value hv true).keeps (fun _ =>
      keepsQ_bind (ops.stringSubscript _ _ _ _) (fun _ => keepsQ_pure _ (fun _ => rfl))))
  | .substr value start (some st) =>
    simp only [Expr.typed, Bool.and_eq_true] at h
    obtain ⟨⟨⟨⟨⟨hv, ha⟩, hb⟩, _⟩, _⟩, _⟩ := h
    unfold evalExpr
    exact keepsQ_bind (evalExpr_typed start ha true).keeps (fun _ => keepsQ_bind (evalExpr_typed st hb true).keeps (fun _ =>
      keepsQ_bind (evalExpr_typed value hv true).keeps (fun _ => keepsQ_bind (ops.stringSubscript _ _ _ _) (fun _ => keepsQ_pure _ (fun _ => rfl)))))
  | .group x =>
    simp only [Expr.typed] at h
    unfold evalExpr
    exact (evalExpr_typed x h used).weaken (fun _ hs => hs) (fun _ _ hq => ⟨hq.1, by simpa [ArityOK, Expr.arity] using hq.2⟩)
  | .call name rets args =>
    simp only [Expr.typed] at h
    unfold evalExpr
    refine keepsQ_bind (evalArgs_typed args h) (fun as => keepsQ_bindQ (ops.funcCall name as rets used) (fun vs hvs => ?_))
    cases used with
    | false => simp only [Bool.false_and, Bool.false_eq_true, if_false]; exact keepsQ_pure _ (fun hu => by cases hu)
    | true =>
      have : vs.length = rets.length := hvs rfl
      simp only [Bool.true_and, this, bne_self_eq_false, Bool.false_eq_true, if_false]
      exact keepsQ_pure _ (fun _ => by simpa [Expr.arity] using this)
  | .app name args none =>
    simp only [Expr.typed] at h
    unfold evalExpr
    exact keepsQ_bind (evalAppChain_typed (.app name args none) (by simpa [typedChain] using h)) (fun cs =>
      (ops.appCall cs used).weaken (fun _ hs => hs) (fun _ _ hq => ⟨hq.1, by simpa [ArityOK, Expr.arity] using hq.2⟩))
  | .app name args (some nx) =>
    simp only [Expr.typed] at h
    unfold evalExpr
    exact keepsQ_bind (evalAppChain_typed (.app name args (some nx)) (by simpa [typedChain] using h)) (fun cs =>
      (ops.appCall cs used).weaken (fun _ hs => hs) (fun _ _ hq => ⟨hq.1, by simpa [ArityOK, Expr.arity] using hq.2⟩))
  | .sliceNew dt vals =>
    simp only [Expr.typed, Bool.and_eq_true] at h
    unfold evalExpr
    exact keepsQ_bind (evalArgs_typed vals h.1) (fun _ => keepsQ_bind (ops.sliceInstantiation _ _) (fun _ => keepsQ_pure _ (fun _ => rfl)))
  | .input none => unfold evalExpr; exact keepsQ_bind (ops.input _ _) (fun _ => keepsQ_pure _ (fun _ => rfl))
  | .input (some x) =>
    simp only [Expr.typed, Bool.and_eq_true] at h
    unfold evalExpr
    exact keepsQ_bind (evalExpr_typed x h.1 used).keeps (fun _ => keepsQ_bind (ops.input _ _) (fun _ => keepsQ_pure _ (fun _ => rfl)))
  | .copy dst src =>
    simp only [Expr.typed, Bool.and_eq_true] at h
    unfold evalExpr
    exact keepsQ_bind (evalExpr_typed src h.1.1 true).keeps (fun _ => keepsQ_bind (ops.copy _ _ _ _) (fun _ => keepsQ_pure _ (fun _ => rfl)))
  | .itoa x =>
    simp only [Expr.typed, Bool.and_eq_true] at h
    unfold evalExpr; exact keepsQ_bind (evalExpr_typed x h.1 true).keeps (fun _ => keepsQ_pure _ (fun _ => rfl))
  | .exists_ x =>
    simp only [Expr.typed, Bool.and_eq_true] at h
    unfold evalExpr
    exact keepsQ_bind (evalExpr_typed x h.1 true).keeps (fun _ => keepsQ_bind (ops.exists_ _ _) (fun _ => keepsQ_pure _ (fun _ => rfl)))
  | .len x =>
    simp only [Expr.typed, Bool.and_eq_true] at h
    unfold evalExpr
    refine keepsQ_bind (evalExpr_typed x h.1 true).keeps (fun _ => ?_)
    split
    · exact keepsQ_bind (ops.stringLen _ _) (fun _ => keepsQ_pure _ (fun _ => rfl))
    · exact keepsQ_bind (ops.sliceLen _ _) (fun _ => keepsQ_pure _ (fun _ => rfl))
  | .read path =>
    simp only [Expr.typed, Bool.and_eq_true] at h
    unfold evalExpr
    simp only [h.2, Bool.not_true, Bool.false_eq_true, if_false]
    exact keepsQ_bind (evalExpr_typed path h.1 true).keeps (fun _ => keepsQ_bind (ops.readFile _ _) (fun _ => keepsQ_pure _ (fun _ => rfl)))
  | .write _ _ _ => simp [Expr.typed] at h
  | .bad w => simp [Expr.typed] at h

theorem evalArgs_typed (es : List Expr) (h : typedArgs es = true) : Keeps I (evalArgs cv es) := by
  match es with
  | [] => unfold evalArgs; exact keeps_pure _
  | e :: rest =>
    simp only [typedArgs, Bool.and_eq_true] at h
    unfold evalArgs
    exact keeps_bind (evalExpr_typed e h.1.1 true).keeps (fun _ => keeps_bind (evalArgs_typed rest h.2) (fun _ => keeps_pure _))

theorem evalAppChain_typed (e : Expr) (h : typedChain e = true) : Keeps I (evalAppChain cv e) := by
  match e with
  | .app name args (some nx) =>
    simp only [typedChain, Bool.and_eq_true] at h
    unfold evalAppChain
    exact keeps_bind (evalArgs_typed args h.1) (fun _ => keeps_bind (evalAppChain_typed nx h.2) (fun _ => keeps_pure _))
  | .app name args none =>
    simp only [typedChain] at h
    unfold evalAppChain
    exact keeps_bind (evalArgs_typed args h) (fun _ => keeps_pure _)
  | .boolLit _ | .intLit _ | .strLit _ | .varEval _ | .unary _ _ _ | .binary _ _ _ | .compare _ _ _
  | .logical _ _ _ | .group _ | .call _ _ _ | .sliceNew _ _ | .sliceEval _ _ _ | .substr _ _ _ | .len _
  | .itoa _ | .exists_ _ | .read _ | .input _ | .copy _ _ | .write _ _ _ | .bad _ =>
    unfold evalAppChain; exact keeps_pure _
end

theorem evalAll_typed : ∀ (es : List Expr), typedAll es = true → Keeps I (evalAll cv es) := by
  intro es
  induction es with
  | nil => intro _; unfold evalAll; exact keeps_pure _
  | cons e rest ih =>
    intro h
    simp only [typedAll, Bool.and_eq_true] at h
    unfold evalAll
    exact keeps_bind (evalExpr_typed cv I ops e h.1 true).keeps (fun _ => keeps_bind (ih h.2) (fun _ => keeps_pure _))

theorem assignedValues_typed (count : Nat) : ∀ (n : Nat) (vals : List Expr) (i : Nat), typedArgs vals = true → n ≤ vals.length →
    Keeps I (assignedValues cv count vals n i) := by
  intro n
  induction n with
  | zero => intro vals i _ _; unfold assignedValues; exact keeps_pure _
  | succ n ih =>
    intro vals i ht hl
    cases vals with
    | nil => simp at hl
    | cons e rest =>
      simp only [typedArgs, Bool.and_eq_true] at ht
      unfold assignedValues
      refine keeps_bind (evalExpr_typed cv I ops e ht.1.1 true).keeps (fun _ => keeps_bind ?_ (fun _ =>
        keeps_bind (ih rest (i + 1) ht.2 (by simpa using hl)) (fun _ => keeps_pure _)))
      split
      · exact keeps_bind (ops.varDefinition _ _ _) (fun _ => ops.varEvaluation _ _ _)
      · exact keeps_pure _

theorem storeValues_typed : ∀ (vars : List Var) (vals : List String), Keeps I (storeValues cv vars vals) := by
  intro vars
  induction vars with
  | nil => intro vals; unfold storeValues; exact keeps_pure _
  | cons x xs ih =>
    intro vals
    cases vals with
    | nil => unfold storeValues; exact keeps_pure _
    | cons v vs => unfold storeValues; exact keeps_bind (ops.varDefinition _ _ _) (fun _ => ih vs)

theorem assignValues_typed (vars : List Var) (vals : List Expr) (ht : typedArgs vals = true) (hl : vals.length = vars.length) :
    Keeps I (assignValues cv vars vals) := by
  unfold assignValues
  exact keeps_bind (assignedValues_typed cv I ops _ _ _ _ ht (by omega)) (fun _ => storeValues_typed cv I ops _ _)

theorem assignCallValues_typed (vars : List Var) (call : Expr) (ht : call.typed = true) (ha : call.arity = vars.length) :
    Keeps I (assignCallValues cv vars call) := by
  unfold assignCallValues
  refine (keepsQ_bindQ (Q := fun _ => True) (evalExpr_typed cv I ops call ht true) (fun vs hvs => ?_)).keeps
  have : vs.length = vars.length := by rw [hvs rfl, ha]
  simp only [this, bne_self_eq_false, Bool.false_eq_true, if_false]
  exact (storeValues_typed cv I ops _ _).toQ

theorem defaultValue_typed (vt : ValueType) (h : basicDt vt.dt = true) : Keeps I (defaultValue cv vt) := by
  unfold defaultValue
  simp only [basicDt, Bool.or_eq_true, beq_iff_eq] at h
  rcases h with (h | h) | h <;> rw [h] <;> simp only
  · exact keeps_pure _
  · exact keeps_pure _
  · exact ops.stringToString _

theorem evalAppend_typed (a : Option Expr) (h : typedAppend a = true) : Keeps I (evalAppend cv a) := by
  unfold evalAppend
  cases a with
  | none => exact keeps_pure _
  | some x =>
    simp only [typedAppend, Bool.and_eq_true] at h
    simp only [h.2, Bool.not_true, Bool.false_eq_true, if_false]
    exact keeps_bind (evalExpr_typed cv I ops x h.1 true).keeps (fun _ => keeps_pure _)

theorem evalConds_typed : ∀ (elifs : List (Expr × List Stmt)), typedElifs elifs = true → Keeps I (evalConds cv elifs)
  | [], _ => by unfold evalConds; exact keeps_pure _
  | (c, _) :: rest, h => by
    simp only [typedElifs, Bool.and_eq_true] at h
    unfold evalConds
    exact keeps_bind (evalExpr_typed cv I ops c h.1.1.1 true).keeps (fun _ => keeps_bind (evalConds_typed rest h.2) (fun _ => keeps_pure _))

end

/-! ### statements -/

structure TStmtOps {σ κ : Type} (cv : Conv σ) (I : κ → σ → Prop) (pushIf pushFor pushFunc : κ → κ) (loopOK funcOK : κ → Prop) : Prop where
  expr : ∀ k, TExprOps cv (I k)
  sliceAssignment : ∀ k n i v d g, Keeps (I k) (cv.sliceAssignment n i v d g)
  funcStart : ∀ k n ps, n ≠ "" → Triple (I k) (cv.funcStart n ps) (fun _ => I (pushFunc k))
  funcEnd : ∀ k, Triple (I (pushFunc k)) cv.funcEnd (fun _ => I k)
  ret : ∀ k vs, funcOK k → Keeps (I k) (cv.ret vs)
  ifStart : ∀ k c, Triple (I k) (cv.ifStart c) (fun _ => I (pushIf k))
  ifEnd : ∀ k, Triple (I (pushIf k)) cv.ifEnd (fun _ => I k)
  elseIfStart : ∀ k c, Keeps (I (pushIf k)) (cv.elseIfStart c)
  elseIfEnd : ∀ k, Keeps (I (pushIf k)) cv.elseIfEnd
  elseStart : ∀ k, Keeps (I (pushIf k)) cv.elseStart
  elseEnd : ∀ k, Keeps (I (pushIf k)) cv.elseEnd
  forStart : ∀ k, Triple (I k) cv.forStart (fun _ => I (pushFor k))
  forIncrementStart : ∀ k, Keeps (I (pushFor k)) cv.forIncrementStart
  forIncrementEnd : ∀ k, Keeps (I (pushFor k)) cv.forIncrementEnd
  forCondition : ∀ k c, Keeps (I (pushFor k)) (cv.forCondition c)
  forEnd : ∀ k, Triple (I (pushFor k)) cv.forEnd (fun _ => I k)
  brk : ∀ k, loopOK k → Keeps (I k) cv.brk
  cont : ∀ k, loopOK k → Keeps (I k) cv.cont
  print : ∀ k vs, Keeps (I k) (cv.print vs)
  panic : ∀ k v, Keeps (I k) (cv.panic v)
  writeFile : ∀ k p c a, Keeps (I k) (cv.writeFile p c a)
  nop : ∀ k, Keeps (I k) cv.nop
  loopOK_pushFor : ∀ k, loopOK (pushFor k)
  loopOK_pushIf : ∀ k, loopOK k → loopOK (pushIf k)
  funcOK_pushFunc : ∀ k, funcOK (pushFunc k)
  funcOK_pushIf : ∀ k, funcOK k → funcOK (pushIf k)
  funcOK_pushFor : ∀ k, funcOK k → funcOK (pushFor k)

section
variable {σ κ : Type} (cv : Conv σ) (I : κ → σ → Prop) (pushIf pushFor pushFunc : κ → κ) (loopOK funcOK : κ → Prop)
  (ops : TStmtOps cv I pushIf pushFor pushFunc loopOK funcOK)
include ops

mutual
/-- **Typed, well-placed statements run** and give the invariant back at the same stack snapshot. -/
theorem evalStmt_typed (st : Stmt) (ht : st.typed = true) (c : SCtx) (hp : st.placed c = true) (hb : c.brkAnywhere = false) (k : κ)
    (hl : c.inLoop = true → loopOK k) (hf : c.inFunc = true → funcOK k) : Keeps (I k) (evalStmt cv st) := by
  match st with
  | .varDef vars vals =>
    simp only [Stmt.typed, Bool.and_eq_true, beq_iff_eq] at ht
    unfold evalStmt; exact assignValues_typed cv (I k) (ops.expr k) _ _ ht.1.1 ht.1.2
  | .assign vars vals =>
    simp only [Stmt.typed, Bool.and_eq_true, beq_iff_eq] at ht
    unfold evalStmt; exact assignValues_typed cv (I k) (ops.expr k) _ _ ht.1.1 ht.1.2
  | .varDefCall vars call =>
    simp only [Stmt.typed, Bool.and_eq_true, beq_iff_eq] at ht
    unfold evalStmt; exact assignCallValues_typed cv (I k) (ops.expr k) _ _ ht.1.1 ht.1.2
  | .assignCall vars call =>
    simp only [Stmt.typed, Bool.and_eq_true, beq_iff_eq] at ht
    unfold evalStmt; exact assignCallValues_typed cv (I k) (ops.expr k) _ _ ht.1.1 ht.1.2
  | .sliceAssign v index value =>
    simp only [Stmt.typed, Bool.and_eq_true] at ht
    obtain ⟨⟨⟨⟨⟨hi, hv⟩, _⟩, hd⟩, _⟩, _⟩ := ht
    unfold evalStmt
    exact keeps_bind (evalExpr_typed cv (I k) (ops.expr k) index hi true).keeps (fun _ =>
      keeps_bind (evalExpr_typed cv (I k) (ops.expr k) value hv true).keeps (fun _ =>
        keeps_bind (defaultValue_typed cv (I k) (ops.expr k) _ hd) (fun _ => ops.sliceAssignment k _ _ _ _ _)))
  | .funcDef name pub rets params body =>
    simp only [Stmt.typed] at ht
    simp only [Stmt.placed, Bool.and_eq_true, Bool.not_eq_true', bne_iff_ne, ne_eq] at hp
    obtain ⟨⟨⟨_, _⟩, hn⟩, hpb⟩ := hp
    unfold evalStmt
    exact Triple.bind (ops.funcStart k name _ hn) (fun _ => Triple.bind
      (evalBlock_typed body ht { c with inLoop := false, inFunc := true } hpb hb (pushFunc k) (fun h => by cases h) (fun _ => ops.funcOK_pushFunc k))
      (fun _ => ops.funcEnd k))
  | .ret vals =>
    simp only [Stmt.typed] at ht
    simp only [Stmt.placed] at hp
    unfold evalStmt
    exact keeps_bind (evalArgs_typed cv (I k) (ops.expr k) vals ht) (fun _ => ops.ret k _ (hf hp))
  | .ifS cond body elifs els =>
    simp only [Stmt.typed, Bool.and_eq_true] at ht
    obtain ⟨⟨⟨⟨hc, _⟩, htb⟩, hte⟩, htl⟩ := ht
    simp only [Stmt.placed, Bool.and_eq_true] at hp
    obtain ⟨⟨hpb, hpe⟩, hpl⟩ := hp
    have hl' : c.inLoop = true → loopOK (pushIf k) := fun h => ops.loopOK_pushIf k (hl h)
    have hf' : c.inFunc = true → funcOK (pushIf k) := fun h => ops.funcOK_pushIf k (hf h)
    unfold evalStmt
    exact keeps_bind (evalExpr_typed cv (I k) (ops.expr k) cond hc true).keeps (fun _ =>
      keeps_bind (evalConds_typed cv (I k) (ops.expr k) elifs hte) (fun _ =>
        Triple.bind (ops.ifStart k _) (fun _ => Triple.bind (evalBlock_typed body htb c hpb hb (pushIf k) hl' hf') (fun _ =>
          Triple.bind (evalElifs_typed elifs _ hte c hpe hb k hl' hf') (fun _ =>
            Triple.bind (evalElse_typed els htl c hpl hb k hl' hf') (fun _ => ops.ifEnd k))))))
  | .forS init cond incr body =>
    simp only [Stmt.typed, Bool.and_eq_true] at ht
    obtain ⟨⟨⟨⟨hti, hc⟩, _⟩, htn⟩, htb⟩ := ht
    simp only [Stmt.placed, Bool.and_eq_true] at hp
    obtain ⟨⟨hpi, hpn⟩, hpb⟩ := hp
    have hf' : c.inFunc = true → funcOK (pushFor k) := fun h => ops.funcOK_pushFor k (hf h)
    unfold evalStmt
    exact Triple.bind (evalInit_typed init hti c hpi hb k hl hf) (fun _ => Triple.bind (ops.forStart k) (fun _ =>
      Triple.bind (evalIncr_typed incr htn { c with inLoop := true } hpn hb k (fun _ => ops.loopOK_pushFor k) hf') (fun _ =>
        Triple.bind (evalExpr_typed cv (I (pushFor k)) (ops.expr _) cond hc true).keeps (fun _ =>
          Triple.bind (ops.forCondition k _) (fun _ =>
            Triple.bind (evalBlock_typed body htb { c with inLoop := true } hpb hb (pushFor k) (fun _ => ops.loopOK_pushFor k) hf') (fun _ =>
              ops.forEnd k))))))
  | .brk =>
    simp only [Stmt.placed, hb, Bool.or_false] at hp
    unfold evalStmt; exact ops.brk k (hl hp)
  | .cont =>
    simp only [Stmt.placed] at hp
    unfold evalStmt; exact ops.cont k (hl hp)
  | .print es =>
    simp only [Stmt.typed] at ht
    unfold evalStmt; exact keeps_bind (evalAll_typed cv (I k) (ops.expr k) es ht) (fun _ => ops.print k _)
  | .panic e =>
    simp only [Stmt.typed] at ht
    unfold evalStmt; exact keeps_bind (evalExpr_typed cv (I k) (ops.expr k) e ht true).keeps (fun _ => ops.panic k _)
  | .expr (.write path data append) =>
    simp only [Stmt.typed, Bool.and_eq_true] at ht
    obtain ⟨⟨⟨⟨hpa, hd⟩, hps⟩, hds⟩, ha⟩ := ht
    unfold evalStmt
    simp only [hps, hds, Bool.not_true, Bool.false_eq_true, if_false]
    exact keeps_bind (evalExpr_typed cv (I k) (ops.expr k) path hpa true).keeps (fun _ =>
      keeps_bind (evalExpr_typed cv (I k) (ops.expr k) data hd true).keeps (fun _ =>
        keeps_bind (evalAppend_typed cv (I k) (ops.expr k) append ha) (fun _ => ops.writeFile k _ _ _)))
  | .expr (.call name rets args) =>
    simp only [Stmt.typed, Bool.and_eq_true] at ht
    unfold evalStmt; exact keeps_bind (evalExpr_typed cv (I k) (ops.expr k) _ ht.1 false).keeps (fun _ => keeps_pure _)
  | .expr (.app name args next) =>
    simp only [Stmt.typed, Bool.and_eq_true] at ht
    unfold evalStmt; exact keeps_bind (evalExpr_typed cv (I k) (ops.expr k) _ ht.1 false).keeps (fun _ => keeps_pure _)
  | .expr (.copy dst src) =>
    simp only [Stmt.typed, Bool.and_eq_true] at ht
    unfold evalStmt; exact keeps_bind (evalExpr_typed cv (I k) (ops.expr k) _ ht.1 false).keeps (fun _ => keeps_pure _)
  | .expr (.input pr) =>
    simp only [Stmt.typed, Bool.and_eq_true] at ht
    unfold evalStmt; exact keeps_bind (evalExpr_typed cv (I k) (ops.expr k) _ ht.1 false).keeps (fun _ => keeps_pure _)
  | .expr (.read path) =>
    simp only [Stmt.typed, Bool.and_eq_true] at ht
    unfold evalStmt; exact keeps_bind (evalExpr_typed cv (I k) (ops.expr k) _ ht.1 false).keeps (fun _ => keeps_pure _)
  | .expr (.boolLit _) | .expr (.intLit _) | .expr (.strLit _) | .expr (.varEval _) | .expr (.unary _ _ _)
  | .expr (.binary _ _ _) | .expr (.compare _ _ _) | .expr (.logical _ _ _) | .expr (.group _)
  | .expr (.sliceNew _ _) | .expr (.sliceEval _ _ _) | .expr (.substr _ _ _) | .expr (.len _)
  | .expr (.itoa _) | .expr (.exists_ _) | .expr (.bad _) =>
    simp [Stmt.typed, Expr.isCallLike] at ht

theorem evalInit_typed (init : Option Stmt) (ht : typedOpt init = true) (c : SCtx) (hp : placedOpt c init = true) (hb : c.brkAnywhere = false) (k : κ)
    (hl : c.inLoop = true → loopOK k) (hf : c.inFunc = true → funcOK k) : Keeps (I k) (evalInit cv init) := by
  match init with
  | some i =>
    simp only [typedOpt] at ht; simp only [placedOpt] at hp
    unfold evalInit; exact evalStmt_typed i ht c hp hb k hl hf
  | none => unfold evalInit; exact keeps_pure _

theorem evalIncr_typed (incr : Option Stmt) (ht : typedOpt incr = true) (c : SCtx) (hp : placedOpt c incr = true) (hb : c.brkAnywhere = false) (k : κ)
    (hl : c.inLoop = true → loopOK (pushFor k)) (hf : c.inFunc = true → funcOK (pushFor k)) : Keeps (I (pushFor k)) (evalIncr cv incr) := by
  match incr with
  | some i =>
    simp only [typedOpt] at ht; simp only [placedOpt] at hp
    unfold evalIncr
    exact keeps_bind (ops.forIncrementStart k) (fun _ => keeps_bind (evalStmt_typed i ht c hp hb (pushFor k) hl hf) (fun _ => ops.forIncrementEnd k))
  | none => unfold evalIncr; exact keeps_pure _

theorem evalElse_typed (els : List Stmt) (ht : typedStmts els = true) (c : SCtx) (hp : placedStmts c els = true) (hb : c.brkAnywhere = false) (k : κ)
    (hl : c.inLoop = true → loopOK (pushIf k)) (hf : c.inFunc = true → funcOK (pushIf k)) : Keeps (I (pushIf k)) (evalElse cv els) := by
  match els with
  | [] => unfold evalElse; exact keeps_pure _
  | st :: rest =>
    simp only [typedStmts, Bool.and_eq_true] at ht
    simp only [placedStmts, Bool.and_eq_true] at hp
    unfold evalElse
    exact keeps_bind (ops.elseStart k) (fun _ => keeps_bind (evalStmt_typed st ht.1 c hp.1 hb (pushIf k) hl hf) (fun _ =>
      keeps_bind (evalStmts_typed rest ht.2 c hp.2 hb (pushIf k) hl hf) (fun _ => ops.elseEnd k)))

theorem evalBlock_typed (body : List Stmt) (ht : typedStmts body = true) (c : SCtx) (hp : placedStmts c body = true) (hb : c.brkAnywhere = false) (k : κ)
    (hl : c.inLoop = true → loopOK k) (hf : c.inFunc = true → funcOK k) : Keeps (I k) (evalBlock cv body) := by
  match body with
  | [] => unfold evalBlock; exact ops.nop k
  | st :: rest =>
    simp only [typedStmts, Bool.and_eq_true] at ht
    simp only [placedStmts, Bool.and_eq_true] at hp
    unfold evalBlock
    exact keeps_bind (evalStmt_typed st ht.1 c hp.1 hb k hl hf) (fun _ => evalStmts_typed rest ht.2 c hp.2 hb k hl hf)

theorem evalStmts_typed (body : List Stmt) (ht : typedStmts body = true) (c : SCtx) (hp : placedStmts c body = true) (hb : c.brkAnywhere = false) (k : κ)
    (hl : c.inLoop = true → loopOK k) (hf : c.inFunc = true → funcOK k) : Keeps (I k) (evalStmts cv body) := by
  match body with
  | [] => unfold evalStmts; exact keeps_pure _
  | st :: rest =>
    simp only [typedStmts, Bool.and_eq_true] at ht
    simp only [placedStmts, Bool.and_eq_true] at hp
    unfold evalStmts
    exact keeps_bind (evalStmt_typed st ht.1 c hp.1 hb k hl hf) (fun _ => evalStmts_typed rest ht.2 c hp.2 hb k hl hf)

theorem evalElifs_typed (elifs : List (Expr × List Stmt)) (conds : List String) (ht : typedElifs elifs = true) (c : SCtx)
    (hp : placedElifs c elifs = true) (hb : c.brkAnywhere = false) (k : κ)
    (hl : c.inLoop = true → loopOK (pushIf k)) (hf : c.inFunc = true → funcOK (pushIf k)) : Keeps (I (pushIf k)) (evalElifs cv elifs conds) := by
  match elifs, conds with
  | (_, body) :: rest, cd :: cs =>
    simp only [typedElifs, Bool.and_eq_true] at ht
    simp only [placedElifs, Bool.and_eq_true] at hp
    unfold evalElifs
    exact keeps_bind (ops.elseIfStart k _) (fun _ => keeps_bind (evalBlock_typed body ht.1.2 c hp.1 hb (pushIf k) hl hf) (fun _ =>
      keeps_bind (ops.elseIfEnd k) (fun _ => evalElifs_typed rest cs ht.2 c hp.2 hb k hl hf)))
  | [], _ => unfold evalElifs; exact keeps_pure _
  | _ :: _, [] => unfold evalElifs; exact keeps_pure _
end

end

end Tsh.Tr
