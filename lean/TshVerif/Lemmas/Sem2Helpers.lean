/-
  The helper routines at the head of a script (`_sah`, `_sch`, `_ssh`): defining them changes nothing but the table of
  functions, and more functions at the end of the table change no execution.
-/
import TshVerif.Lemmas.Sem2Exec
namespace Tsh.Sem2
open Tsh Tsh.Tr Tsh.Bash Tsh.Sem

/-- the same configuration with more functions defined (earlier, so they are found last) -/
def addH (H : List (String × List Cmd)) (c : Cfg) : Cfg := { c with funs := c.funs ++ H }

theorem stepSimple_addH (H : List (String × List Cmd)) (l : Line) (c : Cfg) :
    stepSimple l (addH H c) = (stepSimple l c).map (fun p => (p.1, addH H p.2)) := by
  cases l <;> simp only [stepSimple, addH]
  case dvcIncr =>
    by_cases h0 : c.ρ "_dvc" = ""
    · simp [h0]
    · simp only [h0, if_false]
      cases asInt (c.ρ "_dvc") <;> rfl
  all_goals (try rfl)
  all_goals (try (split <;> simp_all))
  all_goals (try rfl)
  all_goals (try (split <;> simp_all))
  all_goals (try rfl)
  all_goals (try (split <;> simp_all))
  all_goals (try rfl)

theorem lookupFun_append {fs H : List (String × List Cmd)} {name : String} {b : List Cmd} (h : lookupFun fs name = some b) :
    lookupFun (fs ++ H) name = some b := by
  induction fs with
  | nil => simp [lookupFun] at h
  | cons p rest ih =>
    obtain ⟨n, bd⟩ := p
    simp only [lookupFun, List.cons_append] at h ⊢
    split
    · rename_i e; simp only [e, if_true] at h; exact h
    · rename_i e; simp only [e, if_false] at h; exact ih h

theorem callResult_addH (H : List (String × List Cmd)) (c : Cfg) (o1 : Out) (c1 : Cfg) {o : Out} {c' : Cfg}
    (h : callResult c o1 c1 = some (o, c')) : callResult (addH H c) o1 (addH H c1) = some (o, addH H c') := by
  cases o1 <;> simp only [callResult, Option.some.injEq, Prod.mk.injEq] at h ⊢ <;> first | (obtain ⟨rfl, rfl⟩ := h; exact ⟨rfl, rfl⟩) | cases h

mutual
theorem execCmd_addH (H : List (String × List Cmd)) {x : Cmd} {c c' : Cfg} {o : Out} (h : ExecCmd x c o c') :
    ExecCmd x (addH H c) o (addH H c') :=
  match h with
  | .simple hc hstep => ExecCmd.simple hc (by rw [stepSimple_addH, hstep]; rfl)
  | .call hl he hb hcr => ExecCmd.call (lookupFun_append hl) he (execCmds_addH H hb) (callResult_addH H _ _ _ hcr)
  | .ifTrue hg hb => ExecCmd.ifTrue hg (execCmds_addH H hb)
  | .ifFalse hg hb => ExecCmd.ifFalse hg (execElifs_addH H hb)
  | .loop hb => ExecCmd.loop (execLoop_addH H hb)
  | .fnDef => ExecCmd.fnDef
termination_by structural h
theorem execCmds_addH (H : List (String × List Cmd)) {xs : List Cmd} {c c' : Cfg} {o : Out} (h : ExecCmds xs c o c') :
    ExecCmds xs (addH H c) o (addH H c') :=
  match h with
  | .nil => ExecCmds.nil
  | .cons h1 h2 => ExecCmds.cons (execCmd_addH H h1) (execCmds_addH H h2)
  | .stop h1 hne => ExecCmds.stop (execCmd_addH H h1) hne
termination_by structural h
theorem execElifs_addH (H : List (String × List Cmd)) {es : List (Line × List Cmd)} {els : Option (List Cmd)} {c c' : Cfg} {o : Out}
    (h : ExecElifs es els c o c') : ExecElifs es els (addH H c) o (addH H c') :=
  match h with
  | .none => ExecElifs.none
  | .els hb => ExecElifs.els (execCmds_addH H hb)
  | .hit hg hb => ExecElifs.hit hg (execCmds_addH H hb)
  | .miss hg hb => ExecElifs.miss hg (execElifs_addH H hb)
termination_by structural h
theorem execLoop_addH (H : List (String × List Cmd)) {body : List Cmd} {c c' : Cfg} {o : Out} (h : ExecLoop body c o c') :
    ExecLoop body (addH H c) o (addH H c') :=
  match h with
  | .next h1 h2 => ExecLoop.next (execCmds_addH H h1) (execLoop_addH H h2)
  | .cont h1 h2 => ExecLoop.cont (execCmds_addH H h1) (execLoop_addH H h2)
  | .brk h1 => ExecLoop.brk (execCmds_addH H h1)
  | .ret h1 => ExecLoop.ret (execCmds_addH H h1)
  | .exit h1 => ExecLoop.exit (execCmds_addH H h1)
termination_by structural h
end

/-! ### the helper routines at the head of the script -/

/-- the block structure of `helperLines` -/
def helperCmds (s : St) : List Cmd :=
  (if s.sahReq then [Cmd.simple (.comment "slice assignment"), .fn "_sah" (sahBodyLines.map Cmd.simple)] else []) ++
  (if s.schReq then [Cmd.simple (.comment "slice copy"), .fn "_sch" (schBodyLines.map Cmd.simple)] else []) ++
  (if s.sshReq then [Cmd.simple (.comment "substring"), .fn "_ssh" (sshBodyLines.map Cmd.simple)] else [])

/-- the functions they define (latest first) -/
def helperFuns (s : St) : List (String × List Cmd) :=
  (if s.sshReq then [("_ssh", sshBodyLines.map Cmd.simple)] else []) ++
  (if s.schReq then [("_sch", schBodyLines.map Cmd.simple)] else []) ++
  (if s.sahReq then [("_sah", sahBodyLines.map Cmd.simple)] else [])

theorem flats_helperCmds (s : St) : flats (helperCmds s) = helperLines s := by
  unfold helperCmds helperLines
  cases s.sahReq <;> cases s.schReq <;> cases s.sshReq <;> simp [flats, flat, flats_simples]

/-- defining the helper routines changes the table of functions and nothing else -/
theorem exec_helperCmds (s : St) (c : Cfg) : ExecCmds (helperCmds s) c .normal { c with funs := helperFuns s ++ c.funs } := by
  have cm : ∀ (t : String) (c : Cfg), ExecCmd (.simple (.comment t)) c .normal c := fun t c => ExecCmd.simple rfl rfl
  unfold helperCmds helperFuns
  cases s.sahReq <;> cases s.schReq <;> cases s.sshReq <;> simp only [if_true, if_false, Bool.false_eq_true, List.nil_append, List.append_nil, List.cons_append]
  · exact ExecCmds.nil
  · exact ExecCmds.cons (cm _ _) (ExecCmds.cons ExecCmd.fnDef ExecCmds.nil)
  · exact ExecCmds.cons (cm _ _) (ExecCmds.cons ExecCmd.fnDef ExecCmds.nil)
  · exact ExecCmds.cons (cm _ _) (ExecCmds.cons ExecCmd.fnDef (ExecCmds.cons (cm _ _) (ExecCmds.cons ExecCmd.fnDef ExecCmds.nil)))
  · exact ExecCmds.cons (cm _ _) (ExecCmds.cons ExecCmd.fnDef ExecCmds.nil)
  · exact ExecCmds.cons (cm _ _) (ExecCmds.cons ExecCmd.fnDef (ExecCmds.cons (cm _ _) (ExecCmds.cons ExecCmd.fnDef ExecCmds.nil)))
  · exact ExecCmds.cons (cm _ _) (ExecCmds.cons ExecCmd.fnDef (ExecCmds.cons (cm _ _) (ExecCmds.cons ExecCmd.fnDef ExecCmds.nil)))
  · exact ExecCmds.cons (cm _ _) (ExecCmds.cons ExecCmd.fnDef (ExecCmds.cons (cm _ _) (ExecCmds.cons ExecCmd.fnDef
      (ExecCmds.cons (cm _ _) (ExecCmds.cons ExecCmd.fnDef ExecCmds.nil)))))

end Tsh.Sem2
