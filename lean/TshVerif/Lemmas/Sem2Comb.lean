/-
  How simulations of expression parts compose: leaves, one operand, two operands.
-/
import TshVerif.Lemmas.Sem2Table
namespace Tsh.Sem2
open Tsh Tsh.Tr Tsh.Bash Tsh.Sem Tsh.Sem2.Src
open Tsh.Sem.Src (Val Env)

theorem Inv.set_hn {ctx : Ctx} {T : List FEntry} {c : SCfg} {m : Cfg} (h : Inv ctx T c m) (j : Nat) (w : String) :
    Inv ctx T c { m with ρ := m.ρ.set (ctx.hn j) w } :=
  ⟨h.agree.set_hn j w, h.tables⟩

theorem esim_leaf (ctx : Ctx) (T : List FEntry) (B : Nat) (src : Nat → SCfg → Option (R (List Opd))) (lo : Nat) (ts : List String)
    (h : ∀ fuel c res, src fuel c = some res → ∃ os, res = .ok os c ∧ ∀ ρ0, HoldsAllF ctx ts os lo ρ0) :
    ESim ctx T B src [] lo 0 ts := by
  refine ⟨LinesOK.nil _ _ _, ?_⟩
  intro fuel c res hs m hi
  obtain ⟨os, rfl, hh⟩ := h fuel c res hs
  exact ⟨m, ExecCmds.nil, hi, Ctl.refl m, KeepE.refl _ _ _ m, fun _ => hh m.ρ⟩

theorem map_reverse_cons (l : Line) (new : List Line) :
    (l :: new).reverse.map Cmd.simple = new.reverse.map Cmd.simple ++ [Cmd.simple l] := by simp

theorem map_reverse_append (a b : List Line) :
    (a ++ b).reverse.map Cmd.simple = b.reverse.map Cmd.simple ++ a.reverse.map Cmd.simple := by simp

/-- one operand, then a line that stores the result in the next helper variable -/
theorem esim_unary {ctx : Ctx} {T : List FEntry} {B : Nat} {srcX src : Nat → SCfg → Option (R (List Opd))} {newX : List Line}
    {lo nX : Nat} {tx : String} (hx : ESim ctx T B srcX newX lo nX [tx]) (line : Line) (hcall : isCall line = false)
    (hline : SLine ctx 0 (tnames T) line)
    (hsrc : ∀ fuel c res, src fuel c = some res →
      (∃ f k c1, srcX f c = some (.exit k c1) ∧ res = .exit k c1) ∨
      (∃ f o c1 w, srcX f c = some (.ok [o] c1) ∧ res = .ok [.lit w] c1 ∧
        ∀ m1, AgreeF ctx c1 m1 → HoldsF ctx tx o (lo + nX) m1.ρ →
          stepSimple line m1 = some (.normal, { m1 with ρ := m1.ρ.set (ctx.hn (lo + nX)) w.render }))) :
    ESim ctx T B src (line :: newX) lo (nX + 1) ["${" ++ ctx.hn (lo + nX) ++ "}"] := by
  refine ⟨LinesOK.cons hline hx.lines, ?_⟩
  intro fuel c res hs m hi
  rcases hsrc fuel c res hs with ⟨f, k, c1, hx1, rfl⟩ | ⟨f, o, c1, w, hx1, rfl, hstep⟩
  · obtain ⟨m1, ex, ho⟩ := hx.run f c _ hx1 m hi
    refine ⟨m1, ?_, ho⟩
    rw [map_reverse_cons]
    exact execCmds_stop_append _ ex (by simp)
  · obtain ⟨m1, ex, hi1, hc1, hk1, hh1⟩ := hx.run f c _ hx1 m hi
    have hst := hstep m1 hi1.agree (hh1 rfl).1
    refine ⟨{ m1 with ρ := m1.ρ.set (ctx.hn (lo + nX)) w.render }, ?_, hi1.set_hn _ _, ?_, ?_, ?_⟩
    · rw [map_reverse_cons]
      exact execCmds_append ex (execCmds_step hcall hst)
    · exact hc1
    · exact hk1.trans (KeepE.set_helper ctx B (lo + nX) (lo + nX) m1 _ (Nat.le_refl _)) (by omega)
    · intro _
      refine ⟨?_, trivial⟩
      have := holdsF_helper ctx (lo + nX) w (m1.ρ.set (ctx.hn (lo + nX)) w.render) (Sem.set_same _ _ _)
      have e : lo + (nX + 1) = lo + nX + 1 := by omega
      rw [e]; exact this

/-- two operands, then a line that stores the result in the next helper variable -/
theorem esim_binary {ctx : Ctx} {T : List FEntry} {B : Nat} {srcL srcR src : Nat → SCfg → Option (R (List Opd))}
    {newL newR : List Line} {lo nL nR : Nat} {tl tr : String}
    (hl : ESim ctx T B srcL newL lo nL [tl]) (hr : ESim ctx T B srcR newR (lo + nL) nR [tr]) (line : Line) (hcall : isCall line = false)
    (hline : SLine ctx 0 (tnames T) line)
    (hsrc : ∀ fuel c res, src fuel c = some res →
      (∃ f k c1, srcL f c = some (.exit k c1) ∧ res = .exit k c1) ∨
      (∃ f a c1, srcL f c = some (.ok [a] c1) ∧
        ((∃ f' k c2, srcR f' c1 = some (.exit k c2) ∧ res = .exit k c2) ∨
         (∃ f' b c2 w, srcR f' c1 = some (.ok [b] c2) ∧ res = .ok [.lit w] c2 ∧
            ∀ m2, AgreeF ctx c2 m2 → HoldsF ctx tl a (lo + nL + nR) m2.ρ → HoldsF ctx tr b (lo + nL + nR) m2.ρ →
              stepSimple line m2 = some (.normal, { m2 with ρ := m2.ρ.set (ctx.hn (lo + nL + nR)) w.render }))))) :
    ESim ctx T B src (line :: (newR ++ newL)) lo (nL + nR + 1) ["${" ++ ctx.hn (lo + nL + nR) ++ "}"] := by
  refine ⟨LinesOK.cons hline (hr.lines.append hl.lines), ?_⟩
  intro fuel c res hs m hi
  rcases hsrc fuel c res hs with ⟨f, k, c1, hx1, rfl⟩ | ⟨f, a, c1, hx1, hrest⟩
  · obtain ⟨m1, ex, ho⟩ := hl.run f c _ hx1 m hi
    refine ⟨m1, ?_, ho⟩
    rw [map_reverse_cons, map_reverse_append, List.append_assoc]
    exact execCmds_stop_append _ ex (by simp)
  · obtain ⟨m1, ex1, hi1, hc1, hk1, hh1⟩ := hl.run f c _ hx1 m hi
    rcases hrest with ⟨f', k, c2, hx2, rfl⟩ | ⟨f', b, c2, w, hx2, rfl, hstep⟩
    · obtain ⟨m2, ex2, ho⟩ := hr.run f' c1 _ hx2 m1 hi1
      refine ⟨m2, ?_, ho⟩
      rw [map_reverse_cons, map_reverse_append, List.append_assoc]
      exact execCmds_append ex1 (execCmds_stop_append _ ex2 (by simp))
    · obtain ⟨m2, ex2, hi2, hc2, hk2, hh2⟩ := hr.run f' c1 _ hx2 m1 hi1
      have hhl : HoldsF ctx tl a (lo + nL + nR) m2.ρ := (hh1 rfl).1.mono (by omega) (fun j hj => hk2.helpers j hj)
      have hst := hstep m2 hi2.agree hhl (hh2 rfl).1
      refine ⟨{ m2 with ρ := m2.ρ.set (ctx.hn (lo + nL + nR)) w.render }, ?_, hi2.set_hn _ _, ?_, ?_, ?_⟩
      · rw [map_reverse_cons, map_reverse_append, List.append_assoc]
        exact execCmds_append ex1 (execCmds_append ex2 (execCmds_step hcall hst))
      · exact hc1.trans hc2
      · exact (hk1.trans hk2 (by omega)).trans (KeepE.set_helper ctx B lo (lo + nL + nR) m2 _ (by omega)) (Nat.le_refl _)
      · intro _
        refine ⟨?_, trivial⟩
        have := holdsF_helper ctx (lo + nL + nR) w (m2.ρ.set (ctx.hn (lo + nL + nR)) w.render) (Sem.set_same _ _ _)
        have e : lo + (nL + nR + 1) = lo + nL + nR + 1 := by omega
        rw [e]; exact this

end Tsh.Sem2
