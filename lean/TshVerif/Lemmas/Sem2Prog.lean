/-
  Statements with calls, by induction over the AST.
-/
import TshVerif.Lemmas.Sem2Ctl
namespace Tsh.Sem2
open Tsh Tsh.Tr Tsh.Bash Tsh.Sem Tsh.Sem2.Src
open Tsh.Sem.Src (Val Env)

/-! ### source-side unfoldings -/

theorem src_assignN {vars : List Var} {vals : List Expr} {fuel : Nat} {c c' : SCfg} {o : SOut}
    (hs : execS fuel (.assign vars vals) c = some (o, c')) :
    (∃ f k, evalVals f vals c = some (.exit k c') ∧ o = .exit k) ∨
    (∃ f vs c1, evalVals f vals c = some (.ok vs c1) ∧ o = .normal ∧ c' = storeVars c1 vars vs) := by
  cases fuel with
  | zero => simp [execS] at hs
  | succ f =>
    simp only [execS] at hs
    split at hs
    · split at hs
      · rename_i vs c1 hv
        simp only [Option.some.injEq, Prod.mk.injEq] at hs
        exact Or.inr ⟨f, vs, c1, hv, hs.1.symm, hs.2.symm⟩
      · rename_i k c1 hv
        simp only [Option.some.injEq, Prod.mk.injEq] at hs
        obtain ⟨rfl, rfl⟩ := hs
        exact Or.inl ⟨f, k, hv, rfl⟩
      · simp at hs
    · simp at hs

theorem src_varDefN {vars : List Var} {vals : List Expr} {fuel : Nat} {c c' : SCfg} {o : SOut}
    (hs : execS fuel (.varDef vars vals) c = some (o, c')) :
    (∃ f k, evalVals f vals c = some (.exit k c') ∧ o = .exit k) ∨
    (∃ f vs c1, evalVals f vals c = some (.ok vs c1) ∧ o = .normal ∧ c' = storeVars c1 vars vs) := by
  cases fuel with
  | zero => simp [execS] at hs
  | succ f =>
    simp only [execS] at hs
    split at hs
    · split at hs
      · rename_i vs c1 hv
        simp only [Option.some.injEq, Prod.mk.injEq] at hs
        exact Or.inr ⟨f, vs, c1, hv, hs.1.symm, hs.2.symm⟩
      · rename_i k c1 hv
        simp only [Option.some.injEq, Prod.mk.injEq] at hs
        obtain ⟨rfl, rfl⟩ := hs
        exact Or.inl ⟨f, k, hv, rfl⟩
      · simp at hs
    · simp at hs

/-- single or simultaneous assignment -/
theorem assign_anyF {ctx : Ctx} {T : List FEntry} {B : Nat} (hT : TableOK T) (hctx : CtxOK ctx T B) {vars : List Var} {vals : List Expr}
    {src : Nat → SCfg → Option (SOut × SCfg)}
    (hsrc : ∀ fuel c o c', src fuel c = some (o, c') →
      (∃ f k, evalVals f vals c = some (.exit k c') ∧ o = .exit k) ∨
      (∃ f vs c1, evalVals f vals c = some (.ok vs c1) ∧ o = .normal ∧ c' = storeVars c1 vars vs))
    (hf : ((vars.length = vals.length ∧ vars ≠ []) ∧ (∀ x ∈ vars, goodName2 x.name = true)) ∧ fragEs (tnames T) vals = true)
    {s s' : St} (hc : ctxOf s = ctx) (h : assignValues conv vars vals s = .ok ((), s')) : StmtSemF ctx T B src s s' := by
  obtain ⟨⟨⟨hlen, hne⟩, hg⟩, hfe⟩ := hf
  match vars, vals, hlen, hne with
  | [x], [e], _, _ =>
    simp only [fragEs, Bool.and_true] at hfe
    refine assign1_semF hT hctx (hg x (by simp)) hfe hc h src ?_
    intro fuel c o c' hs
    rcases hsrc fuel c o c' hs with ⟨f, k, he, rfl⟩ | ⟨f, vs, c1, he, rfl, rfl⟩
    · rcases evalVals_single he with ⟨f', k', c1', h1, h2⟩ | ⟨_, _, _, _, _, _, h3⟩
      · simp only [R.exit.injEq] at h2
        obtain ⟨rfl, rfl⟩ := h2
        exact Or.inl ⟨f', _, h1, rfl⟩
      · cases h3
    · rcases evalVals_single he with ⟨_, _, _, _, h2⟩ | ⟨f', ov, c1', v, h1, h2, h3⟩
      · cases h2
      · simp only [R.ok.injEq] at h3
        obtain ⟨rfl, rfl⟩ := h3
        exact Or.inr ⟨f', ov, _, v, h1, h2, rfl, by simp [storeVars]⟩
  | x :: y :: xs, vals, hlen, _ =>
    exact assignN_semF hT hctx hlen (by simp) (by simpa [List.all_eq_true] using hg) hfe hc h src hsrc

theorem evalE_call_lits {fuel : Nat} {e : Expr} (hcall : isCallE e = true) {c c1 : SCfg} {os : List Opd}
    (h : evalE fuel e c = some (.ok os c1)) : ∃ vs : List Val, os = vs.map Opd.lit := by
  match e, hcall with
  | .call name rets args, _ =>
    rcases src_call h with ⟨_, _, _, _, h2⟩ | ⟨_, _, _, _, _, _, _, _, _, _, _, _, h3⟩
    · cases h2
    · rcases h3 with ⟨vs, _, _, h4⟩ | ⟨_, _, h4⟩ | ⟨_, _, h4⟩
      · simp only [R.ok.injEq] at h4
        exact ⟨vs, h4.1⟩
      · simp only [R.ok.injEq] at h4
        exact ⟨[], h4.1⟩
      · cases h4

theorem resolveAll_lits (c : SCfg) : ∀ (vs : List Val), resolveAll c (vs.map Opd.lit) = some vs
  | [] => rfl
  | v :: vs => by simp [resolveAll, resolve, resolveAll_lits c vs]

theorem src_callassign {fuel : Nat} {vars : List Var} {call : Expr} (hcall : isCallE call = true) {c c' : SCfg} {o : SOut}
    (hs : execS fuel (.assignCall vars call) c = some (o, c') ∨ execS fuel (.varDefCall vars call) c = some (o, c')) :
    (∃ f k, evalE f call c = some (.exit k c') ∧ o = .exit k) ∨
    (∃ f vs c1, evalE f call c = some (.ok (vs.map Opd.lit) c1) ∧ vs.length = vars.length ∧ o = .normal ∧ c' = storeVars c1 vars vs) := by
  cases fuel with
  | zero => rcases hs with hs | hs <;> simp [execS] at hs
  | succ f =>
    have key : ∀ (hs : (match evalE f call c with
        | some (.ok os c1) =>
            match resolveAll c1 os with
            | some vs => if vs.length == vars.length then some (SOut.normal, storeVars c1 vars vs) else none
            | none => none
        | some (.exit k c1) => some (SOut.exit k, c1)
        | none => none) = some (o, c')),
        (∃ f k, evalE f call c = some (.exit k c') ∧ o = .exit k) ∨
        (∃ f vs c1, evalE f call c = some (.ok (vs.map Opd.lit) c1) ∧ vs.length = vars.length ∧ o = .normal ∧ c' = storeVars c1 vars vs) := by
      intro hs
      split at hs
      · rename_i os c1 he
        obtain ⟨vs0, rfl⟩ := evalE_call_lits hcall he
        rw [resolveAll_lits] at hs
        simp only at hs
        split at hs
        · rename_i hl
          simp only [Option.some.injEq, Prod.mk.injEq] at hs
          exact Or.inr ⟨f, vs0, c1, he, by simpa using hl, hs.1.symm, hs.2.symm⟩
        · simp at hs
      · rename_i k c1 he
        simp only [Option.some.injEq, Prod.mk.injEq] at hs
        obtain ⟨rfl, rfl⟩ := hs
        exact Or.inl ⟨f, k, he, rfl⟩
      · simp at hs
    rcases hs with hs | hs
    · simp only [execS] at hs; exact key hs
    · simp only [execS] at hs; exact key hs

theorem fragEl_conds {T : List FEntry} : ∀ (elifs : List (Expr × List Stmt)), fragEl (tnames T) elifs = true → fragEs (tnames T) (elifs.map Prod.fst) = true
  | [], _ => rfl
  | (c, b) :: rest, h => by
    simp only [fragEl, Bool.and_eq_true] at h
    simp only [List.map_cons, fragEs, Bool.and_eq_true]
    exact ⟨h.1.1, fragEl_conds rest h.2⟩

theorem St.ext2 {a b : St} (h1 : a.startCode = b.startCode) (h2 : a.code = b.code) (h3 : a.varCounter = b.varCounter)
    (h4 : a.forCounter = b.forCounter) (h5 : a.fors = b.fors) (h6 : a.funcs = b.funcs) (h7 : a.funcCounter = b.funcCounter)
    (h8 : a.sahReq = b.sahReq) (h9 : a.schReq = b.schReq) (h10 : a.sshReq = b.sshReq) : a = b := by
  cases a; cases b; simp_all

/-- the else part, as `ExecElifs` sees it at the end of the chain -/
def ElseSimF (ctx : Ctx) (T : List FEntry) (B : Nat) (els : List Stmt) (t : Option (List Cmd)) (k : Nat) : Prop :=
  ∀ fuel c o c', execSs fuel els c = some (o, c') → ∀ m, Inv ctx T c m →
    ∃ m' o', ExecElifs [] t m o' m' ∧ OutRel o o' ∧ c'.out = m'.out ∧
      ((∀ j, o ≠ .exit j) → Kept ctx T B k c' m m') ∧ (∀ vs, o = .ret vs → ValsRv 0 vs m'.ρ)

theorem Inv.set_flag {ctx : Ctx} {T : List FEntry} {c : SCfg} {m : Cfg} (h : Inv ctx T c m) (j : Nat) (w : String) :
    Inv ctx T c { m with ρ := m.ρ.set (flagName j) w } :=
  ⟨h.agree.set_flag j w, h.tables⟩

theorem src_forF {init : Option Stmt} {cond : Expr} {incr : Option Stmt} {body : List Stmt} {fuel : Nat} {c c' : SCfg} {o : SOut}
    (hs : execS fuel (.forS init cond incr body) c = some (o, c')) :
    (∃ f k, srcIncrF init f c = some (.exit k, c') ∧ o = .exit k) ∨
    (∃ f c1, srcIncrF init f c = some (.normal, c1) ∧ execLp f cond incr body c1 = some (o, c')) := by
  cases fuel with
  | zero => simp [execS] at hs
  | succ f =>
    simp only [execS] at hs
    cases init with
    | none => exact Or.inr ⟨f, c, rfl, hs⟩
    | some i =>
      simp only at hs
      split at hs
      · rename_i c1 h1
        exact Or.inr ⟨f, c1, h1, hs⟩
      · rename_i k c1 h1
        simp only [Option.some.injEq, Prod.mk.injEq] at hs
        obtain ⟨rfl, rfl⟩ := hs
        exact Or.inl ⟨f, k, h1, rfl⟩
      · simp at hs

theorem src_el_nil {fuel : Nat} {bs : List Val} {els : List Stmt} {c c' : SCfg} {o : SOut}
    (hs : execEl fuel [] bs els c = some (o, c')) : ∃ f, execSs f els c = some (o, c') := by
  cases fuel with
  | zero => simp [execEl] at hs
  | succ f =>
    unfold execEl at hs
    exact ⟨f, hs⟩

mutual
theorem stmt_semF {ctx : Ctx} {T : List FEntry} {B : Nat} (hT : TableOK T) (hctx : CtxOK ctx T B) (st : Stmt) (hf : fragS (tnames T) st = true) :
    ∀ s s', ctxOf s = ctx → B ≤ s.forCounter → evalStmt conv st s = .ok ((), s') → StmtSemF ctx T B (fun f c => execS f st c) s s' := by
  match st with
  | .varDef vars vals =>
    intro s s' hc hB h
    unfold evalStmt at h
    exact assign_anyF hT hctx (fun fuel c o c' hs => src_varDefN hs) (by simpa [fragS] using hf) hc h
  | .assign vars vals =>
    intro s s' hc hB h
    unfold evalStmt at h
    exact assign_anyF hT hctx (fun fuel c o c' hs => src_assignN hs) (by simpa [fragS] using hf) hc h
  | .varDefCall vars call =>
    intro s s' hc hB h
    unfold evalStmt at h
    simp only [fragS, Bool.and_eq_true] at hf
    exact callassign_semF hT hctx hf.1.1 hf.2 hc h _ (fun fuel c o c' hs => src_callassign hf.1.2 (Or.inr hs))
  | .assignCall vars call =>
    intro s s' hc hB h
    unfold evalStmt at h
    simp only [fragS, Bool.and_eq_true] at hf
    exact callassign_semF hT hctx hf.1.1 hf.2 hc h _ (fun fuel c o c' hs => src_callassign hf.1.2 (Or.inl hs))
  | .brk =>
    intro s s' hc hB h
    unfold evalStmt at h
    exact brk_semF h
  | .cont =>
    intro s s' hc hB h
    unfold evalStmt at h
    exact cont_semF h
  | .print es =>
    intro s s' hc hB h
    unfold evalStmt at h
    exact print_semF hT hctx (by simpa [fragS] using hf) hc h
  | .panic e =>
    intro s s' hc hB h
    unfold evalStmt at h
    exact panic_semF hT hctx (by simpa [fragS] using hf) hc h
  | .ret vals =>
    intro s s' hc hB h
    unfold evalStmt at h
    exact ret_semF hT hctx (by simpa [fragS] using hf) hc h
  | .expr (.call name rets args) =>
    intro s s' hc hB h
    unfold evalStmt at h
    exact exprcall_semF hT hctx (by simpa [fragS, isCallE] using hf) hc h
  | .ifS cond body elifs els =>
    intro s s' hc hB h
    simp only [fragS, Bool.and_eq_true] at hf
    obtain ⟨⟨⟨hfc, hfb⟩, hfe⟩, hfl⟩ := hf
    unfold evalStmt at h
    obtain ⟨c, s1, h1, h⟩ := bind_ok h
    obtain ⟨ecs, s2, h2, h⟩ := bind_ok h
    obtain ⟨_, s3, h3, h⟩ := bind_ok h
    obtain ⟨_, s4, h4, h⟩ := bind_ok h
    obtain ⟨_, s5, h5, h⟩ := bind_ok h
    obtain ⟨_, s6, h6, h7⟩ := bind_ok h
    obtain ⟨newc, nc, rc, e1, simc⟩ := expr_semF hT hctx cond s c s1 hfc hc h1
    subst e1
    have simc1 := esim_first simc
    have hc1 : ctxOf (reqSt (adv s newc nc) rc) = ctx := hc
    rw [evalConds_eq_args] at h2
    have hfe' : fragEs (tnames T) (elifs.map Prod.fst) = true := fragEl_conds elifs hfe
    obtain ⟨newe, ne, re, e2, sime⟩ := args_semF hT hctx (elifs.map Prod.fst) _ ecs s2 hfe' hc1 h2
    subst e2
    have e3 := addLine_ok (l := .ifStart "if" (firstValue c)) h3
    have hc3 : ctxOf s3 = ctx := by rw [e3]; exact hc
    have hB3 : B ≤ s3.forCounter := by rw [e3]; exact hB
    have hb := block_semF hT hctx body hfb s3 s4 hc3 hB3 h4
    have hc4 : ctxOf s4 = ctx := by rw [hb.ctx]; exact hc3
    have hB4 : B ≤ s4.forCounter := Nat.le_trans hB3 hb.forCounter
    have he := elifs_semF hT hctx elifs hfe ecs s4 s5 hc4 hB4 h5
    obtain ⟨bc, nb, mb, rb, e4, hlb, simb⟩ := hb
    obtain ⟨tree, nt, mt, rt, e5, hlt, simt⟩ := he
    have hc5 : ctxOf s5 = ctx := by rw [e5]; exact hc4
    have hB5 : B ≤ s5.forCounter := by rw [e5]; simp [adv2, reqSt]; omega
    have hl := else_semF hT hctx els hfl s5 s6 hc5 hB5 h6
    obtain ⟨et, nl, ml, rl, e6, hle, siml⟩ := hl
    have e7 := addLine_ok (l := .fi) h7
    refine ⟨(newc.reverse ++ newe.reverse).map Cmd.simple ++ [Cmd.ifc (.ifStart "if" (firstValue c)) bc tree et],
      nc + ne + nb + nt + nl, mb + mt + ml, (((rc.or re).or rb).or rt).or rl, ?_, ?_, ?_⟩
    · rw [e7, e6, e5, e4, e3]
      apply St.ext2 <;>
        simp [adv, adv2, reqSt, Req.or, Bool.or_assoc, flats_append, flats_simples, flats_simples_reverse, flats, flat, Nat.add_assoc, List.reverse_append]
    · have h3f : s3.forCounter = s.forCounter := by rw [e3]; rfl
      have h4f : s4.forCounter = s3.forCounter + mb := by rw [e4]; rfl
      have h5f : s5.forCounter = s4.forCounter + mt := by rw [e5]; rfl
      rw [flats_append, flats_simples]
      refine (((simc.lines.reverse).append (sime.lines.reverse)).mono (Nat.zero_le _)).append ?_
      simp only [flats, flat, List.append_nil]
      refine LinesOK.cons (sline_plain _ _ _ _ rfl rfl) ?_
      refine (hlb.mono (by omega)).append ((hlt.mono (by omega)).append ((hle.mono (by omega)).append (linesOK_plain1 _ _ _ _ rfl rfl)))
    · intro fuel c0 o c' hs m hi
      have h3f : s3.forCounter = s.forCounter := by rw [e3]; rfl
      have h4f : s4.forCounter = s3.forCounter + mb := by rw [e4]; rfl
      have h5f : s5.forCounter = s4.forCounter + mt := by rw [e5]; rfl
      cases fuel with
      | zero => simp [execS] at hs
      | succ f =>
        simp only [execS] at hs
        split at hs
        · rename_i ov c1 hce
          obtain ⟨m1, ex1, hi1, hcl1, hk1, hh1⟩ := runs_ok_then (simc1.run f c0 _ (single_ok hce) m hi)
          rw [evalCs_eq_args] at hs
          split at hs
          · rename_i os c2 hcs
            obtain ⟨m2, ex2, hi2, hcl2, hk2, hh2⟩ := runs_ok_then (sime.run f c1 _ hcs m1 hi1)
            have pre : ExecCmds ((newc.reverse ++ newe.reverse).map Cmd.simple) m .normal m2 := by
              rw [List.map_append]; exact execCmds_append ex1 ex2
            have kpre : Kept ctx T B s.forCounter c2 m m2 := ⟨hi2, hcl1.trans hcl2, (hk1.flagsKept).trans (hk2.flagsKept) (Nat.le_refl _)⟩
            split at hs
            · rename_i b bs hvb hvs
              have hg : Sem.guard m2.ρ (.ifStart "if" (firstValue c)) = some b :=
                guardF_of_holds (hh1.1.mono (n' := s.varCounter + nc + ne) (Nat.le_add_right _ _) (fun j hj => hk2.helpers j hj)) hi2.agree hvb
              have wrap : ∀ {m' o'}, ExecCmd (.ifc (.ifStart "if" (firstValue c)) bc tree et) m2 o' m' →
                  ExecCmds ((newc.reverse ++ newe.reverse).map Cmd.simple ++ [Cmd.ifc (.ifStart "if" (firstValue c)) bc tree et]) m o' m' :=
                fun hx => execCmds_append pre (execCmds_single hx)
              cases b with
              | true =>
                simp only [if_true] at hs
                obtain ⟨m3, o3, ex3, hr3, ho3, hk3, hv3⟩ := simb f c2 o c' hs m2 hi2
                exact ⟨m3, o3, wrap (ExecCmd.ifTrue hg ex3), hr3, ho3, fun hne => kpre.trans (hk3 hne) (by omega), hv3⟩
              | false =>
                simp only [Bool.false_eq_true, if_false] at hs
                have hgv : GuardValsF ecs bs m2.ρ := guardValsF_of_holdsAll hi2.agree hh2 hvs
                obtain ⟨m3, o3, ex3, hr3, ho3, hk3, hv3⟩ := simt els et s5.forCounter (Nat.le_refl _) siml f bs c2 o c' hs m2 hi2 hgv
                exact ⟨m3, o3, wrap (ExecCmd.ifFalse hg ex3), hr3, ho3, fun hne => kpre.trans (hk3 hne) (by omega), hv3⟩
            · simp at hs
          · rename_i k c2 hcs
            simp only [Option.some.injEq, Prod.mk.injEq] at hs
            obtain ⟨rfl, rfl⟩ := hs
            obtain ⟨m2, ex2, ho2⟩ := sime.run f c1 _ hcs m1 hi1
            refine ⟨m2, .exit k, ?_, rfl, ho2, fun hne => absurd rfl (hne k), fun vs hv => by cases hv⟩
            rw [List.map_append, List.append_assoc]
            exact execCmds_append ex1 (execCmds_stop_append _ ex2 (by simp))
          · simp at hs
        · rename_i k c1 hce
          simp only [Option.some.injEq, Prod.mk.injEq] at hs
          obtain ⟨rfl, rfl⟩ := hs
          obtain ⟨m1, ex1, ho1⟩ := simc1.run f c0 _ (single_exit hce) m hi
          refine ⟨m1, .exit k, ?_, rfl, ho1, fun hne => absurd rfl (hne k), fun vs hv => by cases hv⟩
          rw [List.map_append, List.append_assoc]
          exact execCmds_stop_append _ ex1 (by simp)
        · simp at hs
  | .forS init cond incr body =>
    intro s s' hc hB h
    simp only [fragS, Bool.and_eq_true] at hf
    obtain ⟨⟨⟨hfi, hfc⟩, hfn⟩, hfb⟩ := hf
    unfold evalStmt at h
    obtain ⟨_, s1, h1, h⟩ := bind_ok h
    obtain ⟨_, s2, h2, h⟩ := bind_ok h
    obtain ⟨_, s3, h3, h⟩ := bind_ok h
    obtain ⟨c, s4, h4, h⟩ := bind_ok h
    obtain ⟨_, s5, h5, h⟩ := bind_ok h
    obtain ⟨_, s6, h6, h7⟩ := bind_ok h
    have hi := opt_semF hT hctx init hfi s s1 hc hB h1
    have hc1 : ctxOf s1 = ctx := by rw [hi.ctx]; exact hc
    have hfc1 := hi.forCounter
    have e2 := forStart_ok h2
    have hc2 : ctxOf s2 = ctx := by rw [e2]; exact hc1
    have hinc := incr_semF hT hctx incr hfn s2 s3 s1.forCounter s1.fors hc2 (by rw [e2]) (by rw [e2]; simp) (by rw [e2]; simp; omega) (by omega) h3
    obtain ⟨ci, ni, mi, ri, ei, hli, simi⟩ := hi
    obtain ⟨P, np, mp, rp, ep, hlP, simP, simP0⟩ := hinc
    have hc3 : ctxOf s3 = ctx := by rw [ep]; exact hc2
    obtain ⟨newc, nc, rc, e4, simc⟩ := expr_semF hT hctx cond s3 c s4 hfc hc3 h4
    have simc1 := esim_first simc
    have e5 := addLine_ok (l := .forCond (firstValue c)) h5
    have hc5 : ctxOf s5 = ctx := by rw [e5, e4]; exact hc3
    have hs5f : s5.forCounter = s1.forCounter + 1 + mp := by rw [e5, e4, ep, e2]; rfl
    have hb := block_semF hT hctx body hfb s5 s6 hc5 (by omega) h6
    obtain ⟨bc, nb, mb, rb, eb, hlb, simb⟩ := hb
    have e7 := forEnd_ok h7
    refine ⟨ci ++ [Cmd.simple (.forFlagInit s1.forCounter),
        Cmd.loop (P ++ (newc.reverse.map Cmd.simple ++ (Cmd.simple (.forCond (firstValue c)) :: bc)))],
      ni + np + nc + nb, mi + 1 + mp + mb, ((ri.or rp).or rc).or rb, ?_, ?_, ?_⟩
    · rw [e7, eb, e5, e4, ep, e2, ei]
      apply St.ext2 <;>
        simp [adv, adv2, reqSt, Req.or, Bool.or_assoc, flats_append, flats_simples, flats_simples_reverse, flats, flat, Nat.add_assoc, List.reverse_append]
    · have h1f : s1.forCounter = s.forCounter + mi := by rw [ei]; rfl
      have h2f : s2.forCounter = s1.forCounter + 1 := by rw [e2]
      rw [flats_append]
      refine (hli.mono (by omega)).append ?_
      simp only [flats, flat, List.append_nil, List.singleton_append]
      refine LinesOK.cons ⟨fun y hy => ?_, fun nm ar e' => (by cases e'), rfl⟩ (LinesOK.cons (sline_plain _ _ _ _ rfl rfl) ?_)
      · simp only [lineTargets, List.mem_singleton] at hy
        exact Or.inr (Or.inr (Or.inr (Or.inr (Or.inl ⟨s1.forCounter, by omega, hy⟩))))
      · rw [flats_append, flats_append, flats_simples]
        simp only [flats, flat, List.singleton_append]
        refine ((hlP.mono (by omega)).append (((simc.lines.reverse).mono (Nat.zero_le _)).append
          (LinesOK.cons (sline_plain _ _ _ _ rfl rfl) (hlb.mono (by omega))))).append (linesOK_plain1 _ _ _ _ rfl rfl)
    · intro fuel c0 o c' hs m hi0
      let n := s1.forCounter
      have hBn : B ≤ n := by show B ≤ s1.forCounter; omega
      rcases src_forF hs with ⟨f, k, hsi, rfl⟩ | ⟨f, c1, hsi, hsl⟩
      · obtain ⟨m1, o1, ex1, hr1, ho1, _, _⟩ := simi f c0 _ c' hsi m hi0
        have : o1 = .exit k := by cases o1 <;> simp [OutRel] at hr1 ⊢; exact hr1.symm
        subst this
        exact ⟨m1, .exit k, execCmds_stop_append _ ex1 (by simp), rfl, ho1, fun hne => absurd rfl (hne k), fun vs hv => by cases hv⟩
      · obtain ⟨m1, o1, ex1, hr1, _, hk1', _⟩ := simi f c0 _ c1 hsi m hi0
        have : o1 = .normal := (outRel_normal hr1).mpr rfl
        subst this
        have k1 := hk1' (fun j => by simp)
        -- the flag of this loop starts empty
        have hi2 : Inv ctx T c1 { m1 with ρ := m1.ρ.set (flagName n) "" } := k1.inv.set_flag n ""
        obtain ⟨m3, ex3, hf3, hi3, hc3', same3⟩ := simP0 c1 { m1 with ρ := m1.ρ.set (flagName n) "" } hi2 (Sem.set_same _ _ _)
        have hkb : n < s5.forCounter := by rw [hs5f]; show s1.forCounter < _; omega
        obtain ⟨m', o', exl, hrl, hol, hkl, hvl⟩ := loop_simF (n := n) simc1 simb hkb hBn simP f c1 o c' hsl _ m3 ex3 hi3 hf3
        refine ⟨m', o', ?_, hrl, hol, fun hne => ?_, hvl⟩
        · refine execCmds_append ex1 (ExecCmds.cons (ExecCmd.simple (c' := { m1 with ρ := m1.ρ.set (flagName n) "" }) rfl rfl) ?_)
          exact execCmds_single (ExecCmd.loop exl)
        · obtain ⟨a, b, c''⟩ := hkl hne
          refine ⟨a, (k1.ctl.trans hc3').trans b, ?_⟩
          intro j hBj hj
          rw [c'' j hBj (by show j < s1.forCounter; omega), same3 _ (fun e => by have := flagName_inj e; omega)]
          show (m1.ρ.set _ _) (flagName j) = _
          rw [Sem.set_other _ _ _ _ (fun e => by have := flagName_inj e; omega)]
          exact k1.flags j hBj hj
  | .sliceAssign x index value =>
    intro s s' hc hB h
    unfold evalStmt at h
    simp only [fragS, Bool.and_eq_true] at hf
    exact sliceassign_semF hT hctx hf.1.1 hf.1.2 hf.2 hc h
  | .funcDef _ _ _ _ _ => simp [fragS] at hf
  | .expr (.boolLit _) | .expr (.intLit _) | .expr (.strLit _) | .expr (.varEval _) | .expr (.unary _ _ _)
  | .expr (.binary _ _ _) | .expr (.compare _ _ _) | .expr (.logical _ _ _) | .expr (.group _)
  | .expr (.sliceNew _ _) | .expr (.sliceEval _ _ _) | .expr (.substr _ _ _) | .expr (.len _)
  | .expr (.itoa _) | .expr (.exists_ _) | .expr (.bad _) | .expr (.app _ _ _) | .expr (.read _)
  | .expr (.input _) | .expr (.copy _ _) | .expr (.write _ _ _) => simp [fragS, isCallE] at hf

theorem opt_semF {ctx : Ctx} {T : List FEntry} {B : Nat} (hT : TableOK T) (hctx : CtxOK ctx T B) (init : Option Stmt) (hf : fragO (tnames T) init = true) :
    ∀ s s', ctxOf s = ctx → B ≤ s.forCounter → evalInit conv init s = .ok ((), s') → StmtSemF ctx T B (srcIncrF init) s s' := by
  match init with
  | some i =>
    intro s s' hc hB h
    unfold evalInit at h
    exact stmt_semF hT hctx i (by simpa [fragO] using hf) s s' hc hB h
  | none =>
    intro s s' hc hB h
    unfold evalInit at h
    obtain ⟨_, es⟩ := pure_ok h
    refine ⟨[], 0, 0, Req.none, (by rw [es, reqSt_none]; rfl), by simp [flats]; exact LinesOK.nil _ _ _, ?_⟩
    intro fuel c o c' hs m hi
    simp only [srcIncrF, Option.some.injEq, Prod.mk.injEq] at hs
    obtain ⟨rfl, rfl⟩ := hs
    exact ⟨m, .normal, ExecCmds.nil, trivial, hi.out, fun _ => ⟨hi, Ctl.refl m, FlagsKept.refl _ _ m⟩, fun vs hv => by cases hv⟩

theorem incr_semF {ctx : Ctx} {T : List FEntry} {B : Nat} (hT : TableOK T) (hctx : CtxOK ctx T B) (incr : Option Stmt) (hf : fragO (tnames T) incr = true) :
    ∀ s s' n rest, ctxOf s = ctx → s.fors = n :: rest → n < s.forCounter → B ≤ s.forCounter → B ≤ n → evalIncr conv incr s = .ok ((), s') →
      ∃ P nn mm rq, s' = reqSt (adv2 s (flats P).reverse nn mm) rq ∧ LinesOK ctx (s.forCounter + mm) (tnames T) (flats P) ∧ IncrStepF ctx T B incr P n ∧
        (∀ c m, Inv ctx T c m → m.ρ (flagName n) = "" →
          ∃ m1, ExecCmds P m .normal m1 ∧ FlagOKF incr n m1.ρ ∧ Inv ctx T c m1 ∧ Ctl m m1 ∧ ∀ x, x ≠ flagName n → m1.ρ x = m.ρ x) := by
  match incr with
  | none =>
    intro s s' n rest hc hfo hn hB hBn h
    unfold evalIncr at h
    obtain ⟨_, es⟩ := pure_ok h
    refine ⟨[], 0, 0, Req.none, (by rw [es, reqSt_none]; rfl), by simp [flats]; exact LinesOK.nil _ _ _, ?_, ?_⟩
    · intro fuel cb o c2 hs m hi hfl
      simp only [srcIncrF, Option.some.injEq, Prod.mk.injEq] at hs
      obtain ⟨rfl, rfl⟩ := hs
      exact ⟨m, .normal, ExecCmds.nil, trivial, hi.out, fun _ => ⟨hi, Ctl.refl m, FlagsKept.refl _ _ m, hfl⟩⟩
    · intro c m hi _
      exact ⟨m, ExecCmds.nil, trivial, hi, Ctl.refl m, fun _ _ => rfl⟩
  | some i =>
    intro s s' n rest hc hfo hn hB hBn h
    unfold evalIncr at h
    obtain ⟨_, s1, h1, h⟩ := bind_ok h
    obtain ⟨_, s2, h2, h3⟩ := bind_ok h
    have e1 := forIncrementStart_ok hfo h1
    have hc1 : ctxOf s1 = ctx := by rw [e1]; exact hc
    have hsi := stmt_semF hT hctx i (by simpa [fragO] using hf) s1 s2 hc1 (by rw [e1]; exact hB) h2
    have hfo2 : s2.fors = n :: rest := by rw [hsi.fors, e1]; exact hfo
    have e3 := forIncrementEnd_ok hfo2 h3
    obtain ⟨ci, ni, mi, ri, ei, hlci, simi⟩ := hsi
    refine ⟨[Cmd.ifc (.incrStart n) ci [] none, Cmd.simple (.incrFlagSet n)], ni, mi, ri, ?_, ?_, ?_, ?_⟩
    · rw [e3, ei, e1]
      apply St.ext2 <;> simp [adv2, reqSt, flats, flat, flatElifs, flatElse]
    · have h1f : s1.forCounter = s.forCounter := by rw [e1]
      simp only [flats, flat, flatElifs, flatElse, List.append_nil, List.nil_append]
      show LinesOK ctx (s.forCounter + mi) (tnames T) (Line.incrStart n :: ((flats ci ++ [Line.fi]) ++ [Line.incrFlagSet n]))
      refine LinesOK.cons (sline_plain _ _ _ _ rfl rfl) (LinesOK.append (LinesOK.append (hlci.mono (by omega)) (linesOK_plain1 _ _ _ _ rfl rfl)) ?_)
      refine LinesOK.cons ⟨fun y hy => ?_, fun nm ar e' => (by cases e'), rfl⟩ (LinesOK.nil _ _ _)
      simp only [lineTargets, List.mem_singleton] at hy
      exact Or.inr (Or.inr (Or.inr (Or.inr (Or.inl ⟨n, by omega, hy⟩))))
    · intro fuel cb o c2 hs m hi hfl
      have hs' : execS fuel i cb = some (o, c2) := hs
      obtain ⟨m4, o4, ex4, hr4, ho4, hk4, _⟩ := simi fuel cb o c2 hs' m hi
      have hg : Sem.guard m.ρ (.incrStart n) = some true := by
        simp only [FlagOKF] at hfl
        simp [Sem.guard, hfl]
      by_cases hon : o = .normal
      · subst hon
        have : o4 = .normal := (outRel_normal hr4).mpr rfl
        subst this
        have k4 := hk4 (fun j => by simp)
        refine ⟨{ m4 with ρ := m4.ρ.set (flagName n) "1" }, .normal, ?_, trivial, ho4, fun _ => ⟨k4.inv.set_flag n "1", k4.ctl, ?_, ?_⟩⟩
        · exact ExecCmds.cons (ExecCmd.ifTrue hg ex4) (execCmds_single (ExecCmd.simple rfl rfl))
        · intro j hBj hj
          show (m4.ρ.set _ _) (flagName j) = _
          rw [Sem.set_other _ _ _ _ (fun e => by have := flagName_inj e; omega)]
          exact k4.flags j hBj (by rw [e1]; show j < s.forCounter; omega)
        · simp only [FlagOKF]; exact Sem.set_same _ _ _
      · refine ⟨m4, o4, ?_, hr4, ho4, fun h' => absurd h' hon⟩
        exact ExecCmds.stop (ExecCmd.ifTrue hg ex4) (fun e => hon ((outRel_normal hr4).mp e))
    · intro c m hi h0'
      have hg : Sem.guard m.ρ (.incrStart n) = some false := by simp [Sem.guard, h0']
      refine ⟨{ m with ρ := m.ρ.set (flagName n) "1" }, ?_, ?_, hi.set_flag n "1", ⟨rfl, rfl, rfl⟩, ?_⟩
      · exact ExecCmds.cons (ExecCmd.ifFalse hg ExecElifs.none) (execCmds_single (ExecCmd.simple rfl rfl))
      · simp only [FlagOKF]; exact Sem.set_same _ _ _
      · intro x hx; exact Sem.set_other _ _ _ _ hx

theorem block_semF {ctx : Ctx} {T : List FEntry} {B : Nat} (hT : TableOK T) (hctx : CtxOK ctx T B) (body : List Stmt) (hf : fragSs (tnames T) body = true) :
    ∀ s s', ctxOf s = ctx → B ≤ s.forCounter → evalBlock conv body s = .ok ((), s') → StmtSemF ctx T B (fun f c => execSs f body c) s s' := by
  match body with
  | [] =>
    intro s s' hc hB h
    unfold evalBlock at h
    have h' : addLine .nop s = .ok ((), s') := h
    have e := addLine_ok h'
    refine ⟨[Cmd.simple .nop], 0, 0, Req.none, by rw [e, reqSt_none]; simp [adv2, flats, flat], linesOK_simples (ls := [.nop]) (linesOK_plain1 _ _ _ _ rfl rfl), ?_⟩
    intro fuel c o c' hs m hi
    cases fuel with
    | zero => simp [execSs] at hs
    | succ f =>
      simp only [execSs, Option.some.injEq, Prod.mk.injEq] at hs
      obtain ⟨rfl, rfl⟩ := hs
      exact ⟨m, .normal, execCmds_single (ExecCmd.simple rfl rfl), trivial, hi.out,
        fun _ => ⟨hi, Ctl.refl m, FlagsKept.refl _ _ m⟩, fun vs hv => by cases hv⟩
  | st :: rest =>
    intro s s' hc hB h
    unfold evalBlock at h
    simp only [fragSs, Bool.and_eq_true] at hf
    obtain ⟨_, s1, h1, h2⟩ := bind_ok h
    have hs1 := stmt_semF hT hctx st hf.1 s s1 hc hB h1
    have hs2 := stmts_semF hT hctx rest hf.2 s1 s' (by rw [hs1.ctx]; exact hc) (Nat.le_trans hB hs1.forCounter) h2
    exact stmtSemF_seq hs1 hs2 (fun _ _ _ _ h => execSs_cons_cases h)

theorem stmts_semF {ctx : Ctx} {T : List FEntry} {B : Nat} (hT : TableOK T) (hctx : CtxOK ctx T B) (body : List Stmt) (hf : fragSs (tnames T) body = true) :
    ∀ s s', ctxOf s = ctx → B ≤ s.forCounter → evalStmts conv body s = .ok ((), s') → StmtSemF ctx T B (fun f c => execSs f body c) s s' := by
  match body with
  | [] =>
    intro s s' hc hB h
    unfold evalStmts at h
    obtain ⟨_, es⟩ := pure_ok h
    rw [es]
    exact stmtSemF_nil ctx T B s
  | st :: rest =>
    intro s s' hc hB h
    unfold evalStmts at h
    simp only [fragSs, Bool.and_eq_true] at hf
    obtain ⟨_, s1, h1, h2⟩ := bind_ok h
    have hs1 := stmt_semF hT hctx st hf.1 s s1 hc hB h1
    have hs2 := stmts_semF hT hctx rest hf.2 s1 s' (by rw [hs1.ctx]; exact hc) (Nat.le_trans hB hs1.forCounter) h2
    exact stmtSemF_seq hs1 hs2 (fun _ _ _ _ h => execSs_cons_cases h)

theorem else_semF {ctx : Ctx} {T : List FEntry} {B : Nat} (hT : TableOK T) (hctx : CtxOK ctx T B) (els : List Stmt) (hf : fragSs (tnames T) els = true) :
    ∀ s s', ctxOf s = ctx → B ≤ s.forCounter → evalElse conv els s = .ok ((), s') →
      ∃ t n mm rq, s' = reqSt (adv2 s (flatElse t).reverse n mm) rq ∧ LinesOK ctx (s.forCounter + mm) (tnames T) (flatElse t) ∧ ElseSimF ctx T B els t s.forCounter := by
  match els with
  | [] =>
    intro s s' hc hB h
    unfold evalElse at h
    obtain ⟨_, es⟩ := pure_ok h
    refine ⟨none, 0, 0, Req.none, (by rw [es, reqSt_none]; rfl), by simp [flatElse]; exact LinesOK.nil _ _ _, ?_⟩
    intro fuel c o c' hs m hi
    cases fuel with
    | zero => simp [execSs] at hs
    | succ f =>
      simp only [execSs, Option.some.injEq, Prod.mk.injEq] at hs
      obtain ⟨rfl, rfl⟩ := hs
      exact ⟨m, .normal, ExecElifs.none, trivial, hi.out, fun _ => ⟨hi, Ctl.refl m, FlagsKept.refl _ _ m⟩, fun vs hv => by cases hv⟩
  | st :: rest =>
    intro s s' hc hB h
    unfold evalElse at h
    simp only [fragSs, Bool.and_eq_true] at hf
    obtain ⟨_, s1, h1, h⟩ := bind_ok h
    obtain ⟨_, s2, h2, h⟩ := bind_ok h
    obtain ⟨_, s3, h3, h4⟩ := bind_ok h
    have e1 := addLine_ok (l := .else_) h1
    have hc1 : ctxOf s1 = ctx := by rw [e1]; exact hc
    have hs1 := stmt_semF hT hctx st hf.1 s1 s2 hc1 (by rw [e1]; exact hB) h2
    have hs2 := stmts_semF hT hctx rest hf.2 s2 s3 (by rw [hs1.ctx]; exact hc1) (Nat.le_trans (by rw [e1]; exact hB) hs1.forCounter) h3
    obtain ⟨_, e4⟩ := pure_ok (a := ()) h4
    have hseq : StmtSemF ctx T B (fun f c => execSs f (st :: rest) c) s1 s3 :=
      stmtSemF_seq hs1 hs2 (fun _ _ _ _ h => execSs_cons_cases h)
    obtain ⟨cs, n, mm, rs, e, hlcs, sim⟩ := hseq
    refine ⟨some cs, n, mm, rs, ?_, ?_, ?_⟩
    · rw [e4, e, e1]
      apply St.ext2 <;> simp [adv2, reqSt, flatElse]
    · have h1f : s1.forCounter = s.forCounter := by rw [e1]
      simp only [flatElse]
      exact LinesOK.cons (sline_plain _ _ _ _ rfl rfl) (by rw [← h1f]; exact hlcs)
    · intro fuel c o c' hs m hi
      obtain ⟨m', o', ex, hr, ho, hk, hv⟩ := sim fuel c o c' hs m hi
      refine ⟨m', o', ExecElifs.els ex, hr, ho, fun hne => ?_, hv⟩
      have := hk hne
      rw [e1] at this; exact this

theorem elifs_semF {ctx : Ctx} {T : List FEntry} {B : Nat} (hT : TableOK T) (hctx : CtxOK ctx T B) (elifs : List (Expr × List Stmt)) (hf : fragEl (tnames T) elifs = true) :
    ∀ ecs s s', ctxOf s = ctx → B ≤ s.forCounter → evalElifs conv elifs ecs s = .ok ((), s') →
      ∃ tree n mm rq, s' = reqSt (adv2 s (flatElifs tree).reverse n mm) rq ∧ LinesOK ctx (s.forCounter + mm) (tnames T) (flatElifs tree) ∧
        ∀ els elseT k0, s'.forCounter ≤ k0 → ElseSimF ctx T B els elseT k0 →
          ∀ fuel bs c o c', execEl fuel elifs bs els c = some (o, c') →
            ∀ m, Inv ctx T c m → GuardValsF ecs bs m.ρ →
              ∃ m' o', ExecElifs tree elseT m o' m' ∧ OutRel o o' ∧ c'.out = m'.out ∧
                ((∀ j, o ≠ .exit j) → Kept ctx T B s.forCounter c' m m') ∧ (∀ vs, o = .ret vs → ValsRv 0 vs m'.ρ) := by
  match elifs with
  | [] =>
    intro ecs s s' hc hB h
    unfold evalElifs at h
    obtain ⟨_, es⟩ := pure_ok h
    refine ⟨[], 0, 0, Req.none, (by rw [es, reqSt_none]; rfl), by simp [flatElifs]; exact LinesOK.nil _ _ _, ?_⟩
    intro els elseT k0 hk hsim fuel bs c o c' hs m hi _
    obtain ⟨f, hs'⟩ := src_el_nil hs
    obtain ⟨m', o', ex, hr, ho, hkk, hv⟩ := hsim f c o c' hs' m hi
    refine ⟨m', o', ex, hr, ho, fun hne => ?_, hv⟩
    have k' := hkk hne
    exact ⟨k'.inv, k'.ctl, k'.flags.mono (by rw [es] at hk; exact hk)⟩
  | (cnd, body) :: rest =>
    intro ecs s s' hc hB h
    match ecs with
    | [] =>
      unfold evalElifs at h
      obtain ⟨_, es⟩ := pure_ok h
      refine ⟨[], 0, 0, Req.none, (by rw [es, reqSt_none]; rfl), by simp [flatElifs]; exact LinesOK.nil _ _ _, ?_⟩
      intro els elseT k0 hk hsim fuel bs c o c' hs m hi hgv
      cases bs <;> simp [GuardValsF] at hgv
      -- no guard texts: the source chain has no values either, it runs the else part
      rename_i _
      cases fuel with
      | zero => simp [execEl] at hs
      | succ f =>
        simp only [execEl] at hs
        obtain ⟨m', o', ex, hr, ho, hkk, hv⟩ := hsim f c o c' hs m hi
        refine ⟨m', o', ex, hr, ho, fun hne => ?_, hv⟩
        have k' := hkk hne
        exact ⟨k'.inv, k'.ctl, k'.flags.mono (by rw [es] at hk; exact hk)⟩
    | t :: cs =>
      unfold evalElifs at h
      simp only [fragEl, Bool.and_eq_true] at hf
      obtain ⟨_, s1, h1, h⟩ := bind_ok h
      obtain ⟨_, s2, h2, h⟩ := bind_ok h
      obtain ⟨_, s3, h3, h4⟩ := bind_ok h
      have e1 := addLine_ok (l := .ifStart "elif" t) h1
      have hc1 : ctxOf s1 = ctx := by rw [e1]; exact hc
      have hb := block_semF hT hctx body hf.1.2 s1 s2 hc1 (by rw [e1]; exact hB) h2
      obtain ⟨_, e3⟩ := pure_ok (a := ()) h3
      have hc3 : ctxOf s3 = ctx := by rw [e3, hb.ctx]; exact hc1
      have hB3 : B ≤ s3.forCounter := by rw [e3]; exact Nat.le_trans (by rw [e1]; exact hB) hb.forCounter
      have hr := elifs_semF hT hctx rest hf.2 cs s3 s' hc3 hB3 h4
      obtain ⟨bc, nb, mb, rb, eb, hlb, simb⟩ := hb
      obtain ⟨tree, nt, mt, rt, et, hlt, simt⟩ := hr
      refine ⟨(.ifStart "elif" t, bc) :: tree, nb + nt, mb + mt, rb.or rt, ?_, ?_, ?_⟩
      · rw [et, e3, eb, e1]
        apply St.ext2 <;> simp [adv2, reqSt, Req.or, Bool.or_assoc, flatElifs, Nat.add_assoc, List.reverse_append]
      · have h1f : s1.forCounter = s.forCounter := by rw [e1]
        have h3f : s3.forCounter = s1.forCounter + mb := by rw [e3, eb]; rfl
        simp only [flatElifs]
        exact LinesOK.cons (sline_plain _ _ _ _ rfl rfl) ((hlb.mono (by omega)).append (hlt.mono (by omega)))
      · intro els elseT k0 hk hsim fuel bs c o c' hs m hi hgv
        match bs, hgv with
        | v :: bs', hgv =>
          obtain ⟨hgb, hgv'⟩ := hgv
          cases fuel with
          | zero => simp [execEl] at hs
          | succ f =>
            simp only [execEl] at hs
            split at hs
            · have hg := hgb true rfl
              obtain ⟨m', o', ex, hr', ho, hkk, hv⟩ := simb f c o c' hs m hi
              refine ⟨m', o', ExecElifs.hit hg ex, hr', ho, fun hne => ?_, hv⟩
              have := hkk hne
              rw [e1] at this; exact this
            · have hg := hgb false rfl
              obtain ⟨m', o', ex, hr', ho, hkk, hv⟩ := simt els elseT k0 hk hsim f bs' c o c' hs m hi hgv'
              refine ⟨m', o', ExecElifs.miss hg ex, hr', ho, fun hne => ?_, hv⟩
              have k' := hkk hne
              refine ⟨k'.inv, k'.ctl, k'.flags.mono ?_⟩
              rw [e3, eb, e1]; simp [adv2, reqSt]
            · simp at hs
end

end Tsh.Sem2
