/-
  The lines in front of the program - the start code and the jump over the echo routine - lead, in the line-level semantics
  `Sem/CmdLines`, from the first line of the script and the EMPTY store to the first line of the program with the store
  that holds `_e = 0` and nothing else (`pre_leads`).
-/
import TshVerif.Lemmas.SemBLabels
import TshVerif.Lemmas.SemBLoop
namespace Tsh.SemB
open Tsh Tsh.Batch Tsh.Sem

/-- the first four lines of every script -/
def baseStart : List BLine := [.raw "@echo off", .raw "setlocal EnableDelayedExpansion", .raw "setlocal", .set "_e" "0"]

/-- the echo routine with the jump over it -/
def echoHelper : List BLine := helper "echo" "_ech" [.raw "if \"!_fa0!\" neq \"\" (echo !_fa0!) else echo."]

theorem lfLine_nop {l : BLine} (h : lfLine l = true) : ∃ t, l = .raw t ∧ nopRaw t = true := by
  simp only [lfLine, Bool.or_eq_true, beq_iff_eq] at h
  rcases h with (h | h) | h <;> subst h
  · exact ⟨_, rfl, by simp [nopRaw]⟩
  · exact ⟨_, rfl, by simp [nopRaw]⟩
  · exact ⟨_, rfl, by simp [nopRaw]⟩

theorem leads_nops (whole : List BLine) : ∀ (xs : List BLine), (∀ l ∈ xs, lfLine l = true) → ∀ (R : List BLine) (c : Cfg),
    Leads whole (xs ++ R) c R c
  | [], _, R, c => by simpa using Leads.refl
  | x :: xs, h, R, c => by
    obtain ⟨t, rfl, hn⟩ := lfLine_nop (h x (by simp))
    have ih := leads_nops whole xs (fun l hl => h l (by simp [hl])) R c
    exact fun o c' r => .nop hn (ih o c' r)

theorem afterLabel_skip (l : String) : ∀ (A R : List BLine), (∀ x ∈ A, plab x = none ∧ clab x = none) →
    afterLabel l (A ++ R) = afterLabel l R
  | [], R, _ => rfl
  | a :: A, R, h => by
    have ha := h a (by simp)
    have ih := afterLabel_skip l A R (fun x hx => h x (by simp [hx]))
    cases a <;> simp [plab, clab] at ha <;> simpa [afterLabel] using ih

theorem eo_ne_end : ("_eo_" ++ "_ech" : String) ≠ "end" := by decide
theorem ech_ne_eo : (("_ech" : String) == "_eo_" ++ "_ech") = false := by decide

theorem helper_begin_text : toString ":: global " ++ toString "echo" ++ toString " helper begin" = ":: global echo helper begin" := by decide
theorem helper_end_text : toString ":: global " ++ toString "echo" ++ toString " helper end" = ":: global echo helper end" := by decide

/-- from the first line of the script and the empty store, the start code and the jump over the echo routine lead to the
    first line of the program with the store that holds `_e = 0` and nothing else -/
theorem pre_leads (whole extra R : List BLine) (hex : ∀ l ∈ extra, lfLine l = true) (ech : Bool)
    (hw : whole = baseStart ++ (extra ++ ((if ech then echoHelper else []) ++ R))) :
    Leads whole (baseStart ++ (extra ++ ((if ech then echoHelper else []) ++ R))) ⟨fun _ => "", []⟩ R ⟨Store.set (fun _ => "") "_e" "0", []⟩ := by
  have hset : stepB (.set "_e" "0") ⟨fun _ => "", []⟩ = some (.normal, ⟨Store.set (fun _ => "") "_e" "0", []⟩) :=
    stepB_set_lit (fun _ => "") [] "_e" false
  have l1 : Leads whole (baseStart ++ (extra ++ ((if ech then echoHelper else []) ++ R))) ⟨fun _ => "", []⟩
      (extra ++ ((if ech then echoHelper else []) ++ R)) ⟨Store.set (fun _ => "") "_e" "0", []⟩ := by
    intro o c' r
    exact .nop (by simp [nopRaw]) (.nop (by simp [nopRaw]) (.nop (by simp [nopRaw]) (.simple hset r)))
  have l2 := leads_nops whole extra hex ((if ech then echoHelper else []) ++ R) ⟨Store.set (fun _ => "") "_e" "0", []⟩
  refine Leads.trans l1 (Leads.trans l2 ?_)
  cases ech with
  | false => simpa using Leads.refl
  | true =>
    simp only [if_true]
    have e : echoHelper ++ R = .raw ":: global echo helper begin" :: .goto ("_eo_" ++ "_ech") :: .label "_ech" ::
        .raw "if \"!_fa0!\" neq \"\" (echo !_fa0!) else echo." :: .raw "exit /B" :: .label ("_eo_" ++ "_ech") ::
        .raw ":: global echo helper end" :: R := by simp [echoHelper, helper, helper_begin_text, helper_end_text]
    have hal : afterLabel ("_eo_" ++ "_ech") whole = some (.raw ":: global echo helper end" :: R) := by
      rw [hw]
      rw [show baseStart ++ (extra ++ ((if true = true then echoHelper else []) ++ R)) = (baseStart ++ extra) ++ (echoHelper ++ R) by simp]
      rw [afterLabel_skip _ (baseStart ++ extra) _ (by
        intro x hx
        rcases List.mem_append.mp hx with h | h
        · simp [baseStart] at h
          rcases h with rfl | rfl | rfl | rfl <;> exact ⟨rfl, rfl⟩
        · obtain ⟨t, rfl, _⟩ := lfLine_nop (hex x h)
          exact ⟨rfl, rfl⟩)]
      rw [e]
      simp [afterLabel, ech_ne_eo]
    intro o c' r
    rw [e]
    exact .nop (by simp [nopRaw, List.isPrefixOf]) (.gotoL eo_ne_end hal (.nop (by simp [nopRaw, List.isPrefixOf]) r))

end Tsh.SemB
