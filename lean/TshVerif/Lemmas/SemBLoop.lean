/-
  Loops of the scalar fragment on the Batch target: `for` with its first-round flag `_fv<n>`, head label `_f<n>` and end
  label `_e<n>`, `break` and `continue` as jumps to the labels of the innermost loop, and the induction over the AST for
  the whole scalar fragment.
-/
import TshVerif.Lemmas.SemBCtl
namespace Tsh.SemB
open Tsh Tsh.Tr Tsh.Batch Tsh.Sem Tsh.C05S

/-- the loop stacks of the converter match the innermost-loop context of the tree -/
def CtxOK (ctx : LCtx) (s : St) : Prop :=
  match ctx with
  | some (h, e) => ∃ r r', s.fors = h :: r ∧ s.endLabels = e :: r'
  | none => s.fors = [] ∧ s.endLabels = []

theorem CtxOK.advT {ctx : LCtx} {s s' : St} {new : List BLine} {n : Nat} (ad : AdvT s s' new n) (h : CtxOK ctx s) : CtxOK ctx s' := by
  cases ctx with
  | none => simp only [CtxOK] at h ⊢; rw [ad.fors, ad.ends]; exact h
  | some p => obtain ⟨a, b⟩ := p; simp only [CtxOK] at h ⊢; rw [ad.fors, ad.ends]; exact h

/-- everything but the global code, the loop stacks and the loop counter is as before -/
structure RestF (s s' : St) : Prop where
  cnt : s'.varCounter = s.varCounter
  funcs : s'.funcs = s.funcs
  fcode : s'.functionsCode = s.functionsCode
  ifs : s'.ifs = s.ifs
  icnt : s'.ifCounter = s.ifCounter
  env : EnvExt s s'

/-- `Adv` for structural lines (brackets, construct labels and jumps): the same bookkeeping, no claim about the lines -/
structure AdvS (s s' : St) (new : List BLine) (n : Nat) : Prop where
  code : s'.globalCode = new ++ s.globalCode
  cnt : s'.varCounter = s.varCounter + n
  funcs : s'.funcs = s.funcs
  fcode : s'.functionsCode = s.functionsCode
  fors : s'.fors = s.fors
  ends : s'.endLabels = s.endLabels
  ifs : s'.ifs = s.ifs
  fcnt : s'.forCounter = s.forCounter
  icnt : s'.ifCounter = s.ifCounter
  env : EnvExt s s'

theorem Adv.toS {s s' : St} {new : List BLine} {n : Nat} (h : Adv s s' new n) : AdvS s s' new n :=
  ⟨h.code, h.cnt, h.funcs, h.fcode, h.fors, h.ends, h.ifs, h.fcnt, h.icnt, h.env⟩

theorem AdvS.trans {s s1 s2 : St} {a b : List BLine} {m n : Nat} (h1 : AdvS s s1 a m) (h2 : AdvS s1 s2 b n) :
    AdvS s s2 (b ++ a) (m + n) :=
  ⟨by rw [h2.code, h1.code, List.append_assoc], by rw [h2.cnt, h1.cnt, Nat.add_assoc], by rw [h2.funcs, h1.funcs],
   by rw [h2.fcode, h1.fcode], by rw [h2.fors, h1.fors], by rw [h2.ends, h1.ends], by rw [h2.ifs, h1.ifs],
   by rw [h2.fcnt, h1.fcnt], by rw [h2.icnt, h1.icnt], h1.env.trans h2.env⟩

theorem AdvS.toT {s s' : St} {new : List BLine} {n : Nat} (h : AdvS s s' new n) : AdvT s s' new n :=
  ⟨h.code, h.cnt, h.funcs, h.fcode, h.fors, h.ends, h.ifs, by rw [h.fcnt]; exact Nat.le_refl _, by rw [h.icnt]; exact Nat.le_refl _, h.env⟩

theorem AdvS.funcs_nil {s s' : St} {a : List BLine} {n : Nat} (h : AdvS s s' a n) (h0 : s.funcs = []) : s'.funcs = [] := by
  rw [h.funcs]; exact h0

theorem forStartOp_ok {s s' : St} {u : Unit} (h0 : s.funcs = []) (h : forStartOp s = .ok (u, s')) :
    s'.globalCode = .clabel (forLabel s.forCounter) :: .set (flagName s.forCounter) "" :: s.globalCode ∧
      s'.fors = forLabel s.forCounter :: s.fors ∧ s'.endLabels = endLabel s.forCounter :: s.endLabels ∧
      s'.forCounter = s.forCounter + 1 ∧ RestF s s' := by
  simp [forStartOp, bind, Tr.modify, Tr.get, currentFor, addLine, h0, currentForVar] at h
  rw [← h]
  exact ⟨rfl, rfl, rfl, rfl, ⟨rfl, h0.symm, rfl, rfl, rfl, EnvExt.of_eq rfl rfl rfl rfl rfl rfl rfl rfl rfl rfl⟩⟩

theorem currentForVar_eq {s : St} {n : Nat} (h : s.forCounter = n + 1) : currentForVar s = flagName n := by
  simp [currentForVar, h, flagName]

theorem forIncrementStartOp_ok {s s' : St} {u : Unit} {n : Nat} (h0 : s.funcs = []) (hn : s.forCounter = n + 1)
    (h : forIncrementStartOp s = .ok (u, s')) : AdvS s s' [.opn ("if defined " ++ flagName n ++ " (")] 0 := by
  simp [forIncrementStartOp, bind, Tr.get, addLine, h0, currentForVar_eq hn] at h
  rw [← h]
  exact ⟨rfl, rfl, h0.symm, rfl, rfl, rfl, rfl, rfl, rfl, EnvExt.of_eq rfl rfl rfl rfl rfl rfl rfl rfl rfl rfl⟩

theorem forIncrementEndOp_ok {s s' : St} {u : Unit} {n : Nat} (h0 : s.funcs = []) (hn : s.forCounter = n + 1)
    (h : forIncrementEndOp s = .ok (u, s')) : AdvS s s' [.set (flagName n) "1", .close] 0 := by
  simp [forIncrementEndOp, bind, Tr.get, addLine, h0, currentForVar_eq hn] at h
  rw [← h]
  exact ⟨rfl, rfl, h0.symm, rfl, rfl, rfl, rfl, rfl, rfl, EnvExt.of_eq rfl rfl rfl rfl rfl rfl rfl rfl rfl rfl⟩

theorem forCondition_ok {c : String} {s s' : St} {u : Unit} (h0 : s.funcs = []) (h : addLine (.opn (ifStartLine c)) s = .ok (u, s')) :
    AdvS s s' [.opn (ifStartLine c)] 0 := by
  simp [addLine, h0] at h
  rw [← h]
  exact ⟨rfl, rfl, h0.symm, rfl, rfl, rfl, rfl, rfl, rfl, EnvExt.of_eq rfl rfl rfl rfl rfl rfl rfl rfl rfl rfl⟩

theorem forEndOp_ok {l e : String} {r r' : List String} {s s' : St} {u : Unit} (h0 : s.funcs = []) (hf : s.fors = l :: r)
    (he : s.endLabels = e :: r') (h : forEndOp s = .ok (u, s')) :
    s'.globalCode = .clabel e :: .close :: .cgoto l :: s.globalCode ∧ s'.fors = r ∧ s'.endLabels = r' ∧
      s'.forCounter = s.forCounter ∧ RestF s s' := by
  simp [forEndOp, currentFor, hf, bind, addLine, h0, Tr.get, he, forEndTail, Tr.modify] at h
  rw [← h]
  exact ⟨rfl, by simp [hf], rfl, rfl, ⟨rfl, h0.symm, rfl, rfl, rfl, EnvExt.of_eq rfl rfl rfl rfl rfl rfl rfl rfl rfl rfl⟩⟩

theorem brkOp_ok {e : String} {r' : List String} {s s' : St} {u : Unit} (h0 : s.funcs = []) (he : s.endLabels = e :: r')
    (h : brkOp s = .ok (u, s')) : AdvS s s' [.cgoto e] 0 := by
  simp [brkOp, bind, Tr.get, he, brkTail, addLine, h0] at h
  rw [← h]
  exact ⟨rfl, rfl, h0.symm, rfl, rfl, he.symm, rfl, rfl, rfl, EnvExt.of_eq rfl rfl rfl rfl rfl rfl rfl rfl rfl rfl⟩

theorem contOp_ok {l : String} {r : List String} {s s' : St} {u : Unit} (h0 : s.funcs = []) (hf : s.fors = l :: r)
    (h : contOp s = .ok (u, s')) : AdvS s s' [.cgoto l] 0 := by
  simp [contOp, currentFor, hf, bind, addLine, h0] at h
  rw [← h]
  exact ⟨rfl, rfl, h0.symm, rfl, hf.symm, rfl, rfl, rfl, rfl, EnvExt.of_eq rfl rfl rfl rfl rfl rfl rfl rfl rfl rfl⟩

/-! ### the flag of a loop -/

theorem agree_set_flagB {env : Src.Env} {ρ : Store} (n : Nat) (v : String) (h : Agree env ρ) : Agree env (ρ.set (flagName n) v) := by
  intro x w hx
  obtain ⟨hg, hv⟩ := h x w hx
  exact ⟨hg, by rw [set_other _ _ _ _ (good_ne_flag x n hg)]; exact hv⟩

theorem stepB_set_lit (ρ : Store) (out : List String) (x : String) (b : Bool) :
    stepB (.set x (boolStr b)) ⟨ρ, out⟩ = some (.normal, ⟨ρ.set x (boolStr b), out⟩) := by
  have h : CompleteD ρ (boolStr b).toList (boolStr b).toList := completeD_bool ρ b
  simp only [stepB, h.toExpand]

theorem stepB_set_one (ρ : Store) (out : List String) (x : String) :
    stepB (.set x "1") ⟨ρ, out⟩ = some (.normal, ⟨ρ.set x "1", out⟩) := stepB_set_lit ρ out x true

theorem stepB_set_empty (ρ : Store) (out : List String) (x : String) :
    stepB (.set x "") ⟨ρ, out⟩ = some (.normal, ⟨ρ.set x "", out⟩) := by
  have h : CompleteD ρ ("" : String).toList ("" : String).toList := by simpa using CompleteD.nil ρ
  simp only [stepB, h.toExpand]

/-- the part of a round after the body -/
def srcIncr32 (incr : Option Stmt) : Nat → Src.SCfg → Option (Out × Src.SCfg) :=
  fun f c => match incr with
    | some i => Src32.execStmt f i c
    | none => some (.normal, c)

/-- the loop flag as the increment block needs it -/
def FlagOKB (incr : Option Stmt) (n : Nat) (ρ : Store) : Prop :=
  match incr with
  | some _ => ρ (flagName n) = "1"
  | none => True

theorem flagOKB_congr (incr : Option Stmt) (n : Nat) (ρ ρ' : Store) (h : ρ' (flagName n) = ρ (flagName n)) (hf : FlagOKB incr n ρ) :
    FlagOKB incr n ρ' := by
  cases incr with
  | none => trivial
  | some i => simp only [FlagOKB] at hf ⊢; rw [h]; exact hf

/-- what the increment part of a loop round does -/
def IncrSimT (incr : Option Stmt) (P : List BCmd) (n : Nat) : Prop :=
  (∀ fuel cb c2, srcIncr32 incr fuel cb = some (.normal, c2) → ∀ ρ, Agree cb.env ρ → FlagOKB incr n ρ →
    ∃ ρ5, ExecBs P ⟨ρ, cb.out⟩ .normal ⟨ρ5, c2.out⟩ ∧ Agree c2.env ρ5 ∧ FlagOKB incr n ρ5 ∧ KeepsBelow n ρ ρ5) ∧
  (∀ ρ0 out, ρ0 (flagName n) = "" →
    ∃ ρ1, ExecBs P ⟨ρ0, out⟩ .normal ⟨ρ1, out⟩ ∧ FlagOKB incr n ρ1 ∧ ∀ x, x ≠ flagName n → ρ1 x = ρ0 x)

theorem agree_frameB {env : Src.Env} {ρ ρ' : Store} (h : ∀ x, (∀ k, x ≠ helperName k) → ρ' x = ρ x) (ha : Agree env ρ) : Agree env ρ' := by
  intro x v hx
  obtain ⟨hg, hv⟩ := ha x v hx
  exact ⟨hg, by rw [h x (fun k => good_ne_helper x k hg)]; exact hv⟩

/-- the rounds of a loop -/
theorem loopB_sim {cond : Expr} {incr : Option Stmt} {body : List Stmt}
    {P : List BCmd} {condLines : List BLine} {tc : String} {bodyCmds : List BCmd} {n kb : Nat} (F : Store → Prop)
    (hF : ∀ ρ ρ' : Store, ρ' (flagName n) = ρ (flagName n) → F ρ → F ρ')
    (hcond : ∀ env v, Src32.evalExpr env cond = some v → ∀ ρ out, Agree env ρ →
        ∃ ρ', runN condLines ⟨ρ, out⟩ = some ⟨ρ', out⟩ ∧ (∀ x, (∀ k, x ≠ helperName k) → ρ' x = ρ x) ∧
          expandD ρ' tc = some v.render)
    (hbody : SimT (fun f c => Src32.execStmts f body c) bodyCmds kb) (hkb : n < kb)
    (hP : ∀ fuel cb c2, srcIncr32 incr fuel cb = some (.normal, c2) → ∀ ρ, Agree cb.env ρ → F ρ →
        ∃ ρ5, ExecBs P ⟨ρ, cb.out⟩ .normal ⟨ρ5, c2.out⟩ ∧ Agree c2.env ρ5 ∧ F ρ5 ∧ KeepsBelow n ρ ρ5) :
    ∀ fuel c1 o c', Src32.execLoop fuel cond incr body c1 = some (o, c') →
      ∀ c0 ρ1, ExecBs P c0 .normal ⟨ρ1, c1.out⟩ → Agree c1.env ρ1 → F ρ1 →
        ∃ ρ', ExecLoopB (P ++ condLines.map BCmd.simple) tc bodyCmds c0 o ⟨ρ', c'.out⟩ ∧
          (NotExit o → Agree c'.env ρ' ∧ KeepsBelow n ρ1 ρ') := by
  intro fuel
  induction fuel with
  | zero => intro c1 o c' h; simp [Src32.execLoop] at h
  | succ f ih =>
    intro c1 o c' h c0 ρ1 hP0 ha hf
    simp only [Src32.execLoop] at h
    split at h
    · -- the condition holds
      rename_i hv
      obtain ⟨ρ2, run2, fr2, ex2⟩ := hcond _ _ hv ρ1 c1.out ha
      have ha2 : Agree c1.env ρ2 := agree_frameB fr2 ha
      have hfl2 : ρ2 (flagName n) = ρ1 (flagName n) := fr2 _ (fun k => flag_ne_helper n k)
      have hf2 : F ρ2 := hF _ _ hfl2 hf
      have ff2 : KeepsBelow n ρ1 ρ2 := ⟨fr2 _ (fun k => e_ne_helper k), fun j _ => fr2 _ (fun k => flag_ne_helper j k)⟩
      have hg : guardB ρ2 tc = some true := by simp [guardB, ex2, Src.Val.render, boolStr]
      have pre : ExecBs (P ++ condLines.map BCmd.simple) c0 .normal ⟨ρ2, c1.out⟩ := execBs_append hP0 (execBs_of_runN run2)
      split at h
      · -- break
        rename_i cb hb
        simp only [Option.some.injEq, Prod.mk.injEq] at h
        obtain ⟨rfl, rfl⟩ := h
        obtain ⟨ρ3, ex3, post3⟩ := hbody f c1 _ _ hb ρ2 ha2
        obtain ⟨ha3, ff3⟩ := post3 (fun k => by simp)
        exact ⟨ρ3, ExecLoopB.brk pre hg ex3, fun _ => ⟨ha3, ff2.trans (ff3.mono (by omega)) (Nat.le_refl _)⟩⟩
      · -- exit
        rename_i k cb hb
        simp only [Option.some.injEq, Prod.mk.injEq] at h
        obtain ⟨rfl, rfl⟩ := h
        obtain ⟨ρ3, ex3, _⟩ := hbody f c1 _ _ hb ρ2 ha2
        exact ⟨ρ3, ExecLoopB.exit pre hg ex3, fun hno => absurd rfl (hno k)⟩
      · -- the body ended or said `continue`
        rename_i ob cb hnb hne hb
        have hnoe : NotExit ob := fun k e => hne k e
        obtain ⟨ρ3, ex3, post3⟩ := hbody f c1 _ _ hb ρ2 ha2
        obtain ⟨ha3, ff3⟩ := post3 hnoe
        have hfl3 : ρ3 (flagName n) = ρ2 (flagName n) := ff3.2 n hkb
        have hf3 : F ρ3 := hF _ _ hfl3 hf2
        have ff3' : KeepsBelow n ρ2 ρ3 := ff3.mono (by omega)
        have next : ∀ c2, srcIncr32 incr f cb = some (.normal, c2) → Src32.execLoop f cond incr body c2 = some (o, c') →
            ∃ ρ', ExecLoopB (P ++ condLines.map BCmd.simple) tc bodyCmds ⟨ρ3, cb.out⟩ o ⟨ρ', c'.out⟩ ∧
              (NotExit o → Agree c'.env ρ' ∧ KeepsBelow n ρ3 ρ') := by
          intro c2 hi hl
          obtain ⟨ρ5, ex5, ha5, hf5, ff5⟩ := hP f cb c2 hi ρ3 ha3 hf3
          obtain ⟨ρ', exl, post'⟩ := ih c2 o c' hl ⟨ρ3, cb.out⟩ ρ5 ex5 ha5 hf5
          exact ⟨ρ', exl, fun hno => ⟨(post' hno).1, ff5.trans (post' hno).2 (Nat.le_refl _)⟩⟩
        have fin : ∀ ρ', ExecLoopB (P ++ condLines.map BCmd.simple) tc bodyCmds ⟨ρ3, cb.out⟩ o ⟨ρ', c'.out⟩ →
            ExecLoopB (P ++ condLines.map BCmd.simple) tc bodyCmds c0 o ⟨ρ', c'.out⟩ := by
          intro ρ' hl
          cases ob with
          | normal => exact ExecLoopB.next pre hg ex3 hl
          | cont => exact ExecLoopB.cont pre hg ex3 hl
          | brk => exact absurd rfl hnb
          | exit k => exact absurd rfl (hnoe k)
        cases hinc : incr with
        | none =>
          simp only [hinc] at h
          rw [← hinc] at h
          obtain ⟨ρ', exl, post'⟩ := next cb (by simp [srcIncr32, hinc]) h
          exact ⟨ρ', fin ρ' exl, fun hno => ⟨(post' hno).1, (ff2.trans ff3' (Nat.le_refl _)).trans (post' hno).2 (Nat.le_refl _)⟩⟩
        | some i =>
          simp only [hinc] at h
          split at h
          · rename_i c2 hi
            rw [← hinc] at h
            obtain ⟨ρ', exl, post'⟩ := next c2 (by simpa [srcIncr32, hinc] using hi) h
            exact ⟨ρ', fin ρ' exl, fun hno => ⟨(post' hno).1, (ff2.trans ff3' (Nat.le_refl _)).trans (post' hno).2 (Nat.le_refl _)⟩⟩
          · simp at h
      · simp at h
    · -- the condition fails: the loop ends
      rename_i hv
      simp only [Option.some.injEq, Prod.mk.injEq] at h
      obtain ⟨rfl, rfl⟩ := h
      obtain ⟨ρ2, run2, fr2, ex2⟩ := hcond _ _ hv ρ1 c1.out ha
      have hg : guardB ρ2 tc = some false := by simp [guardB, ex2, Src.Val.render, boolStr]
      refine ⟨ρ2, ExecLoopB.done (execBs_append hP0 (execBs_of_runN run2)) hg, fun _ => ⟨agree_frameB fr2 ha, ?_⟩⟩
      exact ⟨fr2 _ (fun k => e_ne_helper k), fun j _ => fr2 _ (fun k => flag_ne_helper j k)⟩
    · simp at h

end Tsh.SemB

namespace Tsh.SemB
open Tsh Tsh.Tr Tsh.Batch Tsh.Sem Tsh.C05S

theorem src32_for {init : Option Stmt} {cond : Expr} {incr : Option Stmt} {body : List Stmt} {fuel : Nat} {c c' : Src.SCfg} {o : Out}
    (hs : Src32.execStmt fuel (.forS init cond incr body) c = some (o, c')) :
    ∃ f c1, srcIncr32 init f c = some (.normal, c1) ∧ Src32.execLoop f cond incr body c1 = some (o, c') := by
  cases fuel with
  | zero => simp [Src32.execStmt] at hs
  | succ f =>
    simp only [Src32.execStmt] at hs
    cases init with
    | none => exact ⟨f, c, rfl, hs⟩
    | some i =>
      simp only at hs
      split at hs
      · rename_i c1 h1
        exact ⟨f, c1, h1, hs⟩
      · simp at hs

/-- the increment block of loop `n`, emitted from a state whose loop counter is `n + 1` -/
theorem incrL_sem (ctx : LCtx) (incr : Option Stmt) (hf : Src.fragOpt incr = true) (hs : simpleIncr incr = true) :
    ∀ s s' n, s.funcs = [] → s.forCounter = n + 1 → evalIncr conv incr s = .ok ((), s') →
      ∃ P nn, AdvS s s' (flats ctx P).reverse nn ∧ wfBs P = true ∧ IncrSimT incr P n := by
  match incr, hs with
  | none, _ =>
    intro s s' n h0 hn h
    unfold evalIncr at h
    obtain ⟨_, es⟩ := pureB_ok h
    refine ⟨[], 0, by rw [es]; simpa [flats] using (Adv.refl s).toS, rfl, ?_, ?_⟩
    · intro fuel cb c2 hs ρ ha hfl
      simp only [srcIncr32, Option.some.injEq, Prod.mk.injEq, true_and] at hs
      subst hs
      exact ⟨ρ, ExecBs.nil, ha, hfl, KeepsBelow.refl _ _⟩
    · intro ρ0 out _
      exact ⟨ρ0, ExecBs.nil, trivial, fun _ _ => rfl⟩
  | some i, hsi =>
    intro s s' n h0 hn h
    have hst : straightStmt i = true ∧ ((∃ vars vals, i = .varDef vars vals) ∨ (∃ vars vals, i = .assign vars vals)) := by
      have hfi : Src.fragStmt i = true := by simpa [Src.fragOpt] using hf
      cases i <;> simp [simpleIncr] at hsi
      · rename_i vars vals
        obtain ⟨hlen, hne, hg, _⟩ := straight_of_frag_def hfi
        exact ⟨by simp [straightStmt, hlen, hne, hg], Or.inl ⟨_, _, rfl⟩⟩
      · rename_i vars vals
        obtain ⟨hlen, hne, hg, _⟩ := straight_of_frag_assign hfi
        exact ⟨by simp [straightStmt, hlen, hne, hg], Or.inr ⟨_, _, rfl⟩⟩
    unfold evalIncr at h
    obtain ⟨_, s1, h1, h⟩ := bindB_ok h
    obtain ⟨_, s2, h2, h3⟩ := bindB_ok h
    have h1' : forIncrementStartOp s = .ok ((), s1) := h1
    have ad1 := forIncrementStartOp_ok h0 hn h1'
    have h01 : s1.funcs = [] := ad1.funcs_nil h0
    have hfi : Src.fragStmt i = true := by simpa [Src.fragOpt] using hf
    have shape : ∃ new nn, Adv s1 s2 new nn := by
      rcases hst.2 with ⟨vars, vals, rfl⟩ | ⟨vars, vals, rfl⟩
      · obtain ⟨hlen, hne, hg, hfe⟩ := straight_of_frag_def hfi
        have h2' := h2
        unfold evalStmt at h2'
        exact assign_shapeB hlen hne hg hfe h01 h2'
      · obtain ⟨hlen, hne, hg, hfe⟩ := straight_of_frag_assign hfi
        have h2' := h2
        unfold evalStmt at h2'
        exact assign_shapeB hlen hne hg hfe h01 h2'
    obtain ⟨newi, ni, adi⟩ := shape
    have h02 : s2.funcs = [] := adi.funcs_nil h01
    have hn2 : s2.forCounter = n + 1 := by rw [adi.fcnt, ad1.fcnt]; exact hn
    have h3' : forIncrementEndOp s2 = .ok ((), s') := h3
    have ad3 := forIncrementEndOp_ok h02 hn2 h3'
    refine ⟨[BCmd.guarded n (newi.reverse.map BCmd.simple), BCmd.simple (.set (flagName n) "1")], 0 + ni + 0, ?_,
      by simp [wfBs, wfB, plainB, wfBs_simples_reverse' newi adi.plain], ?_, ?_⟩
    · have := (ad1.trans adi.toS).trans ad3
      simpa [flats, flat, flats_simples, flats_simples_reverse, List.reverse_append] using this
    · intro fuel cb c2 hs ρ ha hfl
      have hs' : Src32.execStmt fuel i cb = some (.normal, c2) := hs
      cases fuel with
      | zero => simp [Src32.execStmt] at hs'
      | succ f =>
        obtain ⟨new', n', ad', run⟩ := stmtSemB_of_straight i hst.1 s1 s2 h01 h2 f cb _ c2 hs'
        obtain ⟨rfl, rfl⟩ := adi.unique ad'
        obtain ⟨ρ4, hr, post⟩ := run ρ ha
        obtain ⟨ha4, k4⟩ := post rfl
        have hne : ρ (flagName n) ≠ "" := by
          simp only [FlagOKB] at hfl
          rw [hfl]; decide
        refine ⟨ρ4.set (flagName n) "1", ?_, agree_set_flagB n "1" ha4, ?_, ?_⟩
        · exact ExecBs.cons (ExecB.guardedRun hne (execBs_of_runLinesB hr)) (execBs_single (ExecB.simple (stepB_set_one _ _ _)))
        · simp only [FlagOKB]; exact set_same _ _ _
        · refine ⟨?_, fun j hj => ?_⟩
          · rw [set_other _ _ _ _ (fun e => flag_ne_e n e.symm)]; exact k4.1
          · rw [set_other _ _ _ _ (fun e => by have := flagName_inj e; omega)]; exact k4.2 j
    · intro ρ0 out h0'
      refine ⟨ρ0.set (flagName n) "1", ?_, ?_, ?_⟩
      · exact ExecBs.cons (ExecB.guardedSkip h0') (execBs_single (ExecB.simple (stepB_set_one _ _ _)))
      · simp only [FlagOKB]; exact set_same _ _ _
      · intro x hx; exact set_other _ _ _ _ hx

theorem CtxOK.of_eq {ctx : LCtx} {s s' : St} (hf : s'.fors = s.fors) (he : s'.endLabels = s.endLabels) (h : CtxOK ctx s) : CtxOK ctx s' := by
  cases ctx with
  | none => simp only [CtxOK] at h ⊢; rw [hf, he]; exact h
  | some p => obtain ⟨a, b⟩ := p; simp only [CtxOK] at h ⊢; rw [hf, he]; exact h

/-! ### the induction over the AST (whole scalar fragment) -/

mutual
theorem stmtL_sem (ctx : LCtx) (st : Stmt) (hf : Src.fragStmt st = true) (hn : simpleLoopsStmt st = true) :
    ∀ s s', s.funcs = [] → CtxOK ctx s → evalStmt conv st s = .ok ((), s') → StmtSemT ctx (fun f c => Src32.execStmt f st c) s s' := by
  match st with
  | .varDef vars vals =>
    intro s s' h0 _ h
    obtain ⟨hlen, hne, hg, hfe⟩ := straight_of_frag_def hf
    have hs : straightStmt (.varDef vars vals) = true := by simp [straightStmt, hlen, hne, hg]
    have h' := h
    unfold evalStmt at h'
    exact straightT_sem ctx _ hs s s' h0 h (assign_shapeB hlen hne hg hfe h0 h')
  | .assign vars vals =>
    intro s s' h0 _ h
    obtain ⟨hlen, hne, hg, hfe⟩ := straight_of_frag_assign hf
    have hs : straightStmt (.assign vars vals) = true := by simp [straightStmt, hlen, hne, hg]
    have h' := h
    unfold evalStmt at h'
    exact straightT_sem ctx _ hs s s' h0 h (assign_shapeB hlen hne hg hfe h0 h')
  | .print es =>
    intro s s' h0 _ h
    have h' := h
    unfold evalStmt at h'
    exact straightT_sem ctx _ rfl s s' h0 h (print_shapeB (by simpa [Src.fragStmt] using hf) h0 h')
  | .panic e =>
    intro s s' h0 _ h
    have h' := h
    unfold evalStmt at h'
    exact panicT_sem ctx e s s' h0 h (panic_shapeB (by simpa [Src.fragStmt] using hf) h0 h')
  | .brk =>
    intro s s' h0 hk h
    unfold evalStmt at h
    have h' : brkOp s = .ok ((), s') := h
    cases ctx with
    | none =>
      simp only [CtxOK] at hk
      simp [brkOp, bind, Tr.get, hk.2, brkTail, Tr.fail] at h'
    | some p =>
      obtain ⟨lh, le⟩ := p
      obtain ⟨r, r', hfo, hen⟩ := hk
      have ad := brkOp_ok h0 hen h'
      refine ⟨[BCmd.brk], 0, by simpa [flats, flat] using ad.toT, rfl, ?_⟩
      intro fuel c o c' hs ρ ha
      cases fuel with
      | zero => simp [Src32.execStmt] at hs
      | succ f =>
        simp only [Src32.execStmt, Option.some.injEq, Prod.mk.injEq] at hs
        obtain ⟨rfl, rfl⟩ := hs
        exact ⟨ρ, ExecBs.stop ExecB.brk (by simp), fun _ => ⟨ha, KeepsBelow.refl _ _⟩⟩
  | .cont =>
    intro s s' h0 hk h
    unfold evalStmt at h
    have h' : contOp s = .ok ((), s') := h
    cases ctx with
    | none =>
      simp only [CtxOK] at hk
      simp [contOp, currentFor, hk.1, bind] at h'
    | some p =>
      obtain ⟨lh, le⟩ := p
      obtain ⟨r, r', hfo, hen⟩ := hk
      have ad := contOp_ok h0 hfo h'
      refine ⟨[BCmd.cont], 0, by simpa [flats, flat] using ad.toT, rfl, ?_⟩
      intro fuel c o c' hs ρ ha
      cases fuel with
      | zero => simp [Src32.execStmt] at hs
      | succ f =>
        simp only [Src32.execStmt, Option.some.injEq, Prod.mk.injEq] at hs
        obtain ⟨rfl, rfl⟩ := hs
        exact ⟨ρ, ExecBs.stop ExecB.cont (by simp), fun _ => ⟨ha, KeepsBelow.refl _ _⟩⟩
  | .ifS cond body elifs els =>
    intro s s' h0 hk h
    simp only [Src.fragStmt, Bool.and_eq_true] at hf
    obtain ⟨⟨⟨hfc, hfb⟩, hfe⟩, hfl⟩ := hf
    simp only [simpleLoopsStmt, Bool.and_eq_true] at hn
    obtain ⟨⟨hnb, hne⟩, hnl⟩ := hn
    unfold evalStmt at h
    obtain ⟨c, s1, h1, h⟩ := bindB_ok h
    obtain ⟨ecs, s2, h2, h⟩ := bindB_ok h
    obtain ⟨_, s3, h3, h⟩ := bindB_ok h
    obtain ⟨_, s4, h4, h⟩ := bindB_ok h
    obtain ⟨_, s5, h5, h⟩ := bindB_ok h
    obtain ⟨_, s6, h6, h7⟩ := bindB_ok h
    obtain ⟨tc, newc, nc, er, ad1⟩ := exprB_shape cond true s c s1 hfc h0 h1
    subst er
    have h01 : s1.funcs = [] := ad1.funcs_nil h0
    obtain ⟨newe, ne, ad2, hlen, semc⟩ := condsB_sem elifs s1 ecs s2 (fragElifs_conds32 elifs hfe) h01 h2
    have h02 : s2.funcs = [] := ad2.funcs_nil h01
    have h3' : ifStartOp tc s2 = .ok ((), s3) := h3
    obtain ⟨c3, i3, k3, r3⟩ := ifStartOp_ok h02 h3'
    have h03 : s3.funcs = [] := by rw [r3.funcs]; exact h02
    have hk3 : CtxOK ctx s3 := CtxOK.of_eq (by rw [r3.fors, ad2.fors, ad1.fors]) (by rw [r3.ends, ad2.ends, ad1.ends]) hk
    have hb := blockL_sem ctx body hfb hnb s3 s4 h03 hk3 h4
    obtain ⟨bc, nb, adb, wfb, simb⟩ := hb
    have h04 : s4.funcs = [] := adb.funcs_nil h03
    have hk4 := hk3.advT adb
    have i4 : s4.ifs = ifLabel s2.ifCounter :: s2.ifs := by rw [adb.ifs, i3]
    have he := elifsL_sem ctx elifs hfe hne ecs s4 s5 _ _ h04 hk4 i4 hlen h5
    obtain ⟨tree, nt, adt, wft, simt⟩ := he
    have h05 : s5.funcs = [] := adt.funcs_nil h04
    have hk5 := hk4.advT adt
    have i5 : s5.ifs = ifLabel s2.ifCounter :: s2.ifs := by rw [adt.ifs, i4]
    have hl := elseL_sem ctx els hfl hnl s5 s6 _ _ h05 hk5 i5 h6
    obtain ⟨et, nl, adl, wfl, siml⟩ := hl
    have h06 : s6.funcs = [] := adl.funcs_nil h05
    have i6 : s6.ifs = ifLabel s2.ifCounter :: s2.ifs := by rw [adl.ifs, i5]
    have h7' : ifEndOp s6 = .ok ((), s') := h7
    obtain ⟨c7, i7, k7, r7⟩ := ifEndOp_ok h06 i6 h7'
    have f1 : s1.forCounter = s.forCounter := ad1.fcnt
    have f2 : s2.forCounter = s.forCounter := by rw [ad2.fcnt, f1]
    have f3 : s3.forCounter = s.forCounter := by rw [r3.fcnt, f2]
    refine ⟨(newc.reverse ++ newe.reverse).map BCmd.simple ++ [BCmd.chain (ifLabel s2.ifCounter) tc bc tree et],
      nc + ne + nb + nt + nl, ?_, ?_, ?_⟩
    · refine ⟨?_, ?_, ?_, ?_, ?_, ?_, ?_, ?_, ?_,
        ad1.env.trans (ad2.env.trans (r3.env.trans (adb.env.trans (adt.env.trans (adl.env.trans r7.env)))))⟩
      · rw [c7, adl.code, adt.code, adb.code, c3, ad2.code, ad1.code]
        simp [flats_append, flats_simples, flats_simples_reverse, flats, flat, List.reverse_append]
      · rw [r7.cnt, adl.cnt, adt.cnt, adb.cnt, r3.cnt, ad2.cnt, ad1.cnt]; omega
      · rw [r7.funcs, adl.funcs, adt.funcs, adb.funcs, r3.funcs, ad2.funcs, ad1.funcs]
      · rw [r7.fcode, adl.fcode, adt.fcode, adb.fcode, r3.fcode, ad2.fcode, ad1.fcode]
      · rw [r7.fors, adl.fors, adt.fors, adb.fors, r3.fors, ad2.fors, ad1.fors]
      · rw [r7.ends, adl.ends, adt.ends, adb.ends, r3.ends, ad2.ends, ad1.ends]
      · rw [i7, ad2.ifs, ad1.ifs]
      · rw [r7.fcnt]
        have := adl.fcnt; have := adt.fcnt; have := adb.fcnt
        omega
      · rw [k7]
        have := adl.icnt; have := adt.icnt; have := adb.icnt
        have e1 := ad1.icnt; have e2 := ad2.icnt
        omega
    · rw [wfBs_append, ← List.reverse_append, wfBs_simples_reverse _ (fun l hl => by
        rcases List.mem_append.mp hl with h | h
        · exact ad2.plain l h
        · exact ad1.plain l h)]
      simp [wfBs, wfB, wfb, wft, wfl]
    · intro fuel c0 o c' hs ρ ha
      cases fuel with
      | zero => simp [Src32.execStmt] at hs
      | succ f =>
        simp only [Src32.execStmt] at hs
        split at hs
        · rename_i b bs hv hbs
          obtain ⟨ρ1, run1, fr1, hold1⟩ := exprB_at h0 h1 ad1 hv ρ c0.out ha
          obtain ⟨ρ2, run2, fr2, hold2⟩ := semc c0.env bs hbs ρ1 c0.out (fr1.agree ha)
          rw [ad1.cnt] at fr2 hold2
          have ha2 := fr2.agree (fr1.agree ha)
          have hg : guardB ρ2 tc = some b := guardB_of_holds (hold1.frame (Nat.le_add_right _ _) fr2)
          have pre : runN (newc.reverse ++ newe.reverse) ⟨ρ, c0.out⟩ = some ⟨ρ2, c0.out⟩ := by
            rw [runN_append, run1]; exact run2
          have kpre : KeepsBelow s.forCounter ρ ρ2 := ((keeps_of_frameH fr1).trans (keeps_of_frameH fr2)).below _
          cases b with
          | true =>
            simp only [if_true] at hs
            obtain ⟨ρ3, ex3, post3⟩ := simb f c0 o c' hs ρ2 ha2
            refine ⟨ρ3, execBs_append (execBs_of_runN pre) (execBs_single (ExecB.chainTrue hg ex3)), fun hno => ?_⟩
            refine ⟨(post3 hno).1, kpre.trans (post3 hno).2 (by rw [f3]; exact Nat.le_refl _)⟩
          | false =>
            simp only [Bool.false_eq_true, if_false] at hs
            have hbl : bs.length = elifs.length := evalConds32_length elifs c0.env bs hbs
            obtain ⟨ρ3, ex3, post3⟩ := simt els et s5.forCounter (Nat.le_refl _) siml f bs c0 o c' hs hbl ρ2 ha2
              (guardValsB_of_holdsAll hold2)
            refine ⟨ρ3, execBs_append (execBs_of_runN pre) (execBs_single (ExecB.chainFalse hg ex3)), fun hno => ?_⟩
            have h4f := adb.fcnt
            refine ⟨(post3 hno).1, kpre.trans (post3 hno).2 (by omega)⟩
        · simp at hs
  | .forS init cond incr body =>
    intro s s' h0 hk h
    simp only [Src.fragStmt, Bool.and_eq_true] at hf
    obtain ⟨⟨⟨hfi, hfc⟩, hfn⟩, hfb⟩ := hf
    simp only [simpleLoopsStmt, Bool.and_eq_true] at hn
    obtain ⟨⟨hni, hnn⟩, hnb⟩ := hn
    unfold evalStmt at h
    obtain ⟨_, s1, h1, h⟩ := bindB_ok h
    obtain ⟨_, s2, h2, h⟩ := bindB_ok h
    obtain ⟨_, s3, h3, h⟩ := bindB_ok h
    obtain ⟨c, s4, h4, h⟩ := bindB_ok h
    obtain ⟨_, s5, h5, h⟩ := bindB_ok h
    obtain ⟨_, s6, h6, h7⟩ := bindB_ok h
    have hi := optL_sem ctx init hfi hni s s1 h0 hk h1
    obtain ⟨ci, ni, adi, wfi, simi⟩ := hi
    have h01 : s1.funcs = [] := adi.funcs_nil h0
    have h2' : forStartOp s1 = .ok ((), s2) := h2
    obtain ⟨c2, fo2, en2, fc2, r2⟩ := forStartOp_ok h01 h2'
    have h02 : s2.funcs = [] := by rw [r2.funcs]; exact h01
    have hinc := incrL_sem (some (forLabel s1.forCounter, endLabel s1.forCounter)) incr hfn hnn s2 s3 s1.forCounter h02 fc2 h3
    obtain ⟨P, np, adp, wfP, simP⟩ := hinc
    have h03 : s3.funcs = [] := adp.funcs_nil h02
    obtain ⟨tc, newc, nc, er, ad4⟩ := exprB_shape cond true s3 c s4 hfc h03 h4
    subst er
    have h04 : s4.funcs = [] := ad4.funcs_nil h03
    have h5' : addLine (.opn (ifStartLine tc)) s4 = .ok ((), s5) := h5
    have ad5 := forCondition_ok h04 h5'
    have h05 : s5.funcs = [] := ad5.funcs_nil h04
    have fo5 : s5.fors = forLabel s1.forCounter :: s1.fors := by rw [ad5.fors, ad4.fors, adp.fors, fo2]
    have en5 : s5.endLabels = endLabel s1.forCounter :: s1.endLabels := by rw [ad5.ends, ad4.ends, adp.ends, en2]
    have hk5 : CtxOK (some (forLabel s1.forCounter, endLabel s1.forCounter)) s5 := ⟨_, _, fo5, en5⟩
    have hb := blockL_sem (some (forLabel s1.forCounter, endLabel s1.forCounter)) body hfb hnb s5 s6 h05 hk5 h6
    obtain ⟨bc, nb, adb, wfb, simb⟩ := hb
    have h06 : s6.funcs = [] := adb.funcs_nil h05
    have h7' : forEndOp s6 = .ok ((), s') := h7
    obtain ⟨c7, fo7, en7, fc7, r7⟩ := forEndOp_ok h06 (by rw [adb.fors, fo5]) (by rw [adb.ends, en5]) h7'
    have f5 : s5.forCounter = s1.forCounter + 1 := by rw [ad5.fcnt, ad4.fcnt, adp.fcnt, fc2]
    refine ⟨ci ++ [BCmd.simple (.set (flagName s1.forCounter) ""),
        BCmd.loop s1.forCounter (P ++ newc.reverse.map BCmd.simple) tc bc], ni + np + nc + nb, ?_,
        by simp [wfBs_append, wfBs, wfB, plainB, wfi, wfP, wfb, wfBs_simples_reverse' newc ad4.plain], ?_⟩
    · refine ⟨?_, ?_, ?_, ?_, ?_, ?_, ?_, ?_, ?_,
        adi.env.trans (r2.env.trans (adp.env.trans (ad4.env.trans (ad5.env.trans (adb.env.trans r7.env)))))⟩
      · rw [c7, adb.code, ad5.code, ad4.code, adp.code, c2, adi.code]
        simp [flats_append, flats_simples, flats_simples_reverse, flats, flat, List.reverse_append]
      · rw [r7.cnt, adb.cnt, ad5.cnt, ad4.cnt, adp.cnt, r2.cnt, adi.cnt]; omega
      · rw [r7.funcs, adb.funcs, ad5.funcs, ad4.funcs, adp.funcs, r2.funcs, adi.funcs]
      · rw [r7.fcode, adb.fcode, ad5.fcode, ad4.fcode, adp.fcode, r2.fcode, adi.fcode]
      · rw [fo7, adi.fors]
      · rw [en7, adi.ends]
      · rw [r7.ifs, adb.ifs, ad5.ifs, ad4.ifs, adp.ifs, r2.ifs, adi.ifs]
      · rw [fc7]
        have := adb.fcnt; have := adi.fcnt
        omega
      · rw [r7.icnt]
        have := adb.icnt; have := adi.icnt
        have e5 := ad5.icnt; have e4 := ad4.icnt; have ep := adp.icnt; have e2 := r2.icnt
        omega
    · intro fuel c0 o c' hs ρ ha
      obtain ⟨f, c1, hsi, hsl⟩ := src32_for hs
      obtain ⟨ρ1, ex1, post1⟩ := simi f c0 _ c1 hsi ρ ha
      obtain ⟨ha1, k1⟩ := post1 (fun k => by simp)
      have hnle : s.forCounter ≤ s1.forCounter := adi.fcnt
      have ha2 : Agree c1.env (ρ1.set (flagName s1.forCounter) "") := agree_set_flagB _ "" ha1
      obtain ⟨ρ3, ex3, hf3, same3⟩ := simP.2 (ρ1.set (flagName s1.forCounter) "") c1.out (set_same _ _ _)
      have ha3 : Agree c1.env ρ3 := by
        intro x v hx
        obtain ⟨hg, hv⟩ := ha2 x v hx
        exact ⟨hg, by rw [same3 x (good_ne_flag x _ hg)]; exact hv⟩
      have hcond : ∀ env v, Src32.evalExpr env cond = some v → ∀ ρ out, Agree env ρ →
          ∃ ρ', runN newc.reverse ⟨ρ, out⟩ = some ⟨ρ', out⟩ ∧ (∀ x, (∀ k, x ≠ helperName k) → ρ' x = ρ x) ∧
            expandD ρ' tc = some v.render := by
        intro env v hv ρ out hag
        obtain ⟨ρ', run, fr, hold⟩ := exprB_at h03 h4 ad4 hv ρ out hag
        exact ⟨ρ', run, fun x hx => fr x (fun k _ _ => hx k), hold.expand⟩
      have hkb : s1.forCounter < s5.forCounter := by rw [f5]; omega
      obtain ⟨ρ', exl, post'⟩ := loopB_sim (FlagOKB incr s1.forCounter) (flagOKB_congr incr s1.forCounter) hcond simb hkb simP.1
        f c1 o c' hsl ⟨ρ1.set (flagName s1.forCounter) "", c1.out⟩ ρ3 ex3 ha3 hf3
      refine ⟨ρ', ?_, fun hno => ⟨(post' hno).1, ?_⟩⟩
      · refine execBs_append ex1 (ExecBs.cons (ExecB.simple (stepB_set_empty _ _ _)) ?_)
        exact execBs_single (ExecB.loop exl)
      · have kl := (post' hno).2
        refine ⟨?_, fun j hj => ?_⟩
        · rw [kl.1, same3 _ (fun e => flag_ne_e _ e.symm), set_other _ _ _ _ (fun e => flag_ne_e _ e.symm)]
          exact k1.1
        · rw [kl.2 j (by omega), same3 _ (fun e => by have := flagName_inj e; omega),
            set_other _ _ _ _ (fun e => by have := flagName_inj e; omega)]
          exact k1.2 j hj
  | .varDefCall _ _ => simp [Src.fragStmt] at hf
  | .assignCall _ _ => simp [Src.fragStmt] at hf
  | .sliceAssign _ _ _ => simp [Src.fragStmt] at hf
  | .funcDef _ _ _ _ _ => simp [Src.fragStmt] at hf
  | .ret _ => simp [Src.fragStmt] at hf
  | .expr _ => simp [Src.fragStmt] at hf

theorem optL_sem (ctx : LCtx) (init : Option Stmt) (hf : Src.fragOpt init = true) (hn : simpleLoopsOpt init = true) :
    ∀ s s', s.funcs = [] → CtxOK ctx s → evalInit conv init s = .ok ((), s') → StmtSemT ctx (srcIncr32 init) s s' := by
  match init with
  | some i =>
    intro s s' h0 hk h
    unfold evalInit at h
    exact stmtL_sem ctx i (by simpa [Src.fragOpt] using hf) (by simpa [simpleLoopsOpt] using hn) s s' h0 hk h
  | none =>
    intro s s' h0 hk h
    unfold evalInit at h
    obtain ⟨_, es⟩ := pureB_ok h
    refine ⟨[], 0, by rw [es]; simpa [flats] using AdvT.refl s, rfl, ?_⟩
    intro fuel c o c' hs ρ ha
    simp only [srcIncr32, Option.some.injEq, Prod.mk.injEq] at hs
    obtain ⟨rfl, rfl⟩ := hs
    exact ⟨ρ, ExecBs.nil, fun _ => ⟨ha, KeepsBelow.refl _ _⟩⟩

theorem blockL_sem (ctx : LCtx) (body : List Stmt) (hf : Src.fragStmts body = true) (hn : simpleLoopsStmts body = true) :
    ∀ s s', s.funcs = [] → CtxOK ctx s → evalBlock conv body s = .ok ((), s') → StmtSemT ctx (fun f c => Src32.execStmts f body c) s s' := by
  match body with
  | [] =>
    intro s s' h0 hk h
    unfold evalBlock at h
    have h' : addLine (.raw "rem No operation") s = .ok ((), s') := h
    have ad := nop_ok h0 h'
    refine ⟨[BCmd.simple (.raw "rem No operation")], 0, by simpa [flats, flat] using ad.toT, by simp [wfBs, wfB, plainB], ?_⟩
    intro fuel c o c' hs ρ ha
    cases fuel with
    | zero => simp [Src32.execStmts] at hs
    | succ f =>
      simp only [Src32.execStmts, Option.some.injEq, Prod.mk.injEq] at hs
      obtain ⟨rfl, rfl⟩ := hs
      exact ⟨ρ, execBs_single (ExecB.simple (by simp [stepB])), fun _ => ⟨ha, KeepsBelow.refl _ _⟩⟩
  | st :: rest =>
    intro s s' h0 hk h
    unfold evalBlock at h
    simp only [Src.fragStmts, Bool.and_eq_true] at hf
    simp only [simpleLoopsStmts, Bool.and_eq_true] at hn
    obtain ⟨_, s1, h1, h2⟩ := bindB_ok h
    have hs1 := stmtL_sem ctx st hf.1 hn.1 s s1 h0 hk h1
    obtain ⟨_, _, ad1⟩ := hs1.adv
    have hs2 := stmtsL_sem ctx rest hf.2 hn.2 s1 s' (ad1.funcs_nil h0) (hk.advT ad1) h2
    exact stmtSemT_seq hs1 hs2 (fun _ _ _ _ h => execStmts32_cons_cases h)

theorem stmtsL_sem (ctx : LCtx) (body : List Stmt) (hf : Src.fragStmts body = true) (hn : simpleLoopsStmts body = true) :
    ∀ s s', s.funcs = [] → CtxOK ctx s → evalStmts conv body s = .ok ((), s') → StmtSemT ctx (fun f c => Src32.execStmts f body c) s s' := by
  match body with
  | [] =>
    intro s s' h0 hk h
    unfold evalStmts at h
    obtain ⟨_, es⟩ := pureB_ok h
    rw [es]
    exact stmtSemT_nil ctx s
  | st :: rest =>
    intro s s' h0 hk h
    unfold evalStmts at h
    simp only [Src.fragStmts, Bool.and_eq_true] at hf
    simp only [simpleLoopsStmts, Bool.and_eq_true] at hn
    obtain ⟨_, s1, h1, h2⟩ := bindB_ok h
    have hs1 := stmtL_sem ctx st hf.1 hn.1 s s1 h0 hk h1
    obtain ⟨_, _, ad1⟩ := hs1.adv
    have hs2 := stmtsL_sem ctx rest hf.2 hn.2 s1 s' (ad1.funcs_nil h0) (hk.advT ad1) h2
    exact stmtSemT_seq hs1 hs2 (fun _ _ _ _ h => execStmts32_cons_cases h)

theorem elseL_sem (ctx : LCtx) (els : List Stmt) (hf : Src.fragStmts els = true) (hn : simpleLoopsStmts els = true) :
    ∀ s s' l r, s.funcs = [] → CtxOK ctx s → s.ifs = l :: r → evalElse conv els s = .ok ((), s') →
      ∃ t n, AdvT s s' (flatElse ctx l t).reverse n ∧ wfElse t = true ∧ ElseSimT els t s.forCounter := by
  match els with
  | [] =>
    intro s s' l r h0 hk hi h
    unfold evalElse at h
    obtain ⟨_, es⟩ := pureB_ok h
    refine ⟨none, 0, by rw [es]; simpa [flatElse] using AdvT.refl s, rfl, ?_⟩
    intro fuel c o c' hs ρ ha
    cases fuel with
    | zero => simp [Src32.execStmts] at hs
    | succ f =>
      simp only [Src32.execStmts, Option.some.injEq, Prod.mk.injEq] at hs
      obtain ⟨rfl, rfl⟩ := hs
      exact ⟨ρ, ExecElifsB.none, fun _ => ⟨ha, KeepsBelow.refl _ _⟩⟩
  | st :: rest =>
    intro s s' l r h0 hk hi h
    unfold evalElse at h
    simp only [Src.fragStmts, Bool.and_eq_true] at hf
    simp only [simpleLoopsStmts, Bool.and_eq_true] at hn
    obtain ⟨_, s1, h1, h⟩ := bindB_ok h
    obtain ⟨_, s2, h2, h⟩ := bindB_ok h
    obtain ⟨_, s3, h3, h4⟩ := bindB_ok h
    have h1' : elseStartOp s = .ok ((), s1) := h1
    obtain ⟨c1, i1, k1, r1⟩ := elseStartOp_ok h0 hi h1'
    have h01 : s1.funcs = [] := by rw [r1.funcs]; exact h0
    have hk1 : CtxOK ctx s1 := CtxOK.of_eq r1.fors r1.ends hk
    have hs1 := stmtL_sem ctx st hf.1 hn.1 s1 s2 h01 hk1 h2
    obtain ⟨_, _, ada⟩ := hs1.adv
    have hs2 := stmtsL_sem ctx rest hf.2 hn.2 s2 s3 (ada.funcs_nil h01) (hk1.advT ada) h3
    obtain ⟨_, e4⟩ := pureB_ok (a := ()) h4
    have hseq : StmtSemT ctx (fun f c => Src32.execStmts f (st :: rest) c) s1 s3 :=
      stmtSemT_seq hs1 hs2 (fun _ _ _ _ h => execStmts32_cons_cases h)
    obtain ⟨cs, n, ad, wfc, sim⟩ := hseq
    refine ⟨some cs, n, ?_, by simpa [wfElse] using wfc, ?_⟩
    · rw [e4]
      refine ⟨?_, ?_, ?_, ?_, ?_, ?_, ?_, ?_, ?_, r1.env.trans ad.env⟩
      · rw [ad.code, c1]; simp [flatElse, List.reverse_append]
      · rw [ad.cnt, r1.cnt]
      · rw [ad.funcs, r1.funcs]
      · rw [ad.fcode, r1.fcode]
      · rw [ad.fors, r1.fors]
      · rw [ad.ends, r1.ends]
      · rw [ad.ifs, i1]
      · have := ad.fcnt; rw [r1.fcnt] at this; exact this
      · have := ad.icnt; rw [k1] at this; exact this
    · intro fuel c o c' hs ρ ha
      obtain ⟨ρ', ex, post⟩ := sim fuel c o c' hs ρ ha
      refine ⟨ρ', ExecElifsB.els ex, fun hno => ?_⟩
      have := post hno
      rw [r1.fcnt] at this
      exact this

theorem elifsL_sem (ctx : LCtx) (elifs : List (Expr × List Stmt)) (hf : Src.fragElifs elifs = true) (hn : simpleLoopsElifs elifs = true) :
    ∀ ecs s s' l r, s.funcs = [] → CtxOK ctx s → s.ifs = l :: r → ecs.length = elifs.length → evalElifs conv elifs ecs s = .ok ((), s') →
      ∃ tree n, AdvT s s' (flatElifs ctx l tree).reverse n ∧ wfElifs tree = true ∧
        ∀ els elseT k0, s'.forCounter ≤ k0 → ElseSimT els elseT k0 →
          ∀ fuel bs c o c', Src32.execElifs fuel elifs bs els c = some (o, c') → bs.length = elifs.length →
            ∀ ρ, Agree c.env ρ → GuardValsB ecs bs ρ →
              ∃ ρ', ExecElifsB tree elseT ⟨ρ, c.out⟩ o ⟨ρ', c'.out⟩ ∧ (NotExit o → Agree c'.env ρ' ∧ KeepsBelow s.forCounter ρ ρ') := by
  match elifs with
  | [] =>
    intro ecs s s' l r h0 hk hi hlen h
    unfold evalElifs at h
    obtain ⟨_, es⟩ := pureB_ok h
    refine ⟨[], 0, by rw [es]; simpa [flatElifs] using AdvT.refl s, rfl, ?_⟩
    intro els elseT k0 hk0 hsim fuel bs c o c' hs hbl ρ ha _
    obtain ⟨f, hs'⟩ := src32_elifs_nil hs
    obtain ⟨ρ', ex, post⟩ := hsim f c o c' hs' ρ ha
    exact ⟨ρ', ex, fun hno => ⟨(post hno).1, (post hno).2.mono (by rw [es] at hk0; exact hk0)⟩⟩
  | (cnd, body) :: rest =>
    intro ecs s s' l r h0 hk hi hlen h
    match ecs, hlen with
    | t :: cs, hlen =>
      unfold evalElifs at h
      simp only [Src.fragElifs, Bool.and_eq_true] at hf
      simp only [simpleLoopsElifs, Bool.and_eq_true] at hn
      obtain ⟨_, s1, h1, h⟩ := bindB_ok h
      obtain ⟨_, s2, h2, h⟩ := bindB_ok h
      obtain ⟨_, s3, h3, h4⟩ := bindB_ok h
      have h1' : elseIfStartOp t s = .ok ((), s1) := h1
      obtain ⟨c1, i1, k1, r1⟩ := elseIfStartOp_ok h0 hi h1'
      have h01 : s1.funcs = [] := by rw [r1.funcs]; exact h0
      have hk1 : CtxOK ctx s1 := CtxOK.of_eq r1.fors r1.ends hk
      have hb := blockL_sem ctx body hf.1.2 hn.1 s1 s2 h01 hk1 h2
      obtain ⟨_, e3⟩ := pureB_ok (a := ()) h3
      obtain ⟨bc, nb, adb, wfb, simb⟩ := hb
      have h03 : s3.funcs = [] := by rw [e3]; exact adb.funcs_nil h01
      have hk3 : CtxOK ctx s3 := by rw [e3]; exact hk1.advT adb
      have i3 : s3.ifs = l :: r := by rw [e3, adb.ifs, i1, hi]
      have hr := elifsL_sem ctx rest hf.2 hn.2 cs s3 s' l r h03 hk3 i3 (by simpa using hlen) h4
      obtain ⟨tree, nt, adt, wft, simt⟩ := hr
      refine ⟨(t, bc) :: tree, nb + nt, ?_, by simp [wfElifs, wfb, wft], ?_⟩
      · refine ⟨?_, ?_, ?_, ?_, ?_, ?_, ?_, ?_, ?_,
          r1.env.trans (adb.env.trans (by have := adt.env; rw [e3] at this; exact this))⟩
        · rw [adt.code, e3, adb.code, c1]; simp [flatElifs, List.reverse_append]
        · rw [adt.cnt, e3, adb.cnt, r1.cnt]; omega
        · rw [adt.funcs, e3, adb.funcs, r1.funcs]
        · rw [adt.fcode, e3, adb.fcode, r1.fcode]
        · rw [adt.fors, e3, adb.fors, r1.fors]
        · rw [adt.ends, e3, adb.ends, r1.ends]
        · rw [adt.ifs, e3, adb.ifs, i1]
        · have a := adt.fcnt; have b := adb.fcnt; rw [e3] at a; rw [r1.fcnt] at b; omega
        · have a := adt.icnt; have b := adb.icnt; rw [e3] at a; rw [k1] at b; omega
      · intro els elseT k0 hk0 hsim fuel bs c o c' hs hbl ρ ha hgv
        match bs, hbl, hgv with
        | b :: bs', hbl, hgv =>
          cases fuel with
          | zero => simp [Src32.execElifs] at hs
          | succ f =>
            simp only [Src32.execElifs] at hs
            cases b with
            | true =>
              simp only [if_true] at hs
              obtain ⟨ρ', ex, post⟩ := simb f c o c' hs ρ ha
              refine ⟨ρ', ExecElifsB.hit hgv.1 ex, fun hno => ?_⟩
              have := post hno
              rw [r1.fcnt] at this
              exact this
            | false =>
              simp only [Bool.false_eq_true, if_false] at hs
              obtain ⟨ρ', ex, post⟩ := simt els elseT k0 hk0 hsim f bs' c o c' hs (by simpa using hbl) ρ ha hgv.2
              refine ⟨ρ', ExecElifsB.miss hgv.1 ex, fun hno => ⟨(post hno).1, (post hno).2.mono ?_⟩⟩
              have b := adb.fcnt
              rw [e3]; rw [r1.fcnt] at b; exact b
end

end Tsh.SemB
