/-
  Facts about the double-quote scanner of `Sem/Bash`: escaped literals read back, `${name}` reads the
  variable, texts compose; the compiler-owned names (`_h<k>`, `_ma<i>`, `_fv<n>`) are valid, pairwise
  different and different from every user name.
-/
import TshVerif.Sem.Src
namespace Tsh.Sem
open Tsh Tsh.Bash

/-! ### the scanner -/

theorem scan_plain (ρ : Store) (c : Char) (rest : List Char) (h : special c = false) :
    scan ρ none (c :: rest) = (scan ρ none rest).map (fun t => c :: t) := by
  simp [special] at h
  obtain ⟨⟨⟨h1, h2⟩, h3⟩, h4⟩ := h
  rw [scan.eq_def]
  simp [h1, h2, h3, h4]

theorem scan_escaped (ρ : Store) (c : Char) (rest : List Char) (h : special c = true) :
    scan ρ none ('\\' :: c :: rest) = (scan ρ none rest).map (fun t => c :: t) := by
  rw [scan.eq_def]
  simp [h]

/-- a text is *complete* with value `v`: wherever it stands, the scanner reads it as `v` and goes on -/
def Complete (ρ : Store) (t v : List Char) : Prop :=
  ∀ rest, scan ρ none (t ++ rest) = (scan ρ none rest).map (fun u => v ++ u)

theorem Complete.nil (ρ : Store) : Complete ρ [] [] := by
  intro rest
  simp only [List.nil_append]
  cases scan ρ none rest <;> simp

theorem Complete.append {ρ : Store} {a va b vb : List Char} (ha : Complete ρ a va) (hb : Complete ρ b vb) :
    Complete ρ (a ++ b) (va ++ vb) := by
  intro rest
  rw [List.append_assoc, ha, hb]
  cases scan ρ none rest <;> simp

theorem Complete.toExpand {ρ : Store} {t v : String} (h : Complete ρ t.toList v.toList) : expand ρ t = some v := by
  have := h []
  simp only [List.append_nil] at this
  have e0 : scan ρ none [] = some [] := by rw [scan.eq_def]
  rw [e0] at this
  simp [expand, this]

theorem complete_plain (ρ : Store) : ∀ (cs : List Char), (∀ c ∈ cs, special c = false) → Complete ρ cs cs := by
  intro cs
  induction cs with
  | nil => intro _; exact Complete.nil ρ
  | cons c cs ih =>
    intro h rest
    have hc := h c (by simp)
    rw [List.cons_append, scan_plain ρ c _ hc, ih (fun d hd => h d (by simp [hd])) rest]
    cases scan ρ none rest <;> simp

/-- an escaped literal without `$` and backquote reads back as the literal -/
theorem complete_literal (ρ : Store) : ∀ (lit : List Char), (∀ c ∈ lit, (c != '$' && c != '`') = true) →
    Complete ρ (lit.flatMap escChar) lit := by
  intro lit
  induction lit with
  | nil => intro _; exact Complete.nil ρ
  | cons c cs ih =>
    intro h rest
    have hc := h c (by simp)
    have ih' := ih (fun d hd => h d (by simp [hd])) rest
    simp only [Bool.and_eq_true, bne_iff_ne, ne_eq] at hc
    by_cases hs : c = '\\' ∨ c = '"'
    · have : escChar c = ['\\', c] := by
        unfold escChar; rcases hs with rfl | rfl <;> simp
      simp only [List.flatMap_cons, this, List.cons_append, List.nil_append]
      rw [scan_escaped ρ c _ (by rcases hs with rfl | rfl <;> simp [special]), ih']
      cases scan ρ none rest <;> simp
    · have hs' : c ≠ '\\' ∧ c ≠ '"' := by
        constructor
        · intro e; exact hs (Or.inl e)
        · intro e; exact hs (Or.inr e)
      have : escChar c = [c] := by
        unfold escChar; simp [hs'.1, hs'.2]
      simp only [List.flatMap_cons, this, List.cons_append, List.nil_append]
      rw [scan_plain ρ c _ (by simp [special, hs'.1, hs'.2, hc.1, hc.2]), ih']
      cases scan ρ none rest <;> simp

theorem scan_name (ρ : Store) : ∀ (n acc rest : List Char), (∀ c ∈ n, c ≠ '}') →
    scan ρ (some acc) (n ++ '}' :: rest) =
      if validName (acc ++ n) then (scan ρ none rest).map (fun t => (ρ (String.ofList (acc ++ n))).toList ++ t) else none := by
  intro n
  induction n with
  | nil => intro acc rest _; rw [scan.eq_def]; simp
  | cons c cs ih =>
    intro acc rest h
    have hc : c ≠ '}' := h c (by simp)
    rw [List.cons_append, scan.eq_def]
    simp only [beq_iff_eq, hc, if_false]
    rw [ih (acc ++ [c]) rest (fun d hd => h d (by simp [hd]))]
    simp

theorem nameChar_ne_brace (c : Char) (h : nameChar c = true) : c ≠ '}' := by
  intro e; subst e; simp [nameChar, Char.isAlphanum, Char.isAlpha, Char.isUpper, Char.isLower, Char.isDigit] at h

theorem validName_no_brace {n : List Char} (h : validName n = true) : ∀ c ∈ n, c ≠ '}' := by
  intro c hc
  cases n with
  | nil => simp at hc
  | cons d ds =>
    simp only [validName, Bool.and_eq_true, List.all_eq_true] at h
    exact nameChar_ne_brace c (h.2 c hc)

/-- `${name}` reads the variable -/
theorem complete_var (ρ : Store) (name : String) (h : validName name.toList = true) :
    Complete ρ ("${" ++ name ++ "}").toList (ρ name).toList := by
  intro rest
  have e : ("${" ++ name ++ "}").toList = '$' :: '{' :: (name.toList ++ ['}']) := by
    simp [String.toList_append]
  rw [e]
  have : ('$' :: '{' :: (name.toList ++ ['}'])) ++ rest = '$' :: '{' :: (name.toList ++ '}' :: rest) := by simp
  rw [this]
  have s1 : scan ρ none ('$' :: '{' :: (name.toList ++ '}' :: rest)) = scan ρ (some []) (name.toList ++ '}' :: rest) := by
    rw [scan.eq_def]; simp
  rw [s1, scan_name ρ name.toList [] rest (validName_no_brace h)]
  simp [h, String.ofList_toList]

/-! ### numerals and booleans are plain text -/

theorem digit_not_special (c : Char) (h : c.isDigit = true) : special c = false := by
  simp only [Char.isDigit, Bool.and_eq_true, decide_eq_true_eq] at h
  simp only [special, Bool.or_eq_false_iff, beq_eq_false_iff_ne, ne_eq]
  refine ⟨⟨⟨?_, ?_⟩, ?_⟩, ?_⟩ <;> (intro e; subst e; revert h; decide)

theorem nat_repr_digits (n : Nat) : ∀ c ∈ (Nat.repr n).toList, c.isDigit = true := by
  intro c hc
  rw [Nat.toList_repr] at hc
  exact Nat.isDigit_of_mem_toDigits (by omega) (by omega) hc

theorem int_toString_plain (n : Int) : ∀ c ∈ (toString n).toList, special c = false := by
  intro c hc
  have e : toString n = n.repr := rfl
  rw [e] at hc
  cases n with
  | ofNat m =>
    simp only [Int.repr] at hc
    exact digit_not_special c (nat_repr_digits m c hc)
  | negSucc m =>
    simp only [Int.repr, String.toList_append] at hc
    simp only [List.mem_append] at hc
    rcases hc with hc | hc
    · have : c = '-' := by simpa using hc
      subst this; decide
    · exact digit_not_special c (nat_repr_digits _ c hc)

theorem complete_int (ρ : Store) (n : Int) : Complete ρ (toString n).toList (toString n).toList :=
  complete_plain ρ _ (int_toString_plain n)

theorem complete_bool (ρ : Store) (b : Bool) : Complete ρ (Tr.boolStr b).toList (Tr.boolStr b).toList := by
  apply complete_plain
  intro c hc
  cases b <;> simp [Tr.boolStr] at hc <;> subst hc <;> decide

theorem asInt_toString (n : Int) : asInt (toString n) = some n := by
  show (Int.repr n).toInt? = some n
  simp

theorem boolStr_eq (b : Bool) : Tr.boolStr b = toString (if b then (1 : Int) else 0) := by
  cases b <;> decide

theorem asInt_boolStr (b : Bool) : asInt (Tr.boolStr b) = some (if b then 1 else 0) := by
  rw [boolStr_eq, asInt_toString]

/-! ### compiler-owned names -/

def helperName (k : Nat) : String := "_h" ++ Nat.repr k
def tmpName (i : Nat) : String := "_ma" ++ Nat.repr i

theorem helperName_eq (k : Nat) : helperName k = s!"_h{k}" := rfl
theorem tmpName_eq (k : Nat) : tmpName k = s!"_ma{k}" := rfl
theorem flagName_eq (k : Nat) : flagName k = "_fv" ++ Nat.repr k := rfl

theorem digits_repr_inj {a b : Nat} (h : Nat.toDigits 10 a = Nat.toDigits 10 b) : a = b := by
  have : (Nat.repr a).toList = (Nat.repr b).toList := by rw [Nat.toList_repr, Nat.toList_repr]; exact h
  have h2 := String.toList_injective this
  have := Nat.toNat?_repr a
  rw [h2, Nat.toNat?_repr] at this
  exact (Option.some.inj this).symm

theorem digit_nameChar (c : Char) (h : c.isDigit = true) : nameChar c = true := by
  simp [nameChar, Char.isAlphanum, h]

theorem validName_prefixed (p : List Char) (n : Nat) (hp : validName p = true) :
    validName (p ++ (Nat.repr n).toList) = true := by
  cases p with
  | nil => simp [validName] at hp
  | cons c cs =>
    simp only [validName, Bool.and_eq_true, List.all_eq_true, List.cons_append] at hp ⊢
    refine ⟨hp.1, ?_⟩
    intro d hd
    simp only [List.mem_cons, List.mem_append] at hd
    rcases hd with rfl | hd | hd
    · exact hp.2 d (by simp)
    · exact hp.2 d (by simp [hd])
    · exact digit_nameChar d (nat_repr_digits n d hd)

theorem helperName_valid (k : Nat) : validName (helperName k).toList = true := by
  have : (helperName k).toList = ['_', 'h'] ++ (Nat.repr k).toList := by
    simp [helperName, String.toList_append]
  rw [this]; exact validName_prefixed _ k (by decide)

theorem tmpName_valid (k : Nat) : validName (tmpName k).toList = true := by
  have : (tmpName k).toList = ['_', 'm', 'a'] ++ (Nat.repr k).toList := by
    simp [tmpName, String.toList_append]
  rw [this]; exact validName_prefixed _ k (by decide)

theorem flagName_valid (k : Nat) : validName (flagName k).toList = true := by
  have : (flagName k).toList = ['_', 'f', 'v'] ++ (Nat.repr k).toList := by
    simp [flagName_eq, String.toList_append]
  rw [this]; exact validName_prefixed _ k (by decide)

theorem nat_repr_inj {a b : Nat} (h : Nat.repr a = Nat.repr b) : a = b := by
  have := Nat.toNat?_repr a
  rw [h, Nat.toNat?_repr] at this
  exact (Option.some.inj this).symm

theorem helperName_inj {a b : Nat} (h : helperName a = helperName b) : a = b := by
  have h' : (helperName a).toList = (helperName b).toList := by rw [h]
  simp [helperName, String.toList_append] at h'
  exact digits_repr_inj h'

theorem good_ne_helper (x : String) (k : Nat) (h : goodName x = true) : x ≠ helperName k := by
  intro e; subst e
  simp [goodName, helperName, String.toList_append] at h

theorem good_ne_tmp (x : String) (k : Nat) (h : goodName x = true) : x ≠ tmpName k := by
  intro e; subst e
  simp [goodName, tmpName, String.toList_append] at h

theorem good_ne_flag (x : String) (k : Nat) (h : goodName x = true) : x ≠ flagName k := by
  intro e; subst e
  simp [goodName, flagName_eq, String.toList_append] at h

theorem tmp_ne_helper (i k : Nat) : tmpName i ≠ helperName k := by
  intro e
  have h' : (tmpName i).toList = (helperName k).toList := by rw [e]
  simp [helperName, tmpName, String.toList_append] at h'

theorem flag_ne_helper (i k : Nat) : flagName i ≠ helperName k := by
  intro e
  have h' : (flagName i).toList = (helperName k).toList := by rw [e]
  simp [helperName, flagName_eq, String.toList_append] at h'

theorem flag_ne_tmp (i k : Nat) : flagName i ≠ tmpName k := by
  intro e
  have h' : (flagName i).toList = (tmpName k).toList := by rw [e]
  simp [tmpName, flagName_eq, String.toList_append] at h'

theorem tmpName_inj {a b : Nat} (h : tmpName a = tmpName b) : a = b := by
  have h' : (tmpName a).toList = (tmpName b).toList := by rw [h]
  simp [tmpName, String.toList_append] at h'
  exact digits_repr_inj h'

theorem flagName_inj {a b : Nat} (h : flagName a = flagName b) : a = b := by
  have h' : (flagName a).toList = (flagName b).toList := by rw [h]
  simp [flagName_eq, String.toList_append] at h'
  exact digits_repr_inj h'

end Tsh.Sem
