/-
  Expressions of the scalar fragment, Batch target: the lines the Batch converter emits for an expression compute, in
  the cmd model `Sem/Cmd`, the value the 32-bit source semantics `Sem/Src32` gives, into an operand text that stays
  valid while later helper variables are written.  (Counterpart of `Lemmas/SemExpr` for the other target.)
-/
import TshVerif.Lemmas.SemBScan
import TshVerif.Lemmas.SemExpr
namespace Tsh.SemB
open Tsh Tsh.Tr Tsh.Batch Tsh.Sem

/-- the operand text `t` reads as `v` in `ρ` and in every store that differs from it only on helpers `≥ k` -/
def HoldsD (t v : String) (k : Nat) (ρ : Store) : Prop :=
  ∀ ρ', (∀ x, (∀ j, k ≤ j → x ≠ helperName j) → ρ' x = ρ x) → CompleteD ρ' t.toList v.toList

/-- lines one after the other, none of which prints or ends the script -/
def runN : List BLine → Cfg → Option Cfg
  | [], c => some c
  | l :: ls, c =>
      match stepB l c with
      | some (.normal, c') => runN ls c'
      | _ => none

theorem runN_append (a b : List BLine) (c : Cfg) :
    runN (a ++ b) c = (runN a c).bind (runN b) := by
  induction a generalizing c with
  | nil => simp [runN]
  | cons l ls ih =>
    simp only [List.cons_append, runN]
    cases h : stepB l c with
    | none => simp
    | some p =>
      obtain ⟨o, c'⟩ := p
      cases o <;> simp [ih]

/-- new global lines (latest first) and `n` new helper variables -/
def advB (s : St) (new : List BLine) (n : Nat) : St :=
  { s with globalCode := new ++ s.globalCode, varCounter := s.varCounter + n }

/-- the three lines that define `LF` -/
def lfLine (l : BLine) : Bool := l == .raw "(set LF=^" || l == .raw "" || l == .raw ")"

/-- what a translation step of the scalar fragment leaves alone outside the code buffers: no helper routine other than the
    echo routine is requested, and the start code only grows by the definition of `LF` -/
def EnvExt (s s' : St) : Prop :=
  (s'.fwhReq = s.fwhReq ∧ s'.appCallReq = s.appCallReq ∧ s'.readReq = s.readReq ∧ s'.schReq = s.schReq ∧ s'.sahReq = s.sahReq ∧
    s'.slsReq = s.slsReq ∧ s'.slgReq = s.slgReq ∧ s'.stshReq = s.stshReq ∧ s'.stlhReq = s.stlhReq) ∧
  ∃ extra, s'.startCode = extra ++ s.startCode ∧ ∀ l ∈ extra, lfLine l = true

theorem EnvExt.refl (s : St) : EnvExt s s := ⟨⟨rfl, rfl, rfl, rfl, rfl, rfl, rfl, rfl, rfl⟩, [], rfl, by simp⟩

theorem EnvExt.trans {a b c : St} (h1 : EnvExt a b) (h2 : EnvExt b c) : EnvExt a c := by
  obtain ⟨⟨a1, a2, a3, a4, a5, a6, a7, a8, a9⟩, e1, s1, p1⟩ := h1
  obtain ⟨⟨b1, b2, b3, b4, b5, b6, b7, b8, b9⟩, e2, s2, p2⟩ := h2
  refine ⟨⟨b1.trans a1, b2.trans a2, b3.trans a3, b4.trans a4, b5.trans a5, b6.trans a6, b7.trans a7, b8.trans a8, b9.trans a9⟩,
    e2 ++ e1, by rw [s2, s1, List.append_assoc], ?_⟩
  intro l hl
  rcases List.mem_append.mp hl with h | h
  · exact p2 l h
  · exact p1 l h

/-- equal flags and equal start code -/
theorem EnvExt.of_eq {s s' : St} (h1 : s'.fwhReq = s.fwhReq) (h2 : s'.appCallReq = s.appCallReq) (h3 : s'.readReq = s.readReq)
    (h4 : s'.schReq = s.schReq) (h5 : s'.sahReq = s.sahReq) (h6 : s'.slsReq = s.slsReq) (h7 : s'.slgReq = s.slgReq)
    (h8 : s'.stshReq = s.stshReq) (h9 : s'.stlhReq = s.stlhReq) (hs : s'.startCode = s.startCode) : EnvExt s s' :=
  ⟨⟨h1, h2, h3, h4, h5, h6, h7, h8, h9⟩, [], by simp [hs], by simp⟩

/-- `s'` is `s` with new global lines and `n` more helper variables, still outside every function (the start code and
    the helper flags may differ: a string literal requests the `LF` definition) -/
structure Adv (s s' : St) (new : List BLine) (n : Nat) : Prop where
  code : s'.globalCode = new ++ s.globalCode
  cnt : s'.varCounter = s.varCounter + n
  funcs : s'.funcs = s.funcs
  fcode : s'.functionsCode = s.functionsCode
  fors : s'.fors = s.fors
  ends : s'.endLabels = s.endLabels
  ifs : s'.ifs = s.ifs
  fcnt : s'.forCounter = s.forCounter
  icnt : s'.ifCounter = s.ifCounter
  /-- the new lines are not structural: they carry no block bracket, no construct label and no construct jump -/
  plain : ∀ l ∈ new, plainB l = true
  env : EnvExt s s'

theorem Adv.refl (s : St) : Adv s s [] 0 := ⟨rfl, rfl, rfl, rfl, rfl, rfl, rfl, rfl, rfl, by simp, EnvExt.refl s⟩

theorem Adv.trans {s s1 s2 : St} {a b : List BLine} {m n : Nat} (h1 : Adv s s1 a m) (h2 : Adv s1 s2 b n) :
    Adv s s2 (b ++ a) (m + n) :=
  ⟨by rw [h2.code, h1.code, List.append_assoc], by rw [h2.cnt, h1.cnt, Nat.add_assoc], by rw [h2.funcs, h1.funcs],
   by rw [h2.fcode, h1.fcode], by rw [h2.fors, h1.fors], by rw [h2.ends, h1.ends], by rw [h2.ifs, h1.ifs],
   by rw [h2.fcnt, h1.fcnt], by rw [h2.icnt, h1.icnt],
   fun l hl => by rcases List.mem_append.mp hl with h | h; exact h2.plain l h; exact h1.plain l h,
   h1.env.trans h2.env⟩

theorem Adv.ofAdvB (s : St) (new : List BLine) (n : Nat) (hp : ∀ l ∈ new, plainB l = true) : Adv s (advB s new n) new n :=
  ⟨rfl, rfl, rfl, rfl, rfl, rfl, rfl, rfl, rfl, hp, EnvExt.of_eq rfl rfl rfl rfl rfl rfl rfl rfl rfl rfl⟩

theorem HoldsD.mono {t v : String} {k k' : Nat} {ρ ρ' : Store} (h : HoldsD t v k ρ) (hk : k ≤ k')
    (hf : ∀ x, (∀ j, k ≤ j → x ≠ helperName j) → ρ' x = ρ x) : HoldsD t v k' ρ' := by
  intro ρ'' h''
  apply h
  intro x hx
  rw [h'' x (fun j hj => hx j (by omega)), hf x hx]

theorem HoldsD.frame {t v : String} {k k' : Nat} {ρ ρ' : Store} (h : HoldsD t v k ρ) (hk : k ≤ k') (hf : FrameH k k' ρ ρ') :
    HoldsD t v k' ρ' :=
  h.mono hk (fun x hx => hf x (fun j h1 _ => hx j h1))

theorem HoldsD.here {t v : String} {k : Nat} {ρ : Store} (h : HoldsD t v k ρ) : CompleteD ρ t.toList v.toList :=
  h ρ (fun _ _ => rfl)

theorem HoldsD.expand {t v : String} {k : Nat} {ρ : Store} (h : HoldsD t v k ρ) : expandD ρ t = some v := h.here.toExpand

theorem holdsD_helper (k : Nat) (ρ : Store) (v : String) (h : ρ (helperName k) = v) :
    HoldsD ("!" ++ helperName k ++ "!") v (k + 1) ρ := by
  intro ρ' h'
  have : ρ' (helperName k) = v := by
    rw [h' _ (fun j hj e => by have := helperName_inj e; omega)]; exact h
  rw [← this]
  exact completeD_var ρ' _ (helperName_valid k)

/-! ### what the converter operations do, as equations -/

theorem varName_topB (s : St) (h : s.funcs = []) (n : String) (g : Bool) : varName s n g = n := by
  simp [varName, inFunction, h]

theorem addLine_top (l : BLine) (s : St) (h : s.funcs = []) : addLine l s = .ok ((), { s with globalCode := l :: s.globalCode }) := by
  simp [addLine, h]

theorem helperVar_eqB (k : Nat) : (s!"_h{k}" : String) = helperName k := rfl

theorem unaryOp_specB (e : String) (s : St) (h0 : s.funcs = []) :
    unaryOp e "!" s = .ok ("!" ++ helperName s.varCounter ++ "!",
      advB s [.ifSet "" e "equ" "1" (helperName s.varCounter) "0" "1"] 1) := by
  simp [unaryOp, bind, nextHelperVar, varEvaluation, Tr.get, addLine, pure,
    varEvalString, varName, inFunction, h0, advB, helperName, toString_str]

theorem arithOp_specB (l op r : String) (vt : ValueType) (s : St) (h0 : s.funcs = []) (hs : vt.isSlice = false) (hd : vt.dt = .int)
    (ho : (op == "*" || op == "/" || op == "+" || op == "-" || op == "%") = true) :
    binaryOp l op r vt s = .ok ("!" ++ helperName s.varCounter ++ "!",
      advB s [.setA (helperName s.varCounter) l op r] 1) := by
  simp [binaryOp, bind, nextHelperVar, varEvaluation, Tr.get, addLine, pure,
    varEvalString, varName, inFunction, h0, advB, helperName, toString_str, hs, hd, ho]

theorem concatOp_specB (l r : String) (vt : ValueType) (s : St) (h0 : s.funcs = []) (hs : vt.isSlice = false) (hd : vt.dt = .string) :
    binaryOp l "+" r vt s = .ok ("!" ++ helperName s.varCounter ++ "!",
      advB s [.set (helperName s.varCounter) (l ++ r)] 1) := by
  simp [binaryOp, bind, nextHelperVar, varAssignment, varEvaluation, Tr.get, addLine, pure,
    varEvalString, varName, inFunction, h0, advB, helperName, toString_str, hs, hd]

theorem compareOp_specB (os q l op r : String) (vt : ValueType) (s : St) (h0 : s.funcs = []) (hos : (os.length == 0) = false) :
    comparisonOpWith os q l op r vt s = .ok ("!" ++ helperName s.varCounter ++ "!",
      advB s [.ifSet q l os r (helperName s.varCounter) "1" "0"] 1) := by
  simp [comparisonOpWith, bind, nextHelperVar, varEvaluation, Tr.get, addLine, pure,
    varEvalString, varName, inFunction, h0, advB, helperName, toString_str, hos]

theorem andOp_specB (l r : String) (s : St) (h0 : s.funcs = []) :
    logicalOp l "&&" r s = .ok ("!" ++ helperName s.varCounter ++ "!", advB s [.andSet l r (helperName s.varCounter)] 1) := by
  simp [logicalOp, bind, nextHelperVar, varEvaluation, Tr.get, addLine, pure,
    varEvalString, varName, inFunction, h0, advB, helperName, toString_str]

theorem orOp_specB (l r : String) (s : St) (h0 : s.funcs = []) :
    logicalOp l "||" r s = .ok ("!" ++ helperName s.varCounter ++ "!", advB s [.orSet l r (helperName s.varCounter)] 1) := by
  simp [logicalOp, bind, nextHelperVar, varEvaluation, Tr.get, addLine, pure,
    varEvalString, varName, inFunction, h0, advB, helperName, toString_str]

/-! ### the shape of the claim, and how it composes -/

/-- Evaluating an expression from converter state `s` returned the operand texts `r` and state `s'`:
    exactly one text, only new global lines and helper variables, and running the new lines from any store that
    agrees with the environment makes the text read as `v`, touching nothing but the new helpers. -/
def ExprSemB (env : Src.Env) (v : String) (s : St) (r : List String) (s' : St) : Prop :=
  ∃ t new n, r = [t] ∧ Adv s s' new n ∧
    ∀ ρ out, Agree env ρ → ∃ ρ', runN new.reverse ⟨ρ, out⟩ = some ⟨ρ', out⟩ ∧
      FrameH s.varCounter (s.varCounter + n) ρ ρ' ∧ HoldsD t v (s.varCounter + n) ρ'

theorem semB_leaf (env : Src.Env) (t v : String) (s s' : St) (ha : Adv s s' [] 0) (h : ∀ ρ, Agree env ρ → ∀ k, HoldsD t v k ρ) :
    ExprSemB env v s [t] s' :=
  ⟨t, [], 0, rfl, ha, fun ρ out hag => ⟨ρ, rfl, FrameH.refl _ _ ρ, h ρ hag _⟩⟩

theorem ExprSemB.funcs {env : Src.Env} {v : String} {s s' : St} {r : List String} (h : ExprSemB env v s r s') (h0 : s.funcs = []) :
    s'.funcs = [] := by
  obtain ⟨_, _, _, _, e, _⟩ := h
  rw [e.funcs]; exact h0

theorem semB_unary {env : Src.Env} {vx v : String} {s s1 : St} {a : List String}
    (hx : ExprSemB env vx s a s1) (mk : String → BLine) (hmk : ∀ t, plainB (mk t) = true)
    (hstep : ∀ (ρ : Store) out k tx, HoldsD tx vx k ρ →
      stepB (mk tx) ⟨ρ, out⟩ = some (.normal, ⟨ρ.set (helperName s1.varCounter) v, out⟩)) :
    ExprSemB env v s ["!" ++ helperName s1.varCounter ++ "!"] (advB s1 [mk (firstValue a)] 1) := by
  obtain ⟨tx, newx, nx, rfl, ax, semx⟩ := hx
  refine ⟨_, [mk tx] ++ newx, nx + 1, rfl, ax.trans (Adv.ofAdvB _ _ _ (by simp [hmk])), ?_⟩
  intro ρ out ha
  obtain ⟨ρ1, run1, fr1, hold1⟩ := semx ρ out ha
  rw [ax.cnt] at hstep ⊢
  refine ⟨ρ1.set (helperName (s.varCounter + nx)) v, ?_, ?_, ?_⟩
  · rw [List.reverse_append, runN_append, run1]
    have e := hstep ρ1 out (s.varCounter + nx) tx hold1
    simp only [Option.bind, List.reverse_cons, List.reverse_nil, List.nil_append, runN, e]
  · intro x hx
    rw [set_other _ _ _ _ (hx _ (by omega) (by omega))]
    exact fr1 x (fun k h1 h2 => hx k h1 (by omega))
  · have := holdsD_helper (s.varCounter + nx) (ρ1.set (helperName (s.varCounter + nx)) v) v
      (set_same ρ1 (helperName (s.varCounter + nx)) v)
    have e : s.varCounter + (nx + 1) = s.varCounter + nx + 1 := by omega
    rw [e]
    exact this

theorem semB_binary {env : Src.Env} {vl vr v : String} {s s1 s2 : St} {a b : List String}
    (hl : ExprSemB env vl s a s1) (hr : ExprSemB env vr s1 b s2) (mk : String → String → BLine)
    (hmk : ∀ t u, plainB (mk t u) = true)
    (hstep : ∀ (ρ : Store) out k tl tr, HoldsD tl vl k ρ → HoldsD tr vr k ρ →
      stepB (mk tl tr) ⟨ρ, out⟩ = some (.normal, ⟨ρ.set (helperName s2.varCounter) v, out⟩)) :
    ExprSemB env v s ["!" ++ helperName s2.varCounter ++ "!"] (advB s2 [mk (firstValue a) (firstValue b)] 1) := by
  obtain ⟨tl, newl, nl, rfl, al, seml⟩ := hl
  obtain ⟨tr, newr, nr, rfl, ar, semr⟩ := hr
  refine ⟨_, [mk tl tr] ++ (newr ++ newl), nl + nr + 1, rfl, (al.trans ar).trans (Adv.ofAdvB _ _ _ (by simp [hmk])), ?_⟩
  intro ρ out ha
  obtain ⟨ρ1, run1, fr1, hold1⟩ := seml ρ out ha
  obtain ⟨ρ2, run2, fr2, hold2⟩ := semr ρ1 out (fr1.agree ha)
  rw [al.cnt] at fr2 hold2
  have e2 : s2.varCounter = s.varCounter + nl + nr := by rw [ar.cnt, al.cnt]
  rw [e2] at hstep ⊢
  have hold1' : HoldsD tl vl (s.varCounter + nl + nr) ρ2 := hold1.frame (by omega) fr2
  refine ⟨ρ2.set (helperName (s.varCounter + nl + nr)) v, ?_, ?_, ?_⟩
  · rw [List.reverse_append, List.reverse_append, runN_append, runN_append, run1]
    simp only [Option.bind]
    rw [run2]
    have e := hstep ρ2 out (s.varCounter + nl + nr) tl tr hold1' hold2
    simp only [List.reverse_cons, List.reverse_nil, List.nil_append, runN, e]
  · intro x hx
    rw [set_other _ _ _ _ (hx _ (by omega) (by omega))]
    rw [fr2 x (fun k h1 h2 => hx k (by omega) (by omega)), fr1 x (fun k h1 h2 => hx k h1 (by omega))]
  · have := holdsD_helper (s.varCounter + nl + nr) (ρ2.set (helperName (s.varCounter + nl + nr)) v) v
      (set_same ρ2 (helperName (s.varCounter + nl + nr)) v)
    have e : s.varCounter + (nl + nr + 1) = s.varCounter + nl + nr + 1 := by omega
    rw [e]
    exact this

/-! ### one step of each operation in the cmd model -/

theorem expandNum_of_holds {t : String} {n : Int} {k : Nat} {ρ : Store} (h : HoldsD t (toString n) k ρ) (hr : readable n = true) :
    expandNum ρ t = some n := by
  simp only [expandNum, h.expand, Option.bind]
  exact canonInt_toString n hr

theorem expandNum_bool {t : String} {b : Bool} {k : Nat} {ρ : Store} (h : HoldsD t (boolStr b) k ρ) :
    expandNum ρ t = some (if b then 1 else 0) := by
  simp only [expandNum, h.expand, Option.bind]
  exact canonInt_boolStr b

theorem expandNum_one (ρ : Store) : expandNum ρ "1" = some 1 := by
  have h : CompleteD ρ ("1" : String).toList ("1" : String).toList := completeD_bool ρ true
  have e : canonInt "1" = some 1 := canonInt_boolStr true
  simp only [expandNum, h.toExpand, Option.bind]
  exact e

theorem stepB_not {tx : String} {b : Bool} {k : Nat} {ρ : Store} (out : List String) (h : String) (hx : HoldsD tx (boolStr b) k ρ) :
    stepB (.ifSet "" tx "equ" "1" h "0" "1") ⟨ρ, out⟩ = some (.normal, ⟨ρ.set h (boolStr (!b)), out⟩) := by
  have q1 : (("" : String) == "\"") = false := by decide
  simp only [stepB, evalIf, q1, expandNum_bool hx, expandNum_one, numIf, bit]
  cases b <;> simp [boolStr]

theorem stepB_arith {tl tr op : String} {x y z : Int} {k : Nat} {ρ : Store} (out : List String) (h : String)
    (hl : HoldsD tl (toString x) k ρ) (hr : HoldsD tr (toString y) k ρ) (rx : readable x = true) (ry : readable y = true)
    (hz : arith32 op x y = some z) :
    stepB (.setA h tl op tr) ⟨ρ, out⟩ = some (.normal, ⟨ρ.set h (toString z), out⟩) := by
  simp only [stepB, expandNum_of_holds hl rx, expandNum_of_holds hr ry, hz]

theorem stepB_concat {tl tr x y : String} {k : Nat} {ρ : Store} (out : List String) (h : String)
    (hl : HoldsD tl x k ρ) (hr : HoldsD tr y k ρ) :
    stepB (.set h (tl ++ tr)) ⟨ρ, out⟩ = some (.normal, ⟨ρ.set h (x ++ y), out⟩) := by
  have hc : CompleteD ρ (tl ++ tr).toList (x ++ y).toList := by
    rw [String.toList_append, String.toList_append]
    exact hl.here.append hr.here
  simp only [stepB, hc.toExpand]

theorem stepB_cmp_num {tl tr os : String} {x y : Int} {v : Bool} {k : Nat} {ρ : Store} (out : List String) (h : String)
    (hl : HoldsD tl (toString x) k ρ) (hr : HoldsD tr (toString y) k ρ) (rx : readable x = true) (ry : readable y = true)
    (hv : numIf os x y = some v) :
    stepB (.ifSet "" tl os tr h "1" "0") ⟨ρ, out⟩ = some (.normal, ⟨ρ.set h (boolStr v), out⟩) := by
  have q1 : (("" : String) == "\"") = false := by decide
  simp only [stepB, evalIf, q1, expandNum_of_holds hl rx, expandNum_of_holds hr ry, hv, bit]
  cases v <;> simp [boolStr]

theorem stepB_cmp_bool {tl tr os : String} {x y : Bool} {v : Bool} {k : Nat} {ρ : Store} (out : List String) (h : String)
    (hl : HoldsD tl (boolStr x) k ρ) (hr : HoldsD tr (boolStr y) k ρ)
    (hv : numIf os (if x then 1 else 0) (if y then 1 else 0) = some v) :
    stepB (.ifSet "" tl os tr h "1" "0") ⟨ρ, out⟩ = some (.normal, ⟨ρ.set h (boolStr v), out⟩) := by
  have q1 : (("" : String) == "\"") = false := by decide
  simp only [stepB, evalIf, q1, expandNum_bool hl, expandNum_bool hr, hv, bit]
  cases v <;> simp [boolStr]

theorem stepB_cmp_streq {tl tr x y : String} {k : Nat} {ρ : Store} (out : List String) (h : String)
    (hl : HoldsD tl x k ρ) (hr : HoldsD tr y k ρ) :
    stepB (.ifSet "\"" tl "equ" tr h "1" "0") ⟨ρ, out⟩ = some (.normal, ⟨ρ.set h (boolStr (x == y)), out⟩) := by
  simp only [stepB, evalIf, hl.expand, hr.expand, bit]
  cases (x == y) <;> simp [boolStr]

theorem stepB_cmp_strne {tl tr x y : String} {k : Nat} {ρ : Store} (out : List String) (h : String)
    (hl : HoldsD tl x k ρ) (hr : HoldsD tr y k ρ) :
    stepB (.ifSet "\"" tl "neq" tr h "1" "0") ⟨ρ, out⟩ = some (.normal, ⟨ρ.set h (boolStr (x != y)), out⟩) := by
  simp only [stepB, evalIf, hl.expand, hr.expand, bit]
  cases (x != y) <;> simp [boolStr]

theorem stepB_and {tl tr : String} {x y : Bool} {k : Nat} {ρ : Store} (out : List String) (h : String)
    (hl : HoldsD tl (boolStr x) k ρ) (hr : HoldsD tr (boolStr y) k ρ) :
    stepB (.andSet tl tr h) ⟨ρ, out⟩ = some (.normal, ⟨ρ.set h (boolStr (x && y)), out⟩) := by
  simp only [stepB, expandNum_bool hl, expandNum_bool hr]
  cases x <;> cases y <;> simp [boolStr]

theorem stepB_or {tl tr : String} {x y : Bool} {k : Nat} {ρ : Store} (out : List String) (h : String)
    (hl : HoldsD tl (boolStr x) k ρ) (hr : HoldsD tr (boolStr y) k ρ) :
    stepB (.orSet tl tr h) ⟨ρ, out⟩ = some (.normal, ⟨ρ.set h (boolStr (x || y)), out⟩) := by
  simp only [stepB, expandNum_bool hl, expandNum_bool hr]
  cases x <;> cases y <;> simp [boolStr]

theorem arith32_op_ok {op : String} {x y z : Int} (h : arith32 op x y = some z) :
    (op == "*" || op == "/" || op == "+" || op == "-" || op == "%") = true := by
  unfold arith32 at h
  by_cases h1 : op = "+"
  · simp [h1]
  by_cases h2 : op = "-"
  · simp [h2]
  by_cases h3 : op = "*"
  · simp [h3]
  by_cases h4 : op = "/"
  · simp [h4]
  by_cases h5 : op = "%"
  · simp [h5]
  simp [h1, h2, h3, h4, h5] at h

theorem intCmp_numIf {op : String} {x y : Int} {v : Bool} (h : Src.intCmp op x y = some v) :
    let os := (compareOpString op ⟨.int, false⟩).1
    (os.length == 0) = false ∧ (compareOpString op ⟨.int, false⟩).2 = "" ∧ numIf os x y = some v := by
  unfold Src.intCmp at h
  by_cases h1 : op = "=="
  · subst h1; simp at h; simp [compareOpString, numIf, h]
  by_cases h2 : op = "!="
  · subst h2; simp at h; simp [compareOpString, numIf, h]
  by_cases h3 : op = ">"
  · subst h3; simp at h; simp [compareOpString, numIf, h]
  by_cases h4 : op = ">="
  · subst h4; simp at h; simp [compareOpString, numIf, h]
  by_cases h5 : op = "<"
  · subst h5; simp at h; simp [compareOpString, numIf, h]
  by_cases h6 : op = "<="
  · subst h6; simp at h; simp [compareOpString, numIf, h]
  simp [h1, h2, h3, h4, h5, h6] at h

end Tsh.SemB
