import TshVerif.Lemmas.ParserTypedStmt
namespace Tsh.Parser
open Tsh Tsh.Tr Tsh.LexTables

theorem registerImported_ok : ∀ (stmts : List Stmt) (ctx : Ctx) (out : List Stmt), CtxOK ctx → stmtsP out → stmtsP stmts →
    CtxOK (stmts.foldl (fun (acc : Ctx × List Stmt) st =>
      let (ctx, out) := acc
      match st with
      | .varDef vars _ =>
        let (ctx, ex) := vars.foldl (fun (a : Ctx × Bool) v =>
          let e := (assocGet a.1.vars v.name).isSome
          (if !e && v.pub then { a.1 with vars := assocSet a.1.vars v.name v } else a.1, e)) (ctx, false)
        (ctx, if ex then out else out ++ [st])
      | .funcDef name pub rets params _ =>
        let e := (assocGet ctx.funcs name).isSome
        (if !e && pub then { ctx with funcs := assocSet ctx.funcs name ⟨name, rets, params, pub⟩ } else ctx,
         if e then out else out ++ [st])
      | _ => (ctx, out ++ [st])) (ctx, out)).1 ∧
    stmtsP (stmts.foldl (fun (acc : Ctx × List Stmt) st =>
      let (ctx, out) := acc
      match st with
      | .varDef vars _ =>
        let (ctx, ex) := vars.foldl (fun (a : Ctx × Bool) v =>
          let e := (assocGet a.1.vars v.name).isSome
          (if !e && v.pub then { a.1 with vars := assocSet a.1.vars v.name v } else a.1, e)) (ctx, false)
        (ctx, if ex then out else out ++ [st])
      | .funcDef name pub rets params _ =>
        let e := (assocGet ctx.funcs name).isSome
        (if !e && pub then { ctx with funcs := assocSet ctx.funcs name ⟨name, rets, params, pub⟩ } else ctx,
         if e then out else out ++ [st])
      | _ => (ctx, out ++ [st])) (ctx, out)).2 := by
  intro stmts
  induction stmts with
  | nil => intro ctx out hc ho _; exact ⟨hc, ho⟩
  | cons st rest ih =>
    intro ctx out hc ho hs
    simp only [stmtsP, PT.stmts, Bool.and_eq_true] at hs
    simp only [List.foldl_cons]
    have hst : stmtP st := hs.1
    cases st with
    | varDef vars vals =>
      have hk : PT.varsKnown vars = true := by
        simp only [stmtP, PT.stmt, Bool.and_eq_true] at hst; exact hst.2
      have inner : ∀ (vs : List Var) (a : Ctx × Bool), CtxOK a.1 → PT.varsKnown vs = true →
          CtxOK (vs.foldl (fun (a : Ctx × Bool) v =>
            let e := (assocGet a.1.vars v.name).isSome
            (if !e && v.pub then { a.1 with vars := assocSet a.1.vars v.name v } else a.1, e)) a).1 := by
        intro vs
        induction vs with
        | nil => intro a ha _; exact ha
        | cons v vs ihv =>
          intro a ha hk
          simp only [PT.varsKnown, List.all_cons, Bool.and_eq_true] at hk
          simp only [List.foldl_cons]
          refine ihv _ ?_ (by simpa [PT.varsKnown] using hk.2)
          dsimp only
          split
          · exact ha.setVar _ _ hk.1
          · exact ha
      dsimp only
      refine ih _ _ (inner vars (ctx, false) hc hk) ?_ hs.2
      split
      · exact ho
      · exact stmts_snoc ho hst
    | funcDef name pub rets params body =>
      have hb : rets.all PT.basic = true ∧ params.all (fun p => PT.basic p.vt) = true := by
        simp only [stmtP, PT.stmt, Bool.and_eq_true] at hst; exact ⟨hst.1.2, hst.2⟩
      dsimp only
      refine ih _ _ ?_ ?_ hs.2
      · split
        · exact hc.setFunc _ _ hb
        · exact hc
      · split
        · exact ho
        · exact stmts_snoc ho hst
    | _ => exact ih _ _ hc (stmts_snoc ho hst) hs.2

theorem registerImported_post {ctx : Ctx} {stmts : List Stmt} (hc : CtxOK ctx) (hs : stmtsP stmts) :
    CtxOK (registerImported ctx stmts).1 ∧ stmtsP (registerImported ctx stmts).2 :=
  registerImported_ok stmts ctx [] hc rfl hs

theorem stmts_filter {ss : List Stmt} (p : Stmt → Bool) (h : stmtsP ss) : stmtsP (ss.filter p) := by
  induction ss with
  | nil => exact h
  | cons s rest ih =>
    simp only [stmtsP, PT.stmts, Bool.and_eq_true] at h
    simp only [List.filter_cons]
    split
    · simp only [stmtsP, PT.stmts, Bool.and_eq_true]; exact ⟨h.1, ih h.2⟩
    · exact ih h.2

theorem cleanProgram_ok {used : List (String × List String)} {body b : List Stmt} (h : cleanProgram used body = some b)
    (hb : stmtsP body) : stmtsP b := by
  unfold cleanProgram at h
  cases hk : getUsedFuncs used "" with
  | none => simp [hk] at h
  | some keep =>
    simp only [hk, Option.bind_eq_bind, Option.bind_some, Option.pure_def, Option.some.injEq] at h
    exact h ▸ stmts_filter _ hb

/-- the statement about one nesting depth of imports -/
def FileOK (depth : Nat) : Prop :=
  ∀ fs path imported importing p s, parseFile depth fs path imported importing = .ok p s → stmtsP p.body

theorem importLoop_ok (S : ∀ fuel, StmtIH fuel) {depth : Nat} (hd : FileOK depth) (fs : FileSys) (path : String)
    (importing : List String) (multiple : Bool) :
    ∀ (fuel : Nat) (ctx : Ctx) (acc : List Stmt) (s0 s' : PSt) (r : Ctx × List Stmt), CtxOK ctx → stmtsP acc →
      importLoop depth fs path importing fuel multiple ctx acc s0 = .ok r s' → CtxOK r.1 ∧ stmtsP r.2 := by
  intro fuel
  induction fuel with
  | zero => intro ctx acc s0 s' r _ _ h; unfold importLoop at h; simp at h
  | succ fuel ih =>
    intro ctx acc s0 s' r hc hacc h
    unfold importLoop at h
    dsimp only at h
    split at h
    · split at h
      · split at h
        · simp at h
        · rename_i abs alias hres
          split at h
          · rename_i parsed sp hp
            have hbody := hd _ _ _ _ _ _ hp
            split at h
            · simp at h
            · split at h
              · split at h
                · simp only [PRes.ok.injEq] at h
                  obtain ⟨rfl, _⟩ := h
                  exact ⟨hc.imports _, stmts_append hacc hbody⟩
                · split at h
                  · simp only [PRes.ok.injEq] at h
                    obtain ⟨rfl, _⟩ := h
                    exact ⟨hc.imports _, stmts_append hacc hbody⟩
                  · split at h
                    · exact ih _ _ _ _ _ (hc.imports _) (stmts_append hacc hbody) h
                    · simp at h
              · simp at h
              · simp at h
              · simp at h
          · simp at h
          · simp at h
          · simp at h
      · simp at h
      · simp at h
      · simp at h
    · simp at h
    · simp at h
    · simp at h

theorem evalImports_ok (S : ∀ fuel, StmtIH fuel) {depth : Nat} (hd : FileOK depth) (fs : FileSys) (path : String)
    (importing : List String) (fuel : Nat) (ctx : Ctx) (s0 s' : PSt) (r : Ctx × List Stmt) (hc : CtxOK ctx)
    (h : evalImports depth fs path importing fuel ctx s0 = .ok r s') : CtxOK r.1 ∧ stmtsP r.2 := by
  unfold evalImports at h
  dsimp only at h
  split at h
  · split at h
    · simp only [PRes.ok.injEq] at h
      obtain ⟨rfl, _⟩ := h
      exact ⟨hc, rfl⟩
    · split at h
      · split at h
        · simp at h
        · split at h
          · rename_i c stmts s2 hl
            obtain ⟨h1, h2⟩ := importLoop_ok S hd fs path importing true fuel ctx [] _ _ _ hc rfl hl
            simp only [PRes.ok.injEq] at h
            obtain ⟨rfl, _⟩ := h
            exact registerImported_post h1 h2
          · simp at h
          · simp at h
          · simp at h
      · split at h
        · rename_i c stmts s2 hl
          obtain ⟨h1, h2⟩ := importLoop_ok S hd fs path importing false fuel ctx [] _ _ _ hc rfl hl
          simp only [PRes.ok.injEq] at h
          obtain ⟨rfl, _⟩ := h
          exact registerImported_post h1 h2
        · simp at h
        · simp at h
        · simp at h
  · simp at h
  · simp at h
  · simp at h

theorem evalProgram_ok (S : ∀ fuel, StmtIH fuel) {depth : Nat} (hd : FileOK depth) (fs : FileSys) (path : String)
    (importing : List String) (fuel : Nat) (s0 s' : PSt) (body : List Stmt)
    (h : evalProgram depth fs path importing fuel s0 = .ok body s') : stmtsP body := by
  unfold evalProgram at h
  split at h
  · rename_i ctx imported s hi
    obtain ⟨h1, h2⟩ := evalImports_ok S hd fs path importing fuel {} _ _ _ CtxOK.empty hi
    dsimp only at h
    split at h
    · rename_i own s2 hb
      simp only [PRes.ok.injEq] at h
      obtain ⟨rfl, _⟩ := h
      have := (S fuel).blockContent _ _ _ _ (h1.imports _) _ _ _ hb
      exact stmts_append h2 this.1
    · simp at h
    · simp at h
    · simp at h
  · simp at h
  · simp at h
  · simp at h

theorem fileOK_all (S : ∀ fuel, StmtIH fuel) : ∀ depth, FileOK depth := by
  intro depth
  induction depth with
  | zero => intro fs path imported importing p s h; unfold parseFile at h; simp at h
  | succ depth ih =>
    intro fs path imported importing p s h
    unfold parseFile at h
    split at h
    · simp at h
    split at h
    · simp at h
    split at h
    · simp at h
    · split at h
      · simp at h
      · dsimp only at h
        split at h
        · rename_i body s1 he
          have hb := evalProgram_ok S ih _ _ _ _ _ _ _ he
          split at h
          · simp only [PRes.ok.injEq] at h
            obtain ⟨rfl, _⟩ := h
            exact hb
          · split at h
            · rename_i b hcl
              simp only [PRes.ok.injEq] at h
              obtain ⟨rfl, _⟩ := h
              exact cleanProgram_ok hcl hb
            · simp at h
        · simp at h
        · simp at h
        · simp at h
