import TshVerif.Lemmas.ParserTypedStmt
namespace Tsh.Parser
open Tsh Tsh.Tr Tsh.LexTables

theorem skipNL_any : ∀ fuel, Post (skipNL fuel) (fun _ => True) := by
  intro fuel
  induction fuel with
  | zero => unfold skipNL; exact Post.div
  | succ fuel ih =>
    unfold skipNL
    pm_bind; intro t
    pm_if
    · pm_bind; intro _
      exact ih
    · exact Post.pure' trivial

theorem evalImport_any : Post evalImport (fun _ => True) := by
  unfold evalImport
  pm_bind; intro t
  pm_bind; rintro ⟨alias, t2⟩
  pm_if
  · exact Post.err
  pm_bind; intro n
  pm_if
  · exact Post.err
  pm_if
  · pm_bind; intro _
    exact Post.pure' trivial
  · exact Post.pure' trivial

theorem registerImported_ok : ∀ (stmts : List Stmt) (ctx : Ctx) (out : List Stmt), CtxOK ctx → stmtsP out → stmtsP stmts →
    CtxOK (stmts.foldl (fun (acc : Ctx × List Stmt) st =>
      let (ctx, out) := acc
      match st with
      | .varDef vars _ =>
        let (ctx, ex) := vars.foldl (fun (a : Ctx × Bool) v =>
          let e := (assocGet a.1.vars v.name).isSome
          (if !e && v.pub then { a.1 with vars := assocSet a.1.vars v.name v } else a.1, a.2 && e)) (ctx, true)
        (ctx, if ex then out else out ++ [st])
      | .funcDef name pub rets params _ =>
        let e := (assocGet ctx.funcs name).isSome
        (if !e && pub then { ctx with funcs := assocSet ctx.funcs name ⟨name, rets, params, pub⟩ } else ctx,
         if e then out else out ++ [st])
      | _ => (ctx, out ++ [st])) (ctx, out)).1 ∧
    stmtsP (stmts.foldl (fun (acc : Ctx × List Stmt) st =>
      let (ctx, out) := acc
      match st with
      | .varDef vars _ =>
        let (ctx, ex) := vars.foldl (fun (a : Ctx × Bool) v =>
          let e := (assocGet a.1.vars v.name).isSome
          (if !e && v.pub then { a.1 with vars := assocSet a.1.vars v.name v } else a.1, a.2 && e)) (ctx, true)
        (ctx, if ex then out else out ++ [st])
      | .funcDef name pub rets params _ =>
        let e := (assocGet ctx.funcs name).isSome
        (if !e && pub then { ctx with funcs := assocSet ctx.funcs name ⟨name, rets, params, pub⟩ } else ctx,
         if e then out else out ++ [st])
      | _ => (ctx, out ++ [st])) (ctx, out)).2 := by
  intro stmts
  induction stmts with
  | nil => intro ctx out hc ho _; exact ⟨hc, ho⟩
  | cons st rest ih =>
    intro ctx out hc ho hs
    simp only [stmtsP, PT.stmts, Bool.and_eq_true] at hs
    simp only [List.foldl_cons]
    have hst : stmtP st := hs.1
    cases st with
    | varDef vars vals =>
      have hk : PT.varsKnown vars = true := by
        simp only [stmtP, PT.stmt, Bool.and_eq_true] at hst; exact hst.2
      have inner : ∀ (vs : List Var) (a : Ctx × Bool), CtxOK a.1 → PT.varsKnown vs = true →
          CtxOK (vs.foldl (fun (a : Ctx × Bool) v =>
            let e := (assocGet a.1.vars v.name).isSome
            (if !e && v.pub then { a.1 with vars := assocSet a.1.vars v.name v } else a.1, a.2 && e)) a).1 := by
        intro vs
        induction vs with
        | nil => intro a ha _; exact ha
        | cons v vs ihv =>
          intro a ha hk
          simp only [PT.varsKnown, List.all_cons, Bool.and_eq_true] at hk
          simp only [List.foldl_cons]
          refine ihv _ ?_ (by simpa [PT.varsKnown] using hk.2)
          dsimp only
          split
          · exact ha.setVar _ _ hk.1
          · exact ha
      dsimp only
      refine ih _ _ (inner vars (ctx, true) hc hk) ?_ hs.2
      split
      · exact ho
      · exact stmts_snoc ho hst
    | funcDef name pub rets params body =>
      have hb : rets.all PT.basic = true ∧ params.all (fun p => PT.basic p.vt) = true := by
        simp only [stmtP, PT.stmt, Bool.and_eq_true] at hst; exact ⟨hst.1.2, hst.2⟩
      dsimp only
      refine ih _ _ ?_ ?_ hs.2
      · split
        · exact hc.setFunc _ _ hb
        · exact hc
      · split
        · exact ho
        · exact stmts_snoc ho hst
    | _ => exact ih _ _ hc (stmts_snoc ho hst) hs.2

theorem registerImported_post {ctx : Ctx} {stmts : List Stmt} (hc : CtxOK ctx) (hs : stmtsP stmts) :
    CtxOK (registerImported ctx stmts).1 ∧ stmtsP (registerImported ctx stmts).2 :=
  registerImported_ok stmts ctx [] hc rfl hs

theorem stmts_filter {ss : List Stmt} (p : Stmt → Bool) (h : stmtsP ss) : stmtsP (ss.filter p) := by
  induction ss with
  | nil => exact h
  | cons s rest ih =>
    simp only [stmtsP, PT.stmts, Bool.and_eq_true] at h
    simp only [List.filter_cons]
    split
    · simp only [stmtsP, PT.stmts, Bool.and_eq_true]; exact ⟨h.1, ih h.2⟩
    · exact ih h.2

theorem cleanProgram_ok {used : List (String × List String)} {body b : List Stmt} (h : cleanProgram used body = some b)
    (hb : stmtsP body) : stmtsP b := by
  unfold cleanProgram at h
  cases hk : getUsedFuncs used "" with
  | none => simp [hk] at h
  | some keep =>
    simp only [hk, Option.bind_eq_bind, Option.bind_some, Option.pure_def, Option.some.injEq] at h
    exact h ▸ stmts_filter _ hb

/-- a result is good: a value with `Q`, or an error / fuel exhaustion - never the `panic` outcome -/
def Good {α : Type} (r : PRes α) (Q : α → Prop) : Prop :=
  match r with
  | .ok a _ => Q a
  | .panic => False
  | _ => True

theorem Post.good {α : Type} {m : PM α} {Q : α → Prop} (h : Post m Q) (s : PSt) : Good (m s) Q := by
  unfold Good
  split
  · rename_i a s' he; exact h.ok s a s' he
  · rename_i he; exact h.np s he
  · trivial

theorem Good.ok {α : Type} {r : PRes α} {Q : α → Prop} (h : Good r Q) {a : α} {s : PSt} (he : r = .ok a s) : Q a := by
  subst he; exact h

theorem Good.np {α : Type} {r : PRes α} {Q : α → Prop} (h : Good r Q) : r ≠ .panic := by
  intro he; subst he; exact h

/-- the statement about one nesting depth of imports -/
def FileOK (depth : Nat) : Prop :=
  ∀ fs path imported importing, Good (parseFile depth fs path imported importing) (fun p => stmtsP p.body)

theorem importLoop_ok {depth : Nat} (hd : FileOK depth) (fs : FileSys) (path : String)
    (importing : List String) (multiple : Bool) :
    ∀ (fuel : Nat) (ctx : Ctx) (acc : List Stmt) (s0 : PSt), CtxOK ctx → stmtsP acc →
      Good (importLoop depth fs path importing fuel multiple ctx acc s0) (fun r => CtxOK r.1 ∧ stmtsP r.2) := by
  intro fuel
  induction fuel with
  | zero => intro ctx acc s0 _ _; unfold importLoop; trivial
  | succ fuel ih =>
    intro ctx acc s0 hc hacc
    unfold importLoop
    dsimp only
    have hskip : ∀ s, Good (if multiple = true then skipNL fuel s else PRes.ok () s) (fun _ => True) := by
      intro s
      split
      · exact (skipNL_any fuel).good s
      · trivial
    split
    · split
      · split
        · trivial
        · rename_i abs alias hres
          have hp := hd fs abs true (importing ++ [path])
          split
          · rename_i parsed sp hpe
            have hbody : stmtsP parsed.body := hp.ok hpe
            split
            · trivial
            · split
              · split
                · exact ⟨hc.imports _, stmts_append hacc hbody⟩
                · split
                  · exact ⟨hc.imports _, stmts_append hacc hbody⟩
                  · split
                    · exact ih _ _ _ (hc.imports _) (stmts_append hacc hbody)
                    · trivial
              · trivial
              · rename_i he; exact (hskip _).np he
              · trivial
          · trivial
          · rename_i he; exact hp.np he
          · trivial
      · trivial
      · rename_i he; exact (evalImport_any.good _).np he
      · trivial
    · trivial
    · rename_i he; exact (hskip _).np he
    · trivial

theorem evalImports_ok {depth : Nat} (hd : FileOK depth) (fs : FileSys) (path : String)
    (importing : List String) (fuel : Nat) (ctx : Ctx) (s0 : PSt) (hc : CtxOK ctx) :
    Good (evalImports depth fs path importing fuel ctx s0) (fun r => CtxOK r.1 ∧ stmtsP r.2) := by
  unfold evalImports
  dsimp only
  split
  · split
    · exact ⟨hc, rfl⟩
    · split
      · split
        · trivial
        · have hl := fun s => importLoop_ok hd fs path importing true fuel ctx [] s hc rfl
          split
          · rename_i c stmts s2 hle
            have := (hl _).ok hle
            exact registerImported_post this.1 this.2
          · trivial
          · rename_i he; exact (hl _).np he
          · trivial
      · have hl := fun s => importLoop_ok hd fs path importing false fuel ctx [] s hc rfl
        split
        · rename_i c stmts s2 hle
          have := (hl _).ok hle
          exact registerImported_post this.1 this.2
        · trivial
        · rename_i he; exact (hl _).np he
        · trivial
  · trivial
  · rename_i he; exact ((skipNL_any fuel).good _).np he
  · trivial

theorem evalProgram_ok (S : ∀ fuel, StmtIH fuel) {depth : Nat} (hd : FileOK depth) (fs : FileSys) (path : String)
    (importing : List String) (fuel : Nat) (s0 : PSt) :
    Good (evalProgram depth fs path importing fuel s0) stmtsP := by
  unfold evalProgram
  have hi := evalImports_ok hd fs path importing fuel {} s0 CtxOK.empty
  split
  · rename_i ctx imported s hie
    have h12 := hi.ok hie
    dsimp only
    have hb := ((S fuel).blockContent [TT_EOF] (fun _ _ => true)
      { ctx with imports := assocSet ctx.imports s.pfx s.pfx } .program (h12.1.imports _)).good s
    split
    · rename_i own s2 hbe
      exact stmts_append h12.2 (hb.ok hbe).1
    · trivial
    · rename_i he; exact hb.np he
    · trivial
  · trivial
  · rename_i he; exact hi.np he
  · trivial

theorem fileOK_all (S : ∀ fuel, StmtIH fuel) : ∀ depth, FileOK depth := by
  intro depth
  induction depth with
  | zero => intro fs path imported importing; unfold parseFile; trivial
  | succ depth ih =>
    intro fs path imported importing
    unfold parseFile
    split
    · trivial
    split
    · trivial
    split
    · trivial
    · split
      · trivial
      · dsimp only
        have he := evalProgram_ok S ih fs path importing (fuelFor ‹Array Tok›.size) { toks := ‹Array Tok›, pfx := if imported = true then ‹String› else "" }
        split
        · rename_i body s1 hee
          have hb := he.ok hee
          split
          · exact hb
          · split
            · rename_i b hcl
              exact cleanProgram_ok hcl hb
            · trivial
        · trivial
        · rename_i hp; exact he.np hp
        · trivial

end Tsh.Parser
