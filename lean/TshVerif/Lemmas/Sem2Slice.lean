/-
  Slices and string operations: how the storage of slices on both sides stays in step, a combinator for
  "operands, then the lines of the operation", and the lines of each operation.
-/
import TshVerif.Lemmas.Sem2Expr
namespace Tsh.Sem2
open Tsh Tsh.Tr Tsh.Bash Tsh.Sem Tsh.Sem2.Src
open Tsh.Sem.Src (Val Env sliceName)

/-! ### general -/

/-- only the single-operand results of an evaluation -/
def single (src : Nat → SCfg → Option (R (List Opd))) : Nat → SCfg → Option (R (List Opd)) :=
  fun f c => match src f c with
    | some (.ok [o] c1) => some (.ok [o] c1)
    | some (.exit k c1) => some (.exit k c1)
    | _ => none

theorem single_ok {src : Nat → SCfg → Option (R (List Opd))} {f : Nat} {c c1 : SCfg} {o : Opd} (h : src f c = some (.ok [o] c1)) :
    single src f c = some (.ok [o] c1) := by simp [single, h]

theorem single_exit {src : Nat → SCfg → Option (R (List Opd))} {f : Nat} {c c1 : SCfg} {k : Nat} (h : src f c = some (.exit k c1)) :
    single src f c = some (.exit k c1) := by simp [single, h]

theorem esim_first {ctx : Ctx} {T : List FEntry} {B : Nat} {src : Nat → SCfg → Option (R (List Opd))} {new : List Line} {lo n : Nat}
    {a : List String} (h : ESim ctx T B src new lo n a) : ESim ctx T B (single src) new lo n [firstValue a] := by
  refine ⟨h.lines, ?_⟩
  intro fuel c res hs m hi
  simp only [single] at hs
  split at hs
  · rename_i o c1 hsrc
    simp only [Option.some.injEq] at hs
    subst hs
    obtain ⟨m1, ex, hi1, hc1, hk1, hh⟩ := h.run fuel c _ hsrc m hi
    refine ⟨m1, ex, hi1, hc1, hk1, fun _ => ?_⟩
    have hh' := hh rfl
    match a, hh' with
    | [t], hh' => exact hh'
    | [], hh' => exact hh'.elim
    | _ :: _ :: _, hh' => exact hh'.2.elim
  · rename_i k c1 hsrc
    simp only [Option.some.injEq] at hs
    subst hs
    exact h.run fuel c _ hsrc m hi
  · simp at hs

/-- a simulation transfers along a reindexing of the source evaluation -/
theorem esim_reindex {ctx : Ctx} {T : List FEntry} {B : Nat} {src src' : Nat → SCfg → Option (R (List Opd))} {new : List Line} {lo n : Nat}
    {ts : List String} (h : ESim ctx T B src new lo n ts) (hr : ∀ fuel c res, src' fuel c = some res → ∃ f, src f c = some res) :
    ESim ctx T B src' new lo n ts := by
  refine ⟨h.lines, ?_⟩
  intro fuel c res hs m hi
  obtain ⟨f, hf⟩ := hr fuel c res hs
  exact h.run f c res hf m hi

/-! ### storage -/

theorem sliceName_inj {a b : Nat} (h : sliceName a = sliceName b) : a = b := by
  have h' : (sliceName a).toList = (sliceName b).toList := by rw [h]
  simp [sliceName, String.toList_append] at h'
  exact digits_repr_inj h'

theorem hset_hset (h : Nat → List Val) (id : Nat) (a b : List Val) : hset (hset h id a) id b = hset h id b := by
  funext j; simp only [hset]; split <;> rfl

theorem aset_same (a : String → List String) (x : String) (v : List String) : aset a x v x = v := by simp [aset]
theorem aset_other (a : String → List String) (x y : String) (v : List String) (h : y ≠ x) : aset a x v y = a y := by simp [aset, h]

/-- a write to an allocated slice, on both sides -/
theorem HeapOK.write {c : SCfg} {m : Cfg} (h : HeapOK c m) (id : Nat) (hid : id ≤ c.next) (l : List Val) :
    HeapOK { c with heap := hset c.heap id l } { m with arr := aset m.arr (sliceName id) (l.map Val.render) } := by
  refine ⟨h.dvc, ?_, ?_⟩
  · intro j
    by_cases e : j = id
    · subst e; simp [aset, hset]
    · show aset m.arr (sliceName id) _ (sliceName j) = (hset c.heap id l j).map _
      rw [aset_other _ _ _ _ (fun e' => e (sliceName_inj e'))]
      simp only [hset, e, if_false]
      exact h.heap j
  · intro j hj
    have hj' : c.next < j := hj
    have : j ≠ id := by omega
    show hset c.heap id l j = []
    simp only [hset, this, if_false]
    exact h.fresh j hj'

/-- the counter goes up by one -/
theorem HeapOK.bump {c : SCfg} {m : Cfg} (h : HeapOK c m) :
    HeapOK { c with next := c.next + 1 } { m with ρ := m.ρ.set "_dvc" (toString (c.next + 1)) } := by
  refine ⟨?_, h.heap, fun j hj => h.fresh j (by show c.next < j; have : c.next + 1 < j := hj; omega)⟩
  show (m.ρ.set "_dvc" _) "_dvc" = dvcStr (c.next + 1)
  have e : dvcStr (c.next + 1) = toString (c.next + 1) := by simp [dvcStr]
  rw [e]
  exact Sem.set_same _ _ _

theorem AgreeF.heap_write {ctx : Ctx} {c : SCfg} {m : Cfg} (h : AgreeF ctx c m) (id : Nat) (hid : id ≤ c.next) (l : List Val) :
    AgreeF ctx { c with heap := hset c.heap id l } { m with arr := aset m.arr (sliceName id) (l.map Val.render) } :=
  ⟨h.inFn, h.out, h.glob, h.loc, h.hp.write id hid l⟩

theorem AgreeF.bump {ctx : Ctx} {c : SCfg} {m : Cfg} (h : AgreeF ctx c m) :
    AgreeF ctx { c with next := c.next + 1 } { m with ρ := m.ρ.set "_dvc" (toString (c.next + 1)) } := by
  refine ⟨h.inFn, h.out, ?_, ?_, h.hp.bump⟩
  · intro x v hx
    obtain ⟨hg, hv⟩ := h.glob x v hx
    refine ⟨hg, ?_⟩
    show (m.ρ.set "_dvc" (toString (c.next + 1))) x = v.render
    rw [Sem.set_other _ _ _ _ (fun e => good_ne_special (good2_good hg) (by rw [e]; decide))]; exact hv
  · intro hin x v hx
    obtain ⟨hg, hv⟩ := h.loc hin x v hx
    refine ⟨hg, ?_⟩
    show (m.ρ.set "_dvc" (toString (c.next + 1))) (fnPrefix ctx.k ++ x) = v.render
    rw [Sem.set_other m.ρ "_dvc" (fnPrefix ctx.k ++ x) (toString (c.next + 1)) (fun e => special_ne_prefixed (x := "_dvc") (by decide) _ _ e.symm)]; exact hv

theorem Inv.heap_write {ctx : Ctx} {T : List FEntry} {c : SCfg} {m : Cfg} (h : Inv ctx T c m) (id : Nat) (hid : id ≤ c.next) (l : List Val) :
    Inv ctx T { c with heap := hset c.heap id l } { m with arr := aset m.arr (sliceName id) (l.map Val.render) } :=
  ⟨h.agree.heap_write id hid l, h.tables⟩

theorem Inv.bump {ctx : Ctx} {T : List FEntry} {c : SCfg} {m : Cfg} (h : Inv ctx T c m) :
    Inv ctx T { c with next := c.next + 1 } { m with ρ := m.ρ.set "_dvc" (toString (c.next + 1)) } :=
  ⟨h.agree.bump, h.tables⟩

/-- a global of the helper routines other than the counter may be set freely -/
theorem Inv.set_special {ctx : Ctx} {T : List FEntry} {c : SCfg} {m : Cfg} (h : Inv ctx T c m) {y : String} (hy : isSpecial y = true)
    (hd : y ≠ "_dvc") (w : String) : Inv ctx T c { m with ρ := m.ρ.set y w } :=
  ⟨h.agree.set_other y w (fun x g hg => ctx.mg_ne_special x g hg hy) hd, h.tables⟩

theorem KeepE.set_special (ctx : Ctx) (B lo : Nat) (m : Cfg) {y : String} (hy : isSpecial y = true) (w : String) :
    KeepE ctx B lo m { m with ρ := m.ρ.set y w } :=
  ⟨fun i _ => Sem.set_other _ _ _ _ (ctx.hn_ne_special i hy),
   fun i => Sem.set_other _ _ _ _ (ctx.tn_ne_special i hy),
   fun n _ => Sem.set_other _ _ _ _ (fun e => special_ne_flag hy n e.symm)⟩

theorem KeepE.set_arr (ctx : Ctx) (B lo : Nat) (m : Cfg) (a : String → List String) : KeepE ctx B lo m { m with arr := a } :=
  ⟨fun _ _ => rfl, fun _ => rfl, fun _ _ => rfl⟩

/-! ### a sequence of operands, all with the same fuel (the shape of the new cases of `evalE`) -/

def evalSeq : Nat → List Expr → SCfg → Option (R (List Opd))
  | _, [], c => some (.ok [] c)
  | f, e :: rest, c =>
      match evalE f e c with
      | some (.ok [o] c1) =>
          match evalSeq f rest c1 with
          | some (.ok os c2) => some (.ok (o :: os) c2)
          | some (.exit k c2) => some (.exit k c2)
          | none => none
      | some (.exit k c1) => some (.exit k c1)
      | _ => none

theorem esim_seq_nil (ctx : Ctx) (T : List FEntry) (B lo : Nat) : ESim ctx T B (fun f c => evalSeq f [] c) [] lo 0 [] := by
  refine esim_leaf ctx T B _ _ _ ?_
  intro fuel c res hs
  simp only [evalSeq, Option.some.injEq] at hs
  exact ⟨[], hs.symm, fun _ => trivial⟩

theorem src_seq_cons {fuel : Nat} {e : Expr} {rest : List Expr} {c : SCfg} {res : R (List Opd)}
    (h : evalSeq fuel (e :: rest) c = some res) :
    (∃ k c1, evalE fuel e c = some (.exit k c1) ∧ res = .exit k c1) ∨
    (∃ o c1, evalE fuel e c = some (.ok [o] c1) ∧
      ((∃ k c2, evalSeq fuel rest c1 = some (.exit k c2) ∧ res = .exit k c2) ∨
       (∃ os c2, evalSeq fuel rest c1 = some (.ok os c2) ∧ res = .ok (o :: os) c2))) := by
  simp only [evalSeq] at h
  split at h
  · rename_i o c1 he
    refine Or.inr ⟨o, c1, he, ?_⟩
    split at h
    · rename_i os c2 hr
      simp only [Option.some.injEq] at h
      exact Or.inr ⟨os, c2, hr, h.symm⟩
    · rename_i k c2 hr
      simp only [Option.some.injEq] at h
      exact Or.inl ⟨k, c2, hr, h.symm⟩
    · simp at h
  · rename_i k c1 he
    simp only [Option.some.injEq] at h
    exact Or.inl ⟨k, c1, he, h.symm⟩
  · simp at h

theorem esim_seq_cons {ctx : Ctx} {T : List FEntry} {B : Nat} {e : Expr} {rest : List Expr} {newE newR : List Line} {lo nE nR : Nat}
    {t : String} {ts : List String}
    (he : ESim ctx T B (single (fun f c => evalE f e c)) newE lo nE [t])
    (hr : ESim ctx T B (fun f c => evalSeq f rest c) newR (lo + nE) nR ts) :
    ESim ctx T B (fun f c => evalSeq f (e :: rest) c) (newR ++ newE) lo (nE + nR) (t :: ts) := by
  refine ⟨hr.lines.append he.lines, ?_⟩
  intro fuel c res hs m hi
  rcases src_seq_cons hs with ⟨k, c1, h1, rfl⟩ | ⟨o, c1, h1, hrest⟩
  · obtain ⟨m1, ex, ho⟩ := he.run fuel c _ (single_exit h1) m hi
    refine ⟨m1, ?_, ho⟩
    rw [map_reverse_append]
    exact execCmds_stop_append _ ex (by simp)
  · obtain ⟨m1, ex1, hi1, hc1, hk1, hh1⟩ := he.run fuel c _ (single_ok h1) m hi
    rcases hrest with ⟨k, c2, h2, rfl⟩ | ⟨os, c2, h2, rfl⟩
    · obtain ⟨m2, ex2, ho⟩ := hr.run fuel c1 _ h2 m1 hi1
      refine ⟨m2, ?_, ho⟩
      rw [map_reverse_append]
      exact execCmds_append ex1 ex2
    · obtain ⟨m2, ex2, hi2, hc2, hk2, hh2⟩ := hr.run fuel c1 _ h2 m1 hi1
      refine ⟨m2, ?_, hi2, hc1.trans hc2, hk1.trans hk2 (by omega), fun _ => ?_⟩
      · rw [map_reverse_append]
        exact execCmds_append ex1 ex2
      · have e3 : lo + (nE + nR) = lo + nE + nR := by omega
        rw [e3]
        exact ⟨(hh1 rfl).1.mono (by omega) (fun j hj => hk2.helpers j hj), hh2 rfl⟩

/-- operands, then the lines `post` (latest first) of the operation itself -/
theorem esim_then {ctx : Ctx} {T : List FEntry} {B : Nat} {srcX src : Nat → SCfg → Option (R (List Opd))} {newX post : List Line}
    {lo nX k : Nat} {ts : List String} {t : String}
    (hx : ESim ctx T B srcX newX lo nX ts) (hpost : LinesOK ctx 0 (tnames T) post)
    (hsrc : ∀ fuel c res, src fuel c = some res →
      (∃ f j c1, srcX f c = some (.exit j c1) ∧ res = .exit j c1) ∨
      (∃ f os c1 o c2, srcX f c = some (.ok os c1) ∧ res = .ok [o] c2 ∧
        ∀ m1, Inv ctx T c1 m1 → HoldsAllF ctx ts os (lo + nX) m1.ρ →
          ∃ m2, ExecCmds (post.reverse.map Cmd.simple) m1 .normal m2 ∧ Inv ctx T c2 m2 ∧ Ctl m1 m2 ∧ KeepE ctx B (lo + nX) m1 m2 ∧
            HoldsF ctx t o (lo + nX + k) m2.ρ)) :
    ESim ctx T B src (post ++ newX) lo (nX + k) [t] := by
  refine ⟨hpost.append hx.lines, ?_⟩
  intro fuel c res hs m hi
  rcases hsrc fuel c res hs with ⟨f, j, c1, hx1, rfl⟩ | ⟨f, os, c1, o, c2, hx1, rfl, hstep⟩
  · obtain ⟨m1, ex, ho⟩ := hx.run f c _ hx1 m hi
    refine ⟨m1, ?_, ho⟩
    rw [map_reverse_append]
    exact execCmds_stop_append _ ex (by simp)
  · obtain ⟨m1, ex1, hi1, hc1, hk1, hh1⟩ := hx.run f c _ hx1 m hi
    obtain ⟨m2, ex2, hi2, hc2, hk2, hh2⟩ := hstep m1 hi1 (hh1 rfl)
    refine ⟨m2, ?_, hi2, hc1.trans hc2, hk1.trans hk2 (by omega), fun _ => ⟨?_, trivial⟩⟩
    · rw [map_reverse_append]
      exact execCmds_append ex1 ex2
    · have e3 : lo + (nX + k) = lo + nX + k := by omega
      rw [e3]; exact hh2

/-! ### what the converter operations emit -/

theorem sliceEvaluation_specF (name index : String) (s : St) :
    sliceEvaluation name index s = .ok ("${" ++ (ctxOf s).hn s.varCounter ++ "}",
      adv s [.sliceLoad ((ctxOf s).hn s.varCounter) name index] 1) := by
  simp only [sliceEvaluation, bind, nextHelperVar, varEvaluation, Tr.get, addLine, Tr.modify, pure,
    varEvalString, varName_upd, varName_upd1, adv]
  rfl

theorem sliceLen_specF (name : String) (s : St) :
    sliceLen name s = .ok ("${" ++ (ctxOf s).hn s.varCounter ++ "}",
      adv s [.assignSliceLen ((ctxOf s).hn s.varCounter) name] 1) := by
  simp only [sliceLen, bind, nextHelperVar, varAssignSliceLen, varEvaluation, Tr.get, addLine, Tr.modify, pure,
    varEvalString, varName_upd, varName_upd1, adv]
  rfl

theorem stringLen_specF (v : String) (s : St) :
    stringLen v s = .ok ("${" ++ (ctxOf s).hn s.varCounter ++ "}",
      adv s [.assignStrLen ((ctxOf s).hn s.varCounter) ((ctxOf s).hn s.varCounter), .assign ((ctxOf s).hn s.varCounter) v] 1) := by
  simp only [stringLen, bind, nextHelperVar, varAssignment, varAssignStrLen, varEvaluation, Tr.get, addLine, Tr.modify, pure,
    varEvalString, varName_upd, varName_upd1, adv]
  rfl

theorem stringSubscript_specF (v a b : String) (s : St) :
    stringSubscript v a b s = .ok ("${" ++ (ctxOf s).hn s.varCounter ++ "}",
      reqSt (adv s [.assign ((ctxOf s).hn s.varCounter) "${_ret}", .ssh v a b] 1) ⟨false, false, true⟩) := by
  simp only [stringSubscript, bind, nextHelperVar, varAssignment, Tr.get, addLine, Tr.modify, pure,
    varEvalString, varName_upd, varName_upd1, adv, reqSt, varName, Bool.not_true, Bool.and_false, Bool.false_eq_true, if_false,
    Bool.or_false, Bool.or_true]
  rfl

theorem copyOp_specF (dst src : String) (g : Bool) (s : St) :
    copyOp dst src g s = .ok ("${" ++ (ctxOf s).hn s.varCounter ++ "}",
      reqSt (adv s [.assignSliceLen ((ctxOf s).hn s.varCounter) src, .sch ((ctxOf s).mg dst g) src] 1) ⟨true, true, false⟩) := by
  simp only [copyOp, bind, nextHelperVar, varAssignSliceLen, Tr.get, addLine, Tr.modify, pure,
    varEvalString, varName_upd, varName_upd1, adv, reqSt, Bool.or_false, Bool.or_true, varName_ctx]
  rfl

/-- the element lines of a slice literal -/
def sahInitLines (arr : String) : List String → Nat → List Line
  | [], _ => []
  | v :: rest, i => .sahInit arr i v :: sahInitLines arr rest (i + 1)

theorem sahInits_run (arr : String) : ∀ (vals : List String) (i : Nat) (s : St),
    sahInits arr vals i s = .ok ((), reqSt { s with code := (sahInitLines arr vals i).reverse ++ s.code } ⟨!vals.isEmpty, false, false⟩)
  | [], i, s => by
    simp only [sahInits, pure, sahInitLines, List.reverse_nil, List.nil_append, List.isEmpty_nil, Bool.not_true]
    rw [show ({ s with code := s.code } : St) = s from rfl]
    exact congrArg (fun x => Res.ok ((), x)) (reqSt_none s).symm
  | v :: rest, i, s => by
    simp only [sahInits, bind, Tr.modify, addLine]
    rw [sahInits_run arr rest (i + 1)]
    simp only [sahInitLines, List.reverse_cons, List.append_assoc, List.singleton_append, reqSt, Bool.true_or, Bool.or_true, Bool.or_false,
      List.isEmpty_cons, Bool.not_false]

theorem sliceInstantiation_specF (values : List String) (s : St) :
    sliceInstantiation values s = .ok ("${" ++ (ctxOf s).hn s.varCounter ++ "}",
      reqSt (adv s ((sahInitLines ("${" ++ (ctxOf s).hn s.varCounter ++ "}") values 0).reverse ++
        [.assign ((ctxOf s).hn s.varCounter) ("_dv" ++ "${_dvc}"), .dvcIncr]) 1) ⟨!values.isEmpty, false, false⟩) := by
  simp only [sliceInstantiation, bind, nextHelperVar, varAssignment, Tr.get, addLine, Tr.modify, pure,
    varEvalString, varName_upd, varName_upd1, sahInits_run]
  simp only [adv, reqSt, varName, Bool.not_true, Bool.and_false, Bool.false_eq_true, if_false, List.append_assoc, List.cons_append, List.nil_append]
  rfl

/-! ### what the lines of each operation do -/

theorem toString_natCast (n : Nat) : toString ((n : Nat) : Int) = toString n := rfl

theorem exec_two {l1 l2 : Line} {m m1 m2 : Cfg} (h1c : isCall l1 = false) (h2c : isCall l2 = false)
    (h1 : stepSimple l1 m = some (.normal, m1)) (h2 : stepSimple l2 m1 = some (.normal, m2)) :
    ExecCmds ([l2, l1].reverse.map Cmd.simple) m .normal m2 :=
  execCmds_append (execCmds_step h1c h1) (execCmds_step h2c h2)

/-- `len` of a string: the value goes into the helper, then the helper is overwritten with its own length -/
theorem len_str_post {ctx : Ctx} {T : List FEntry} {B n : Nat} {c1 : SCfg} {m1 : Cfg} {tx : String} {a : Opd} {s : String}
    (hi : Inv ctx T c1 m1) (hh : HoldsF ctx tx a n m1.ρ) (hres : resolve c1 a = some (.str s)) :
    ∃ m2, ExecCmds ([Line.assignStrLen (ctx.hn n) (ctx.hn n), .assign (ctx.hn n) tx].reverse.map Cmd.simple) m1 .normal m2 ∧
      Inv ctx T c1 m2 ∧ Ctl m1 m2 ∧ KeepE ctx B n m1 m2 ∧
      HoldsF ctx ("${" ++ ctx.hn n ++ "}") (.lit (.int s.length)) (n + 1) m2.ρ := by
  have st1 := step2_assign m1 (ctx.hn n) (hh.expand hi.agree hres)
  refine ⟨_, exec_two rfl rfl st1 rfl, (hi.set_hn _ _).set_hn _ _, ⟨rfl, rfl, rfl⟩,
    (KeepE.set_helper ctx B n n m1 _ (Nat.le_refl _)).trans (KeepE.set_helper ctx B n n _ _ (Nat.le_refl _)) (Nat.le_refl _), ?_⟩
  refine holdsF_helper ctx n (.int s.length) _ ?_
  show (Store.set _ (ctx.hn n) _) (ctx.hn n) = _
  rw [Sem.set_same]
  show toString ((m1.ρ.set (ctx.hn n) (Val.str s).render) (ctx.hn n)).length = _
  rw [Sem.set_same]
  rfl

/-- `len` of a slice: one line -/
theorem len_slice_step {ctx : Ctx} {n : Nat} {c1 : SCfg} {m1 : Cfg} {tx : String} {a : Opd} {id : Nat}
    (ha : AgreeF ctx c1 m1) (hh : HoldsF ctx tx a n m1.ρ) (hres : resolve c1 a = some (.slice id)) (hname : String) :
    stepSimple (.assignSliceLen hname tx) m1 =
      some (.normal, { m1 with ρ := m1.ρ.set hname (Val.int (c1.heap id).length).render }) := by
  simp only [stepSimple, hh.expand ha hres]
  show some (Out.normal, { m1 with ρ := m1.ρ.set hname (toString (m1.arr (sliceName id)).length) }) = _
  rw [ha.hp.heap id, List.length_map]
  rfl

/-- an element of a slice -/
def idxOpf (c2 : SCfg) (a b : Opd) : Option Val :=
  match resolve c2 a, resolve c2 b with
  | some (.slice id), some (.int k) => (natOf k).bind (fun i => (c2.heap id)[i]?)
  | _, _ => none

theorem idx_step {ctx : Ctx} {n : Nat} {c2 : SCfg} {m2 : Cfg} {tv ti : String} {a b : Opd} {w : Val}
    (hop : idxOpf c2 a b = some w) (ha : AgreeF ctx c2 m2) (h1 : HoldsF ctx tv a n m2.ρ) (h2 : HoldsF ctx ti b n m2.ρ) (hname : String) :
    stepSimple (.sliceLoad hname tv ti) m2 = some (.normal, { m2 with ρ := m2.ρ.set hname w.render }) := by
  simp only [idxOpf] at hop
  split at hop
  · rename_i id k hva hvb
    cases hk : natOf k with
    | none => simp [hk] at hop
    | some i =>
      simp only [hk, Option.bind] at hop
      simp only [stepSimple, h1.expand ha hva, h2.expandInt ha hvb, Option.bind, hk]
      show some (Out.normal, { m2 with ρ := m2.ρ.set hname ((m2.arr (sliceName id)).getD i "") }) = _
      rw [ha.hp.heap id]
      have : ((c2.heap id).map Val.render).getD i "" = w.render := by
        rw [List.getD_eq_getElem?_getD, List.getElem?_map, hop]; rfl
      rw [this]
  · simp at hop

theorem wrap64_inRange {n : Int} (h : Sem.Src.inRange n = true) : wrap64 n = n := by
  simp only [Sem.Src.inRange, Bool.and_eq_true, decide_eq_true_eq] at h
  unfold wrap64
  rw [Int.emod_eq_of_lt (by omega) (by omega)]
  omega

/-- operands do not depend on the storage of slices -/
theorem resolve_congr {c c' : SCfg} (h : ∀ x, readVar c' x = readVar c x) : ∀ o, resolve c' o = resolve c o
  | .lit _ => rfl
  | .var x => h x
  | .itoa o => by simp only [resolve, resolve_congr h o]

theorem resolveAll_congr {c c' : SCfg} (h : ∀ x, readVar c' x = readVar c x) : ∀ os, resolveAll c' os = resolveAll c os
  | [] => rfl
  | o :: os => by simp only [resolveAll, resolve_congr h o, resolveAll_congr h os]

theorem copyInto_map {α β : Type} (f : α → β) (a b : List α) : copyInto (a.map f) (b.map f) = (copyInto a b).map f := by
  simp [copyInto, List.map_drop]

theorem copyInto_self_length {α : Type} (a b : List α) (sid did : Nat) (h : Nat → List α) (ha : h sid = a) (hb : h did = b) :
    ((if sid = did then copyInto a b else h sid)).length = a.length := by
  split
  · rename_i e
    subst e
    rw [ha] at hb; subst hb
    simp [copyInto]
  · rw [ha]

/-- a substring: `_ssh`, then the copy of `_ret` into the helper -/
theorem substr_post {ctx : Ctx} {T : List FEntry} {B n : Nat} {c : SCfg} {m : Cfg} {tv ta tb : String} {v a b : Opd} {s : String} {i j : Int}
    {ls ll : Nat} (hi : Inv ctx T c m) (hv : HoldsF ctx tv v n m.ρ) (ha : HoldsF ctx ta a n m.ρ) (hb : HoldsF ctx tb b n m.ρ)
    (rv : resolve c v = some (.str s)) (ra : resolve c a = some (.int i)) (rb : resolve c b = some (.int j))
    (hls : natOf i = some ls) (hll : natOf (j - i + 1) = some ll) :
    ∃ m2, ExecCmds ([Line.assign (ctx.hn n) "${_ret}", .ssh tv ta tb].reverse.map Cmd.simple) m .normal m2 ∧
      Inv ctx T c m2 ∧ Ctl m m2 ∧ KeepE ctx B n m m2 ∧
      HoldsF ctx ("${" ++ ctx.hn n ++ "}") (.lit (.str (substrOf s ls ll))) (n + 1) m2.ρ := by
  have st1 : stepSimple (.ssh tv ta tb) m = some (.normal,
      { m with ρ := ((m.ρ.set "_ls" (toString ls)).set "_ll" (toString ll)).set "_ret" (substrOf s ls ll) }) := by
    simp only [stepSimple, hv.expand hi.agree rv, ha.expandInt hi.agree ra, hb.expandInt hi.agree rb, hls, hll]
    rfl
  have hret : Sem.expand (((m.ρ.set "_ls" (toString ls)).set "_ll" (toString ll)).set "_ret" (substrOf s ls ll)) "${_ret}" = some (substrOf s ls ll) := by
    have := (complete_var (((m.ρ.set "_ls" (toString ls)).set "_ll" (toString ll)).set "_ret" (substrOf s ls ll)) "_ret" (by decide)).toExpand
    have e : ("${" ++ "_ret" ++ "}" : String) = "${_ret}" := by decide
    rw [e] at this
    rw [this, Sem.set_same]
  have st2 := step2_assign { m with ρ := ((m.ρ.set "_ls" (toString ls)).set "_ll" (toString ll)).set "_ret" (substrOf s ls ll) } (ctx.hn n) hret
  have hi1 := ((hi.set_special (y := "_ls") (by decide) (by decide) (toString ls)).set_special (y := "_ll") (by decide) (by decide) (toString ll)).set_special
    (y := "_ret") (by decide) (by decide) (substrOf s ls ll)
  refine ⟨_, exec_two rfl rfl st1 st2, hi1.set_hn _ _, ⟨rfl, rfl, rfl⟩, ?_, ?_⟩
  · have k1 := KeepE.set_special ctx B n m (y := "_ls") (by decide) (toString ls)
    have k2 := KeepE.set_special ctx B n { m with ρ := m.ρ.set "_ls" (toString ls) } (y := "_ll") (by decide) (toString ll)
    have k3 := KeepE.set_special ctx B n { m with ρ := (m.ρ.set "_ls" (toString ls)).set "_ll" (toString ll) } (y := "_ret") (by decide) (substrOf s ls ll)
    have k4 := KeepE.set_helper ctx B n n { m with ρ := ((m.ρ.set "_ls" (toString ls)).set "_ll" (toString ll)).set "_ret" (substrOf s ls ll) }
      (substrOf s ls ll) (Nat.le_refl _)
    exact ((k1.trans k2 (Nat.le_refl _)).trans k3 (Nat.le_refl _)).trans k4 (Nat.le_refl _)
  · exact holdsF_helper ctx n (.str (substrOf s ls ll)) _ (Sem.set_same _ _ _)

/-- `copy(dst, src)`: `_sch`, then the length of the source -/
theorem copy_post {ctx : Ctx} {T : List FEntry} {B n : Nat} {c1 : SCfg} {m1 : Cfg} {tsrc : String} {a : Opd} {dst : Var} {sid did : Nat}
    (hi : Inv ctx T c1 m1) (hh : HoldsF ctx tsrc a n m1.ρ) (hres : resolve c1 a = some (.slice sid))
    (hdst : readVar c1 dst = some (.slice did)) (hdid : did ≤ c1.next) :
    ∃ m2, ExecCmds ([Line.assignSliceLen (ctx.hn n) tsrc, .sch (ctx.mg dst.name dst.global) tsrc].reverse.map Cmd.simple) m1 .normal m2 ∧
      Inv ctx T { c1 with heap := hset c1.heap did (copyInto (c1.heap sid) (c1.heap did)) } m2 ∧ Ctl m1 m2 ∧ KeepE ctx B n m1 m2 ∧
      HoldsF ctx ("${" ++ ctx.hn n ++ "}") (.lit (.int (c1.heap sid).length)) (n + 1) m2.ρ := by
  have hd := (hi.agree.read hdst).2
  have st1 : stepSimple (.sch (ctx.mg dst.name dst.global) tsrc) m1 = some (.normal,
      { m1 with arr := aset m1.arr (sliceName did) ((copyInto (c1.heap sid) (c1.heap did)).map Val.render) }) := by
    simp only [stepSimple, hh.expand hi.agree hres, hd]
    show some (Out.normal, { m1 with arr := aset m1.arr (sliceName did) (copyInto (m1.arr (sliceName sid)) (m1.arr (sliceName did))) }) = _
    rw [hi.agree.hp.heap sid, hi.agree.hp.heap did, copyInto_map]
  have hi1 := hi.heap_write did hdid (copyInto (c1.heap sid) (c1.heap did))
  have hres1 : resolve { c1 with heap := hset c1.heap did (copyInto (c1.heap sid) (c1.heap did)) } a = some (.slice sid) := by
    exact (resolve_congr (c := c1) (c' := { c1 with heap := hset c1.heap did (copyInto (c1.heap sid) (c1.heap did)) }) (fun x => rfl) a).trans hres
  have st2 := len_slice_step hi1.agree (m1 := { m1 with arr := aset m1.arr (sliceName did) ((copyInto (c1.heap sid) (c1.heap did)).map Val.render) })
    hh hres1 (ctx.hn n)
  have hlen : (hset c1.heap did (copyInto (c1.heap sid) (c1.heap did)) sid).length = (c1.heap sid).length := by
    simp only [hset]
    split
    · rename_i e; subst e; simp [copyInto]
    · rfl
  refine ⟨_, exec_two rfl rfl st1 st2, hi1.set_hn _ _, ⟨rfl, rfl, rfl⟩, ?_, ?_⟩
  · exact (KeepE.set_arr ctx B n m1 _).trans (KeepE.set_helper ctx B n n _ _ (Nat.le_refl _)) (Nat.le_refl _)
  · refine holdsF_helper ctx n (.int (c1.heap sid).length) _ ?_
    show (Store.set _ (ctx.hn n) _) (ctx.hn n) = _
    rw [Sem.set_same]
    show (Val.int ((hset c1.heap did (copyInto (c1.heap sid) (c1.heap did)) sid).length)).render = _
    rw [hlen]

theorem sahSet_append {α : Type} (l : List α) (v d : α) : sahSet l l.length v d = l ++ [v] := by
  simp [sahSet]

/-- the element lines of a slice literal append the values one by one -/
theorem sahInits_exec {ctx : Ctx} {T : List FEntry} {B n : Nat} (id : Nat) :
    ∀ (ts : List String) (os : List Opd) (vs : List Val) (i : Nat) (c : SCfg) (m : Cfg) (pre : List Val),
      Inv ctx T c m → c.heap id = pre → pre.length = i → id ≤ c.next → m.ρ (ctx.hn n) = sliceName id →
      HoldsAllF ctx ts os n m.ρ → resolveAll c os = some vs →
      ∃ m', ExecCmds ((sahInitLines ("${" ++ ctx.hn n ++ "}") ts i).map Cmd.simple) m .normal m' ∧
        Inv ctx T { c with heap := hset c.heap id (pre ++ vs) } m' ∧ Ctl m m' ∧ KeepE ctx B (n + 1) m m'
  | [], [], vs, i, c, m, pre, hi, hpre, _, hid, _, _, hr => by
    simp only [resolveAll, Option.some.injEq] at hr
    subst hr
    refine ⟨m, by simp [sahInitLines]; exact ExecCmds.nil, ?_, Ctl.refl m, KeepE.refl _ _ _ m⟩
    have e : hset c.heap id (pre ++ []) = c.heap := by
      funext j; simp only [hset, List.append_nil]; split
      · rename_i e; rw [e, hpre]
      · rfl
    rw [e]; exact hi
  | t :: ts, o :: os, vs, i, c, m, pre, hi, hpre, hlen, hid, hname, hh, hr => by
    simp only [resolveAll] at hr
    split at hr
    · rename_i v vs' hv hvs
      simp only [Option.some.injEq] at hr
      subst hr
      have hexp : Sem.expand m.ρ ("${" ++ ctx.hn n ++ "}") = some (sliceName id) := by
        rw [(complete_var m.ρ (ctx.hn n) (ctx.hn_valid n)).toExpand, hname]
      have harr : m.arr (sliceName id) = pre.map Val.render := by rw [hi.agree.hp.heap id, hpre]
      have st : stepSimple (.sahInit ("${" ++ ctx.hn n ++ "}") i t) m = some (.normal,
          { m with ρ := m.ρ.set "_c" (toString (max (m.arr (sliceName id)).length i)),
                   arr := aset m.arr (sliceName id) ((pre ++ [v]).map Val.render) }) := by
        simp only [stepSimple, hexp, hh.1.expand hi.agree hv]
        have : sahSet (m.arr (sliceName id)) i v.render "" = (pre ++ [v]).map Val.render := by
          rw [harr, ← hlen, ← List.length_map (f := Val.render), sahSet_append]; simp
        rw [this]
      let c' : SCfg := { c with heap := hset c.heap id (pre ++ [v]) }
      have hi' : Inv ctx T c' ({ m with ρ := m.ρ.set "_c" (toString (max (m.arr (sliceName id)).length i)),
                                         arr := aset m.arr (sliceName id) ((pre ++ [v]).map Val.render) } : Cfg) :=
        (hi.heap_write id hid (pre ++ [v])).set_special (y := "_c") (by decide) (by decide) _
      have hh' : HoldsAllF ctx ts os n (m.ρ.set "_c" (toString (max (m.arr (sliceName id)).length i))) :=
        HoldsAllF.mono hh.2 (Nat.le_refl _) (fun j _ => Sem.set_other _ _ _ _ (ctx.hn_ne_special j (by decide)))
      obtain ⟨m', ex, hi2, hc2, hk2⟩ := sahInits_exec id ts os vs' (i + 1) c' _ (pre ++ [v]) hi' (by simp [c', hset]) (by simp [hlen]) hid
        (by show (m.ρ.set "_c" _) (ctx.hn n) = _; rw [Sem.set_other _ _ _ _ (ctx.hn_ne_special n (by decide))]; exact hname)
        hh' (by rw [resolveAll_congr (c := c) (c' := c') (fun x => rfl)]; exact hvs)
      refine ⟨m', ?_, ?_, ?_, ?_⟩
      · simp only [sahInitLines, List.map_cons]
        exact ExecCmds.cons (ExecCmd.simple rfl st) ex
      · have e : hset c'.heap id (pre ++ [v] ++ vs') = hset c.heap id (pre ++ v :: vs') := by
          simp only [c', hset_hset, List.append_assoc, List.singleton_append]
        have : ({ c' with heap := hset c'.heap id (pre ++ [v] ++ vs') } : SCfg) = { c with heap := hset c.heap id (pre ++ v :: vs') } := by
          simp only [c', e]
        rw [← this]; exact hi2
      · exact ⟨hc2.1, hc2.2.1, hc2.2.2⟩
      · have k1 := KeepE.set_special ctx B (n + 1) m (y := "_c") (by decide) (toString (max (m.arr (sliceName id)).length i))
        have k2 := KeepE.set_arr ctx B (n + 1) { m with ρ := m.ρ.set "_c" (toString (max (m.arr (sliceName id)).length i)) }
          (aset m.arr (sliceName id) ((pre ++ [v]).map Val.render))
        exact (k1.trans k2 (Nat.le_refl _)).trans hk2 (Nat.le_refl _)
    · simp at hr
  | [], _ :: _, _, _, _, _, _, _, _, _, _, _, hh, _ => hh.elim
  | _ :: _, [], _, _, _, _, _, _, _, _, _, _, hh, _ => hh.elim

theorem nat_toString_ne_empty (n : Nat) : toString n ≠ "" := by
  intro e
  have h : (toString n).toList = [] := by rw [e]; rfl
  exact nat_repr_ne_nil n h

theorem dvcIncr_step {c : SCfg} {m : Cfg} (hd : m.ρ "_dvc" = dvcStr c.next) (hr : Sem.Src.inRange ((c.next + 1 : Nat) : Int) = true) :
    stepSimple .dvcIncr m = some (.normal, { m with ρ := m.ρ.set "_dvc" (toString (c.next + 1)) }) := by
  have h0 : (if m.ρ "_dvc" = "" then some 0 else asInt (m.ρ "_dvc")) = some (c.next : Int) := by
    rw [hd]
    by_cases hz : c.next = 0
    · simp [dvcStr, hz]
    · have : dvcStr c.next = toString c.next := by simp [dvcStr, hz]
      rw [this, if_neg (nat_toString_ne_empty _)]
      exact asInt_toString (c.next : Int)
  simp only [stepSimple, h0]
  have e : ((c.next : Int) + 1) = ((c.next + 1 : Nat) : Int) := by omega
  rw [e, wrap64_inRange hr]
  rfl

theorem dv_text (ρ : Store) : Sem.expand ρ ("_dv" ++ "${_dvc}") = some ("_dv" ++ ρ "_dvc") := by
  have h1 : Complete ρ "_dv".toList "_dv".toList := complete_plain ρ _ (by decide)
  have h2 := complete_var ρ "_dvc" (by decide)
  have e : ("${" ++ "_dvc" ++ "}" : String) = "${_dvc}" := by decide
  rw [e] at h2
  have := (h1.append h2)
  rw [← String.toList_append, ← String.toList_append] at this
  exact this.toExpand

/-- a slice literal: the counter, the name of the new array in the helper, the elements -/
theorem sliceNew_post {ctx : Ctx} {T : List FEntry} {B n : Nat} {c1 : SCfg} {m1 : Cfg} {ts : List String} {os : List Opd} {vs : List Val}
    (hi : Inv ctx T c1 m1) (hh : HoldsAllF ctx ts os n m1.ρ) (hr : resolveAll c1 os = some vs)
    (hrange : Sem.Src.inRange ((c1.next + 1 : Nat) : Int) = true) :
    ∃ m2, ExecCmds (((sahInitLines ("${" ++ ctx.hn n ++ "}") ts 0).reverse ++
        [Line.assign (ctx.hn n) ("_dv" ++ "${_dvc}"), .dvcIncr]).reverse.map Cmd.simple) m1 .normal m2 ∧
      Inv ctx T { c1 with heap := hset c1.heap (c1.next + 1) vs, next := c1.next + 1 } m2 ∧ Ctl m1 m2 ∧ KeepE ctx B n m1 m2 ∧
      HoldsF ctx ("${" ++ ctx.hn n ++ "}") (.lit (.slice (c1.next + 1))) (n + 1) m2.ρ := by
  have st1 := dvcIncr_step hi.agree.hp.dvc hrange
  have hi1 := hi.bump
  have hexp : Sem.expand (m1.ρ.set "_dvc" (toString (c1.next + 1))) ("_dv" ++ "${_dvc}") = some (sliceName (c1.next + 1)) := by
    rw [dv_text, Sem.set_same]; rfl
  have st2 := step2_assign { m1 with ρ := m1.ρ.set "_dvc" (toString (c1.next + 1)) } (ctx.hn n) hexp
  have hi2 := hi1.set_hn n (sliceName (c1.next + 1))
  have hh2 : HoldsAllF ctx ts os n ((m1.ρ.set "_dvc" (toString (c1.next + 1))).set (ctx.hn n) (sliceName (c1.next + 1))) :=
    HoldsAllF.mono hh (Nat.le_refl _) (fun j hj => by
      rw [Sem.set_other _ _ _ _ (fun e => by have := ctx.hn_inj e; omega), Sem.set_other _ _ _ _ (ctx.hn_ne_special j (by decide))])
  obtain ⟨m2, ex, hi3, hc3, hk3⟩ := sahInits_exec (B := B) (n := n) (c1.next + 1) ts os vs 0 { c1 with next := c1.next + 1 } _ [] hi2
    (hi.agree.hp.fresh _ (Nat.lt_succ_self _)) rfl (Nat.le_refl _) (Sem.set_same _ _ _) hh2
    (by rw [resolveAll_congr (c := c1) (c' := { c1 with next := c1.next + 1 }) (fun x => rfl)]; exact hr)
  refine ⟨m2, ?_, ?_, ⟨hc3.1, hc3.2.1, hc3.2.2⟩, ?_, ?_⟩
  · have shape : ((sahInitLines ("${" ++ ctx.hn n ++ "}") ts 0).reverse ++ [Line.assign (ctx.hn n) ("_dv" ++ "${_dvc}"), .dvcIncr]).reverse.map Cmd.simple =
        Cmd.simple .dvcIncr :: Cmd.simple (.assign (ctx.hn n) ("_dv" ++ "${_dvc}")) :: (sahInitLines ("${" ++ ctx.hn n ++ "}") ts 0).map Cmd.simple := by simp
    rw [shape]
    exact ExecCmds.cons (ExecCmd.simple rfl st1) (ExecCmds.cons (ExecCmd.simple rfl st2) ex)
  · simpa using hi3
  · have k1 := KeepE.set_special ctx B n m1 (y := "_dvc") (by decide) (toString (c1.next + 1))
    have k2 := KeepE.set_helper ctx B n n { m1 with ρ := m1.ρ.set "_dvc" (toString (c1.next + 1)) } (sliceName (c1.next + 1)) (Nat.le_refl _)
    exact (k1.trans k2 (Nat.le_refl _)).trans hk3 (Nat.le_succ _)
  · refine holdsF_helper ctx n (.slice (c1.next + 1)) _ ?_
    rw [hk3.helpers n (Nat.lt_succ_self _)]
    exact Sem.set_same _ _ _

/-! ### static facts about the new lines -/

/-- a line that assigns one global of the helper routines -/
theorem sline_special1 (ctx : Ctx) (hi : Nat) (ds : List String) (l : Line) {y : String} (hy : isSpecial y = true) (h1 : lineTargets l = [y])
    (h2 : isCall l = false) (h3 : isDefLine l = false := by rfl) : SLine ctx hi ds l :=
  ⟨fun x hx => by rw [h1] at hx; simp at hx; subst hx; exact Or.inr (Or.inr (Or.inr (Or.inr (Or.inr hy)))),
   fun name args e => by subst e; simp [isCall] at h2, h3⟩

theorem sline_special3 (ctx : Ctx) (hi : Nat) (ds : List String) (v a b : String) : SLine ctx hi ds (.ssh v a b) :=
  ⟨fun x hx => by
      simp only [lineTargets, List.mem_cons, List.mem_nil_iff, or_false] at hx
      refine Or.inr (Or.inr (Or.inr (Or.inr (Or.inr ?_))))
      rcases hx with rfl | rfl | rfl <;> decide,
   fun name args e => (by cases e), rfl⟩

theorem sahInitLines_ok (ctx : Ctx) (hi : Nat) (ds : List String) (arr : String) : ∀ (vals : List String) (i : Nat),
    LinesOK ctx hi ds (sahInitLines arr vals i)
  | [], _ => LinesOK.nil _ _ _
  | _ :: rest, i => LinesOK.cons (sline_special1 ctx hi ds _ (y := "_c") (by decide) rfl rfl) (sahInitLines_ok ctx hi ds arr rest (i + 1))

/-! ### how the source evaluation of the new nodes decomposes -/

theorem src_len {fuel : Nat} {x : Expr} {c : SCfg} {res : R (List Opd)} (h : evalE fuel (.len x) c = some res) :
    (∃ f k c1, evalE f x c = some (.exit k c1) ∧ res = .exit k c1) ∨
    (∃ f a c1, evalE f x c = some (.ok [a] c1) ∧
      ((∃ s, resolve c1 a = some (.str s) ∧ (Expr.valueType x).isString = true ∧ res = .ok [.lit (.int s.length)] c1) ∨
       (∃ id, resolve c1 a = some (.slice id) ∧ (Expr.valueType x).isString = false ∧ res = .ok [.lit (.int (c1.heap id).length)] c1))) := by
  cases fuel with
  | zero => simp [evalE] at h
  | succ f =>
    simp only [evalE] at h
    split at h
    · rename_i a c1 hx
      refine Or.inr ⟨f, a, c1, hx, ?_⟩
      split at h
      · rename_i s hs
        split at h
        · rename_i ht
          simp only [Option.some.injEq] at h
          exact Or.inl ⟨s, hs, ht, h.symm⟩
        · simp at h
      · rename_i id hs
        split at h
        · simp at h
        · rename_i ht
          simp only [Option.some.injEq] at h
          exact Or.inr ⟨id, hs, by simpa using ht, h.symm⟩
      · simp at h
    · rename_i k c1 hx
      simp only [Option.some.injEq] at h
      exact Or.inl ⟨f, k, c1, hx, h.symm⟩
    · simp at h

theorem src_sliceEval {fuel : Nat} {value index : Expr} {dt : DataType} {c : SCfg} {res : R (List Opd)}
    (h : evalE fuel (.sliceEval value index dt) c = some res) : TwoRes value index idxOpf c res := by
  cases fuel with
  | zero => simp [evalE] at h
  | succ f =>
    simp only [evalE] at h
    split at h
    · rename_i a c1 hl
      refine Or.inr ⟨f, a, c1, hl, ?_⟩
      split at h
      · rename_i b c2 hr
        split at h
        · rename_i id k hva hvb
          split at h
          · rename_i i hi
            split at h
            · rename_i v hv
              simp only [Option.some.injEq] at h
              exact Or.inr ⟨f, b, c2, v, hr, by simp [idxOpf, hva, hvb, hi, hv], h.symm⟩
            · simp at h
          · simp at h
        · simp at h
      · rename_i k c2 hr
        simp only [Option.some.injEq] at h
        exact Or.inl ⟨f, k, c2, hr, h.symm⟩
      · simp at h
    · rename_i k c1 hl
      simp only [Option.some.injEq] at h
      exact Or.inl ⟨f, k, c1, hl, h.symm⟩
    · simp at h

theorem src_substr1 {fuel : Nat} {value start : Expr} {c : SCfg} {res : R (List Opd)}
    (h : evalE fuel (.substr value start none) c = some res) :
    (∃ f k c1, evalSeq f [start, value] c = some (.exit k c1) ∧ res = .exit k c1) ∨
    (∃ f a v c2 i s n, evalSeq f [start, value] c = some (.ok [a, v] c2) ∧ resolve c2 a = some (.int i) ∧ resolve c2 v = some (.str s) ∧
      natOf i = some n ∧ res = .ok [.lit (.str (substrOf s n 1))] c2) := by
  cases fuel with
  | zero => simp [evalE] at h
  | succ f =>
    simp only [evalE] at h
    split at h
    · rename_i a c1 h1
      split at h
      · rename_i v c2 h2
        split at h
        · rename_i i s ha hv
          split at h
          · rename_i n hn
            split at h
            · simp only [Option.some.injEq] at h
              exact Or.inr ⟨f, a, v, c2, i, s, n, by simp [evalSeq, h1, h2], ha, hv, hn, h.symm⟩
            · simp at h
          · simp at h
        · simp at h
      · rename_i k c2 h2
        simp only [Option.some.injEq] at h
        exact Or.inl ⟨f, k, c2, by simp [evalSeq, h1, h2], h.symm⟩
      · simp at h
    · rename_i k c1 h1
      simp only [Option.some.injEq] at h
      exact Or.inl ⟨f, k, c1, by simp [evalSeq, h1], h.symm⟩
    · simp at h

theorem src_substr2 {fuel : Nat} {value start stop : Expr} {c : SCfg} {res : R (List Opd)}
    (h : evalE fuel (.substr value start (some stop)) c = some res) :
    (∃ f k c1, evalSeq f [start, stop, value] c = some (.exit k c1) ∧ res = .exit k c1) ∨
    (∃ f a b v c3 i j s n l, evalSeq f [start, stop, value] c = some (.ok [a, b, v] c3) ∧ resolve c3 a = some (.int i) ∧
      resolve c3 b = some (.int j) ∧ resolve c3 v = some (.str s) ∧ natOf i = some n ∧ natOf (j - i + 1) = some l ∧
      res = .ok [.lit (.str (substrOf s n l))] c3) := by
  cases fuel with
  | zero => simp [evalE] at h
  | succ f =>
    simp only [evalE] at h
    split at h
    · rename_i a c1 h1
      split at h
      · rename_i b c2 h2
        split at h
        · rename_i v c3 h3
          split at h
          · rename_i i j s ha hb hv
            split at h
            · rename_i n l hn hl
              split at h
              · simp only [Option.some.injEq] at h
                exact Or.inr ⟨f, a, b, v, c3, i, j, s, n, l, by simp [evalSeq, h1, h2, h3], ha, hb, hv, hn, hl, h.symm⟩
              · simp at h
            · simp at h
          · simp at h
        · rename_i k c3 h3
          simp only [Option.some.injEq] at h
          exact Or.inl ⟨f, k, c3, by simp [evalSeq, h1, h2, h3], h.symm⟩
        · simp at h
      · rename_i k c2 h2
        simp only [Option.some.injEq] at h
        exact Or.inl ⟨f, k, c2, by simp [evalSeq, h1, h2], h.symm⟩
      · simp at h
    · rename_i k c1 h1
      simp only [Option.some.injEq] at h
      exact Or.inl ⟨f, k, c1, by simp [evalSeq, h1], h.symm⟩
    · simp at h

theorem src_copy {fuel : Nat} {dst : Var} {src : Expr} {c : SCfg} {res : R (List Opd)}
    (h : evalE fuel (.copy dst src) c = some res) :
    (∃ f k c1, evalE f src c = some (.exit k c1) ∧ res = .exit k c1) ∨
    (∃ f a c1 sid did, evalE f src c = some (.ok [a] c1) ∧ resolve c1 a = some (.slice sid) ∧ readVar c1 dst = some (.slice did) ∧
      did ≤ c1.next ∧
      res = .ok [.lit (.int (c1.heap sid).length)] { c1 with heap := hset c1.heap did (copyInto (c1.heap sid) (c1.heap did)) }) := by
  cases fuel with
  | zero => simp [evalE] at h
  | succ f =>
    simp only [evalE] at h
    split at h
    · rename_i a c1 hx
      split at h
      · rename_i sid did hs hd
        split at h
        · rename_i hle
          simp only [Option.some.injEq] at h
          exact Or.inr ⟨f, a, c1, sid, did, hx, hs, hd, hle, h.symm⟩
        · simp at h
      · simp at h
    · rename_i k c1 hx
      simp only [Option.some.injEq] at h
      exact Or.inl ⟨f, k, c1, hx, h.symm⟩
    · simp at h

theorem src_sliceNew {fuel : Nat} {dt : DataType} {vals : List Expr} {c : SCfg} {res : R (List Opd)}
    (h : evalE fuel (.sliceNew dt vals) c = some res) :
    (∃ f k c1, Src.evalArgs f vals c = some (.exit k c1) ∧ res = .exit k c1) ∨
    (∃ f os c1 vs, Src.evalArgs f vals c = some (.ok os c1) ∧ resolveAll c1 os = some vs ∧
      Sem.Src.inRange ((c1.next + 1 : Nat) : Int) = true ∧
      res = .ok [.lit (.slice (c1.next + 1))] { c1 with heap := hset c1.heap (c1.next + 1) vs, next := c1.next + 1 }) := by
  cases fuel with
  | zero => simp [evalE] at h
  | succ f =>
    simp only [evalE] at h
    split at h
    · rename_i os c1 ha
      split at h
      · rename_i vs hv
        split at h
        · rename_i hr
          simp only [Option.some.injEq] at h
          exact Or.inr ⟨f, os, c1, vs, ha, hv, hr, h.symm⟩
        · simp at h
      · simp at h
    · rename_i k c1 ha
      simp only [Option.some.injEq] at h
      exact Or.inl ⟨f, k, c1, ha, h.symm⟩
    · simp at h

end Tsh.Sem2
