/-
  The line interpreter `lrun` is complete for the line-level relation `LRun` (it is sound by `lrun_sound`): with enough
  fuel it finds every outcome the relation allows.  So `LRun` holds exactly where `lrun` answers - the function that is run
  on every script of the scalar fragment in every check IS the semantics the line-level theorem is about.
-/
import TshVerif.Lemmas.SemBLines
namespace Tsh.SemB
open Tsh Tsh.Batch Tsh.Sem

/-- on a line that `stepB` gives a meaning, `lrun` does what the rules `simple` / `exit` say -/
theorem lrun_stepB {whole : List BLine} {f : Nat} {l : BLine} {rest : List BLine} {c : Cfg} {r : Out × Cfg}
    (h : stepB l c = some r) :
    lrun whole (f + 1) (l :: rest) c =
      (match r with
       | (.normal, c1) => lrun whole f rest c1
       | (.exit k, c') => some (.exit k, c')
       | _ => none) := by
  obtain ⟨o, c2⟩ := r
  cases l with
  | label n => simp [stepB] at h
  | clabel n => simp [stepB] at h
  | cgoto n => simp [stepB] at h
  | opn t => simp [stepB] at h
  | close => simp [stepB] at h
  | elseOpen => simp [stepB] at h
  | elseIfOpen t => simp [stepB] at h
  | set n v => simp only [lrun, h]; cases o <;> rfl
  | setA n a op b => simp only [lrun, h]; cases o <;> rfl
  | ifSet q a os b hh x y => simp only [lrun, h]; cases o <;> rfl
  | andSet a b hh => simp only [lrun, h]; cases o <;> rfl
  | orSet a b hh => simp only [lrun, h]; cases o <;> rfl
  | call n args => simp only [lrun, h]; cases o <;> rfl
  | goto n =>
    have hn := stepB_goto_some h
    subst hn
    have ho : ∃ k, o = .exit k := by
      simp only [stepB] at h
      split at h
      · split at h
        · simp only [Option.some.injEq, Prod.mk.injEq] at h; exact ⟨_, h.1.symm⟩
        · simp at h
      · simp at h
    obtain ⟨k, rfl⟩ := ho
    simp only [lrun, beq_self_eq_true, if_true, h]
  | raw t =>
    have ht := stepB_raw_some h
    subst ht
    have e1 : ("rem No operation" == "endlocal & exit /B %_e%") = false := by decide
    simp only [lrun, nopRaw_rem, Bool.false_eq_true, if_false, e1, h]
    cases o <;> rfl

/-- more fuel does not change a result -/
theorem lrun_mono (whole : List BLine) : ∀ (f : Nat) (L : List BLine) (c : Cfg) (r : Out × Cfg),
    lrun whole f L c = some r → lrun whole (f + 1) L c = some r
  | 0, _, _, _, h => by simp [lrun] at h
  | f + 1, [], c, r, h => by simpa [lrun] using h
  | f + 1, l :: rest, c, r, h => by
    have ih := lrun_mono whole f
    have plain : ∀ (l : BLine), (∀ t, l ≠ .raw t) → (∀ n, l ≠ .goto n) → plainB l = true →
        lrun whole (f + 1) (l :: rest) c = some r → lrun whole (f + 1 + 1) (l :: rest) c = some r := by
      intro l hr hg hl h
      cases hs : stepB l c with
      | none =>
        cases l <;> simp [plainB] at hl <;> first | exact absurd rfl (hr _) | exact absurd rfl (hg _) | (simp only [lrun, hs] at h; simp at h)
      | some r1 =>
        rw [lrun_stepB hs] at h ⊢
        obtain ⟨o1, c1⟩ := r1
        cases o1 with
        | normal => exact ih _ _ _ h
        | exit k => exact h
        | brk => simp at h
        | cont => simp at h
    cases l with
    | clabel n => simp only [lrun] at h ⊢; exact ih _ _ _ h
    | label n => simp only [lrun] at h ⊢; exact ih _ _ _ h
    | close => simp only [lrun] at h ⊢; exact ih _ _ _ h
    | cgoto n =>
      simp only [lrun] at h ⊢
      cases ha : afterLabel n whole with
      | none => simp [ha] at h
      | some tgt => simp only [ha] at h ⊢; exact ih _ _ _ h
    | opn t =>
      simp only [lrun] at h ⊢
      cases hb : blockTest c.ρ t with
      | none => simp [hb] at h
      | some b =>
        cases b with
        | true => simp only [hb] at h ⊢; exact ih _ _ _ h
        | false =>
          simp only [hb] at h ⊢
          cases hk : skipBlock 0 rest with
          | none => simp [hk] at h
          | some R =>
            cases R with
            | nil => simp [hk] at h
            | cons x R' =>
              cases x <;> simp only [hk] at h ⊢ <;> first | exact ih _ _ _ h | simp at h
    | elseOpen => simp [lrun, stepB] at h
    | elseIfOpen t => simp [lrun, stepB] at h
    | set n v => exact plain _ (by intro t e; cases e) (by intro t e; cases e) rfl h
    | setA n a op b => exact plain _ (by intro t e; cases e) (by intro t e; cases e) rfl h
    | ifSet q a os b hh x y => exact plain _ (by intro t e; cases e) (by intro t e; cases e) rfl h
    | andSet a b hh => exact plain _ (by intro t e; cases e) (by intro t e; cases e) rfl h
    | orSet a b hh => exact plain _ (by intro t e; cases e) (by intro t e; cases e) rfl h
    | call n args => exact plain _ (by intro t e; cases e) (by intro t e; cases e) rfl h
    | goto n =>
      simp only [lrun] at h ⊢
      by_cases hn : n = "end"
      · subst hn
        simp only [beq_self_eq_true, if_true] at h ⊢
        exact h
      · have hne : (n == "end") = false := by simpa using hn
        simp only [hne, Bool.false_eq_true, if_false] at h ⊢
        cases ha : afterLabel n whole with
        | none => simp [ha] at h
        | some tgt => simp only [ha] at h ⊢; exact ih _ _ _ h
    | raw t =>
      simp only [lrun] at h ⊢
      by_cases hp : nopRaw t = true
      · simp only [hp, if_true] at h ⊢; exact ih _ _ _ h
      · simp only [hp, Bool.false_eq_true, if_false] at h ⊢
        by_cases he : (t == "endlocal & exit /B %_e%") = true
        · simp only [he, if_true] at h ⊢; exact h
        · simp only [he, Bool.false_eq_true, if_false] at h ⊢
          cases hs : stepB (.raw t) c with
          | none => simp [hs] at h
          | some r1 =>
            obtain ⟨o1, c1⟩ := r1
            simp only [hs] at h ⊢
            cases o1 with
            | normal => exact ih _ _ _ h
            | exit k => exact h
            | brk => simp at h
            | cont => simp at h

theorem lrun_mono_add (whole : List BLine) (f : Nat) (L : List BLine) (c : Cfg) (r : Out × Cfg) (h : lrun whole f L c = some r) :
    ∀ k, lrun whole (f + k) L c = some r
  | 0 => h
  | k + 1 => lrun_mono whole (f + k) L c r (lrun_mono_add whole f L c r h k)

/-- `lrun` finds every outcome the relation allows -/
theorem lrun_complete {whole : List BLine} {L : List BLine} {c : Cfg} {o : Out} {c' : Cfg} (h : LRun whole L c o c') :
    ∃ f, lrun whole f L c = some (o, c') := by
  induction h with
  | done => exact ⟨1, by simp [lrun]⟩
  | simple hs _ ih =>
    obtain ⟨f, hf⟩ := ih
    exact ⟨f + 1, by rw [lrun_stepB hs]; exact hf⟩
  | exit hs => exact ⟨1, by rw [lrun_stepB hs]⟩
  | label _ ih => obtain ⟨f, hf⟩ := ih; exact ⟨f + 1, by simpa [lrun] using hf⟩
  | plabel _ ih => obtain ⟨f, hf⟩ := ih; exact ⟨f + 1, by simpa [lrun] using hf⟩
  | close _ ih => obtain ⟨f, hf⟩ := ih; exact ⟨f + 1, by simpa [lrun] using hf⟩
  | jump ht _ ih => obtain ⟨f, hf⟩ := ih; exact ⟨f + 1, by simp only [lrun, ht]; exact hf⟩
  | enter ht _ ih => obtain ⟨f, hf⟩ := ih; exact ⟨f + 1, by simp only [lrun, ht]; exact hf⟩
  | skipToClose ht hk _ ih => obtain ⟨f, hf⟩ := ih; exact ⟨f + 1, by simp only [lrun, ht, hk]; exact hf⟩
  | skipToElse ht hk _ ih => obtain ⟨f, hf⟩ := ih; exact ⟨f + 1, by simp only [lrun, ht, hk]; exact hf⟩
  | skipToElseIf ht hk _ ih => obtain ⟨f, hf⟩ := ih; exact ⟨f + 1, by simp only [lrun, ht, hk]; exact hf⟩
  | finish hk =>
    refine ⟨1, ?_⟩
    have e1 : ("endlocal & exit /B %_e%" == "endlocal & exit /B %_e%") = true := by simp
    simp only [lrun, nopRaw_endlocal, Bool.false_eq_true, if_false, e1, if_true, hk, Option.map_some]
  | nop hp _ ih => obtain ⟨f, hf⟩ := ih; exact ⟨f + 1, by simp only [lrun, hp, if_true]; exact hf⟩
  | @gotoL n _ _ _ _ _ hne ht _ ih =>
    obtain ⟨f, hf⟩ := ih
    have hb : (n == "end") = false := by simpa using hne
    exact ⟨f + 1, by simp only [lrun, hb, Bool.false_eq_true, if_false, ht]; exact hf⟩

end Tsh.SemB
