import TshVerif.Lemmas.ParserUseStmt
import TshVerif.Lemmas.ParserSigProg
namespace Tsh.Parser
open Tsh Tsh.Tr Tsh.LexTables

/-! ### every variable used is a visible one: files -/

theorem declaredAll_sub (Γ : List Var) (ss : List Stmt) : ∀ x ∈ Γ, x ∈ PT.declaredAll Γ ss := by
  induction ss generalizing Γ with
  | nil => intro x hx; exact hx
  | cons s rest ih =>
    intro x hx
    simp only [PT.declaredAll, List.foldl_cons]
    exact ih _ x (declared_sub Γ s x hx)

/-- registering the variables of an imported definition: a variable is registered only if the definition is kept -/
theorem varFold_varsIn (Γ : List Var) (vars0 : List Var) : ∀ (vs : List Var) (a : Ctx × Bool), (∀ v ∈ vs, v ∈ vars0) →
    (a.2 = true → VarsIn Γ a.1) → VarsIn (vars0 ++ Γ) a.1 →
    let r := vs.foldl (fun (a : Ctx × Bool) v =>
      let e := (assocGet a.1.vars v.name).isSome
      (if !e && v.pub then { a.1 with vars := assocSet a.1.vars v.name v } else a.1, a.2 && e)) a
    (r.2 = true → VarsIn Γ r.1) ∧ VarsIn (vars0 ++ Γ) r.1 := by
  intro vs
  induction vs with
  | nil => intro a _ h1 h2; exact ⟨h1, h2⟩
  | cons v vs ih =>
    intro a hsub h1 h2
    simp only [List.foldl_cons]
    refine ih _ (fun x hx => hsub x (List.mem_cons_of_mem _ hx)) ?_ ?_
    · intro hb
      dsimp only at hb
      simp only [Bool.and_eq_true] at hb
      dsimp only
      simp only [hb.2, Bool.not_true, Bool.false_and, Bool.false_eq_true, if_false]
      exact h1 hb.1
    · dsimp only
      split
      · intro e hm
        rcases assocSet_mem hm with hm | hm
        · exact h2 e hm
        · subst hm
          exact List.mem_append_left _ (hsub v (List.mem_cons_self ..))
      · exact h2

theorem regStep_varsIn (acc : Ctx × List Stmt) (st : Stmt) (h : VarsIn (PT.declaredAll [] acc.2) acc.1) :
    VarsIn (PT.declaredAll [] (regStep acc st).2) (regStep acc st).1 := by
  obtain ⟨ctx, out⟩ := acc
  have grow : ∀ x ∈ PT.declaredAll [] out, x ∈ PT.declaredAll [] (out ++ [st]) := by
    intro x hx; rw [declaredAll_snoc]; exact declared_sub _ _ x hx
  cases st with
  | varDef vars vals =>
    simp only [regStep]
    have hf := varFold_varsIn (PT.declaredAll [] out) vars vars (ctx, true) (fun _ h => h) (fun _ => h)
      (h.mono (fun x hx => List.mem_append_right _ hx))
    dsimp only at hf
    split
    · rename_i hex
      exact hf.1 hex
    · rw [declaredAll_snoc]
      exact hf.2
  | funcDef name pub rets params body =>
    simp only [regStep]
    have hv : VarsIn (PT.declaredAll [] out) (if (!(assocGet ctx.funcs name).isSome && pub) = true then
        { ctx with funcs := assocSet ctx.funcs name ⟨name, rets, params, pub⟩ } else ctx) := by
      split <;> exact h
    split
    · exact hv
    · exact hv.mono grow
  | _ => exact h.mono grow

theorem regFold_varsIn : ∀ (stmts : List Stmt) (acc : Ctx × List Stmt), VarsIn (PT.declaredAll [] acc.2) acc.1 →
    VarsIn (PT.declaredAll [] (stmts.foldl regStep acc).2) (stmts.foldl regStep acc).1 := by
  intro stmts
  induction stmts with
  | nil => intro acc h; exact h
  | cons st rest ih => intro acc h; simp only [List.foldl_cons]; exact ih _ (regStep_varsIn acc st h)

theorem registerImported_varsIn {ctx : Ctx} {stmts : List Stmt} (h : ctx.vars = []) :
    VarsIn (PT.declaredAll [] (registerImported ctx stmts).2) (registerImported ctx stmts).1 := by
  rw [registerImported_eq]
  exact regFold_varsIn stmts (ctx, []) (by intro e he; simp [h] at he)

theorem importLoop_vars {depth : Nat} (fs : FileSys) (path : String) (importing : List String) (multiple : Bool) :
    ∀ (fuel : Nat) (ctx : Ctx) (acc : List Stmt) (s0 s' : PSt) (r : Ctx × List Stmt),
      importLoop depth fs path importing fuel multiple ctx acc s0 = .ok r s' → r.1.vars = ctx.vars := by
  intro fuel
  induction fuel with
  | zero => intro ctx acc s0 s' r h; unfold importLoop at h; simp at h
  | succ fuel ih =>
    intro ctx acc s0 s' r h
    unfold importLoop at h
    dsimp only at h
    split at h
    · split at h
      · split at h
        · simp at h
        · split at h
          · split at h
            · simp at h
            · split at h
              · split at h
                · simp only [PRes.ok.injEq] at h
                  obtain ⟨rfl, _⟩ := h
                  rfl
                · split at h
                  · simp only [PRes.ok.injEq] at h
                    obtain ⟨rfl, _⟩ := h
                    rfl
                  · split at h
                    · exact ih { ctx with imports := assocSet ctx.imports _ _ } _ _ _ _ h
                    · simp at h
              · simp at h
              · simp at h
              · simp at h
          · simp at h
          · simp at h
          · simp at h
      · simp at h
      · simp at h
      · simp at h
    · simp at h
    · simp at h
    · simp at h

theorem evalImports_varsIn {depth : Nat} (fs : FileSys) (path : String) (importing : List String) (fuel : Nat) (s0 s' : PSt)
    (r : Ctx × List Stmt) (h : evalImports depth fs path importing fuel {} s0 = .ok r s') :
    VarsIn (PT.declaredAll [] r.2) r.1 := by
  unfold evalImports at h
  dsimp only at h
  split at h
  · split at h
    · simp only [PRes.ok.injEq] at h
      obtain ⟨rfl, _⟩ := h
      intro e he; simp at he
    · split at h
      · split at h
        · simp at h
        · split at h
          · rename_i c stmts s2 hl
            have hf := importLoop_vars fs path importing true fuel {} [] _ _ _ hl
            simp only [PRes.ok.injEq] at h
            obtain ⟨rfl, _⟩ := h
            exact registerImported_varsIn hf
          · simp at h
          · simp at h
          · simp at h
      · split at h
        · rename_i c stmts s2 hl
          have hf := importLoop_vars fs path importing false fuel {} [] _ _ _ hl
          simp only [PRes.ok.injEq] at h
          obtain ⟨rfl, _⟩ := h
          exact registerImported_varsIn hf
        · simp at h
        · simp at h
        · simp at h
  · simp at h
  · simp at h
  · simp at h

/-- a file's own statements use visible variables only: defined by the imported statements in front of them, or earlier in
    the file and still in scope -/
theorem evalProgram_use (depth : Nat) (fs : FileSys) (path : String) (importing : List String) (fuel : Nat) (s0 s' : PSt)
    (body : List Stmt) (h : evalProgram depth fs path importing fuel s0 = .ok body s') :
    ∃ imported own, body = imported ++ own ∧ PT.useSs (PT.declaredAll [] imported) own = true := by
  unfold evalProgram at h
  split at h
  · rename_i ctx imported s hi
    have hf := evalImports_varsIn fs path importing fuel _ _ _ hi
    dsimp only at h
    split at h
    · rename_i own s2 hb
      simp only [PRes.ok.injEq] at h
      obtain ⟨rfl, _⟩ := h
      have hc : VarsIn (PT.declaredAll [] imported) { ctx with imports := assocSet ctx.imports s.pfx s.pfx } := hf
      exact ⟨imported, own, rfl, (useSIH_all useIH_all fuel).blockContent _ _ _ _ _ hc _ _ _ hb⟩
    · simp at h
    · simp at h
    · simp at h
  · simp at h
  · simp at h
  · simp at h
