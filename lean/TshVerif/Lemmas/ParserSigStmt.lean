import TshVerif.Lemmas.ParserSigExpr
import TshVerif.Lemmas.ParserPlacedProg
namespace Tsh.Parser
open Tsh Tsh.Tr Tsh.LexTables

/-! ### calls agree with signatures: statements -/

def sigSP (F : List PT.Sig) (st : Stmt) : Prop := PT.sigS F st = true
def sigSsP (F : List PT.Sig) (ss : List Stmt) : Prop := PT.sigSs F ss = true

theorem FuncsIn.mono {F F' : List PT.Sig} {ctx : Ctx} (h : FuncsIn F ctx) (hs : ∀ x ∈ F, x ∈ F') : FuncsIn F' ctx :=
  fun e he => hs _ (h e he)

theorem declare_sub (F : List PT.Sig) (st : Stmt) : ∀ x ∈ F, x ∈ PT.declare F st := by
  intro x hx
  cases st <;> simp [PT.declare, hx]

theorem declareAll_snoc (F : List PT.Sig) (acc : List Stmt) (st : Stmt) :
    PT.declareAll F (acc ++ [st]) = PT.declare (PT.declareAll F acc) st := by
  simp [PT.declareAll, List.foldl_append]

theorem sigSs_snoc : ∀ {F : List PT.Sig} {acc : List Stmt} {st : Stmt}, sigSsP F acc → sigSP (PT.declareAll F acc) st → sigSsP F (acc ++ [st])
  | F, [], st, _, hs => by
      have : PT.sigS F st = true := by simpa [sigSP, PT.declareAll] using hs
      simp [sigSsP, PT.sigSs, this]
  | F, x :: xs, st, ha, hs => by
      simp only [sigSsP, PT.sigSs, Bool.and_eq_true] at ha
      simp only [sigSsP, List.cons_append, PT.sigSs, Bool.and_eq_true]
      exact ⟨ha.1, sigSs_snoc (F := PT.declare F x) ha.2 (by simpa [sigSP, PT.declareAll] using hs)⟩

theorem FuncsIn.scopes_vars {F : List PT.Sig} {c c' : Ctx} (h : FuncsIn F c) (hf : c'.funcs = c.funcs) : FuncsIn F c' := by
  intro e he; rw [hf] at he; exact h e he

theorem addVars_funcs {pfx : String} {g : Bool} : ∀ {vs : List Var} {c c' : Ctx}, c.addVars pfx g vs = some c' → c'.funcs = c.funcs := by
  intro vs
  induction vs with
  | nil => intro c c' h; simp [Ctx.addVars] at h; rw [← h]
  | cons v vs ih =>
    intro c c' h
    simp only [Ctx.addVars, List.foldlM_cons] at h
    cases hb : c.buildName v.name pfx g false with
    | none => simp [hb] at h
    | some k =>
      simp only [hb, Option.bind_eq_bind, Option.bind_some] at h
      exact ih (c := { c with vars := assocSet c.vars k v }) h

theorem registerDefs_funcsIn {F : List PT.Sig} {pfx : String} {g : Bool} {st : Stmt} {c c' : Ctx} (h : FuncsIn F c)
    (he : Parser.registerDefs c pfx g st = some c') : FuncsIn (PT.declare F st) c' := by
  unfold Parser.registerDefs at he
  split at he
  · exact (h.scopes_vars (addVars_funcs he)).mono (declare_sub F _)
  · exact (h.scopes_vars (addVars_funcs he)).mono (declare_sub F _)
  · rename_i name pub rets params body
    unfold Ctx.addFunc at he
    split at he
    · simp only [Option.some.injEq] at he
      subst he
      intro e hm
      rcases assocSet_mem hm with h1 | h1
      · exact declare_sub F _ _ (h e h1)
      · subst h1
        simp [PT.declare, sigOf]
    · simp at he
  · simp only [Option.some.injEq] at he
    subst he
    exact h.mono (declare_sub F _)

structure SigSIH (fuel : Nat) : Prop where
  blockContent : ∀ F terms cb ctx scope, FuncsIn F ctx → PostOk (evalBlockContent fuel terms cb ctx scope) (sigSsP F)
  blockLoop : ∀ F terms cb ctx acc, FuncsIn (PT.declareAll F acc) ctx → sigSsP F acc → PostOk (evalBlockLoop fuel terms cb ctx acc) (sigSsP F)
  block : ∀ F cb ctx scope, FuncsIn F ctx → PostOk (evalBlock fuel cb ctx scope) (sigSsP F)
  functionDefinition : ∀ F ctx, FuncsIn F ctx → PostOk (evalFunctionDefinition fuel ctx) (sigSP F)
  if_ : ∀ F ctx, FuncsIn F ctx → PostOk (evalIf fuel ctx) (sigSP F)
  ifRest : ∀ F ctx c body elifs els, FuncsIn F ctx → sigP F c → sigSsP F body → PT.sigEl F elifs = true → sigSsP F els →
    PostOk (evalIfRest fuel ctx c body elifs els) (sigSP F)
  switch : ∀ F ctx, FuncsIn F ctx → PostOk (evalSwitch fuel ctx) (sigSP F)
  cases : ∀ F ctx tag first elifs dflt, FuncsIn F ctx → sigP F tag → (∀ c b, first = some (c, b) → sigP F c ∧ sigSsP F b) →
    PT.sigEl F elifs = true → (∀ d, dflt = some d → sigSsP F d) → PostOk (evalCases fuel ctx tag first elifs dflt) (sigSP F)
  for_ : ∀ F ctx, FuncsIn F ctx → PostOk (evalFor fuel ctx) (sigSP F)
  statement : ∀ F ctx, FuncsIn F ctx → PostOk (evalStatement fuel ctx) (sigSP F)

variable {fuel : Nat}

theorem FuncsIn.push {F : List PT.Sig} {ctx : Ctx} (h : FuncsIn F ctx) (s : Scope) : FuncsIn F (ctx.push s) := h

theorem sgs_blockContent (ih : SigSIH fuel) (F : List PT.Sig) (terms : List Nat) (cb : List Stmt → Bool → Bool) (ctx : Ctx) (scope : Scope)
    (hc : FuncsIn F ctx) : PostOk (evalBlockContent (fuel + 1) terms cb ctx scope) (sigSsP F) := by
  unfold evalBlockContent
  exact ih.blockLoop F _ _ _ _ (hc.push scope) rfl

theorem sgs_blockLoop (ih : SigSIH fuel) (F : List PT.Sig) (terms : List Nat) (cb : List Stmt → Bool → Bool) (ctx : Ctx) (acc : List Stmt)
    (hc : FuncsIn (PT.declareAll F acc) ctx) (hacc : sigSsP F acc) : PostOk (evalBlockLoop (fuel + 1) terms cb ctx acc) (sigSsP F) := by
  unfold evalBlockLoop
  po_bind; intro t
  po_if
  · po_if
    · exact PostOk.pure' hacc
    · exact PostOk.err
  refine PostOk.bind' (P := fun (x : Ctx × List Stmt) => FuncsIn (PT.declareAll F x.2) x.1 ∧ sigSsP F x.2) ?_ ?_
  · po_if
    · exact PostOk.pure' ⟨hc, hacc⟩
    · refine PostOk.bind' (ih.statement _ ctx hc) ?_
      intro st hst
      po_bind; intro s
      refine PostOk.bind' (P := fun c => FuncsIn (PT.declareAll F (acc ++ [st])) c) (PostOk.ofOpt (fun c h => by
        rw [declareAll_snoc]; exact registerDefs_funcsIn hc h)) ?_
      intro ctx' hc'
      pm_zeta
      po_if
      · exact PostOk.pure' ⟨hc', sigSs_snoc hacc hst⟩
      · exact PostOk.err
  rintro ⟨ctx', acc'⟩ ⟨hc', hacc'⟩
  dsimp only at hc' hacc' ⊢
  po_bind; intro n
  po_if
  · po_bind; intro _
    exact ih.blockLoop F _ _ _ _ hc' hacc'
  po_if
  · exact ih.blockLoop F _ _ _ _ hc' hacc'
  · exact PostOk.err

theorem sgs_block (ih : SigSIH fuel) (F : List PT.Sig) (cb : List Stmt → Bool → Bool) (ctx : Ctx) (scope : Scope)
    (hc : FuncsIn F ctx) : PostOk (evalBlock (fuel + 1) cb ctx scope) (sigSsP F) := by
  unfold evalBlock
  po_bind; intro b
  po_if
  · exact PostOk.err
  po_bind; intro n
  po_if
  · exact PostOk.err
  refine PostOk.bind' (ih.blockContent F _ _ _ _ hc) ?_
  intro ss hss
  po_bind; intro e
  po_if
  · exact PostOk.err
  · exact PostOk.pure' hss

theorem sigSsP.out {F : List PT.Sig} {ss : List Stmt} (h : sigSsP F ss) : PT.sigSs F ss = true := h
theorem sigSP.out {F : List PT.Sig} {s : Stmt} (h : sigSP F s) : PT.sigS F s = true := h

theorem sigEl_snoc {F : List PT.Sig} {a : List (Expr × List Stmt)} {c : Expr} {b : List Stmt} (ha : PT.sigEl F a = true) (hc : sigP F c)
    (hb : sigSsP F b) : PT.sigEl F (a ++ [(c, b)]) = true := by
  induction a with
  | nil => simp [PT.sigEl, hc.out, hb.out]
  | cons x xs ih =>
    obtain ⟨e, body⟩ := x
    simp only [PT.sigEl, Bool.and_eq_true] at ha
    simp only [List.cons_append, PT.sigEl, Bool.and_eq_true]
    exact ⟨ha.1, ih ha.2⟩

theorem sigSs_append_same : ∀ {F : List PT.Sig} {a b : List Stmt}, sigSsP F a → sigSsP (PT.declareAll F a) b → sigSsP F (a ++ b)
  | F, [], b, _, hb => by simpa [PT.declareAll] using hb
  | F, x :: xs, b, ha, hb => by
      simp only [sigSsP, PT.sigSs, Bool.and_eq_true] at ha
      simp only [sigSsP, List.cons_append, PT.sigSs, Bool.and_eq_true]
      exact ⟨ha.1, sigSs_append_same (F := PT.declare F x) ha.2 (by simpa [PT.declareAll] using hb)⟩

/-- definitions, assignments, element assignments: calls agree, and nothing is declared -/
def sigSimple (F : List PT.Sig) (st : Stmt) : Prop := sigSP F st ∧ PT.declare F st = F

theorem sg_varDefinition (E : ∀ F fuel, SigIH F fuel) (F : List PT.Sig) (fuel : Nat) (ctx : Ctx) (hc : FuncsIn F ctx) :
    PostOk (evalVarDefinition fuel ctx) (sigSimple F) := by
  unfold evalVarDefinition
  po_bind; intro short
  pm_jp; intro jp hjp
  have key : ∀ r, PostOk (jp r) (sigSimple F) := by
    intro r; subst hjp; pm_beta
    po_bind; intro names
    po_bind; intro s
    pm_zeta
    split
    · exact PostOk.pan
    pm_zeta
    pm_jp; intro jp2 hjp2
    have key2 : ∀ r, PostOk (jp2 r) (sigSimple F) := by
      intro r; subst hjp2; pm_beta
      po_bind; intro spec
      po_bind; intro next
      pm_zeta
      pm_zeta
      po_bind; intro vars
      po_if
      · refine PostOk.bind' ((E F fuel).values ctx true hc) ?_
        intro values hvals
        pm_zeta
        po_if
        · exact PostOk.err
        po_if
        · exact PostOk.err
        po_bind; intro vars'
        cases hm : multiReturnTypes values with
        | some ts =>
          obtain ⟨call, rfl⟩ := multi_single hm
          simp only []
          refine PostOk.pure' ⟨?_, rfl⟩
          simp only [sigsP, PT.sigEs, Bool.and_true] at hvals
          simpa [sigSP, PT.sigS] using hvals
        | none =>
          simp only []
          exact PostOk.pure' ⟨by simpa [sigSP, PT.sigS] using hvals.out, rfl⟩
      · refine PostOk.bind' (P := fun values => sigsP F values) (PostOk.ofOpt (fun values h => ?_)) ?_
        · revert values
          induction vars with
          | nil => intro values h; simp at h; subst h; rfl
          | cons v vs ihv =>
            intro values h
            rw [List.mapM_cons] at h
            cases h1 : defaultVarValue v.vt with
            | none => simp [h1] at h
            | some e =>
              cases h2 : vs.mapM (fun v => defaultVarValue v.vt) with
              | none => simp [h1, h2] at h
              | some rest =>
                simp [h1, h2] at h
                subst h
                have he : PT.sigE F e = true := by
                  unfold defaultVarValue at h1
                  split at h1
                  · split at h1 <;> simp at h1 <;> subst h1 <;> rfl
                  · simp at h1; subst h1; rfl
                simp [sigsP, PT.sigEs, he, (ihv rest h2).out]
        intro values hv
        exact PostOk.pure' ⟨by simpa [sigSP, PT.sigS] using hv.out, rfl⟩
    po_if
    · pm_zeta
      po_if
      · exact PostOk.errBind
      po_if
      · exact PostOk.errBind
      po_if
      · exact PostOk.errBind
      · exact key2 ()
    · po_if
      · exact PostOk.errBind
      · exact key2 ()
  po_if
  · po_bind; intro v
    po_if
    · exact PostOk.errBind
    · exact key ()
  · exact key ()

theorem sg_compound (E : ∀ F fuel, SigIH F fuel) (F : List PT.Sig) (fuel : Nat) (ctx : Ctx) (hc : FuncsIn F ctx) :
    PostOk (evalCompoundAssignment fuel ctx) (sigSimple F) := by
  unfold evalCompoundAssignment
  po_bind; intro names
  split
  · po_bind; intro a
    po_if
    · exact PostOk.err
    refine PostOk.bind' ((E F fuel).values ctx true hc) ?_
    intro values hvals
    pm_zeta
    po_if
    · exact PostOk.err
    po_bind; intro s
    split
    · po_if
      · exact PostOk.err
      pm_zeta
      po_if
      · exact PostOk.err
      refine PostOk.pure' ⟨?_, rfl⟩
      simp only [sigsP, PT.sigEs, Bool.and_eq_true] at hvals
      simp [sigSP, PT.sigS, PT.sigEs, PT.sigE, hvals.1]
    · exact PostOk.err
    · exact PostOk.pan
  · exact PostOk.pan
  · exact PostOk.err

theorem sg_varAssignment (E : ∀ F fuel, SigIH F fuel) (F : List PT.Sig) (fuel : Nat) (ctx : Ctx) (hc : FuncsIn F ctx) :
    PostOk (evalVarAssignment fuel ctx) (sigSimple F) := by
  unfold evalVarAssignment
  po_bind; intro names
  po_bind; intro a
  po_if
  · exact PostOk.err
  refine PostOk.bind' ((E F fuel).values ctx true hc) ?_
  intro values hvals
  pm_zeta
  po_if
  · exact PostOk.err
  po_bind; intro s
  po_bind; intro vars
  cases hm : multiReturnTypes values with
  | some ts =>
    obtain ⟨call, rfl⟩ := multi_single hm
    simp only []
    refine PostOk.pure' ⟨?_, rfl⟩
    simp only [sigsP, PT.sigEs, Bool.and_true] at hvals
    simpa [sigSP, PT.sigS] using hvals
  | none =>
    simp only []
    exact PostOk.pure' ⟨by simpa [sigSP, PT.sigS] using hvals.out, rfl⟩

theorem sg_sliceAssignment (E : ∀ F fuel, SigIH F fuel) (F : List PT.Sig) (fuel : Nat) (ctx : Ctx) (hc : FuncsIn F ctx) :
    PostOk (evalSliceAssignment fuel ctx) (sigSimple F) := by
  unfold evalSliceAssignment
  po_bind; intro nameTok
  po_if
  · exact PostOk.err
  po_bind; intro s
  split
  · exact PostOk.err
  po_if
  · exact PostOk.err
  po_bind; intro o
  po_if
  · exact PostOk.err
  refine PostOk.bind' ((E F fuel).expression ctx hc) ?_
  intro index hi
  po_if
  · exact PostOk.err
  po_bind; intro c
  po_if
  · exact PostOk.err
  po_bind; intro a
  po_if
  · exact PostOk.err
  refine PostOk.bind' ((E F fuel).expression ctx hc) ?_
  intro value hval
  po_if
  · exact PostOk.err
  exact PostOk.pure' ⟨by simp [sigSP, PT.sigS, hi.out, hval.out], rfl⟩

theorem sg_incDec (F : List PT.Sig) (ctx : Ctx) : PostOk (evalIncDec ctx) (sigSimple F) := by
  unfold evalIncDec
  po_bind; intro t
  po_if
  · exact PostOk.err
  po_bind; intro s
  split
  · exact PostOk.err
  po_if
  · exact PostOk.err
  po_bind; intro o
  po_if
  · exact PostOk.pure' ⟨rfl, rfl⟩
  po_if
  · exact PostOk.pure' ⟨rfl, rfl⟩
  · exact PostOk.err

variable {fuel : Nat}

theorem sgs_functionDefinition (ih : SigSIH fuel) (F : List PT.Sig) (ctx : Ctx) (hc : FuncsIn F ctx) :
    PostOk (evalFunctionDefinition (fuel + 1) ctx) (sigSP F) := by
  unfold evalFunctionDefinition
  po_bind; intro f
  po_if
  · exact PostOk.err
  po_if
  · exact PostOk.err
  po_bind; intro nameTok
  po_if
  · exact PostOk.err
  po_bind; intro s
  pm_zeta
  po_if
  · exact PostOk.err
  po_bind; intro o
  pm_zeta
  po_bind; intro params
  po_bind; intro r
  pm_zeta
  pm_jp; intro jp hjp
  suffices key : ∀ u, PostOk (jp u) (sigSP F) by
    po_if
    · po_bind; intro _
      exact key _
    · exact key _
  intro u; subst hjp; pm_beta
  po_bind; intro rets
  refine PostOk.bind' (P := fun c => FuncsIn F c) (PostOk.ofOpt (fun c h =>
    FuncsIn.scopes_vars (c := { ctx with vars := ctx.vars.filter fun e => e.2.global }) hc (addVars_funcs h))) ?_
  intro ctx2 hc2
  pm_zeta
  po_bind; intro s2
  po_bind; intro _
  refine PostOk.bind' (ih.block F _ _ _ hc2) ?_
  intro body hbody
  po_bind; intro s3
  po_bind; intro _
  exact PostOk.pure' (by simpa [sigSP, PT.sigS] using hbody.out)

theorem sgs_if (ih : SigSIH fuel) (E : ∀ F fuel, SigIH F fuel) (F : List PT.Sig) (ctx : Ctx) (hc : FuncsIn F ctx) :
    PostOk (evalIf (fuel + 1) ctx) (sigSP F) := by
  unfold evalIf
  po_bind; intro t
  po_if
  · exact PostOk.err
  po_bind; intro _
  refine PostOk.bind' ((E F fuel).expression ctx hc) ?_
  intro c hcnd
  po_if
  · exact PostOk.err
  refine PostOk.bind' (ih.block F _ _ _ hc) ?_
  intro body hbody
  exact ih.ifRest F _ _ _ _ _ hc hcnd hbody rfl rfl

theorem sgs_ifRest (ih : SigSIH fuel) (E : ∀ F fuel, SigIH F fuel) (F : List PT.Sig) (ctx : Ctx) (c : Expr) (body : List Stmt)
    (elifs : List (Expr × List Stmt)) (els : List Stmt) (hc : FuncsIn F ctx) (hcnd : sigP F c) (hbody : sigSsP F body)
    (helifs : PT.sigEl F elifs = true) (hels : sigSsP F els) : PostOk (evalIfRest (fuel + 1) ctx c body elifs els) (sigSP F) := by
  unfold evalIfRest
  po_bind; intro t
  po_if
  · exact PostOk.pure' (by simp [sigSP, PT.sigS, hcnd.out, hbody.out, helifs, hels.out])
  po_bind; intro _
  po_bind; intro n
  po_if
  · refine PostOk.bind' (ih.block F _ _ _ hc) ?_
    intro b hb
    exact ih.ifRest F _ _ _ _ _ hc hcnd hbody helifs hb
  · po_bind; intro _
    refine PostOk.bind' ((E F fuel).expression ctx hc) ?_
    intro ec hec
    po_if
    · exact PostOk.err
    refine PostOk.bind' (ih.block F _ _ _ hc) ?_
    intro b hb
    exact ih.ifRest F _ _ _ _ _ hc hcnd hbody (sigEl_snoc helifs hec hb) hels

theorem sgs_switch (ih : SigSIH fuel) (E : ∀ F fuel, SigIH F fuel) (F : List PT.Sig) (ctx : Ctx) (hc : FuncsIn F ctx) :
    PostOk (evalSwitch (fuel + 1) ctx) (sigSP F) := by
  unfold evalSwitch
  po_bind; intro sw
  po_if
  · exact PostOk.err
  po_bind; intro t
  refine PostOk.bind' (P := sigP F) ?_ ?_
  · po_if
    · exact PostOk.pure' rfl
    · exact (E F fuel).expression ctx hc
  intro tag htag
  po_if
  · exact PostOk.err
  po_if
  · exact PostOk.err
  po_bind; intro b
  po_if
  · exact PostOk.err
  po_bind; intro n
  po_if
  · exact PostOk.err
  po_bind; intro _
  exact ih.cases F _ _ _ _ _ hc htag (by simp) rfl (by simp)

theorem sgs_cases (ih : SigSIH fuel) (E : ∀ F fuel, SigIH F fuel) (F : List PT.Sig) (ctx : Ctx) (tag : Expr)
    (first : Option (Expr × List Stmt)) (elifs : List (Expr × List Stmt)) (dflt : Option (List Stmt)) (hc : FuncsIn F ctx)
    (htag : sigP F tag) (hfirst : ∀ c b, first = some (c, b) → sigP F c ∧ sigSsP F b) (helifs : PT.sigEl F elifs = true)
    (hdflt : ∀ d, dflt = some d → sigSsP F d) : PostOk (evalCases (fuel + 1) ctx tag first elifs dflt) (sigSP F) := by
  unfold evalCases
  po_bind; intro t
  po_if
  · po_bind; intro _
    refine PostOk.pure' ?_
    have hd : PT.sigSs F (dflt.getD []) = true := by
      cases dflt with
      | none => rfl
      | some d => exact hdflt d rfl
    cases first with
    | none => simp [sigSP, PT.sigS, PT.sigE, PT.sigSs, helifs, hd]
    | some p =>
      obtain ⟨c, b⟩ := p
      obtain ⟨h1, h2⟩ := hfirst c b rfl
      simp [sigSP, PT.sigS, h1.out, h2.out, helifs, hd]
  refine PostOk.bind' (P := fun (cmp : Option Expr) => ∀ e, cmp = some e → sigP F e) ?_ ?_
  · po_if
    · po_bind; intro _
      refine PostOk.bind' ((E F fuel).expression ctx hc) ?_
      intro e he
      exact PostOk.pure' (by intro e' h; simp at h; exact h ▸ he)
    po_if
    · po_bind; intro _
      exact PostOk.pure' (by intro e' h; simp at h)
    · exact PostOk.err
  intro cmp hcmp
  po_bind; intro colon
  po_if
  · exact PostOk.err
  refine PostOk.bind' (ih.blockContent F _ _ _ _ hc) ?_
  intro stmts hstmts
  split
  · rename_i e
    po_if
    · exact PostOk.err
    have hcnd : sigP F (.compare "==" tag e) := by simp [sigP, PT.sigE, htag.out, (hcmp e rfl).out]
    pm_zeta
    split
    · refine ih.cases F _ _ _ _ _ hc htag ?_ helifs hdflt
      intro c b h
      simp only [Option.some.injEq, Prod.mk.injEq] at h
      exact h.1 ▸ h.2 ▸ ⟨hcnd, hstmts⟩
    · exact ih.cases F _ _ _ _ _ hc htag hfirst (sigEl_snoc helifs hcnd hstmts) hdflt
  · split
    · refine ih.cases F _ _ _ _ _ hc htag hfirst helifs ?_
      intro d h
      simp only [Option.some.injEq] at h
      exact h ▸ hstmts
    · exact PostOk.err

theorem sgs_for (ih : SigSIH fuel) (E : ∀ F fuel, SigIH F fuel) (F : List PT.Sig) (ctx : Ctx) (hc : FuncsIn F ctx) :
    PostOk (evalFor (fuel + 1) ctx) (sigSP F) := by
  unfold evalFor
  po_bind; intro f
  po_if
  · exact PostOk.err
  po_bind; intro t0
  po_bind; intro t1
  po_bind; intro t2
  po_bind; intro s
  pm_zeta
  po_if
  · po_bind; intro _
    po_if
    · exact PostOk.err
    po_bind; intro n
    po_bind; intro valueName
    po_bind; intro si
    po_if
    · exact PostOk.err
    po_bind; intro r
    po_if
    · exact PostOk.err
    refine PostOk.bind' ((E F fuel).expression ctx hc) ?_
    intro iterable hit
    pm_zeta
    pm_zeta
    refine PostOk.bind' (P := sigP F) ?_ ?_
    · po_if
      · exact PostOk.pure' (by simp [sigP, PT.sigE, hit.out])
      po_if
      · exact PostOk.pure' (by simp [sigP, PT.sigE, hit.out])
      · exact PostOk.err
    intro el hel
    refine PostOk.bind' (P := fun c => FuncsIn F c) (PostOk.ofOpt (fun c h => hc.scopes_vars (addVars_funcs h))) ?_
    intro ctx1 hc1
    refine PostOk.bind' (P := fun (x : Ctx × List Stmt) => FuncsIn F x.1 ∧ sigSsP F x.2 ∧ PT.declareAll F x.2 = F) ?_ ?_
    · po_if
      · pm_zeta
        refine PostOk.bind' (P := fun c => FuncsIn F c) (PostOk.ofOpt (fun c h => hc1.scopes_vars (addVars_funcs h))) ?_
        intro ctx2 hc2
        exact PostOk.pure' ⟨hc2, by simp [sigSsP, PT.sigSs, PT.sigS, PT.sigEs, hel.out], rfl⟩
      · exact PostOk.pure' ⟨hc1, rfl, rfl⟩
    rintro ⟨ctx3, pre⟩ ⟨hc3, hpre, hdecl⟩
    dsimp only at hc3 hpre hdecl ⊢
    refine PostOk.bind' (ih.block F _ _ _ hc3) ?_
    intro body hbody
    refine PostOk.pure' ?_
    have hb := sigSs_append_same hpre (by rw [hdecl]; exact hbody)
    simp [sigSP, PT.sigS, PT.sigO, PT.sigEs, PT.sigE, incDecStmt, hit.out, hb.out]
  · po_bind; intro three
    refine PostOk.bind' (P := fun (x : Ctx × Option Stmt × Expr × Option Stmt) =>
        FuncsIn F x.1 ∧ PT.sigO F x.2.1 = true ∧ sigP F x.2.2.1 ∧ PT.sigO F x.2.2.2 = true) ?_ ?_
    · po_if
      · exact PostOk.pure' ⟨hc, rfl, rfl, rfl⟩
      po_if
      · po_bind; intro n
        refine PostOk.bind' (P := fun (x : Ctx × Option Stmt) => FuncsIn F x.1 ∧ PT.sigO F x.2 = true) ?_ ?_
        · po_if
          · refine PostOk.bind' (ih.statement F ctx hc) ?_
            intro st hst
            split
            · refine PostOk.bind' (P := fun c => FuncsIn F c) (PostOk.ofOpt (fun c h => hc.scopes_vars (addVars_funcs h))) ?_
              intro c hc'
              exact PostOk.pure' ⟨hc', hst⟩
            · refine PostOk.bind' (P := fun c => FuncsIn F c) (PostOk.ofOpt (fun c h => hc.scopes_vars (addVars_funcs h))) ?_
              intro c hc'
              exact PostOk.pure' ⟨hc', hst⟩
            · exact PostOk.pure' ⟨hc, hst⟩
            · exact PostOk.err
          · exact PostOk.pure' ⟨hc, rfl⟩
        rintro ⟨ctx1, init⟩ ⟨hc1, hinit⟩
        dsimp only at hc1 hinit ⊢
        po_bind; intro sc1
        po_if
        · exact PostOk.err
        po_bind; intro n2
        refine PostOk.bind' (P := sigP F) ?_ ?_
        · po_if
          · exact (E F fuel).expression ctx1 hc1
          · exact PostOk.pure' rfl
        intro cond hcond
        po_bind; intro sc2
        po_if
        · exact PostOk.err
        po_bind; intro n3
        refine PostOk.bind' (P := fun (o : Option Stmt) => PT.sigO F o = true) ?_ ?_
        · po_if
          · refine PostOk.bind' (ih.statement F ctx1 hc1) ?_
            intro st hst
            split
            · exact PostOk.pure' hst
            · exact PostOk.err
          · exact PostOk.pure' rfl
        intro incr hincr
        exact PostOk.pure' ⟨hc1, hinit, hcond, hincr⟩
      · refine PostOk.bind' ((E F fuel).expression ctx hc) ?_
        intro c hcnd
        exact PostOk.pure' ⟨hc, rfl, hcnd, rfl⟩
    rintro ⟨ctx1, init, cond, incr⟩ ⟨hc1, hinit, hcond, hincr⟩
    dsimp only at hc1 hinit hcond hincr ⊢
    po_if
    · exact PostOk.err
    refine PostOk.bind' (ih.block F _ _ _ hc1) ?_
    intro body hbody
    exact PostOk.pure' (by simp [sigSP, PT.sigS, hinit, hcond.out, hincr, hbody.out])

theorem sgs_statement (ih : SigSIH fuel) (E : ∀ F fuel, SigIH F fuel) (F : List PT.Sig) (ctx : Ctx) (hc : FuncsIn F ctx) :
    PostOk (evalStatement (fuel + 1) ctx) (sigSP F) := by
  unfold evalStatement
  po_bind; intro t
  po_if
  · exact (sg_varDefinition E F fuel ctx hc).mono (fun _ h => h.1)
  po_if
  · exact ih.functionDefinition F ctx hc
  po_if
  · po_bind; intro _
    po_if
    · exact PostOk.err
    refine PostOk.bind' ((E F fuel).values ctx true hc) ?_
    intro vals hv
    exact PostOk.pure' (by simpa [sigSP, PT.sigS] using hv.out)
  po_if
  · exact ih.if_ F ctx hc
  po_if
  · exact ih.switch F ctx hc
  po_if
  · exact ih.for_ F ctx hc
  po_if
  · po_bind; intro _
    po_if
    · exact PostOk.pure' rfl
    · exact PostOk.err
  po_if
  · po_bind; intro _
    po_if
    · exact PostOk.pure' rfl
    · exact PostOk.err
  po_if
  · refine PostOk.bind' ((E F fuel).builtin ctx _ _ _ hc) ?_
    intro args ha
    exact PostOk.pure' (by simpa [sigSP, PT.sigS] using ha.out)
  po_if
  · refine PostOk.bind' ((E F fuel).builtin ctx _ _ _ hc) ?_
    intro args ha
    split
    · po_if
      · exact PostOk.err
      po_if
      · exact PostOk.err
      · refine PostOk.pure' ?_
        obtain ⟨h1, h2⟩ := sigs2 ha
        simp [sigSP, PT.sigS, PT.sigE, h1.out, h2.out]
    · po_if
      · exact PostOk.err
      po_if
      · exact PostOk.err
      po_if
      · exact PostOk.err
      · refine PostOk.pure' ?_
        simp only [sigsP, PT.sigEs, Bool.and_eq_true, Bool.and_true] at ha
        simp [sigSP, PT.sigS, PT.sigE, ha.1, ha.2.1, ha.2.2]
    · exact PostOk.pan
  po_if
  · refine PostOk.bind' ((E F fuel).builtin ctx _ _ _ hc) ?_
    intro args ha
    split
    · exact PostOk.pure' (by simpa [sigSP, PT.sigS] using (sigs1 ha).out)
    · exact PostOk.pan
  po_bind; intro short
  po_if
  · exact (sg_varDefinition E F fuel ctx hc).mono (fun _ h => h.1)
  po_bind; intro s
  po_bind; intro t1
  po_if
  · exact (sg_incDec F ctx).mono (fun _ h => h.1)
  po_if
  · exact (sg_compound E F fuel ctx hc).mono (fun _ h => h.1)
  po_if
  · exact (sg_varAssignment E F fuel ctx hc).mono (fun _ h => h.1)
  po_if
  · exact (sg_sliceAssignment E F fuel ctx hc).mono (fun _ h => h.1)
  refine PostOk.bind' ((E F fuel).expression ctx hc) ?_
  intro e he
  split <;> first
    | exact PostOk.err
    | exact PostOk.pure' (by simpa [sigSP, PT.sigS] using he.out)

theorem sigSIH_all (E : ∀ F fuel, SigIH F fuel) : ∀ fuel, SigSIH fuel := by
  intro fuel
  induction fuel with
  | zero =>
    constructor <;> intros <;>
      first
        | (unfold evalBlockContent; exact PostOk.div) | (unfold evalBlockLoop; exact PostOk.div) | (unfold evalBlock; exact PostOk.div)
        | (unfold evalFunctionDefinition; exact PostOk.div) | (unfold evalIf; exact PostOk.div) | (unfold evalIfRest; exact PostOk.div)
        | (unfold evalSwitch; exact PostOk.div) | (unfold evalCases; exact PostOk.div) | (unfold evalFor; exact PostOk.div)
        | (unfold evalStatement; exact PostOk.div)
  | succ fuel ih =>
    exact {
      blockContent := fun F terms cb ctx scope hc => sgs_blockContent ih F terms cb ctx scope hc
      blockLoop := fun F terms cb ctx acc hc ha => sgs_blockLoop ih F terms cb ctx acc hc ha
      block := fun F cb ctx scope hc => sgs_block ih F cb ctx scope hc
      functionDefinition := fun F ctx hc => sgs_functionDefinition ih F ctx hc
      if_ := fun F ctx hc => sgs_if ih E F ctx hc
      ifRest := fun F ctx c body elifs els hc h1 h2 h3 h4 => sgs_ifRest ih E F ctx c body elifs els hc h1 h2 h3 h4
      switch := fun F ctx hc => sgs_switch ih E F ctx hc
      cases := fun F ctx tag first elifs dflt hc h1 h2 h3 h4 => sgs_cases ih E F ctx tag first elifs dflt hc h1 h2 h3 h4
      for_ := fun F ctx hc => sgs_for ih E F ctx hc
      statement := fun F ctx hc => sgs_statement ih E F ctx hc }
