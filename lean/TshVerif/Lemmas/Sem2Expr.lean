/-
  Expressions with calls: what each converter operation emits (in terms of the context), how the source
  evaluation of each node decomposes, and the theorem by induction over the expression.
-/
import TshVerif.Lemmas.Sem2Call
import TshVerif.Props.C02
namespace Tsh.Sem2
open Tsh Tsh.Tr Tsh.Bash Tsh.Sem Tsh.Sem2.Src
open Tsh.Sem.Src (Val Env)

/-! ### converter operations -/

theorem ctxOf_adv (s : St) (new : List Line) (n : Nat) : ctxOf (adv s new n) = ctxOf s := rfl

theorem hn_eq (s : St) (k : Nat) : varName s (s!"_h{k}") false = (ctxOf s).hn k := by
  rw [varName_ctx]; rfl

theorem varName_upd (s : St) (a : Nat) (b : List Line) (x : String) (g : Bool) :
    varName { s with varCounter := a, code := b } x g = (ctxOf s).mg x g := by
  rw [varName_ctx]; rfl

theorem varName_upd1 (s : St) (a : Nat) (x : String) (g : Bool) :
    varName { s with varCounter := a } x g = (ctxOf s).mg x g := by
  rw [varName_ctx]; rfl

theorem unaryOp_specF (e : String) (s : St) :
    unaryOp e "!" s = .ok ("${" ++ (ctxOf s).hn s.varCounter ++ "}",
      adv s [.assignTest ((ctxOf s).hn s.varCounter) (.cmp e "-eq" "1") "0" "1"] 1) := by
  simp only [unaryOp, bind, nextHelperVar, varAssignTest, varEvaluation, Tr.get, addLine, Tr.modify, pure,
    varEvalString, beq_self_eq_true, if_true, varName_upd, varName_upd1, adv]
  rfl

theorem arithOp_specF (l op r : String) (vt : ValueType) (s : St) (hs : vt.isSlice = false) (hd : vt.dt = .int)
    (ho : (op == "*" || op == "/" || op == "%" || op == "+" || op == "-") = true) :
    binaryOp l op r vt s = .ok ("${" ++ (ctxOf s).hn s.varCounter ++ "}",
      adv s [.assignArith ((ctxOf s).hn s.varCounter) l op r] 1) := by
  simp only [binaryOp, bind, nextHelperVar, varAssignArith, varEvaluation, Tr.get, addLine, Tr.modify, pure,
    varEvalString, varName_upd, varName_upd1, adv, hs, hd, ho, Bool.false_eq_true, if_false, if_true]
  rfl

theorem concatOp_specF (l r : String) (vt : ValueType) (s : St) (hs : vt.isSlice = false) (hd : vt.dt = .string) :
    binaryOp l "+" r vt s = .ok ("${" ++ (ctxOf s).hn s.varCounter ++ "}",
      adv s [.assign ((ctxOf s).hn s.varCounter) (l ++ r)] 1) := by
  simp only [binaryOp, bind, nextHelperVar, varAssignment, varEvaluation, Tr.get, addLine, Tr.modify, pure,
    varEvalString, varName_upd, varName_upd1, adv, hs, hd, Bool.false_eq_true, if_false, beq_self_eq_true, if_true, toString_str]
  rfl

theorem compareOp_specF (os l op r : String) (vt : ValueType) (s : St) (hos : (os.length == 0) = false) :
    comparisonOpWith os l op r vt s = .ok ("${" ++ (ctxOf s).hn s.varCounter ++ "}",
      adv s [.assignTest ((ctxOf s).hn s.varCounter) (.cmp l os r) "1" "0"] 1) := by
  unfold comparisonOpWith
  rw [if_neg (by simp [hos])]
  simp only [bind, nextHelperVar, varAssignTest, varEvaluation, Tr.get, addLine, Tr.modify, pure,
    varEvalString, varName_upd, varName_upd1, adv]
  rfl

theorem logicalOp_specF (l op r : String) (s : St) (ho : (op == "&&" || op == "||") = true) :
    logicalOp l op r s = .ok ("${" ++ (ctxOf s).hn s.varCounter ++ "}",
      adv s [.assignTest ((ctxOf s).hn s.varCounter) (.log l op r) "1" "0"] 1) := by
  unfold logicalOp
  rw [if_pos ho]
  simp only [bind, nextHelperVar, varAssignTest, varEvaluation, Tr.get, addLine, Tr.modify, pure,
    varEvalString, varName_upd, varName_upd1, adv]
  rfl

/-! ### how the source evaluation of a node decomposes -/

theorem src_unary {fuel : Nat} {e : Expr} {vt : ValueType} {c : SCfg} {res : R (List Opd)}
    (h : evalE fuel (.unary "!" e vt) c = some res) :
    (∃ f k c1, evalE f e c = some (.exit k c1) ∧ res = .exit k c1) ∨
    (∃ f o c1 b, evalE f e c = some (.ok [o] c1) ∧ resolve c1 o = some (.bool b) ∧ res = .ok [.lit (.bool (!b))] c1) := by
  cases fuel with
  | zero => simp [evalE] at h
  | succ f =>
    simp only [evalE, beq_self_eq_true, if_true] at h
    split at h
    · rename_i o c1 hx
      split at h
      · rename_i b hb
        simp only [Option.some.injEq] at h
        exact Or.inr ⟨f, o, c1, b, hx, hb, h.symm⟩
      · simp at h
    · rename_i k c1 hx
      simp only [Option.some.injEq] at h
      exact Or.inl ⟨f, k, c1, hx, h.symm⟩
    · simp at h

/-- the common shape of the three two-operand nodes -/
def TwoRes (l r : Expr) (opf : SCfg → Opd → Opd → Option Val) (c : SCfg) (res : R (List Opd)) : Prop :=
  (∃ f k c1, evalE f l c = some (.exit k c1) ∧ res = .exit k c1) ∨
  (∃ f a c1, evalE f l c = some (.ok [a] c1) ∧
    ((∃ f' k c2, evalE f' r c1 = some (.exit k c2) ∧ res = .exit k c2) ∨
     (∃ f' b c2 w, evalE f' r c1 = some (.ok [b] c2) ∧ opf c2 a b = some w ∧ res = .ok [.lit w] c2)))

def binOpf (vt : ValueType) (op : String) (c2 : SCfg) (a b : Opd) : Option Val :=
  match resolve c2 a, resolve c2 b with
  | some va, some vb => Sem.Src.binVal vt op va vb
  | _, _ => none

def cmpOpf (vt : ValueType) (op : String) (c2 : SCfg) (a b : Opd) : Option Val :=
  match resolve c2 a, resolve c2 b with
  | some va, some vb => Sem.Src.cmpVal vt op va vb
  | _, _ => none

def logOpf (op : String) (c2 : SCfg) (a b : Opd) : Option Val :=
  match resolve c2 a, resolve c2 b with
  | some (.bool x), some (.bool y) =>
      if op == "&&" then some (.bool (x && y)) else if op == "||" then some (.bool (x || y)) else none
  | _, _ => none

theorem src_binary {fuel : Nat} {op : String} {l r : Expr} {c : SCfg} {res : R (List Opd)}
    (h : evalE fuel (.binary op l r) c = some res) :
    TwoRes l r (binOpf (Expr.valueType l) op) c res := by
  cases fuel with
  | zero => simp [evalE] at h
  | succ f =>
    simp only [evalE] at h
    split at h
    · rename_i a c1 hl
      refine Or.inr ⟨f, a, c1, hl, ?_⟩
      split at h
      · rename_i b c2 hr
        split at h
        · rename_i va vb hva hvb
          split at h
          · rename_i v hv
            simp only [Option.some.injEq] at h
            exact Or.inr ⟨f, b, c2, v, hr, by simp [binOpf, cmpOpf, hva, hvb, hv], h.symm⟩
          · simp at h
        · simp at h
      · rename_i k c2 hr
        simp only [Option.some.injEq] at h
        exact Or.inl ⟨f, k, c2, hr, h.symm⟩
      · simp at h
    · rename_i k c1 hl
      simp only [Option.some.injEq] at h
      exact Or.inl ⟨f, k, c1, hl, h.symm⟩
    · simp at h

theorem src_compare {fuel : Nat} {op : String} {l r : Expr} {c : SCfg} {res : R (List Opd)}
    (h : evalE fuel (.compare op l r) c = some res) :
    TwoRes l r (cmpOpf (Expr.valueType l) op) c res := by
  cases fuel with
  | zero => simp [evalE] at h
  | succ f =>
    simp only [evalE] at h
    split at h
    · rename_i a c1 hl
      refine Or.inr ⟨f, a, c1, hl, ?_⟩
      split at h
      · rename_i b c2 hr
        split at h
        · rename_i va vb hva hvb
          split at h
          · rename_i v hv
            simp only [Option.some.injEq] at h
            exact Or.inr ⟨f, b, c2, v, hr, by simp [binOpf, cmpOpf, hva, hvb, hv], h.symm⟩
          · simp at h
        · simp at h
      · rename_i k c2 hr
        simp only [Option.some.injEq] at h
        exact Or.inl ⟨f, k, c2, hr, h.symm⟩
      · simp at h
    · rename_i k c1 hl
      simp only [Option.some.injEq] at h
      exact Or.inl ⟨f, k, c1, hl, h.symm⟩
    · simp at h

theorem src_logical {fuel : Nat} {op : String} {l r : Expr} {c : SCfg} {res : R (List Opd)}
    (h : evalE fuel (.logical op l r) c = some res) :
    TwoRes l r (logOpf op) c res := by
  cases fuel with
  | zero => simp [evalE] at h
  | succ f =>
    simp only [evalE] at h
    split at h
    · rename_i a c1 hl
      refine Or.inr ⟨f, a, c1, hl, ?_⟩
      split at h
      · rename_i b c2 hr
        split at h
        · rename_i x y hva hvb
          split at h
          · rename_i ho
            simp only [Option.some.injEq] at h
            exact Or.inr ⟨f, b, c2, _, hr, by simp [logOpf, hva, hvb, ho], h.symm⟩
          · split at h
            · rename_i ho1 ho2
              simp only [Option.some.injEq] at h
              exact Or.inr ⟨f, b, c2, _, hr, by simp [logOpf, hva, hvb, ho1, ho2], h.symm⟩
            · simp at h
        · simp at h
      · rename_i k c2 hr
        simp only [Option.some.injEq] at h
        exact Or.inl ⟨f, k, c2, hr, h.symm⟩
      · simp at h
    · rename_i k c1 hl
      simp only [Option.some.injEq] at h
      exact Or.inl ⟨f, k, c1, hl, h.symm⟩
    · simp at h

/-- from the common shape to the premise of `esim_binary` -/
theorem two_to_esim {ctx : Ctx} {l r : Expr} {opf : SCfg → Opd → Opd → Option Val} {tl tr : String} {k : Nat} {line : Line} {hname : String}
    (hstep : ∀ c2 a b w m2, opf c2 a b = some w → AgreeF ctx c2 m2 → HoldsF ctx tl a k m2.ρ → HoldsF ctx tr b k m2.ρ →
      stepSimple line m2 = some (.normal, { m2 with ρ := m2.ρ.set hname w.render }))
    {c : SCfg} {res : R (List Opd)} (h : TwoRes l r opf c res) :
    (∃ f k' c1, evalE f l c = some (.exit k' c1) ∧ res = .exit k' c1) ∨
    (∃ f a c1, evalE f l c = some (.ok [a] c1) ∧
      ((∃ f' k' c2, evalE f' r c1 = some (.exit k' c2) ∧ res = .exit k' c2) ∨
       (∃ f' b c2 w, evalE f' r c1 = some (.ok [b] c2) ∧ res = .ok [.lit w] c2 ∧
          ∀ m2, AgreeF ctx c2 m2 → HoldsF ctx tl a k m2.ρ → HoldsF ctx tr b k m2.ρ →
            stepSimple line m2 = some (.normal, { m2 with ρ := m2.ρ.set hname w.render })))) := by
  rcases h with h | ⟨f, a, c1, hl, h⟩
  · exact Or.inl h
  · refine Or.inr ⟨f, a, c1, hl, ?_⟩
    rcases h with h | ⟨f', b, c2, w, hr, hop, hres⟩
    · exact Or.inl h
    · exact Or.inr ⟨f', b, c2, w, hr, hres, fun m2 ha h1 h2 => hstep c2 a b w m2 hop ha h1 h2⟩

end Tsh.Sem2
