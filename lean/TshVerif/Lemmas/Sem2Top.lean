/-
  Whole programs with functions: a function definition at top level extends the table (and what the table says
  about the new body is proved from the statement theorems, the parameter lines and the frame property); the
  other top-level statements run against the table built so far.
-/
import TshVerif.Lemmas.Sem2Func
import TshVerif.Lemmas.Sem2SrcFuns
namespace Tsh.Sem2
open Tsh Tsh.Tr Tsh.Bash Tsh.Sem Tsh.Sem2.Src
open Tsh.Sem.Src (Val Env)

/-- names with the prefix of function number `j` -/
def Pref (j : Nat) (n : String) : Prop := ∃ a, n = fnPrefix j ++ a

/-- static facts about the bodies of a table: what their lines assign, which functions they call -/
def TStat (D : List String) (T : List FEntry) : Prop :=
  ∀ e ∈ T, SL (Touched e.j e.b) (Pref e.j) D (flats e.body)

theorem SL.mono {P P' Q : String → Prop} {D D' : List String} {ls : List Line} (h : SL P Q D ls) (hp : ∀ x, P x → P' x)
    (hd : ∀ x ∈ D, x ∈ D') : SL P' Q D' ls := by
  intro l hl
  obtain ⟨h1, h2, h3, h4⟩ := h l hl
  exact ⟨fun x hx => hp x (h1 x hx), fun nm ar e => hd nm (h2 nm ar e), h3, h4⟩

theorem SL.append {P Q : String → Prop} {D : List String} {a b : List Line} (h1 : SL P Q D a) (h2 : SL P Q D b) : SL P Q D (a ++ b) := by
  intro l hl
  simp only [List.mem_append] at hl
  rcases hl with hl | hl
  · exact h1 l hl
  · exact h2 l hl

theorem TStat.mono {D D' : List String} {T : List FEntry} (h : TStat D T) (hd : ∀ x ∈ D, x ∈ D') : TStat D' T :=
  fun e he => (h e he).mono (fun _ hx => hx) hd

/-- the run-time table has the static property the frame lemma asks for -/
theorem tblStatic_of {T Tr : List FEntry} {j b : Nat} (hst : TStat (tnames T) T) (hsuf : T <:+ Tr) (hnd : (tnames Tr).Nodup)
    (hjb : ∀ e ∈ T, e.j ≤ j ∧ e.b ≤ b) : TblStatic (Touched j b) (tnames T) (shTable Tr) := by
  intro name hname
  simp only [tnames, List.mem_map] at hname
  obtain ⟨e, he, hn⟩ := hname
  refine ⟨e.body, Pref e.j, ?_, ?_, ?_⟩
  · rw [← hn]; exact lookup_sh Tr e hnd (hsuf.subset he)
  · exact (hst e he).mono (fun x hx => touched_mono (hjb e he).1 (hjb e he).2 hx) (fun _ hx => hx)
  · rintro n ⟨a, rfl⟩
    exact Or.inl ⟨e.j, a, (hjb e he).1, rfl⟩

theorem outRel_exit {o : SOut} {o' : Out} (h : OutRel o o') (hne : ∀ k, o ≠ .exit k) : ∀ k, o' ≠ .exit k := by
  intro k e
  subst e
  cases o <;> simp [OutRel] at h
  exact hne _ rfl

/-- what the table may say about a function whose body was translated in its own context -/
theorem body_sim {T : List FEntry} {j b B k : Nat} {fd : FunDef} {cmds : List Cmd}
    (hst : TStat (tnames T) T) (hjb : ∀ e ∈ T, e.j ≤ j ∧ e.b ≤ b)
    (hgood : (fd.params.all (fun p => goodName2 p.name)) = true)
    (hlines : LinesOK ⟨true, j⟩ b (tnames T) (flats cmds))
    (hsim : SimF ⟨true, j⟩ T B (fun f c => execSs f fd.body c) cmds k) :
    BodySim ⟨fd, (paramLinesF j (fd.params.map (·.name)) 0).map Cmd.simple ++ cmds, j, b⟩ T ∧
      SL (Touched j b) (Pref j) (tnames T) (flats ((paramLinesF j (fd.params.map (·.name)) 0).map Cmd.simple ++ cmds)) := by
  have hsl : SL (Touched j b) (Pref j) (tnames T) (flats ((paramLinesF j (fd.params.map (·.name)) 0).map Cmd.simple ++ cmds)) := by
    rw [flats_append, flats_simples]
    exact (paramLines_SL j b (tnames T) _ 0).append (linesOK_SL (Nat.le_refl b) (Pref j) hlines)
  refine ⟨?_, hsl⟩
  intro Tr c m vals fuel o c2 hsuf hnd hcf hmf hag hlen hb
  have hsufT : T <:+ Tr := (List.suffix_cons _ T).trans hsuf
  obtain ⟨m1, ex1, hbind, hfr1, ho1, hfu1, har1, hsv1, harr1⟩ := params_sem j fd.params vals 0
    { m with args := vals.map Val.render, saved := [] } [] (fun _ => none) (by simp) rfl hlen (by intro x v h; cases h)
  have hinv : Inv ⟨true, j⟩ T { c with lenv := bindParams (fun _ => none) fd.params vals, inFn := true } m1 := by
    refine ⟨⟨rfl, ?_, ?_, ?_, ⟨?_, ?_, hag.hp.fresh⟩⟩, ⟨Tr, hsufT, hnd, hcf, by rw [hfu1]; exact hmf⟩⟩
    rotate_left 3
    · rw [hfr1 _ (fun a => special_ne_prefixed (x := "_dvc") (by decide) j a)]; exact hag.hp.dvc
    · intro id; rw [harr1]; exact hag.hp.heap id
    · show c.out = m1.out
      rw [ho1]; exact hag.out
    · intro x v hx
      obtain ⟨hg, hv⟩ := hag.glob x v hx
      exact ⟨hg, by rw [hfr1 x (fun a => good2_ne_prefixed x j a hg)]; exact hv⟩
    · intro _ x v hx
      exact ⟨bindParams_good fd.params vals _ x v hgood (by intro y w h; cases h) hx, hbind x v hx⟩
  obtain ⟨m2, o', ex2, hor, hout, hkept, hret⟩ := hsim fuel _ o c2 hb m1 hinv
  have ex := execCmds_append ex1 ex2
  refine ⟨m2, o', ex, hor, hout, ?_⟩
  intro hne
  obtain ⟨hinv2, hctl, _⟩ := hkept hne
  have hsame := (funsOK fuel).execSs [] fd.body _ o c2 (Or.inl rfl) hb hne
  have hfrm := execCmds_frame ex hsl (by show TblStatic _ _ m.funs; rw [hmf]; exact tblStatic_of hst hsufT hnd hjb)
  refine ⟨hinv2.agree.toG, hsame.1, ?_, hret, ?_, ?_⟩
  · rw [hctl.2.2, hfu1]
  · intro x hx; exact hfrm.rho x hx
  · exact hfrm.saved (outRel_exit hor hne) (by intro p hp; cases hp)

/-! ### converter states along the top level -/

/-- `adv2`, and `fc` more functions -/
def adv3 (s : St) (new : List Line) (n m fc : Nat) : St :=
  { s with code := new ++ s.code, varCounter := s.varCounter + n, forCounter := s.forCounter + m, funcCounter := s.funcCounter + fc }

theorem adv2_eq_adv3 (s : St) (new : List Line) (n m : Nat) : adv2 s new n m = adv3 s new n m 0 := rfl
theorem adv3_adv3 (s : St) (a b : List Line) (n1 m1 f1 n2 m2 f2 : Nat) :
    adv3 (adv3 s a n1 m1 f1) b n2 m2 f2 = adv3 s (b ++ a) (n1 + n2) (m1 + m2) (f1 + f2) := by
  simp [adv3, Nat.add_assoc]
theorem adv3_reqSt (s : St) (r : Req) (new : List Line) (n m fc : Nat) : adv3 (reqSt s r) new n m fc = reqSt (adv3 s new n m fc) r := rfl

/-- translating a function definition at top level -/
theorem funcdef_compile {T : List FEntry} (hT : TableOK T) (hst : TStat (tnames T) T) {s s' : St} (h0 : s.funcs = [])
    (hjb : ∀ e ∈ T, e.j ≤ s.funcCounter ∧ e.b ≤ s.forCounter)
    {name : String} {pub : Bool} {rets : List ValueType} {params : List Var} {body : List Stmt}
    (hgood : (params.all (fun p => goodName2 p.name)) = true) (hfr : fragSs (tnames T) body = true)
    (h : evalStmt conv (.funcDef name pub rets params body) s = .ok ((), s')) :
    ∃ bodyCmds n mm rq, s' = reqSt (adv3 s (flat (.fn name bodyCmds)).reverse n mm 1) rq ∧
      BodySim ⟨{ name := name, params := params, rets := rets, body := body }, bodyCmds, s.funcCounter + 1, s.forCounter + mm⟩ T ∧
      SL (Touched (s.funcCounter + 1) (s.forCounter + mm)) (Pref (s.funcCounter + 1)) (tnames T) (flats bodyCmds) := by
  unfold evalStmt at h
  obtain ⟨_, s1, h1, h⟩ := bind_ok h
  obtain ⟨_, s2, h2, h3⟩ := bind_ok h
  have h1' : (do Tr.modify (fun s => { s with funcs := name :: s.funcs, funcCounter := s.funcCounter + 1 });
                 addLine (.funcStart name); localParams (params.map (·.name)) 0 : BM Unit) s = .ok ((), s1) := h1
  obtain ⟨_, sa, ha, h1'⟩ := bind_ok h1'
  obtain ⟨_, sb, hb, hc⟩ := bind_ok h1'
  simp [Tr.modify] at ha
  have eb := addLine_ok hb
  rw [C02.parameters_bound_in_order] at hc
  simp only [Res.ok.injEq, Prod.mk.injEq, true_and] at hc
  subst ha eb
  have hin : inFunction s1 = true := by rw [← hc]; simp [inFunction]
  have hfc : s1.funcCounter = s.funcCounter + 1 := by rw [← hc]
  have hfo : s1.forCounter = s.forCounter := by rw [← hc]
  have hctx1 : ctxOf s1 = ⟨true, s.funcCounter + 1⟩ := by simp [ctxOf, hin, hfc]
  have hctx : CtxOK ⟨true, s.funcCounter + 1⟩ T s.forCounter :=
    ⟨fun _ e he => by have := (hjb e he).1; show e.j < s.funcCounter + 1; omega, fun e he => (hjb e he).2⟩
  obtain ⟨cmds, n, mm, rb, e2, hlines, hsim⟩ := block_semF hT hctx body hfr s1 s2 hctx1 (by rw [hfo]; exact Nat.le_refl _) h2
  have e3 := funcEnd_ok h3
  rw [hfo] at hlines
  obtain ⟨hbs, hsl⟩ := body_sim (fd := { name := name, params := params, rets := rets, body := body }) (B := s.forCounter) hst
    (fun e he => ⟨by have := (hjb e he).1; omega, by have := (hjb e he).2; omega⟩) hgood hlines hsim
  refine ⟨_, n, mm, rb, ?_, hbs, hsl⟩
  have hpl : C02.paramLines s1 (params.map (·.name)) 0 = paramLinesF (s.funcCounter + 1) (params.map (·.name)) 0 := by
    rw [paramLines_ctx s1 hin, hfc]
  rw [e3, e2]
  have hcode : s1.code = (paramLinesF (s.funcCounter + 1) (params.map (·.name)) 0).reverse ++ (.funcStart name :: s.code) := by
    rw [← hc]; simp only []
    have : C02.paramLines { s with funcs := name :: s.funcs, funcCounter := s.funcCounter + 1, code := .funcStart name :: s.code } (params.map (·.name)) 0
        = C02.paramLines s1 (params.map (·.name)) 0 := by
      rw [paramLines_ctx _ (by simp [inFunction]), paramLines_ctx s1 hin, hfc]
    rw [this, hpl]
  apply Tsh.Sem2.St.ext2
  · show s1.startCode = s.startCode; rw [← hc]
  · show Line.funcEnd :: ((flats cmds).reverse ++ s1.code) = _
    rw [hcode]
    simp [adv3, reqSt, adv2, flat, flats_append, flats_simples]
  · show s1.varCounter + n = s.varCounter + n; rw [← hc]
  · show s1.forCounter + mm = s.forCounter + mm; rw [hfo]
  · show s1.fors = s.fors; rw [← hc]
  · show s1.funcs.tail = s.funcs; rw [← hc]; simp [h0]
  · show s1.funcCounter = s.funcCounter + 1; exact hfc
  · show (s1.sahReq || rb.sah) = (s.sahReq || rb.sah); rw [← hc]
  · show (s1.schReq || rb.sch) = (s.schReq || rb.sch); rw [← hc]
  · show (s1.sshReq || rb.ssh) = (s.sshReq || rb.ssh); rw [← hc]

/-! ### the top level -/

/-- source and shell at top level: agreement, and exactly the functions of the table on both sides -/
structure TopInv (T : List FEntry) (c : SCfg) (m : Cfg) : Prop where
  agree : AgreeF ⟨false, 0⟩ c m
  sfuns : c.funs = srcTable T
  mfuns : m.funs = shTable T

theorem agreeF_top {k k' : Nat} {c : SCfg} {m : Cfg} (h : AgreeF ⟨false, k⟩ c m) : AgreeF ⟨false, k'⟩ c m :=
  ⟨h.inFn, h.out, h.glob, (fun hin => by cases hin), h.hp⟩

/-- what a top-level piece of the program achieves -/
def ProgSim (T : List FEntry) (p : List Stmt) (cmds : List Cmd) : Prop :=
  ∀ fuel c o c', execSs fuel p c = some (o, c') → ∀ m, TopInv T c m →
    ∃ m' o', ExecCmds cmds m o' m' ∧ OutRel o o' ∧ c'.out = m'.out

theorem fragP_cons {ds : List String} {st : Stmt} {rest : List Stmt} (h : fragP ds (st :: rest) = true) :
    (∃ name pub rets params body, st = .funcDef name pub rets params body ∧ ds.contains name = false ∧
      (params.all (fun x => goodName2 x.name)) = true ∧ fragSs ds body = true ∧ fragP (name :: ds) rest = true) ∨
    (fragS ds st = true ∧ fragP ds rest = true) := by
  cases st
  case funcDef name pub rets params body =>
    simp only [fragP, Bool.and_eq_true, Bool.not_eq_true'] at h
    exact Or.inl ⟨name, pub, rets, params, body, rfl, h.1.1.1, h.1.1.2, h.1.2, h.2⟩
  all_goals
    simp only [fragP, Bool.and_eq_true] at h
    exact Or.inr h

theorem src_funcDef {fuel : Nat} {name : String} {pub : Bool} {rets : List ValueType} {params : List Var} {body : List Stmt}
    {c c' : SCfg} {o : SOut} (hin : c.inFn = false) (h : execS fuel (.funcDef name pub rets params body) c = some (o, c')) :
    o = .normal ∧ c' = { c with funs := { name := name, params := params, rets := rets, body := body } :: c.funs } := by
  cases fuel with
  | zero => simp [execS] at h
  | succ f =>
    simp only [execS] at h
    rw [if_neg (by simp [hin])] at h
    simp only [Option.some.injEq, Prod.mk.injEq] at h
    exact ⟨h.1.symm, h.2.symm⟩

theorem prog_semF : ∀ (p : List Stmt) (T : List FEntry) (s s' : St), fragP (tnames T) p = true → TableOK T → TStat (tnames T) T →
    (tnames T).Nodup → s.funcs = [] → (∀ e ∈ T, e.j ≤ s.funcCounter ∧ e.b ≤ s.forCounter) → evalStmts conv p s = .ok ((), s') →
    ∃ cmds n mm fc rq, s' = reqSt (adv3 s (flats cmds).reverse n mm fc) rq ∧ ProgSim T p cmds
  | [], T, s, s', _, _, _, _, _, _, h => by
    unfold evalStmts at h
    obtain ⟨_, es⟩ := pure_ok h
    refine ⟨[], 0, 0, 0, Req.none, by rw [es, reqSt_none]; simp [adv3, flats], ?_⟩
    intro fuel c o c' hs m hi
    cases fuel with
    | zero => simp [execSs] at hs
    | succ f =>
      simp only [execSs, Option.some.injEq, Prod.mk.injEq] at hs
      obtain ⟨rfl, rfl⟩ := hs
      exact ⟨m, .normal, ExecCmds.nil, trivial, hi.agree.out⟩
  | st :: rest, T, s, s', hf, hT, hst, hnd, h0, hjb, h => by
    unfold evalStmts at h
    obtain ⟨_, s1, h1, h2⟩ := bind_ok h
    rcases fragP_cons hf with ⟨name, pub, rets, params, body, rfl, hnew, hgood, hfb, hfrest⟩ | ⟨hfs, hfrest⟩
    · -- a function definition
      obtain ⟨bodyCmds, n, mm, r1, e1, hbs, hsl⟩ := funcdef_compile hT hst h0 hjb hgood hfb h1
      let e : FEntry := ⟨{ name := name, params := params, rets := rets, body := body }, bodyCmds, s.funcCounter + 1, s.forCounter + mm⟩
      have hT' : TableOK (e :: T) :=
        ⟨hbs, hT, fun e' he' => ⟨by have := (hjb e' he').1; show e'.j < s.funcCounter + 1; omega,
          by have := (hjb e' he').2; show e'.b ≤ s.forCounter + mm; omega⟩⟩
      have hnames : tnames (e :: T) = name :: tnames T := rfl
      have hst' : TStat (tnames (e :: T)) (e :: T) := by
        intro e' he'
        simp only [List.mem_cons] at he'
        rcases he' with rfl | he'
        · exact hsl.mono (fun _ hx => hx) (fun x hx => by rw [hnames]; exact List.mem_cons_of_mem _ hx)
        · exact (hst e' he').mono (fun _ hx => hx) (fun x hx => by rw [hnames]; exact List.mem_cons_of_mem _ hx)
      have hnd' : (tnames (e :: T)).Nodup := by
        rw [hnames, List.nodup_cons]
        refine ⟨?_, hnd⟩
        intro hmem
        have : (tnames T).contains name = true := by simpa using hmem
        rw [hnew] at this; cases this
      have h01 : s1.funcs = [] := by rw [e1]; exact h0
      have hjb' : ∀ e' ∈ e :: T, e'.j ≤ s1.funcCounter ∧ e'.b ≤ s1.forCounter := by
        intro e' he'
        have hc1 : s1.funcCounter = s.funcCounter + 1 := by rw [e1]; rfl
        have hc2 : s1.forCounter = s.forCounter + mm := by rw [e1]; rfl
        simp only [List.mem_cons] at he'
        rcases he' with rfl | he'
        · exact ⟨by rw [hc1]; exact Nat.le_refl _, by rw [hc2]; exact Nat.le_refl _⟩
        · have := hjb e' he'
          exact ⟨by rw [hc1]; omega, by rw [hc2]; omega⟩
      obtain ⟨cmds, n2, mm2, fc2, r2, e2, sim2⟩ := prog_semF rest (e :: T) s1 s' (by rw [hnames]; exact hfrest) hT' hst' hnd' h01 hjb' h2
      refine ⟨.fn name bodyCmds :: cmds, n + n2, mm + mm2, 1 + fc2, r1.or r2, ?_, ?_⟩
      · rw [e2, e1, adv3_reqSt, reqSt_reqSt, adv3_adv3]
        simp [flats]
      · intro fuel c o c' hs m hi
        have hin : c.inFn = false := hi.agree.inFn
        rcases execSs_cons_cases hs with ⟨f1, hs1, hne⟩ | ⟨f1, f2, c1, hs1, hs2⟩
        · exact absurd (src_funcDef hin hs1).1 hne
        · obtain ⟨_, rfl⟩ := src_funcDef hin hs1
          have hi' : TopInv (e :: T) { c with funs := { name := name, params := params, rets := rets, body := body } :: c.funs }
              { m with funs := (name, bodyCmds) :: m.funs } :=
            ⟨⟨hi.agree.inFn, hi.agree.out, hi.agree.glob, (fun hin => by cases hin), ⟨hi.agree.hp.dvc, hi.agree.hp.heap, hi.agree.hp.fresh⟩⟩,
             by show _ :: c.funs = _; rw [hi.sfuns]; rfl, by show _ :: m.funs = _; rw [hi.mfuns]; rfl⟩
          obtain ⟨m', o', ex, hor, hout⟩ := sim2 f2 _ o c' hs2 _ hi'
          exact ⟨m', o', ExecCmds.cons ExecCmd.fnDef ex, hor, hout⟩
    · -- any other statement of the fragment
      have hin : inFunction s = false := by simp [inFunction, h0]
      have hctx : CtxOK (ctxOf s) T s.forCounter :=
        ⟨fun hi => by simp [ctxOf, hin] at hi, fun e he => (hjb e he).2⟩
      obtain ⟨cmds1, n, mm, r1, e1, _, sim1⟩ := stmt_semF hT hctx st hfs s s1 rfl (Nat.le_refl _) h1
      have h01 : s1.funcs = [] := by rw [e1]; exact h0
      have hjb' : ∀ e' ∈ T, e'.j ≤ s1.funcCounter ∧ e'.b ≤ s1.forCounter := by
        intro e' he'
        have hc1 : s1.funcCounter = s.funcCounter := by rw [e1]; rfl
        have hc2 : s1.forCounter = s.forCounter + mm := by rw [e1]; rfl
        have := hjb e' he'
        exact ⟨by rw [hc1]; exact this.1, by rw [hc2]; omega⟩
      obtain ⟨cmds, n2, mm2, fc2, r2, e2, sim2⟩ := prog_semF rest T s1 s' hfrest hT hst hnd h01 hjb' h2
      refine ⟨cmds1 ++ cmds, n + n2, mm + mm2, 0 + fc2, r1.or r2, ?_, ?_⟩
      · rw [e2, e1, adv2_eq_adv3, adv3_reqSt, reqSt_reqSt, adv3_adv3, flats_append, List.reverse_append]
      · intro fuel c o c' hs m hi
        have hctxeq : ctxOf s = ⟨false, s.funcCounter⟩ := by simp [ctxOf, hin]
        have hinv : Inv (ctxOf s) T c m := by
          rw [hctxeq]
          exact ⟨agreeF_top hi.agree, ⟨T, List.suffix_refl _, hnd, hi.sfuns, hi.mfuns⟩⟩
        rcases execSs_cons_cases hs with ⟨f1, hs1, hne⟩ | ⟨f1, f2, c1, hs1, hs2⟩
        · obtain ⟨m', o', ex, hor, hout, _, _⟩ := sim1 f1 c o c' hs1 m hinv
          exact ⟨m', o', execCmds_stop_append cmds ex (fun e => hne ((outRel_normal hor).mp e)), hor, hout⟩
        · obtain ⟨m1, o1, ex1, hor1, _, hk, _⟩ := sim1 f1 c .normal c1 hs1 m hinv
          have ho1 : o1 = .normal := (outRel_normal hor1).mpr rfl
          subst ho1
          obtain ⟨hinv1, hctl, _⟩ := hk (fun k => by simp)
          have hsame := (funsOK f1).execS (tnames T) st c .normal c1 (Or.inr (fragS_nd _ _ hfs)) hs1 (fun k => by simp)
          have hi1 : TopInv T c1 m1 := by
            refine ⟨?_, by rw [hsame.1]; exact hi.sfuns, by rw [hctl.2.2]; exact hi.mfuns⟩
            have := hinv1.agree
            rw [hctxeq] at this
            exact agreeF_top this
          obtain ⟨m', o', ex2, hor, hout⟩ := sim2 f2 c1 o c' hs2 m1 hi1
          exact ⟨m', o', execCmds_append ex1 ex2, hor, hout⟩

end Tsh.Sem2
