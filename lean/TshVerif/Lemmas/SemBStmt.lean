/-
  Straight-line statements of the scalar fragment, Batch target: definitions and assignments of one variable,
  `print`, `panic` - the emitted lines do, in the cmd model, what the 32-bit source semantics says.
-/
import TshVerif.Lemmas.SemBExprMain
import TshVerif.Lemmas.SemStmt
namespace Tsh.SemB
open Tsh Tsh.Tr Tsh.Batch Tsh.Sem

theorem runLinesB_of_runN {ls : List BLine} {c c1 : Cfg} (h : runN ls c = some c1) (rest : List BLine) :
    runLinesB (ls ++ rest) c = runLinesB rest c1 := by
  induction ls generalizing c with
  | nil => simp only [runN, Option.some.injEq] at h; subst h; rfl
  | cons l ls ih =>
    simp only [runN] at h
    split at h
    · rename_i c' hs
      simp only [List.cons_append, runLinesB, hs]
      exact ih h
    · simp at h

theorem e_ne_helper (k : Nat) : "_e" ≠ helperName k := by
  intro e
  have := congrArg String.toList e
  simp [helperName, String.toList_append] at this

theorem flag_ne_fa0 (j : Nat) : flagName j ≠ "_fa0" := by
  intro e
  have h' : (flagName j).toList = ("_fa0" : String).toList := by rw [e]
  simp [flagName_eq, String.toList_append] at h'

theorem flag_ne_e (j : Nat) : flagName j ≠ "_e" := by
  intro e
  have h' : (flagName j).toList = ("_e" : String).toList := by rw [e]
  simp [flagName_eq, String.toList_append] at h'

/-- the exit-code variable `_e` and every loop flag `_fv<j>` keep their values -/
def Keeps (ρ ρ' : Store) : Prop := ρ' "_e" = ρ "_e" ∧ ∀ j, ρ' (flagName j) = ρ (flagName j)

theorem Keeps.refl (ρ : Store) : Keeps ρ ρ := ⟨rfl, fun _ => rfl⟩
theorem Keeps.trans {ρ ρ1 ρ2 : Store} (h1 : Keeps ρ ρ1) (h2 : Keeps ρ1 ρ2) : Keeps ρ ρ2 :=
  ⟨by rw [h2.1, h1.1], fun j => by rw [h2.2 j, h1.2 j]⟩
theorem keeps_of_frameH {a b : Nat} {ρ ρ' : Store} (fr : FrameH a b ρ ρ') : Keeps ρ ρ' :=
  ⟨fr _ (fun k _ _ => e_ne_helper k), fun j => fr _ (fun k _ _ => flag_ne_helper j k)⟩
theorem keeps_set_good {ρ : Store} (x v : String) (hx : goodName x = true) : Keeps ρ (ρ.set x v) :=
  ⟨set_other _ _ _ _ (fun e => by subst e; revert hx; decide), fun j => set_other _ _ _ _ (fun e => good_ne_flag x j hx e.symm)⟩
theorem keeps_set_fa0 {ρ : Store} (v : String) : Keeps ρ (ρ.set "_fa0" v) :=
  ⟨set_other _ _ _ _ (by decide), fun j => set_other _ _ _ _ (flag_ne_fa0 j)⟩

/-- What a statement's translation does.  For every run of the source statement from a configuration `c`:
    the state advanced by new global lines only, and from every store that agrees with `c`'s environment the new
    lines run, in the cmd model, to the same outcome and the same printed lines; after a normal end the store
    agrees with the new environment and the exit-code variable `_e` and the loop flags are untouched. -/
def StmtSemB (src : Src.SCfg → Option (Out × Src.SCfg)) (s s' : St) : Prop :=
  ∀ c o c', src c = some (o, c') → ∃ new n, Adv s s' new n ∧
    ∀ ρ, Agree c.env ρ → ∃ ρ', runLinesB new.reverse ⟨ρ, c.out⟩ = some (o, ⟨ρ', c'.out⟩) ∧
      (o = .normal → Agree c'.env ρ' ∧ Keeps ρ ρ')

theorem assign1B_ok {x : Var} {e : Expr} {s s' : St} {a : Unit}
    (h : assignValues conv [x] [e] s = .ok (a, s')) :
    ∃ r s1, Tr.evalExpr conv e true s = .ok (r, s1) ∧ varAssignment x.name (firstValue r) x.global s1 = .ok ((), s') := by
  unfold assignValues at h
  obtain ⟨values, s2, h1, h2⟩ := bindB_ok h
  simp only [List.length_cons, List.length_nil, Nat.zero_add] at h1
  unfold assignedValues at h1
  obtain ⟨r, s1, hr, g1⟩ := bindB_ok h1
  simp only [show ¬ (1 > 1) by omega, if_false] at g1
  obtain ⟨v, s1', hv, g2⟩ := bindB_ok g1
  obtain ⟨ev, es1⟩ := pureB_ok hv
  subst ev; subst es1
  obtain ⟨vs, s1'', hvs, g3⟩ := bindB_ok g2
  unfold assignedValues at hvs
  obtain ⟨evs, es2⟩ := pureB_ok hvs
  subst evs; subst es2
  obtain ⟨eva, es3⟩ := pureB_ok g3
  subst eva; subst es3
  refine ⟨r, _, hr, ?_⟩
  unfold storeValues at h2
  obtain ⟨_, s3, h3, h4⟩ := bindB_ok h2
  unfold storeValues at h4
  obtain ⟨_, es4⟩ := pureB_ok h4
  subst es4
  exact h3

theorem varAssignment_top {n v : String} {g : Bool} {s s' : St} (h0 : s.funcs = []) (h : varAssignment n v g s = .ok ((), s')) :
    Adv s s' [.set n v] 0 := by
  simp [varAssignment, bind, Tr.get, addLine, h0, varName, inFunction] at h
  rw [← h]; exact ⟨rfl, rfl, h0.symm, rfl, rfl, rfl, rfl, rfl, rfl, by simp [plainB], EnvExt.of_eq rfl rfl rfl rfl rfl rfl rfl rfl rfl rfl⟩

theorem stepB_set {t v : String} {k : Nat} {ρ : Store} (out : List String) (x : String) (h : HoldsD t v k ρ) :
    stepB (.set x t) ⟨ρ, out⟩ = some (.normal, ⟨ρ.set x v, out⟩) := by
  simp only [stepB, h.expand]

theorem good_ne_e (x : String) (h : goodName x = true) : "_e" ≠ x := by
  intro e; subst e; revert h; decide

theorem assign1B_sem {x : Var} {e : Expr} (hx : goodName x.name = true) {s s' : St} (h0 : s.funcs = [])
    (h : assignValues conv [x] [e] s = .ok ((), s')) (src : Src.SCfg → Option (Out × Src.SCfg))
    (hsrc : ∀ c o c', src c = some (o, c') →
      ∃ v, Src32.evalExpr c.env e = some v ∧ o = .normal ∧ c' = { c with env := c.env.set x.name v }) :
    StmtSemB src s s' := by
  obtain ⟨r, s1, hr, hst⟩ := assign1B_ok h
  intro c o c' hs
  obtain ⟨v, hv, eo, ec⟩ := hsrc c o c' hs
  subst eo; subst ec
  obtain ⟨t, new, n, er, ad, sem⟩ := exprB_sem e true s r s1 c.env v h0 hr hv
  subst er
  have h01 : s1.funcs = [] := by rw [ad.funcs]; exact h0
  have es' := varAssignment_top h01 hst
  refine ⟨[BLine.set x.name t] ++ new, n + 0, ?_, ?_⟩
  · exact ad.trans es' 
  · intro ρ ha
    obtain ⟨ρ1, run1, fr1, hold1⟩ := sem ρ c.out ha
    refine ⟨ρ1.set x.name v.render, ?_, fun _ => ⟨agree_set _ _ hx (fr1.agree ha), ?_⟩⟩
    · rw [List.reverse_append, runLinesB_of_runN run1]
      simp only [List.reverse_cons, List.reverse_nil, List.nil_append, runLinesB, firstValue, List.headD_cons,
        stepB_set c.out x.name hold1]
    · exact (keeps_of_frameH fr1).trans (keeps_set_good _ _ hx)

/-! ### print, panic -/

/-- all operand texts read as the values -/
def HoldsAllD : List String → List String → Nat → Store → Prop
  | [], [], _, _ => True
  | t :: ts, v :: vs, k, ρ => HoldsD t v k ρ ∧ HoldsAllD ts vs k ρ
  | _, _, _, _ => False

theorem HoldsAllD.frame : ∀ {ts vs : List String} {k k' : Nat} {ρ ρ' : Store}, HoldsAllD ts vs k ρ → k ≤ k' → FrameH k k' ρ ρ' →
    HoldsAllD ts vs k' ρ'
  | [], [], _, _, _, _, _, _, _ => trivial
  | _ :: _, _ :: _, _, _, _, _, h, hk, hf => ⟨h.1.frame hk hf, HoldsAllD.frame h.2 hk hf⟩
  | [], _ :: _, _, _, _, _, h, _, _ => h.elim
  | _ :: _, [], _, _, _, _, h, _, _ => h.elim

theorem evalAllB_sem : ∀ (es : List Expr) (s : St) (vals : List String) (s' : St), s.funcs = [] →
    evalAll conv es s = .ok (vals, s') →
      ∀ env vs, Src32.evalList env es = some vs → ∃ new n, Adv s s' new n ∧ ∀ ρ out, Agree env ρ →
        ∃ ρ', runN new.reverse ⟨ρ, out⟩ = some ⟨ρ', out⟩ ∧
          FrameH s.varCounter (s.varCounter + n) ρ ρ' ∧ HoldsAllD vals (vs.map Src.Val.render) (s.varCounter + n) ρ'
  | [], s, vals, s', _, h => by
    unfold evalAll at h
    obtain ⟨ev, es⟩ := pureB_ok h
    intro env vs hs
    simp only [Src32.evalList, Option.some.injEq] at hs
    subst hs; subst ev
    refine ⟨[], 0, by rw [es]; exact Adv.refl s, ?_⟩
    intro ρ out _
    exact ⟨ρ, rfl, FrameH.refl _ _ ρ, trivial⟩
  | e :: rest, s, vals, s', h0, h => by
    unfold evalAll at h
    obtain ⟨r, s1, h1, h⟩ := bindB_ok h
    obtain ⟨rs, s2, h2, h⟩ := bindB_ok h
    obtain ⟨ev, es⟩ := pureB_ok h
    intro env vs hs
    simp only [Src32.evalList] at hs
    split at hs
    · rename_i v vs' hv hvs
      simp only [Option.some.injEq] at hs
      subst hs
      obtain ⟨t, new1, n1, er, ad1, sem1⟩ := exprB_sem e true s r s1 env v h0 h1 hv
      subst er
      have h01 : s1.funcs = [] := by rw [ad1.funcs]; exact h0
      obtain ⟨new2, n2, ad2, sem2⟩ := evalAllB_sem rest s1 rs s2 h01 h2 env vs' hvs
      refine ⟨new2 ++ new1, n1 + n2, by rw [es]; exact ad1.trans ad2, ?_⟩
      intro ρ out ha
      obtain ⟨ρ1, run1, fr1, hold1⟩ := sem1 ρ out ha
      obtain ⟨ρ2, run2, fr2, hold2⟩ := sem2 ρ1 out (fr1.agree ha)
      rw [ad1.cnt] at fr2 hold2
      have e3 : s.varCounter + (n1 + n2) = s.varCounter + n1 + n2 := by omega
      refine ⟨ρ2, ?_, ?_, ?_⟩
      · rw [List.reverse_append, runN_append, run1]
        simp only [Option.bind]
        exact run2
      · rw [e3]; exact fr1.trans fr2 (by omega) (by omega)
      · subst ev
        rw [e3]
        exact ⟨hold1.frame (by omega) fr2, hold2⟩
    · simp at hs

theorem space_completeD (ρ : Store) : CompleteD ρ (" " : String).toList (" " : String).toList :=
  completeD_plain ρ _ (by intro c hc; simp at hc; subst hc; decide)

theorem holdsAllD_intercalate : ∀ {ts vs : List String} {k : Nat} {ρ : Store}, HoldsAllD ts vs k ρ →
    CompleteD ρ (" ".intercalate ts).toList (" ".intercalate vs).toList
  | [], [], _, ρ, _ => by simpa using CompleteD.nil ρ
  | [t], [v], _, _, h => by simpa using h.1.here
  | t :: t2 :: ts, v :: v2 :: vs, k, ρ, h => by
    rw [String.intercalate_cons_cons, String.intercalate_cons_cons]
    simp only [String.toList_append]
    exact (h.1.here.append (space_completeD ρ)).append (holdsAllD_intercalate h.2)
  | [], _ :: _, _, _, h => h.elim
  | _ :: _, [], _, _, h => h.elim
  | [_], _ :: _ :: _, _, _, h => h.2.elim
  | _ :: _ :: _, [_], _, _, h => h.2.elim

/-- `callEcho`: the line goes into `_fa0`, then the echo routine is called -/
theorem callEcho_top {vals : List String} {s s' : St} (h0 : s.funcs = []) (h : callEcho vals s = .ok ((), s')) :
    Adv s s' [.call "_ech" [], .set "_fa0" (" ".intercalate vals)] 0 := by
  simp [callEcho, callFunc, setGlobalArgs, varAssignment, bind, Tr.get, Tr.modify, addLine, h0, varName, inFunction,
    funcArgVar, trimLeftColon, pure] at h
  rw [← h]
  exact ⟨rfl, rfl, h0.symm, rfl, rfl, rfl, rfl, rfl, rfl, by simp [plainB], EnvExt.of_eq rfl rfl rfl rfl rfl rfl rfl rfl rfl rfl⟩

theorem fa0_ne_helper (k : Nat) : "_fa0" ≠ helperName k := by
  intro e
  have := congrArg String.toList e
  simp [helperName, String.toList_append] at this

theorem good_ne_fa0 (x : String) (h : goodName x = true) : x ≠ "_fa0" := by
  intro e; subst e; revert h; decide

theorem agree_set_fa0 {env : Src.Env} {ρ : Store} (v : String) (h : Agree env ρ) : Agree env (ρ.set "_fa0" v) := by
  intro y w hy
  obtain ⟨hg, hv⟩ := h y w hy
  exact ⟨hg, by rw [set_other _ _ _ _ (good_ne_fa0 y hg)]; exact hv⟩

theorem printB_sem {es : List Expr} {s s' : St} (h0 : s.funcs = [])
    (h : (do let vs ← evalAll conv es; conv.print vs : BM Unit) s = .ok ((), s')) :
    StmtSemB (fun c => Src32.execStmt 1 (.print es) c) s s' := by
  obtain ⟨vals, s1, h1, h2⟩ := bindB_ok h
  intro c o c' hs
  simp only [Src32.execStmt] at hs
  split at hs
  · rename_i vs hvs
    split at hs
    · rename_i hsafe
      simp only [Option.some.injEq, Prod.mk.injEq] at hs
      obtain ⟨rfl, rfl⟩ := hs
      obtain ⟨new, n, ad, sem⟩ := evalAllB_sem es s vals s1 h0 h1 c.env vs hvs
      have h01 : s1.funcs = [] := by rw [ad.funcs]; exact h0
      have h2' : callEcho vals s1 = .ok ((), s') := h2
      have ad2 := callEcho_top h01 h2'
      refine ⟨_, _, ad.trans ad2, ?_⟩
      intro ρ ha
      obtain ⟨ρ1, run1, fr1, hold1⟩ := sem ρ c.out ha
      refine ⟨ρ1.set "_fa0" (" ".intercalate (vs.map Src.Val.render)), ?_, fun _ => ⟨agree_set_fa0 _ (fr1.agree ha), ?_⟩⟩
      · rw [List.reverse_append, runLinesB_of_runN run1]
        have e1 : stepB (.set "_fa0" (" ".intercalate vals)) ⟨ρ1, c.out⟩ =
            some (.normal, ⟨ρ1.set "_fa0" (" ".intercalate (vs.map Src.Val.render)), c.out⟩) := by
          simp only [stepB, (holdsAllD_intercalate hold1).toExpand]
        simp only [List.reverse_cons, List.reverse_nil, List.nil_append, List.cons_append, runLinesB, e1]
        simp [stepB, set_same, hsafe]
      · exact (keeps_of_frameH fr1).trans (keeps_set_fa0 _)
    · simp at hs
  · simp at hs

theorem panicOp_top {v : String} {s s' : St} (h0 : s.funcs = []) (h : panicOp v s = .ok ((), s')) :
    Adv s s' [.goto "end", .set "_e" "1", .call "_ech" [], .set "_fa0" v] 0 := by
  simp [panicOp, callEcho, callFunc, setGlobalArgs, varAssignment, bind, Tr.get, Tr.modify, addLine, h0, varName, inFunction,
    funcArgVar, trimLeftColon, pure] at h
  rw [← h]
  exact ⟨rfl, rfl, h0.symm, rfl, rfl, rfl, rfl, rfl, rfl, by simp [plainB], EnvExt.of_eq rfl rfl rfl rfl rfl rfl rfl rfl rfl rfl⟩

theorem panicB_sem {e : Expr} {s s' : St} (h0 : s.funcs = [])
    (h : (do let r ← Tr.evalExpr conv e true; conv.panic s!"panic: {firstValue r}" : BM Unit) s = .ok ((), s')) :
    StmtSemB (fun c => Src32.execStmt 1 (.panic e) c) s s' := by
  obtain ⟨r, s1, h1, h2⟩ := bindB_ok h
  intro c o c' hs
  simp only [Src32.execStmt] at hs
  split at hs
  · rename_i v hv
    split at hs
    · rename_i hsafe
      simp only [Option.some.injEq, Prod.mk.injEq] at hs
      obtain ⟨rfl, rfl⟩ := hs
      obtain ⟨t, new, n, er, ad, sem⟩ := exprB_sem e true s r s1 c.env v h0 h1 hv
      subst er
      have h01 : s1.funcs = [] := by rw [ad.funcs]; exact h0
      have h2' : panicOp ("panic: " ++ t) s1 = .ok ((), s') := h2
      have ad2 := panicOp_top h01 h2'
      refine ⟨_, _, ad.trans ad2, ?_⟩
      intro ρ ha
      obtain ⟨ρ1, run1, fr1, hold1⟩ := sem ρ c.out ha
      have hc : CompleteD ρ1 ("panic: " ++ t).toList ("panic: " ++ v.render).toList := by
        rw [String.toList_append, String.toList_append]
        refine CompleteD.append (completeD_plain ρ1 _ ?_) hold1.here
        intro c hc; simp at hc; rcases hc with rfl | rfl | rfl | rfl | rfl | rfl | rfl <;> decide
      refine ⟨(ρ1.set "_fa0" ("panic: " ++ v.render)).set "_e" "1", ?_, fun h => by simp at h⟩
      rw [List.reverse_append, runLinesB_of_runN run1]
      have e1 : stepB (.set "_fa0" ("panic: " ++ t)) ⟨ρ1, c.out⟩ =
          some (.normal, ⟨ρ1.set "_fa0" ("panic: " ++ v.render), c.out⟩) := by
        simp only [stepB, hc.toExpand]
      have e2 : ∀ (ρ' : Store) out, stepB (.set "_e" "1") ⟨ρ', out⟩ = some (.normal, ⟨ρ'.set "_e" "1", out⟩) := by
        intro ρ' out
        have h1 : CompleteD ρ' ("1" : String).toList ("1" : String).toList := completeD_bool ρ' true
        simp only [stepB, h1.toExpand]
      have e3 : ∀ (ρ' : Store) out, ρ' "_e" = "1" → stepB (.goto "end") ⟨ρ', out⟩ = some (.exit 1, ⟨ρ', out⟩) := by
        intro ρ' out h
        have : asCode "1" = some 1 := by
          show asCode (Nat.repr 1) = some 1
          simp [asCode]
        simp [stepB, h, this]
      have e4 : stepB (.call "_ech" []) ⟨ρ1.set "_fa0" ("panic: " ++ v.render), c.out⟩ =
          some (.normal, ⟨ρ1.set "_fa0" ("panic: " ++ v.render), c.out ++ ["panic: " ++ v.render]⟩) := by
        simp [stepB, set_same, hsafe]
      simp only [List.reverse_cons, List.reverse_nil, List.nil_append, List.cons_append, List.append_assoc, runLinesB, e1, e4, e2,
        e3 _ _ (set_same _ _ _)]
    · simp at hs
  · simp at hs

end Tsh.SemB
