/-
  Emit totality for the Batch target: every typed and well-placed AST is translated by the walk + batch
  converter model without an error and without a panic (no out-of-range access to the construct stacks,
  no "break outside of a loop", no operator rejected by the converter's own switch).  Instance of the
  generic typed walk (Lemmas/Hoare.lean); the stack snapshot is the triple of heights (ifs, loops, functions).
-/
import TshVerif.Lemmas.Hoare
import TshVerif.Model.ConvBatch
namespace Tsh.Batch
open Tsh Tsh.Tr

/-- what `addLine` needs: a function being emitted has a non-empty name, and once a function's first line
    exists there is a block to add to -/
structure BInv (s : St) : Prop where
  block : s.previousFunctionName ≠ "" → s.functionsCode ≠ []
  names : ∀ f ∈ s.funcs, f ≠ ""

abbrev Heights := Nat × Nat × Nat      -- ifs, loops, functions

def Inv (k : Heights) (s : St) : Prop :=
  BInv s ∧ s.ifs.length = k.1 ∧ s.fors.length = k.2.1 ∧ s.endLabels.length = k.2.1 ∧ s.funcs.length = k.2.2

def pushIf (k : Heights) : Heights := (k.1 + 1, k.2.1, k.2.2)
def pushFor (k : Heights) : Heights := (k.1, k.2.1 + 1, k.2.2)
def pushFunc (k : Heights) : Heights := (k.1, k.2.1, k.2.2 + 1)
def loopOK (k : Heights) : Prop := 1 ≤ k.2.1
def funcOK (k : Heights) : Prop := 1 ≤ k.2.2

/-- `m` runs from every state and keeps every `Inv k` (it does not touch the stacks) -/
def KeepsAll {α : Type} (m : BM α) : Prop := ∀ k, Keeps (Inv k) m

theorem ka_pure {α : Type} (a : α) : KeepsAll (pure a : BM α) := fun _ => keeps_pure a
theorem ka_bind {α β : Type} {x : BM α} {f : α → BM β} (hx : KeepsAll x) (hf : ∀ a, KeepsAll (f a)) : KeepsAll (x >>= f) :=
  fun k => keeps_bind (hx k) (fun a => hf a k)

theorem ka_get : KeepsAll (Tr.get : BM St) := fun _ s h => ⟨s, s, rfl, h⟩
theorem ka_nextHelperVar : KeepsAll nextHelperVar := by
  intro k s h
  refine ⟨_, _, rfl, ?_⟩
  obtain ⟨hb, h1, h2, h3, h4⟩ := h
  exact ⟨⟨hb.block, hb.names⟩, h1, h2, h3, h4⟩

/-- a state change that touches neither the function buffers nor the stacks -/
theorem ka_modify (f : St → St)
    (hf : ∀ s, (f s).previousFunctionName = s.previousFunctionName ∧ (f s).functionsCode = s.functionsCode ∧ (f s).funcs = s.funcs ∧
      (f s).ifs = s.ifs ∧ (f s).fors = s.fors ∧ (f s).endLabels = s.endLabels) : KeepsAll (Tr.modify f : BM Unit) := by
  intro k s h
  refine ⟨(), f s, rfl, ?_⟩
  obtain ⟨h1, h2, h3, h4, h5, h6⟩ := hf s
  obtain ⟨hb, g1, g2, g3, g4⟩ := h
  exact ⟨⟨by rw [h1, h2]; exact hb.block, by rw [h3]; exact hb.names⟩, by rw [h4]; exact g1, by rw [h5]; exact g2, by rw [h6]; exact g3, by rw [h3]; exact g4⟩

theorem ka_addStartLine (l : BLine) : KeepsAll (addStartLine l) := by
  unfold addStartLine; apply ka_modify; intro s; simp

theorem ka_addLine (l : BLine) : KeepsAll (addLine l) := by
  intro k s h
  obtain ⟨hb, g1, g2, g3, g4⟩ := h
  unfold addLine
  cases hf : s.funcs with
  | nil =>
    refine ⟨(), _, rfl, ⟨?_, ?_⟩, g1, g2, g3, ?_⟩
    · exact hb.block
    · simp [hf]
    · simp [hf] at g4 ⊢; exact g4
  | cons cur rest =>
    have hcur : cur ≠ "" := hb.names cur (by simp [hf])
    by_cases hp : cur = s.previousFunctionName
    · have hbne : (cur != s.previousFunctionName) = false := by simp [hp]
      simp only [hbne, Bool.false_eq_true, if_false]
      cases hfc : s.functionsCode with
      | nil => exact absurd hfc (hb.block (by rw [← hp]; exact hcur))
      | cons blk more =>
        refine ⟨(), _, rfl, ⟨?_, ?_⟩, g1, g2, g3, ?_⟩
        · intro _; simp
        · simp only [hf]; intro f hfm; exact hb.names f (by rw [hf]; exact hfm)
        · simpa [hf] using g4
    · have hbne : (cur != s.previousFunctionName) = true := by simp [hp]
      simp only [hbne, if_true]
      refine ⟨(), _, rfl, ⟨?_, ?_⟩, g1, g2, g3, ?_⟩
      · intro _; simp
      · simp only [hf]; intro f hfm; exact hb.names f (by rw [hf]; exact hfm)
      · simpa [hf] using g4

theorem ka_varAssignment (n v : String) (g : Bool) : KeepsAll (varAssignment n v g) := by
  unfold varAssignment; exact ka_bind ka_get (fun _ => ka_addLine _)
theorem ka_varEvaluation (n : String) (g : Bool) : KeepsAll (varEvaluation n g) := by
  unfold varEvaluation; exact ka_bind ka_get (fun _ => ka_pure _)

theorem ka_addLf : KeepsAll addLf := by
  unfold addLf
  refine ka_bind ka_get (fun s => ?_)
  split
  · refine ka_bind (ka_addStartLine _) (fun _ => ka_bind (ka_addStartLine _) (fun _ => ka_bind (ka_addStartLine _) (fun _ => ?_)))
    apply ka_modify; intro s; simp
  · exact ka_pure _

theorem ka_stringToString (v : String) : KeepsAll (stringToString v) := by
  unfold stringToString; exact ka_bind ka_addLf (fun _ => ka_pure _)

theorem ka_setGlobalArgs : ∀ (as : List String) (i : Nat), KeepsAll (setGlobalArgs as i) := by
  intro as
  induction as with
  | nil => intro i; unfold setGlobalArgs; exact ka_pure _
  | cons a rest ih => intro i; unfold setGlobalArgs; exact ka_bind (ka_varAssignment _ _ _) (fun _ => ih _)

theorem ka_callFunc (n : String) (ga as : List String) : KeepsAll (callFunc n ga as) := by
  unfold callFunc; exact ka_bind (ka_setGlobalArgs _ _) (fun _ => ka_addLine _)

theorem ka_flag (f : St → St)
    (hf : ∀ s, (f s).previousFunctionName = s.previousFunctionName ∧ (f s).functionsCode = s.functionsCode ∧ (f s).funcs = s.funcs ∧
      (f s).ifs = s.ifs ∧ (f s).fors = s.fors ∧ (f s).endLabels = s.endLabels) : KeepsAll (Tr.modify f : BM Unit) := ka_modify f hf

theorem ka_callEcho (vs : List String) : KeepsAll (callEcho vs) := by
  unfold callEcho
  refine ka_bind ?_ (fun _ => ka_callFunc _ _ _)
  apply ka_flag; intro s; simp

theorem ka_setParams : ∀ (ps : List String) (i : Nat), KeepsAll (setParams ps i) := by
  intro ps
  induction ps with
  | nil => intro i; unfold setParams; exact ka_pure _
  | cons p rest ih => intro i; unfold setParams; exact ka_bind ka_get (fun _ => ka_bind (ka_addLine _) (fun _ => ih _))

theorem ka_storeRets : ∀ (vs : List String) (i : Nat), KeepsAll (storeRets vs i) := by
  intro vs
  induction vs with
  | nil => intro i; unfold storeRets; exact ka_pure _
  | cons v rest ih => intro i; unfold storeRets; exact ka_bind (ka_varAssignment _ _ _) (fun _ => ih _)

theorem copyRets_q (k : Heights) : ∀ (n i : Nat), KeepsQ (Inv k) (copyRets n i) (fun vs => vs.length = n) := by
  intro n
  induction n with
  | zero => intro i; unfold copyRets; exact keepsQ_pure _ rfl
  | succ n ih =>
    intro i; unfold copyRets
    exact keepsQ_bind (ka_nextHelperVar k) (fun _ => keepsQ_bind (ka_get k) (fun _ => keepsQ_bind (ka_varAssignment _ _ _ k) (fun _ =>
      keepsQ_bind (ka_varEvaluation _ _ k) (fun e => keepsQ_bindQ (ih _) (fun rest hr => keepsQ_pure _ (by simp [hr]))))))

theorem ka_sliceInits (arr : String) : ∀ (vs : List String) (i : Nat), KeepsAll (sliceInits arr vs i) := by
  intro vs
  induction vs with
  | nil => intro i; unfold sliceInits; exact ka_pure _
  | cons v rest ih => intro i; unfold sliceInits; exact ka_bind (ka_addLine _) (fun _ => ih _)

/-! ### expression-level operations on typed operands -/

theorem ka_unaryOp (e : String) : KeepsAll (unaryOp e "!") := by
  unfold unaryOp
  refine ka_bind ka_nextHelperVar (fun _ => ?_)
  simp only [beq_self_eq_true, if_true]
  exact ka_bind ka_get (fun _ => ka_bind (ka_addLine _) (fun _ => ka_varEvaluation _ _))

theorem ka_binaryOp (l op r : String) (vt : ValueType) (h : binaryAllowed vt op = true) : KeepsAll (binaryOp l op r vt) := by
  unfold binaryOp
  refine ka_bind ka_nextHelperVar (fun hv => ?_)
  simp only [binaryAllowed, Bool.and_eq_true, Bool.or_eq_true, Bool.not_eq_true', beq_iff_eq] at h
  obtain ⟨hs, h⟩ := h
  simp only [hs, Bool.false_eq_true, if_false]
  rcases h with ⟨hd, ho⟩ | ⟨hd, ho⟩
  · rw [hd]
    have : (op == "*" || op == "/" || op == "+" || op == "-" || op == "%") = true := by
      simp only [Bool.or_eq_true, beq_iff_eq]
      rcases ho with (((h1 | h1) | h1) | h1) | h1
      · exact Or.inl (Or.inl (Or.inl (Or.inl h1)))
      · exact Or.inl (Or.inl (Or.inl (Or.inr h1)))
      · exact Or.inr h1
      · exact Or.inl (Or.inl (Or.inr h1))
      · exact Or.inl (Or.inr h1)
    simp only [this, if_true]
    exact ka_bind ka_get (fun _ => ka_bind (ka_addLine _) (fun _ => ka_varEvaluation _ _))
  · rw [hd]
    simp only [ho, beq_self_eq_true, if_true]
    exact ka_bind (ka_varAssignment _ _ _) (fun _ => ka_varEvaluation _ _)

theorem compareOpString_ne (op : String) (vt : ValueType) (h : compareAllowed vt op = true) :
    ((compareOpString op vt).1.length == 0) = false := by
  simp only [compareAllowed, Bool.and_eq_true, Bool.or_eq_true, Bool.not_eq_true', beq_iff_eq] at h
  obtain ⟨hs, h⟩ := h
  unfold compareOpString
  simp only [hs, Bool.false_eq_true, if_false]
  rcases h with (⟨hd, ho⟩ | ⟨hd, ho⟩) | ⟨hd, ho⟩
  · rw [hd]; rcases ho with rfl | rfl <;> decide
  · rw [hd]; rcases ho with ((((rfl | rfl) | rfl) | rfl) | rfl) | rfl <;> decide
  · rw [hd]; rcases ho with rfl | rfl <;> decide

theorem ka_comparisonOp (l op r : String) (vt : ValueType) (h : compareAllowed vt op = true) : KeepsAll (comparisonOp l op r vt) := by
  unfold comparisonOp comparisonOpWith
  simp only [compareOpString_ne op vt h, Bool.false_eq_true, if_false]
  exact ka_bind ka_nextHelperVar (fun _ => ka_bind ka_get (fun _ => ka_bind (ka_addLine _) (fun _ => ka_varEvaluation _ _)))

theorem ka_logicalOp (l op r : String) (h : (op == "&&" || op == "||") = true) : KeepsAll (logicalOp l op r) := by
  unfold logicalOp
  refine ka_bind ka_nextHelperVar (fun _ => ka_bind ka_get (fun _ => ?_))
  simp only [Bool.or_eq_true, beq_iff_eq] at h
  rcases h with rfl | rfl
  · simp only [beq_self_eq_true, if_true]
    exact ka_bind (ka_addLine _) (fun _ => ka_varEvaluation _ _)
  · have : (("||" : String) == "&&") = false := by decide
    simp only [this, Bool.false_eq_true, if_false, beq_self_eq_true, if_true]
    exact ka_bind (ka_addLine _) (fun _ => ka_varEvaluation _ _)

theorem ka_sliceInstantiationOp (vs : List String) : KeepsAll (sliceInstantiationOp vs) := by
  unfold sliceInstantiationOp
  refine ka_bind (ka_addLine _) (fun _ => ka_bind ka_nextHelperVar (fun _ => ka_bind (ka_varAssignment _ _ _) (fun _ =>
    ka_bind ?_ (fun _ => ka_bind ka_get (fun _ => ka_bind (ka_callFunc _ _ _) (fun _ => ka_bind (ka_sliceInits _ _ _) (fun _ => ka_pure _)))))))
  apply ka_flag; intro s; simp

theorem ka_sliceEvaluationOp (n i : String) : KeepsAll (sliceEvaluationOp n i) := by
  unfold sliceEvaluationOp
  exact ka_bind ka_nextHelperVar (fun _ => ka_bind ka_get (fun _ => ka_bind (ka_addLine _) (fun _ => ka_varEvaluation _ _)))

theorem ka_sliceLenOp (n : String) : KeepsAll (sliceLenOp n) := by
  unfold sliceLenOp
  refine ka_bind ka_nextHelperVar (fun _ => ka_bind ?_ (fun _ => ka_bind (ka_callFunc _ _ _) (fun _ =>
    ka_bind ka_get (fun _ => ka_bind (ka_varAssignment _ _ _) (fun _ => ka_varEvaluation _ _)))))
  apply ka_flag; intro s; simp

theorem ka_stringSubscriptOp (v a b : String) : KeepsAll (stringSubscriptOp v a b) := by
  unfold stringSubscriptOp
  refine ka_bind ka_nextHelperVar (fun _ => ka_bind ?_ (fun _ => ka_bind (ka_callFunc _ _ _) (fun _ =>
    ka_bind ka_get (fun _ => ka_bind (ka_varAssignment _ _ _) (fun _ => ka_bind ka_get (fun _ => ka_pure _))))))
  apply ka_flag; intro s; simp

theorem ka_stringLenOp (v : String) : KeepsAll (stringLenOp v) := by
  unfold stringLenOp
  refine ka_bind ka_nextHelperVar (fun _ => ka_bind ?_ (fun _ => ka_bind (ka_callFunc _ _ _) (fun _ =>
    ka_bind ka_get (fun _ => ka_bind (ka_varAssignment _ _ _) (fun _ => ka_varEvaluation _ _)))))
  apply ka_flag; intro s; simp

theorem funcCallOp_q (k : Heights) (n : String) (a : List String) (r : List ValueType) (u : Bool) :
    KeepsQ (Inv k) (funcCallOp n a r u) (fun vs => u = true → vs.length = r.length) := by
  unfold funcCallOp
  refine keepsQ_bind (ka_callFunc _ _ _ k) (fun _ => ?_)
  cases u with
  | true =>
    simp only [if_true]
    exact keepsQ_bindQ (copyRets_q k _ _) (fun out ho => keepsQ_pure _ (fun _ => by simp [ho]))
  | false =>
    simp only [Bool.false_eq_true, if_false]
    exact keepsQ_bind (ka_pure _ k) (fun _ => keepsQ_pure _ (fun h => by cases h))

theorem appCallOp_q (k : Heights) (cs : List (String × List String)) (u : Bool) :
    KeepsQ (Inv k) (appCallOp cs u) (fun vs => u = true → vs.length = 3) := by
  unfold appCallOp appCallWith
  cases u with
  | true =>
    simp only [if_true]
    refine keepsQ_bind (ka_nextHelperVar k) (fun _ => keepsQ_bind (ka_nextHelperVar k) (fun _ => keepsQ_bind ?_ (fun _ =>
      keepsQ_bind (ka_addLf k) (fun _ => keepsQ_bind (ka_callFunc _ _ _ k) (fun _ => keepsQ_bind (ka_get k) (fun _ =>
        keepsQ_bind (ka_varAssignment _ _ _ k) (fun _ => keepsQ_bind (ka_varEvaluation _ _ k) (fun _ => keepsQ_bind (ka_get k) (fun _ =>
          keepsQ_bind (ka_varAssignment _ _ _ k) (fun _ => keepsQ_bind (ka_get k) (fun _ => keepsQ_pure _ (fun _ => rfl))))))))))))
    exact (ka_flag _ (by intro s; simp)) k
  | false =>
    simp only [Bool.false_eq_true, if_false]
    exact keepsQ_bind (ka_addLine _ k) (fun _ => keepsQ_pure _ (fun h => by cases h))

theorem ka_inputOp (p : String) : KeepsAll (inputOp p) := by
  unfold inputOp
  exact ka_bind ka_nextHelperVar (fun _ => ka_bind (ka_addLine _) (fun _ => ka_varEvaluation _ _))

theorem ka_copyOp (d s : String) (g : Bool) : KeepsAll (copyOp d s g) := by
  unfold copyOp
  refine ka_bind ?_ (fun _ => ka_bind ka_get (fun _ => ka_bind (ka_callFunc _ _ _) (fun _ =>
    ka_bind ka_nextHelperVar (fun _ => ka_bind (ka_callFunc _ _ _) (fun _ => ka_bind ka_get (fun _ =>
      ka_bind (ka_varAssignment _ _ _) (fun _ => ka_varEvaluation _ _)))))))
  apply ka_flag; intro s; simp

theorem ka_existsOp (p : String) : KeepsAll (existsOp p) := by
  unfold existsOp
  exact ka_bind ka_nextHelperVar (fun _ => ka_bind ka_get (fun _ => ka_bind (ka_addLine _) (fun _ => ka_varEvaluation _ _)))

theorem ka_readFileOp (p : String) : KeepsAll (readFileOp p) := by
  unfold readFileOp
  refine ka_bind ka_nextHelperVar (fun _ => ka_bind ?_ (fun _ => ka_bind ka_addLf (fun _ =>
    ka_bind (ka_callFunc _ _ _) (fun _ => ka_bind ka_get (fun _ => ka_bind (ka_varAssignment _ _ _) (fun _ => ka_varEvaluation _ _))))))
  apply ka_flag; intro s; simp

theorem batch_texprOps (k : Heights) : TExprOps conv (Inv k) where
  stringToString := fun s => ka_stringToString s k
  varDefinition := fun n v g => ka_varAssignment n v g k
  unaryOperation := fun e _ _ => ka_unaryOp e k
  binaryOperation := fun l o r t _ h => ka_binaryOp l o r t h k
  comparison := fun l o r t _ h => ka_comparisonOp l o r t h k
  logicalOperation := fun l o r _ _ h => ka_logicalOp l o r h k
  varEvaluation := fun n _ g => ka_varEvaluation n g k
  sliceInstantiation := fun vs _ => ka_sliceInstantiationOp vs k
  sliceEvaluation := fun n i _ => ka_sliceEvaluationOp n i k
  sliceLen := fun n _ => ka_sliceLenOp n k
  stringSubscript := fun v a b _ => ka_stringSubscriptOp v a b k
  stringLen := fun v _ => ka_stringLenOp v k
  funcCall := fun n a r u => funcCallOp_q k n a r u
  appCall := fun cs u => appCallOp_q k cs u
  input := fun p _ => ka_inputOp p k
  copy := fun d s _ g => ka_copyOp d s g k
  exists_ := fun p _ => ka_existsOp p k
  readFile := fun p _ => ka_readFileOp p k

/-! ### structural operations -/

theorem keeps_currentIf (k : Heights) : Keeps (Inv (pushIf k)) currentIf := by
  intro s h
  have hl : s.ifs.length = k.1 + 1 := h.2.1
  cases hi : s.ifs with
  | nil => rw [hi] at hl; simp at hl
  | cons l rest => exact ⟨l, s, by simp [currentIf, hi], h⟩

theorem keeps_currentFor (k : Heights) (hk : loopOK k) : Keeps (Inv k) currentFor := by
  intro s h
  have hl : s.fors.length = k.2.1 := h.2.2.1
  cases hi : s.fors with
  | nil => rw [hi] at hl; simp at hl; unfold loopOK at hk; omega
  | cons l rest => exact ⟨l, s, by simp [currentFor, hi], h⟩

theorem keeps_currentFunc (k : Heights) (hk : funcOK k) : Keeps (Inv k) currentFunc := by
  intro s h
  have hl : s.funcs.length = k.2.2 := h.2.2.2.2
  cases hi : s.funcs with
  | nil => rw [hi] at hl; simp at hl; unfold funcOK at hk; omega
  | cons l rest => exact ⟨l, s, by simp [currentFunc, hi], h⟩

theorem loopOK_pushFor (k : Heights) : loopOK (pushFor k) := by simp [loopOK, pushFor]
theorem funcOK_pushFunc (k : Heights) : funcOK (pushFunc k) := by simp [funcOK, pushFunc]

theorem t_sliceAssignmentOp (n i v d : String) (g : Bool) : KeepsAll (sliceAssignmentOp n i v d g) := by
  unfold sliceAssignmentOp
  refine ka_bind ?_ (fun _ => ka_bind ka_get (fun _ => ka_callFunc _ _ _))
  apply ka_flag; intro s; simp

theorem t_funcStartOp (k : Heights) (n : String) (ps : List String) (hn : n ≠ "") :
    Triple (Inv k) (funcStartOp n ps) (fun _ => Inv (pushFunc k)) := by
  unfold funcStartOp
  refine Triple.bind (q := fun _ => Inv (pushFunc k)) ?_ (fun _ => keeps_bind (ka_addLine _ _) (fun _ => keeps_bind (ka_addLine _ _) (fun _ =>
    keeps_bind (ka_addLine _ _) (fun _ => ka_setParams _ _ _))))
  intro s h
  refine ⟨(), _, rfl, ?_⟩
  obtain ⟨hb, g1, g2, g3, g4⟩ := h
  refine ⟨⟨hb.block, ?_⟩, g1, g2, g3, by simp [pushFunc, g4]⟩
  intro f hf
  simp at hf
  rcases hf with rfl | hf
  · exact hn
  · exact hb.names f hf

theorem t_funcEndOp (k : Heights) : Triple (Inv (pushFunc k)) funcEndOp (fun _ => Inv k) := by
  unfold funcEndOp
  refine Triple.bind (keeps_currentFunc _ (funcOK_pushFunc k)) (fun _ => Triple.bind (ka_addLine _ _) (fun _ => Triple.bind (ka_addLine _ _) (fun _ =>
    Triple.bind (ka_addLine _ _) (fun _ => Triple.bind (ka_addLine _ _) (fun _ => ?_)))))
  intro s h
  refine ⟨(), _, rfl, ?_⟩
  obtain ⟨hb, g1, g2, g3, g4⟩ := h
  refine ⟨⟨hb.block, fun f hf => hb.names f (List.mem_of_mem_drop hf)⟩, g1, g2, g3, ?_⟩
  simp only [pushFunc] at g4
  simp [g4]

theorem t_retOp (k : Heights) (vs : List String) (hk : funcOK k) : Keeps (Inv k) (retOp vs) := by
  unfold retOp
  exact keeps_bind (keeps_currentFunc k hk) (fun _ => keeps_bind (ka_storeRets _ _ k) (fun _ => ka_addLine _ k))

theorem t_ifStartOp (k : Heights) (c : String) : Triple (Inv k) (ifStartOp c) (fun _ => Inv (pushIf k)) := by
  unfold ifStartOp
  refine Triple.bind (q := fun _ => Inv (pushIf k)) ?_ (fun _ => ka_addLine _ _)
  intro s h
  refine ⟨(), _, rfl, ?_⟩
  obtain ⟨hb, g1, g2, g3, g4⟩ := h
  exact ⟨⟨hb.block, hb.names⟩, by simp [pushIf, g1], g2, g3, g4⟩

theorem t_ifEndOp (k : Heights) : Triple (Inv (pushIf k)) ifEndOp (fun _ => Inv k) := by
  unfold ifEndOp
  refine Triple.bind (keeps_currentIf k) (fun _ => Triple.bind (ka_addLine _ _) (fun _ => Triple.bind (ka_addLine _ _) (fun _ =>
    Triple.bind (ka_addLine _ _) (fun _ => ?_))))
  intro s h
  refine ⟨(), _, rfl, ?_⟩
  obtain ⟨hb, g1, g2, g3, g4⟩ := h
  refine ⟨⟨hb.block, hb.names⟩, ?_, g2, g3, g4⟩
  simp only [pushIf] at g1
  simp [g1]

theorem t_elseIfStartOp (k : Heights) (c : String) : Keeps (Inv (pushIf k)) (elseIfStartOp c) := by
  unfold elseIfStartOp
  exact keeps_bind (keeps_currentIf k) (fun _ => keeps_bind (ka_addLine _ _) (fun _ => ka_addLine _ _))

theorem t_elseStartOp (k : Heights) : Keeps (Inv (pushIf k)) elseStartOp := by
  unfold elseStartOp
  exact keeps_bind (keeps_currentIf k) (fun _ => keeps_bind (ka_addLine _ _) (fun _ => ka_addLine _ _))

theorem t_forStartOp (k : Heights) : Triple (Inv k) forStartOp (fun _ => Inv (pushFor k)) := by
  unfold forStartOp
  refine Triple.bind (q := fun _ => Inv (pushFor k)) ?_ (fun _ => keeps_bind (ka_get _) (fun _ =>
    keeps_bind (keeps_currentFor _ (loopOK_pushFor k)) (fun _ => keeps_bind (ka_addLine _ _) (fun _ => ka_addLine _ _))))
  intro s h
  refine ⟨(), _, rfl, ?_⟩
  obtain ⟨hb, g1, g2, g3, g4⟩ := h
  exact ⟨⟨hb.block, hb.names⟩, g1, by simp [pushFor, g2], by simp [pushFor, g3], g4⟩

theorem t_forIncrementStartOp : KeepsAll forIncrementStartOp := by
  unfold forIncrementStartOp; exact ka_bind ka_get (fun _ => ka_addLine _)

theorem t_forIncrementEndOp : KeepsAll forIncrementEndOp := by
  unfold forIncrementEndOp; exact ka_bind ka_get (fun _ => ka_bind (ka_addLine _) (fun _ => ka_addLine _))

theorem t_forEndOp (k : Heights) : Triple (Inv (pushFor k)) forEndOp (fun _ => Inv k) := by
  unfold forEndOp
  refine Triple.bind (keeps_currentFor _ (loopOK_pushFor k)) (fun _ => Triple.bind (ka_addLine _ _) (fun _ => Triple.bind (ka_addLine _ _) (fun _ => ?_)))
  intro s h
  obtain ⟨hb, g1, g2, g3, g4⟩ := h
  simp only [pushFor] at g2 g3
  cases he : s.endLabels with
  | nil => rw [he] at g3; simp at g3
  | cons e rest =>
    have hI : Inv k { s with endLabels := rest, fors := s.fors.drop 1 } := by
      refine ⟨⟨hb.block, hb.names⟩, g1, ?_, ?_, g4⟩
      · simp [g2]
      · rw [he] at g3; simpa using g3
    obtain ⟨u, s', hr, hI'⟩ := ka_addLine (.clabel e) k _ hI
    refine ⟨u, s', ?_, hI'⟩
    simp only [bind, Tr.get, he, forEndTail, Tr.modify]
    exact hr

theorem t_brkOp (k : Heights) (hk : loopOK k) : Keeps (Inv k) brkOp := by
  intro s h
  have hl : s.endLabels.length = k.2.1 := h.2.2.2.1
  cases he : s.endLabels with
  | nil => rw [he] at hl; simp at hl; unfold loopOK at hk; omega
  | cons e rest =>
    obtain ⟨u, s', hr, hI'⟩ := ka_addLine (.cgoto e) k s h
    refine ⟨u, s', ?_, hI'⟩
    simp only [brkOp, bind, Tr.get, he, brkTail]
    exact hr

theorem t_contOp (k : Heights) (hk : loopOK k) : Keeps (Inv k) contOp := by
  unfold contOp
  exact keeps_bind (keeps_currentFor k hk) (fun _ => ka_addLine _ k)

theorem t_panicOp (v : String) : KeepsAll (panicOp v) := by
  unfold panicOp
  exact ka_bind (ka_callEcho _) (fun _ => ka_bind (ka_addLine _) (fun _ => ka_addLine _))

theorem t_writeFileOp (p c a : String) : KeepsAll (writeFileOp p c a) := by
  unfold writeFileOp
  refine ka_bind ?_ (fun _ => ka_callFunc _ _ _)
  apply ka_flag; intro s; simp

theorem batch_tstmtOps : TStmtOps conv Inv pushIf pushFor pushFunc loopOK funcOK where
  expr := batch_texprOps
  sliceAssignment := fun k n i v d g => t_sliceAssignmentOp n i v d g k
  funcStart := t_funcStartOp
  funcEnd := t_funcEndOp
  ret := t_retOp
  ifStart := t_ifStartOp
  ifEnd := t_ifEndOp
  elseIfStart := t_elseIfStartOp
  elseIfEnd := fun _ => keeps_pure _
  elseStart := t_elseStartOp
  elseEnd := fun _ => keeps_pure _
  forStart := t_forStartOp
  forIncrementStart := fun k => t_forIncrementStartOp _
  forIncrementEnd := fun k => t_forIncrementEndOp _
  forCondition := fun k c => ka_addLine _ _
  forEnd := t_forEndOp
  brk := t_brkOp
  cont := t_contOp
  print := fun k vs => ka_callEcho vs k
  panic := fun k v => t_panicOp v k
  writeFile := fun k p c a => t_writeFileOp p c a k
  nop := fun k => ka_addLine _ k
  loopOK_pushFor := loopOK_pushFor
  loopOK_pushIf := fun k h => by simpa [loopOK, pushIf] using h
  funcOK_pushFunc := funcOK_pushFunc
  funcOK_pushIf := fun k h => by simpa [funcOK, pushIf] using h
  funcOK_pushFor := fun k h => by simpa [funcOK, pushFor] using h

/-- **Every typed, well-placed program is translated to a Batch script** -- no error, no panic. -/
theorem compile_total (p : Program) (ht : typedProgram p = true) (hp : placedStmts {} p = true) : ∃ ls, compile p = .ok ls := by
  have h0 : Inv (0, 0, 0) ({} : St) := ⟨⟨fun h => absurd rfl h, fun f hf => by simp at hf⟩, rfl, rfl, rfl, rfl⟩
  have hrun : Keeps (Inv (0, 0, 0)) (evalProgram conv p) := by
    unfold evalProgram
    refine keeps_bind ?_ (fun _ => keeps_bind
      (evalStmts_typed conv Inv pushIf pushFor pushFunc loopOK funcOK batch_tstmtOps p ht {} hp rfl (0, 0, 0)
        (fun h => by cases h) (fun h => by cases h)) (fun _ => keeps_pure _))
    show Keeps (Inv (0, 0, 0)) programStart
    unfold programStart
    exact keeps_bind (ka_addStartLine _ _) (fun _ => keeps_bind (ka_addStartLine _ _) (fun _ => keeps_bind (ka_addStartLine _ _) (fun _ => ka_addStartLine _ _)))
  obtain ⟨u, s, hs, _⟩ := hrun {} h0
  exact ⟨dumpLines s, by unfold compile; rw [hs]⟩

end Tsh.Batch
