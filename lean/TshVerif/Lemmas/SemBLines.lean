/-
  The block tree is a sound reading of the line-level semantics `Sem/CmdLines`: whatever `ExecBs` derives for a well-formed
  tree, `LRun` derives for its lines - given that the labels of the script are pairwise different.
-/
import TshVerif.Sem.CmdLines
import TshVerif.Lemmas.SemScan
namespace Tsh.SemB
open Tsh Tsh.Batch Tsh.Sem

/-! ### the texts of block lines are read back -/

theorem isPrefixOf_append_self' : ∀ (p x : List Char), p.isPrefixOf (p ++ x) = true
  | [], _ => by simp
  | a :: p, x => by simp [List.isPrefixOf, isPrefixOf_append_self' p x]

theorem stripPrefix_append (p x : List Char) : stripPrefix p (p ++ x) = some x := by
  simp [stripPrefix, isPrefixOf_append_self' p x]

theorem stripSuffix_append (x p : List Char) : stripSuffix p (x ++ p) = some x := by
  have h : p.isSuffixOf (x ++ p) = true := by simp
  simp [stripSuffix, h]

theorem condOf_ifStartLine (c : String) : condOf (ifStartLine c) = some c := by
  have e : (ifStartLine c).toList = "if \"".toList ++ (c.toList ++ "\" equ \"1\" (".toList) := by
    simp [ifStartLine, String.toList_append]
  simp only [condOf, e, stripPrefix_append, stripSuffix_append, Option.map, String.ofList_toList]

theorem flagOf_ifStartLine (c : String) : flagOf (ifStartLine c) = none := by
  have e : (ifStartLine c).toList = 'i' :: 'f' :: ' ' :: '"' :: (c.toList ++ "\" equ \"1\" (".toList) := by
    simp [ifStartLine, String.toList_append]
  simp [flagOf, e, stripPrefix, List.isPrefixOf]

theorem flagOf_defined (n : Nat) : flagOf ("if defined " ++ flagName n ++ " (") = some n := by
  have e : ("if defined " ++ flagName n ++ " (").toList = "if defined _fv".toList ++ ((Nat.repr n).toList ++ " (".toList) := by
    simp [flagName_eq, String.toList_append]
  simp only [flagOf, e, stripPrefix_append, stripSuffix_append, Option.bind, String.ofList_toList]
  simp

theorem blockTest_if (ρ : Store) (c : String) : blockTest ρ (ifStartLine c) = guardB ρ c := by
  simp [blockTest, flagOf_ifStartLine, condOf_ifStartLine]

theorem blockTest_defined (ρ : Store) (n : Nat) : blockTest ρ ("if defined " ++ flagName n ++ " (") = some (ρ (flagName n) != "") := by
  simp [blockTest, flagOf_defined]

/-! ### skipping a block -/

theorem skipBlock_plain (d : Nat) (l : BLine) (R : List BLine) (h : plainB l = true) : skipBlock d (l :: R) = skipBlock d R := by
  cases l <;> simp [plainB] at h <;> cases d <;> simp [skipBlock]

theorem skipBlock_opn (d : Nat) (t : String) (R : List BLine) : skipBlock d (.opn t :: R) = skipBlock (d + 1) R := by
  cases d <;> simp [skipBlock]

theorem skipBlock_close (d : Nat) (R : List BLine) : skipBlock (d + 1) (.close :: R) = skipBlock d R := by
  simp [skipBlock]

theorem skipBlock_elseIfOpen (d : Nat) (t : String) (R : List BLine) : skipBlock (d + 1) (.elseIfOpen t :: R) = skipBlock (d + 1) R := by
  simp [skipBlock]

theorem skipBlock_elseOpen (d : Nat) (R : List BLine) : skipBlock (d + 1) (.elseOpen :: R) = skipBlock (d + 1) R := by
  simp [skipBlock]

theorem skipBlock_cgoto (d : Nat) (n : String) (R : List BLine) : skipBlock d (.cgoto n :: R) = skipBlock d R := by
  cases d <;> simp [skipBlock]

theorem skipBlock_clabel (d : Nat) (n : String) (R : List BLine) : skipBlock d (.clabel n :: R) = skipBlock d R := by
  cases d <;> simp [skipBlock]

mutual
/-- the lines of a well-formed command are invisible to the skipper: blocks inside are balanced -/
theorem skipBlock_flat (ctx : LCtx) : ∀ (x : BCmd), wfB x = true → ∀ (d : Nat) (R : List BLine),
    skipBlock d (flat ctx x ++ R) = skipBlock d R
  | .simple l, h, d, R => by
    simp only [wfB] at h
    simp only [flat, List.cons_append, List.nil_append]
    exact skipBlock_plain d l R h
  | .guarded n body, h, d, R => by
    simp only [wfB] at h
    simp only [flat, List.cons_append, List.append_assoc, List.nil_append]
    rw [skipBlock_opn, skipBlock_flats ctx body h (d + 1) _, skipBlock_close]
  | .chain lbl c thn elifs els, h, d, R => by
    simp only [wfB, Bool.and_eq_true] at h
    simp only [flat, List.cons_append, List.append_assoc, List.nil_append]
    rw [skipBlock_opn, skipBlock_flats ctx thn h.1.1 (d + 1) _, skipBlock_elifs ctx lbl elifs h.1.2 d _, skipBlock_else ctx lbl els h.2 d _,
      skipBlock_cgoto, skipBlock_close, skipBlock_clabel]
  | .loop n pre c body, h, d, R => by
    simp only [wfB, Bool.and_eq_true] at h
    simp only [flat, List.cons_append, List.append_assoc, List.nil_append]
    rw [skipBlock_clabel, skipBlock_flats _ pre h.1 d _, skipBlock_opn, skipBlock_flats _ body h.2 (d + 1) _,
      skipBlock_cgoto, skipBlock_close, skipBlock_clabel]
  | .brk, _, d, R => by simp only [flat, List.cons_append, List.nil_append]; exact skipBlock_cgoto d _ R
  | .cont, _, d, R => by simp only [flat, List.cons_append, List.nil_append]; exact skipBlock_cgoto d _ R
theorem skipBlock_flats (ctx : LCtx) : ∀ (xs : List BCmd), wfBs xs = true → ∀ (d : Nat) (R : List BLine),
    skipBlock d (flats ctx xs ++ R) = skipBlock d R
  | [], _, d, R => by simp [flats]
  | x :: xs, h, d, R => by
    simp only [wfBs, Bool.and_eq_true] at h
    simp only [flats, List.append_assoc]
    rw [skipBlock_flat ctx x h.1 d _, skipBlock_flats ctx xs h.2 d R]
/-- the else-if branches of a chain, seen from INSIDE the block in front of them (depth `d + 1`) -/
theorem skipBlock_elifs (ctx : LCtx) (lbl : String) : ∀ (es : List (String × List BCmd)), wfElifs es = true → ∀ (d : Nat) (R : List BLine),
    skipBlock (d + 1) (flatElifs ctx lbl es ++ R) = skipBlock (d + 1) R
  | [], _, d, R => by simp [flatElifs]
  | (c, b) :: rest, h, d, R => by
    simp only [wfElifs, Bool.and_eq_true] at h
    simp only [flatElifs, List.cons_append, List.append_assoc]
    rw [skipBlock_cgoto, skipBlock_elseIfOpen, skipBlock_flats ctx b h.1 (d + 1) _, skipBlock_elifs ctx lbl rest h.2 d R]
theorem skipBlock_else (ctx : LCtx) (lbl : String) : ∀ (els : Option (List BCmd)), wfElse els = true → ∀ (d : Nat) (R : List BLine),
    skipBlock (d + 1) (flatElse ctx lbl els ++ R) = skipBlock (d + 1) R
  | none, _, d, R => by simp [flatElse]
  | some b, h, d, R => by
    simp only [wfElse] at h
    simp only [flatElse, List.cons_append]
    rw [skipBlock_cgoto, skipBlock_elseOpen]
    exact skipBlock_flats ctx b h (d + 1) R
end

end Tsh.SemB
