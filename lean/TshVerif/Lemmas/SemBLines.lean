/-
  The block tree is a sound reading of the line-level semantics `Sem/CmdLines`: whatever `ExecBs` derives for a well-formed
  tree, `LRun` derives for its lines - given that the labels of the script are pairwise different.
-/
import TshVerif.Sem.CmdLines
import TshVerif.Lemmas.SemScan
namespace Tsh.SemB
open Tsh Tsh.Batch Tsh.Sem

/-! ### the texts of block lines are read back -/

theorem isPrefixOf_append_self' : ∀ (p x : List Char), p.isPrefixOf (p ++ x) = true
  | [], _ => by simp
  | a :: p, x => by simp [List.isPrefixOf, isPrefixOf_append_self' p x]

theorem stripPrefix_append (p x : List Char) : stripPrefix p (p ++ x) = some x := by
  simp [stripPrefix, isPrefixOf_append_self' p x]

theorem stripSuffix_append (x p : List Char) : stripSuffix p (x ++ p) = some x := by
  have h : p.isSuffixOf (x ++ p) = true := by simp
  simp [stripSuffix, h]

theorem condOf_ifStartLine (c : String) : condOf (ifStartLine c) = some c := by
  have e : (ifStartLine c).toList = "if \"".toList ++ (c.toList ++ "\" equ \"1\" (".toList) := by
    simp [ifStartLine, String.toList_append]
  simp only [condOf, e, stripPrefix_append, stripSuffix_append, Option.map, String.ofList_toList]

theorem flagOf_ifStartLine (c : String) : flagOf (ifStartLine c) = none := by
  have e : (ifStartLine c).toList = 'i' :: 'f' :: ' ' :: '"' :: (c.toList ++ "\" equ \"1\" (".toList) := by
    simp [ifStartLine, String.toList_append]
  simp [flagOf, e, stripPrefix, List.isPrefixOf]

theorem flagOf_defined (n : Nat) : flagOf ("if defined " ++ flagName n ++ " (") = some n := by
  have e : ("if defined " ++ flagName n ++ " (").toList = "if defined _fv".toList ++ ((Nat.repr n).toList ++ " (".toList) := by
    simp [flagName_eq, String.toList_append]
  simp only [flagOf, e, stripPrefix_append, stripSuffix_append, Option.bind, String.ofList_toList]
  simp

theorem blockTest_if (ρ : Store) (c : String) : blockTest ρ (ifStartLine c) = guardB ρ c := by
  simp [blockTest, flagOf_ifStartLine, condOf_ifStartLine]

theorem blockTest_defined (ρ : Store) (n : Nat) : blockTest ρ ("if defined " ++ flagName n ++ " (") = some (ρ (flagName n) != "") := by
  simp [blockTest, flagOf_defined]

/-! ### skipping a block -/

theorem skipBlock_plain (d : Nat) (l : BLine) (R : List BLine) (h : plainB l = true) : skipBlock d (l :: R) = skipBlock d R := by
  cases l <;> simp [plainB] at h <;> cases d <;> simp [skipBlock]

theorem skipBlock_opn (d : Nat) (t : String) (R : List BLine) : skipBlock d (.opn t :: R) = skipBlock (d + 1) R := by
  cases d <;> simp [skipBlock]

theorem skipBlock_close (d : Nat) (R : List BLine) : skipBlock (d + 1) (.close :: R) = skipBlock d R := by
  simp [skipBlock]

theorem skipBlock_elseIfOpen (d : Nat) (t : String) (R : List BLine) : skipBlock (d + 1) (.elseIfOpen t :: R) = skipBlock (d + 1) R := by
  simp [skipBlock]

theorem skipBlock_elseOpen (d : Nat) (R : List BLine) : skipBlock (d + 1) (.elseOpen :: R) = skipBlock (d + 1) R := by
  simp [skipBlock]

theorem skipBlock_cgoto (d : Nat) (n : String) (R : List BLine) : skipBlock d (.cgoto n :: R) = skipBlock d R := by
  cases d <;> simp [skipBlock]

theorem skipBlock_clabel (d : Nat) (n : String) (R : List BLine) : skipBlock d (.clabel n :: R) = skipBlock d R := by
  cases d <;> simp [skipBlock]

mutual
/-- the lines of a well-formed command are invisible to the skipper: blocks inside are balanced -/
theorem skipBlock_flat (ctx : LCtx) : ∀ (x : BCmd), wfB x = true → ∀ (d : Nat) (R : List BLine),
    skipBlock d (flat ctx x ++ R) = skipBlock d R
  | .simple l, h, d, R => by
    simp only [wfB] at h
    simp only [flat, List.cons_append, List.nil_append]
    exact skipBlock_plain d l R h
  | .guarded n body, h, d, R => by
    simp only [wfB] at h
    simp only [flat, List.cons_append, List.append_assoc, List.nil_append]
    rw [skipBlock_opn, skipBlock_flats ctx body h (d + 1) _, skipBlock_close]
  | .chain lbl c thn elifs els, h, d, R => by
    simp only [wfB, Bool.and_eq_true] at h
    simp only [flat, List.cons_append, List.append_assoc, List.nil_append]
    rw [skipBlock_opn, skipBlock_flats ctx thn h.1.1 (d + 1) _, skipBlock_elifs ctx lbl elifs h.1.2 d _, skipBlock_else ctx lbl els h.2 d _,
      skipBlock_cgoto, skipBlock_close, skipBlock_clabel]
  | .loop n pre c body, h, d, R => by
    simp only [wfB, Bool.and_eq_true] at h
    simp only [flat, List.cons_append, List.append_assoc, List.nil_append]
    rw [skipBlock_clabel, skipBlock_flats _ pre h.1 d _, skipBlock_opn, skipBlock_flats _ body h.2 (d + 1) _,
      skipBlock_cgoto, skipBlock_close, skipBlock_clabel]
  | .brk, _, d, R => by simp only [flat, List.cons_append, List.nil_append]; exact skipBlock_cgoto d _ R
  | .cont, _, d, R => by simp only [flat, List.cons_append, List.nil_append]; exact skipBlock_cgoto d _ R
theorem skipBlock_flats (ctx : LCtx) : ∀ (xs : List BCmd), wfBs xs = true → ∀ (d : Nat) (R : List BLine),
    skipBlock d (flats ctx xs ++ R) = skipBlock d R
  | [], _, d, R => by simp [flats]
  | x :: xs, h, d, R => by
    simp only [wfBs, Bool.and_eq_true] at h
    simp only [flats, List.append_assoc]
    rw [skipBlock_flat ctx x h.1 d _, skipBlock_flats ctx xs h.2 d R]
/-- the else-if branches of a chain, seen from INSIDE the block in front of them (depth `d + 1`) -/
theorem skipBlock_elifs (ctx : LCtx) (lbl : String) : ∀ (es : List (String × List BCmd)), wfElifs es = true → ∀ (d : Nat) (R : List BLine),
    skipBlock (d + 1) (flatElifs ctx lbl es ++ R) = skipBlock (d + 1) R
  | [], _, d, R => by simp [flatElifs]
  | (c, b) :: rest, h, d, R => by
    simp only [wfElifs, Bool.and_eq_true] at h
    simp only [flatElifs, List.cons_append, List.append_assoc]
    rw [skipBlock_cgoto, skipBlock_elseIfOpen, skipBlock_flats ctx b h.1 (d + 1) _, skipBlock_elifs ctx lbl rest h.2 d R]
theorem skipBlock_else (ctx : LCtx) (lbl : String) : ∀ (els : Option (List BCmd)), wfElse els = true → ∀ (d : Nat) (R : List BLine),
    skipBlock (d + 1) (flatElse ctx lbl els ++ R) = skipBlock (d + 1) R
  | none, _, d, R => by simp [flatElse]
  | some b, h, d, R => by
    simp only [wfElse] at h
    simp only [flatElse, List.cons_append]
    rw [skipBlock_cgoto, skipBlock_elseOpen]
    exact skipBlock_flats ctx b h (d + 1) R
end

/-! ### the line interpreter is sound for the line-level relation -/

theorem lrun_step {whole : List BLine} {f : Nat} {l : BLine} {rest : List BLine} {c c' : Cfg} {o : Out}
    (ih : ∀ L c o c', lrun whole f L c = some (o, c') → LRun whole L c o c')
    (h : (match stepB l c with
      | some (.normal, c1) => lrun whole f rest c1
      | some (.exit k, c') => some (.exit k, c')
      | _ => none) = some (o, c')) : LRun whole (l :: rest) c o c' := by
  split at h
  · rename_i c1 hs
    exact .simple hs (ih _ _ _ _ h)
  · rename_i k c2 hs
    simp only [Option.some.injEq, Prod.mk.injEq] at h
    obtain ⟨rfl, rfl⟩ := h
    exact .exit hs
  · simp at h

theorem lrun_sound (whole : List BLine) : ∀ (f : Nat) (L : List BLine) (c : Cfg) (o : Out) (c' : Cfg),
    lrun whole f L c = some (o, c') → LRun whole L c o c'
  | 0, _, _, _, _, h => by simp [lrun] at h
  | f + 1, [], c, o, c', h => by
    simp only [lrun, Option.some.injEq, Prod.mk.injEq] at h
    obtain ⟨rfl, rfl⟩ := h
    exact .done
  | f + 1, l :: rest, c, o, c', h => by
    have ih := lrun_sound whole f
    cases l with
    | clabel n => simp only [lrun] at h; exact .label (ih _ _ _ _ h)
    | label n => simp only [lrun] at h; exact .plabel (ih _ _ _ _ h)
    | close => simp only [lrun] at h; exact .close (ih _ _ _ _ h)
    | cgoto n =>
      simp only [lrun] at h
      split at h
      · rename_i tgt ht
        exact .jump ht (ih _ _ _ _ h)
      · simp at h
    | opn t =>
      simp only [lrun] at h
      split at h
      · rename_i ht
        exact .enter ht (ih _ _ _ _ h)
      · rename_i ht
        split at h
        · rename_i r' hs
          exact .skipToClose ht hs (ih _ _ _ _ h)
        · rename_i r' hs
          exact .skipToElse ht hs (ih _ _ _ _ h)
        · rename_i t' r' hs
          exact .skipToElseIf ht hs (ih _ _ _ _ h)
        · simp at h
      · simp at h
    | elseOpen => simp [lrun, stepB] at h
    | elseIfOpen t => simp [lrun, stepB] at h
    | set n v => simp only [lrun] at h; exact lrun_step ih h
    | setA n a op b => simp only [lrun] at h; exact lrun_step ih h
    | ifSet q a os b hh x y => simp only [lrun] at h; exact lrun_step ih h
    | andSet a b hh => simp only [lrun] at h; exact lrun_step ih h
    | orSet a b hh => simp only [lrun] at h; exact lrun_step ih h
    | call n args => simp only [lrun] at h; exact lrun_step ih h
    | goto n =>
      simp only [lrun] at h
      by_cases hn : n = "end"
      · subst hn
        simp only [beq_self_eq_true, if_true] at h
        split at h
        · rename_i k c2 hs
          simp only [Option.some.injEq, Prod.mk.injEq] at h
          obtain ⟨rfl, rfl⟩ := h
          exact .exit hs
        · simp at h
      · have hne : (n == "end") = false := by simpa using hn
        simp only [hne, Bool.false_eq_true, if_false] at h
        split at h
        · rename_i tgt ht
          exact .gotoL hn ht (ih _ _ _ _ h)
        · simp at h
    | raw t =>
      simp only [lrun] at h
      by_cases hp : nopRaw t = true
      · simp only [hp, if_true] at h
        exact .nop hp (ih _ _ _ _ h)
      · simp only [hp, Bool.false_eq_true, if_false] at h
        by_cases he : t = "endlocal & exit /B %_e%"
        · subst he
          simp only [beq_self_eq_true, if_true] at h
          cases hk : asCode (c.ρ "_e") with
          | none => simp [hk] at h
          | some k =>
            simp only [hk, Option.map_some, Option.some.injEq, Prod.mk.injEq] at h
            obtain ⟨rfl, rfl⟩ := h
            exact .finish hk
        · have hne : (t == "endlocal & exit /B %_e%") = false := by simpa using he
          simp only [hne, Bool.false_eq_true, if_false] at h
          exact lrun_step ih h

/-! ### the line-level relation is deterministic -/

theorem stepB_raw_some {t : String} {c : Cfg} {r : Out × Cfg} (h : stepB (.raw t) c = some r) : t = "rem No operation" := by
  simp only [stepB] at h
  split at h
  · rename_i ht; simpa using ht
  · simp at h

theorem stepB_goto_some {n : String} {c : Cfg} {r : Out × Cfg} (h : stepB (.goto n) c = some r) : n = "end" := by
  simp only [stepB] at h
  split at h
  · rename_i hn; simpa using hn
  · simp at h

theorem nopRaw_rem : nopRaw "rem No operation" = false := by simp [nopRaw, List.isPrefixOf]
theorem nopRaw_endlocal : nopRaw "endlocal & exit /B %_e%" = false := by simp [nopRaw, List.isPrefixOf]

theorem nop_not_step {t : String} {c : Cfg} {r : Out × Cfg} (hp : nopRaw t = true) (hs : stepB (.raw t) c = some r) : False := by
  rw [stepB_raw_some hs, nopRaw_rem] at hp
  simp at hp

theorem LRun.det {whole : List BLine} {L : List BLine} {c : Cfg} {o1 o2 : Out} {c1 c2 : Cfg}
    (h1 : LRun whole L c o1 c1) (h2 : LRun whole L c o2 c2) : o1 = o2 ∧ c1 = c2 := by
  induction h1 generalizing o2 c2 with
  | done => cases h2; exact ⟨rfl, rfl⟩
  | simple hs _ ih =>
    cases h2 with
    | simple hs' r' => rw [hs] at hs'; simp only [Option.some.injEq, Prod.mk.injEq, true_and] at hs'; subst hs'; exact ih r'
    | exit hs' => rw [hs] at hs'; simp at hs'
    | label _ => simp [stepB] at hs
    | jump _ _ => simp [stepB] at hs
    | enter _ _ => simp [stepB] at hs
    | skipToClose _ _ _ => simp [stepB] at hs
    | skipToElse _ _ _ => simp [stepB] at hs
    | skipToElseIf _ _ _ => simp [stepB] at hs
    | close _ => simp [stepB] at hs
    | plabel _ => simp [stepB] at hs
    | finish _ => simp [stepB] at hs
    | nop hp _ => exact (nop_not_step hp hs).elim
    | gotoL hne _ _ => exact absurd (stepB_goto_some hs) hne
  | exit hs =>
    cases h2 with
    | simple hs' _ => rw [hs] at hs'; simp at hs'
    | exit hs' => rw [hs] at hs'; simp only [Option.some.injEq, Prod.mk.injEq, Out.exit.injEq] at hs'; exact ⟨by rw [hs'.1], hs'.2⟩
    | label _ => simp [stepB] at hs
    | jump _ _ => simp [stepB] at hs
    | enter _ _ => simp [stepB] at hs
    | skipToClose _ _ _ => simp [stepB] at hs
    | skipToElse _ _ _ => simp [stepB] at hs
    | skipToElseIf _ _ _ => simp [stepB] at hs
    | close _ => simp [stepB] at hs
    | plabel _ => simp [stepB] at hs
    | finish _ => simp [stepB] at hs
    | nop hp _ => exact (nop_not_step hp hs).elim
    | gotoL hne _ _ => exact absurd (stepB_goto_some hs) hne
  | label _ ih =>
    cases h2 with
    | label r' => exact ih r'
    | simple hs' _ => simp [stepB] at hs'
    | exit hs' => simp [stepB] at hs'
  | jump ht _ ih =>
    cases h2 with
    | jump ht' r' => rw [ht] at ht'; simp only [Option.some.injEq] at ht'; subst ht'; exact ih r'
    | simple hs' _ => simp [stepB] at hs'
    | exit hs' => simp [stepB] at hs'
  | enter ht _ ih =>
    cases h2 with
    | enter _ r' => exact ih r'
    | skipToClose ht' _ _ => rw [ht] at ht'; simp at ht'
    | skipToElse ht' _ _ => rw [ht] at ht'; simp at ht'
    | skipToElseIf ht' _ _ => rw [ht] at ht'; simp at ht'
    | simple hs' _ => simp [stepB] at hs'
    | exit hs' => simp [stepB] at hs'
  | skipToClose ht hk _ ih =>
    cases h2 with
    | enter ht' _ => rw [ht] at ht'; simp at ht'
    | skipToClose _ hk' r' => rw [hk] at hk'; simp only [Option.some.injEq, List.cons.injEq, true_and] at hk'; subst hk'; exact ih r'
    | skipToElse _ hk' _ => rw [hk] at hk'; simp at hk'
    | skipToElseIf _ hk' _ => rw [hk] at hk'; simp at hk'
    | simple hs' _ => simp [stepB] at hs'
    | exit hs' => simp [stepB] at hs'
  | skipToElse ht hk _ ih =>
    cases h2 with
    | enter ht' _ => rw [ht] at ht'; simp at ht'
    | skipToClose _ hk' _ => rw [hk] at hk'; simp at hk'
    | skipToElse _ hk' r' => rw [hk] at hk'; simp only [Option.some.injEq, List.cons.injEq, true_and] at hk'; subst hk'; exact ih r'
    | skipToElseIf _ hk' _ => rw [hk] at hk'; simp at hk'
    | simple hs' _ => simp [stepB] at hs'
    | exit hs' => simp [stepB] at hs'
  | skipToElseIf ht hk _ ih =>
    cases h2 with
    | enter ht' _ => rw [ht] at ht'; simp at ht'
    | skipToClose _ hk' _ => rw [hk] at hk'; simp at hk'
    | skipToElse _ hk' _ => rw [hk] at hk'; simp at hk'
    | skipToElseIf _ hk' r' =>
      rw [hk] at hk'; simp only [Option.some.injEq, List.cons.injEq, BLine.elseIfOpen.injEq] at hk'
      obtain ⟨e1, e2⟩ := hk'; subst e1; subst e2; exact ih r'
    | simple hs' _ => simp [stepB] at hs'
    | exit hs' => simp [stepB] at hs'
  | close _ ih =>
    cases h2 with
    | close r' => exact ih r'
    | simple hs' _ => simp [stepB] at hs'
    | exit hs' => simp [stepB] at hs'
  | plabel _ ih =>
    cases h2 with
    | plabel r' => exact ih r'
    | simple hs' _ => simp [stepB] at hs'
    | exit hs' => simp [stepB] at hs'
  | finish hk =>
    cases h2 with
    | finish hk' => rw [hk] at hk'; simp only [Option.some.injEq] at hk'; exact ⟨by rw [hk'], rfl⟩
    | simple hs' _ => simp [stepB] at hs'
    | exit hs' => simp [stepB] at hs'
    | nop hp _ => rw [nopRaw_endlocal] at hp; simp at hp
  | nop hp _ ih =>
    cases h2 with
    | nop _ r' => exact ih r'
    | simple hs' _ => exact (nop_not_step hp hs').elim
    | exit hs' => exact (nop_not_step hp hs').elim
    | finish _ => rw [nopRaw_endlocal] at hp; simp at hp
  | gotoL hne ht _ ih =>
    cases h2 with
    | gotoL _ ht' r' => rw [ht] at ht'; simp only [Option.some.injEq] at ht'; subst ht'; exact ih r'
    | simple hs' _ => exact absurd (stepB_goto_some hs') hne
    | exit hs' => exact absurd (stepB_goto_some hs') hne

end Tsh.SemB
