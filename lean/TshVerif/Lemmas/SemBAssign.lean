/-
  Simultaneous assignment `x, y = e1, e2` on the Batch target: every value goes through a temporary `_ma<i>` first.
-/
import TshVerif.Lemmas.SemBStmt
import TshVerif.Lemmas.SemAssign
namespace Tsh.SemB
open Tsh Tsh.Tr Tsh.Batch Tsh.Sem

def tmpTextB (i : Nat) : String := "!" ++ tmpName i ++ "!"

def tmpTextsB : Nat → Nat → List String
  | _, 0 => []
  | i, n + 1 => tmpTextB i :: tmpTextsB (i + 1) n

theorem e_ne_tmp (i : Nat) : "_e" ≠ tmpName i := by
  intro e
  have := congrArg String.toList e
  simp [tmpName, String.toList_append] at this

theorem assignedValuesB_sem (count : Nat) (hc : count > 1) : ∀ (vals : List Expr) (i : Nat) (s : St) (ts : List String) (s' : St),
    s.funcs = [] → assignedValues conv count vals vals.length i s = .ok (ts, s') →
    ∀ env vs, Src32.evalList env vals = some vs →
      ts = tmpTextsB i vals.length ∧ ∃ new n, Adv s s' new n ∧ ∀ ρ out, Agree env ρ →
        ∃ ρ', runN new.reverse ⟨ρ, out⟩ = some ⟨ρ', out⟩ ∧
          (∀ x, (∀ k, x ≠ helperName k) → (∀ j, i ≤ j → x ≠ tmpName j) → ρ' x = ρ x) ∧ TmpVals i vs ρ'
  | [], i, s, ts, s', _, h, env, vs, hs => by
    simp only [List.length_nil] at h
    unfold assignedValues at h
    obtain ⟨ev, es⟩ := pureB_ok h
    simp only [Src32.evalList, Option.some.injEq] at hs
    subst hs
    refine ⟨ev, [], 0, by rw [es]; exact Adv.refl s, ?_⟩
    intro ρ out _
    exact ⟨ρ, rfl, fun _ _ _ => rfl, trivial⟩
  | e :: rest, i, s, ts, s', h0, h, env, vs, hs => by
    simp only [List.length_cons] at h
    unfold assignedValues at h
    obtain ⟨r, s1, h1, g1⟩ := bindB_ok h
    simp only [hc, if_true] at g1
    obtain ⟨v, s2, hv, g2⟩ := bindB_ok g1
    obtain ⟨vs', s3, hvs, g3⟩ := bindB_ok g2
    obtain ⟨ev, es⟩ := pureB_ok g3
    simp only [Src32.evalList] at hs
    split at hs
    · rename_i v0 vs0 hv0 hvs0
      simp only [Option.some.injEq] at hs
      subst hs
      obtain ⟨t, new1, n1, er, ad1, sem1⟩ := exprB_sem e true s r s1 env v0 h0 h1 hv0
      subst er
      have h01 : s1.funcs = [] := by rw [ad1.funcs]; exact h0
      -- the temporary
      have hv' : (do varAssignment (tmpName i) t false; varEvaluation (tmpName i) false : BM String) s1 = .ok (v, s2) := hv
      obtain ⟨_, s1', ha1, ha2⟩ := bindB_ok hv'
      have ad2 := varAssignment_top h01 ha1
      have h02 : s1'.funcs = [] := by rw [ad2.funcs]; exact h01
      simp only [varEvaluation, bind, Tr.get, pure, varEvalString, varName_topB _ h02] at ha2
      injection ha2 with ha2
      injection ha2 with ev2 es2
      subst es2
      obtain ⟨ets, new3, n3, ad3, sem3⟩ := assignedValuesB_sem count hc rest (i + 1) s1' vs' s3 h02 hvs env vs0 hvs0
      refine ⟨?_, new3 ++ ([BLine.set (tmpName i) t] ++ new1), n1 + 0 + n3, ?_, ?_⟩
      · rw [ev, ets, ← ev2]; simp [tmpTextsB, tmpTextB]
      · rw [es]; exact (ad1.trans ad2).trans ad3
      · intro ρ out ha
        obtain ⟨ρ1, run1, fr1, hold1⟩ := sem1 ρ out ha
        have ha1' := fr1.agree ha
        have ha2' : Agree env (ρ1.set (tmpName i) v0.render) := by
          intro x w hx
          obtain ⟨hg, hw⟩ := ha1' x w hx
          exact ⟨hg, by rw [set_other _ _ _ _ (good_ne_tmp x i hg)]; exact hw⟩
        obtain ⟨ρ3, run3, fr3, tv3⟩ := sem3 (ρ1.set (tmpName i) v0.render) out ha2'
        refine ⟨ρ3, ?_, ?_, ?_⟩
        · rw [List.reverse_append, List.reverse_append, runN_append, runN_append, run1]
          simp only [List.reverse_cons, List.reverse_nil, List.nil_append, Option.bind, runN, stepB_set out (tmpName i) hold1]
          exact run3
        · intro x hx1 hx2
          rw [fr3 x hx1 (fun j hj => hx2 j (by omega)), set_other _ _ _ _ (hx2 i (Nat.le_refl _))]
          exact fr1 x (fun k _ _ => hx1 k)
        · refine ⟨?_, tv3⟩
          rw [fr3 _ (fun k => tmp_ne_helper i k) (fun j hj e => by have := tmpName_inj e; omega)]
          exact set_same _ _ _
    · simp at hs

theorem storeValuesB_sem : ∀ (vars : List Var) (i : Nat) (s s' : St), (vars.all (fun x => goodName x.name)) = true → s.funcs = [] →
    storeValues conv vars (tmpTextsB i vars.length) s = .ok ((), s') →
    ∃ new, Adv s s' new 0 ∧
      ∀ env vs, vs.length = vars.length → ∀ ρ out, Agree env ρ → TmpVals i vs ρ →
        ∃ ρ', runN new.reverse ⟨ρ, out⟩ = some ⟨ρ', out⟩ ∧ Agree (Src.storeAll env vars vs) ρ' ∧ Keeps ρ ρ' 
  | [], i, s, s', _, _, h => by
    simp only [List.length_nil, tmpTextsB] at h
    unfold storeValues at h
    obtain ⟨_, es⟩ := pureB_ok h
    refine ⟨[], by rw [es]; exact Adv.refl s, ?_⟩
    intro env vs hl ρ out ha _
    have : vs = [] := List.eq_nil_of_length_eq_zero (by simpa using hl)
    subst this
    exact ⟨ρ, rfl, by simpa [Src.storeAll] using ha, Keeps.refl ρ⟩
  | x :: xs, i, s, s', hg, h0, h => by
    simp only [List.length_cons, tmpTextsB] at h
    unfold storeValues at h
    simp only [List.all_cons, Bool.and_eq_true] at hg
    obtain ⟨_, s1, h1, h2⟩ := bindB_ok h
    have h1' : varAssignment x.name (tmpTextB i) x.global s = .ok ((), s1) := h1
    have ad1 := varAssignment_top h0 h1'
    have h01 : s1.funcs = [] := by rw [ad1.funcs]; exact h0
    obtain ⟨new2, ad2, sem2⟩ := storeValuesB_sem xs (i + 1) s1 s' hg.2 h01 h2
    refine ⟨new2 ++ [BLine.set x.name (tmpTextB i)], ad1.trans ad2, ?_⟩
    intro env vs hl ρ out ha tv
    match vs, hl, tv with
    | v :: vs', hl, tv =>
      have hstep : stepB (.set x.name (tmpTextB i)) ⟨ρ, out⟩ = some (.normal, ⟨ρ.set x.name v.render, out⟩) := by
        have hc : CompleteD ρ (tmpTextB i).toList v.render.toList := by
          rw [← tv.1]; exact completeD_var ρ _ (tmpName_valid i)
        simp only [stepB, hc.toExpand]
      have tv' : TmpVals (i + 1) vs' (ρ.set x.name v.render) :=
        TmpVals.congr (fun j _ => set_other _ _ _ _ (fun e => good_ne_tmp x.name j hg.1 e.symm)) tv.2
      obtain ⟨ρ', run, ha', ee⟩ := sem2 (env.set x.name v) vs' (by simpa using hl) (ρ.set x.name v.render) out
        (agree_set _ _ hg.1 ha) tv'
      refine ⟨ρ', ?_, by simpa [Src.storeAll] using ha', ?_⟩
      · rw [List.reverse_append, runN_append]
        simp only [List.reverse_cons, List.reverse_nil, List.nil_append, runN, hstep, Option.bind]
        exact run
      · exact (keeps_set_good _ _ hg.1).trans ee

theorem evalList32_length : ∀ (es : List Expr) (env : Src.Env) (vs : List Src.Val), Src32.evalList env es = some vs → vs.length = es.length
  | [], _, vs, h => by simp [Src32.evalList] at h; subst h; rfl
  | e :: rest, env, vs, h => by
    simp only [Src32.evalList] at h
    split at h
    · rename_i v vs' _ hvs
      simp only [Option.some.injEq] at h
      subst h
      simp [evalList32_length rest env vs' hvs]
    · simp at h

theorem runLinesB_all_normal {ls : List BLine} {c c1 : Cfg} (h : runN ls c = some c1) : runLinesB ls c = some (.normal, c1) := by
  have := runLinesB_of_runN h []
  simpa [runLinesB] using this

theorem assignNB_sem {vars : List Var} {vals : List Expr} (hlen : vars.length = vals.length) (hc : vars.length > 1)
    (hg : (vars.all (fun x => goodName x.name)) = true) {s s' : St} (h0 : s.funcs = [])
    (h : assignValues conv vars vals s = .ok ((), s')) (src : Src.SCfg → Option (Out × Src.SCfg))
    (hsrc : ∀ c o c', src c = some (o, c') →
      ∃ vs, Src32.evalList c.env vals = some vs ∧ o = .normal ∧ c' = { c with env := Src.storeAll c.env vars vs }) :
    StmtSemB src s s' := by
  unfold assignValues at h
  obtain ⟨values, s1, h1, h2⟩ := bindB_ok h
  rw [hlen] at h1
  intro c o c' hs
  obtain ⟨vs, hvs, eo, ec⟩ := hsrc c o c' hs
  subst eo; subst ec
  obtain ⟨ets, new1, n1, ad1, sem1⟩ := assignedValuesB_sem vals.length (by omega) vals 0 s values s1 h0 h1 c.env vs hvs
  rw [ets, ← hlen] at h2
  have h01 : s1.funcs = [] := by rw [ad1.funcs]; exact h0
  obtain ⟨new2, ad2, sem2⟩ := storeValuesB_sem vars 0 s1 s' hg h01 h2
  refine ⟨new2 ++ new1, n1 + 0, ad1.trans ad2, ?_⟩
  intro ρ ha
  obtain ⟨ρ1, run1, fr1, tv1⟩ := sem1 ρ c.out ha
  have ha1 : Agree c.env ρ1 := by
    intro x v hx
    obtain ⟨hgx, hv⟩ := ha x v hx
    exact ⟨hgx, by rw [fr1 x (fun k => good_ne_helper x k hgx) (fun j _ => good_ne_tmp x j hgx)]; exact hv⟩
  obtain ⟨ρ2, run2, ha2, ee2⟩ := sem2 c.env vs (by rw [evalList32_length vals c.env vs hvs, hlen]) ρ1 c.out ha1 tv1
  refine ⟨ρ2, ?_, fun _ => ⟨ha2, ?_⟩⟩
  · rw [List.reverse_append, runLinesB_of_runN run1]
    exact runLinesB_all_normal run2
  · refine Keeps.trans ⟨fr1 _ (fun k => e_ne_helper k) (fun j _ => e_ne_tmp j), fun j => ?_⟩ ee2
    exact fr1 _ (fun k => flag_ne_helper j k) (fun i _ => flag_ne_tmp j i)

end Tsh.SemB
